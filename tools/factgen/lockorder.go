package main

import (
	"go/ast"
	"go/importer"
	"go/parser"
	"go/token"
	"go/types"
	"os"
	"path/filepath"
	"sort"
	"strings"
)

// lockOrder: the lock-order relation of package toxiproxy (root package of the repository), from
// the typed AST.  A lock is named by the type that owns the mutex (ProxyCollection, Proxy,
// ToxicCollection, ConnectionList); `proxy.tomb.Wait()` - stop() joining the accept loop - is the
// pseudo-lock "acceptloop", held by (*Proxy).server for its whole body.  An entry (h, a, f) says:
// function f, while h is held (by itself, since an earlier Lock in source order that is not yet
// released), acquires a - directly or through a statically resolved call of a function of this
// package (goroutines that the function joins with a WaitGroup count as calls).
func lockOrder(repo string) ([][3]string, error) {
	lfset := token.NewFileSet()
	ents, err := os.ReadDir(repo)
	if err != nil {
		return nil, err
	}
	var files []*ast.File
	for _, e := range ents {
		if strings.HasSuffix(e.Name(), ".go") && !strings.HasSuffix(e.Name(), "_test.go") {
			f, err := parser.ParseFile(lfset, filepath.Join(repo, e.Name()), nil, 0)
			if err != nil {
				return nil, err
			}
			files = append(files, f)
		}
	}
	cwd, _ := os.Getwd()
	os.Chdir(repo)
	defer os.Chdir(cwd)
	conf := types.Config{Importer: importer.ForCompiler(lfset, "source", nil)}
	info := &types.Info{Uses: map[*ast.Ident]types.Object{}, Defs: map[*ast.Ident]types.Object{},
		Selections: map[*ast.SelectorExpr]*types.Selection{}, Types: map[ast.Expr]types.TypeAndValue{}}
	pkg, err := conf.Check("github.com/Shopify/toxiproxy/v2", lfset, files, info)
	if err != nil {
		return nil, err
	}
	named := func(t types.Type) string {
		for {
			if p, ok := t.(*types.Pointer); ok {
				t = p.Elem()
				continue
			}
			break
		}
		if n, ok := t.(*types.Named); ok && n.Obj().Pkg() == pkg {
			return n.Obj().Name()
		}
		return ""
	}
	// the owner of the mutex a Lock/Unlock call is made on: the named type of this package that
	// embeds it or has it as a field
	owner := func(x ast.Expr) string {
		if tv, ok := info.Types[x]; ok {
			if n := named(tv.Type); n != "" {
				return n
			}
		}
		if se, ok := x.(*ast.SelectorExpr); ok {
			if tv, ok := info.Types[se.X]; ok {
				if n := named(tv.Type); n != "" {
					return n
				}
			}
		}
		return "?" + types.ExprString(x)
	}
	type ev struct {
		kind string // lock, unlock, deferunlock, call, wait
		what string
		fn   *types.Func
	}
	funcs := map[*types.Func][]ev{}
	names := map[*types.Func]string{}
	calleeOf := func(ce *ast.CallExpr) *types.Func {
		var id *ast.Ident
		switch f := ce.Fun.(type) {
		case *ast.Ident:
			id = f
		case *ast.SelectorExpr:
			id = f.Sel
		}
		if id == nil {
			return nil
		}
		if fn, ok := info.Uses[id].(*types.Func); ok && fn.Pkg() == pkg {
			return fn
		}
		return nil
	}
	for _, f := range files {
		for _, d := range f.Decls {
			fd, ok := d.(*ast.FuncDecl)
			if !ok || fd.Body == nil {
				continue
			}
			fn := info.Defs[fd.Name].(*types.Func)
			nm := fd.Name.Name
			if fd.Recv != nil && len(fd.Recv.List) > 0 {
				nm = named(info.Types[fd.Recv.List[0].Type].Type) + "." + nm
			}
			names[fn] = nm
			joins := false
			ast.Inspect(fd.Body, func(n ast.Node) bool {
				if ce, ok := n.(*ast.CallExpr); ok {
					if se, ok := ce.Fun.(*ast.SelectorExpr); ok && se.Sel.Name == "Wait" {
						if tv, ok := info.Types[se.X]; ok && strings.Contains(tv.Type.String(), "WaitGroup") {
							joins = true
						}
					}
				}
				return true
			})
			var evs []ev
			var walk func(n ast.Node) bool
			lockCall := func(ce *ast.CallExpr, deferred bool) bool {
				se, ok := ce.Fun.(*ast.SelectorExpr)
				if !ok {
					return false
				}
				switch se.Sel.Name {
				case "Lock", "RLock":
					evs = append(evs, ev{kind: "lock", what: owner(se.X)})
					return true
				case "Unlock", "RUnlock":
					if deferred {
						evs = append(evs, ev{kind: "deferunlock", what: owner(se.X)})
					} else {
						evs = append(evs, ev{kind: "unlock", what: owner(se.X)})
					}
					return true
				case "Wait":
					if tv, ok := info.Types[se.X]; ok && strings.HasSuffix(tv.Type.String(), ".Tomb") && types.ExprString(se.X) == "proxy.tomb" {
						evs = append(evs, ev{kind: "lock", what: "acceptloop"}, ev{kind: "unlock", what: "acceptloop"})
						return true
					}
				}
				return false
			}
			walk = func(n ast.Node) bool {
				switch x := n.(type) {
				case *ast.DeferStmt:
					if lockCall(x.Call, true) {
						return false
					}
					if fn := calleeOf(x.Call); fn != nil {
						evs = append(evs, ev{kind: "call", fn: fn})
					}
					return false
				case *ast.GoStmt:
					if !joins {
						return false // runs concurrently: not under this function's locks
					}
					if fl, ok := x.Call.Fun.(*ast.FuncLit); ok {
						ast.Inspect(fl.Body, walk)
						return false
					}
					if fn := calleeOf(x.Call); fn != nil {
						evs = append(evs, ev{kind: "call", fn: fn})
					}
					return false
				case *ast.CallExpr:
					if lockCall(x, false) {
						return false
					}
					if fn := calleeOf(x); fn != nil {
						evs = append(evs, ev{kind: "call", fn: fn})
					}
					return true
				}
				return true
			}
			ast.Inspect(fd.Body, walk)
			funcs[fn] = evs
		}
	}
	// what a function may acquire, transitively
	acq := map[*types.Func]map[string]bool{}
	for fn := range funcs {
		acq[fn] = map[string]bool{}
	}
	for changed := true; changed; {
		changed = false
		for fn, evs := range funcs {
			add := func(a string) {
				if !acq[fn][a] {
					acq[fn][a] = true
					changed = true
				}
			}
			for _, e := range evs {
				if e.kind == "lock" {
					add(e.what)
				}
				if e.kind == "call" {
					for a := range acq[e.fn] {
						add(a)
					}
				}
			}
		}
	}
	set := map[[3]string]bool{}
	for fn, evs := range funcs {
		var held []string
		if names[fn] == "Proxy.server" {
			held = append(held, "acceptloop")
		}
		for _, e := range evs {
			switch e.kind {
			case "lock":
				for _, h := range held {
					set[[3]string{h, e.what, names[fn]}] = true
				}
				held = append(held, e.what)
			case "unlock":
				for i := len(held) - 1; i >= 0; i-- {
					if held[i] == e.what {
						held = append(held[:i], held[i+1:]...)
						break
					}
				}
			case "call":
				for _, h := range held {
					for a := range acq[e.fn] {
						set[[3]string{h, a, names[fn]}] = true
					}
				}
			}
		}
	}
	var out [][3]string
	for k := range set {
		out = append(out, k)
	}
	sort.Slice(out, func(i, j int) bool {
		for k := 0; k < 3; k++ {
			if out[i][k] != out[j][k] {
				return out[i][k] < out[j][k]
			}
		}
		return false
	})
	return out, nil
}
