module factgen

go 1.26
