module overlaygen

go 1.26
