// overlaygen builds a `go build -overlay` description for /repo's working tree: every
// non-test Go file of the toxiproxy packages that imports math/rand is re-printed with
// that import redirected to the harness' scripted shim (verifharness/vrand, same function
// names).  Nothing is written into /repo.  The rewrite is done on the AST, never on text.
//
// Calls of math/rand functions the shim does not provide make the overlaid package fail to
// compile, which the check reports as a broken tie (never a silent mix of real and
// scripted randomness).
package main

import (
	"encoding/json"
	"flag"
	"fmt"
	"go/ast"
	"go/parser"
	"go/printer"
	"go/token"
	"os"
	"path/filepath"
	"strconv"
	"strings"
)

func main() {
	repo := flag.String("repo", "/repo", "toxiproxy working tree")
	dir := flag.String("dir", "", "output directory (overlay.json + rewritten files)")
	flag.Parse()
	replace := map[string]string{}
	var sites []string
	pkgs := []string{"toxics", "."}
	for _, p := range pkgs {
		ents, err := os.ReadDir(filepath.Join(*repo, p))
		if err != nil {
			fmt.Fprintln(os.Stderr, err)
			os.Exit(1)
		}
		for _, e := range ents {
			name := e.Name()
			if e.IsDir() || !strings.HasSuffix(name, ".go") || strings.HasSuffix(name, "_test.go") {
				continue
			}
			src := filepath.Join(*repo, p, name)
			fset := token.NewFileSet()
			f, err := parser.ParseFile(fset, src, nil, parser.ParseComments)
			if err != nil {
				fmt.Fprintln(os.Stderr, err)
				os.Exit(1)
			}
			changed := false
			for _, im := range f.Imports {
				path, _ := strconv.Unquote(im.Path.Value)
				if path == "math/rand" || path == "math/rand/v2" {
					local := "rand"
					if im.Name != nil {
						local = im.Name.Name
					}
					im.Path.Value = strconv.Quote("verifharness/vrand")
					im.Name = ast.NewIdent(local)
					changed = true
				}
			}
			if !changed {
				continue
			}
			// record the call sites (evidence)
			ast.Inspect(f, func(n ast.Node) bool {
				if call, ok := n.(*ast.CallExpr); ok {
					if sel, ok := call.Fun.(*ast.SelectorExpr); ok {
						if id, ok := sel.X.(*ast.Ident); ok && id.Name == "rand" {
							sites = append(sites, fmt.Sprintf("%s/%s:%d rand.%s", p, name, fset.Position(call.Pos()).Line, sel.Sel.Name))
						}
					}
				}
				return true
			})
			dst := filepath.Join(*dir, strings.ReplaceAll(filepath.Join(p, name), string(filepath.Separator), "__"))
			out, err := os.Create(dst)
			if err != nil {
				fmt.Fprintln(os.Stderr, err)
				os.Exit(1)
			}
			if err := printer.Fprint(out, fset, f); err != nil {
				fmt.Fprintln(os.Stderr, err)
				os.Exit(1)
			}
			out.Close()
			replace[src] = dst
		}
	}
	// yield points for the concurrency engine (E7): a call of the hook variable VerifYield
	// (a no-op unless the harness sets it) is inserted in api.go in front of the statements
	// between which the handlers release all locks: after the lookup of the proxy, before
	// the defaults are read, before the effect call
	{
		src := filepath.Join(*repo, "api.go")
		if b, err := os.ReadFile(src); err == nil {
			starts := []string{"input := Proxy{Listen:", "err = proxy.Update(", "toxic, err := proxy.Toxics.AddToxicJson(",
				"toxic, err := proxy.Toxics.UpdateToxicJson(", "err = proxy.Toxics.RemoveToxic(", "err = server.Collection.Add(",
				"err := server.Collection.Remove("}
			var out []string
			n := 0
			for i, line := range strings.Split(string(b), "\n") {
				t := strings.TrimSpace(line)
				for _, st := range starts {
					if strings.HasPrefix(t, st) {
						ind := line[:len(line)-len(strings.TrimLeft(line, "\t "))]
						out = append(out, fmt.Sprintf("%sVerifYield(\"api.go:%d\")", ind, i+1))
						n++
					}
				}
				out = append(out, line)
			}
			dst := filepath.Join(*dir, "api.go")
			if err := os.WriteFile(dst, []byte(strings.Join(out, "\n")), 0o644); err != nil {
				fmt.Fprintln(os.Stderr, err)
				os.Exit(1)
			}
			replace[src] = dst
			sites = append(sites, fmt.Sprintf("api.go: %d yield points", n))
		}
	}
	// every proxy object ever made is reported to the harness (E7 must be able to stop a
	// listener whose proxy object is no longer registered): a call of the hook variable
	// VerifNewProxy in front of NewProxy's `return proxy`
	{
		src := filepath.Join(*repo, "proxy.go")
		if b, err := os.ReadFile(src); err == nil {
			var out []string
			in, n := false, 0
			inUpdate := false
			for i, line := range strings.Split(string(b), "\n") {
				if strings.HasPrefix(line, "func NewProxy(") {
					in = true
				}
				// (and a yield point inside Proxy.Update, between the stop of a re-addressed proxy
				// and its start: the proxy mutex is held, other proxies are free to act)
				// (and one in front of Proxy.Update's Lock(): whatever Update does before it takes the
				// proxy's mutex - nothing, in the code as it is - happens while other requests run)
				if strings.HasPrefix(line, "func ") {
					inUpdate = strings.HasPrefix(line, "func (proxy *Proxy) Update(")
				}
				if inUpdate && strings.TrimSpace(line) == "proxy.Lock()" {
					ind := line[:len(line)-len(strings.TrimLeft(line, "\t "))]
					out = append(out, fmt.Sprintf("%sVerifYield(\"proxy.go:%d\")", ind, i+1))
				}
				if strings.TrimSpace(line) == "return start(proxy)" {
					ind := line[:len(line)-len(strings.TrimLeft(line, "\t "))]
					out = append(out, fmt.Sprintf("%sVerifYield(\"proxy.go:%d\")", ind, i+1))
				}
				if in && strings.TrimSpace(line) == "return proxy" {
					out = append(out, "\tVerifNewProxy(proxy)")
					n++
					in = false
				}
				out = append(out, line)
			}
			if n == 1 {
				dst := filepath.Join(*dir, "proxy.go")
				if err := os.WriteFile(dst, []byte(strings.Join(out, "\n")), 0o644); err != nil {
					fmt.Fprintln(os.Stderr, err)
					os.Exit(1)
				}
				replace[src] = dst
				sites = append(sites, "proxy.go: NewProxy reports to VerifNewProxy")
			}
		}
	}
	// a yield point inside AddOrReplace / Add, between `existing.Stop()` and `proxy.Start()`
	// (the collection lock is held; `Proxy.Update` of another proxy does not take it)
	{
		src := filepath.Join(*repo, "proxy_collection.go")
		if b, err := os.ReadFile(src); err == nil {
			var out []string
			n := 0
			for i, line := range strings.Split(string(b), "\n") {
				if strings.TrimSpace(line) == "err := proxy.Start()" {
					ind := line[:len(line)-len(strings.TrimLeft(line, "\t "))]
					out = append(out, fmt.Sprintf("%sVerifYield(\"proxy_collection.go:%d\")", ind, i+1))
					n++
				}
				out = append(out, line)
			}
			if n > 0 {
				dst := filepath.Join(*dir, "proxy_collection.go")
				if err := os.WriteFile(dst, []byte(strings.Join(out, "\n")), 0o644); err != nil {
					fmt.Fprintln(os.Stderr, err)
					os.Exit(1)
				}
				replace[src] = dst
				sites = append(sites, fmt.Sprintf("proxy_collection.go: %d yield points", n))
			}
		}
	}
	// yield points inside the ToxicCollection methods, in front of the chain changes (under the
	// collection's lock in the unchanged code: a sleep there only makes a request hold its lock
	// a little longer, which is what widens the windows of requests that do NOT hold it)
	{
		src := filepath.Join(*repo, "toxic_collection.go")
		if b, err := os.ReadFile(src); err == nil {
			var out []string
			n := 0
			for i, line := range strings.Split(string(b), "\n") {
				t := strings.TrimSpace(line)
				if strings.HasPrefix(t, "c.chainAddToxic(") || strings.HasPrefix(t, "c.chainUpdateToxic(") || strings.HasPrefix(t, "c.chainRemoveToxic(ctx, toxic)") {
					ind := line[:len(line)-len(strings.TrimLeft(line, "\t "))]
					out = append(out, fmt.Sprintf("%sVerifYield(\"toxic_collection.go:%d\")", ind, i+1))
					n++
				}
				out = append(out, line)
			}
			if n > 0 {
				dst := filepath.Join(*dir, "toxic_collection.go")
				if err := os.WriteFile(dst, []byte(strings.Join(out, "\n")), 0o644); err != nil {
					fmt.Fprintln(os.Stderr, err)
					os.Exit(1)
				}
				replace[src] = dst
				sites = append(sites, fmt.Sprintf("toxic_collection.go: %d yield points", n))
			}
		}
	}
	// a file that exists only in the overlay: read-only accessors for the harness (package
	// toxiproxy, build tag verif); nothing is written into /repo
	shim := filepath.Join(*dir, "verif_export.go")
	if err := os.WriteFile(shim, []byte(exportShim), 0o644); err != nil {
		fmt.Fprintln(os.Stderr, err)
		os.Exit(1)
	}
	replace[filepath.Join(*repo, "verif_export_shim.go")] = shim
	b, _ := json.MarshalIndent(map[string]any{"Replace": replace}, "", " ")
	if err := os.WriteFile(filepath.Join(*dir, "overlay.json"), b, 0o644); err != nil {
		fmt.Fprintln(os.Stderr, err)
		os.Exit(1)
	}
	fmt.Printf("%d files overlaid; rand call sites: %s\n", len(replace), strings.Join(sites, ", "))
}

const exportShim = `//go:build verif

package toxiproxy

import "net"

// VerifCounts reports the sizes of a proxy's connection registry and of its toxic
// collection's link table (read-only accessor for the verification harness; this file
// exists only in the build overlay).
func VerifCounts(p *Proxy) (conns int, links int) {
	p.connections.Lock()
	conns = len(p.connections.list)
	p.connections.Unlock()
	p.Toxics.Lock()
	links = len(p.Toxics.links)
	p.Toxics.Unlock()
	return
}

// VerifYield is called at the yield points the overlay inserts into api.go (between the
// lock-free steps of a handler); the concurrency engine sets it to stretch those windows.
var VerifYield = func(site string) {}

// VerifNewProxy is told about every proxy object NewProxy makes.
var VerifNewProxy = func(p *Proxy) {}

// VerifEachConn calls f for every socket in the proxy's connection registry (the harness
// uses it to shrink kernel buffers so that a non-reading peer blocks the proxy's writes after
// a few kilobytes; it changes no toxiproxy state).
func VerifEachConn(p *Proxy, f func(name string, c net.Conn)) {
	p.connections.Lock()
	defer p.connections.Unlock()
	for n, c := range p.connections.list {
		f(n, c)
	}
}
`
