import Toxi.Model.Api
import Toxi.Driver.Util
/-
Engine E4: the HTTP API model, one request per line.

  env <spelling-hex> <resolved-hex|-> <bound-hex|-> <port>     address table entry (session start)
  busy <port>                                                  a port held by a foreign listener
  variant legacy|fixed                                         UpdateToxicJson behaviour
  req <METHOD> <seg-hex,seg-hex,...|-> <b|n> <body tokens>
  state                                                        canonical dump of the registry

Body tokens: `-` (no body), `bad` (invalid JSON), else a value:
  z | t | f | n:<int|X>:<num>/<den>|X | s:<hex> | [ v* ] | { (s:<hex> v)* }
-/
namespace Toxi.Driver.E4
open Toxi.Api Toxi.Driver
open Toxi.Toxic (Frac)

structure State where
  env : Env := ⟨[], [], []⟩
  v   : UpdVariant := .fixed
  s   : Toxi.Api.State := []

def init : State := {}

def strOfHex (h : String) : Option String :=
  if h == "-" then some "" else
  (bytesOfHex h).bind fun bs => String.fromUTF8? (ByteArray.mk bs.toArray)

/-- Parse one JSON value from the token list. -/
def parseVal : Nat → List String → Option (J × List String)
  | 0, _ => none
  | _, [] => none
  | fuel + 1, tok :: rest =>
    if tok == "z" then some (.null, rest)
    else if tok == "t" then some (.bool true, rest)
    else if tok == "f" then some (.bool false, rest)
    else if tok.startsWith "s:" then (strOfHex (tok.drop 2).toString).map fun s => (.str s, rest)
    else if tok.startsWith "n:" then
      match (tok.drop 2).toString.splitOn ":" with
      | [i, f] =>
        let int := i.toInt?
        let fr : Option Frac := match f.splitOn "/" with
          | [a, b] => match a.toInt?, b.toInt? with
            | some a, some b => some ⟨a, b⟩
            | _, _ => none
          | _ => none
        some (.num int fr, rest)
      | _ => none
    else if tok == "[" then
      let rec items (n : Nat) (ts : List String) (acc : List J) : Option (List J × List String) :=
        match n, ts with
        | 0, _ => none
        | _, [] => none
        | n + 1, t :: ts' =>
          if t == "]" then some (acc.reverse, ts')
          else match parseVal fuel (t :: ts') with
            | some (v, ts'') => items n ts'' (v :: acc)
            | none => none
      (items (rest.length + 1) rest []).map fun (xs, r) => (.arr xs, r)
    else if tok == "{" then
      let rec fields (n : Nat) (ts : List String) (acc : List (String × J)) : Option (List (String × J) × List String) :=
        match n, ts with
        | 0, _ => none
        | _, [] => none
        | n + 1, t :: ts' =>
          if t == "}" then some (acc.reverse, ts')
          else if t.startsWith "s:" then
            match strOfHex (t.drop 2).toString, parseVal fuel ts' with
            | some k, some (v, ts'') => fields n ts'' ((k, v) :: acc)
            | _, _ => none
          else none
      (fields (rest.length + 1) rest []).map fun (kvs, r) => (.obj kvs, r)
    else none

def parseBody (toks : List String) : Option Body :=
  match toks with
  | ["-"] => some .empty
  | ["bad"] => some .bad
  | _ => match parseVal 64 toks with
    | some (v, []) => some (.val v)
    | _ => none

def parseMethod (m : String) : Method :=
  match m with
  | "GET" => .get | "POST" => .post | "PATCH" => .patch | "DELETE" => .delete | "PUT" => .put | _ => .other

def parsePath (p : String) : Option (List String) :=
  if p == "-" then some [] else (p.splitOn ",").mapM strOfHex

/-! canonical printing -/

def toxStr (t : ToxicRec) : String :=
  let attrs := ",".intercalate (t.attrs.map fun a => s!"{a.1}={a.2}")
  s!"T({t.name}|{t.type}|{t.stream}|{t.tox.num}/{t.tox.den}|{attrs})"

def proxyStr (p : ProxyRec) : String :=
  let ts := ";".intercalate (p.listing.map toxStr)
  s!"P({p.name}|{p.listen}|{p.upstream}|{bstr p.enabled}|{ts})"

def sortByName (ps : List ProxyRec) : List ProxyRec :=
  (ps.toArray.qsort (fun a b => a.name < b.name)).toList

def bodyStr : RespBody → String
  | .none => "-"
  | .error e => s!"E{e.status}"
  | .text _ => "TXT"
  | .proxy p => proxyStr p
  | .proxies ps => "M[" ++ " ".intercalate ((sortByName ps).map proxyStr) ++ "]"
  | .populate ps e => "POP[" ++ " ".intercalate (ps.map proxyStr) ++ "]" ++ (match e with | some e => s!"E{e.status}" | none => "")
  | .toxic t => toxStr t
  | .toxics ts => "L[" ++ ";".intercalate (ts.map toxStr) ++ "]"

def stateStr (s : Toxi.Api.State) : String :=
  "M[" ++ " ".intercalate ((sortByName s).map proxyStr) ++ "]"

def step (st : State) (line : String) : State × String :=
  match words line with
  | ["env", sp, r, b, port] =>
    match strOfHex sp, strOfHex r, strOfHex b, port.toNat? with
    | some sp, some r', some b', some port =>
      let a : Addr := ⟨sp, if r == "-" then none else some r', if b == "-" then none else some b', port⟩
      ({ st with env := { st.env with addrs := st.env.addrs ++ [a] } }, "ok")
    | _, _, _, _ => (st, "bad-op")
  | ["same", c, n] =>
    match strOfHex c, strOfHex n with
    | some c, some n => ({ st with env := { st.env with same := (c, n) :: st.env.same } }, "ok")
    | _, _ => (st, "bad-op")
  | ["busy", port] =>
    match port.toNat? with
    | some p => ({ st with env := { st.env with busy := p :: st.env.busy } }, "ok")
    | none => (st, "bad-op")
  | ["variant", v] => ({ st with v := if v == "legacy" then .legacy else .fixed }, "ok")
  | ["state"] => (st, stateStr st.s)
  | ["ports"] =>
    -- the ports a listener is bound to (enabled proxies), sorted
    let ps := (portsInUse st.env st.s).toArray.qsort (· < ·)
    (st, " ".intercalate (ps.toList.map toString))
  | ["envok"] => (st, bstr (spellingOK st.env))
  | ["portsok"] => (st, bstr (boundOK st.env))
  | "req" :: m :: path :: ua :: body =>
    match parsePath path, parseBody body with
    | some p, some b =>
      let r : Request := ⟨parseMethod m, p, ua == "b", b⟩
      let (s', resp) := Toxi.Api.step st.v st.env st.s r
      ({ st with s := s' }, s!"{resp.status} {bodyStr resp.body} | nf={bstr resp.netFail} nondet={bstr resp.nondet}")
    | _, _ => (st, "bad-op parse")
  | _ => (st, "bad-op")

end Toxi.Driver.E4
