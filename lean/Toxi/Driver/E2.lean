import Toxi.Model.StageEnv
import Toxi.Driver.Util
/-
Engine E2: one ToxicStub + one toxic, lock-step with the real `Pipe` under synctest.

  cfg <legacy|fixed> <type> <a1> <a2> <a3> tox <num> <den> incap <k>
  start <num> <den>      go stub.Run(wrapper); the toxicity draw is num/den
  in <hex>               a sender offers a chunk stamped with the current clock
  eos                    close(Input)
  adv <ns>               let virtual time pass
  sink <0|1>             the sink goroutine receives continuously / is stopped
  take                   one non-blocking receive from Output
  intr                   go InterruptToxic()
  draws d1 d2 ...        append results for the toxic's next rand.Intn/Int63n calls
  upd <type> <a1> <a2> <a3> tox <num> <den>     replace the configuration (between runs)

Reply: observables `t= acc= run= closed= intr= em= take=` then ` | ` guidance `pc= timer= race=`.
-/
namespace Toxi.Driver.E2
open Toxi.Toxic Toxi.Driver

abbrev State := Env

def init : State := {}

def parseCfg (ty : String) (a1 a2 a3 : Int) : Option Cfg :=
  match ty with
  | "noop" => some .noop
  | "latency" => some (.latency a1 a2)
  | "bandwidth" => some (.bandwidth a1)
  | "slicer" => some (.slicer a1 a2 a3)
  | "slow_close" => some (.slowClose a1)
  | "timeout" => some (.timeout a1)
  | "limit_data" => some (.limitData a1)
  | "reset_peer" => some (.resetPeer a1)
  | _ => none

def pcTag : Pc → String
  | .idle _ => "idle" | .idleT _ => "idleT" | .out _ _ => "out" | .nap _ w =>
    (match w with
     | .latency .. => "nap-latency" | .bwInstal .. => "nap-bwinstal" | .bwFinal .. => "nap-bwfinal"
     | .slicerGap .. => "nap-slicergap" | .slowClose => "nap-slowclose")
  | .hold _ => "hold" | .flush _ _ => "flush" | .ret => "ret" | .crash w => "crash:" ++ (w.replace " " "_")

def intrStr : IntrSt → String
  | .none => "-" | .pending => "p" | .waitRet => "p" | .done true => "t" | .done false => "f"

def emStr (l : List Emission) : String :=
  if l.isEmpty then "-" else
  ";".intercalate (l.reverse.map fun e => s!"{e.time}:{hexOfBytes e.c.data}:{e.c.ts}")

def status (e : Env) (take : String) : String :=
  let run := bstr e.pc.running
  let tm := match e.pc.timer with | some d => toString d | none => "-"
  let crash := match e.pc with | .crash w => " crash=" ++ w.replace " " "_" | _ => ""
  s!"t={e.now} acc={e.accepted} run={run} closed={bstr e.st.closed} intr={intrStr e.intr} em={emStr e.log} take={take}{crash} | pc={pcTag e.pc} timer={tm} race={bstr e.race} inq={e.inq.length} src={e.src.length} draws={e.draws.length}"

def fin (e : Env) (take : String := "-") : State × String :=
  let e := e.settle settleFuel
  ({ e with log := [] }, status e take)

def ints (ws : List String) : Option (List Int) := ws.mapM String.toInt?

def step (e : State) (line : String) : State × String :=
  match words line with
  | ["cfg", v, ty, a1, a2, a3, "tox", n, d, "incap", k] =>
    match ints [a1, a2, a3, n, d], k.toNat? with
    | some [a1, a2, a3, n, d], some k =>
      match parseCfg ty a1 a2 a3 with
      | some c =>
        let e' : Env := { v := if v == "legacy" then .legacy else .fixed, cfg := c, tox := ⟨n, d⟩, incap := k }
        (e', "ok")
      | none => (e, "bad-op")
    | _, _ => (e, "bad-op")
  | ["upd", ty, a1, a2, a3, "tox", n, d] =>
    match ints [a1, a2, a3, n, d] with
    | some [a1, a2, a3, n, d] =>
      match parseCfg ty a1 a2 a3 with
      | some c => if e.pc.running then (e, "bad-op upd-while-running") else ({ e with cfg := c, tox := ⟨n, d⟩ }, "ok")
      | none => (e, "bad-op")
    | _ => (e, "bad-op")
  | ["start", n, d] =>
    match ints [n, d] with
    | some [n, d] =>
      if e.pc.running then (e, "bad-op start-while-running") else
      if e.st.closed then (e, "bad-op start-on-closed-stub") else
      match e.pc with
      | .crash _ => (e, "bad-op crashed")
      | _ =>
      let active := Frac.lt ⟨n, d⟩ e.tox
      let intr := match e.intr with | .done _ => IntrSt.none | x => x
      fin { e with active := active, pc := start e.cfg active e.now, intr := intr }
    | _ => (e, "bad-op")
  | ["in", h] =>
    match bytesOfHex h with
    | some b => if e.inClosed then (e, "bad-op send-on-closed") else fin { e with src := e.src ++ [⟨b, e.now⟩] }
    | none => (e, "bad-op")
  | ["eos"] => if e.inClosed || !e.src.isEmpty then (e, "bad-op eos") else fin { e with inClosed := true }
  | ["adv", d] =>
    match d.toInt? with
    | some d => if d < 0 then (e, "bad-op") else
      let e' := e.advance 100000 (e.now + d)
      fin e'
    | none => (e, "bad-op")
  | ["sink", b] =>
    match boolOf b with
    | some b => fin { e with sinkReady := b }
    | none => (e, "bad-op")
  | ["take"] =>
    if e.sinkReady then (e, "bad-op take-with-sink") else
    match e.pc.offer with
    | some c =>
      let e' := e.fire (.taken e.now)
      fin e' s!"{hexOfBytes c.data}:{c.ts}"
    | none => fin e (if e.st.closed then "closed" else "none")
  | ["intr"] =>
    match e.intr with
    | .pending | .waitRet => (e, "bad-op intr-in-progress")
    | _ =>
      if !e.pc.running && !e.st.closed then (e, "bad-op intr-nobody-running") else
      fin { e with intr := .pending }
  | "draws" :: ds =>
    match ints ds with
    | some ds => ({ e with draws := e.draws ++ ds }, "ok")
    | none => (e, "bad-op")
  | _ => (e, "bad-op")

end Toxi.Driver.E2
