import Toxi.Model.Link
import Toxi.Driver.Util
/-
Engine E3: a ToxicCollection with its links, driven through the exported API
(StartLink, AddToxicJson, UpdateToxicJson, RemoveToxic, ResetToxics) under synctest.

  newlink <name> <up|down>
  src <name> <hex>          the source's next Read returns these bytes
  srceof <name>             then EOF
  sink <name> <0|1>         the sink accepts writes / blocks them
  sinkfail <name>           the sink's Write fails from now on
  add <up|down> <tname> <type> <a1> <a2> <a3> <tox 0|1>
  upd <tname> <a1> <a2> <a3> <tox 0|1>
  del <tname>
  resettoxics
  adv <ns>
Reply: `t=<now> api=<idle|busy> chain=<up names>/<down names> <link>…` with
`<link> = name:r=<reads>,c=<destClosed>,em=<t:hex;…>` (only links not yet removed),
then ` | ` guidance (`pcs=`, `crash=`).
-/
namespace Toxi.Driver.E3
open Toxi.Link Toxi.Toxic Toxi.Driver

abbrev State := Coll

def init : State := {}

def mkCfg (ty : String) (a1 a2 a3 : Int) : Option (Cfg × Nat × Bool) :=
  match ty with
  | "noop" => some (.noop, 0, false)
  | "latency" => some (.latency a1 a2, 1024, false)
  | "bandwidth" => some (.bandwidth a1, 0, false)
  | "slicer" => some (.slicer a1 a2 a3, 0, false)
  | "slow_close" => some (.slowClose a1, 0, false)
  | "timeout" => some (.timeout a1, 0, true)
  | "limit_data" => some (.limitData a1, 0, false)
  | _ => none

def kind : Cfg → Nat
  | .noop => 0 | .latency .. => 1 | .bandwidth .. => 2 | .slicer .. => 3 | .slowClose .. => 4
  | .timeout .. => 5 | .limitData .. => 6 | .resetPeer .. => 7

def parseDir (s : String) : Option Dir :=
  if s == "up" then some .up else if s == "down" then some .down else none

def pcTag : Pc → String
  | .idle _ => "idle" | .idleT _ => "idleT" | .out _ _ => "out"
  | .nap _ w => (match w with
     | .latency .. => "napL" | .bwInstal .. => "napBI" | .bwFinal .. => "napBF"
     | .slicerGap .. => "napS" | .slowClose => "napC")
  | .hold _ => "hold" | .flush _ _ => "flush" | .ret => "ret" | .crash _ => "crash"

def linkStr (nl : NLink) : String :=
  let em := if nl.l.log.isEmpty then "-" else
    ";".intercalate (nl.l.log.reverse.map fun d => s!"{d.time}:{hexOfBytes d.data}")
  s!"{nl.name}:r={nl.l.reads},c={bstr nl.l.destClosed},em={em}"

def names (ch : List TCfg) : String := ",".intercalate ((ch.drop 1).map (·.name))

def status (c : Coll) : String :=
  let links := " ".intercalate (c.links.map linkStr)
  let pcs := " ".intercalate (c.links.map fun nl =>
    nl.name ++ "[" ++ ",".intercalate (nl.l.stages.map fun s => pcTag s.pc ++ (if s.st.closed then "!" else "")) ++ "]")
  let crash := match c.crash with | some w => " crash=" ++ w.replace " " "_" | none => ""
  let race := c.links.any (·.l.race)
  s!"t={c.now} api={if c.busy then "busy" else "idle"} chain={names c.up}/{names c.down} {links}{crash} | race={bstr race} pcs={pcs}"

def fin (c : Coll) : State × String :=
  let c := c.settle 200000
  let out := status c
  ({ c with links := c.links.map fun nl => { nl with l := { nl.l with log := [] } } }, out)

def withLink (c : Coll) (name : String) (f : Link → Link) : Option Coll :=
  if c.links.any (·.name == name) then
    some { c with links := c.links.map fun nl => if nl.name == name then { nl with l := f nl.l } else nl }
  else none

def step (c : State) (line : String) : State × String :=
  match words line with
  | ["newlink", name, d] =>
    match parseDir d with
    | some d =>
      if c.busy || c.links.any (·.name == name) then (c, "bad-op newlink") else
      fin { c with links := c.links ++ [⟨name, d, Link.new (c.chain d) c.now⟩] }
    | none => (c, "bad-op")
  | ["src", name, h] =>
    match bytesOfHex h with
    | some b => match withLink c name (fun l => { l with srcQ := l.srcQ ++ [b] }) with
      | some c' => fin c'
      | none => (c, "bad-op no-link")
    | none => (c, "bad-op")
  | ["srceof", name] =>
    match withLink c name (fun l => { l with srcEOF := true }) with
    | some c' => fin c'
    | none => (c, "bad-op no-link")
  | ["sink", name, b] =>
    match boolOf b, withLink c name (fun l => { l with sinkReady := b == "1" }) with
    | some _, some c' => fin c'
    | _, _ => (c, "bad-op")
  | ["sinkfail", name] =>
    match withLink c name (fun l => { l with sinkFail := true }) with
    | some c' => fin c'
    | none => (c, "bad-op no-link")
  | ["add", d, tname, ty, a1, a2, a3, tox] =>
    match parseDir d, [a1, a2, a3].mapM String.toInt?, boolOf tox with
    | some d, some [a1, a2, a3], some tox =>
      match mkCfg ty a1 a2 a3 with
      | some (cfg, cap, cleanup) =>
        if c.busy || (c.findToxic tname).isSome then (c, "bad-op add") else
        fin (c.addToxic d ⟨tname, cfg, tox, cap, cleanup⟩)
      | none => (c, "bad-op type")
    | _, _, _ => (c, "bad-op")
  | ["upd", tname, ty, a1, a2, a3, tox] =>
    match [a1, a2, a3].mapM String.toInt?, boolOf tox with
    | some [a1, a2, a3], some tox =>
      match c.findToxic tname, mkCfg ty a1 a2 a3 with
      | some (d, i), some (cfg, cap, cleanup) =>
        if c.busy then (c, "bad-op busy")
        else if ((c.chain d)[i]?).map (fun t => kind t.cfg) != some (kind cfg) then (c, "bad-op upd-type")
        else fin (c.updateToxic d i ⟨tname, cfg, tox, cap, cleanup⟩)
      | _, _ => (c, "bad-op upd")
    | _, _ => (c, "bad-op")
  | ["del", tname] =>
    match c.findToxic tname with
    | some (d, i) => if c.busy then (c, "bad-op busy") else fin (c.removeToxic d i)
    | none => (c, "bad-op del")
  | ["resettoxics"] =>
    if c.busy then (c, "bad-op busy") else
    let q := ((c.up.drop 1).map fun t => ApiStep.remove .up t.name) ++ ((c.down.drop 1).map fun t => ApiStep.remove .down t.name)
    fin { c with busy := true, queue := q }
  | ["adv", d] =>
    match d.toInt? with
    | some d => if d < 0 then (c, "bad-op") else fin (c.advance 100000 (c.now + d))
    | none => (c, "bad-op")
  | _ => (c, "bad-op")

end Toxi.Driver.E3
