/-
Line-protocol helpers shared by the engine adapters (core Lean only).
-/
namespace Toxi.Driver

def hexDigit (n : Nat) : Char :=
  if n < 10 then Char.ofNat (48 + n) else Char.ofNat (87 + n)

def hexOfBytes (bs : List UInt8) : String :=
  if bs.isEmpty then "-" else
  String.ofList (bs.foldr (fun b acc => hexDigit (b.toNat / 16) :: hexDigit (b.toNat % 16) :: acc) [])

def hexVal (c : Char) : Option Nat :=
  if '0' ≤ c ∧ c ≤ '9' then some (c.toNat - 48)
  else if 'a' ≤ c ∧ c ≤ 'f' then some (c.toNat - 87)
  else if 'A' ≤ c ∧ c ≤ 'F' then some (c.toNat - 55)
  else none

def bytesOfHexAux : List Char → List UInt8 → Option (List UInt8)
  | [], acc => some acc.reverse
  | [_], _ => none
  | a :: b :: rest, acc =>
    match hexVal a, hexVal b with
    | some x, some y => bytesOfHexAux rest (UInt8.ofNat (x * 16 + y) :: acc)
    | _, _ => none

def bytesOfHex (s : String) : Option (List UInt8) :=
  if s == "-" then some [] else bytesOfHexAux s.toList []

def boolOf (s : String) : Option Bool :=
  if s == "1" then some true else if s == "0" then some false else none

def bstr (b : Bool) : String := if b then "1" else "0"

def words (line : String) : List String :=
  (line.splitOn " ").filter (fun w => w != "") |>.map (fun w => w.trimAscii.toString) |>.filter (· != "")

end Toxi.Driver
