import Toxi.Model.Conn
import Toxi.Driver.E3
/-
Engine E6: real proxies over loopback TCP.  After every operation the world is run to
quiescence and reported.

  upstream <addr> <0|1>
  create <p> <listen> <upstream> <0|1>     (listen = the bound address, measured by the harness)
  enable <p> | disable <p> | delete <p> | setupstream <p> <addr>
  populate <p> <listen> <upstream> <0|1>   (POST /populate with one entry: create or replace)
  tadd <p> <up|down> <tname> <type> <a1> <a2> <a3> <tox> | tdel <p> <tname> | treset <p>
  connect <p> <c> | send <c> <up|down> <hex> | close <c> <client|server>
  sendnw <c> <up|down> <hex>      (as send, but reported at this instant: no timer fires)
  abort <c> <client|server>       (the peer resets the connection)
  pause <c> <client|server> <hex> | resume <c> <client|server>
      (the peer stops reading and the other peer sends <hex>, enough to fill the kernel's
       buffers / the peer reads again)
  stallstop <p> <c> <disable|delete>   (a client is accepted while the stopping request runs)
Reply: `<connect-result> C <conns…> P <proxies…> M <counters…>`
-/
namespace Toxi.Driver.E6
open Toxi.Conn Toxi.Link Toxi.Toxic Toxi.Driver

abbrev State := World

def init : State := {}

def peerStr (p : Peer) : String := s!"{hexOfBytes p.recv},{bstr p.ended},{bstr (p.ended && p.rst)}"

def connStr (c : CConn) : String := s!"{c.name}:cli={peerStr c.client};srv={peerStr c.server}"

def proxyStr (p : PProxy) : String :=
  let (a, b, c, d) := goroutines p
  let live := p.coll.links.length
  s!"{p.name}:en={bstr p.enabled},conns={live},links={live},g={a}/{b}/{c}/{d}"

def ctrStr (tag : String) (l : List (Labels × Nat)) : String :=
  " ".intercalate (l.map fun e => s!"{tag}[{e.1.dir},{e.1.proxy},{e.1.listener},{e.1.upstream}]={e.2}")

def ctrStr2 (tag : String) (l : List (Labels × Nat × Nat)) : String :=
  " ".intercalate (l.map fun e =>
    let v := if e.2.1 == e.2.2 then toString e.2.1 else s!"{e.2.1}..{e.2.2}"
    s!"{tag}[{e.1.dir},{e.1.proxy},{e.1.listener},{e.1.upstream}]={v}")

def goneG (w : World) : String :=
  let t := w.gone.foldl (fun (acc : Nat × Nat × Nat) p => let (a, b, c, _) := goroutines p; (acc.1 + a, acc.2.1 + b, acc.2.2 + c)) (0, 0, 0)
  s!"gone={t.1}/{t.2.1}/{t.2.2}"

def status (w : World) (res : String) : String :=
  let cs := " ".intercalate ((w.proxies ++ w.gone).flatMap (·.conns) |>.map connStr)
  let ps := " ".intercalate (w.proxies.map proxyStr)
  s!"{res} C {cs} P {ps} {goneG w} M {ctrStr2 "R" w.received} {ctrStr "S" w.sent}"

def fin (w : World) (res : String := "-") : State × String :=
  let w := w.settle
  (w, status w res)

def finNow (w : World) (res : String := "-") : State × String :=
  let w := w.settleNow
  (w, status w res)

/-- `io.Copy` reads the socket with a 32 KiB buffer: a large write reaches the link as
several chunks. -/
def chunks32k : Nat → List UInt8 → List (List UInt8)
  | 0, _ => []
  | fuel + 1, b => if b.length ≤ 32768 then [b] else b.take 32768 :: chunks32k fuel (b.drop 32768)

def updProxy (w : World) (name : String) (f : PProxy → PProxy) : Option World :=
  if w.proxies.any (·.name == name) then
    some { w with proxies := w.proxies.map fun p => if p.name == name then f p else p }
  else none

def findConnProxy (w : World) (c : String) : Option String :=
  (w.proxies.find? fun p => p.conns.any (·.name == c)).map (·.name)

def apiWait (p : PProxy) : PProxy := PProxy.settle 50 p

def stopOp (w : World) (p how : String) : Option World :=
  if how == "disable" then updProxy w p PProxy.stop
  else if how == "delete" then
    (w.proxies.find? (·.name == p)).map fun x =>
      { w with proxies := w.proxies.filter (·.name != p), gone := w.gone ++ [x.stop] }
  else none

def sendOp (w : World) (c d h : String) : Option World :=
  match findConnProxy w c, bytesOfHex h with
  | some p, some b =>
    let ln := if d == "up" then upName c else downName c
    updProxy w p (fun x => { x with coll := updLink x.coll ln (fun l => if l.srcEOF then l else { l with srcQ := l.srcQ ++ chunks32k 64 b }) })
  | _, _ => none

/-- Some peer of this proxy is not reading: an API call that reconfigures toxics would wait
on blocked hand-offs (5 s each, outside C02's proviso) — such operations are not generated. -/
def hasPaused (w : World) (p : String) : Bool :=
  (w.proxies.find? (·.name == p)).any fun x => (allLinks x.coll).any fun nl => !nl.l.sinkReady && !nl.l.destClosed

def step (w : State) (line : String) : State × String :=
  match words line with
  | ["elapsed"] => (w, toString w.elapsed)
  | ["blocked"] =>
    -- how many sinks are stuck in a write towards a peer that does not read?
    let n := ((w.proxies ++ w.gone).map fun p => ((allLinks p.coll).filter fun nl =>
      nl.l.sinkPend.isSome && !nl.l.sinkReady && !nl.l.destClosed).length).foldl (· + ·) 0
    (w, toString n)
  | ["teardown"] =>
    -- every proxy is stopped and deleted (the harness closes its sockets too)
    let w1 : World := { w with proxies := [], gone := w.gone ++ w.proxies.map PProxy.stop }
    fin w1
  | ["sendnw", c, d, h] =>
    (match sendOp w c d h with
     | some w' => finNow w' | none => (w, "bad-op no-conn"))
  | ["abort", c, who] =>
    (match findConnProxy w c with
     | some p =>
       (match updProxy w p (fun x => x.abort c (who == "client")) with
        | some w' => fin w' | none => (w, "bad-op"))
     | none => (w, "bad-op no-conn"))
  | ["pause", c, who, h] =>
    -- the peer stops reading, then the other peer sends enough to fill the kernel's buffers
    (match findConnProxy w c with
     | some p => (match updProxy w p (fun x => x.setReading c (who == "client") false) with
        | some w' => (match sendOp w' c (if who == "client" then "down" else "up") h with
            | some w'' => fin w'' | none => (w, "bad-op"))
        | none => (w, "bad-op"))
     | none => (w, "bad-op no-conn"))
  | ["resume", c, who] =>
    (match findConnProxy w c with
     | some p => (match updProxy w p (fun x => x.setReading c (who == "client") true) with
        | some w' => fin w' | none => (w, "bad-op"))
     | none => (w, "bad-op no-conn"))
  | ["stallstop", p, c, how] =>
    -- the accept loop has taken client `c` and is dialling the upstream while the stopping
    -- request arrives: stop waits for the accept loop, so the pair is registered, then closed
    (match w.proxies.find? (·.name == p) with
     | none => (w, "bad-op")
     | some x =>
       let listening := (w.upstreams.find? (·.1 == x.upstream)).map (·.2) |>.getD false
       if !x.enabled || !listening || (findConnProxy w c).isSome then (w, "bad-op") else
       (match updProxy w p (fun x => x.accept c) with
        -- (the dial completes about a second later: every pending timer has fired by then)
        | some w1 => (match stopOp w1.settle p how with
            | some w2 => fin w2 | none => (w, "bad-op"))
        | none => (w, "bad-op")))
  | ["upstream", a, b] =>
    (match boolOf b with
     | some b => ({ w with upstreams := (w.upstreams.filter (·.1 != a)) ++ [(a, b)] }, "ok")
     | none => (w, "bad-op"))
  | ["create", p, listen, up, en] =>
    if w.proxies.any (·.name == p) then (w, "bad-op exists") else
    fin { w with proxies := w.proxies ++ [{ name := p, listen := listen, upstream := up, enabled := en == "1" }] }
  | ["enable", p] =>
    (match updProxy w p (fun x => { x with enabled := true }) with
     | some w' => fin w' | none => (w, "bad-op"))
  | ["disable", p] =>
    (match updProxy w p PProxy.stop with
     | some w' => fin w' | none => (w, "bad-op"))
  | ["delete", p] =>
    (match w.proxies.find? (·.name == p) with
     | some x => fin { w with proxies := w.proxies.filter (·.name != p), gone := w.gone ++ [x.stop] }
     | none => (w, "bad-op"))
  | ["populate", p, listen, up, en] =>
    -- AddOrReplace: an existing proxy with the same listen address and upstream is left
    -- alone (whatever `enabled` says); otherwise it is stopped and replaced
    (match w.proxies.find? (·.name == p) with
     | some x =>
       if x.listen == listen && x.upstream == up then fin w
       else
         let np : PProxy := { name := p, listen := listen, upstream := up, enabled := en == "1" }
         fin { w with proxies := (w.proxies.filter (·.name != p)) ++ [np], gone := w.gone ++ [x.stop] }
     | none =>
       fin { w with proxies := w.proxies ++ [{ name := p, listen := listen, upstream := up, enabled := en == "1" }] })
  | ["setupstream", p, a] =>
    -- Update with a differing upstream: stop, change, start again if it was enabled
    (match updProxy w p (fun x => if x.upstream == a then x else let en := x.enabled; { (x.stop) with upstream := a, enabled := en }) with
     | some w' => fin w' | none => (w, "bad-op"))
  | ["tadd", p, d, tname, ty, a1, a2, a3, tox] =>
    if hasPaused w p then (w, "bad-op paused") else
    (match E3.parseDir d, [a1, a2, a3].mapM String.toInt?, boolOf tox with
     | some d, some [a1, a2, a3], some tox =>
       let cfg? : Option (Cfg × Nat × Bool) := if ty == "reset_peer" then some (.resetPeer a1, 0, false) else E3.mkCfg ty a1 a2 a3
       (match cfg? with
        | some (cfg, cap, cleanup) =>
          (match updProxy w p (fun x =>
              if (x.coll.findToxic tname).isSome then x else { x with coll := x.coll.addToxic d ⟨tname, cfg, tox, cap, cleanup⟩ }) with
           | some w' => fin w' | none => (w, "bad-op"))
        | none => (w, "bad-op type"))
     | _, _, _ => (w, "bad-op"))
  | ["tdel", p, tname] =>
    if hasPaused w p then (w, "bad-op paused") else
    (match updProxy w p (fun x => match x.coll.findToxic tname with
        | some (d, i) => { x with coll := x.coll.removeToxic d i }
        | none => x) with
     | some w' => fin w' | none => (w, "bad-op"))
  | ["treset", p] =>
    if hasPaused w p then (w, "bad-op paused") else
    (match updProxy w p (fun x =>
        let q := ((x.coll.up.drop 1).map fun t => ApiStep.remove .up t.name) ++ ((x.coll.down.drop 1).map fun t => ApiStep.remove .down t.name)
        { x with coll := { x.coll with busy := true, queue := q } }) with
     | some w' => fin w' | none => (w, "bad-op"))
  | ["connect", p, c] =>
    (match w.proxies.find? (·.name == p) with
     | none => (w, "bad-op")
     | some x =>
       if !x.enabled then fin w "refused" else
       let listening := (w.upstreams.find? (·.1 == x.upstream)).map (·.2) |>.getD false
       if !listening then fin w "dialfail" else
       (match updProxy w p (fun x => x.accept c) with
        | some w' => fin w' "ok" | none => (w, "bad-op")))
  | ["send", c, d, h] =>
    (match findConnProxy w c, bytesOfHex h with
     | some p, some b =>
       let ln := if d == "up" then upName c else downName c
       (match updProxy w p (fun x => { x with coll := updLink x.coll ln (fun l => if l.srcEOF then l else { l with srcQ := l.srcQ ++ chunks32k 64 b }) }) with
        | some w' => fin w' | none => (w, "bad-op"))
     | _, _ => (w, "bad-op no-conn"))
  | ["close", c, who] =>
    (match findConnProxy w c with
     | some p =>
       let ln := if who == "client" then upName c else downName c
       (match updProxy w p (fun x => { x with coll := updLink x.coll ln (fun l => { l with srcEOF := true }) }) with
        | some w' => fin w' | none => (w, "bad-op"))
     | none => (w, "bad-op no-conn"))
  | ["closenw", c, who] =>
    -- the same, observed at this instant (no timer has fired yet)
    (match findConnProxy w c with
     | some p =>
       let ln := if who == "client" then upName c else downName c
       (match updProxy w p (fun x => { x with coll := updLink x.coll ln (fun l => { l with srcEOF := true }) }) with
        | some w' => finNow w' | none => (w, "bad-op"))
     | none => (w, "bad-op no-conn"))
  | _ => (w, "bad-op")

end Toxi.Driver.E6
