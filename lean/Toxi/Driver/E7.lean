import Toxi.Model.Conc
import Toxi.Driver.E4
/-
Engine E7: overlapping requests.  The environment lines and `req …` (a request run with all
its blocks consecutively: the sequential prefix, and the atomic search) are E4's;
  creq <id> <method> <path> <ua> <body tokens…>   register an overlapping request
  adv <id>                                        run its next block: `more` | `done <status>`
  state | ports
`push` / `pop` (driver-level) save and restore everything, including the phases.
-/
namespace Toxi.Driver.E7
open Toxi.Api Toxi.Conc Toxi.Driver

structure State where
  base : E4.State := {}
  c    : CState := {}
  reqs : List (String × Request × Phase) := []
deriving Inhabited

def init : State := {}

def sync (st : State) : State := { st with base := { st.base with s := st.c.s } }

def step (st : State) (line : String) : State × String :=
  match words line with
  | "req" :: m :: path :: ua :: body =>
    (match E4.parsePath path, E4.parseBody body with
     | some p, some b =>
       let r : Request := ⟨E4.parseMethod m, p, ua == "b", b⟩
       let (c', ph) := runAlone st.base.v st.base.env st.c r
       let out := match ph with
         | .done resp => s!"{resp.status} {E4.bodyStr resp.body} | nf={bstr resp.netFail} nondet={bstr resp.nondet}"
         | _ => "bad-op unfinished"
       (sync { st with c := c' }, out)
     | _, _ => (st, "bad-op parse"))
  | "creq" :: id :: m :: path :: ua :: body =>
    (match E4.parsePath path, E4.parseBody body with
     | some p, some b =>
       let r : Request := ⟨E4.parseMethod m, p, ua == "b", b⟩
       ({ st with reqs := st.reqs.filter (·.1 != id) ++ [(id, r, .start)] }, "ok")
     | _, _ => (st, "bad-op parse"))
  | ["adv", id] =>
    (match st.reqs.find? (·.1 == id) with
     | none => (st, "bad-op no-such-request")
     | some (_, r, ph) =>
       let (c', ph') := advance st.base.v st.base.env st.c r ph
       let st' := sync { st with c := c', reqs := st.reqs.map fun x => if x.1 == id then (id, r, ph') else x }
       let tag : Phase → Nat
         | .start => 0 | .found .. => 1 | .ready .. => 2 | .stopped .. => 3 | .restart .. => 4 | .done _ => 5 | .replacing .. => 6
       (st', match ph' with
         | .done resp => s!"done {resp.status} nondet={bstr resp.nondet}"
         | _ => if tag ph' == tag ph then "blocked" else "more"))
  | ["state"] => (st, E4.stateStr st.c.s)
  | ["zombies"] => (st, toString st.c.zombies.length)
  | ["digest"] =>
    -- identifies the whole search state: registry, epochs, zombies, every request's phase
    let phaseStr : Phase → String
      | .start => "s"
      | .found o ep => s!"f{E4.proxyStr o}#{ep}"
      | .ready o ep i => s!"r{E4.proxyStr o}#{ep}#{i.listen}|{i.upstream}|{i.enabled}"
      | .restart o ep i => s!"R{E4.proxyStr o}#{ep}#{i.listen}|{i.upstream}|{i.enabled}"
      | .stopped o ep i => s!"S{E4.proxyStr o}#{ep}#{i.listen}|{i.upstream}|{i.enabled}"
      | .replacing x => s!"P{x.name}|{x.listen}|{x.upstream}|{x.enabled}"
      | .done r => s!"d{r.status}"
    let txt := E4.stateStr st.c.s ++ toString st.c.epochs ++ toString st.c.zombies ++ toString st.c.locked ++ toString (st.c.dead.map fun d => (d.1, E4.proxyStr d.2)) ++
      " ".intercalate (st.reqs.map fun x => x.1 ++ "=" ++ phaseStr x.2.2)
    (st, toString (hash txt))
  | ["ports"] =>
    let ps := (boundPorts st.base.env st.c).toArray.qsort (· < ·)
    (st, " ".intercalate (ps.toList.eraseDups.map toString))
  | _ =>
    -- environment lines, variant …: E4's
    let (b', out) := E4.step st.base line
    ({ st with base := b', c := { st.c with s := b'.s } }, out)

end Toxi.Driver.E7
