import Toxi.Model.Stream
import Toxi.Driver.Util
/-
Engine E1: line protocol over the stream-pipe model (`Model/Stream.lean`).

  w <hex>                 ChanWriter.Write
  c                       ChanWriter.Close
  bp <m>                  query: would `Read` with an m-byte buffer reach the blocking receive?
  r <m> <vis> <intr>      ChanReader.Read; vis: something is visible on the channel;
                          intr: the interrupt channel is ready
Replies: `ok`, `bp 0|1`, `r <err> <hex> q=<queued chunks> b=<remainder length | nil>`.
-/
namespace Toxi.Driver.E1
open Toxi.Stream Toxi.Driver

abbrev State := Pipe

def init : State := Pipe.init

def errStr : RErr → String
  | .ok => "ok" | .eof => "eof" | .interrupted => "intr" | .blocked => "blocked"

def step (p : State) (line : String) : State × String :=
  match words line with
  | ["w", h] =>
    match bytesOfHex h with
    | some d => if p.wclosed then (p, "bad-op write-after-close") else ((p.step (.write d)).1, "ok")
    | none => (p, "bad-op")
  | ["c"] => if p.wclosed then (p, "bad-op double-close") else ((p.step .close).1, "ok")
  | ["bp", m] =>
    match m.toNat? with
    | some m => (p, "bp " ++ bstr (p.blockingPath .fixed m))
    | none => (p, "bad-op")
  | ["r", m, vis, intr] =>
    match m.toNat?, boolOf vis, boolOf intr with
    | some m, some vis, some intr =>
      let (p', o) := p.step (.read m vis intr)
      let b := match p'.r.buf with | none => "nil" | some b => toString b.length
      (p', s!"r {errStr o.err} {hexOfBytes o.out} q={p'.queue.length} b={b}")
    | _, _, _ => (p, "bad-op")
  | _ => (p, "bad-op")

end Toxi.Driver.E1
