import Toxi.Model.Client
import Toxi.Driver.E4
/-
Engine E5: the Go client library and toxiproxy-cli against a live server.

  env / same / busy / variant …          as E4 (address tables)
  clivariant legacy|fixed
  c create <n> <l> <u> | c get <n> | c save <n> <l> <u> <en> <created> | c delete <n>
  c toxics <n> | c proxies | c reset | c populate (<n> <l> <u> <en>)*
  c add|cadd <p> <name|-> <type|-> <stream|-> <tox n/d|-> <attrs value tokens>
  c upd|cupd <p> <name> <tox n/d|-> <attrs value tokens>
  c rm|crm <p> <name>
  h fetch <h> <p> | h enable <h> | h disable <h> | h save <h> | h delete <h> | h set <h> <listen> <upstream>
      (a proxy handle kept by the caller across operations; reply ends with ` H <handle>`)
  cli list | cli inspect <p> | cli create <p> <l> <u> | cli toggle <p> | cli delete <p>
  cli tadd <p> <name|-> <type|-> <up 0|1> <tox|-> <attrs> | cli tupd <p> <name|-> <tox|-> <attrs> | cli trm <p> <name|->
Reply: `failed=<0|1> n=<k> ; <METHOD> <path> <body tokens> ; … | <state>`
-/
namespace Toxi.Driver.E5
open Toxi.Api Toxi.Client Toxi.Driver
open Toxi.Toxic (Frac)

structure State where
  base : E4.State := {}
  cv   : CliVariant := .fixed
  /-- proxy handles the caller holds (`h fetch h1 p1` …) -/
  handles : List (String × CProxy) := []

def init : State := {}

def hexStr (s : String) : String := if s.isEmpty then "-" else hexOfBytes s.toUTF8.toList

/-- Print a JSON value in the token form of the protocol (inverse of `E4.parseVal`). -/
partial def tokJ : J → String
  | .null => "z"
  | .bool true => "t"
  | .bool false => "f"
  | .num i f =>
    let is := match i with | some i => toString i | none => "X"
    let fs := match f with | some f => s!"{f.num}/{f.den}" | none => "X"
    s!"n:{is}:{fs}"
  | .str s => "s:" ++ hexStr s
  | .arr xs => " ".intercalate (["["] ++ xs.map tokJ ++ ["]"])
  | .obj kvs => " ".intercalate (["{"] ++ (kvs.map fun kv => "s:" ++ hexStr kv.1 ++ " " ++ tokJ kv.2) ++ ["}"])

def methodStr : Method → String
  | .get => "GET" | .post => "POST" | .patch => "PATCH" | .delete => "DELETE" | .put => "PUT" | .other => "OTHER"

def bodyStr : Body → String
  | .empty => "-"
  | .bad => "bad"
  | .val j => tokJ j

def reqStr (r : Request) : String :=
  s!"{methodStr r.method} /{"/".intercalate r.path} {bodyStr r.body}"

def optStr (s : String) : String := if s == "-" then "" else s

def parseFrac (s : String) : Option (Option Frac) :=
  if s == "-" then some none else
  match s.splitOn "/" with
  | [a, b] => match a.toInt?, b.toInt? with
    | some a, some b => some (some ⟨a, b⟩)
    | _, _ => none
  | _ => none

def parseAttrs (toks : List String) : Option Attrs :=
  match toks with
  | [] => some []
  | _ => match E4.parseVal 64 toks with
    | some (.obj kvs, []) => some kvs
    | _ => none

def outStr (st : State) (o : Outcome) : String :=
  let reqs := " ; ".intercalate (o.requests.map reqStr)
  let nd := match o.last with | some r => r.nondet | none => false
  -- a reset that fails with proxies still unvisited depends on Go's map iteration order
  (if nd then "nondet " else "") ++ s!"failed={bstr o.failed} n={o.requests.length} ; {reqs} | {E4.stateStr o.state}"

def finish (st : State) (o : Outcome) : State × String :=
  ({ st with base := { st.base with s := o.state } }, outStr st o)

def handleStr : Option CProxy → String
  | none => "-"
  | some h => s!"{hexStr h.name}|{hexStr h.listen}|{hexStr h.upstream}|{bstr h.enabled}|{bstr h.created}"

def hstep (st : State) (hn : String) (op : HOp) : State × String :=
  let cur := st.handles.lookup hn
  let (o, h') := runHandle st.base.v st.base.env st.base.s cur op
  let hs := match h' with
    | some x => (st.handles.filter (·.1 != hn)) ++ [(hn, x)]
    | none => st.handles
  let st' := { st with base := { st.base with s := o.state }, handles := hs }
  (st', outStr st o ++ " H " ++ handleStr h')

def step (st : State) (line : String) : State × String :=
  let v := st.base.v
  let e := st.base.env
  let s := st.base.s
  -- `$S` inside a token stands for a space (names that need escaping in a URL path)
  match (words line).map (fun w => w.replace "$S" " ") with
  | ["clivariant", x] => ({ st with cv := if x == "legacy" then .legacy else .fixed }, "ok")
  | ["h", "fetch", hn, p] => hstep st hn (.fetch p)
  | ["h", "enable", hn] => hstep st hn .enable
  | ["h", "disable", hn] => hstep st hn .disable
  | ["h", "save", hn] => hstep st hn .save
  | ["h", "delete", hn] => hstep st hn .delete
  | ["h", "set", hn, l, u] => hstep st hn (.setAddr l u)
  | ["c", "create", n, l, u] => finish st (run v e s (.createProxy n l u))
  | ["c", "get", n] => finish st (run v e s (.getProxy n))
  | ["c", "save", n, l, u, en, cr] =>
    -- a "created" proxy object can only be obtained from the server: the harness skips the
    -- operation (reporting failure, no request) when there is no such proxy
    if cr == "1" && (s.find n).isNone then finish st ⟨s, [], true, none⟩
    else finish st (run v e s (.save ⟨n, l, u, en == "1", cr == "1"⟩))
  | ["c", "delete", n] => finish st (run v e s (.delete n))
  | ["c", "toxics", n] => finish st (run v e s (.toxics n))
  | ["c", "proxies"] => finish st (run v e s .proxies)
  | ["c", "reset"] => finish st (run v e s .reset)
  | "c" :: "populate" :: rest =>
    -- c populate (<name> <listen> <upstream> <enabled 0|1>)*
    let rec entries : List String → Option (List CProxy)
      | [] => some []
      | n :: l :: u :: en :: more => (entries more).map (⟨n, l, u, en == "1", false⟩ :: ·)
      | _ => none
    (match entries rest with
     | some ps => finish st (run v e s (.populate ps))
     | none => (st, "bad-op"))
  | "c" :: kind :: p :: n :: t :: sm :: tox :: attrs =>
    if kind == "add" || kind == "cadd" then
      match parseFrac tox, parseAttrs attrs with
      | some tox, some attrs =>
        let op := if kind == "add" then Op.addToxic p (optStr n) (optStr t) (optStr sm) tox attrs
                  else Op.clientAddToxic p (optStr n) (optStr t) (optStr sm) tox attrs
        finish st (run v e s op)
      | _, _ => (st, "bad-op")
    else if kind == "upd" || kind == "cupd" then
      -- c upd <p> <name> <tox> <attrs…>: here `t` is the tox token and `sm :: tox :: attrs` the attrs
      match parseFrac t, parseAttrs (sm :: tox :: attrs) with
      | some tx, some ats =>
        let op := if kind == "upd" then Op.updateToxic p n tx ats else Op.clientUpdateToxic p n tx ats
        finish st (run v e s op)
      | _, _ => (st, "bad-op")
    else (st, "bad-op")
  | ["c", "rm", p, n] => finish st (run v e s (.removeToxic p n))
  | ["c", "crm", p, n] => finish st (run v e s (.clientRemoveToxic p n))
  | ["cli", "list"] => finish st (runCli st.cv v e s .list)
  | ["cli", "inspect", p] => finish st (runCli st.cv v e s (.inspect p))
  | ["cli", "create", p, l, u] => finish st (runCli st.cv v e s (.create p l u))
  | ["cli", "toggle", p] => finish st (runCli st.cv v e s (.toggle p))
  | ["cli", "delete", p] => finish st (runCli st.cv v e s (.delete p))
  | "cli" :: "tadd" :: p :: n :: t :: up :: tox :: attrs =>
    (match parseFrac tox, parseAttrs attrs with
     | some tox, some attrs => finish st (runCli st.cv v e s (.toxicAdd p (optStr n) (optStr t) (up == "1") tox attrs))
     | _, _ => (st, "bad-op"))
  | "cli" :: "tupd" :: p :: n :: tox :: attrs =>
    (match parseFrac tox, parseAttrs attrs with
     | some tox, some attrs => finish st (runCli st.cv v e s (.toxicUpdate p (optStr n) tox attrs))
     | _, _ => (st, "bad-op"))
  | ["cli", "trm", p, n] => finish st (runCli st.cv v e s (.toxicRemove p (optStr n)))
  | _ =>
    -- env / same / busy / variant / state lines are E4's
    let (b, out) := E4.step st.base line
    ({ st with base := b }, out)

end Toxi.Driver.E5
