import Toxi.Proofs.Lemmas.Rest
import Toxi.Proofs.C15
/-!
From the links to the proxy's census (C15): when the proxy is stopped and every link it ever had
is in the end state of `C15_at_rest`, the goroutine census of the proxy is zero.
-/
namespace Toxi.Link
open Toxi.Toxic Toxi.Conn

theorem foldl_add_zero (xs : List Nat) (h : ∀ x ∈ xs, x = 0) (a : Nat) : xs.foldl (· + ·) a = a := by
  induction xs generalizing a with
  | nil => rfl
  | cons x xs ih =>
    simp only [List.foldl_cons]
    rw [h x (by simp), Nat.add_zero]
    exact ih (fun y hy => h y (by simp [hy])) a

/-- **C15 (the census).**  A stopped proxy all of whose links — live or already retired — have
ended as `C15_at_rest` describes has no goroutine of toxiproxy code left. -/
theorem C15_census (p : PProxy) (hen : p.enabled = false)
    (h : ∀ nl ∈ allLinks p.coll, nl.l.srcDone = true ∧ (∀ s ∈ nl.l.stages, s.pc.running = false) ∧
      nl.l.destClosed = true ∧ nl.l.sinkDrain = false) :
    goroutines p = (0, 0, 0, 0) := by
  rw [C15_census_zero]
  refine ⟨?_, ?_, ?_, hen⟩
  · rw [List.length_eq_zero_iff, List.filter_eq_nil_iff]
    intro nl hnl
    simp [(h nl hnl).1]
  · apply foldl_add_zero
    intro x hx
    simp only [List.mem_map] at hx
    obtain ⟨nl, hnl, rfl⟩ := hx
    rw [List.length_eq_zero_iff, List.filter_eq_nil_iff]
    intro s hs
    simp [(h nl hnl).2.1 s hs]
  · rw [List.length_eq_zero_iff, List.filter_eq_nil_iff]
    intro nl hnl
    simp [(h nl hnl).2.2.1, (h nl hnl).2.2.2]

end Toxi.Link
