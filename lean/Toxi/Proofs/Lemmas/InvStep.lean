import Toxi.Proofs.C05
import Toxi.Proofs.C06
namespace Toxi.Api

/-! Preservation of the registry invariant by every request. -/

theorem inv_append (s : State) (p : ProxyRec) (hi : Inv s) (hn : s.find p.name = none)
    (ht : (p.toxics.map (·.name)).Nodup) : Inv (s ++ [p]) := by
  constructor
  · rw [List.map_append, List.nodup_append]
    refine ⟨hi.names, by simp, ?_⟩
    intro a ha b hb
    simp only [List.map_cons, List.map_nil, List.mem_singleton] at hb
    subst hb
    obtain ⟨q, hq, rfl⟩ := List.mem_map.mp ha
    exact find_none hn q hq
  · intro q hq
    rcases List.mem_append.mp hq with h | h
    · exact hi.toxics q h
    · simp only [List.mem_singleton] at h; subst h; exact ht

theorem inv_replace (s : State) (p' : ProxyRec) (hi : Inv s)
    (ht : (p'.toxics.map (·.name)).Nodup) : Inv (s.replace p') := by
  constructor
  · rw [replace_names]; exact hi.names
  · intro q hq
    rcases mem_replace hq with h | h
    · subst h; exact ht
    · exact hi.toxics q h

theorem inv_remove (s : State) (n : String) (hi : Inv s) : Inv (s.remove n) := by
  constructor
  · exact List.Nodup.sublist (List.Sublist.map _ (remove_sublist s n)) hi.names
  · intro q hq
    exact hi.toxics q ((remove_sublist s n).subset hq)

theorem startProxy_keeps (e : Env) (s : State) (p p2 : ProxyRec) (h : startProxy e s p = some p2) :
    p2.name = p.name ∧ p2.toxics = p.toxics := by
  unfold startProxy at h
  split at h
  · simp at h
  · split at h
    · simp at h
    · split at h
      · simp at h
      · simp only [Option.some.injEq] at h; subst h; exact ⟨rfl, rfl⟩

theorem updateProxy_keeps (e : Env) (s : State) (p : ProxyRec) (inp : ProxyInput) :
    (updateProxy e s p inp).1.name = p.name ∧ (updateProxy e s p inp).1.toxics = p.toxics := by
  unfold updateProxy
  cases hr : e.resolve inp.listen with
  | none => exact ⟨rfl, rfl⟩
  | some r =>
    simp only
    generalize hp1 : (if (!(e.sameListen p.listen inp.listen) || p.upstream != inp.upstream) = true then
        ({ p with enabled := false, listen := inp.listen, upstream := inp.upstream } : ProxyRec) else p) = p1
    have h1 : p1.name = p.name ∧ p1.toxics = p.toxics := by
      rw [← hp1]; split <;> exact ⟨rfl, rfl⟩
    by_cases hne : (inp.enabled != p1.enabled) = true
    · rw [if_pos hne]
      by_cases hen : inp.enabled = true
      · rw [if_pos hen]
        cases hs : startProxy e (s.replace p1) p1 with
        | none => exact h1
        | some p2 =>
          have := startProxy_keeps e _ p1 p2 hs
          exact ⟨this.1.trans h1.1, this.2.trans h1.2⟩
      · rw [if_neg hen]; exact h1
    · rw [if_neg hne]; exact h1

theorem inv_hCreate (e : Env) (s : State) (b : Body) (hi : Inv s) : Inv (hCreate e s b).1 := by
  unfold hCreate
  split
  · exact hi
  · rename_i inp _
    split
    · exact hi
    · split
      · exact hi
      · split
        · exact hi
        · rename_i hex
          have hnone : s.find inp.name = none := by
            cases h : s.find inp.name <;> simp_all
          simp only
          split
          · split
            · rename_i p hst
              have hk := startProxy_keeps e s _ p hst
              exact inv_append s p hi (by rw [hk.1]; exact hnone) (by rw [hk.2]; simp)
            · exact hi
          · exact inv_append s _ hi hnone (by simp)

theorem inv_withProxy (s : State) (n : String) (k : ProxyRec → State × Response) (hi : Inv s)
    (hk : ∀ p, s.find n = some p → Inv (k p).1) : Inv (withProxy s n k).1 := by
  unfold withProxy
  split
  · exact hi
  · rename_i p hp; exact hk p hp

theorem inv_hUpdate (e : Env) (s : State) (n : String) (b : Body) (hi : Inv s) : Inv (hUpdate e s n b).1 := by
  unfold hUpdate
  apply inv_withProxy s n _ hi
  intro p hp
  have hpm := (find_some_mem hp).1
  split
  · exact hi
  · rename_i inp _
    have hk := updateProxy_keeps e s p inp
    cases hu : updateProxy e s p inp with
    | mk p' okk =>
      rw [hu] at hk
      cases okk <;> exact inv_replace s p' hi (by rw [hk.2]; exact hi.toxics p hpm)


theorem findToxic_none_not_mem (p : ProxyRec) (n : String) (h : findToxic p n = none) :
    n ∉ p.toxics.map (·.name) := by
  unfold findToxic ProxyRec.listing at h
  rw [List.find?_append] at h
  intro hm
  obtain ⟨t, ht, rfl⟩ := List.mem_map.mp hm
  cases hd : t.dir with
  | up =>
    have h1 : List.find? (fun x => x.name == t.name) (List.filter (fun x => x.dir == Dir.up) p.toxics) = none := by
      cases hx : List.find? (fun x => x.name == t.name) (List.filter (fun x => x.dir == Dir.up) p.toxics) with
      | none => rfl
      | some y => simp [hx] at h
    have := List.find?_eq_none.mp h1 t (by simp [List.mem_filter, ht, hd])
    simp at this
  | down =>
    have h2 : List.find? (fun x => x.name == t.name) (List.filter (fun x => x.dir == Dir.down) p.toxics) = none := by
      cases hx : List.find? (fun x => x.name == t.name) (List.filter (fun x => x.dir == Dir.up) p.toxics) with
      | none => simpa [hx] using h
      | some y => simp [hx] at h
    have := List.find?_eq_none.mp h2 t (by simp [List.mem_filter, ht, hd])
    simp at this

theorem inv_hToxicCreate (s : State) (n : String) (b : Body) (hi : Inv s) : Inv (hToxicCreate s n b).1 := by
  unfold hToxicCreate
  apply inv_withProxy s n _ hi
  intro p hp
  have hpm := (find_some_mem hp).1
  cases ha : addToxic p b with
  | error err => exact hi
  | ok r =>
    obtain ⟨p', t⟩ := r
    obtain ⟨w, dir, z, _, _, _, hf, hn, _, _, _, _, hp'⟩ := addToxic_ok p b p' t ha
    simp only
    apply inv_replace s p' hi
    subst hp'
    simp only [List.map_append, List.map_cons, List.map_nil]
    rw [List.nodup_append]
    refine ⟨hi.toxics p hpm, by simp, ?_⟩
    intro a ha' c hc
    simp only [List.mem_singleton] at hc
    subst hc
    intro heq
    have := findToxic_none_not_mem p _ hf
    rw [← hn] at this
    exact this (heq ▸ ha')

theorem replaceToxic_names (p : ProxyRec) (t : ToxicRec) (hn : ∀ x ∈ p.toxics, x.name = t.name → True) :
    (replaceToxic p t).toxics.map (·.name) = p.toxics.map (·.name) := by
  unfold replaceToxic
  simp only [List.map_map]
  apply List.map_congr_left
  intro x _
  by_cases h : x.name = t.name <;> simp [h]

theorem inv_hToxicUpdate (v : UpdVariant) (s : State) (n tn : String) (b : Body) (hi : Inv s) :
    Inv (hToxicUpdate v s n tn b).1 := by
  unfold hToxicUpdate
  apply inv_withProxy s n _ hi
  intro p hp
  have hpm := (find_some_mem hp).1
  have key : ∀ p', (p' = p ∨ ∃ t : ToxicRec, p' = replaceToxic p t) → Inv (s.replace p') := by
    intro p' h
    apply inv_replace s p' hi
    rcases h with h | ⟨t, h⟩
    · rw [h]; exact hi.toxics p hpm
    · rw [h, replaceToxic_names p t (fun _ _ _ => trivial)]; exact hi.toxics p hpm
  have hshape : ((updateToxic v p tn b).1 = p ∨ ∃ t : ToxicRec, (updateToxic v p tn b).1 = replaceToxic p t) := by
    unfold updateToxic
    split
    · exact Or.inl rfl
    · split
      · exact Or.inl rfl
      · exact Or.inl rfl
      · exact Or.inl rfl
      · simp only
        split
        · cases v
          · exact Or.inr ⟨_, rfl⟩
          · exact Or.inl rfl
        · exact Or.inr ⟨_, rfl⟩
      · exact Or.inl rfl
  cases hu : updateToxic v p tn b with
  | mk p' res =>
    rw [hu] at hshape
    cases res <;> exact key p' hshape

theorem inv_hToxicDelete (s : State) (n tn : String) (hi : Inv s) : Inv (hToxicDelete s n tn).1 := by
  unfold hToxicDelete
  apply inv_withProxy s n _ hi
  intro p hp
  have hpm := (find_some_mem hp).1
  cases hr : removeToxic p tn with
  | error err => exact hi
  | ok p' =>
    simp only
    apply inv_replace s _ hi
    unfold removeToxic at hr
    split at hr
    · simp at hr
    · simp only [Except.ok.injEq] at hr
      subst hr
      exact List.Nodup.sublist (List.Sublist.map _ List.filter_sublist) (hi.toxics p hpm)

def ResInv (r : Except State (State × ProxyRec × Bool)) : Prop :=
  match r with
  | .ok (s', _, _) => Inv s'
  | .error s' => Inv s'

theorem inv_addOrReplace (e : Env) (s : State) (x : PopEntry) (hi : Inv s) : ResInv (addOrReplace e s x) := by
  unfold addOrReplace
  simp only
  cases hf : s.find x.name with
  | some ex =>
    have hexm := (find_some_mem hf).1
    simp only
    cases hr : e.resolve x.listen with
    | none => exact hi
    | some r =>
      simp only
      by_cases hsame : (e.sameListen ex.listen x.listen && ex.upstream == x.upstream) = true
      · rw [if_pos hsame]; exact hi
      · rw [if_neg hsame]
        have hi1 : Inv (s.replace { ex with enabled := false }) :=
          inv_replace s _ hi (hi.toxics ex hexm)
        by_cases hst : x.enabled.getD true = true
        · rw [if_pos hst]
          cases hs : startProxy e (s.replace { ex with enabled := false }) ⟨x.name, x.listen, x.upstream, false, []⟩ with
          | none => exact hi1
          | some p =>
            have hk := startProxy_keeps e _ _ p hs
            exact inv_replace _ p hi1 (by rw [hk.2]; simp)
        · rw [if_neg hst]
          exact inv_replace _ _ hi1 (by simp)
  | none =>
    simp only
    by_cases hst : x.enabled.getD true = true
    · rw [if_pos hst]
      cases hs : startProxy e s ⟨x.name, x.listen, x.upstream, false, []⟩ with
      | none => exact hi
      | some p =>
        have hk := startProxy_keeps e _ _ p hs
        exact inv_append s p hi (by rw [hk.1]; exact hf) (by rw [hk.2]; simp)
    · rw [if_neg hst]
      exact inv_append s ⟨x.name, x.listen, x.upstream, false, []⟩ hi hf (by simp)

theorem inv_populateLoop (e : Env) : ∀ (xs : List PopEntry) (s : State) (acc : List ProxyRec), Inv s →
    Inv (populateLoop e s xs acc).1 := by
  intro xs
  induction xs with
  | nil => intro s acc hi; exact hi
  | cons x xs ih =>
    intro s acc hi
    have h := inv_addOrReplace e s x hi
    unfold populateLoop
    cases ha : addOrReplace e s x with
    | ok r =>
      obtain ⟨s', p, rep⟩ := r
      rw [ha] at h
      exact ih s' _ h
    | error s' =>
      rw [ha] at h
      exact h

theorem inv_populate (e : Env) (s : State) (b : Body) (hi : Inv s) : Inv (populate e s b).1 := by
  unfold populate
  split
  · exact hi
  · rename_i xs _
    split
    · exact hi
    · have := inv_populateLoop e xs s [] hi
      cases hl : populateLoop e s xs [] with
      | mk s' rest =>
        obtain ⟨ps, okk⟩ := rest
        rw [hl] at this
        cases okk <;> exact this

theorem inv_resetStep (e : Env) (acc : State × Bool) (p : ProxyRec) (h : Inv acc.1) : Inv (resetStep e acc p).1 := by
  unfold resetStep
  by_cases h1 : (!acc.2) = true
  · rw [if_pos h1]; exact h
  · rw [if_neg h1]
    simp only
    by_cases h2 : ((acc.1.find p.name).getD p).enabled = true
    · rw [if_pos h2]; exact inv_replace _ _ h (by simp)
    · rw [if_neg h2]
      cases hs : startProxy e acc.1 ((acc.1.find p.name).getD p) with
      | none => exact h
      | some p' => exact inv_replace _ _ h (by simp)

theorem inv_reset (e : Env) (s : State) (hi : Inv s) : Inv (reset e s).1 := by
  have key : ∀ (l : List ProxyRec) (acc : State × Bool), Inv acc.1 → Inv (l.foldl (resetStep e) acc).1 := by
    intro l
    induction l with
    | nil => intro acc h; exact h
    | cons p l ih => intro acc h; exact ih _ (inv_resetStep e acc p h)
  have hr : (reset e s).1 = (s.foldl (resetStep e) (s, true)).1 := by
    unfold reset
    simp only
    split <;> rfl
  rw [hr]
  exact key s (s, true) hi

theorem inv_dispatch (v : UpdVariant) (e : Env) (s : State) (r : Request) (hi : Inv s) : Inv (dispatch v e s r).1 := by
  unfold dispatch
  split
  all_goals first
    | exact hi
    | exact inv_reset e s hi
    | exact inv_populate e s _ hi
    | exact inv_hCreate e s _ hi
    | exact inv_hUpdate e s _ _ hi
    | exact inv_hToxicCreate s _ _ hi
    | exact inv_hToxicUpdate v s _ _ _ hi
    | exact inv_hToxicDelete s _ _ hi
    | (unfold hIndex; exact hi)
    | (unfold hShow; exact inv_withProxy s _ _ hi (fun _ _ => hi))
    | (unfold hDelete; exact inv_withProxy s _ _ hi (fun _ _ => inv_remove s _ hi))
    | (unfold hToxicIndex; exact inv_withProxy s _ _ hi (fun _ _ => hi))
    | (unfold hToxicShow; exact inv_withProxy s _ _ hi (fun _ _ => by split <;> exact hi))

/-- **C05/C06 (the registry invariant holds in every reachable state).** Proxy names are
unique and toxic names are unique within each proxy after every request, whatever it is:
the hypothesis `Inv` of `C06_rejected_unchanged` is not an assumption about the state but a
fact about every state the API can reach. -/
theorem inv_step (v : UpdVariant) (e : Env) (s : State) (r : Request) (hi : Inv s) : Inv (step v e s r).1 := by
  unfold step
  split
  · exact hi
  · split
    · exact hi
    · split
      · exact hi
      · exact inv_dispatch v e s r hi

theorem inv_empty : Inv [] := ⟨by simp, by simp⟩

theorem C05_reachable_inv (v : UpdVariant) (e : Env) (rs : List Request) :
    Inv (rs.foldl (fun s r => (step v e s r).1) []) := by
  have : ∀ (rs : List Request) (s : State), Inv s → Inv (rs.foldl (fun s r => (step v e s r).1) s) := by
    intro rs
    induction rs with
    | nil => intro s h; exact h
    | cons r rs ih => intro s h; exact ih _ (inv_step v e s r h)
  exact this rs [] inv_empty
/-- **C06 (a rejected request changes nothing), for every reachable state.** No hypothesis on
the state is left: after any history of requests, a request that is answered with an error
status which is not a bind/resolve failure leaves the registry exactly as it was. -/
theorem C06_rejected_unchanged_reachable (e : Env) (rs : List Request) (r : Request)
    (h : Rejected (step .fixed e (rs.foldl (fun s r => (step .fixed e s r).1) []) r).2) :
    (step .fixed e (rs.foldl (fun s r => (step .fixed e s r).1) []) r).1 =
      rs.foldl (fun s r => (step .fixed e s r).1) [] :=
  C06_rejected_unchanged e _ r (C05_reachable_inv .fixed e rs) h

end Toxi.Api
