import Toxi.Proofs.C16
import Toxi.Proofs.C05
/-!
Toxic operations do not look at whether a proxy is running: a toxic add / update / remove
commutes with stopping a proxy.  (Used for C16: between the two steps of a replacing
`AddOrReplace` only toxic operations that had already looked their proxy up can act.)
-/
namespace Toxi.Conc
open Toxi.Api

/-- The shape shared by the three toxic handlers: look the proxy up; compute a new record (or
none) and a response from it. -/
def viaProxy (s : State) (n : String) (G : ProxyRec → Option ProxyRec × Response) : State × Response :=
  withProxy s n fun p =>
    match G p with
    | (some p', r) => (s.replace p', r)
    | (none, r) => (s, r)

/-- `G` only works on the toxics. -/
structure ToxicOnly (G : ProxyRec → Option ProxyRec × Response) : Prop where
  offc : ∀ p, G (off p) = ((G p).1.map off, (G p).2)
  keep : ∀ p p', (G p).1 = some p' → p'.name = p.name ∧ p'.listen = p.listen ∧ p'.upstream = p.upstream ∧ p'.enabled = p.enabled

def gCreate (b : Body) (p : ProxyRec) : Option ProxyRec × Response :=
  match addToxic p b with
  | .ok (p', t) => (some p', ok 200 (.toxic t))
  | .error err => (none, errResp err)

def gDelete (tn : String) (p : ProxyRec) : Option ProxyRec × Response :=
  match removeToxic p tn with
  | .ok p' => (some p', ok 204 .none)
  | .error err => (none, errResp err)

def gUpdate (v : UpdVariant) (tn : String) (b : Body) (p : ProxyRec) : Option ProxyRec × Response :=
  match updateToxic v p tn b with
  | (p', .ok t) => (some p', ok 200 (.toxic t))
  | (p', .error err) => (some p', errResp err)

theorem hToxicCreate_via (s : State) (n : String) (b : Body) : hToxicCreate s n b = viaProxy s n (gCreate b) := by
  unfold hToxicCreate viaProxy gCreate withProxy
  cases s.find n with
  | none => rfl
  | some p => simp only; cases addToxic p b <;> rfl

theorem hToxicDelete_via (s : State) (n tn : String) : hToxicDelete s n tn = viaProxy s n (gDelete tn) := by
  unfold hToxicDelete viaProxy gDelete withProxy
  cases s.find n with
  | none => rfl
  | some p => simp only; cases removeToxic p tn <;> rfl

theorem hToxicUpdate_via (v : UpdVariant) (s : State) (n tn : String) (b : Body) :
    hToxicUpdate v s n tn b = viaProxy s n (gUpdate v tn b) := by
  unfold hToxicUpdate viaProxy gUpdate withProxy
  cases s.find n with
  | none => rfl
  | some p =>
    simp only
    cases hu : updateToxic v p tn b with
    | mk p' res => cases res <;> rfl

theorem findToxic_off (p : ProxyRec) (n : String) : findToxic (off p) n = findToxic p n := rfl

theorem addToxic_off (p : ProxyRec) (b : Body) :
    addToxic (off p) b = (match addToxic p b with | .ok (p', t) => .ok (off p', t) | .error e => .error e) := by
  unfold addToxic
  cases decodeToxicWrapper b with
  | none => rfl
  | some w =>
    simp only
    cases parseDirection w.stream with
    | none => rfl
    | some dir =>
      simp only
      cases zeroAttrs w.type with
      | none => rfl
      | some z =>
        simp only [findToxic_off]
        generalize (if (w.name == "") = true then w.type ++ "_" ++ w.stream else w.name) = nm
        by_cases h1 : (findToxic p nm).isSome = true
        · simp only [h1, if_true]
        · simp only [h1, Bool.false_eq_true, if_false]
          by_cases h2 : (applyAttrBody z (bodyFields b)).2 = true
          · simp only [h2, if_true]
          · simp only [h2, Bool.false_eq_true, if_false]; rfl

theorem removeToxic_off (p : ProxyRec) (tn : String) :
    removeToxic (off p) tn = (match removeToxic p tn with | .ok p' => .ok (off p') | .error e => .error e) := by
  unfold removeToxic
  simp only [findToxic_off]
  cases findToxic p tn <;> rfl

theorem updateToxic_off (v : UpdVariant) (p : ProxyRec) (tn : String) (b : Body) :
    updateToxic v (off p) tn b = (off (updateToxic v p tn b).1, (updateToxic v p tn b).2) := by
  unfold updateToxic
  simp only [findToxic_off]
  cases findToxic p tn with
  | none => rfl
  | some t =>
    simp only
    cases b with
    | empty => rfl
    | bad => rfl
    | val j =>
      cases j with
      | obj kvs =>
        simp only
        split
        · cases v <;> rfl
        · rfl
      | null => rfl
      | bool _ => rfl
      | num _ => rfl
      | str _ => rfl
      | arr _ => rfl

theorem toxicOnly_create (b : Body) : ToxicOnly (gCreate b) := by
  constructor
  · intro p
    unfold gCreate
    rw [addToxic_off]
    cases addToxic p b with
    | error e => rfl
    | ok r => rfl
  · intro p p' h
    unfold gCreate at h
    cases ha : addToxic p b with
    | error e => rw [ha] at h; cases h
    | ok r =>
      obtain ⟨q, t⟩ := r
      rw [ha] at h
      simp only [Option.some.injEq] at h
      subst h
      obtain ⟨_, _, _, _, _, _, _, _, _, _, _, _, hq⟩ := addToxic_ok p b q t ha
      subst hq
      exact ⟨rfl, rfl, rfl, rfl⟩

theorem toxicOnly_delete (tn : String) : ToxicOnly (gDelete tn) := by
  constructor
  · intro p
    unfold gDelete
    rw [removeToxic_off]
    cases removeToxic p tn <;> rfl
  · intro p p' h
    unfold gDelete at h
    cases ha : removeToxic p tn with
    | error e => rw [ha] at h; cases h
    | ok q =>
      rw [ha] at h
      simp only [Option.some.injEq] at h
      subst h
      unfold removeToxic at ha
      split at ha
      · cases ha
      · cases ha; exact ⟨rfl, rfl, rfl, rfl⟩

theorem updateToxic_keeps (v : UpdVariant) (p : ProxyRec) (tn : String) (b : Body) :
    (updateToxic v p tn b).1.name = p.name ∧ (updateToxic v p tn b).1.listen = p.listen ∧
    (updateToxic v p tn b).1.upstream = p.upstream ∧ (updateToxic v p tn b).1.enabled = p.enabled := by
  unfold updateToxic
  split
  · exact ⟨rfl, rfl, rfl, rfl⟩
  · split
    · exact ⟨rfl, rfl, rfl, rfl⟩
    · exact ⟨rfl, rfl, rfl, rfl⟩
    · exact ⟨rfl, rfl, rfl, rfl⟩
    · simp only
      split
      · cases v <;> exact ⟨rfl, rfl, rfl, rfl⟩
      · exact ⟨rfl, rfl, rfl, rfl⟩
    · exact ⟨rfl, rfl, rfl, rfl⟩

theorem toxicOnly_update (v : UpdVariant) (tn : String) (b : Body) : ToxicOnly (gUpdate v tn b) := by
  constructor
  · intro p
    unfold gUpdate
    rw [updateToxic_off]
    cases hu : updateToxic v p tn b with
    | mk p' res => cases res <;> rfl
  · intro p p' h
    have hk := updateToxic_keeps v p tn b
    unfold gUpdate at h
    cases hu : updateToxic v p tn b with
    | mk q res =>
      rw [hu] at h hk
      cases res <;> (simp only [Option.some.injEq] at h; subst h; exact hk)

/-- A toxic-kind request is one of the three toxic handlers. -/
theorem step_toxic_via (v : UpdVariant) (e : Env) (r : Request) (n : String) (hk : kindOf r = .toxic n) :
    ∃ G, ToxicOnly G ∧ ∀ s, step v e s r = viaProxy s n G := by
  obtain ⟨hb, hp⟩ := kindOf_toxic_inv r n hk
  rcases hp with ⟨hp, hm⟩ | ⟨t, hp, hm⟩
  · refine ⟨gCreate r.body, toxicOnly_create r.body, ?_⟩
    intro s
    rw [← hToxicCreate_via]
    simp [step, hp, hm, hb, routeMethods, dispatch, List.contains, List.elem]
  · rcases hm with hm | hm | hm
    · refine ⟨gUpdate v t r.body, toxicOnly_update v t r.body, ?_⟩
      intro s
      rw [← hToxicUpdate_via]
      simp [step, hp, hm, hb, routeMethods, dispatch, List.contains, List.elem]
    · refine ⟨gUpdate v t r.body, toxicOnly_update v t r.body, ?_⟩
      intro s
      rw [← hToxicUpdate_via]
      simp [step, hp, hm, hb, routeMethods, dispatch, List.contains, List.elem]
    · refine ⟨gDelete t, toxicOnly_delete t, ?_⟩
      intro s
      rw [← hToxicDelete_via]
      simp [step, hp, hm, hb, routeMethods, dispatch, List.contains, List.elem]

theorem find_replace_ne (s : State) (p : ProxyRec) (n : String) (h : p.name ≠ n) : (s.replace p).find n = s.find n := by
  unfold State.find State.replace
  induction s with
  | nil => rfl
  | cons a s ih =>
    rw [List.map_cons, List.find?_cons, List.find?_cons]
    by_cases ha : (a.name == p.name) = true
    · have hpn : (p.name == n) = false := by simpa using h
      have han : (a.name == n) = false := by
        have : a.name = p.name := by simpa using ha
        rw [this]; exact hpn
      simp only [ha, if_true, hpn, han]
      exact ih
    · have hf : (a.name == p.name) = false := by simpa using ha
      simp only [hf, Bool.false_eq_true, if_false]
      cases (a.name == n)
      · exact ih
      · rfl

theorem replace_comm (s : State) (a b : ProxyRec) (h : a.name ≠ b.name) :
    (s.replace a).replace b = (s.replace b).replace a := by
  unfold State.replace
  rw [List.map_map, List.map_map]
  apply List.map_congr_left
  intro q _
  simp only [Function.comp]
  have hab : (a.name == b.name) = false := by simpa using h
  have hba : (b.name == a.name) = false := by simpa using (fun h' => h h'.symm)
  by_cases hqa : (q.name == a.name) = true
  · have hqb : (q.name == b.name) = false := by
      have : q.name = a.name := by simpa using hqa
      rw [this]; exact hab
    simp [hqa, hqb, hab]
  · have hqa' : (q.name == a.name) = false := by simpa using hqa
    by_cases hqb : (q.name == b.name) = true
    · simp [hqa', hqb, hba]
    · have hqb' : (q.name == b.name) = false := by simpa using hqb
      simp [hqa', hqb']

/-- A toxic operation commutes with stopping proxy `m`. -/
theorem via_comm (G : ProxyRec → Option ProxyRec × Response) (hG : ToxicOnly G) (sA : State) (m : String) (ex : ProxyRec)
    (hf : sA.find m = some ex) (n : String) :
    (viaProxy (sA.replace (off ex)) n G).2 = (viaProxy sA n G).2 ∧
    ∃ ex', (viaProxy sA n G).1.find m = some ex' ∧ ex'.listen = ex.listen ∧ ex'.upstream = ex.upstream ∧
      ex'.enabled = ex.enabled ∧
      (viaProxy (sA.replace (off ex)) n G).1 = (viaProxy sA n G).1.replace (off ex') := by
  have hexn : ex.name = m := find_name hf
  by_cases hnm : n = m
  · subst hnm
    have hf1 : (sA.replace (off ex)).find n = some (off ex) := find_replace_self sA n ex (off ex) hexn hf
    unfold viaProxy withProxy
    rw [hf, hf1]
    simp only
    rw [hG.offc ex]
    cases hg : G ex with
    | mk po resp =>
      cases po with
      | none =>
        simp only [Option.map_none]
        exact ⟨trivial, ex, hf, rfl, rfl, rfl, rfl⟩
      | some p' =>
        obtain ⟨hn', hl', hu', he'⟩ := hG.keep ex p' (by rw [hg])
        simp only [Option.map_some]
        refine ⟨trivial, p', find_replace_self sA n ex p' (hn'.trans hexn) hf, hl', hu', he', ?_⟩
        rw [replace_replace sA (off ex) (off p') (by simp [off, hn']), replace_replace sA p' (off p') rfl]
  · have hne : (off ex).name ≠ n := by simp only [off]; rw [hexn]; exact fun h => hnm h.symm
    have hf1 : (sA.replace (off ex)).find n = sA.find n := find_replace_ne sA (off ex) n hne
    unfold viaProxy withProxy
    rw [hf1]
    cases hfn : sA.find n with
    | none => exact ⟨rfl, ex, hf, rfl, rfl, rfl, rfl⟩
    | some p =>
      have hpn : p.name = n := find_name hfn
      simp only
      cases hg : G p with
      | mk po resp =>
        cases po with
        | none => exact ⟨rfl, ex, hf, rfl, rfl, rfl, rfl⟩
        | some p' =>
          obtain ⟨hn', _, _, _⟩ := hG.keep p p' (by rw [hg])
          have hp'm : p'.name ≠ m := by rw [hn', hpn]; exact hnm
          simp only
          refine ⟨trivial, ex, ?_, rfl, rfl, rfl, ?_⟩
          · rw [find_replace_ne sA p' m hp'm]; exact hf
          · exact replace_comm sA (off ex) p' (by simp only [off]; rw [hexn]; exact fun h => hp'm h.symm)

/-- **A toxic operation and the first step of a replacing populate commute.** -/
theorem toxic_commutes (v : UpdVariant) (e : Env) (sA : State) (r0 r : Request) (x : PopEntry) (s1 : State) (n : String)
    (hk : kindOf r = .toxic n) (hsf : stopFirst e sA r0 = some (x, s1)) :
    (step v e s1 r).2 = (step v e sA r).2 ∧
    stopFirst e (step v e sA r).1 r0 = some (x, (step v e s1 r).1) := by
  obtain ⟨ex, rs, hdec, hne, hfind, hres, hdiff, hs1⟩ := (stopFirst_spec e sA r0 x s1).mp hsf
  obtain ⟨G, hG, hstep⟩ := step_toxic_via v e r n hk
  rw [hstep sA, hstep s1, hs1]
  obtain ⟨hresp, ex', hf', hl', hu', he', hst⟩ := via_comm G hG sA x.name ex hfind n
  refine ⟨hresp, ?_⟩
  rw [stopFirst_spec]
  exact ⟨ex', rs, hdec, hne, hf', hres, by rw [hl', hu']; exact hdiff, hst⟩

end Toxi.Conc
