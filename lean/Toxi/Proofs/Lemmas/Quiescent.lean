import Toxi.Proofs.Lemmas.Pipeline
/-!
Completeness at quiescence (the "the complete stream is eventually delivered" clause of
C01/C02): a link in service that can make no move, has no timer pending and whose receiver is
ready holds nothing — everything the source has read has been delivered.
-/
namespace Toxi.Link
open Toxi.Toxic Toxi.Stream

theorem firstSome_none {α : Type} (fs : List (Unit → Option α)) (h : firstSome fs = none) :
    ∀ f ∈ fs, f () = none := by
  induction fs with
  | nil => intro f hf; cases hf
  | cons g fs ih =>
    simp only [firstSome] at h
    cases hg : g () with
    | some b => rw [hg] at h; cases h
    | none =>
      rw [hg] at h
      intro f hf
      rcases List.mem_cons.mp hf with rfl | hf
      · exact hg
      · exact ih h f hf

/-- What quiescence means, goroutine by goroutine. -/
theorem quiescent_parts (l : Link) (chain : List TCfg) (now : Int) (hi : LInv l) (h : l.move chain now = none) :
    l.sinkMove now = none ∧ (∀ i, i < l.stages.length → l.stageMove i now = none ∧ l.bufferMove i now = none) ∧
    l.sourceMove now = none := by
  unfold Link.move at h
  rw [if_neg (by simp [hi.nocrash])] at h
  have hall := firstSome_none _ h
  refine ⟨?_, ?_, ?_⟩
  · exact hall (fun _ => l.sinkMove now) (by simp)
  · intro i hi'
    constructor
    · exact hall (fun _ => l.stageMove i now false) (by
        simp only [List.mem_append, List.mem_cons, List.mem_flatMap, List.mem_reverse, List.mem_range]
        left; right; exact ⟨i, hi', Or.inl rfl⟩)
    · exact hall (fun _ => l.bufferMove i now) (by
        simp only [List.mem_append, List.mem_cons, List.mem_flatMap, List.mem_reverse, List.mem_range]
        left; right; exact ⟨i, hi', Or.inr (Or.inl rfl)⟩)
  · exact hall (fun _ => l.sourceMove now) (by simp)

/-- An idle stub with something visible on its input can move. -/
theorem idle_can_receive (l : Link) (hi : LInv l) (i : Nat) (now : Int) (s : Stage) (hs : l.stages[i]? = some s)
    (carry : Int) (hpc : s.pc = .idle carry) (hin : s.inq ≠ [] ∨ ∃ c, l.offerTo i = some c) :
    l.stageMove i now ≠ none := by
  have hsok := hi.stages s (List.mem_of_getElem? hs)
  obtain ⟨r, hq⟩ := stageMove_quiet l i now false s hs hsok
  rw [hq]
  have hdue : duePart s now = false := by simp [duePart, hpc, Pc.timer]
  rw [hdue]
  simp only [Bool.false_eq_true, if_false]
  unfold recvPart
  have hw : (s.pc.wantsInput && !(l.detached && i + 1 == l.stages.length)) = true := by
    simp [hpc, Pc.wantsInput, hi.attached]
  rw [if_pos hw]
  have hio : ∃ c src, l.inputOf i = some (c, src) := by
    unfold Link.inputOf
    simp only [hs]
    cases hq' : s.inq with
    | cons c rest => exact ⟨some c, .buffered, rfl⟩
    | nil =>
      rcases hin with h | ⟨c, hc⟩
      · exact absurd hq' h
      · simp only [hc]; exact ⟨some c, .rendezvous, rfl⟩
  obtain ⟨c, src, hio⟩ := hio
  simp [hio]

/-- A stage that holds nothing and has nothing queued. -/
def Stage.Empty (s : Stage) : Prop := (∃ carry, s.pc = .idle carry) ∧ s.inq = []

theorem empty_bytes (s : Stage) (h : s.Empty) : s.bytes = [] := by
  obtain ⟨⟨carry, hpc⟩, hq⟩ := h
  simp [Stage.bytes, hpc, hq, Pc.held]

theorem chainBytes_empty (ss : List Stage) (h : ∀ s ∈ ss, s.Empty) : chainBytes ss = [] := by
  induction ss with
  | nil => simp
  | cons s ss ih =>
    rw [chainBytes_cons, ih (fun x hx => h x (by simp [hx])), empty_bytes s (h s (by simp))]
    simp

/-- **C01/C02 (at quiescence everything has been delivered).** A link in service that can make
no move at all, with no timer pending anywhere in the chain, a receiver that accepts writes and
nothing left to read from the source right now, holds no byte: what the receiving peer got is
exactly what the sending peer's socket has yielded so far.  (With the previous theorem: data
in flight can only be delayed by timers, never stuck or lost.) -/
theorem C01_quiescent_complete (l : Link) (chain : List TCfg) (now : Int) (hi : LInv l)
    (hq : l.move chain now = none) (hready : l.sinkReady = true)
    (hnt : ∀ s ∈ l.stages, s.pc.timer = none) (hne : l.stages ≠ []) :
    l.inflight = [] ∧ l.delivered = l.sent := by
  obtain ⟨hsink, hstages, hsrc⟩ := quiescent_parts l chain now hi hq
  have hn : 0 < l.stages.length := List.length_pos_iff.mpr hne
  -- the sink is not in the middle of a write
  have hsp : l.sinkPend = none := by
    cases hsp : l.sinkPend with
    | none => rfl
    | some d =>
      unfold Link.sinkMove at hsink
      rw [if_neg (by simp [hi.sinkOpen])] at hsink
      simp only [hsp] at hsink
      rw [if_neg (by simp [hi.nofail]), if_pos hready] at hsink
      cases hsink
  -- no stage offers to the sink
  have hlast : ∀ a, l.stages[l.stages.length - 1]? = some a → a.pc.offer = none := by
    intro a ha
    cases hoff : a.pc.offer with
    | none => rfl
    | some c =>
      exfalso
      unfold Link.sinkMove at hsink
      rw [if_neg (by simp [hi.sinkOpen])] at hsink
      simp only [hsp] at hsink
      have hw : l.wired = l.stages.length := by simp [Link.wired, hi.attached]
      have hz : (l.stages.length == 0) = false := by simpa using (Nat.pos_iff_ne_zero.mp hn)
      rw [hw] at hsink
      simp only [hz, Bool.false_eq_true, if_false] at hsink
      rw [offerTo_pos l hi _ (Nat.pos_iff_ne_zero.mp hn)] at hsink
      simp [ha, hoff] at hsink
  -- every stage, from the sink's end backwards, is idle and empty
  have key : ∀ k, ∀ i, l.stages.length - k ≤ i → i < l.stages.length → ∀ s, l.stages[i]? = some s → s.Empty := by
    intro k
    induction k with
    | zero => intro i h1 h2; omega
    | succ k ih =>
      intro i h1 h2 s hs
      by_cases hold : l.stages.length - k ≤ i
      · exact ih i hold h2 s hs
      · -- the new index
        have hsok := hi.stages s (List.mem_of_getElem? hs)
        have htm := hnt s (List.mem_of_getElem? hs)
        -- its downstream neighbour takes whatever it offers
        have hnooffer : s.pc.offer = none := by
          by_cases hl : i + 1 = l.stages.length
          · have : l.stages.length - 1 = i := by omega
            exact hlast s (by rw [this]; exact hs)
          · have hi1 : i + 1 < l.stages.length := by omega
            cases hnext : l.stages[i + 1]? with
            | none => rw [List.getElem?_eq_getElem hi1] at hnext; cases hnext
            | some b =>
              have hbe := ih (i + 1) (by omega) hi1 b hnext
              obtain ⟨⟨carry, hbpc⟩, hbq⟩ := hbe
              cases hoff : s.pc.offer with
              | none => rfl
              | some c =>
                exfalso
                have hoffer : l.offerTo (i + 1) = some c := by
                  rw [offerTo_pos l hi (i + 1) (by omega)]
                  simp [hs, hoff]
                exact idle_can_receive l hi (i + 1) now b hnext carry hbpc (Or.inr ⟨c, hoffer⟩) (hstages (i + 1) hi1).1
        have hq' := hsok.quiet
        cases hpc : s.pc with
        | idle carry =>
          refine ⟨⟨carry, hpc⟩, ?_⟩
          cases hinq : s.inq with
          | nil => rfl
          | cons c rest =>
            exfalso
            exact idle_can_receive l hi i now s hs carry hpc (Or.inl (by simp [hinq])) (hstages i h2).1
        | out c k => rw [hpc] at hnooffer; simp [Pc.offer] at hnooffer
        | nap d w => rw [hpc] at htm; simp [Pc.timer] at htm
        | idleT d => rw [hpc] at hq'; simp [Quiet] at hq'
        | hold d => rw [hpc] at hq'; simp [Quiet] at hq'
        | flush c d => rw [hpc] at hq'; simp [Quiet] at hq'
        | ret => rw [hpc] at hq'; simp [Quiet] at hq'
        | crash w => rw [hpc] at hq'; simp [Quiet] at hq'
  have hall : ∀ s ∈ l.stages, s.Empty := by
    intro s hs
    obtain ⟨i, hi', hget⟩ := List.getElem_of_mem hs
    exact key l.stages.length i (by omega) hi' s (by rw [List.getElem?_eq_getElem hi', hget])
  -- and the source is not waiting to hand a chunk over
  have hsrcp : l.srcPend = none := by
    cases hsp' : l.srcPend with
    | none => rfl
    | some c =>
      exfalso
      cases h0 : l.stages[0]? with
      | none => rw [List.getElem?_eq_getElem hn] at h0; cases h0
      | some s0 =>
        obtain ⟨⟨carry, hpc⟩, _⟩ := hall s0 (List.mem_of_getElem? h0)
        exact idle_can_receive l hi 0 now s0 h0 carry hpc (Or.inr ⟨c, by simp [Link.offerTo, hsp']⟩) (hstages 0 hn).1
  have hinf : l.inflight = [] := by
    simp [Link.inflight, hsp, hsrcp, chainBytes_empty l.stages hall]
  refine ⟨hinf, ?_⟩
  have := hi.content
  rw [hinf, List.append_nil] at this
  exact this

end Toxi.Link
