import Toxi.Proofs.Lemmas.Reconf
/-!
Alignment of a connection's stubs with the collection's chain (C04): along every execution of
a link of `Reconf.lean` — any history of toxic add / update / remove with traffic in flight —
the toxics the stubs run are, position by position, the toxics the chain lists whenever no API
call is in progress on the link; while one is in progress they differ exactly by the pending
change.  (On links with a stub that has closed itself the implementation does lose this
alignment: recorded findings C07-e / C07-f.)
-/
namespace Toxi.Link
open Toxi.Toxic Toxi.Stream

/-- The toxics the stubs of the link run, in wiring order. -/
def Link.ts (l : Link) : List TCfg := l.stages.map (·.t)

theorem fire_t (s : Stage) (ev : Event) : (s.fire ev).t = s.t := by
  unfold Stage.fire; split <;> rfl

theorem map_t_modifyAt (ss : List Stage) (i : Nat) (f : Stage → Stage) (hf : ∀ s, (f s).t = s.t) :
    (modifyAt ss i f).map (·.t) = ss.map (·.t) := by
  apply List.ext_getElem?
  intro k
  simp only [List.getElem?_map, getElem?_modifyAt]
  by_cases hk : k = i
  · subst hk
    cases ss[k]? <;> simp [hf]
  · simp [hk]

/-- How the chain relates to the stubs' toxics for each state of the controller. -/
def TFor (chain : List TCfg) (ctl : Option Ctl) (ts : List TCfg) : Prop :=
  match ctl with
  | none => ts = chain
  | some (.addWait newT) => ts = chain ∧ ts[ts.length - 1]? = some newT
  | some (.updWait idx newT) => chain = ts.set idx newT
  | some (.rmIntr idx _) => chain = ts.eraseIdx idx
  | some (.rmLoop idx _ _ _) => chain = ts.eraseIdx idx
  | some (.rmDrain idx _ _) => chain = ts.eraseIdx idx
  | some (.rmWaitStop idx) => chain = ts.eraseIdx idx

@[simp] theorem TFor_clear (chain : List TCfg) (ctl : Option Ctl) (ts : List TCfg) :
    TFor chain (ctl.map clearTmp) ts = TFor chain ctl ts := by
  cases ctl with
  | none => rfl
  | some x => cases x <;> rfl

def TInv (chain : List TCfg) (l : Link) : Prop := TFor chain l.ctl l.ts

/-- A move that is not the controller's changes neither the stubs' toxics nor (apart from the
hand-carried chunk) the controller's state. -/
def Same (l l' : Link) : Prop := l'.ts = l.ts ∧ (l'.ctl = l.ctl ∨ l'.ctl = l.ctl.map clearTmp)

theorem Same.tinv {chain : List TCfg} {l l' : Link} (h : Same l l') (ht : TInv chain l) : TInv chain l' := by
  unfold TInv at ht ⊢
  rw [h.1]
  rcases h.2 with h2 | h2 <;> rw [h2]
  · exact ht
  · rw [TFor_clear]; exact ht

theorem same_refl (l : Link) : Same l l := ⟨rfl, Or.inl rfl⟩

theorem same_ack (l : Link) (i : Nat) (now : Int) : Same l (l.ackUpstream i now) := by
  unfold Link.ackUpstream
  split
  · exact ⟨rfl, Or.inl rfl⟩
  · split
    · split
      · rename_i hc; exact ⟨rfl, Or.inr (by simp [hc, clearTmp])⟩
      · rename_i hc; exact ⟨rfl, Or.inr (by simp [hc, clearTmp])⟩
      · exact same_refl l
    · exact ⟨by simp only [Link.ts]; exact map_t_modifyAt _ _ _ (fun s => fire_t s _), Or.inl rfl⟩

theorem same_stages (l l0 : Link) (h : Same l l0) (i : Nat) (f : Stage → Stage) (hf : ∀ s, (f s).t = s.t) (r : Bool) :
    Same l { l0 with race := r, stages := modifyAt l0.stages i f } := by
  refine ⟨?_, h.2⟩
  simp only [Link.ts]
  rw [map_t_modifyAt _ _ _ hf]
  exact h.1

theorem same_consume (l : Link) (i : Nat) (src : InSrc) (b : Bool) (now : Int) : Same l (l.consume i src b now) := by
  unfold Link.consume
  split
  · exact same_refl l
  · cases src
    · exact ⟨by simp only [Link.ts]; exact map_t_modifyAt _ _ _ (fun _ => rfl), Or.inl rfl⟩
    · exact same_ack l i now

theorem same_sourceMove (l : Link) (now : Int) (l' : Link) (h : l.sourceMove now = some l') : Same l l' := by
  unfold Link.sourceMove at h
  split at h
  · split at h
    · cases h; exact ⟨rfl, Or.inl rfl⟩
    · split at h
      · cases h; exact ⟨rfl, Or.inl rfl⟩
      · cases h
  · cases h

theorem same_bufferMove (l : Link) (i : Nat) (now : Int) (l' : Link) (h : l.bufferMove i now = some l') : Same l l' := by
  unfold Link.bufferMove at h
  cases hs : l.stages[i]? with
  | none => simp [hs] at h
  | some s =>
    simp only [hs] at h
    split at h
    · cases hoff : l.offerTo i with
      | none => simp [hoff] at h
      | some c =>
        simp only [hoff, Option.some.injEq] at h
        subst h
        exact same_stages l _ (same_ack l i now) i (fun s => { s with inq := s.inq ++ [c] }) (fun _ => rfl) _
    · cases h

theorem same_sinkMove (l : Link) (now : Int) (l' : Link) (h : l.sinkMove now = some l') : Same l l' := by
  unfold Link.sinkMove at h
  by_cases hdc : l.destClosed = true
  · rw [if_pos hdc] at h
    by_cases hdr : (!l.sinkDrain) = true
    · rw [if_pos hdr] at h; cases h
    · rw [if_neg hdr] at h
      simp only at h
      by_cases hz : (l.wired == 0) = true
      · rw [if_pos hz] at h; cases h
      · rw [if_neg hz] at h
        cases hoff : l.offerTo l.wired with
        | some c => simp only [hoff, Option.some.injEq] at h; subst h; exact same_ack l _ now
        | none =>
          simp only [hoff] at h
          split at h
          · cases h; exact ⟨rfl, Or.inl rfl⟩
          · cases h
  · rw [if_neg hdc] at h
    cases hsp : l.sinkPend with
    | some d =>
      simp only [hsp] at h
      split at h
      · cases h; exact ⟨rfl, Or.inl rfl⟩
      · split at h
        · cases h; exact ⟨rfl, Or.inl rfl⟩
        · cases h
    | none =>
      simp only [hsp] at h
      by_cases hz : (l.wired == 0) = true
      · rw [if_pos hz] at h; cases h
      · rw [if_neg hz] at h
        cases hoff : l.offerTo l.wired with
        | some c =>
          simp only [hoff, Option.some.injEq] at h
          subst h
          have := same_ack l l.wired now
          exact ⟨this.1, this.2⟩
        | none =>
          simp only [hoff] at h
          split at h
          · cases h; exact ⟨rfl, Or.inl rfl⟩
          · cases h

theorem same_stageMove (l : Link) (i : Nat) (now : Int) (busy : Bool) (l' : Link)
    (h : l.stageMove i now busy = some l') : Same l l' ∨ (l'.crash.isSome ∧ l'.ctl = l.ctl) := by
  cases hs : l.stages[i]? with
  | none => simp [Link.stageMove, hs] at h
  | some s =>
    by_cases hcr : ∃ w, s.pc = .crash w
    · obtain ⟨w, hw⟩ := hcr
      unfold Link.stageMove at h
      simp only [hs, hw, Option.some.injEq] at h
      subst h
      exact Or.inr ⟨rfl, rfl⟩
    · left
      have hnc : ∀ w, s.pc ≠ .crash w := fun w hw => hcr ⟨w, hw⟩
      rw [stageMove_body l i now busy s hs hnc] at h
      unfold stageBody at h
      by_cases h1 : duePart s now = true
      · rw [if_pos h1] at h
        cases h
        exact same_stages l l (same_refl l) i _ (fun s => fire_t s _) _
      · rw [if_neg h1] at h
        by_cases h2 : (s.intr == IntrSt.pending && s.st.closed) = true
        · rw [if_pos h2] at h
          cases h
          exact same_stages l l (same_refl l) i (fun s => { s with intr := .done false }) (fun _ => rfl) l.race
        · rw [if_neg h2] at h
          by_cases h3 : (s.intr == IntrSt.pending && s.pc.interruptible) = true
          · rw [if_pos h3] at h
            cases h
            exact same_stages l l (same_refl l) i (fun s => { (s.fire (.interrupt now)) with intr := .waitRet })
              (fun s => fire_t s _) _
          · rw [if_neg h3] at h
            by_cases h4 : (s.intr == IntrSt.waitRet && !s.pc.running) = true
            · rw [if_pos h4] at h
              cases h
              exact same_stages l l (same_refl l) i (fun s => { s with intr := .done true }) (fun _ => rfl) l.race
            · rw [if_neg h4] at h
              by_cases h5 : (s.pc.wantsInput && !(l.detached && i + 1 == l.stages.length)) = true
              · rw [if_pos h5] at h
                cases hio : l.inputOf i with
                | none => simp [hio] at h
                | some r =>
                  obtain ⟨c, src⟩ := r
                  simp only [hio, Option.some.injEq] at h
                  subst h
                  exact same_stages l _ (same_consume l i src c.isSome now) i _ (fun s => fire_t s _) _
              · rw [if_neg h5] at h
                by_cases h6 : (s.st.closed && !s.pc.running && !l.ctlDrains i) = true
                · rw [if_pos h6] at h
                  split at h
                  · cases h; exact same_consume l i _ true now
                  · cases h
                · rw [if_neg h6] at h
                  cases h


/-! ### The controller's steps -/

theorem start_t (s : Stage) (t : TCfg) (now : Int) : (s.start t now).t = t := rfl

theorem ts_get (l : Link) (k : Nat) : l.ts[k]? = (l.stages[k]?).map (·.t) := by
  simp [Link.ts]

theorem ts_length (l : Link) : l.ts.length = l.stages.length := by simp [Link.ts]

theorem t_ctl_upd (chain : List TCfg) (l : Link) (hi : RInv chain l) (ht : TInv chain l) (now : Int) (idx : Nat)
    (newT : TCfg) (hc : l.ctl = some (.updWait idx newT)) (l' : Link) (h : l.ctlMove chain now = some l') :
    TInv chain l' := by
  unfold TInv at ht
  rw [hc] at ht
  simp only [TFor] at ht
  have hctl := hi.ctl
  rw [hc] at hctl
  simp only [CtlFor] at hctl
  unfold Link.ctlMove at h
  simp only [hc] at h
  cases hs : l.stages[idx]? with
  | none => rw [List.getElem?_eq_none_iff] at hs; omega
  | some s =>
    simp only [hs] at h
    have hsi := hi.stages idx s hs
    rw [hc] at hsi
    simp only [roleFor, if_true, StageInv] at hsi
    rcases hsi.2 with hint | hint | ⟨hint, _⟩
    · simp [hint] at h
    · simp [hint] at h
    · simp only [hint, Option.some.injEq] at h
      subst h
      unfold TInv
      simp only [TFor]
      rw [ht]
      apply List.ext_getElem?
      intro k
      simp only [ts_get, getElem?_modifyAt, List.getElem?_set, ts_length]
      by_cases hk : k = idx
      · subst hk
        simp [hs, hctl.2.1, start_t]
      · have : ¬ (idx = k) := fun h' => hk h'.symm
        simp [hk, this]

theorem t_ctl_add (chain : List TCfg) (l : Link) (hi : RInv chain l) (ht : TInv chain l) (now : Int)
    (newT : TCfg) (hc : l.ctl = some (.addWait newT)) (l' : Link) (h : l.ctlMove chain now = some l') :
    TInv chain l' := by
  unfold TInv at ht
  rw [hc] at ht
  simp only [TFor] at ht
  obtain ⟨hts, hlast⟩ := ht
  have hctl := hi.ctl
  rw [hc] at hctl
  simp only [CtlFor] at hctl
  obtain ⟨hdet, hn2, hsafe, hlen⟩ := hctl
  unfold Link.ctlMove at h
  simp only [hc] at h
  cases hp : l.stages[l.stages.length - 1 - 1]? with
  | none => simp [hp] at h
  | some prev =>
    simp only [hp] at h
    have hpi := hi.stages _ prev hp
    rw [hc] at hpi
    have hr1 : ¬ (l.stages.length - 1 - 1 + 1 = l.stages.length) := by omega
    have hr2 : l.stages.length - 1 - 1 + 2 = l.stages.length := by omega
    simp only [roleFor, hr1, hr2, if_false, if_true, StageInv] at hpi
    rcases hpi.2 with hint | hint | ⟨hint, _⟩
    · simp [hint] at h
    · simp [hint] at h
    · simp only [hint, Option.some.injEq] at h
      cases htt : chain[l.stages.length - 1 - 1]? with
      | none => rw [List.getElem?_eq_none_iff] at htt; omega
      | some t =>
        unfold restartAt at h
        simp only [htt] at h
        subst h
        unfold TInv
        simp only [TFor]
        rw [← hts]
        apply List.ext_getElem?
        intro k
        have hne : l.stages.length - 1 ≠ l.stages.length - 1 - 1 := by omega
        simp only [ts_get, getElem?_modifyAt]
        by_cases hk : k = l.stages.length - 1 - 1
        · subst hk
          simp only [if_true, if_neg (Ne.symm hne), hp, Option.map_some, start_t]
          -- the predecessor is restarted with its own toxic
          have : l.ts[l.stages.length - 1 - 1]? = some prev.t := by rw [ts_get, hp]; rfl
          rw [hts, htt] at this
          exact this
        · by_cases hk2 : k = l.stages.length - 1
          · subst hk2
            cases hf : l.stages[l.stages.length - 1]? with
            | none => rw [List.getElem?_eq_none_iff] at hf; omega
            | some fr =>
              simp only [if_true, if_neg hne, hf, Option.map_some, start_t]
              have : l.ts.length = l.stages.length := by simp [Link.ts]
              rw [this, ts_get, hf] at hlast
              simpa using hlast.symm
          · simp [hk, hk2]

theorem t_ctl_rmIntr (chain : List TCfg) (l : Link) (hi : RInv chain l) (ht : TInv chain l) (now : Int) (idx : Nat)
    (cl : Bool) (hc : l.ctl = some (.rmIntr idx cl)) (l' : Link) (h : l.ctlMove chain now = some l') :
    TInv chain l' := by
  unfold TInv at ht
  rw [hc] at ht
  simp only [TFor] at ht
  have hctl := hi.ctl
  rw [hc] at hctl
  simp only [CtlFor] at hctl
  obtain ⟨_, hcl, _, _, _⟩ := hctl
  subst hcl
  unfold Link.ctlMove at h
  simp only [hc] at h
  cases hs : l.stages[idx]? with
  | none => rw [List.getElem?_eq_none_iff] at hs; omega
  | some s =>
    simp only [hs] at h
    have hsi := hi.stages idx s hs
    rw [hc] at hsi
    simp only [roleFor, if_true, StageInv] at hsi
    rcases hsi.2 with hint | hint | ⟨hint, _⟩
    · simp [hint] at h
    · simp [hint] at h
    · simp only [hint, Bool.false_eq_true, if_false, Option.some.injEq] at h
      subst h
      unfold TInv
      simp only [TFor, Link.ts]
      rw [map_t_modifyAt, map_t_modifyAt]
      · exact ht
      all_goals (intro s; rfl)

theorem inputOf_not_eof (chain : List TCfg) (l : Link) (hi : RInv chain l) (i : Nat) (src : InSrc) :
    l.inputOf i ≠ some (none, src) := by
  intro h
  unfold Link.inputOf at h
  split at h
  · cases h
  · split at h
    · cases h
    · split at h
      · cases h
      · rw [inputClosed_false' chain l hi i] at h; simp at h

theorem t_ctl_rmLoop (chain : List TCfg) (l : Link) (hi : RInv chain l) (ht : TInv chain l) (now : Int) (idx : Nat)
    (tmp : Option Chunk) (dl : Int) (sg : Bool) (hc : l.ctl = some (.rmLoop idx tmp dl sg)) (hng : NoGiveUp l now)
    (l' : Link) (h : l.ctlMove chain now = some l') : TInv chain l' := by
  unfold TInv at ht
  rw [hc] at ht
  simp only [TFor] at ht
  unfold Link.ctlMove at h
  simp only [hc] at h
  cases tmp with
  | some c0 =>
    have := hng.2
    rw [hc] at this
    simp only at this
    have hd : decide (dl ≤ now) = false := by simp; omega
    simp [hd] at h
  | none =>
    simp only at h
    split at h
    · cases h
      unfold TInv
      simp only [TFor, Link.ts]
      rw [map_t_modifyAt]
      · exact ht
      · intro s; rfl
    · split at h
      · cases h
        unfold TInv
        simp only [TFor, Link.ts]
        rw [map_t_modifyAt]
        · exact ht
        · intro s; rfl
      · split at h
        · rename_i c src _
          cases h
          have hsame := same_consume l idx src true now
          unfold TInv
          simp only [TFor]
          have : Link.ts { (l.consume idx src true now) with ctl := some (.rmLoop idx (some c) (now + 5000 * ms) sg) } =
              (l.consume idx src true now).ts := rfl
          rw [this, hsame.1]
          exact ht
        · -- end of input: impossible while the sender's stream is open
          rename_i src heq
          exact absurd heq (inputOf_not_eof chain l hi idx src)
        · cases h

theorem t_ctl_rmDrain (chain : List TCfg) (l : Link) (hi : RInv chain l) (ht : TInv chain l) (now : Int) (idx : Nat)
    (tmp : Option Chunk) (dl : Int) (hc : l.ctl = some (.rmDrain idx tmp dl)) (hng : NoGiveUp l now)
    (l' : Link) (h : l.ctlMove chain now = some l') : TInv chain l' := by
  unfold TInv at ht
  rw [hc] at ht
  simp only [TFor] at ht
  have hctl := hi.ctl
  rw [hc] at hctl
  simp only [CtlFor] at hctl
  obtain ⟨_, hidx1, hidx, hlen⟩ := hctl
  unfold Link.ctlMove at h
  simp only [hc] at h
  cases tmp with
  | some c0 =>
    have := hng.2
    rw [hc] at this
    simp only at this
    have hd : decide (dl ≤ now) = false := by simp; omega
    simp [hd] at h
  | none =>
    simp only at h
    split at h
    · cases h
      unfold TInv
      simp only [TFor, Link.ts]
      rw [map_t_modifyAt]
      · exact ht
      · intro s; rfl
    · cases htt : chain[idx - 1]? with
      | none => rw [List.getElem?_eq_none_iff] at htt; omega
      | some t =>
        unfold restartAt at h
        simp only [htt, Option.some.injEq] at h
        subst h
        unfold TInv
        simp only [TFor]
        rw [ht]
        apply List.ext_getElem?
        intro k
        simp only [ts_get, getElem?_modifyAt, List.getElem?_eraseIdx]
        by_cases hk : k = idx - 1
        · subst hk
          have hlt : idx - 1 < idx := by omega
          simp only [if_true, hlt]
          cases hp : l.stages[idx - 1]? with
          | none => rw [List.getElem?_eq_none_iff] at hp; omega
          | some prev =>
            simp only [Option.map_some, start_t]
            -- chain[idx-1] is the predecessor's own toxic
            have h1 : (l.ts.eraseIdx idx)[idx - 1]? = some prev.t := by
              rw [List.getElem?_eraseIdx, if_pos hlt, ts_get, hp]; rfl
            rw [← ht, htt] at h1
            rw [h1]
        · simp only [hk, if_false]
          by_cases hlt : k < idx <;> simp [hlt]

theorem t_ctlMove (chain : List TCfg) (l : Link) (hi : RInv chain l) (ht : TInv chain l) (now : Int)
    (hng : NoGiveUp l now) (l' : Link) (h : l.ctlMove chain now = some l') : TInv chain l' := by
  cases hc : l.ctl with
  | none => simp [Link.ctlMove, hc] at h
  | some x =>
    cases x with
    | addWait t => exact t_ctl_add chain l hi ht now t hc l' h
    | updWait idx t => exact t_ctl_upd chain l hi ht now idx t hc l' h
    | rmIntr idx cl => exact t_ctl_rmIntr chain l hi ht now idx cl hc l' h
    | rmLoop idx tmp dl sg => exact t_ctl_rmLoop chain l hi ht now idx tmp dl sg hc hng l' h
    | rmDrain idx tmp dl => exact t_ctl_rmDrain chain l hi ht now idx tmp dl hc hng l' h
    | rmWaitStop idx =>
      have := hi.ctl
      rw [hc] at this
      simp [CtlFor] at this


/-- Every move of a link under reconfiguration keeps the stubs aligned with the chain. -/
theorem t_move (chain : List TCfg) (l : Link) (now : Int) (busy : Bool) (l' : Link) (hi : RInv chain l) (ht : TInv chain l)
    (hng : NoGiveUp l now) (h : l.move chain now busy = some l') : TInv chain l' := by
  have hi' := C02_move_conserves chain l now busy l' hi hng h
  unfold Link.move at h
  rw [if_neg (by simp [hi.nocrash])] at h
  obtain ⟨f, hf, hfa⟩ := firstSome_some _ l' h
  simp only [List.mem_append, List.mem_cons, List.mem_flatMap, List.mem_reverse, List.mem_range,
    List.not_mem_nil, or_false] at hf
  rcases hf with (hf | hf) | hf
  · rcases hf with rfl | rfl
    · exact t_ctlMove chain l hi ht now hng l' hfa
    · exact (same_sinkMove l now l' hfa).tinv ht
  · obtain ⟨i, _, hf⟩ := hf
    rcases hf with rfl | rfl
    · rcases same_stageMove l i now busy l' hfa with hs | hcr
      · exact hs.tinv ht
      · rw [hi'.nocrash] at hcr; cases hcr.1
    · exact (same_bufferMove l i now l' hfa).tinv ht
  · subst hf
    exact (same_sourceMove l now l' hfa).tinv ht

theorem same_recvAlt (l : Link) (i : Nat) (now : Int) (l' : Link) (h : l.recvAlt i now = some l') : Same l l' := by
  unfold Link.recvAlt at h
  cases hs : l.stages[i]? with
  | none => simp [hs] at h
  | some s =>
    simp only [hs] at h
    unfold recvPart at h
    split at h
    · cases hio : l.inputOf i with
      | none => simp [hio] at h
      | some r =>
        obtain ⟨c, src⟩ := r
        simp only [hio, Option.some.injEq] at h
        subst h
        exact same_stages l _ (same_consume l i src c.isSome now) i _ (fun s => fire_t s _) _
    · cases h

theorem same_intrAlt (l : Link) (i : Nat) (now : Int) (l' : Link) (h : l.intrAlt i now = some l') : Same l l' := by
  unfold Link.intrAlt at h
  cases hs : l.stages[i]? with
  | none => simp [hs] at h
  | some s =>
    simp only [hs] at h
    split at h
    · cases h
      exact same_stages l l (same_refl l) i (fun s => { (s.fire (.interrupt now)) with intr := .waitRet })
        (fun s => fire_t s _) l.race
    · cases h

theorem t_ctlTakeAlt (chain : List TCfg) (l : Link) (ht : TInv chain l) (now : Int) (l' : Link)
    (h : l.ctlTakeAlt now = some l') : TInv chain l' := by
  unfold Link.ctlTakeAlt at h
  split at h
  · rename_i idx dl sg hc
    split at h
    · rename_i c src _
      cases h
      have hsame := same_consume l idx src true now
      unfold TInv at ht ⊢
      rw [hc] at ht
      have : Link.ts { (l.consume idx src true now) with ctl := some (.rmLoop idx (some c) (now + 5000 * ms) sg) } =
          (l.consume idx src true now).ts := rfl
      simp only [TFor] at ht ⊢
      rw [this, hsame.1]
      exact ht
    · cases h
  · cases h

theorem t_anymove (chain : List TCfg) (l : Link) (now : Int) (busy : Bool) (l' : Link) (hi : RInv chain l) (ht : TInv chain l)
    (hng : NoGiveUp l now) (h : l.AnyMove chain now busy l') : TInv chain l' := by
  have hi' := C02_anymove_conserves chain l now busy l' hi hng h
  rcases h.2 with h' | h' | ⟨i, h'⟩ | ⟨i, h'⟩ | h' | ⟨i, h'⟩ | ⟨i, h'⟩ | h'
  · exact t_ctlMove chain l hi ht now hng l' h'
  · exact (same_sinkMove l now l' h').tinv ht
  · rcases same_stageMove l i now busy l' h' with hs | hcr
    · exact hs.tinv ht
    · rw [hi'.nocrash] at hcr; cases hcr.1
  · exact (same_bufferMove l i now l' h').tinv ht
  · exact (same_sourceMove l now l' h').tinv ht
  · exact (same_recvAlt l i now l' h').tinv ht
  · exact (same_intrAlt l i now l' h').tinv ht
  · exact t_ctlTakeAlt chain l ht now l' h'

theorem t_new (chain : List TCfg) (now : Int) : TInv chain (Link.new chain now) := by
  unfold TInv
  simp only [Link.new, TFor, Link.ts, Stage.fresh_start, List.map_map]
  apply List.ext_getElem?
  intro k
  simp only [List.getElem?_map, Stage.fresh]
  cases chain[k]? <;> rfl

theorem t_exec {c0 : List TCfg} {l0 : Link} {chain : List TCfg} {l : Link} (h0 : RInv c0 l0) (t0 : TInv c0 l0)
    (h : Exec c0 l0 chain l) : TInv chain l := by
  induction h with
  | refl => exact t0
  | move now busy l' he hng hm ih => exact t_anymove _ _ now busy l' (RInv_exec h0 he) ih hng hm
  | env q ready _ ih => exact ih
  | @add chain l t _ hc hne hs ih =>
    unfold TInv at ih ⊢
    rw [hc] at ih
    simp only [TFor] at ih
    unfold Link.beginAdd
    simp only [TFor, Link.ts]
    rw [map_t_modifyAt]
    · simp only [List.map_append, List.map_cons, List.map_nil, List.length_append, List.length_map, List.length_singleton]
      refine ⟨by rw [← ih]; rfl, ?_⟩
      simp [Stage.fresh]
    · intro s; rfl
  | @update chain l idx t _ hc hidx hs ih =>
    unfold TInv at ih ⊢
    rw [hc] at ih
    simp only [TFor] at ih
    unfold Link.beginUpdate
    simp only [TFor, Link.ts]
    rw [map_t_modifyAt]
    · rw [← ih]; rfl
    · intro s; rfl
  | @remove chain l idx _ hc h1 h2 ih =>
    unfold TInv at ih ⊢
    rw [hc] at ih
    simp only [TFor] at ih
    unfold Link.beginRemove
    simp only [TFor, Link.ts]
    rw [map_t_modifyAt]
    · rw [← ih]; rfl
    · intro s; rfl

/-- **C04 (listed toxics are the toxics in effect, on old connections too).**  For every chain of
data-preserving toxics and every execution of a connection's link from its creation — any
history of toxic add / update / remove (reset) at any moment, any traffic, any schedule, no
5 s give-up — whenever no API call is in progress on the link, its stubs run, position by
position, exactly the toxics the collection's chain lists (name, type, attributes, toxicity
outcome, buffer size): the same configuration a connection established now would get
(`C04_new_link_aligned`).  While a call is in progress the two differ exactly by the pending
change (`TFor`). -/
theorem C04_exec (chain0 : List TCfg) (now0 : Int) (hsafe : ∀ t ∈ chain0, SafeT t) {chain : List TCfg} {l : Link}
    (h : Exec chain0 (Link.new chain0 now0) chain l) :
    TInv chain l ∧ (l.ctl = none → l.stages.map (·.t) = chain ∧
      l.stages.map (·.t) = (Link.new chain now0).stages.map (·.t)) := by
  have h0 : RInv chain0 (Link.new chain0 now0) :=
    RInv_of_LInv chain0 _ (LInv_new chain0 now0 (fun t ht => hsafe t ht)) hsafe (by simp [Link.new])
  have ht := t_exec h0 (t_new chain0 now0) h
  refine ⟨ht, fun hc => ?_⟩
  have h1 : l.stages.map (·.t) = chain := by
    unfold TInv at ht
    rw [hc] at ht
    exact ht
  refine ⟨h1, ?_⟩
  rw [h1]
  have := t_new chain now0
  unfold TInv at this
  simp only [Link.new, TFor] at this
  exact this.symm

example : Ex.x7.stages.map (·.t) = Ex.c3 := (C04_exec Ex.c0 0 Ex.safe0 Ex.exec7).2 (by decide) |>.1

end Toxi.Link
