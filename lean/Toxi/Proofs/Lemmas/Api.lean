import Toxi.Model.Api

/-! Helper lemmas about the registry model (used by C05, C06, C17). -/
namespace Toxi.Api

/-- Registry invariant: proxy names are unique, and within each proxy toxic names are
unique (over both streams). -/
structure Inv (s : State) : Prop where
  names : (s.map (·.name)).Nodup
  toxics : ∀ p ∈ s, (p.toxics.map (·.name)).Nodup

theorem find_some_mem {s : State} {n : String} {p : ProxyRec} (h : s.find n = some p) :
    p ∈ s ∧ p.name = n := by
  unfold State.find at h
  have := List.find?_some h
  exact ⟨List.mem_of_find?_eq_some h, by simpa using this⟩

theorem find_none {s : State} {n : String} (h : s.find n = none) : ∀ p ∈ s, p.name ≠ n := by
  unfold State.find at h
  intro p hp
  have := List.find?_eq_none.mp h p hp
  simpa using this

/-- With unique names, a name determines the record. -/
theorem eq_of_name_eq {s : State} (hn : (s.map (·.name)).Nodup) {p q : ProxyRec}
    (hp : p ∈ s) (hq : q ∈ s) (h : q.name = p.name) : q = p := by
  induction s with
  | nil => cases hp
  | cons x s ih =>
    simp only [List.map_cons, List.nodup_cons] at hn
    rcases List.mem_cons.mp hp with rfl | hp' <;> rcases List.mem_cons.mp hq with rfl | hq'
    · rfl
    · exact absurd (h ▸ List.mem_map_of_mem (f := (·.name)) hq') hn.1
    · exact absurd (h ▸ List.mem_map_of_mem (f := (·.name)) hp') hn.1
    · exact ih hn.2 hp' hq'

/-- Replacing a proxy by itself is the identity when names are unique. -/
theorem replace_self {s : State} (hn : (s.map (·.name)).Nodup) {p : ProxyRec} (hp : p ∈ s) :
    s.replace p = s := by
  unfold State.replace
  have : ∀ q ∈ s, (if (q.name == p.name) = true then p else q) = q := by
    intro q hq
    by_cases h : q.name = p.name
    · simp [h, eq_of_name_eq hn hp hq h]
    · simp [h]
  rw [List.map_congr_left this]
  simp

theorem replace_names (s : State) (p : ProxyRec) : (s.replace p).map (·.name) = s.map (·.name) := by
  unfold State.replace
  rw [List.map_map]
  apply List.map_congr_left
  intro q _
  by_cases h : q.name = p.name <;> simp [h]

theorem mem_replace {s : State} {p q : ProxyRec} (h : q ∈ s.replace p) : q = p ∨ q ∈ s := by
  unfold State.replace at h
  obtain ⟨x, hx, rfl⟩ := List.mem_map.mp h
  by_cases hh : (x.name == p.name) = true
  · left; simp [hh]
  · right; simp [hh]; exact hx

theorem remove_sublist (s : State) (n : String) : (s.remove n).Sublist s := by
  unfold State.remove; exact List.filter_sublist

end Toxi.Api
