import Toxi.Model.Api
/-!
# C17 — reset restores a clean state (registry level)

`ResetState` (api.go) walks the proxies, starts each one that is not enabled and then drops
every toxic.  Model: `reset` / `resetStep` of `Model/Api.lean`, tied by engine E4.  The theorem
is for every registry (any number of proxies, enabled or not, with any toxics — even with
repeated names, which a reachable registry never has) and every environment: when the call
answers 204, the proxies are the same, in the same order, with the same upstreams; every one
is enabled and none has a toxic.  When a start is refused (500) the proxies visited before it
are already clean, which the loop invariant `RInvR` records.
-/
namespace Toxi.Api

/-- The loop invariant: same names in the same order, same upstream at every position; while no
start has been refused, the proxies whose names were visited are enabled and have no toxics. -/
structure RInvR (s : State) (done : List String) (acc : State × Bool) : Prop where
  names : acc.1.map (·.name) = s.map (·.name)
  ups   : ∀ q ∈ acc.1, ∃ p ∈ s, p.name = q.name ∧ p.upstream = q.upstream
  clean : acc.2 = true → ∀ q ∈ acc.1, q.name ∈ done → q.enabled = true ∧ q.toxics = []

theorem rs_find_name {s : State} {n : String} {p : ProxyRec} (h : s.find n = some p) : p.name = n ∧ p ∈ s := by
  unfold State.find at h
  have := List.find?_some h
  exact ⟨by simpa using this, List.mem_of_find?_eq_some h⟩

theorem rs_replace_names (s : State) (p : ProxyRec) : (s.replace p).map (·.name) = s.map (·.name) := by
  unfold State.replace
  rw [List.map_map]
  apply List.map_congr_left
  intro q _
  simp only [Function.comp]
  by_cases h : q.name == p.name
  · simp only [h, if_true]; exact (by simpa using h : q.name = p.name).symm
  · simp only [h]; rfl

theorem rs_mem_replace {s : State} {p q : ProxyRec} (h : q ∈ s.replace p) :
    (q = p ∧ ∃ q0 ∈ s, q0.name = p.name) ∨ (q ∈ s ∧ q.name ≠ p.name) := by
  unfold State.replace at h
  rcases List.mem_map.mp h with ⟨q0, hq0, he⟩
  by_cases hn : q0.name == p.name
  · simp only [hn, if_true] at he
    exact .inl ⟨he.symm, q0, hq0, by simpa using hn⟩
  · simp only [hn] at he
    have : q0 = q := by simpa using he
    subst this
    exact .inr ⟨hq0, by simpa using hn⟩

theorem rs_startProxy_keeps {e : Env} {s : State} {p p' : ProxyRec} (h : startProxy e s p = some p') :
    p'.name = p.name ∧ p'.upstream = p.upstream ∧ p'.enabled = true ∧ p'.toxics = p.toxics := by
  unfold startProxy at h
  split at h
  · cases h
  · split at h
    · cases h
    · split at h
      · cases h
      · cases h; exact ⟨rfl, rfl, rfl, rfl⟩

theorem rinv_replace {s : State} {done : List String} {acc : State} {n : String} {c : ProxyRec}
    (hI : RInvR s done (acc, true)) (hn : c.name = n) (hu : ∃ p ∈ s, p.name = n ∧ p.upstream = c.upstream)
    (hen : c.enabled = true) (htx : c.toxics = []) :
    RInvR s (n :: done) (acc.replace c, true) := by
  refine ⟨?_, ?_, ?_⟩
  · simp only [rs_replace_names]; exact hI.names
  · intro q hq
    rcases rs_mem_replace hq with ⟨he, _⟩ | ⟨hm, _⟩
    · subst he; rcases hu with ⟨p, hp, h1, h2⟩; exact ⟨p, hp, by rw [h1, hn], h2⟩
    · exact hI.ups q hm
  · intro _ q hq hd
    rcases rs_mem_replace hq with ⟨he, _⟩ | ⟨hm, hne⟩
    · subst he; exact ⟨hen, htx⟩
    · rcases List.mem_cons.mp hd with h | h
      · exact absurd (h.trans hn.symm) hne
      · exact hI.clean rfl q hm h

theorem rinv_step (e : Env) {s : State} {done : List String} {acc : State × Bool} {p : ProxyRec}
    (hp : p ∈ s) (hI : RInvR s done acc) : RInvR s (p.name :: done) (resetStep e acc p) := by
  obtain ⟨a, ok⟩ := acc
  unfold resetStep
  cases ok with
  | false =>
    simp only [Bool.not_false, if_true]
    exact ⟨hI.names, hI.ups, fun h => by cases h⟩
  | true =>
    simp only [Bool.not_true, Bool.false_eq_true, if_false]
    -- the current record of this name
    have hcur : ((a.find p.name).getD p).name = p.name ∧
        ∃ p0 ∈ s, p0.name = p.name ∧ p0.upstream = ((a.find p.name).getD p).upstream := by
      cases hf : a.find p.name with
      | none => exact ⟨rfl, p, hp, rfl, rfl⟩
      | some c =>
        have ⟨h1, h2⟩ := rs_find_name hf
        rcases hI.ups c h2 with ⟨p0, hp0, h3, h4⟩
        exact ⟨h1, p0, hp0, h3.trans h1, h4⟩
    generalize (a.find p.name).getD p = cur at hcur
    obtain ⟨hcn, hcu⟩ := hcur
    by_cases hen : cur.enabled = true
    · rw [if_pos hen]
      exact rinv_replace (c := { cur with toxics := [] }) hI hcn hcu hen rfl
    · rw [if_neg hen]
      cases hs : startProxy e a cur with
      | none => exact ⟨hI.names, hI.ups, fun h => by cases h⟩
      | some p' =>
        have ⟨k1, k2, k3, _⟩ := rs_startProxy_keeps hs
        simp only
        refine rinv_replace (c := { p' with toxics := [] }) hI (k1.trans hcn) ?_ k3 rfl
        rcases hcu with ⟨p0, hp0, h1, h2⟩
        exact ⟨p0, hp0, h1, h2.trans k2.symm⟩

theorem rinv_fold (e : Env) (s : State) : ∀ (l : List ProxyRec) (done : List String) (acc : State × Bool),
    (∀ p ∈ l, p ∈ s) → RInvR s done acc →
    RInvR s (l.reverse.map (·.name) ++ done) (l.foldl (resetStep e) acc)
  | [], done, acc, _, hI => by simpa using hI
  | p :: l, done, acc, hl, hI => by
    have h1 := rinv_step e (hl p (List.mem_cons_self ..)) hI
    have h2 := rinv_fold e s l (p.name :: done) _ (fun q hq => hl q (List.mem_cons_of_mem _ hq)) h1
    simpa [List.foldl_cons, List.reverse_cons, List.map_append] using h2

/-- **C17, reset at the registry.**  For every registry and environment: a reset that answers 204
leaves the same proxies in the same order with the same upstreams, every one enabled, none
with a toxic (in either direction: `toxics` holds both chains). -/
theorem C17_reset_clean (e : Env) (s : State) (h : (reset e s).2.status = 204) :
    ((reset e s).1.map (·.name) = s.map (·.name)) ∧
    (∀ q ∈ (reset e s).1, q.enabled = true ∧ q.toxics = []) ∧
    (∀ q ∈ (reset e s).1, ∃ p ∈ s, p.name = q.name ∧ p.upstream = q.upstream) := by
  have hI := rinv_fold e s s [] (s, true) (fun _ h => h)
    ⟨rfl, fun q hq => ⟨q, hq, rfl, rfl⟩, fun _ _ _ hd => by cases hd⟩
  unfold reset at h ⊢
  simp only at h ⊢
  generalize List.foldl (resetStep e) (s, true) s = res at hI h ⊢
  obtain ⟨s', ok⟩ := res
  cases ok with
  | false => simp at h
  | true =>
    simp only [if_true]
    refine ⟨hI.names, fun q hq => hI.clean rfl q hq ?_, hI.ups⟩
    have : q.name ∈ s'.map (·.name) := List.mem_map.mpr ⟨q, hq, rfl⟩
    rw [hI.names] at this
    simpa using this

/-- A refused start: the registry still has the same proxies and upstreams (nothing is lost). -/
theorem C17_reset_refused_keeps (e : Env) (s : State) :
    ((reset e s).1.map (·.name) = s.map (·.name)) ∧
    (∀ q ∈ (reset e s).1, ∃ p ∈ s, p.name = q.name ∧ p.upstream = q.upstream) := by
  have hI := rinv_fold e s s [] (s, true) (fun _ h => h)
    ⟨rfl, fun q hq => ⟨q, hq, rfl, rfl⟩, fun _ _ _ hd => by cases hd⟩
  unfold reset
  simp only
  generalize List.foldl (resetStep e) (s, true) s = res at hI ⊢
  obtain ⟨s', ok⟩ := res
  cases ok <;> exact ⟨hI.names, hI.ups⟩

/-- Reset twice is reset once (when the first one answered 204). -/
theorem C17_reset_idempotent (e : Env) (s : State) (_h : (reset e s).2.status = 204)
    (h2 : (reset e (reset e s).1).2.status = 204) :
    ∀ q ∈ (reset e (reset e s).1).1, q.enabled = true ∧ q.toxics = [] :=
  (C17_reset_clean e _ h2).2.1

namespace ExR
def env : Env := ⟨[⟨"a:1", some "a:1", some "a:1", 1⟩, ⟨"b:2", some "b:2", some "b:2", 2⟩], [], []⟩
def tx : ToxicRec := ⟨"t", "latency", "upstream", .up, ⟨1, 1⟩, [("latency", 5)]⟩
def st : State := [⟨"p1", "a:1", "u:1", false, [tx]⟩, ⟨"p2", "b:2", "u:2", true, [tx, { tx with name := "d", dir := .down }]⟩]
/-- The hypotheses are met by a registry with a stopped proxy and toxics in both directions. -/
example : (reset env st).2.status = 204 ∧ (reset env st).1 =
    [⟨"p1", "a:1", "u:1", true, []⟩, ⟨"p2", "b:2", "u:2", true, []⟩] := by decide
/-- and the refused case exists: the stopped proxy's port is held by someone else -/
example : (reset { env with busy := [1] } st).2.status = 500 := by decide
end ExR

end Toxi.Api
