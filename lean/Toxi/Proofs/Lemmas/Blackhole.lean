import Toxi.Proofs.Lemmas.Rest
import Toxi.Proofs.Lemmas.Order
import Toxi.Proofs.Lemmas.Stopped
/-!
C10 at the level of a whole connection: a timeout toxic black-holes the stream.

`C10_*` of `Proofs/C10.lean` are about the toxic's own coroutine.  Here the toxic sits at position
`p` of a chain of *any* other toxics (before and behind it, of any type and attribute values),
and the statement is about the link: along every execution of the connection without toxic
changes — any schedule of the goroutines, any `select` choice, whatever the peers do — nothing
is ever delivered to the receiver.  The invariant: the timeout stub holds no data, and neither
does anything behind it (stubs, their input buffers, the sink's pending write); data only moves
downstream, and the timeout stub never offers any.
-/
namespace Toxi.Link
open Toxi.Toxic Toxi.Stream
open List

/-- Stage `k` of a chain whose timeout toxic is at position `p`: from `p` on the stubs hold
nothing, behind `p` the input buffers hold nothing. -/
def DryAt (p k : Nat) (s : Stage) : Prop :=
  (p ≤ k → s.pc.held = []) ∧ (p < k → ∀ c ∈ s.inq, c.data = [])

/-- The toxics that let nothing through: timeout, reset_peer. -/
def BlackCfg : Cfg → Prop
  | .timeout _ => True
  | .resetPeer _ => True
  | _ => False

structure DInv (p : Nat) (l : Link) : Prop where
  tmo   : ∃ s, l.stages[p]? = some s ∧ BlackCfg (eff s)
  dry   : ∀ k s, l.stages[k]? = some s → DryAt p k s
  pend  : ∀ d, l.sinkPend = some d → d = []
  deliv : l.delivered = []

theorem eff_fire (s : Stage) (ev : Event) : eff (s.fire ev) = eff s := by
  unfold Stage.fire eff
  split <;> rfl

theorem fire_inq (s : Stage) (ev : Event) : (s.fire ev).inq = s.inq := by
  unfold Stage.fire
  split <;> rfl

/-- An applied timeout or reset_peer toxic that holds nothing holds nothing after any event. -/
theorem timeout_dry (cfg : Cfg) (active : Bool) (hc : BlackCfg (effective cfg active))
    (st : StubSt) (pc : Pc) (ev : Event) (st' : StubSt) (pc' : Pc) (hh : pc.held = [])
    (h : step .fixed cfg active st pc ev = some (st', pc')) : pc'.held = [] := by
  by_cases hd : ev.data = []
  · have := (step_sub cfg active st pc ev st' pc' h).1
    rw [hh, hd] at this
    simpa using this
  · -- the event carries data: it is an input chunk, received in the main loop
    cases ev with
    | input oc now draws =>
      cases oc with
      | none => simp [Event.data] at hd
      | some c =>
        rw [step_effective] at h
        generalize effective cfg active = cfg' at h hc
        cases cfg' <;> simp only [BlackCfg] at hc
        · cases pc <;> simp only [step, reduceCtorEq, ↓reduceIte] at h
          all_goals
            simp only [Option.some.injEq, onChunk] at h
            split at h <;> (cases h; rfl)
        · cases pc <;> simp only [step, reduceCtorEq, ↓reduceIte] at h
          all_goals
            simp only [Option.some.injEq, onChunk] at h
            cases h; rfl
    | timer _ => simp [Event.data] at hd
    | taken _ => simp [Event.data] at hd
    | interrupt _ => simp [Event.data] at hd

theorem dry_fire (p k : Nat) (s : Stage) (hd : DryAt p k s) (ev : Event)
    (hev : ev.data = [] ∨ k < p ∨ (k = p ∧ BlackCfg (eff s))) : DryAt p k (s.fire ev) := by
  refine ⟨?_, ?_⟩
  · intro hpk
    have hh := hd.1 hpk
    unfold Stage.fire
    cases hst : step .fixed s.t.cfg s.t.active s.st s.pc ev with
    | none => simp [Pc.held]
    | some r =>
      obtain ⟨st', pc'⟩ := r
      simp only
      rcases hev with he | he | ⟨_, hT⟩
      · have := (step_sub s.t.cfg s.t.active s.st s.pc ev st' pc' hst).1
        rw [hh, he] at this
        simpa using this
      · omega
      · exact timeout_dry s.t.cfg s.t.active hT s.st s.pc ev st' pc' hh hst
  · intro hpk c hc
    rw [fire_inq] at hc
    exact hd.2 hpk c hc

theorem offer_nil (pc : Pc) (c : Chunk) (hh : pc.held = []) (ho : pc.offer = some c) : c.data = [] := by
  cases pc <;> simp only [Pc.offer, Option.some.injEq, reduceCtorEq] at ho
  · subst ho
    simp only [Pc.held, List.append_eq_nil_iff] at hh
    exact hh.1
  · subst ho
    simpa [Pc.held] using hh

theorem d_stages (p : Nat) (l : Link) (hd : DInv p l) (i : Nat) (g : Stage → Stage)
    (hg : ∀ s, l.stages[i]? = some s → DryAt p i (g s)) (heff : ∀ s, eff (g s) = eff s) (r : Bool) :
    DInv p { l with race := r, stages := modifyAt l.stages i g } := by
  refine ⟨?_, ?_, hd.pend, hd.deliv⟩
  · obtain ⟨s, hs, hT⟩ := hd.tmo
    by_cases hip : p = i
    · subst hip
      refine ⟨g s, ?_, by rw [heff]; exact hT⟩
      simp only
      rw [getElem?_modifyAt, if_pos rfl, hs]; rfl
    · refine ⟨s, ?_, hT⟩
      simp only
      rw [getElem?_modifyAt, if_neg hip]; exact hs
  · intro k s hk
    simp only at hk
    rw [getElem?_modifyAt] at hk
    by_cases hki : k = i
    · subst hki
      rw [if_pos rfl] at hk
      cases hs0 : l.stages[k]? with
      | none => rw [hs0] at hk; cases hk
      | some s0 =>
        rw [hs0] at hk
        simp only [Option.map_some, Option.some.injEq] at hk
        subst hk
        exact hg s0 hs0
    · rw [if_neg hki] at hk
      exact hd.dry k s hk

theorem d_field (p : Nat) (l l0 : Link) (hd : DInv p l0) (hs : l.stages = l0.stages) (hp : l.sinkPend = l0.sinkPend)
    (hdl : l.delivered = l0.delivered) : DInv p l :=
  ⟨by rw [hs]; exact hd.tmo, by rw [hs]; exact hd.dry, by rw [hp]; exact hd.pend, by rw [hdl]; exact hd.deliv⟩

theorem d_ack (p : Nat) (l : Link) (hi : EInv l) (hd : DInv p l) (i : Nat) (now : Int) :
    DInv p (l.ackUpstream i now) := by
  by_cases h0 : i = 0
  · subst h0
    have : l.ackUpstream 0 now = { l with srcPend := none } := by simp [Link.ackUpstream]
    rw [this]
    exact d_field p _ l hd rfl rfl rfl
  · rw [ackUpstream_pos' l hi.noctl i h0]
    have := d_stages p l hd (i - 1) (fun s => s.fire (.taken now))
      (fun s hs => dry_fire p (i - 1) s (hd.dry _ s hs) _ (Or.inl rfl)) (fun s => eff_fire s _) l.race
    exact d_field p _ _ this rfl rfl rfl

theorem ack_sinkPend (l : Link) (i : Nat) (now : Int) : (l.ackUpstream i now).sinkPend = l.sinkPend := by
  unfold Link.ackUpstream
  split
  · rfl
  · split
    · split <;> rfl
    · rfl

theorem d_consume (p : Nat) (l : Link) (hi : EInv l) (hd : DInv p l) (i : Nat) (src : InSrc) (b : Bool) (now : Int) :
    DInv p (l.consume i src b now) := by
  unfold Link.consume
  split
  · exact hd
  · cases src with
    | buffered =>
      have := d_stages p l hd i (fun s => { s with inq := s.inq.drop 1 })
        (fun s hs => ⟨(hd.dry i s hs).1, fun hpk c hc => (hd.dry i s hs).2 hpk c (List.mem_of_mem_drop hc)⟩)
        (fun s => rfl) l.race
      exact d_field p _ _ this rfl rfl rfl
    | rendezvous => exact d_ack p l hi hd i now

/-- What stage `i > p` can see on its input carries no data. -/
theorem offerTo_nil (p : Nat) (l : Link) (hi : EInv l) (hd : DInv p l) (i : Nat) (hpi : p < i) (c : Chunk)
    (ho : l.offerTo i = some c) : c.data = [] := by
  have h0 : i ≠ 0 := by omega
  rw [offerTo_pos' l hi.noctl i h0] at ho
  cases hs : l.stages[i - 1]? with
  | none => rw [hs] at ho; cases ho
  | some a =>
    rw [hs] at ho
    simp only [Option.bind_some] at ho
    exact offer_nil a.pc c ((hd.dry (i - 1) a hs).1 (by omega)) ho

theorem inputOf_nil (p : Nat) (l : Link) (hi : EInv l) (hd : DInv p l) (i : Nat) (hpi : p < i) (c : Chunk) (src : InSrc)
    (hio : l.inputOf i = some (some c, src)) : c.data = [] := by
  unfold Link.inputOf at hio
  cases hs : l.stages[i]? with
  | none => rw [hs] at hio; cases hio
  | some s =>
    simp only [hs] at hio
    split at hio
    · rename_i c' q hq
      simp only [Option.some.injEq, Prod.mk.injEq] at hio
      obtain ⟨hc, _⟩ := hio
      subst hc
      exact (hd.dry i s hs).2 hpi c' (by rw [hq]; simp)
    · split at hio
      · rename_i c' hoff
        simp only [Option.some.injEq, Prod.mk.injEq] at hio
        obtain ⟨hc, _⟩ := hio
        subst hc
        exact offerTo_nil p l hi hd i hpi c' hoff
      · split at hio <;> cases hio

theorem d_sourceMove (p : Nat) (l : Link) (now : Int) (l' : Link) (hd : DInv p l) (h : l.sourceMove now = some l') :
    DInv p l' := by
  unfold Link.sourceMove at h
  split at h
  · split at h
    · cases h; exact d_field p _ l hd rfl rfl rfl
    · split at h
      · cases h; exact d_field p _ l hd rfl rfl rfl
      · cases h
  · cases h

theorem d_sinkMove (p : Nat) (l : Link) (now : Int) (l' : Link) (hi : EInv l) (hd : DInv p l)
    (h : l.sinkMove now = some l') : DInv p l' := by
  have hplt : p < l.stages.length := by
    obtain ⟨s, hs, _⟩ := hd.tmo
    rcases Nat.lt_or_ge p l.stages.length with h' | h'
    · exact h'
    · rw [List.getElem?_eq_none h'] at hs; cases hs
  have hw : l.wired = l.stages.length := by simp [Link.wired, hi.attached]
  unfold Link.sinkMove at h
  by_cases hdc : l.destClosed = true
  · rw [if_pos hdc] at h
    by_cases hdr : (!l.sinkDrain) = true
    · rw [if_pos hdr] at h; cases h
    · rw [if_neg hdr] at h
      simp only at h
      by_cases hz : (l.wired == 0) = true
      · rw [if_pos hz] at h; cases h
      · rw [if_neg hz] at h
        cases hoff : l.offerTo l.wired with
        | some c => simp only [hoff, Option.some.injEq] at h; subst h; exact d_ack p l hi hd _ now
        | none =>
          simp only [hoff] at h
          split at h
          · cases h; exact d_field p _ l hd rfl rfl rfl
          · cases h
  · rw [if_neg hdc] at h
    cases hsp : l.sinkPend with
    | some d =>
      simp only [hsp] at h
      have hdn : d = [] := hd.pend d hsp
      split at h
      · cases h
        exact ⟨hd.tmo, hd.dry, fun d' h' => (by cases h'), hd.deliv⟩
      · split at h
        · cases h
          refine ⟨hd.tmo, hd.dry, fun d' h' => (by cases h'), ?_⟩
          simp only
          rw [hd.deliv, hdn]; rfl
        · cases h
    | none =>
      simp only [hsp] at h
      by_cases hz : (l.wired == 0) = true
      · rw [if_pos hz] at h; cases h
      · rw [if_neg hz] at h
        cases hoff : l.offerTo l.wired with
        | some c =>
          simp only [hoff, Option.some.injEq] at h
          subst h
          have hcn : c.data = [] := offerTo_nil p l hi hd l.wired (by omega) c hoff
          have ha := d_ack p l hi hd l.wired now
          refine ⟨ha.tmo, ha.dry, ?_, ha.deliv⟩
          intro d' h'
          simp only [hcn, List.isEmpty_nil, if_true] at h'
          cases h'
        | none =>
          simp only [hoff] at h
          split at h
          · cases h
            exact ⟨hd.tmo, hd.dry, fun d' h' => (by cases h'), hd.deliv⟩
          · cases h

theorem d_bufferMove (p : Nat) (l : Link) (i : Nat) (now : Int) (l' : Link) (hi : EInv l) (hd : DInv p l)
    (h : l.bufferMove i now = some l') : DInv p l' := by
  unfold Link.bufferMove at h
  cases hs : l.stages[i]? with
  | none => simp [hs] at h
  | some s =>
    simp only [hs] at h
    split at h
    · cases hoff : l.offerTo i with
      | none => simp [hoff] at h
      | some c =>
        simp only [hoff, Option.some.injEq] at h
        subst h
        have h1 := d_ack p l hi hd i now
        have hg : ∀ s', (l.ackUpstream i now).stages[i]? = some s' → DryAt p i { s' with inq := s'.inq ++ [c] } := by
          intro s' hs'
          refine ⟨(h1.dry i s' hs').1, ?_⟩
          intro hpk c' hc'
          rcases List.mem_append.mp hc' with hm | hm
          · exact (h1.dry i s' hs').2 hpk c' hm
          · simp only [List.mem_singleton] at hm
            subst hm
            exact offerTo_nil p l hi hd i hpk c' hoff
        have := d_stages p _ h1 i (fun s => { s with inq := s.inq ++ [c] }) hg (fun s => rfl) (l.ackUpstream i now).race
        exact d_field p _ _ this rfl rfl rfl
    · cases h

/-- The receiving part of a stub's move (shared by `stageMove` and `recvAlt`). -/
theorem d_recv (p : Nat) (l : Link) (hi : EInv l) (hd : DInv p l) (i : Nat) (now : Int) (oc : Option Chunk) (src : InSrc)
    (hio : l.inputOf i = some (oc, src)) (l1 : Link) (hl1 : l1 = l.consume i src oc.isSome now) :
    DInv p { l1 with stages := modifyAt l1.stages i (fun s => s.fire (.input oc now drawsConst)) } := by
  subst hl1
  have h1 := d_consume p l hi hd i src oc.isSome now
  refine d_stages p _ h1 i _ (fun s' hs' => ?_) (fun s => eff_fire s _) _
  apply dry_fire p i s' (h1.dry i s' hs')
  rcases Nat.lt_trichotomy i p with hlt | heq | hgt
  · exact Or.inr (Or.inl hlt)
  · subst heq
    obtain ⟨s0, hs0, hT⟩ := h1.tmo
    rw [hs0] at hs'; cases hs'
    exact Or.inr (Or.inr ⟨rfl, hT⟩)
  · left
    cases oc with
    | none => rfl
    | some c => exact inputOf_nil p l hi hd i hgt c src hio

theorem d_stageMove (p : Nat) (l : Link) (i : Nat) (now : Int) (busy : Bool) (l' : Link) (hi : EInv l) (hd : DInv p l)
    (h : l.stageMove i now busy = some l') : DInv p l' := by
  cases hs : l.stages[i]? with
  | none => simp [Link.stageMove, hs] at h
  | some s =>
    have hsi := hi.stages s (List.mem_of_getElem? hs)
    have hnc : ∀ w, s.pc ≠ .crash w := by
      intro w hp; have := hsi.plain; rw [hp] at this; simp [Plain] at this
    rw [stageMove_body l i now busy s hs hnc] at h
    unfold stageBody at h
    have hip : (s.intr == IntrSt.pending) = false := by rw [hsi.intr]; decide
    have hiw : (s.intr == IntrSt.waitRet) = false := by rw [hsi.intr]; decide
    by_cases h1 : duePart s now = true
    · rw [if_pos h1] at h
      cases h
      exact d_stages p l hd i _ (fun s' hs' => dry_fire p i s' (hd.dry i s' hs') _ (Or.inl rfl)) (fun s => eff_fire s _) _
    · rw [if_neg h1] at h
      simp only [hip, hiw, Bool.false_and, Bool.false_eq_true, if_false] at h
      by_cases h5 : (s.pc.wantsInput && !(l.detached && i + 1 == l.stages.length)) = true
      · rw [if_pos h5] at h
        cases hio : l.inputOf i with
        | none => simp [hio] at h
        | some r =>
          obtain ⟨c, src⟩ := r
          simp only [hio, Option.some.injEq] at h
          subst h
          exact d_recv p l hi hd i now c src hio _ rfl
      · rw [if_neg h5] at h
        split at h
        · split at h
          · cases h
            exact d_consume p l hi hd i _ true now
          · cases h
        · cases h

theorem d_recvAlt (p : Nat) (l : Link) (i : Nat) (now : Int) (l' : Link) (hi : EInv l) (hd : DInv p l)
    (h : l.recvAlt i now = some l') : DInv p l' := by
  unfold Link.recvAlt at h
  cases hs : l.stages[i]? with
  | none => simp [hs] at h
  | some s =>
    simp only [hs] at h
    unfold recvPart at h
    by_cases h5 : (s.pc.wantsInput && !(l.detached && i + 1 == l.stages.length)) = true
    · rw [if_pos h5] at h
      cases hio : l.inputOf i with
      | none => simp [hio] at h
      | some r =>
        obtain ⟨c, src⟩ := r
        simp only [hio, Option.some.injEq] at h
        subst h
        exact d_recv p l hi hd i now c src hio _ rfl
    · rw [if_neg h5] at h; cases h

/-- **Every move keeps the black hole.** -/
theorem d_anymove (p : Nat) (l : Link) (chain : List TCfg) (now : Int) (busy : Bool) (l' : Link) (hi : EInv l)
    (hd : DInv p l) (h : l.AnyMove chain now busy l') : DInv p l' := by
  rcases h.2 with h' | h' | ⟨i, h'⟩ | ⟨i, h'⟩ | h' | ⟨i, h'⟩ | ⟨i, h'⟩ | h'
  · rw [ctlMove_none' l chain now hi.noctl] at h'; cases h'
  · exact d_sinkMove p l now l' hi hd h'
  · exact d_stageMove p l i now busy l' hi hd h'
  · exact d_bufferMove p l i now l' hi hd h'
  · exact d_sourceMove p l now l' hd h'
  · exact d_recvAlt p l i now l' hi hd h'
  · rw [intrAlt_none l i now (fun s hs => (hi.stages s (List.mem_of_getElem? hs)).intr)] at h'; cases h'
  · rw [ctlTakeAlt_none l now hi.noctl] at h'; cases h'

theorem DInv_env (p : Nat) (l : Link) (hd : DInv p l) (q : List Bytes) (eof ready fail cut : Bool) (hi' : Nat) :
    DInv p { l with srcQ := q, srcEOF := eof, sinkReady := ready, sinkFail := fail, srcCut := cut, cutHi := hi' } :=
  ⟨hd.tmo, hd.dry, hd.pend, hd.deliv⟩

theorem start_held (cfg : Cfg) (active : Bool) (now : Int) : (Toxi.Toxic.start cfg active now).held = [] := by
  unfold Toxi.Toxic.start
  cases active
  · rfl
  · cases cfg <;> (try rfl)
    simp only [Bool.not_true, Bool.false_eq_true, if_false]
    split <;> rfl

theorem DInv_new (chain : List TCfg) (now : Int) (p : Nat) (t : TCfg) (ht : chain[p]? = some t)
    (hT : BlackCfg (effective t.cfg t.active)) : DInv p (Link.new chain now) := by
  refine ⟨?_, ?_, ?_, rfl⟩
  · refine ⟨(Stage.fresh t).start t now, ?_, ?_⟩
    · simp [Link.new, ht]
    · rw [Stage.fresh_start]; simpa [eff, Stage.fresh] using hT
  · intro k s hk
    simp only [Link.new, List.getElem?_map] at hk
    cases hck : chain[k]? with
    | none => rw [hck] at hk; cases hk
    | some t' =>
      rw [hck] at hk
      simp only [Option.map_some, Option.some.injEq] at hk
      subst hk
      rw [Stage.fresh_start]
      exact ⟨fun _ => start_held _ _ _, fun _ c hc => by simp [Stage.fresh] at hc⟩
  · intro d hd; simp [Link.new] at hd

/-- **Black hole, whole connection.**  A timeout or reset_peer toxic that applies to the connection
at any position of a chain of any other toxics: along every execution of the link without toxic
changes nothing is delivered. -/
theorem link_blackhole (chain : List TCfg) (now0 : Int) (p : Nat) (t : TCfg) (ht : chain[p]? = some t)
    (hT : BlackCfg (effective t.cfg t.active)) {l : Link} (h : ExecE chain (Link.new chain now0) l) :
    l.delivered = [] := by
  have key : EInv l ∧ DInv p l := by
    induction h with
    | refl => exact ⟨EInv_new chain now0, DInv_new chain now0 p t ht hT⟩
    | move now busy l' _ hm ih => exact ⟨C15_anymove_shape _ chain now busy l' ih.1 hm, d_anymove p _ chain now busy l' ih.1 ih.2 hm⟩
    | env q eof ready fail cut hi' _ ih => exact ⟨EInv_env _ ih.1 q eof ready fail cut hi', DInv_env p _ ih.2 q eof ready fail cut hi'⟩
  exact key.2.deliv

/-- **C10 (black hole, whole connection).**  A timeout toxic that applies to the connection
(`effective … = timeout T`: present when the connection was made, toxicity draw below its
toxicity) at any position of a chain of any other toxics: along every execution of the link
without toxic changes — every schedule of its goroutines, every `select` choice, the sender
sending anything and ending or being cut, the receiver reading or not, the proxy closing the
connection — nothing is delivered: `delivered = []` in every reachable state. -/
theorem C10_link_blackhole (chain : List TCfg) (now0 : Int) (p : Nat) (t : TCfg) (T : Int) (ht : chain[p]? = some t)
    (hT : effective t.cfg t.active = .timeout T) {l : Link} (h : ExecE chain (Link.new chain now0) l) :
    l.delivered = [] :=
  link_blackhole chain now0 p t ht (by rw [hT]; trivial) h

/-- **C13 (reset_peer delivers no data, whole connection).**  The same for a reset_peer toxic that
is present when the connection is established. -/
theorem C13_link_reset_no_data (chain : List TCfg) (now0 : Int) (p : Nat) (t : TCfg) (T : Int) (ht : chain[p]? = some t)
    (hT : effective t.cfg t.active = .resetPeer T) {l : Link} (h : ExecE chain (Link.new chain now0) l) :
    l.delivered = [] :=
  link_blackhole chain now0 p t ht (by rw [hT]; trivial) h

namespace ExB
/-- noop → latency(5 ms) → timeout(0: never closes) → bandwidth: five bytes in two chunks are sent,
time passes, the sender ends its stream: everything was read from the sender, nothing arrives. -/
def ch : List TCfg := [TCfg.noop, ⟨"lat", .latency 5 0, true, 1024, false⟩, ⟨"tmo", .timeout 0, true, 0, false⟩,
  ⟨"bw", .bandwidth 1, true, 0, false⟩]
def b0 : Link := { Link.new ch 0 with srcQ := [[1, 2], [3, 4, 5]], srcEOF := true, sinkReady := true }
def b1 : Link := runK ch (50 * ms) 64 (runK ch 0 64 b0)

theorem b1_exec : ExecE ch (Link.new ch 0) b1 :=
  ExecE.runK (50 * ms) 64 _ (ExecE.runK 0 64 _ (ExecE.env [[1, 2], [3, 4, 5]] true true false false 0 ExecE.refl))

example : b1.sent = [1, 2, 3, 4, 5] ∧ b1.srcDone = true ∧ b1.delivered = [] :=
  ⟨by decide, by decide, C10_link_blackhole ch 0 2 _ 0 rfl rfl b1_exec⟩
end ExB

end Toxi.Link
