import Toxi.Generated.Facts
import Toxi.Ties
/-!
# C16 — the lock order of the implementation admits no deadlock

`Lemmas/Progress.lean` proves freedom from deadlock for the locks the block model contains.  The
implementation has more: the ToxicCollection mutex (taken by every toxic operation, by the accept
loop for every new connection and by every ending link), the connection list's mutex, and
`stop()` joining the accept loop while it holds the proxy's mutex.  This file covers those by the
classical argument, for any number of threads and lock instances:

* `ranked_no_deadlock` — if every thread that waits for a lock holds only locks of strictly smaller
  rank, then in every state some thread is not blocked (it runs, or the lock it waits for is free);
* `C16_lock_order_no_deadlock` — the same for the implementation's lock classes, from the facts
  regenerated from the source on every run: `Generated.lockOrder` lists every pair (held class,
  acquired class) that occurs in package toxiproxy (typed AST, calls followed transitively;
  `tools/factgen`), `Ties.tie_lock_order` checks that each pair climbs in
  ProxyCollection < Proxy < accept loop < ToxicCollection, ConnectionList.

Trusted: that `factgen`'s relation over-approximates the nesting that occurs at run time (it
follows static calls inside the package and goroutines joined by a WaitGroup; interface calls
into package `toxics` take no lock of this package), and that waiting for channels (the links'
hand-over, `started`) is not part of this argument: E3/E7's oracles check those on executions.
-/
namespace Toxi.LockOrder

structure Thread (L : Type) where
  held  : List L
  waits : Option L

variable {L : Type}

/-- The thread is waiting for a lock that some thread holds. -/
def Blocked (ts : List (Thread L)) (t : Thread L) : Prop :=
  ∃ l, t.waits = some l ∧ ∃ t' ∈ ts, l ∈ t'.held

/-- The thread asks for locks in rank order. -/
def Ordered (rank : L → Nat) (t : Thread L) : Prop :=
  ∀ l, t.waits = some l → ∀ h ∈ t.held, rank h < rank l

def want (rank : L → Nat) (t : Thread L) : Nat :=
  match t.waits with
  | some l => rank l
  | none => 0

theorem le_sum_of_mem {α} (f : α → Nat) : ∀ (xs : List α) (x : α), x ∈ xs → f x ≤ (xs.map f).sum
  | [], _, h => by cases h
  | y :: ys, x, h => by
    simp only [List.map_cons, List.sum_cons]
    rcases List.mem_cons.mp h with he | hm
    · subst he; omega
    · have := le_sum_of_mem f ys x hm; omega

/-- **No deadlock under a lock order.**  Any threads, any lock instances, any state: if every
waiting thread holds only locks ranked below the one it waits for, some thread is not blocked. -/
theorem ranked_no_deadlock (rank : L → Nat) (ts : List (Thread L)) (hne : ts ≠ [])
    (hord : ∀ t ∈ ts, Ordered rank t) : ∃ t ∈ ts, ¬ Blocked ts t := by
  apply Classical.byContradiction
  intro hall
  have hb : ∀ t ∈ ts, Blocked ts t := fun t ht => Classical.byContradiction fun h => hall ⟨t, ht, h⟩
  have climb : ∀ n : Nat, ∃ t ∈ ts, ∃ l, t.waits = some l ∧ n ≤ rank l := by
    intro n
    induction n with
    | zero =>
      cases ts with
      | nil => exact absurd rfl hne
      | cons t rest =>
        obtain ⟨l, hl, _⟩ := hb t (List.mem_cons_self ..)
        exact ⟨t, List.mem_cons_self .., l, hl, Nat.zero_le _⟩
    | succ n ih =>
      obtain ⟨t, ht, l, hl, hn⟩ := ih
      obtain ⟨l0, hl0, t', ht', hheld⟩ := hb t ht
      rw [hl] at hl0; cases hl0
      obtain ⟨l', hl', _⟩ := hb t' ht'
      have := hord t' ht' l' hl' l hheld
      exact ⟨t', ht', l', hl', by omega⟩
  obtain ⟨t, ht, l, hl, hn⟩ := climb ((ts.map (want rank)).sum + 1)
  have h1 := le_sum_of_mem (want rank) ts t ht
  have h2 : want rank t = rank l := by simp [want, hl]
  omega

/-- The same from a list of permitted (held class, acquired class) pairs that all climb. -/
theorem classes_no_deadlock {C : Type} (cls : L → C) (crank : C → Nat) (edges : List (C × C))
    (hinc : ∀ e ∈ edges, crank e.1 < crank e.2)
    (ts : List (Thread L)) (hne : ts ≠ [])
    (hsound : ∀ t ∈ ts, ∀ l, t.waits = some l → ∀ h ∈ t.held, (cls h, cls l) ∈ edges) :
    ∃ t ∈ ts, ¬ Blocked ts t :=
  ranked_no_deadlock (fun l => crank (cls l)) ts hne fun t ht l hl h hh => hinc _ (hsound t ht l hl h hh)

open Toxi.Generated Toxi.Ties in
/-- **C16 (the implementation's lock order).**  Threads of the running server — request handlers,
accept loops, link goroutines —, each lock an instance of one of the classes of
`Generated.lockOrder`: if the nesting that occurs is among the extracted pairs, no state is a
deadlock on these locks. -/
theorem C16_lock_order_no_deadlock (cls : L → String) (ts : List (Thread L)) (hne : ts ≠ [])
    (hsound : ∀ t ∈ ts, ∀ l, t.waits = some l → ∀ h ∈ t.held,
      (cls h, cls l) ∈ lockOrder.map (fun e => (e.1, e.2.1))) :
    ∃ t ∈ ts, ¬ Blocked ts t := by
  refine classes_no_deadlock cls lockRank _ ?_ ts hne hsound
  intro e he
  obtain ⟨x, hx, rfl⟩ := List.mem_map.mp he
  have := List.all_eq_true.mp tie_lock_order x hx
  exact (by simpa using this : _ ∧ _).2

/- The hypotheses are met by a real nesting: a `DELETE` holding the collection lock and the proxy's
mutex waits for the accept loop, which waits for the ToxicCollection mutex held by a toxic update
that waits for nothing: the update is the thread that is not blocked. -/

def exThreads : List (Thread String) :=
  [⟨["ProxyCollection", "Proxy"], some "acceptloop"⟩, ⟨["acceptloop"], some "ToxicCollection"⟩, ⟨["ToxicCollection"], none⟩]
example : ∃ t ∈ exThreads, ¬ Blocked exThreads t :=
  C16_lock_order_no_deadlock id exThreads (by simp [exThreads]) (by decide)

end Toxi.LockOrder
