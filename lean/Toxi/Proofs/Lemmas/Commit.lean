import Toxi.Proofs.C16
/-!
Linearizability of overlapping requests (C16), as a theorem for the requests whose handlers hold
their lock across the effect: create, delete, reads, reset (one block) and toxic
add / update / remove (look the proxy up; then operate under the collection lock).  In every
schedule of their blocks in which no toxic operation works on a proxy that was deleted or
replaced under it, each request takes effect in exactly one block — atomically, as the
sequential handler `Api.step` on the registry of that moment, with that handler's response — so
the whole run *is* the one-at-a-time execution of the requests in the order of those blocks (an
order that lies inside each request's invocation–response interval, hence is consistent with
real time).  `ProxyUpdate` is excluded: it is not atomic (recorded findings, `C16_*_witness`);
so is `POST /populate`, whose `AddOrReplace` stops the old proxy and starts the new one in two
steps that a `ProxyUpdate` can separate (`C16_replace_race_witness`).
-/
namespace Toxi.Conc
open Toxi.Api

/-- The request is neither a `ProxyUpdate` nor a populate. -/
def Calm (r : Request) : Prop := (∀ n, kindOf r ≠ .update n) ∧ kindOf r ≠ .replace

/-- The blocks of a schedule that are the effect of their request, in order, with the response. -/
def commitLog (v : UpdVariant) (e : Env) (reqs : List Request) : CState → List Phase → List Nat → List (Nat × Response)
  | _, _, [] => []
  | c, phs, k :: ks =>
    match reqs[k]?, phs[k]? with
    | some r, some ph =>
      let x := advance v e c r ph
      (if ph.isDone then [] else
        match x.2 with
        | .done resp => [(k, resp)]
        | _ => []) ++ commitLog v e reqs x.1 (phs.set k x.2) ks
    | _, _ => commitLog v e reqs c phs ks

/-- No toxic operation of the schedule meets a proxy object that is no longer registered. -/
def RunOK (v : UpdVariant) (e : Env) (reqs : List Request) : CState → List Phase → List Nat → Prop
  | _, _, [] => True
  | c, phs, k :: ks =>
    match reqs[k]?, phs[k]? with
    | some r, some ph =>
      (∀ obj ep n, ph = .found obj ep → kindOf r = .toxic n → (c.live n ep).isSome = true) ∧
      RunOK v e reqs (advance v e c r ph).1 (phs.set k (advance v e c r ph).2) ks
    | _, _ => RunOK v e reqs c phs ks

/-- `Replays s log s'`: executing the logged requests one at a time with the sequential handler,
starting from registry `s`, gives exactly the logged responses and ends in registry `s'`. -/
def Replays (v : UpdVariant) (e : Env) (reqs : List Request) : State → List (Nat × Response) → State → Prop
  | s, [], s' => s' = s
  | s, (k, resp) :: rest, s' =>
    ∃ r, reqs[k]? = some r ∧ (step v e s r).2 = resp ∧ Replays v e reqs (step v e s r).1 rest s'

/-- Phases a calm request can be in. -/
def PhaseOK (r : Request) : Phase → Prop
  | .start => True
  | .found _ _ => ∃ n, kindOf r = .toxic n
  | .done _ => True
  | _ => False

/-- One block of a calm request on a calm state: either it is the request's effect — exactly the
sequential handler on the current registry — or it changes nothing of the registry. -/
theorem advance_calm (v : UpdVariant) (e : Env) (c : CState) (r : Request) (ph : Phase)
    (hz : c.zombies = []) (hl : c.locked = []) (hcalm : Calm r) (hph : PhaseOK r ph)
    (hlive : ∀ obj ep n, ph = .found obj ep → kindOf r = .toxic n → (c.live n ep).isSome = true) :
    (advance v e c r ph).1.zombies = [] ∧ (advance v e c r ph).1.locked = [] ∧ PhaseOK r (advance v e c r ph).2 ∧
    (((advance v e c r ph).1.s = c.s ∧ (ph.isDone = true ∨ (advance v e c r ph).2.isDone = false)) ∨
     (ph.isDone = false ∧ (advance v e c r ph).1.s = (step v e c.s r).1 ∧
       (advance v e c r ph).2 = .done (step v e c.s r).2)) := by
  have he : ({ e with busy := e.busy ++ c.zombies } : Env) = e := by rw [hz]; exact env_eta e
  cases ph with
  | done resp => simp [advance, hz, hl, PhaseOK, Phase.isDone]
  | stopped a b d => simp [PhaseOK] at hph
  | restart a b d => simp [PhaseOK] at hph
  | ready a b d => simp [PhaseOK] at hph
  | replacing x => simp [PhaseOK] at hph
  | start =>
    cases hk : kindOf r with
    | single =>
      rw [C16_single_block_atomic v e c r hk hl]
      simp only [he]
      refine ⟨hz, hl, trivial, Or.inr ⟨rfl, ?_, ?_⟩⟩ <;> first | rfl | trivial
    | update n => exact absurd hk (hcalm.1 n)
    | replace => exact absurd hk hcalm.2
    | toxic n =>
      simp only [advance, hk, hl, List.contains_nil, Bool.false_eq_true, if_false]
      cases hf : c.s.find n with
      | none =>
        simp only []
        refine ⟨hz, hl, trivial, Or.inr ⟨rfl, ?_, ?_⟩⟩
        · rw [step_toxic_absent v e c.s r n hk hf]
        · rw [step_toxic_absent v e c.s r n hk hf]
      | some p =>
        simp only []
        refine ⟨hz, hl, ⟨n, hk⟩, Or.inl ⟨?_, Or.inr ?_⟩⟩ <;> first | rfl | trivial
  | found obj ep =>
    obtain ⟨n, hk⟩ := hph
    have hsome := hlive obj ep n rfl hk
    cases hlv : c.live n ep with
    | none => rw [hlv] at hsome; cases hsome
    | some cur =>
      rw [C16_toxic_effect_atomic v e c r n obj cur ep hk hlv]
      simp only [he]
      refine ⟨hz, hl, trivial, Or.inr ⟨rfl, ?_, ?_⟩⟩ <;> first | rfl | trivial

theorem getElem?_set_self' {α : Type} (l : List α) (k : Nat) (a : α) (x : α) (h : l[k]? = some x) : (l.set k a)[k]? = some a := by
  have : k < l.length := by
    rcases Nat.lt_or_ge k l.length with h' | h'
    · exact h'
    · rw [List.getElem?_eq_none h'] at h; cases h
  simp [this]

/-- **C16 (linearizability, for the handlers that hold their lock across the effect).**  For every
set of overlapping create / delete / read / reset / toxic add, update, remove
requests and every schedule of their blocks in which no toxic operation meets a proxy deleted or
replaced under it: the registry at the end is the registry the sequential handler produces when
the requests are executed one at a time in the order of their effect blocks, and every response
given is the response the sequential handler gives at that point. -/
theorem C16_commit_order (v : UpdVariant) (e : Env) (reqs : List Request) (hcalm : ∀ r ∈ reqs, Calm r) :
    ∀ (sched : List Nat) (c : CState) (phs : List Phase), c.zombies = [] → c.locked = [] →
      (∀ (k : Nat) (r : Request) (ph : Phase), reqs[k]? = some r → phs[k]? = some ph → PhaseOK r ph) →
      RunOK v e reqs c phs sched →
      Replays v e reqs c.s (commitLog v e reqs c phs sched) (runSched v e reqs c phs sched).1.s := by
  intro sched
  induction sched with
  | nil => intro c phs _ _ _ _; rfl
  | cons k ks ih =>
    intro c phs hz hl hph hok
    simp only [commitLog, runSched, RunOK] at hok ⊢
    cases hr : reqs[k]? with
    | none => simp only [hr] at hok ⊢; exact ih c phs hz hl hph hok
    | some r =>
      cases hp : phs[k]? with
      | none => simp only [hr, hp] at hok ⊢; exact ih c phs hz hl hph hok
      | some ph =>
        simp only [hr, hp] at hok ⊢
        obtain ⟨hlive, hok'⟩ := hok
        obtain ⟨hz', hl', hph', heff⟩ := advance_calm v e c r ph hz hl (hcalm r (List.mem_of_getElem? hr)) (hph k r ph hr hp) hlive
        have hphs' : ∀ (k' : Nat) (r' : Request) (ph' : Phase), reqs[k']? = some r' →
            (phs.set k (advance v e c r ph).2)[k']? = some ph' → PhaseOK r' ph' := by
          intro k' r' ph' hr' hp'
          by_cases hk : k' = k
          · subst hk
            rw [getElem?_set_self' phs k' _ ph hp] at hp'
            cases hp'
            rw [hr] at hr'; cases hr'
            exact hph'
          · rw [List.getElem?_set_ne (fun h => hk h.symm)] at hp'
            exact hph k' r' ph' hr' hp'
        have hrec := ih (advance v e c r ph).1 (phs.set k (advance v e c r ph).2) hz' hl' hphs' hok'
        rcases heff with ⟨hs, hd⟩ | ⟨hnd, hs, hdone⟩
        · -- a block without effect on the registry: nothing is logged
          have hnil : (if ph.isDone = true then ([] : List (Nat × Response)) else
              match (advance v e c r ph).2 with
              | .done resp => [(k, resp)]
              | _ => []) = [] := by
            rcases hd with hd | hd
            · rw [if_pos hd]
            · by_cases hpd : ph.isDone = true
              · rw [if_pos hpd]
              · rw [if_neg hpd]
                cases hx : (advance v e c r ph).2 with
                | done resp => rw [hx] at hd; simp [Phase.isDone] at hd
                | _ => rfl
          rw [hnil, List.nil_append, ← hs]
          exact hrec
        · -- the request's effect: one step of the sequential handler
          have hlog : (if ph.isDone = true then ([] : List (Nat × Response)) else
              match (advance v e c r ph).2 with
              | .done resp => [(k, resp)]
              | _ => []) = [(k, (step v e c.s r).2)] := by
            rw [if_neg (by simp [hnd]), hdone]
          rw [hlog, List.singleton_append]
          refine ⟨r, hr, rfl, ?_⟩
          rw [← hs]
          exact hrec


/-- … in particular from the moment the requests are issued. -/
theorem C16_linearizable (v : UpdVariant) (e : Env) (reqs : List Request) (hcalm : ∀ r ∈ reqs, Calm r)
    (s0 : State) (sched : List Nat)
    (hok : RunOK v e reqs { s := s0 } (reqs.map fun _ => Phase.start) sched) :
    Replays v e reqs s0 (commitLog v e reqs { s := s0 } (reqs.map fun _ => Phase.start) sched)
      (runSched v e reqs { s := s0 } (reqs.map fun _ => Phase.start) sched).1.s := by
  refine C16_commit_order v e reqs hcalm sched { s := s0 } _ rfl rfl ?_ hok
  intro k r ph _ hp
  simp only [List.getElem?_map] at hp
  cases hrk : reqs[k]? with
  | none => rw [hrk] at hp; cases hp
  | some r' => rw [hrk] at hp; cases hp; trivial

/-- Non-vacuity: two deletes of `p1` and a toxic add on it, blocks interleaved (the toxic
operation looks the proxy up before the deletes and would then meet a deleted proxy — so that
schedule is *not* covered; the one below, where it operates before the first delete, is): the
run is the sequential execution delete-toxic-order of the effect blocks, one delete answers 204,
the other 404. -/
def toxReq : Request := ⟨.post, ["proxies", "p1", "toxics"], false,
  .val (.obj [("name", .str "t1"), ("type", .str "noop")])⟩

example : Calm deleteReq ∧ Calm toxReq := by
  refine ⟨⟨?_, ?_⟩, ⟨?_, ?_⟩⟩ <;> intros <;> simp_all [kindOf, deleteReq, toxReq, routeMethods]

example : (runSched .fixed envW [toxReq, deleteReq, deleteReq] { s := [p1off] } [.start, .start, .start] [0, 0, 1, 2]).2.map Phase.status
    = [200, 204, 404] ∧
    (commitLog .fixed envW [toxReq, deleteReq, deleteReq] { s := [p1off] } [.start, .start, .start] [0, 0, 1, 2]).map (·.1) = [0, 1, 2] := by
  decide

end Toxi.Conc
