import Toxi.Proofs.C16
import Toxi.Proofs.Lemmas.ToxicComm
/-!
Linearizability of overlapping requests (C16), as a theorem for the requests whose handlers hold
their lock across the effect: create, delete, reads, reset (one block) and toxic
add / update / remove (look the proxy up; then operate under the collection lock).  In every
schedule of their blocks in which no toxic operation works on a proxy that was deleted or
replaced under it, each request takes effect in exactly one block — atomically, as the
sequential handler `Api.step` on the registry of that moment, with that handler's response — so
the whole run *is* the one-at-a-time execution of the requests in the order of those blocks (an
order that lies inside each request's invocation–response interval, hence is consistent with
real time).  `ProxyUpdate` is excluded: it is not atomic (recorded findings, `C16_*_witness`);
so is `POST /populate`, whose `AddOrReplace` stops the old proxy and starts the new one in two
steps that a `ProxyUpdate` can separate (`C16_replace_race_witness`).
-/
namespace Toxi.Conc
open Toxi.Api

/-- The request is not a `ProxyUpdate`. -/
def Calm (r : Request) : Prop := ∀ n, kindOf r ≠ .update n

/-- The blocks of a schedule that are the effect of their request, in order, with the response. -/
def commitLog (v : UpdVariant) (e : Env) (reqs : List Request) : CState → List Phase → List Nat → List (Nat × Response)
  | _, _, [] => []
  | c, phs, k :: ks =>
    match reqs[k]?, phs[k]? with
    | some r, some ph =>
      let x := advance v e c r ph
      (if ph.isDone then [] else
        match x.2 with
        | .done resp => [(k, resp)]
        | _ => []) ++ commitLog v e reqs x.1 (phs.set k x.2) ks
    | _, _ => commitLog v e reqs c phs ks

/-- No toxic operation of the schedule meets a proxy object that is no longer registered. -/
def RunOK (v : UpdVariant) (e : Env) (reqs : List Request) : CState → List Phase → List Nat → Prop
  | _, _, [] => True
  | c, phs, k :: ks =>
    match reqs[k]?, phs[k]? with
    | some r, some ph =>
      (∀ obj ep n, ph = .found obj ep → kindOf r = .toxic n → (c.live n ep).isSome = true) ∧
      RunOK v e reqs (advance v e c r ph).1 (phs.set k (advance v e c r ph).2) ks
    | _, _ => RunOK v e reqs c phs ks

/-- `Replays s log s'`: executing the logged requests one at a time with the sequential handler,
starting from registry `s`, gives exactly the logged responses and ends in registry `s'`. -/
def Replays (v : UpdVariant) (e : Env) (reqs : List Request) : State → List (Nat × Response) → State → Prop
  | s, [], s' => s' = s
  | s, (k, resp) :: rest, s' =>
    ∃ r, reqs[k]? = some r ∧ (step v e s r).2 = resp ∧ Replays v e reqs (step v e s r).1 rest s'

/-- Phases a calm request can be in. -/
def PhaseOK (r : Request) : Phase → Prop
  | .start => True
  | .found _ _ => ∃ n, kindOf r = .toxic n
  | .replacing _ => kindOf r = .replace
  | .done _ => True
  | _ => False

/-- No request is between the two steps of a replacement. -/
def NoRepl (phs : List Phase) : Prop := ∀ (k : Nat) (y : PopEntry), phs[k]? ≠ some (Phase.replacing y)

/-- `Abs … sA`: `sA` is the registry as the sequential handlers see it.  It is the registry of
the block model, except while a populate is between the two steps of a replacement: then the
block model's registry is `sA` with the proxy being replaced already stopped. -/
def Abs (e : Env) (reqs : List Request) (c : CState) (phs : List Phase) (sA : State) : Prop :=
  (sA = c.s ∧ c.locked = [] ∧ NoRepl phs) ∨
  (∃ (k : Nat) (x : PopEntry) (r : Request), phs[k]? = some (Phase.replacing x) ∧ reqs[k]? = some r ∧ stopFirst e sA r = some (x, c.s) ∧
     c.locked = [collLock] ∧ ∀ (k' : Nat) (y : PopEntry), phs[k']? = some (Phase.replacing y) → k' = k)

theorem getElem?_set_self' {α : Type} (l : List α) (k : Nat) (a : α) (x : α) (h : l[k]? = some x) : (l.set k a)[k]? = some a := by
  have : k < l.length := by
    rcases Nat.lt_or_ge k l.length with h' | h'
    · exact h'
    · rw [List.getElem?_eq_none h'] at h; cases h
  simp [this]

theorem norepl_set {phs : List Phase} (k : Nat) (ph' : Phase) (h : NoRepl phs) (hp : ∀ y, ph' ≠ .replacing y) :
    NoRepl (phs.set k ph') := by
  unfold NoRepl at h ⊢
  intro k' y hk'
  by_cases hkk : k' = k
  · subst hkk
    rw [List.getElem?_set] at hk'
    split at hk'
    · split at hk'
      · simp only [Option.some.injEq] at hk'; exact hp y hk'
      · cases hk'
    · exact absurd rfl ‹¬ _›
  · rw [List.getElem?_set_ne (fun h' => hkk h'.symm)] at hk'
    exact h k' y hk'

/-- A block of another request, which is not and does not become a replacement step, leaves the
"being replaced" bookkeeping alone. -/
theorem abs_other {e : Env} {reqs : List Request} {c c' : CState} {phs : List Phase} {sA sA' : State}
    (k : Nat) (ph ph' : Phase) (hpk : phs[k]? = some ph) (hph : ∀ y, ph ≠ .replacing y) (hph' : ∀ y, ph' ≠ .replacing y)
    (hl : c'.locked = c.locked)
    (hleft : sA = c.s → sA' = c'.s)
    (hright : ∀ x r, stopFirst e sA r = some (x, c.s) → stopFirst e sA' r = some (x, c'.s))
    (h : Abs e reqs c phs sA) : Abs e reqs c' (phs.set k ph') sA' := by
  rcases h with ⟨hs, hlk, hn⟩ | ⟨k0, x, r0, hp0, hr0, hsf, hlk, huniq⟩
  · exact Or.inl ⟨hleft hs, hl.trans hlk, norepl_set k ph' hn hph'⟩
  · have hne : k0 ≠ k := by
      intro hkk; subst hkk; rw [hp0] at hpk; cases hpk; exact hph x rfl
    refine Or.inr ⟨k0, x, r0, ?_, hr0, hright x r0 hsf, hl.trans hlk, ?_⟩
    · rw [List.getElem?_set_ne (fun h' => hne h'.symm)]; exact hp0
    · intro k' y hk'
      by_cases hkk : k' = k
      · subst hkk
        rw [List.getElem?_set] at hk'
        split at hk'
        · split at hk'
          · simp only [Option.some.injEq] at hk'; exact absurd hk' (hph' y)
          · cases hk'
        · exact absurd rfl ‹¬ _›
      · rw [List.getElem?_set_ne (fun h' => hkk h'.symm)] at hk'
        exact huniq k' y hk'

/-- **One block of a calm request.**  Either it is the request's effect — exactly the sequential
handler on the registry the sequential handlers see (`sA`) — or that registry stays as it is. -/
theorem advance_abs (v : UpdVariant) (e : Env) (reqs : List Request) (c : CState) (phs : List Phase) (k : Nat)
    (r : Request) (ph : Phase) (sA : State)
    (hz : c.zombies = []) (hr : reqs[k]? = some r) (hp : phs[k]? = some ph) (hcalm : Calm r) (hph : PhaseOK r ph)
    (habs : Abs e reqs c phs sA)
    (hlive : ∀ obj ep n, ph = .found obj ep → kindOf r = .toxic n → (c.live n ep).isSome = true) :
    (advance v e c r ph).1.zombies = [] ∧ PhaseOK r (advance v e c r ph).2 ∧
    ∃ sA', Abs e reqs (advance v e c r ph).1 (phs.set k (advance v e c r ph).2) sA' ∧
      ((sA' = sA ∧ (ph.isDone = true ∨ (advance v e c r ph).2.isDone = false)) ∨
       (ph.isDone = false ∧ sA' = (step v e sA r).1 ∧ (advance v e c r ph).2 = .done (step v e sA r).2)) := by
  have he : ({ e with busy := e.busy ++ c.zombies } : Env) = e := by rw [hz]; exact env_eta e
  have hklt : k < phs.length := by
    rcases Nat.lt_or_ge k phs.length with h' | h'
    · exact h'
    · rw [List.getElem?_eq_none h'] at hp; cases hp
  cases ph with
  | ready a b d => simp [PhaseOK] at hph
  | stopped a b d => simp [PhaseOK] at hph
  | restart a b d => simp [PhaseOK] at hph
  | done resp =>
    rw [advance_done]
    refine ⟨hz, trivial, sA, ?_, Or.inl ⟨rfl, Or.inl rfl⟩⟩
    exact abs_other (c := c) k _ _ hp (fun y h' => by cases h') (fun y h' => by cases h') rfl (fun h' => h') (fun x r h' => h') habs
  | found obj ep =>
    obtain ⟨n, hk⟩ := hph
    have hsome := hlive obj ep n rfl hk
    cases hlv : c.live n ep with
    | none => rw [hlv] at hsome; cases hsome
    | some cur =>
      rw [C16_toxic_effect_atomic v e c r n obj cur ep hk hlv]
      simp only [he]
      refine ⟨hz, trivial, (step v e sA r).1, ?_, Or.inr ⟨rfl, rfl, ?_⟩⟩
      · refine abs_other (c := c) k _ _ hp (fun y h' => by cases h') (fun y h' => by cases h') rfl ?_ ?_ habs
        · intro hs; rw [hs]
        · intro x r0 hsf
          exact (toxic_commutes v e sA r0 r x c.s n hk hsf).2
      · rcases habs with ⟨hs, _, _⟩ | ⟨k0, x, r0, _, _, hsf, _, _⟩
        · rw [hs]
        · rw [(toxic_commutes v e sA r0 r x c.s n hk hsf).1]
  | replacing x =>
    have hk : kindOf r = .replace := hph
    rcases habs with ⟨_, _, hn⟩ | ⟨k0, x0, r0, hp0, hr0, hsf, hlk, huniq⟩
    · exact absurd hp (hn k x)
    · have hkk : k = k0 := huniq k x hp
      subst hkk
      rw [hp] at hp0; cases hp0
      rw [hr] at hr0; cases hr0
      obtain ⟨h1, h2, h3, h4⟩ := replacing_block v e sA r x c hk hsf hz hlk
      refine ⟨h3, by rw [h2]; trivial, (step v e sA r).1, ?_, Or.inr ⟨rfl, rfl, h2⟩⟩
      refine Or.inl ⟨h1.symm, h4, ?_⟩
      intro k' y hk'
      by_cases hkk : k' = k
      · subst hkk
        rw [h2, List.getElem?_set] at hk'
        split at hk'
        · first | cases hk' | (split at hk' <;> cases hk')
        · exact absurd rfl ‹¬ _›
      · rw [List.getElem?_set_ne (fun h' => hkk h'.symm)] at hk'
        exact hkk (huniq k' y hk')
  | start =>
    rcases habs with ⟨hs, hlk, hn⟩ | ⟨k0, x0, r0, hp0, hr0, hsf, hlk, huniq⟩
    · -- nobody is replacing
      cases hk : kindOf r with
      | update n => exact absurd hk (hcalm n)
      | single =>
        rw [C16_single_block_atomic v e c r hk hlk]
        simp only [he]
        refine ⟨hz, trivial, (step v e sA r).1, ?_, Or.inr ⟨rfl, rfl, by rw [hs]⟩⟩
        exact Or.inl ⟨by rw [hs], hlk, norepl_set k _ hn (fun y h' => by cases h')⟩
      | toxic n =>
        simp only [advance, hk, hlk, List.contains_nil, Bool.false_eq_true, if_false]
        cases hf : c.s.find n with
        | none =>
          simp only []
          have hst := step_toxic_absent v e sA r n hk (by rw [hs]; exact hf)
          refine ⟨hz, trivial, sA, ?_, Or.inr ⟨rfl, by rw [hst], by rw [hst]⟩⟩
          exact Or.inl ⟨hs, hlk, norepl_set k _ hn (fun y h' => by cases h')⟩
        | some p =>
          simp only []
          refine ⟨hz, ⟨n, hk⟩, sA, ?_, Or.inl ⟨rfl, Or.inr rfl⟩⟩
          exact Or.inl ⟨hs, hlk, norepl_set k _ hn (fun y h' => by cases h')⟩
      | replace =>
        cases hsf : stopFirst e c.s r with
        | none =>
          have h0 : advance v e c r .start =
              ({ c with s := (step v e c.s r).1, epochs := reEpoch c.epochs c.s (step v e c.s r).1,
                        dead := c.dead ++ retired c.epochs c.s (step v e c.s r).1 }, .done (step v e c.s r).2) := by
            simp only [advance, hk, hlk, hz, env_eta, hsf]
            simp
          rw [h0]
          refine ⟨hz, trivial, (step v e sA r).1, ?_, Or.inr ⟨rfl, rfl, by rw [hs]⟩⟩
          exact Or.inl ⟨by rw [hs], hlk, norepl_set k _ hn (fun y h' => by cases h')⟩
        | some xs =>
          obtain ⟨x, s1⟩ := xs
          have h0 : advance v e c r .start = ({ c with s := s1, locked := [collLock] }, .replacing x) := by
            simp only [advance, hk, hlk, hz, env_eta, hsf]
            simp
          rw [h0]
          refine ⟨hz, hk, sA, ?_, Or.inl ⟨rfl, Or.inr rfl⟩⟩
          refine Or.inr ⟨k, x, r, ?_, hr, by rw [hs]; exact hsf, rfl, ?_⟩
          · simp [hklt]
          · intro k' y hk'
            by_cases hkk : k' = k
            · exact hkk
            · rw [List.getElem?_set_ne (fun h' => hkk h'.symm)] at hk'
              exact absurd hk' (hn k' y)
    · -- a replacement is in progress: the collection lock is held, every handler waits at its start
      have h0 : advance v e c r .start = (c, .start) := by
        simp [advance, hlk]
      rw [h0]
      refine ⟨hz, trivial, sA, ?_, Or.inl ⟨rfl, Or.inr rfl⟩⟩
      exact abs_other (c := c) k .start .start hp (fun y h' => by cases h') (fun y h' => by cases h') rfl (fun h' => h')
        (fun x r h' => h') (Or.inr ⟨k0, x0, r0, hp0, hr0, hsf, hlk, huniq⟩)

/-- **C16 (linearizability, for the handlers that hold their lock across the effect).**  For every
set of overlapping create / delete / populate / read / reset / toxic add, update, remove requests
and every schedule of their blocks in which no toxic operation meets a proxy deleted or replaced
under it: the registry the sequential handlers see at the end (`Abs`: the block model's registry,
unless a replacement is still between its two steps) is the registry the sequential handler
produces when the requests are executed one at a time in the order of their effect blocks, and
every response given is the response the sequential handler gives at that point. -/
theorem C16_commit_order (v : UpdVariant) (e : Env) (reqs : List Request) (hcalm : ∀ r ∈ reqs, Calm r) :
    ∀ (sched : List Nat) (c : CState) (phs : List Phase) (sA : State), c.zombies = [] →
      (∀ (k : Nat) (r : Request) (ph : Phase), reqs[k]? = some r → phs[k]? = some ph → PhaseOK r ph) →
      Abs e reqs c phs sA → RunOK v e reqs c phs sched →
      ∃ sF, Replays v e reqs sA (commitLog v e reqs c phs sched) sF ∧
        Abs e reqs (runSched v e reqs c phs sched).1 (runSched v e reqs c phs sched).2 sF := by
  intro sched
  induction sched with
  | nil => intro c phs sA _ _ habs _; exact ⟨sA, rfl, habs⟩
  | cons k ks ih =>
    intro c phs sA hz hph habs hok
    simp only [commitLog, runSched, RunOK] at hok ⊢
    cases hr : reqs[k]? with
    | none => simp only [hr] at hok ⊢; exact ih c phs sA hz hph habs hok
    | some r =>
      cases hp : phs[k]? with
      | none => simp only [hr, hp] at hok ⊢; exact ih c phs sA hz hph habs hok
      | some ph =>
        simp only [hr, hp] at hok ⊢
        obtain ⟨hlive, hok'⟩ := hok
        obtain ⟨hz', hph', sA', habs', heff⟩ :=
          advance_abs v e reqs c phs k r ph sA hz hr hp (hcalm r (List.mem_of_getElem? hr)) (hph k r ph hr hp) habs hlive
        have hphs' : ∀ (k' : Nat) (r' : Request) (ph' : Phase), reqs[k']? = some r' →
            (phs.set k (advance v e c r ph).2)[k']? = some ph' → PhaseOK r' ph' := by
          intro k' r' ph' hr' hp'
          by_cases hk : k' = k
          · subst hk
            rw [getElem?_set_self' phs k' _ ph hp] at hp'
            cases hp'
            rw [hr] at hr'; cases hr'
            exact hph'
          · rw [List.getElem?_set_ne (fun h => hk h.symm)] at hp'
            exact hph k' r' ph' hr' hp'
        obtain ⟨sF, hrep, hfin⟩ := ih (advance v e c r ph).1 (phs.set k (advance v e c r ph).2) sA' hz' hphs' habs' hok'
        refine ⟨sF, ?_, hfin⟩
        rcases heff with ⟨hs, hd⟩ | ⟨hnd, hs, hdone⟩
        · -- a block without effect on the registry: nothing is logged
          have hnil : (if ph.isDone = true then ([] : List (Nat × Response)) else
              match (advance v e c r ph).2 with
              | .done resp => [(k, resp)]
              | _ => []) = [] := by
            rcases hd with hd | hd
            · rw [if_pos hd]
            · by_cases hpd : ph.isDone = true
              · rw [if_pos hpd]
              · rw [if_neg hpd]
                cases hx : (advance v e c r ph).2 with
                | done resp => rw [hx] at hd; simp [Phase.isDone] at hd
                | _ => rfl
          rw [hnil, List.nil_append, ← hs]
          exact hrep
        · -- the request's effect: one step of the sequential handler
          have hlog : (if ph.isDone = true then ([] : List (Nat × Response)) else
              match (advance v e c r ph).2 with
              | .done resp => [(k, resp)]
              | _ => []) = [(k, (step v e sA r).2)] := by
            rw [if_neg (by simp [hnd]), hdone]
          rw [hlog, List.singleton_append]
          refine ⟨r, hr, rfl, ?_⟩
          rw [← hs]
          exact hrep

/-- … in particular from the moment the requests are issued, and when every request has
returned the registry of the block model itself is the sequential outcome. -/
theorem C16_linearizable (v : UpdVariant) (e : Env) (reqs : List Request) (hcalm : ∀ r ∈ reqs, Calm r)
    (s0 : State) (sched : List Nat)
    (hok : RunOK v e reqs { s := s0 } (reqs.map fun _ => Phase.start) sched)
    (hall : ∀ ph ∈ (runSched v e reqs { s := s0 } (reqs.map fun _ => Phase.start) sched).2, ph.isDone = true) :
    Replays v e reqs s0 (commitLog v e reqs { s := s0 } (reqs.map fun _ => Phase.start) sched)
      (runSched v e reqs { s := s0 } (reqs.map fun _ => Phase.start) sched).1.s := by
  have hph0 : ∀ (k : Nat) (r : Request) (ph : Phase), reqs[k]? = some r →
      (reqs.map fun _ => Phase.start)[k]? = some ph → PhaseOK r ph := by
    intro k r ph _ hp
    simp only [List.getElem?_map] at hp
    cases hrk : reqs[k]? with
    | none => rw [hrk] at hp; cases hp
    | some r' => rw [hrk] at hp; cases hp; trivial
  have habs0 : Abs e reqs { s := s0 } (reqs.map fun _ => Phase.start) s0 := by
    refine Or.inl ⟨rfl, rfl, ?_⟩
    intro k y hk
    simp only [List.getElem?_map] at hk
    cases hrk : reqs[k]? with
    | none => rw [hrk] at hk; cases hk
    | some r' => rw [hrk] at hk; cases hk
  obtain ⟨sF, hrep, hfin⟩ := C16_commit_order v e reqs hcalm sched { s := s0 } _ s0 rfl hph0 habs0 hok
  rcases hfin with ⟨hs, _, _⟩ | ⟨k, x, r, hp, _⟩
  · rw [← hs]; exact hrep
  · have := hall _ (List.mem_of_getElem? hp)
    simp [Phase.isDone] at this

/-- Non-vacuity: two deletes of `p1` and a toxic add on it, blocks interleaved (the toxic
operation looks the proxy up before the deletes and would then meet a deleted proxy — so that
schedule is *not* covered; the one below, where it operates before the first delete, is): the
run is the sequential execution delete-toxic-order of the effect blocks, one delete answers 204,
the other 404. -/
def toxReq : Request := ⟨.post, ["proxies", "p1", "toxics"], false,
  .val (.obj [("name", .str "t1"), ("type", .str "noop")])⟩

example : Calm deleteReq ∧ Calm toxReq := by
  constructor <;> intro n h <;> simp [kindOf, deleteReq, toxReq, routeMethods] at h

example : (runSched .fixed envW [toxReq, deleteReq, deleteReq] { s := [p1off] } [.start, .start, .start] [0, 0, 1, 2]).2.map Phase.status
    = [200, 204, 404] ∧
    (commitLog .fixed envW [toxReq, deleteReq, deleteReq] { s := [p1off] } [.start, .start, .start] [0, 0, 1, 2]).map (·.1) = [0, 1, 2] := by
  decide

/-- Non-vacuity for the replacement: a populate replacing the running `p1` and a toxic add on
`p1`; the toxic operation looks `p1` up, the populate stops `p1`, the toxic operation acts on the
stopped proxy, the populate starts and registers the replacement.  The run is the sequential
execution toxic-add, then populate (whose replacement discards the toxic), answers 200 and 201. -/
def replaceW : Request := ⟨.post, ["populate"], false,
  .val (.arr [.obj [("name", .str "p1"), ("listen", .str "a:1"), ("upstream", .str "u:2")]])⟩

example : Calm replaceW ∧ Calm toxReq := by
  constructor <;> intro n h <;> simp [kindOf, replaceW, toxReq, routeMethods] at h

example : (runSched .fixed envW [replaceW, toxReq] { s := [p1on] } [.start, .start] [1, 0, 1, 0]).2.map Phase.status
    = [201, 200] ∧
    (commitLog .fixed envW [replaceW, toxReq] { s := [p1on] } [.start, .start] [1, 0, 1, 0]).map (·.1) = [1, 0] ∧
    (runSched .fixed envW [replaceW, toxReq] { s := [p1on] } [.start, .start] [1, 0, 1, 0]).1.s
      = [⟨"p1", "a:1", "u:2", true, []⟩] := by
  decide

end Toxi.Conc
