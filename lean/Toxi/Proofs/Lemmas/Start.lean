import Toxi.Ties
/-!
# C15 / C03 — a refused start leaves nothing behind; an accepted start serves

`start(proxy)` (proxy.go) makes a fresh tomb, runs `go proxy.server()` and waits on
`proxy.started`.  `server` first calls `listen()`, which binds and sends the outcome on `started`
(both branches); only after a successful bind does it register `acceptTomb.Done`, start
`freeBlocker` and enter the accept loop.  Model: the three goroutines between those
synchronisation points.  For every schedule:

* `C15_refused_start_leaves_nothing` — when the caller has been told the bind failed, the server
  goroutine has returned, `freeBlocker` was never started, the proxy is not enabled: no goroutine
  and no listener is left, whatever happens to the proxy object afterwards;
* `C03_started_serves` — when the caller has been told the bind succeeded the proxy is enabled and the
  server goroutine is on its way into (or in) the accept loop, and `freeBlocker` runs once it is there:
  the state `Model/Proxy.lean` starts from;
* `start_progress` — until the caller has its answer and the server is in its final place, some step is
  enabled (the hand-shake cannot block).

Tie: `Ties.tie_server_start` (the order listen / return / Done / freeBlocker / loop in `server`, and the two
sends of `listen`), regenerated from the source on every run; E4's goroutine census after every
episode with refused starts is the behavioural check.
-/
namespace Toxi.Start

inductive Srv where
  | listening        -- in net.Listen
  | sendingOk        -- bound; blocked in `proxy.started <- nil`
  | sendingErr       -- not bound; blocked in `proxy.started <- err`
  | afterOk          -- `listen` returned nil; about to start freeBlocker
  | serving          -- in the accept loop
  | exited           -- returned
deriving DecidableEq, Repr

inductive Caller where
  | waiting | gotErr | gotOk
deriving DecidableEq, Repr

structure S where
  srv     : Srv := .listening
  fb      : Bool := false      -- freeBlocker has been started
  caller  : Caller := .waiting
  enabled : Bool := false
  bound   : Bool := false      -- a listener exists
deriving DecidableEq, Repr

inductive Act where
  | bindOk | bindFail | recv | spawn
deriving DecidableEq, Repr

def step (s : S) : Act → Option S
  | .bindOk => if s.srv = .listening then some { s with srv := .sendingOk, bound := true } else none
  | .bindFail => if s.srv = .listening then some { s with srv := .sendingErr } else none
  | .recv =>
    if s.caller = .waiting then
      (if s.srv = .sendingOk then some { s with srv := .afterOk, caller := .gotOk, enabled := true }
       else if s.srv = .sendingErr then some { s with srv := .exited, caller := .gotErr }
       else none)
    else none
  | .spawn => if s.srv = .afterOk then some { s with srv := .serving, fb := true } else none

def run (s : S) : List Act → S
  | [] => s
  | a :: as => match step s a with
    | some s' => run s' as
    | none => run s as

/-- What is true in every reachable state. -/
def Inv (s : S) : Prop :=
  (s.caller = .waiting → (s.srv = .listening ∨ s.srv = .sendingOk ∨ s.srv = .sendingErr) ∧ s.fb = false ∧ s.enabled = false) ∧
  (s.caller = .gotErr → s.srv = .exited ∧ s.fb = false ∧ s.enabled = false ∧ s.bound = false) ∧
  (s.caller = .gotOk → (s.srv = .afterOk ∨ s.srv = .serving) ∧ s.enabled = true ∧ s.bound = true ∧ (s.fb = true ↔ s.srv = .serving)) ∧
  (s.srv = .listening → s.bound = false) ∧ (s.srv = .sendingErr → s.bound = false) ∧ (s.srv = .sendingOk → s.bound = true)

theorem inv_init : Inv {} := by simp [Inv]

theorem inv_step (s s' : S) (a : Act) (hi : Inv s) (h : step s a = some s') : Inv s' := by
  obtain ⟨srv, fb, caller, enabled, bound⟩ := s
  cases a <;> cases srv <;> cases caller <;> simp [step] at h <;> subst h <;> simp_all [Inv]

theorem inv_run (as : List Act) : ∀ s, Inv s → Inv (run s as) := by
  induction as with
  | nil => intro s h; exact h
  | cons a as ih =>
    intro s h
    simp only [run]
    cases hs : step s a with
    | none => exact ih s h
    | some s' => exact ih s' (inv_step s s' a h hs)

/-- **C15 / C06 (a refused start leaves nothing).**  Every schedule: once `start` has returned the
bind error, the server goroutine is gone, `freeBlocker` never existed, nothing is bound and the
proxy is not enabled. -/
theorem C15_refused_start_leaves_nothing (as : List Act) (h : (run {} as).caller = .gotErr) :
    (run {} as).srv = .exited ∧ (run {} as).fb = false ∧ (run {} as).enabled = false ∧ (run {} as).bound = false :=
  (inv_run as {} inv_init).2.1 h

/-- **C03 (an accepted start serves).** -/
theorem C03_started_serves (as : List Act) (h : (run {} as).caller = .gotOk) :
    ((run {} as).srv = .afterOk ∨ (run {} as).srv = .serving) ∧ (run {} as).enabled = true ∧ (run {} as).bound = true ∧
    ((run {} as).fb = true ↔ (run {} as).srv = .serving) :=
  (inv_run as {} inv_init).2.2.1 h

/-- The hand-shake cannot block: unless the start is over (refused and returned, or serving), a step is enabled. -/
theorem start_progress (as : List Act) :
    ((run {} as).srv = .exited ∨ (run {} as).srv = .serving) ∨ ∃ a, (step (run {} as) a).isSome = true := by
  have hi := inv_run as {} inv_init
  generalize run {} as = s at hi
  obtain ⟨srv, fb, caller, enabled, bound⟩ := s
  cases srv
  · exact .inr ⟨.bindOk, by simp [step]⟩
  · cases caller
    · exact .inr ⟨.recv, by simp [step]⟩
    · simp [Inv] at hi
    · simp [Inv] at hi
  · cases caller
    · exact .inr ⟨.recv, by simp [step]⟩
    · simp [Inv] at hi
    · simp [Inv] at hi
  · exact .inr ⟨.spawn, by simp [step]⟩
  · exact .inl (.inr rfl)
  · exact .inl (.inl rfl)

/-- Both outcomes are reachable. -/
example : (run {} [.bindFail, .recv]).caller = .gotErr ∧ (run {} [.bindOk, .recv, .spawn]) = ⟨.serving, true, .gotOk, true, true⟩ := by decide

end Toxi.Start
