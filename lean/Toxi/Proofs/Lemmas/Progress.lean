import Toxi.Model.Conc
import Toxi.Proofs.C16
/-!
# C16 — the lock discipline of the handlers cannot deadlock, and every request finishes

Model: `Conc.advance` (`Model/Conc.lean`): the collection lock held by `AddOrReplace` between
`existing.Stop()` and `proxy.Start()`, each proxy's mutex held by `Proxy.Update` between its
stop and its start, and every block that waits for one of them.  For every set of requests,
every environment and every schedule (every state `runSched` reaches):

* `lockinv_sched` — the locks that are held are held by requests that are inside such a block
  (`held`), each at most once;
* `C16_no_deadlock` — while a request is unfinished, some unfinished request can run its next block
  (it is not waiting);
* `C16_all_finish` — from every reachable state a schedule exists that finishes every request
  (the rank of a phase falls with every block that runs).

What the model does not contain (the ToxicCollection mutex, the accept loop that `stop` waits
for, the links' channels) is outside these theorems: for those, engine E7's deadlock oracle
(every request answers within 10 s under connection churn and slow bodies) is the check.
-/
namespace Toxi.Conc
open Toxi.Api

/-- The lock a request holds between blocks, by phase. -/
def held : Phase → List String
  | .replacing _ => [collLock]
  | .stopped off _ _ => [off.name]
  | .restart mid _ _ => [mid.name]
  | _ => []

/-- How many blocks a request can still run. -/
def rank : Phase → Nat
  | .start => 5
  | .found .. => 4
  | .ready .. => 3
  | .stopped .. => 2
  | .restart .. => 1
  | .replacing _ => 1
  | .done _ => 0

/-- When a request in this phase does not move: it is finished, or it waits for a lock. -/
def waits (c : CState) : Phase → Prop
  | .done _ => True
  | .start => c.locked ≠ []
  | .ready .. => c.locked ≠ []
  | .replacing x => (c.locked.erase collLock).contains x.name = true
  | _ => False

theorem ne_nil_of_contains {l : List String} {a : String} (h : l.contains a = true) : l ≠ [] := by
  intro h0; rw [h0] at h; cases h

/-- What one block does to the lock table: nothing, acquire a lock that was free, or release
the lock the request held.  Whenever the phase changes, its rank falls. -/
inductive LockStep (c c' : CState) (ph ph' : Phase) : Prop where
  | same    : c'.locked = c.locked → held ph' = held ph → ((ph' = ph ∧ waits c ph) ∨ rank ph' < rank ph) → LockStep c c' ph ph'
  | acquire (l : String) : c.locked.contains l = false → c'.locked = l :: c.locked → held ph = [] → held ph' = [l] →
      rank ph' < rank ph → LockStep c c' ph ph'
  | release (l : String) : held ph = [l] → c'.locked = c.locked.erase l → held ph' = [] → rank ph' < rank ph → LockStep c c' ph ph'

theorem advance_lockstep (v : UpdVariant) (e : Env) (c : CState) (r : Request) (ph : Phase) :
    LockStep c (advance v e c r ph).1 ph (advance v e c r ph).2 := by
  cases ph with
  | done resp => exact .same rfl rfl (.inl ⟨rfl, trivial⟩)
  | stopped off ep inp => exact .same rfl rfl (.inr (by simp [advance, rank]))
  | restart mid ep inp =>
    unfold advance
    simp only
    split
    · split
      · exact .release mid.name rfl rfl rfl (by simp [rank])
      · exact .release mid.name rfl rfl rfl (by simp [rank])
    · exact .release mid.name rfl rfl rfl (by simp [rank])
  | found obj ep =>
    unfold advance
    simp only
    split
    · split
      · exact .same rfl rfl (.inr (by simp [rank]))
      · exact .same rfl rfl (.inr (by simp [rank]))
    · split
      · exact .same rfl rfl (.inr (by simp [rank]))
      · exact .same rfl rfl (.inr (by simp [rank]))
    · exact .same rfl rfl (.inr (by simp [rank]))
  | ready obj ep inp =>
    unfold advance
    simp only
    split
    · rename_i n _
      split
      · rename_i cur hlive
        have hn : cur.name = n := by
          unfold CState.live at hlive
          split at hlive
          · have := List.find?_some (by simpa [State.find] using hlive)
            simpa using this
          · cases hlive
        by_cases hl : c.locked.contains n = true
        · rw [if_pos hl]; exact .same rfl rfl (.inl ⟨rfl, ne_nil_of_contains hl⟩)
        · rw [if_neg hl]
          split
          · exact .acquire n (by simpa using hl) rfl rfl (by simp [held, hn]) (by simp [rank])
          · exact .same rfl rfl (.inr (by simp [rank]))
      · exact .same rfl rfl (.inr (by simp [rank]))
    · exact .same rfl rfl (.inr (by simp [rank]))
  | replacing x =>
    unfold advance
    simp only
    split
    · exact .same rfl rfl (.inl ⟨rfl, ‹_›⟩)
    · split
      · split
        · exact .release collLock rfl rfl rfl (by simp [rank])
        · exact .release collLock rfl rfl rfl (by simp [rank])
      · exact .release collLock rfl rfl rfl (by simp [rank])
  | start =>
    unfold advance
    simp only
    split
    · exact .same rfl rfl (.inl ⟨rfl, ne_nil_of_contains ‹_›⟩)
    · rename_i hcl
      split
      · split
        · split
          · exact .same rfl rfl (.inl ⟨rfl, ne_nil_of_contains ‹_›⟩)
          · exact .acquire collLock (by simpa using hcl) rfl rfl rfl (by simp [rank])
        · exact .same rfl rfl (.inr (by simp [rank]))
      · split
        · split
          · exact .same rfl rfl (.inl ⟨rfl, ne_nil_of_contains ‹_›⟩)
          · exact .same rfl rfl (.inr (by simp [rank]))
        · simp only [Bool.false_eq_true, if_false]
          exact .same rfl rfl (.inr (by simp [rank]))
      · split
        · exact .same rfl rfl (.inr (by simp [rank]))
        · exact .same rfl rfl (.inr (by simp [rank]))
      · split
        · exact .same rfl rfl (.inr (by simp [rank]))
        · exact .same rfl rfl (.inr (by simp [rank]))

/-- The lock table is owned: no lock is held twice, and every held lock is the lock of a request
that is between the two blocks which hold it. -/
structure LockInv (c : CState) (phs : List Phase) : Prop where
  nodup : c.locked.Nodup
  owner : ∀ l ∈ c.locked, ∃ (i : Nat) (ph : Phase), phs[i]? = some ph ∧ l ∈ held ph

theorem lt_of_getElem? {α} {l : List α} {k : Nat} {a : α} (h : l[k]? = some a) : k < l.length := by
  rcases Nat.lt_or_ge k l.length with h' | h'
  · exact h'
  · rw [List.getElem?_eq_none h'] at h; cases h

theorem lockinv_set {c c' : CState} {phs : List Phase} {k : Nat} {ph ph' : Phase}
    (hp : phs[k]? = some ph) (hI : LockInv c phs) (hs : LockStep c c' ph ph') : LockInv c' (phs.set k ph') := by
  have hk := lt_of_getElem? hp
  have self : (phs.set k ph')[k]? = some ph' := by simp [hk]
  have other : ∀ i, i ≠ k → (phs.set k ph')[i]? = phs[i]? := fun i hi => by
    rw [List.getElem?_set_ne (fun h' => hi h'.symm)]
  cases hs with
  | same hl hh _ =>
    refine ⟨hl ▸ hI.nodup, fun l hm => ?_⟩
    rw [hl] at hm
    obtain ⟨i, phi, h1, h2⟩ := hI.owner l hm
    by_cases hik : i = k
    · subst hik; rw [hp] at h1; cases h1
      exact ⟨i, ph', self, hh ▸ h2⟩
    · exact ⟨i, phi, (other i hik).trans h1, h2⟩
  | acquire l0 hfree hl h0 h1 _ =>
    have hnot : l0 ∉ c.locked := by simpa using hfree
    refine ⟨hl ▸ List.nodup_cons.mpr ⟨hnot, hI.nodup⟩, fun l hm => ?_⟩
    rw [hl] at hm
    rcases List.mem_cons.mp hm with he | hm'
    · exact ⟨k, ph', self, by rw [h1, he]; exact List.mem_singleton.mpr rfl⟩
    · obtain ⟨i, phi, h2, h3⟩ := hI.owner l hm'
      by_cases hik : i = k
      · subst hik; rw [hp] at h2; cases h2
        rw [h0] at h3; cases h3
      · exact ⟨i, phi, (other i hik).trans h2, h3⟩
  | release l0 h0 hl h1 _ =>
    refine ⟨hl ▸ hI.nodup.erase l0, fun l hm => ?_⟩
    rw [hl] at hm
    have ⟨hne, hm'⟩ := (hI.nodup.mem_erase_iff).mp hm
    obtain ⟨i, phi, h2, h3⟩ := hI.owner l hm'
    by_cases hik : i = k
    · subst hik; rw [hp] at h2; cases h2
      rw [h0] at h3
      exact absurd (List.mem_singleton.mp h3) hne
    · exact ⟨i, phi, (other i hik).trans h2, h3⟩

/-- The invariant holds in every state a schedule reaches. -/
theorem lockinv_sched (v : UpdVariant) (e : Env) (reqs : List Request) :
    ∀ (ks : List Nat) (c : CState) (phs : List Phase), LockInv c phs →
      LockInv (runSched v e reqs c phs ks).1 (runSched v e reqs c phs ks).2
  | [], _, _, h => h
  | k :: ks, c, phs, h => by
    unfold runSched
    split
    · rename_i r ph hr hp
      exact lockinv_sched v e reqs ks _ _ (lockinv_set hp h (advance_lockstep v e c r ph))
    · exact lockinv_sched v e reqs ks c phs h

theorem lockinv_init (n : Nat) : LockInv {} (List.replicate n .start) :=
  ⟨List.nodup_nil, fun _ h => by cases h⟩

theorem runSched_length (v : UpdVariant) (e : Env) (reqs : List Request) :
    ∀ (ks : List Nat) (c : CState) (phs : List Phase), (runSched v e reqs c phs ks).2.length = phs.length
  | [], _, _ => rfl
  | k :: ks, c, phs => by
    unfold runSched
    split
    · rw [runSched_length v e reqs ks]; simp
    · exact runSched_length v e reqs ks c phs

/-- Phases inside a block that holds a lock, or between lookup and decode: they never wait. -/
def Phase.mid : Phase → Bool
  | .found .. => true
  | .stopped .. => true
  | .restart .. => true
  | _ => false

theorem moves_of_not_waits {c c' : CState} {ph ph' : Phase} (hs : LockStep c c' ph ph') (hw : ¬ waits c ph) :
    rank ph' < rank ph := by
  cases hs with
  | same _ _ h => rcases h with ⟨_, h⟩ | h; exact absurd h hw; exact h
  | acquire _ _ _ _ _ h => exact h
  | release _ _ _ _ h => exact h

/-- **C16 (no deadlock).**  In every state that satisfies the lock invariant — every state a
schedule reaches, `lockinv_sched` — with a request that is not finished, some request's next
block runs (its phase moves on; nothing it waits for is held). -/
theorem C16_no_deadlock (v : UpdVariant) (e : Env) (reqs : List Request) (c : CState) (phs : List Phase)
    (hlen : phs.length = reqs.length) (hI : LockInv c phs)
    (hopen : ∃ (k : Nat) (ph : Phase), phs[k]? = some ph ∧ ph.isDone = false) :
    ∃ (k : Nat) (r : Request) (ph : Phase), reqs[k]? = some r ∧ phs[k]? = some ph ∧ rank (advance v e c r ph).2 < rank ph := by
  have req : ∀ (k : Nat) (ph : Phase), phs[k]? = some ph → ∃ r, reqs[k]? = some r := fun k ph h => by
    have := lt_of_getElem? h
    have h2 : k < reqs.length := hlen ▸ this
    exact ⟨reqs[k], List.getElem?_eq_getElem h2⟩
  have go : ∀ (k : Nat) (ph : Phase), phs[k]? = some ph → ¬ waits c ph →
      ∃ (k : Nat) (r : Request) (ph : Phase), reqs[k]? = some r ∧ phs[k]? = some ph ∧ rank (advance v e c r ph).2 < rank ph := by
    intro k ph hp hw
    obtain ⟨r, hr⟩ := req k ph hp
    exact ⟨k, r, ph, hr, hp, moves_of_not_waits (advance_lockstep v e c r ph) hw⟩
  by_cases hA : ∃ (k : Nat) (ph : Phase), phs[k]? = some ph ∧ ph.mid = true
  · obtain ⟨k, ph, hp, hm⟩ := hA
    refine go k ph hp ?_
    cases ph <;> first | (intro h; simp [waits] at h; done) | cases hm
  · -- nobody holds a proxy mutex
    have noMid : ∀ (i : Nat) (ph : Phase), phs[i]? = some ph → ph.mid = false := fun i ph h => by
      cases hmid : ph.mid
      · rfl
      · exact absurd ⟨i, ph, h, hmid⟩ hA
    by_cases hB : ∃ (k : Nat) (x : PopEntry), phs[k]? = some (.replacing x)
    · obtain ⟨k, x, hp⟩ := hB
      refine go k _ hp ?_
      intro hw
      have hmem : x.name ∈ c.locked.erase collLock := by simpa [waits] using hw
      have ⟨hne, hm⟩ := (hI.nodup.mem_erase_iff).mp hmem
      obtain ⟨i, phi, h1, h2⟩ := hI.owner _ hm
      have := noMid i phi h1
      cases phi with
      | replacing y => exact hne (List.mem_singleton.mp h2)
      | stopped _ _ _ => cases this
      | restart _ _ _ => cases this
      | found _ _ => cases h2
      | start => cases h2
      | ready _ _ _ => cases h2
      | done _ => cases h2
    · -- nobody holds anything
      have hnil : c.locked = [] := by
        cases hl : c.locked with
        | nil => rfl
        | cons l ls =>
          obtain ⟨i, phi, h1, h2⟩ := hI.owner l (by rw [hl]; exact List.mem_cons_self ..)
          have := noMid i phi h1
          cases phi with
          | replacing y => exact absurd ⟨i, y, h1⟩ hB
          | stopped _ _ _ => cases this
          | restart _ _ _ => cases this
          | found _ _ => cases h2
          | start => cases h2
          | ready _ _ _ => cases h2
          | done _ => cases h2
      obtain ⟨k, ph, hp, hnd⟩ := hopen
      refine go k ph hp ?_
      have := noMid k ph hp
      cases ph with
      | done _ => cases hnd
      | start => exact fun hw => hw hnil
      | ready _ _ _ => exact fun hw => hw hnil
      | replacing x => exact absurd ⟨k, x, hp⟩ hB
      | found _ _ => cases this
      | stopped _ _ _ => cases this
      | restart _ _ _ => cases this

def total (phs : List Phase) : Nat := (phs.map rank).sum

theorem total_set {phs : List Phase} {k : Nat} {ph ph' : Phase} (hp : phs[k]? = some ph) (h : rank ph' < rank ph) :
    total (phs.set k ph') < total phs := by
  induction phs generalizing k with
  | nil => cases hp
  | cons a t ih =>
    cases k with
    | zero =>
      simp only [List.getElem?_cons_zero, Option.some.injEq] at hp
      subst hp
      simp only [total, List.set_cons_zero, List.map_cons, List.sum_cons]
      omega
    | succ k =>
      simp only [List.getElem?_cons_succ] at hp
      have := ih hp
      simp only [total, List.set_cons_succ, List.map_cons, List.sum_cons] at this ⊢
      omega

theorem done_of_total_zero {phs : List Phase} (h : total phs = 0) : ∀ ph ∈ phs, ph.isDone = true := by
  induction phs with
  | nil => intro _ h; cases h
  | cons a t ih =>
    simp only [total, List.map_cons, List.sum_cons] at h
    intro ph hm
    rcases List.mem_cons.mp hm with he | hm
    · subst he
      cases ph <;> first | rfl | (simp [rank] at h)
    · exact ih (by simp only [total]; omega) ph hm

/-- **C16 (every request finishes).**  From every state that satisfies the lock invariant a
schedule exists after which every request has its answer: no lock is ever held for good. -/
theorem C16_all_finish (v : UpdVariant) (e : Env) (reqs : List Request) :
    ∀ (n : Nat) (c : CState) (phs : List Phase), total phs ≤ n → phs.length = reqs.length → LockInv c phs →
      ∃ ks, ∀ ph ∈ (runSched v e reqs c phs ks).2, ph.isDone = true
  | 0, c, phs, hn, _, _ => ⟨[], done_of_total_zero (Nat.le_zero.mp hn)⟩
  | n + 1, c, phs, hn, hlen, hI => by
    by_cases hopen : ∃ (k : Nat) (ph : Phase), phs[k]? = some ph ∧ ph.isDone = false
    · obtain ⟨k, r, ph, hr, hp, hlt⟩ := C16_no_deadlock v e reqs c phs hlen hI hopen
      have hI' := lockinv_set hp hI (advance_lockstep v e c r ph)
      have ht := total_set hp hlt
      obtain ⟨ks, hks⟩ := C16_all_finish v e reqs n _ _ (by omega) (by simpa using hlen) hI'
      refine ⟨k :: ks, ?_⟩
      unfold runSched
      simp only [hr, hp]
      exact hks
    · refine ⟨[], fun ph hm => ?_⟩
      have hm : ph ∈ phs := hm
      obtain ⟨k, hk, hg⟩ := List.getElem_of_mem hm
      cases hd : ph.isDone
      · exact absurd ⟨k, ph, by rw [List.getElem?_eq_getElem hk, hg], hd⟩ hopen
      · rfl

/-- The same from the start: any requests, any environment — some schedule answers them all;
and along *every* schedule the lock invariant holds, so no prefix of a schedule can paint
the handlers into a corner. -/
theorem C16_never_stuck (v : UpdVariant) (e : Env) (reqs : List Request) (ks : List Nat) :
    let st := runSched v e reqs {} (List.replicate reqs.length .start) ks
    ∃ ks', ∀ ph ∈ (runSched v e reqs st.1 st.2 ks').2, ph.isDone = true := by
  intro st
  have hI := lockinv_sched v e reqs ks {} _ (lockinv_init reqs.length)
  have hl := runSched_length v e reqs ks {} (List.replicate reqs.length .start)
  exact C16_all_finish v e reqs _ st.1 st.2 (Nat.le_refl _) (by rw [hl]; simp) hI

/-- The hypotheses are met with both kinds of lock held at once and a third request waiting for
them: the populate of `C16_replace_race_witness` has stopped p1 (collection lock), p2's update
has stopped p2 (p2's mutex), and a third request, scheduled twice, stays at its start. -/
example :
    let st := runSched .fixed envW2 [replaceReq, moveP2Req, replaceReq] { s := [p1on, p2on] } [.start, .start, .start] [1, 1, 0, 1, 2, 2]
    st.1.locked = ["p2", collLock] ∧ st.2.map rank = [1, 2, 5] := by decide

end Toxi.Conc
