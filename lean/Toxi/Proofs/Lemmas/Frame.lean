import Toxi.Proofs.Lemmas.Reconf
/-!
What the goroutines of a link never touch: the peers' side of the sockets (`srcEOF`, `srcQ` apart
from the source goroutine reading it, `sinkReady`, `sinkFail`), the cut marks, and — unless a
write fails — the write-error flag.
-/
namespace Toxi.Link
open Toxi.Toxic Toxi.Stream

/-- The fields only the environment (peers, proxy, harness) sets. -/
def Link.env (l : Link) : Bool × Bool × Bool × Bool × Nat :=
  (l.srcEOF, l.sinkFail, l.sinkReady, l.srcCut, l.cutHi)

structure Keep (l l' : Link) : Prop where
  env : l'.env = l.env
  q   : l'.srcQ = l.srcQ
  err : l'.sinkErr = l.sinkErr

theorem Keep.rfl' (l : Link) : Keep l l := ⟨rfl, rfl, rfl⟩

theorem Keep.trans {a b c : Link} (h1 : Keep a b) (h2 : Keep b c) : Keep a c :=
  ⟨h2.env.trans h1.env, h2.q.trans h1.q, h2.err.trans h1.err⟩

theorem keep_ack (l : Link) (i : Nat) (now : Int) : Keep l (l.ackUpstream i now) := by
  unfold Link.ackUpstream
  split
  · exact ⟨rfl, rfl, rfl⟩
  · split
    · split <;> exact ⟨rfl, rfl, rfl⟩
    · exact ⟨rfl, rfl, rfl⟩

theorem keep_consume (l : Link) (i : Nat) (src : InSrc) (b : Bool) (now : Int) : Keep l (l.consume i src b now) := by
  unfold Link.consume
  split
  · exact Keep.rfl' l
  · split
    · exact ⟨rfl, rfl, rfl⟩
    · exact keep_ack l i now

theorem keep_restartAt (l : Link) (chain : List TCfg) (i : Nat) (now : Int) : Keep l (restartAt l chain i now) := by
  unfold restartAt
  split <;> exact ⟨rfl, rfl, rfl⟩

theorem keep_bufferMove (l : Link) (i : Nat) (now : Int) (l' : Link) (h : l.bufferMove i now = some l') : Keep l l' := by
  unfold Link.bufferMove at h
  split at h
  · cases h
  · split at h
    · split at h
      · cases h
        exact (keep_ack l i now).trans ⟨rfl, rfl, rfl⟩
      · cases h
    · cases h

theorem keep_intrAlt (l : Link) (i : Nat) (now : Int) (l' : Link) (h : l.intrAlt i now = some l') : Keep l l' := by
  unfold Link.intrAlt at h
  split at h
  · split at h
    · cases h; exact ⟨rfl, rfl, rfl⟩
    · cases h
  · cases h

theorem keep_ctlTakeAlt (l : Link) (now : Int) (l' : Link) (h : l.ctlTakeAlt now = some l') : Keep l l' := by
  unfold Link.ctlTakeAlt at h
  split at h
  · split at h
    · cases h
      exact (keep_consume l _ _ true now).trans ⟨rfl, rfl, rfl⟩
    · cases h
  · cases h

theorem keep_recvAlt (l : Link) (i : Nat) (now : Int) (l' : Link) (h : l.recvAlt i now = some l') : Keep l l' := by
  unfold Link.recvAlt at h
  split at h
  · unfold recvPart at h
    split at h
    · split at h
      · cases h
        exact (keep_consume l _ _ _ now).trans ⟨rfl, rfl, rfl⟩
      · cases h
    · cases h
  · cases h

theorem keep_stageBody (l : Link) (i : Nat) (now : Int) (busy : Bool) (s : Stage) (l' : Link)
    (h : stageBody l i now busy s = some l') : Keep l l' := by
  unfold stageBody at h
  by_cases h1 : duePart s now = true
  · rw [if_pos h1] at h; cases h; exact ⟨rfl, rfl, rfl⟩
  · rw [if_neg h1] at h
    by_cases h2 : (s.intr == .pending && s.st.closed) = true
    · rw [if_pos h2] at h; cases h; exact ⟨rfl, rfl, rfl⟩
    · rw [if_neg h2] at h
      by_cases h3 : (s.intr == .pending && s.pc.interruptible) = true
      · rw [if_pos h3] at h; cases h; exact ⟨rfl, rfl, rfl⟩
      · rw [if_neg h3] at h
        by_cases h4 : (s.intr == .waitRet && !s.pc.running) = true
        · rw [if_pos h4] at h; cases h; exact ⟨rfl, rfl, rfl⟩
        · rw [if_neg h4] at h
          by_cases h5 : (s.pc.wantsInput && !(l.detached && i + 1 == l.stages.length)) = true
          · rw [if_pos h5] at h
            split at h
            · cases h
              exact (keep_consume l _ _ _ now).trans ⟨rfl, rfl, rfl⟩
            · cases h
          · rw [if_neg h5] at h
            split at h
            · split at h
              · cases h; exact keep_consume l _ _ _ now
              · cases h
            · cases h

theorem keep_stageMove (l : Link) (i : Nat) (now : Int) (busy : Bool) (l' : Link)
    (h : l.stageMove i now busy = some l') : Keep l l' := by
  cases hs : l.stages[i]? with
  | none => simp [Link.stageMove, hs] at h
  | some s =>
    by_cases hc : ∃ w, s.pc = .crash w
    · obtain ⟨w, hw⟩ := hc
      simp only [Link.stageMove, hs, hw, Option.some.injEq] at h
      subst h
      exact ⟨rfl, rfl, rfl⟩
    · rw [stageMove_body l i now busy s hs (fun w hw => hc ⟨w, hw⟩)] at h
      exact keep_stageBody l i now busy s l' h

theorem keep_ctlMove (l : Link) (chain : List TCfg) (now : Int) (l' : Link)
    (h : l.ctlMove chain now = some l') : Keep l l' := by
  cases hc : l.ctl with
  | none => simp [Link.ctlMove, hc] at h
  | some x =>
    cases x with
    | addWait t =>
      simp only [Link.ctlMove, hc] at h
      split at h
      · cases h
      · split at h
        · cases h; exact Keep.trans (by exact ⟨rfl, rfl, rfl⟩) (keep_restartAt _ chain _ now)
        · cases h; exact ⟨rfl, rfl, rfl⟩
        · cases h
    | updWait idx t =>
      simp only [Link.ctlMove, hc] at h
      split at h
      · cases h; exact ⟨rfl, rfl, rfl⟩
      · split at h
        · cases h; exact ⟨rfl, rfl, rfl⟩
        · cases h; exact ⟨rfl, rfl, rfl⟩
        · cases h
    | rmIntr idx cl =>
      simp only [Link.ctlMove, hc] at h
      split at h
      · cases h; exact ⟨rfl, rfl, rfl⟩
      · split at h
        · cases h; exact ⟨rfl, rfl, rfl⟩
        · split at h
          · cases h; exact ⟨rfl, rfl, rfl⟩
          · cases h; exact ⟨rfl, rfl, rfl⟩
        · cases h
    | rmLoop idx tmp dl sg =>
      simp only [Link.ctlMove, hc] at h
      cases tmp with
      | some c =>
        simp only at h
        split at h
        · cases h; exact ⟨rfl, rfl, rfl⟩
        · cases h
      | none =>
        simp only at h
        split at h
        · cases h; exact ⟨rfl, rfl, rfl⟩
        · split at h
          · cases h; exact ⟨rfl, rfl, rfl⟩
          · split at h
            · cases h
              exact (keep_consume l _ _ true now).trans ⟨rfl, rfl, rfl⟩
            · split at h
              · cases h; exact ⟨rfl, rfl, rfl⟩
              · cases h; exact ⟨rfl, rfl, rfl⟩
            · cases h
    | rmWaitStop idx =>
      simp only [Link.ctlMove, hc] at h
      split at h
      · cases h; exact ⟨rfl, rfl, rfl⟩
      · cases h
    | rmDrain idx tmp dl =>
      simp only [Link.ctlMove, hc] at h
      cases tmp with
      | some c =>
        simp only at h
        split at h
        · cases h; exact ⟨rfl, rfl, rfl⟩
        · cases h
      | none =>
        simp only at h
        split at h
        · cases h; exact ⟨rfl, rfl, rfl⟩
        · cases h; exact Keep.trans (by exact ⟨rfl, rfl, rfl⟩) (keep_restartAt _ chain _ now)

/-- The source goroutine only reads: the queue of unread data loses its head or stays. -/
theorem keep_sourceMove (l : Link) (now : Int) (l' : Link) (h : l.sourceMove now = some l') :
    l'.env = l.env ∧ l'.sinkErr = l.sinkErr ∧ (l'.srcQ = l.srcQ ∨ ∃ d, l.srcQ = d :: l'.srcQ) := by
  unfold Link.sourceMove at h
  split at h
  · split at h
    · rename_i d q hq
      cases h
      exact ⟨rfl, rfl, Or.inr ⟨d, hq⟩⟩
    · split at h
      · cases h; exact ⟨rfl, rfl, Or.inl rfl⟩
      · cases h
  · cases h

/-- The sink goroutine: the write-error flag is raised only by a write that fails. -/
theorem keep_sinkMove (l : Link) (now : Int) (l' : Link) (h : l.sinkMove now = some l') :
    l'.env = l.env ∧ l'.srcQ = l.srcQ ∧ (l'.sinkErr = l.sinkErr ∨ l.sinkFail = true) := by
  have ka : ∀ w, (l.ackUpstream w now).env = l.env ∧ (l.ackUpstream w now).srcQ = l.srcQ ∧
      ((l.ackUpstream w now).sinkErr = l.sinkErr ∨ l.sinkFail = true) :=
    fun w => ⟨(keep_ack l w now).env, (keep_ack l w now).q, Or.inl (keep_ack l w now).err⟩
  unfold Link.sinkMove at h
  by_cases hd : l.destClosed = true
  · rw [if_pos hd] at h
    by_cases hdr : (!l.sinkDrain) = true
    · rw [if_pos hdr] at h; cases h
    · rw [if_neg hdr] at h
      simp only at h
      by_cases hw : (l.wired == 0) = true
      · rw [if_pos hw] at h; cases h
      · rw [if_neg hw] at h
        split at h
        · cases h; exact ka _
        · split at h
          · cases h; exact ⟨rfl, rfl, Or.inl rfl⟩
          · cases h
  · rw [if_neg hd] at h
    split at h
    · by_cases hf : l.sinkFail = true
      · rw [if_pos hf] at h; cases h; exact ⟨rfl, rfl, Or.inr hf⟩
      · rw [if_neg hf] at h
        split at h
        · cases h; exact ⟨rfl, rfl, Or.inl rfl⟩
        · cases h
    · simp only at h
      by_cases hw : (l.wired == 0) = true
      · rw [if_pos hw] at h; cases h
      · rw [if_neg hw] at h
        split at h
        · cases h
          obtain ⟨a, b, c⟩ := ka l.wired
          exact ⟨a, b, c⟩
        · split at h
          · cases h; exact ⟨rfl, rfl, Or.inl rfl⟩
          · cases h

/-- **No goroutine of a link touches the peers' side.**  Whatever moves — any goroutine, any
`select` choice, any controller step —: the end-of-stream mark of the sender, the receiver's
readiness and failure, the cut marks stay; unread data only shrinks (the source reads it); the
write-error flag changes only when writes fail. -/
theorem frame_anymove (l : Link) (chain : List TCfg) (now : Int) (busy : Bool) (l' : Link)
    (h : l.AnyMove chain now busy l') :
    l'.env = l.env ∧ (l'.srcQ = l.srcQ ∨ ∃ d, l.srcQ = d :: l'.srcQ) ∧ (l'.sinkErr = l.sinkErr ∨ l.sinkFail = true) := by
  have k : ∀ {x : Link}, Keep l x → x.env = l.env ∧ (x.srcQ = l.srcQ ∨ ∃ d, l.srcQ = d :: x.srcQ) ∧ (x.sinkErr = l.sinkErr ∨ l.sinkFail = true) :=
    fun hx => ⟨hx.env, Or.inl hx.q, Or.inl hx.err⟩
  rcases h.2 with h' | h' | ⟨i, h'⟩ | ⟨i, h'⟩ | h' | ⟨i, h'⟩ | ⟨i, h'⟩ | h'
  · exact k (keep_ctlMove l chain now l' h')
  · obtain ⟨a, b, c⟩ := keep_sinkMove l now l' h'; exact ⟨a, Or.inl b, c⟩
  · exact k (keep_stageMove l i now busy l' h')
  · exact k (keep_bufferMove l i now l' h')
  · obtain ⟨a, b, c⟩ := keep_sourceMove l now l' h'; exact ⟨a, c, Or.inl b⟩
  · exact k (keep_recvAlt l i now l' h')
  · exact k (keep_intrAlt l i now l' h')
  · exact k (keep_ctlTakeAlt l now l' h')

end Toxi.Link
