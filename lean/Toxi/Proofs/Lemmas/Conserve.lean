import Toxi.Proofs.C12
import Toxi.Proofs.C09

/-!
Stage-level conservation: what a toxic coroutine *holds* (`Pc.held`, in emission order)
changes only by receiving a chunk at the newest end and by handing the oldest bytes to its
output.  This is the per-stage fact on which the pipeline invariant of C01/C02 rests.
-/
namespace Toxi.Toxic
open Toxi.Stream (Bytes)

def Next.held : Next → Bytes
  | .toIdle _ | .toRet | .limitAfter _ => []
  | .slicerGap rest _ _ _ => rest
  | .bwLoop p _ => p.data

def Wake.held : Wake → Bytes
  | .latency c _ _ => c.data
  | .bwInstal p _ => p.data
  | .bwFinal p _ _ => p.data
  | .slicerGap rest _ _ _ => rest
  | .slowClose => []

/-- The bytes a stage currently holds, oldest first. -/
def Pc.held : Pc → Bytes
  | .out c k => c.data ++ k.held
  | .nap _ w => w.held
  | .flush c _ => c.data
  | _ => []

/-- Attribute guard for the data-preserving toxics (the property's "valid attributes"). -/
def Safe : Cfg → Prop
  | .noop => True
  | .latency _ j => j * 2 < 9223372036854775808      -- jitter*2 does not wrap (jitter ≤ 0 is fine)
  | .bandwidth r => BwOK r
  | .slicer a v _ => SlicerOK a v
  | .slowClose _ => True
  | _ => False

/-- The offsets still to be sent are a monotone chain covering exactly `rest` (= the bytes
after offset `base`). -/
def ChainOK (offs : List (Int × Int)) (base : Int) (rest : Bytes) : Prop :=
  match offs with
  | [] => rest = []
  | _ => Chain base (base + rest.length) offs ∧ ∀ p ∈ offs, p.1 ≤ p.2

/-- Well-formedness of a program counter for a configuration (facts established when the
state was entered, needed for the next step not to panic). -/
def PcWF (cfg : Cfg) : Pc → Prop
  | .out _ (.slicerGap rest offs base _) => ChainOK offs base rest
  | .nap _ (.slicerGap rest offs base _) => ChainOK offs base rest
  | .nap _ (.bwInstal p _) => match cfg with | .bandwidth r => r * 100 < p.data.length | _ => True
  | .crash _ => False
  | _ => True

theorem chain_mono_le {offs : List (Int × Int)} {s e : Int} (hc : Chain s e offs)
    (hm : ∀ p ∈ offs, p.1 ≤ p.2) : s ≤ e := by
  induction offs generalizing s with
  | nil => simp [Chain] at hc
  | cons x l ih =>
    cases l with
    | nil => simp only [Chain] at hc; have := hm x (by simp); omega
    | cons y l =>
      simp only [Chain] at hc
      have := hm x (by simp)
      have := ih hc.2 (fun z hz => hm z (by simp [hz]))
      omega

/-- Sending the next piece of a well-formed chain: no panic, the piece and the new rest
concatenate to the old rest, and the remaining chain is well-formed. -/
theorem slicerSend_ok (rest : Bytes) (base ts : Int) (offs : List (Int × Int))
    (h : ChainOK offs base rest) :
    (slicerSend rest base ts offs).held = rest ∧ PcWF (.slicer 0 0 0) (slicerSend rest base ts offs) ∧
    (∀ w, slicerSend rest base ts offs ≠ .crash w) := by
  cases offs with
  | nil => simp only [ChainOK] at h; subst h; simp [slicerSend, Pc.held, PcWF]
  | cons p offs =>
    obtain ⟨a, b⟩ := p
    simp only [ChainOK] at h
    obtain ⟨hc, hm⟩ := h
    have hab : a ≤ b := hm (a, b) (by simp)
    have ha : a = base := by
      cases offs with
      | nil => simp only [Chain] at hc; exact hc.1
      | cons q offs => simp only [Chain] at hc; exact hc.1
    subst ha
    have hbe : b ≤ a + rest.length := by
      cases offs with
      | nil => simp only [Chain] at hc; omega
      | cons q offs =>
        simp only [Chain] at hc
        exact chain_mono_le hc.2 (fun z hz => hm z (by simp [hz]))
    have hslice : slice rest (a - a) (b - a) = some (rest.take (b - a).toNat) := by
      unfold slice
      have : (0:Int) ≤ a - a ∧ a - a ≤ b - a ∧ b - a ≤ (rest.length : Int) := ⟨by omega, by omega, by omega⟩
      simp [this]
    simp only [slicerSend, hslice]
    refine ⟨?_, ?_, by intro w hw; cases hw⟩
    · simp [Pc.held, Next.held]
    · simp only [PcWF]
      cases offs with
      | nil =>
        simp only [Chain] at hc
        simp only [ChainOK]
        apply List.drop_eq_nil_of_le
        omega
      | cons q offs =>
        simp only [Chain] at hc
        simp only [ChainOK]
        refine ⟨?_, fun z hz => hm z (by simp [hz])⟩
        have hlen : ((rest.drop (b - a).toNat).length : Int) = rest.length - (b - a) := by
          rw [List.length_drop]; omega
        rw [hlen]
        have : b + (↑rest.length - (b - a)) = a + ↑rest.length := by omega
        rw [this]
        exact hc.2

end Toxi.Toxic
