import Toxi.Proofs.C12
import Toxi.Proofs.C09

/-!
Stage-level conservation: what a toxic coroutine *holds* (`Pc.held`, in emission order)
changes only by receiving a chunk at the newest end and by handing the oldest bytes to its
output.  This is the per-stage fact on which the pipeline invariant of C01/C02 rests.
-/
namespace Toxi.Toxic
open Toxi.Stream (Bytes)

def Next.held : Next → Bytes
  | .toIdle _ | .toRet | .limitAfter _ => []
  | .slicerGap rest _ _ _ => rest
  | .bwLoop p _ => p.data

def Wake.held : Wake → Bytes
  | .latency c _ _ => c.data
  | .bwInstal p _ => p.data
  | .bwFinal p _ _ => p.data
  | .slicerGap rest _ _ _ => rest
  | .slowClose => []

/-- The bytes a stage currently holds, oldest first. -/
def Pc.held : Pc → Bytes
  | .out c k => c.data ++ k.held
  | .nap _ w => w.held
  | .flush c _ => c.data
  | _ => []

/-- The data-preserving toxics — with *any* attribute values: since the repairs of C07
(guards in `chunk`, in the bandwidth instalment loop and around `rand.Int63n`) no attribute
value can make them panic, lose or invent a byte. -/
def Safe : Cfg → Prop
  | .noop => True
  | .latency _ _ => True
  | .bandwidth _ => True
  | .slicer _ _ _ => True
  | .slowClose _ => True
  | _ => False

/-- The offsets still to be sent are a monotone chain covering exactly `rest` (= the bytes
after offset `base`). -/
def ChainOK (offs : List (Int × Int)) (base : Int) (rest : Bytes) : Prop :=
  match offs with
  | [] => rest = []
  | _ => Chain base (base + rest.length) offs ∧ ∀ p ∈ offs, p.1 ≤ p.2

/-- Well-formedness of a program counter for a configuration (facts established when the
state was entered, needed for the next step not to panic). -/
def PcWF (cfg : Cfg) : Pc → Prop
  | .out _ (.slicerGap rest offs base _) => ChainOK offs base rest
  | .nap _ (.slicerGap rest offs base _) => ChainOK offs base rest
  | .nap _ (.bwInstal p _) => match cfg with
    | .bandwidth r => 0 ≤ r ∧ r ≤ Int.tdiv maxInt64 100 ∧ r * 100 < p.data.length
    | _ => True
  | .idleT _ => match cfg with | .timeout _ => True | _ => False
  | .out _ (.limitAfter _) => match cfg with | .limitData _ => True | _ => False
  | .crash _ => False
  | _ => True

theorem chain_mono_le {offs : List (Int × Int)} {s e : Int} (hc : Chain s e offs)
    (hm : ∀ p ∈ offs, p.1 ≤ p.2) : s ≤ e := by
  induction offs generalizing s with
  | nil => simp [Chain] at hc
  | cons x l ih =>
    cases l with
    | nil => simp only [Chain] at hc; have := hm x (by simp); omega
    | cons y l =>
      simp only [Chain] at hc
      have := hm x (by simp)
      have := ih hc.2 (fun z hz => hm z (by simp [hz]))
      omega

/-- Sending the next piece of a well-formed chain: no panic, the piece and the new rest
concatenate to the old rest, and the remaining chain is well-formed. -/
theorem slicerSend_ok (rest : Bytes) (base ts : Int) (offs : List (Int × Int))
    (h : ChainOK offs base rest) :
    (slicerSend rest base ts offs).held = rest ∧ (∀ cfg, PcWF cfg (slicerSend rest base ts offs)) ∧
    (∀ w, slicerSend rest base ts offs ≠ .crash w) := by
  cases offs with
  | nil => simp only [ChainOK] at h; subst h; simp [slicerSend, Pc.held, PcWF]
  | cons p offs =>
    obtain ⟨a, b⟩ := p
    simp only [ChainOK] at h
    obtain ⟨hc, hm⟩ := h
    have hab : a ≤ b := hm (a, b) (by simp)
    have ha : a = base := by
      cases offs with
      | nil => simp only [Chain] at hc; exact hc.1
      | cons q offs => simp only [Chain] at hc; exact hc.1
    subst ha
    have hbe : b ≤ a + rest.length := by
      cases offs with
      | nil => simp only [Chain] at hc; omega
      | cons q offs =>
        simp only [Chain] at hc
        exact chain_mono_le hc.2 (fun z hz => hm z (by simp [hz]))
    have hslice : slice rest (a - a) (b - a) = some (rest.take (b - a).toNat) := by
      unfold slice
      have : (0:Int) ≤ a - a ∧ a - a ≤ b - a ∧ b - a ≤ (rest.length : Int) := ⟨by omega, by omega, by omega⟩
      simp [this, hab]
    simp only [slicerSend, hslice]
    refine ⟨?_, ?_, by intro w hw; cases hw⟩
    · simp [Pc.held, Next.held]
    · intro cfg
      simp only [PcWF]
      cases offs with
      | nil =>
        simp only [Chain] at hc
        simp only [ChainOK]
        apply List.drop_eq_nil_of_le
        omega
      | cons q offs =>
        simp only [Chain] at hc
        simp only [ChainOK]
        refine ⟨?_, fun z hz => hm z (by simp [hz])⟩
        have hlen : ((rest.drop (b - a).toNat).length : Int) = rest.length - (b - a) := by
          rw [List.length_drop]; omega
        rw [hlen]
        have : b + (↑rest.length - (b - a)) = a + ↑rest.length := by omega
        rw [this]
        exact hc.2

end Toxi.Toxic

namespace Toxi.Toxic
open Toxi.Stream (Bytes)

/-- How an event may change what a data-preserving stage holds. -/
def Conserves (pc pc' : Pc) : Event → Prop
  | .input (some c) _ _ => pc.held = [] ∧ pc'.held = c.data
  | .input none _ _ => pc.held = [] ∧ pc'.held = []
  | .taken _ => ∃ c, pc.offer = some c ∧ pc.held = c.data ++ pc'.held
  | .timer _ => pc'.held = pc.held ∨ (∃ c d, pc = .flush c d ∧ pc'.held = [])
  | .interrupt _ => pc'.held = pc.held

theorem tdiv_max_100 : Int.tdiv maxInt64 100 = 92233720368547758 := by decide
theorem tdiv_max_2 : Int.tdiv maxInt64 2 = 4611686018427387903 := by decide

/-- The (repaired) loop test of the bandwidth toxic, for every rate: whatever it decides, the
chunk is held whole and the instalment state is only entered with a non-negative rate whose
100 ms budget fits an int64 and is smaller than the chunk. -/
theorem bwLoop_ok (r : Int) (p : Chunk) (carry now : Int) :
    (bwLoop .fixed r p carry now).held = p.data ∧ PcWF (.bandwidth r) (bwLoop .fixed r p carry now) := by
  unfold bwLoop
  simp only
  by_cases hc : ((decide (r ≥ 0) && decide (r ≤ Int.tdiv maxInt64 100)) && decide ((p.data.length : Int) > wrap64 (r * 100))) = true
  · rw [if_pos hc]
    simp only [Bool.and_eq_true, decide_eq_true_eq] at hc
    obtain ⟨⟨h0, h1⟩, h2⟩ := hc
    have hw : wrap64 (r * 100) = r * 100 := wrap64_id _ (by omega) (by rw [tdiv_max_100] at h1; omega)
    rw [hw] at h2
    exact ⟨rfl, by simp only [PcWF]; exact ⟨h0, h1, by omega⟩⟩
  · rw [if_neg hc]
    exact ⟨rfl, by simp [PcWF]⟩

@[simp] theorem bwLoop_neg (p : Chunk) (carry now : Int) :
    bwLoop .fixed (-1) p carry now = .nap (now + max carry 0) (.bwFinal p carry now) := by
  simp [bwLoop]

/-- **Stage conservation.** For every data-preserving toxic with valid attributes, every
event that the stage can receive at a well-formed program counter leads to a well-formed
program counter (no panic) and changes the held bytes only as `Conserves` allows: a
received chunk is appended whole, a completed send removes exactly the offered chunk from
the front, timers and interrupts move nothing — except the deliberate 5 s give-up of
`WriteOutput`. -/
theorem step_conserves (cfg : Cfg) (hs : Safe cfg) (st : StubSt) (pc : Pc) (ev : Event)
    (st' : StubSt) (pc' : Pc) (hwf : PcWF cfg pc)
    (h : step .fixed cfg true st pc ev = some (st', pc')) :
    PcWF cfg pc' ∧ Conserves pc pc' ev := by
  cases pc with
  | ret => cases ev <;> simp [step] at h
  | crash w => simp [PcWF] at hwf
  | hold d =>
    cases ev <;> simp [step] at h
    obtain ⟨_, rfl⟩ := h
    simp [PcWF, Conserves, Pc.held]
  | flush c d =>
    cases ev <;> simp [step] at h
    · obtain ⟨_, rfl⟩ := h
      exact ⟨by simp [PcWF], Or.inr ⟨c, d, rfl, rfl⟩⟩
    · obtain ⟨_, rfl⟩ := h
      exact ⟨by simp [PcWF], c, rfl, by simp [Pc.held]⟩
  | idleT d =>
    cases cfg <;> simp [PcWF] at hwf
    simp [Safe] at hs
  | idle carry =>
    cases ev with
    | timer now => simp [step] at h
    | taken now => simp [step] at h
    | interrupt now =>
      simp [step] at h; obtain ⟨_, rfl⟩ := h
      simp [PcWF, Conserves, Pc.held]
    | input c now draws =>
      cases c with
      | none =>
        cases cfg <;> simp [step, Safe] at h hs <;> (obtain ⟨_, rfl⟩ := h) <;>
          simp [PcWF, Conserves, Pc.held, Wake.held]
      | some c =>
        simp only [step, if_true] at h
        cases cfg with
        | noop => simp [onChunk] at h; obtain ⟨_, rfl⟩ := h; simp [PcWF, Conserves, Pc.held, Next.held]
        | slowClose d => simp [onChunk] at h; obtain ⟨_, rfl⟩ := h; simp [PcWF, Conserves, Pc.held, Next.held]
        | latency l j =>
          simp only [onChunk] at h
          by_cases hj : (decide (j > 0) && decide (j ≤ Int.tdiv maxInt64 2)) = true
          · have hj' : 0 < j ∧ j ≤ Int.tdiv maxInt64 2 := by simpa using hj
            rw [tdiv_max_2] at hj'
            have hw : wrap64 (j * 2) = j * 2 := wrap64_id _ (by omega) (by omega)
            have hn : ¬ (j * 2 ≤ 0) := by omega
            simp only [hj, if_true, hw, hn, if_false] at h
            cases draws <;> (simp at h; obtain ⟨_, rfl⟩ := h; simp [PcWF, Conserves, Pc.held, Wake.held])
          · simp only [hj, Bool.false_eq_true, if_false] at h
            simp at h; obtain ⟨_, rfl⟩ := h; simp [PcWF, Conserves, Pc.held, Wake.held]
        | bandwidth r =>
          simp only [onChunk] at h
          simp at h
          obtain ⟨_, rfl⟩ := h
          have := bwLoop_ok r c (if r ≤ 0 then 0 else carry + Int.tdiv ((c.data.length : Int) * ms) r) now
          exact ⟨this.2, rfl, this.1⟩
        | slicer a v d =>
          simp only [onChunk] at h
          obtain ⟨offs, rest, hch, hchain, hp⟩ :=
            chunk_total a v (slicerFuel c.data.length) 0 c.data.length draws (by omega) (by unfold slicerFuel; omega)
          have hbeq : (Variant.fixed == Variant.fixed) = true := by decide
          simp only [hbeq] at h
          simp only [hch] at h
          simp at h
          obtain ⟨_, rfl⟩ := h
          have hok : ChainOK offs 0 c.data := by
            cases offs with
            | nil => simp [Chain] at hchain
            | cons q offs =>
              simp only [ChainOK]
              refine ⟨by simpa using hchain, ?_⟩
              intro p hpm
              exact hp p hpm
          have := slicerSend_ok c.data 0 c.ts offs hok
          exact ⟨this.2.1 _, rfl, this.1⟩
        | timeout t => simp [Safe] at hs
        | limitData n => simp [Safe] at hs
        | resetPeer t => simp [Safe] at hs
  | out c k =>
    cases ev with
    | timer now => simp [step] at h
    | interrupt now => simp [step] at h
    | input c' now draws => simp [step] at h
    | taken now =>
      simp only [step, if_true] at h
      cases k with
      | toIdle carry => simp at h; obtain ⟨_, rfl⟩ := h; exact ⟨by simp [PcWF], c, rfl, by simp [Pc.held, Next.held]⟩
      | toRet => simp at h; obtain ⟨_, rfl⟩ := h; exact ⟨by simp [PcWF], c, rfl, by simp [Pc.held, Next.held]⟩
      | slicerGap rest offs base ts =>
        simp at h
        obtain ⟨_, rfl⟩ := h
        exact ⟨by simpa [PcWF] using hwf, c, rfl, by simp [Pc.held, Next.held, Wake.held]⟩
      | bwLoop p carry =>
        simp at h
        obtain ⟨_, rfl⟩ := h
        cases cfg with
        | bandwidth r =>
          have := bwLoop_ok r p carry now
          exact ⟨this.2, c, rfl, by rw [this.1]; rfl⟩
        | _ =>
          simp only [bwLoop_neg]
          exact ⟨by simp [PcWF], c, rfl, by simp [Pc.held, Next.held, Wake.held]⟩
      | limitAfter n =>
        cases cfg <;> simp [PcWF] at hwf
        simp [Safe] at hs
  | nap d w =>
    cases ev with
    | taken now => cases w <;> simp [step] at h
    | input c' now draws => cases w <;> simp [step] at h
    | timer now =>
      cases w with
      | latency c sl dl =>
        simp [step] at h; obtain ⟨_, rfl⟩ := h
        exact ⟨by simp [PcWF], Or.inl (by simp [Pc.held, Next.held, Wake.held])⟩
      | bwFinal p carry start =>
        simp [step] at h; obtain ⟨_, rfl⟩ := h
        exact ⟨by simp [PcWF], Or.inl (by simp [Pc.held, Next.held, Wake.held])⟩
      | slowClose =>
        simp [step] at h; obtain ⟨_, rfl⟩ := h
        exact ⟨by simp [PcWF], Or.inl (by simp [Pc.held, Wake.held])⟩
      | slicerGap rest offs base ts =>
        simp [step] at h; obtain ⟨_, rfl⟩ := h
        have hok : ChainOK offs base rest := by simpa [PcWF] using hwf
        have := slicerSend_ok rest base ts offs hok
        exact ⟨this.2.1 _, Or.inl this.1⟩
      | bwInstal p carry =>
        cases cfg <;> simp [step] at h
        all_goals try (obtain ⟨_, rfl⟩ := h; exact ⟨by simp [PcWF], Or.inl (by simp [Pc.held, Next.held, Wake.held])⟩)
        rename_i r
        have hwf' : 0 ≤ r ∧ r ≤ Int.tdiv maxInt64 100 ∧ r * 100 < p.data.length := by simpa [PcWF] using hwf
        rw [tdiv_max_100] at hwf'
        have hs : 0 ≤ r := hwf'.1
        have hw : wrap64 (r * 100) = r * 100 := wrap64_id _ (by omega) (by omega)
        have hlen : r * 100 < p.data.length := hwf'.2.2
        rw [hw] at h
        have h1 : slice p.data 0 (r * 100) = some (p.data.take (r * 100).toNat) := by
          unfold slice
          have : (0:Int) ≤ 0 ∧ (0:Int) ≤ r * 100 ∧ r * 100 ≤ (p.data.length : Int) := ⟨by omega, by omega, by omega⟩
          simp [this]
        have h2 : slice p.data (r * 100) p.data.length = some (p.data.drop (r * 100).toNat) := by
          unfold slice
          have : (0:Int) ≤ r * 100 ∧ r * 100 ≤ (p.data.length : Int) ∧ (p.data.length : Int) ≤ p.data.length :=
            ⟨by omega, by omega, by omega⟩
          simp only [this, and_self, if_true]
          congr 1
          apply List.take_of_length_le
          simp
          omega
        simp only [h1, h2] at h
        simp at h
        obtain ⟨_, rfl⟩ := h
        exact ⟨by simp [PcWF], Or.inl (by simp [Pc.held, Next.held, Wake.held])⟩
    | interrupt now =>
      cases w <;> simp [step] at h <;> (obtain ⟨_, rfl⟩ := h) <;>
        simp [PcWF, Conserves, Pc.held, Next.held, Wake.held]

end Toxi.Toxic
