import Toxi.Proofs.Lemmas.InvStep
/-!
Exclusivity of listening ports, as an invariant of every state the API can reach (C03/C05/C17).

`startProxy` is the model of `start(proxy)`: it fails when the port is held by a foreign
listener or by another running proxy of the registry.  Here: whatever sequence of requests is
served — creates, updates that re-address or toggle, populates that replace, resets, deletes,
toxic operations — every running proxy holds a port, that port is not a foreign listener's,
and no two running proxies hold the same port.  (Hypothesis on the address table: the address a
listener reports, `bound`, denotes the port it was started on; `boundOK` is evaluated by the
model driver on the table measured from the real `net.Listen` in every E4/E7 session.)
-/
namespace Toxi.Api

structure PInv (e : Env) (s : State) : Prop where
  /-- a running proxy holds a port, and it is not a foreign listener's -/
  known : ∀ p ∈ s, p.enabled = true → ∃ pt, p.port e = some pt ∧ pt ∉ e.busy
  /-- two running proxies on one port are the same proxy -/
  excl : ∀ p ∈ s, ∀ q ∈ s, p.enabled = true → q.enabled = true → p.port e = q.port e → p.name = q.name

theorem lookup_mem {e : Env} {x : String} {a : Addr} (h : e.lookup x = some a) : a ∈ e.addrs := by
  unfold Env.lookup at h
  exact List.mem_of_find?_eq_some h

theorem mem_portsInUse {e : Env} {s : State} {q : ProxyRec} {pt : Nat} (hq : q ∈ s) (he : q.enabled = true)
    (hp : q.port e = some pt) : pt ∈ portsInUse e s := by
  unfold portsInUse
  rw [List.mem_filterMap]
  refine ⟨q, hq, ?_⟩
  simp only [he, if_true]
  exact hp

theorem mem_remove {s : State} {n : String} {q : ProxyRec} (hq : q ∈ s) (hn : q.name ≠ n) : q ∈ s.remove n := by
  unfold State.remove
  rw [List.mem_filter]
  exact ⟨hq, by simpa using hn⟩

/-- What a successful start gives: the record started, on a port that is nobody else's. -/
theorem startProxy_spec (e : Env) (hb : boundOK e = true) (s : State) (p p2 : ProxyRec)
    (h : startProxy e s p = some p2) :
    p2.name = p.name ∧ p2.enabled = true ∧ p2.upstream = p.upstream ∧ p2.toxics = p.toxics ∧
    ∃ pt, p2.port e = some pt ∧ pt ∉ e.busy ∧ pt ∉ portsInUse e (s.remove p.name) := by
  unfold startProxy at h
  split at h
  · simp at h
  · rename_i a ha
    split at h
    · simp at h
    · rename_i b hbd
      split at h
      · simp at h
      · rename_i hfree
        simp only [Option.some.injEq] at h
        subst h
        refine ⟨rfl, rfl, rfl, rfl, a.port, ?_, ?_, ?_⟩
        · -- the reported address denotes the same port
          unfold boundOK at hb
          rw [List.all_eq_true] at hb
          have := hb a (lookup_mem ha)
          simp only [hbd] at this
          unfold ProxyRec.port
          simp only
          split at this
          · rename_i a' ha'
            rw [ha']
            simp only [Option.map_some, Option.some.injEq]
            simpa using this
          · simp at this
        · intro hin
          apply hfree
          simp [List.contains_iff_mem, hin]
        · intro hin
          apply hfree
          simp [List.contains_iff_mem, hin]

theorem pinv_empty (e : Env) : PInv e [] := ⟨by simp, by simp⟩

theorem pinv_remove (e : Env) (s : State) (n : String) (h : PInv e s) : PInv e (s.remove n) := by
  have hs := (remove_sublist s n).subset
  exact ⟨fun p hp => h.known p (hs hp), fun p hp q hq => h.excl p (hs hp) q (hs hq)⟩

/-- The condition under which a record may be put into the registry. -/
def Fits (e : Env) (s : State) (p : ProxyRec) : Prop :=
  p.enabled = true → ∃ pt, p.port e = some pt ∧ pt ∉ e.busy ∧ pt ∉ portsInUse e (s.remove p.name)

theorem fits_disabled (e : Env) (s : State) (p : ProxyRec) (h : p.enabled = false) : Fits e s p := by
  intro h'; rw [h] at h'; cases h'

theorem pinv_append (e : Env) (s : State) (p : ProxyRec) (h : PInv e s) (hf : Fits e s p) : PInv e (s ++ [p]) := by
  have clash : ∀ q ∈ s, q.enabled = true → p.enabled = true → q.port e = p.port e → q.name = p.name := by
    intro q hq heq hep hpp
    obtain ⟨pt, hpt, _, hfree⟩ := hf hep
    by_cases hn : q.name = p.name
    · exact hn
    · exact absurd (mem_portsInUse (mem_remove hq hn) heq (hpp.trans hpt)) hfree
  constructor
  · intro q hq heq
    rcases List.mem_append.mp hq with hq | hq
    · exact h.known q hq heq
    · simp only [List.mem_singleton] at hq
      subst hq
      obtain ⟨pt, hpt, hb, _⟩ := hf heq
      exact ⟨pt, hpt, hb⟩
  · intro q hq r hr heq her hpp
    rcases List.mem_append.mp hq with hq1 | hq1 <;> rcases List.mem_append.mp hr with hr1 | hr1
    · exact h.excl q hq1 r hr1 heq her hpp
    · simp only [List.mem_singleton] at hr1
      rw [hr1] at her hpp ⊢
      exact clash q hq1 heq her hpp
    · simp only [List.mem_singleton] at hq1
      rw [hq1] at heq hpp ⊢
      exact (clash r hr1 her heq hpp.symm).symm
    · simp only [List.mem_singleton] at hq1 hr1; rw [hq1, hr1]

theorem mem_replace' {s : State} {p q : ProxyRec} (h : q ∈ s.replace p) : q = p ∨ (q ∈ s ∧ q.name ≠ p.name) := by
  unfold State.replace at h
  rw [List.mem_map] at h
  obtain ⟨x, hx, hq⟩ := h
  by_cases hn : (x.name == p.name) = true
  · rw [if_pos hn] at hq; exact Or.inl hq.symm
  · rw [if_neg hn] at hq; subst hq
    exact Or.inr ⟨hx, by simpa using hn⟩

theorem pinv_replace (e : Env) (s : State) (p : ProxyRec) (h : PInv e s) (hf : Fits e s p) : PInv e (s.replace p) := by
  have clash : ∀ q ∈ s, q.name ≠ p.name → q.enabled = true → p.enabled = true → q.port e = p.port e → q.name = p.name := by
    intro q hq hn heq hep hpp
    obtain ⟨pt, hpt, _, hfree⟩ := hf hep
    exact absurd (mem_portsInUse (mem_remove hq hn) heq (hpp.trans hpt)) hfree
  constructor
  · intro q hq heq
    rcases mem_replace' hq with hq | ⟨hq, _⟩
    · subst hq
      obtain ⟨pt, hpt, hb, _⟩ := hf heq
      exact ⟨pt, hpt, hb⟩
    · exact h.known q hq heq
  · intro q hq r hr heq her hpp
    rcases mem_replace' hq with hq1 | ⟨hq1, hqn⟩ <;> rcases mem_replace' hr with hr1 | ⟨hr1, hrn⟩
    · rw [hq1, hr1]
    · rw [hq1] at heq hpp ⊢
      exact (clash r hr1 hrn her heq hpp.symm).symm
    · rw [hr1] at her hpp ⊢
      exact clash q hq1 hqn heq her hpp
    · exact h.excl q hq1 r hr1 heq her hpp

/-- A record that keeps the name, the address and the state of a registered one fits. -/
theorem fits_keep (e : Env) (s : State) (p p' : ProxyRec) (h : PInv e s) (hp : p ∈ s)
    (hn : p'.name = p.name) (hl : p'.listen = p.listen) (hen : p'.enabled = p.enabled) : Fits e s p' := by
  intro he
  rw [hen] at he
  obtain ⟨pt, hpt, hb⟩ := h.known p hp he
  have hpp : p'.port e = p.port e := by unfold ProxyRec.port; rw [hl]
  refine ⟨pt, hpp.trans hpt, hb, ?_⟩
  intro hin
  unfold portsInUse at hin
  rw [List.mem_filterMap] at hin
  obtain ⟨q, hq, hqv⟩ := hin
  by_cases hqe : q.enabled = true
  · simp only [hqe, if_true] at hqv
    have hqs : q ∈ s := (remove_sublist s p'.name).subset hq
    have hqn : q.name ≠ p'.name := by
      unfold State.remove at hq
      rw [List.mem_filter] at hq
      simpa using hq.2
    have := h.excl q hqs p hp hqe he (by unfold ProxyRec.port; rw [hqv]; exact hpt.symm)
    exact hqn (this.trans hn.symm)
  · simp [hqe] at hqv

theorem replace_remove (s : State) (p : ProxyRec) : (s.replace p).remove p.name = s.remove p.name := by
  unfold State.replace State.remove
  induction s with
  | nil => rfl
  | cons a s ih =>
    simp only [List.map_cons, List.filter_cons]
    by_cases ha : (a.name == p.name) = true
    · simp only [ha, if_true]
      have : (p.name != p.name) = false := by simp
      simp only [this, Bool.false_eq_true, if_false]
      have : (a.name != p.name) = false := by simp [bne, ha]
      simp only [this, Bool.false_eq_true, if_false]
      exact ih
    · have hf : (a.name == p.name) = false := by simpa using ha
      simp only [hf, Bool.false_eq_true, if_false]
      have : (a.name != p.name) = true := by simp [bne, hf]
      simp only [this, if_true]
      rw [ih]

theorem fits_of_started (e : Env) (hb : boundOK e = true) (s s' : State) (p p2 : ProxyRec)
    (h : startProxy e s' p = some p2) (hs : s'.remove p.name = s.remove p.name) : Fits e s p2 := by
  obtain ⟨hn, _, _, _, pt, hpt, hbz, hfree⟩ := startProxy_spec e hb s' p p2 h
  intro _
  exact ⟨pt, hpt, hbz, by rw [hn, ← hs]; exact hfree⟩

theorem fits_toxics (e : Env) (s : State) (p : ProxyRec) (ts : List ToxicRec) (h : Fits e s p) :
    Fits e s { p with toxics := ts } := h

/-! ### Every handler keeps the invariant -/

theorem remove_of_find_none (s : State) (n : String) (h : s.find n = none) : s.remove n = s := by
  unfold State.remove
  rw [List.filter_eq_self]
  intro q hq
  simpa using find_none h q hq

theorem pinv_hCreate (e : Env) (hb : boundOK e = true) (s : State) (b : Body) (h : PInv e s) : PInv e (hCreate e s b).1 := by
  unfold hCreate
  split
  · exact h
  · rename_i inp _
    split
    · exact h
    · split
      · exact h
      · split
        · exact h
        · simp only
          split
          · split
            · rename_i p hst
              exact pinv_append e s p h (fits_of_started e hb s s _ p hst rfl)
            · exact h
          · exact pinv_append e s _ h (fits_disabled e s _ rfl)

theorem pinv_withProxy (e : Env) (s : State) (n : String) (k : ProxyRec → State × Response) (h : PInv e s)
    (hk : ∀ p, s.find n = some p → PInv e (k p).1) : PInv e (withProxy s n k).1 := by
  unfold withProxy
  split
  · exact h
  · rename_i p hp; exact hk p hp

/-- `Proxy.Update`'s result fits in the place of the proxy it updates. -/
theorem fits_updateProxy (e : Env) (hb : boundOK e = true) (s : State) (p : ProxyRec) (inp : ProxyInput)
    (h : PInv e s) (hp : p ∈ s) : Fits e s (updateProxy e s p inp).1 := by
  unfold updateProxy
  cases hr : e.resolve inp.listen with
  | none => exact fits_keep e s p p h hp rfl rfl rfl
  | some r =>
    simp only
    generalize hp1 : (if (!(e.sameListen p.listen inp.listen) || p.upstream != inp.upstream) = true then
        ({ p with enabled := false, listen := inp.listen, upstream := inp.upstream } : ProxyRec) else p) = p1
    have h1n : p1.name = p.name := by rw [← hp1]; split <;> rfl
    have h1 : Fits e s p1 := by
      rw [← hp1]
      split
      · exact fits_disabled e s _ rfl
      · exact fits_keep e s p p h hp rfl rfl rfl
    by_cases hne : (inp.enabled != p1.enabled) = true
    · rw [if_pos hne]
      by_cases hen : inp.enabled = true
      · rw [if_pos hen]
        cases hs : startProxy e (s.replace p1) p1 with
        | none => exact h1
        | some p2 => exact fits_of_started e hb s _ p1 p2 hs (replace_remove s p1)
      · rw [if_neg hen]; exact fits_disabled e s _ rfl
    · rw [if_neg hne]; exact h1

theorem pinv_hUpdate (e : Env) (hb : boundOK e = true) (s : State) (n : String) (b : Body) (h : PInv e s) :
    PInv e (hUpdate e s n b).1 := by
  unfold hUpdate
  apply pinv_withProxy e s n _ h
  intro p hp
  have hpm := (find_some_mem hp).1
  split
  · exact h
  · rename_i inp _
    have hf := fits_updateProxy e hb s p inp h hpm
    cases hu : updateProxy e s p inp with
    | mk p' okk =>
      rw [hu] at hf
      cases okk <;> exact pinv_replace e s p' h hf

theorem pinv_hToxicCreate (e : Env) (s : State) (n : String) (b : Body) (h : PInv e s) :
    PInv e (hToxicCreate s n b).1 := by
  unfold hToxicCreate
  apply pinv_withProxy e s n _ h
  intro p hp
  have hpm := (find_some_mem hp).1
  cases ha : addToxic p b with
  | error err => exact h
  | ok r =>
    obtain ⟨p', t⟩ := r
    obtain ⟨w, dir, z, _, _, _, _, _, _, _, _, _, hp'⟩ := addToxic_ok p b p' t ha
    simp only
    subst hp'
    exact pinv_replace e s _ h (fits_keep e s p _ h hpm rfl rfl rfl)

theorem pinv_hToxicUpdate (v : UpdVariant) (e : Env) (s : State) (n tn : String) (b : Body) (h : PInv e s) :
    PInv e (hToxicUpdate v s n tn b).1 := by
  unfold hToxicUpdate
  apply pinv_withProxy e s n _ h
  intro p hp
  have hpm := (find_some_mem hp).1
  have key : ∀ p', (p' = p ∨ ∃ t : ToxicRec, p' = replaceToxic p t) → PInv e (s.replace p') := by
    intro p' h'
    apply pinv_replace e s p' h
    rcases h' with h' | ⟨t, h'⟩
    · rw [h']; exact fits_keep e s p p h hpm rfl rfl rfl
    · rw [h']; exact fits_keep e s p _ h hpm rfl rfl rfl
  have hshape : ((updateToxic v p tn b).1 = p ∨ ∃ t : ToxicRec, (updateToxic v p tn b).1 = replaceToxic p t) := by
    unfold updateToxic
    split
    · exact Or.inl rfl
    · split
      · exact Or.inl rfl
      · exact Or.inl rfl
      · exact Or.inl rfl
      · simp only
        split
        · cases v
          · exact Or.inr ⟨_, rfl⟩
          · exact Or.inl rfl
        · exact Or.inr ⟨_, rfl⟩
      · exact Or.inl rfl
  cases hu : updateToxic v p tn b with
  | mk p' res =>
    rw [hu] at hshape
    cases res <;> exact key p' hshape

theorem pinv_hToxicDelete (e : Env) (s : State) (n tn : String) (h : PInv e s) : PInv e (hToxicDelete s n tn).1 := by
  unfold hToxicDelete
  apply pinv_withProxy e s n _ h
  intro p hp
  have hpm := (find_some_mem hp).1
  cases hr : removeToxic p tn with
  | error err => exact h
  | ok p' =>
    simp only
    apply pinv_replace e s _ h
    unfold removeToxic at hr
    split at hr
    · simp at hr
    · simp only [Except.ok.injEq] at hr
      subst hr
      exact fits_keep e s p _ h hpm rfl rfl rfl

def ResPInv (e : Env) (r : Except State (State × ProxyRec × Bool)) : Prop :=
  match r with
  | .ok (s', _, _) => PInv e s'
  | .error s' => PInv e s'

theorem pinv_addOrReplace (e : Env) (hb : boundOK e = true) (s : State) (x : PopEntry) (h : PInv e s) :
    ResPInv e (addOrReplace e s x) := by
  unfold addOrReplace
  simp only
  cases hf : s.find x.name with
  | some ex =>
    have hexn : ex.name = x.name := (find_some_mem hf).2
    simp only
    cases hr : e.resolve x.listen with
    | none => exact h
    | some r =>
      simp only
      by_cases hsame : (e.sameListen ex.listen x.listen && ex.upstream == x.upstream) = true
      · rw [if_pos hsame]; exact h
      · rw [if_neg hsame]
        have h1 : PInv e (s.replace { ex with enabled := false }) :=
          pinv_replace e s _ h (fits_disabled e s _ rfl)
        by_cases hst : x.enabled.getD true = true
        · rw [if_pos hst]
          cases hs : startProxy e (s.replace { ex with enabled := false }) ⟨x.name, x.listen, x.upstream, false, []⟩ with
          | none => exact h1
          | some p => exact pinv_replace _ _ p h1 (fits_of_started e hb _ _ _ p hs rfl)
        · rw [if_neg hst]
          exact pinv_replace _ _ _ h1 (fits_disabled e _ _ rfl)
  | none =>
    simp only
    by_cases hst : x.enabled.getD true = true
    · rw [if_pos hst]
      cases hs : startProxy e s ⟨x.name, x.listen, x.upstream, false, []⟩ with
      | none => exact h
      | some p => exact pinv_append e s p h (fits_of_started e hb s s _ p hs rfl)
    · rw [if_neg hst]
      exact pinv_append e s _ h (fits_disabled e s _ rfl)

theorem pinv_populateLoop (e : Env) (hb : boundOK e = true) : ∀ (xs : List PopEntry) (s : State) (acc : List ProxyRec),
    PInv e s → PInv e (populateLoop e s xs acc).1 := by
  intro xs
  induction xs with
  | nil => intro s acc hi; exact hi
  | cons x xs ih =>
    intro s acc hi
    have h := pinv_addOrReplace e hb s x hi
    unfold populateLoop
    cases ha : addOrReplace e s x with
    | ok r =>
      obtain ⟨s', p, rep⟩ := r
      rw [ha] at h
      exact ih s' _ h
    | error s' =>
      rw [ha] at h
      exact h

theorem pinv_populate (e : Env) (hb : boundOK e = true) (s : State) (b : Body) (h : PInv e s) :
    PInv e (populate e s b).1 := by
  unfold populate
  split
  · exact h
  · rename_i xs _
    split
    · exact h
    · have := pinv_populateLoop e hb xs s [] h
      cases hl : populateLoop e s xs [] with
      | mk s' rest =>
        obtain ⟨ps, okk⟩ := rest
        rw [hl] at this
        cases okk <;> exact this

theorem replace_absent (s : State) (p : ProxyRec) (h : s.find p.name = none) : s.replace p = s := by
  unfold State.replace
  have : ∀ q ∈ s, (if (q.name == p.name) = true then p else q) = q := by
    intro q hq
    have := find_none h q hq
    simp [this]
  rw [List.map_congr_left this]
  simp

theorem pinv_resetStep (e : Env) (hb : boundOK e = true) (acc : State × Bool) (p : ProxyRec) (h : PInv e acc.1) :
    PInv e (resetStep e acc p).1 := by
  unfold resetStep
  by_cases h1 : (!acc.2) = true
  · rw [if_pos h1]; exact h
  · rw [if_neg h1]
    simp only
    cases hfd : acc.1.find p.name with
    | none =>
      -- nothing of that name is registered any more: `replace` changes nothing
      simp only [Option.getD_none]
      by_cases h2 : p.enabled = true
      · rw [if_pos h2]
        rw [replace_absent acc.1 { p with toxics := [] } hfd]; exact h
      · rw [if_neg h2]
        cases hs : startProxy e acc.1 p with
        | none => exact h
        | some p' =>
          simp only
          have hn := (startProxy_keeps e _ _ p' hs).1
          rw [replace_absent acc.1 { p' with toxics := [] } (by simp only; rw [hn]; exact hfd)]; exact h
    | some cur =>
      have hcm := (find_some_mem hfd).1
      simp only [Option.getD_some]
      by_cases h2 : cur.enabled = true
      · rw [if_pos h2]
        exact pinv_replace e _ _ h (fits_keep e _ cur _ h hcm rfl rfl rfl)
      · rw [if_neg h2]
        cases hs : startProxy e acc.1 cur with
        | none => exact h
        | some p' =>
          exact pinv_replace e _ _ h (fits_toxics e _ p' [] (fits_of_started e hb _ _ cur p' hs rfl))

theorem pinv_reset (e : Env) (hb : boundOK e = true) (s : State) (h : PInv e s) : PInv e (reset e s).1 := by
  have key : ∀ (l : List ProxyRec) (acc : State × Bool), PInv e acc.1 → PInv e (l.foldl (resetStep e) acc).1 := by
    intro l
    induction l with
    | nil => intro acc h; exact h
    | cons p l ih => intro acc h; exact ih _ (pinv_resetStep e hb acc p h)
  have hr : (reset e s).1 = (s.foldl (resetStep e) (s, true)).1 := by
    unfold reset resetStep
    simp only
    split <;> rfl
  rw [hr]
  exact key s (s, true) h

theorem pinv_dispatch (v : UpdVariant) (e : Env) (hb : boundOK e = true) (s : State) (r : Request) (h : PInv e s) :
    PInv e (dispatch v e s r).1 := by
  unfold dispatch
  split
  all_goals first
    | exact h
    | exact pinv_reset e hb s h
    | exact pinv_populate e hb s _ h
    | exact pinv_hCreate e hb s _ h
    | exact pinv_hUpdate e hb s _ _ h
    | exact pinv_hToxicCreate e s _ _ h
    | exact pinv_hToxicUpdate v e s _ _ _ h
    | exact pinv_hToxicDelete e s _ _ h
    | (unfold hIndex; exact h)
    | (unfold hShow; exact pinv_withProxy e s _ _ h (fun _ _ => h))
    | (unfold hDelete; exact pinv_withProxy e s _ _ h (fun _ _ => pinv_remove e s _ h))
    | (unfold hToxicIndex; exact pinv_withProxy e s _ _ h (fun _ _ => h))
    | (unfold hToxicShow; exact pinv_withProxy e s _ _ h (fun _ _ => by split <;> exact h))

/-- **Every request keeps the ports exclusive.** -/
theorem pinv_step (v : UpdVariant) (e : Env) (hb : boundOK e = true) (s : State) (r : Request) (h : PInv e s) :
    PInv e (step v e s r).1 := by
  unfold step
  split
  · exact h
  · split
    · exact h
    · split
      · exact h
      · exact pinv_dispatch v e hb s r h

/-- **C03/C05 (ports are exclusive in every reachable state).** After any history of requests —
creates, re-addressing and toggling updates, replacing populates, resets, deletes, toxic
operations, accepted or refused — every running proxy of the registry holds a port of the
address table that is not a foreign listener's, and no two running proxies hold the same
port. -/
theorem C05_reachable_ports (v : UpdVariant) (e : Env) (hb : boundOK e = true) (rs : List Request) :
    PInv e (rs.foldl (fun s r => (step v e s r).1) []) := by
  have : ∀ (rs : List Request) (s : State), PInv e s → PInv e (rs.foldl (fun s r => (step v e s r).1) s) := by
    intro rs
    induction rs with
    | nil => intro s h; exact h
    | cons r rs ih => intro s h; exact ih _ (pinv_step v e hb s r h)
  exact this rs [] (pinv_empty e)

/-- … in list form: the ports in use are pairwise different (with unique names, `Inv`). -/
theorem ports_nodup (e : Env) (s : State) (hi : Inv s) (h : PInv e s) : (portsInUse e s).Nodup := by
  unfold portsInUse
  have hn := hi.names
  induction s with
  | nil => simp
  | cons a s ih =>
    have hsub : ∀ q ∈ s, q ∈ a :: s := fun q hq => List.mem_cons_of_mem a hq
    have hn' : (s.map (·.name)).Nodup := (List.nodup_cons.mp (by simpa using hn)).2
    have hna : a.name ∉ s.map (·.name) := (List.nodup_cons.mp (by simpa using hn)).1
    have ih' := ih ⟨hn', fun q hq => hi.toxics q (hsub q hq)⟩
      ⟨fun p hp => h.known p (hsub p hp), fun p hp q hq => h.excl p (hsub p hp) q (hsub q hq)⟩ hn'
    rw [List.filterMap_cons]
    split
    · exact ih'
    · rename_i pt hpt
      rw [List.nodup_cons]
      refine ⟨?_, ih'⟩
      intro hin
      rw [List.mem_filterMap] at hin
      obtain ⟨q, hq, hqv⟩ := hin
      by_cases hae : a.enabled = true
      · simp only [hae, if_true] at hpt
        by_cases hqe : q.enabled = true
        · simp only [hqe, if_true] at hqv
          have := h.excl a List.mem_cons_self q (hsub q hq) hae hqe (by unfold ProxyRec.port; rw [hpt, hqv])
          exact hna (this ▸ List.mem_map_of_mem hq)
        · simp [hqe] at hqv
      · simp [hae] at hpt

/-- Non-vacuity: a table whose listeners report their address under another spelling
(`localhost:1` is reported as `127.0.0.1:1`) satisfies the hypothesis. -/
example : boundOK ⟨[⟨"localhost:1", some "127.0.0.1:1", some "127.0.0.1:1", 1⟩,
                   ⟨"127.0.0.1:1", some "127.0.0.1:1", some "127.0.0.1:1", 1⟩], [7], []⟩ = true := by decide

end Toxi.Api
