import Toxi.Proofs.C07
import Toxi.Model.Link
/-!
Whole-pipeline conservation (C01): in a link whose toxics are data-preserving (any attribute
values, any toxicity outcome), while no API call is reconfiguring it and the sender has not
ended its stream, *every* internal move of the link — the source goroutine reading, a chunk
entering a buffered channel, a stub receiving, sleeping, waking and handing a chunk on, the
sink goroutine writing — keeps

    delivered ++ in-flight = read from the source

where in-flight lists, from the sink back to the source, the write in progress, and for every
stub what it holds followed by what is queued in its input channel, and the source's pending
hand-off.  Nothing is lost, duplicated, reordered or altered anywhere in the chain.
-/
namespace Toxi.Toxic
open Toxi.Stream (Bytes)

/-- Program counters a data-preserving stub can be in while nobody interrupts it and its
input has not ended. -/
def Quiet : Pc → Prop
  | .idle _ => True
  | .out _ (.toIdle _) => True
  | .out _ (.slicerGap ..) => True
  | .out _ (.bwLoop ..) => True
  | .nap _ (.latency ..) => True
  | .nap _ (.bwInstal ..) => True
  | .nap _ (.bwFinal ..) => True
  | .nap _ (.slicerGap ..) => True
  | _ => False

theorem slicerSend_quiet (rest : Bytes) (base ts : Int) (offs : List (Int × Int))
    (h : ∀ w, slicerSend rest base ts offs ≠ .crash w) : Quiet (slicerSend rest base ts offs) := by
  cases offs with
  | nil => simp [slicerSend, Quiet]
  | cons p offs =>
    obtain ⟨a, b⟩ := p
    simp only [slicerSend] at h ⊢
    split
    · simp [Quiet]
    · rename_i hs; simp [hs] at h

theorem quiet_ite (b : Prop) [Decidable b] (x y : Pc) (hx : Quiet x) (hy : Quiet y) : Quiet (if b then x else y) := by
  split <;> assumption

theorem bwLoop_quiet (v : Variant) (r : Int) (p : Chunk) (carry now : Int) : Quiet (bwLoop v r p carry now) := by
  unfold bwLoop
  exact quiet_ite _ _ _ (by simp [Quiet]) (by simp [Quiet])

/-- Receiving a chunk at `idle`. -/
theorem input_ok (cfg : Cfg) (hs : Safe cfg) (st : StubSt) (carry : Int) (c : Chunk) (now : Int) (draws : List Int) :
    ∃ pc', step .fixed cfg true st (.idle carry) (.input (some c) now draws) = some (st, pc') ∧
      Quiet pc' ∧ PcWF cfg pc' ∧ pc'.held = c.data := by
  have hstep : step .fixed cfg true st (.idle carry) (.input (some c) now draws) = some (onChunk .fixed cfg st carry c now draws) := by
    simp [step]
  have hsc := fun st' pc' h => step_conserves cfg hs st (.idle carry) (.input (some c) now draws) st' pc' (by simp [PcWF]) h
  rw [hstep]
  have := hsc (onChunk .fixed cfg st carry c now draws).1 (onChunk .fixed cfg st carry c now draws).2 (by rw [hstep])
  obtain ⟨hwf, hcons⟩ := this
  simp only [Conserves] at hcons
  have hst : (onChunk .fixed cfg st carry c now draws).1 = st := by
    cases cfg <;> simp [Safe] at hs <;> simp [onChunk] <;> (try split) <;> (try split) <;> rfl
  refine ⟨(onChunk .fixed cfg st carry c now draws).2, ?_, ?_, hwf, hcons.2⟩
  · congr 1; exact Prod.ext hst rfl
  · -- the next pc is quiet: it is well-formed (not crash) and of the right shape
    cases cfg with
    | noop => simp [onChunk, Quiet]
    | slowClose d => simp [onChunk, Quiet]
    | latency l j =>
      have hw := hwf
      simp only [onChunk] at hw ⊢
      split
      · rename_i heq; rw [heq] at hw; simp [PcWF] at hw
      · simp [Quiet]
    | bandwidth r => simp only [onChunk]; exact bwLoop_quiet _ _ _ _ _
    | slicer a v d =>
      have hw := hwf
      simp only [onChunk] at hw ⊢
      split
      · rename_i offs rest heq
        rw [heq] at hw
        apply slicerSend_quiet
        intro w hc
        simp only at hw
        rw [hc] at hw
        simp [PcWF] at hw
      · rename_i heq; rw [heq] at hw; simp [PcWF] at hw
      · rename_i heq; rw [heq] at hw; simp [PcWF] at hw
    | timeout t => simp [Safe] at hs
    | limitData n => simp [Safe] at hs
    | resetPeer t => simp [Safe] at hs


/-- The offered chunk is taken by the neighbour. -/
theorem taken_ok (cfg : Cfg) (hs : Safe cfg) (st : StubSt) (c : Chunk) (k : Next) (now : Int)
    (hq : Quiet (.out c k)) (hwf : PcWF cfg (.out c k)) :
    ∃ pc', step .fixed cfg true st (.out c k) (.taken now) = some (st, pc') ∧
      Quiet pc' ∧ PcWF cfg pc' ∧ (Pc.out c k).held = c.data ++ pc'.held := by
  have key : ∀ pc', step .fixed cfg true st (.out c k) (.taken now) = some (st, pc') → Quiet pc' →
      ∃ pc', step .fixed cfg true st (.out c k) (.taken now) = some (st, pc') ∧
        Quiet pc' ∧ PcWF cfg pc' ∧ (Pc.out c k).held = c.data ++ pc'.held := by
    intro pc' h hq'
    obtain ⟨hw, hc⟩ := step_conserves cfg hs st _ _ st pc' hwf h
    simp only [Conserves] at hc
    obtain ⟨c', hoff, hheld⟩ := hc
    simp only [Pc.offer, Option.some.injEq] at hoff
    subst hoff
    exact ⟨pc', h, hq', hw, hheld⟩
  cases k with
  | toIdle carry => exact key (.idle carry) (by simp [step]) (by simp [Quiet])
  | toRet => simp [Quiet] at hq
  | limitAfter n => simp [Quiet] at hq
  | slicerGap rest offs base ts =>
    have h : ∃ d', step .fixed cfg true st (.out c (.slicerGap rest offs base ts)) (.taken now) =
        some (st, .nap d' (.slicerGap rest offs base ts)) := ⟨_, rfl⟩
    obtain ⟨d', h⟩ := h
    exact key _ h (by simp [Quiet])
  | bwLoop p carry =>
    have h : ∃ r, step .fixed cfg true st (.out c (.bwLoop p carry)) (.taken now) =
        some (st, bwLoop .fixed r p carry now) := ⟨_, rfl⟩
    obtain ⟨r, h⟩ := h
    exact key _ h (bwLoop_quiet _ _ _ _ _)

/-- A sleeping stub wakes up. -/
theorem timer_ok (cfg : Cfg) (hs : Safe cfg) (st : StubSt) (d : Int) (w : Wake) (now : Int)
    (hq : Quiet (.nap d w)) (hwf : PcWF cfg (.nap d w)) :
    ∃ pc', step .fixed cfg true st (.nap d w) (.timer now) = some (st, pc') ∧
      Quiet pc' ∧ PcWF cfg pc' ∧ pc'.held = (Pc.nap d w).held := by
  have key : ∀ pc', step .fixed cfg true st (.nap d w) (.timer now) = some (st, pc') → Quiet pc' →
      ∃ pc', step .fixed cfg true st (.nap d w) (.timer now) = some (st, pc') ∧
        Quiet pc' ∧ PcWF cfg pc' ∧ pc'.held = (Pc.nap d w).held := by
    intro pc' h hq'
    obtain ⟨hw, hc⟩ := step_conserves cfg hs st _ _ st pc' hwf h
    simp only [Conserves] at hc
    rcases hc with hc | ⟨c, dd, hc, _⟩
    · exact ⟨pc', h, hq', hw, hc⟩
    · cases hc
  cases w with
  | latency c sl dl => exact key (.out { c with ts := c.ts + dl } (.toIdle 0)) rfl (by simp [Quiet])
  | bwFinal p carry start => exact key (.out p (.toIdle (carry - (now - start)))) rfl (by simp [Quiet])
  | slowClose => simp [Quiet] at hq
  | slicerGap rest offs base ts =>
    have hok : ChainOK offs base rest := by simpa [PcWF] using hwf
    have hss := slicerSend_ok rest base ts offs hok
    exact key (slicerSend rest base ts offs) rfl (slicerSend_quiet _ _ _ _ hss.2.2)
  | bwInstal p carry =>
    cases cfg with
    | bandwidth r =>
      have hwf' : 0 ≤ r ∧ r ≤ Int.tdiv maxInt64 100 ∧ r * 100 < p.data.length := by simpa [PcWF] using hwf
      rw [tdiv_max_100] at hwf'
      have hw : wrap64 (r * 100) = r * 100 := wrap64_id _ (by omega) (by omega)
      have h1 : slice p.data 0 (r * 100) = some (p.data.take (r * 100).toNat) := by
        unfold slice
        have : (0:Int) ≤ 0 ∧ (0:Int) ≤ r * 100 ∧ r * 100 ≤ (p.data.length : Int) := ⟨by omega, by omega, by omega⟩
        simp [this]
      have h2 : ∃ rest, slice p.data (r * 100) p.data.length = some rest := by
        unfold slice
        have : (0:Int) ≤ r * 100 ∧ r * 100 ≤ (p.data.length : Int) ∧ (p.data.length : Int) ≤ p.data.length :=
          ⟨by omega, by omega, by omega⟩
        simp [this]
      obtain ⟨rest, h2⟩ := h2
      exact key (.out ⟨p.data.take (r * 100).toNat, p.ts⟩ (.bwLoop ⟨rest, p.ts⟩ (carry - 100 * ms)))
        (by simp [step, hw, h1, h2]) (by simp [Quiet])
    | _ => exact key (.out p (.toIdle carry)) rfl (by simp [Quiet])

end Toxi.Toxic

namespace Toxi.Link
open Toxi.Toxic Toxi.Stream

/-! ### Lists of stages -/

theorem modifyAt_eq (ss : List Stage) (i : Nat) (f : Stage → Stage) (s : Stage) (h : ss[i]? = some s) :
    modifyAt ss i f = ss.take i ++ f s :: ss.drop (i + 1) ∧ ss = ss.take i ++ s :: ss.drop (i + 1) := by
  have hi : i < ss.length := by
    rcases Nat.lt_or_ge i ss.length with h' | h'
    · exact h'
    · rw [List.getElem?_eq_none h'] at h; cases h
  have hs : ss[i] = s := by
    rw [List.getElem?_eq_getElem hi] at h; exact Option.some.inj h
  constructor
  · apply List.ext_getElem?
    intro j
    unfold modifyAt
    rw [List.getElem?_mapIdx]
    by_cases hj : j = i
    · subst hj
      rw [h]
      simp [List.getElem?_append_right, List.length_take, Nat.min_eq_left (Nat.le_of_lt hi)]
    · have hne : (j == i) = false := by simpa using hj
      simp only [hne, Bool.false_eq_true, if_false, Option.map_id']
      rcases Nat.lt_or_gt_of_ne hj with hlt | hgt
      · rw [List.getElem?_append_left (by simp [List.length_take]; omega)]
        rw [List.getElem?_take_of_lt hlt]
      · rw [List.getElem?_append_right (by simp [List.length_take]; omega)]
        simp only [List.length_take, Nat.min_eq_left (Nat.le_of_lt hi)]
        have : j - i = (j - i - 1) + 1 := by omega
        rw [this, List.getElem?_cons_succ, List.getElem?_drop]
        congr 1; omega
  · rw [← hs, List.getElem_cons_drop]; simp

theorem getElem?_mid (pre post : List Stage) (x : Stage) : (pre ++ x :: post)[pre.length]? = some x := by
  simp

theorem modifyAt_mid (pre post : List Stage) (x : Stage) (f : Stage → Stage) :
    modifyAt (pre ++ x :: post) pre.length f = pre ++ f x :: post := by
  have := (modifyAt_eq (pre ++ x :: post) pre.length f x (getElem?_mid pre post x)).1
  rw [this]
  simp

theorem split_one (ss : List Stage) (i : Nat) (s : Stage) (h : ss[i]? = some s) :
    ∃ pre post, ss = pre ++ s :: post ∧ pre.length = i := by
  have hi : i < ss.length := by
    rcases Nat.lt_or_ge i ss.length with h' | h'
    · exact h'
    · rw [List.getElem?_eq_none h'] at h; cases h
  exact ⟨ss.take i, ss.drop (i + 1), (modifyAt_eq ss i id s h).2, by simp [List.length_take]; omega⟩

theorem split_two (ss : List Stage) (i : Nat) (a b : Stage) (ha : ss[i]? = some a) (hb : ss[i + 1]? = some b) :
    ∃ pre post, ss = pre ++ a :: b :: post ∧ pre.length = i := by
  obtain ⟨pre, post, hss, hlen⟩ := split_one ss i a ha
  subst hss
  have : (pre ++ a :: post)[i + 1]? = post[0]? := by
    rw [List.getElem?_append_right (by omega)]
    have : i + 1 - pre.length = 1 := by omega
    rw [this]; rfl
  rw [this] at hb
  cases post with
  | nil => simp at hb
  | cons y post =>
    simp at hb
    subst hb
    exact ⟨pre, post, rfl, hlen⟩

/-! ### Stages of a quiet link -/

/-- The configuration a stage runs (the toxic, or a noop when the toxicity draw excluded this
connection). -/
def eff (s : Stage) : Cfg := effective s.t.cfg s.t.active

structure SOK (s : Stage) : Prop where
  safe  : Safe (eff s)
  wf    : PcWF (eff s) s.pc
  quiet : Quiet s.pc
  intr  : s.intr = .none
  open_ : s.st.closed = false

/-- What a stage holds, oldest first: the chunk(s) its `Pipe` is working on, then its input
channel's buffer. -/
def Stage.bytes (s : Stage) : Bytes := s.pc.held ++ (s.inq.map (·.data)).flatten

/-- … and a chain of stages, from the sink's end back to the source's. -/
def chainBytes (ss : List Stage) : Bytes := (ss.reverse.map Stage.bytes).flatten

theorem chainBytes_append (a b : List Stage) : chainBytes (a ++ b) = chainBytes b ++ chainBytes a := by
  simp [chainBytes, List.reverse_append, List.map_append, List.flatten_append]

@[simp] theorem chainBytes_nil : chainBytes [] = [] := by simp [chainBytes]

theorem bytes_taken (a a' : Stage) (c : Chunk) (hheld : a.pc.held = c.data ++ a'.pc.held) (hinq : a'.inq = a.inq) :
    a.bytes = c.data ++ a'.bytes := by
  simp [Stage.bytes, hheld, hinq, List.append_assoc]

theorem chainBytes_cons (s : Stage) (b : List Stage) : chainBytes (s :: b) = chainBytes b ++ s.bytes := by
  simp [chainBytes, List.reverse_cons, List.map_append, List.flatten_append]

theorem fire_eq (s : Stage) (ev : Event) (st' : StubSt) (pc' : Pc)
    (h : step .fixed (eff s) true s.st s.pc ev = some (st', pc')) :
    s.fire ev = { s with st := st', pc := pc' } := by
  unfold Stage.fire
  rw [step_effective]
  unfold eff at h
  rw [h]

theorem fire_input (s : Stage) (hs : SOK s) (c : Chunk) (now : Int) (draws : List Int) (hw : s.pc.wantsInput = true) :
    SOK (s.fire (.input (some c) now draws)) ∧ (s.fire (.input (some c) now draws)).pc.held = c.data ∧
    (s.fire (.input (some c) now draws)).inq = s.inq ∧ s.pc.held = [] := by
  have hq := hs.quiet
  cases hpc : s.pc with
  | idle carry =>
    obtain ⟨pc', hstep, hq', hwf', hheld⟩ := input_ok (eff s) hs.safe s.st carry c now draws
    rw [← hpc] at hstep
    rw [fire_eq s _ s.st pc' hstep]
    exact ⟨⟨hs.safe, hwf', hq', hs.intr, hs.open_⟩, hheld, rfl, by simp [Pc.held]⟩
  | idleT d => rw [hpc] at hq; simp [Quiet] at hq
  | _ => rw [hpc] at hw; simp [Pc.wantsInput] at hw

theorem fire_taken (s : Stage) (hs : SOK s) (c : Chunk) (now : Int) (ho : s.pc.offer = some c) :
    SOK (s.fire (.taken now)) ∧ s.pc.held = c.data ++ (s.fire (.taken now)).pc.held ∧
    (s.fire (.taken now)).inq = s.inq := by
  have hq := hs.quiet
  cases hpc : s.pc with
  | out c' k =>
    rw [hpc] at ho hq
    simp only [Pc.offer, Option.some.injEq] at ho
    subst ho
    have hwf := hs.wf
    rw [hpc] at hwf
    obtain ⟨pc', hstep, hq', hwf', hheld⟩ := taken_ok (eff s) hs.safe s.st c' k now hq hwf
    rw [← hpc] at hstep
    rw [fire_eq s _ s.st pc' hstep]
    exact ⟨⟨hs.safe, hwf', hq', hs.intr, hs.open_⟩, hheld, rfl⟩
  | flush c' d => rw [hpc] at hq; simp [Quiet] at hq
  | _ => rw [hpc] at ho; simp [Pc.offer] at ho

theorem fire_timer (s : Stage) (hs : SOK s) (d now : Int) (ht : s.pc.timer = some d) :
    SOK (s.fire (.timer now)) ∧ (s.fire (.timer now)).pc.held = s.pc.held ∧ (s.fire (.timer now)).inq = s.inq := by
  have hq := hs.quiet
  cases hpc : s.pc with
  | nap d' w =>
    rw [hpc] at hq
    have hwf := hs.wf
    rw [hpc] at hwf
    obtain ⟨pc', hstep, hq', hwf', hheld⟩ := timer_ok (eff s) hs.safe s.st d' w now hq hwf
    rw [← hpc] at hstep
    rw [fire_eq s _ s.st pc' hstep]
    exact ⟨⟨hs.safe, hwf', hq', hs.intr, hs.open_⟩, hheld, rfl⟩
  | idleT d' => rw [hpc] at hq; simp [Quiet] at hq
  | hold d' => rw [hpc] at hq; simp [Quiet] at hq
  | flush c' d' => rw [hpc] at hq; simp [Quiet] at hq
  | _ => rw [hpc] at ht; simp [Pc.timer] at ht

/-! ### The link invariant -/

def Link.inflight (l : Link) : Bytes :=
  (l.sinkPend.getD []) ++ chainBytes l.stages ++ ((l.srcPend.map (·.data)).getD [])

/-- A link in service: every stub is a data-preserving toxic (or a noop) in an uninterrupted
state, no API call is working on the link, the sender has not ended its stream, the
receiver's socket works — and nothing has been lost so far. -/
structure LInv (l : Link) : Prop where
  stages   : ∀ s ∈ l.stages, SOK s
  noctl    : l.ctl = none
  attached : l.detached = false
  nocrash  : l.crash = none
  sinkOpen : l.destClosed = false
  nofail   : l.sinkFail = false
  srcOpen  : l.srcDone = false
  srcLive  : l.srcEOF = false
  content  : l.delivered ++ l.inflight = l.sent

theorem sourceMove_inv (l : Link) (now : Int) (l' : Link) (hi : LInv l) (h : l.sourceMove now = some l') : LInv l' := by
  unfold Link.sourceMove at h
  split at h
  · rename_i hc
    split at h
    · rename_i d q hq
      cases h
      have hsp : l.srcPend = none := by
        simp only [Bool.and_eq_true, Option.isNone_iff_eq_none] at hc; exact hc.1
      refine ⟨hi.stages, hi.noctl, hi.attached, hi.nocrash, hi.sinkOpen, hi.nofail, hi.srcOpen, hi.srcLive, ?_⟩
      have := hi.content
      simp only [Link.inflight, hsp, Option.map_none, Option.getD_none, List.append_nil] at this
      simp only [Link.inflight, Option.map_some, Option.getD_some]
      rw [← this]
      simp [List.append_assoc]
    · split at h
      · rename_i he; rw [hi.srcLive] at he; cases he
      · cases h
  · cases h

theorem ctlMove_none (l : Link) (chain : List TCfg) (now : Int) (hi : LInv l) : l.ctlMove chain now = none := by
  unfold Link.ctlMove
  rw [hi.noctl]

theorem ctlDrains_false (l : Link) (hi : LInv l) (i : Nat) : l.ctlDrains i = false := by
  unfold Link.ctlDrains
  rw [hi.noctl]

theorem offerTo_pos (l : Link) (hi : LInv l) (i : Nat) (hpos : i ≠ 0) :
    l.offerTo i = (l.stages[i - 1]?).bind (·.pc.offer) := by
  unfold Link.offerTo
  have : (i == 0) = false := by simpa using hpos
  simp only [this, Bool.false_eq_true, if_false, ctlDrains_false l hi]
  cases l.stages[i - 1]? <;> rfl

theorem ackUpstream_pos (l : Link) (hi : LInv l) (i : Nat) (hpos : i ≠ 0) (now : Int) :
    l.ackUpstream i now = { l with stages := modifyAt l.stages (i - 1) fun s => s.fire (.taken now) } := by
  unfold Link.ackUpstream
  have : (i == 0) = false := by simpa using hpos
  simp only [this, Bool.false_eq_true, if_false, ctlDrains_false l hi]

theorem sok_of_mem_mid {pre post : List Stage} {x : Stage} {l : Link} (hi : LInv l) (h : l.stages = pre ++ x :: post) :
    SOK x ∧ (∀ s ∈ pre, SOK s) ∧ (∀ s ∈ post, SOK s) := by
  refine ⟨hi.stages x (by rw [h]; simp), fun s hs => hi.stages s (by rw [h]; simp [hs]), fun s hs => hi.stages s (by rw [h]; simp [hs])⟩

theorem sinkMove_inv (l : Link) (now : Int) (l' : Link) (hi : LInv l) (h : l.sinkMove now = some l') : LInv l' := by
  unfold Link.sinkMove at h
  rw [if_neg (by simp [hi.sinkOpen])] at h
  cases hsp : l.sinkPend with
  | some d =>
    simp only [hsp] at h
    rw [if_neg (by simp [hi.nofail])] at h
    split at h
    · cases h
      refine ⟨hi.stages, hi.noctl, hi.attached, hi.nocrash, hi.sinkOpen, hi.nofail, hi.srcOpen, hi.srcLive, ?_⟩
      have := hi.content
      simp only [Link.inflight, hsp, Option.getD_some] at this
      simp only [Link.inflight, Option.getD_none, List.nil_append]
      rw [← this]; simp [List.append_assoc]
    · cases h
  | none =>
    simp only [hsp] at h
    have hw : l.wired = l.stages.length := by simp [Link.wired, hi.attached]
    rw [hw] at h
    by_cases hz : (l.stages.length == 0) = true
    · simp [hz] at h
    · have hz' : l.stages.length ≠ 0 := by simpa using hz
      simp only [hz, Bool.false_eq_true, if_false] at h
      rw [offerTo_pos l hi _ hz'] at h
      cases hlast : l.stages[l.stages.length - 1]? with
      | none =>
        have : l.stages.length - 1 < l.stages.length := by omega
        rw [List.getElem?_eq_getElem this] at hlast; cases hlast
      | some a =>
        obtain ⟨pre, post, hss, hlen⟩ := split_one l.stages _ a hlast
        have hpost : post = [] := by
          have := congrArg List.length hss
          simp at this
          cases post with
          | nil => rfl
          | cons y ys => simp at this; omega
        subst hpost
        obtain ⟨hsa, hpre, _⟩ := sok_of_mem_mid hi hss
        simp only [hlast, Option.bind_some] at h
        cases hoff : a.pc.offer with
        | none =>
          simp only [hoff] at h
          have : l.inputClosed l.stages.length = false := by
            unfold Link.inputClosed
            simp only [hz, Bool.false_eq_true, if_false, hlast, hsa.open_]
          simp [this] at h
        | some c =>
          simp only [hoff] at h
          cases h
          obtain ⟨hs', hheld, hinq⟩ := fire_taken a hsa c now hoff
          have hab := bytes_taken a _ c hheld hinq
          rw [ackUpstream_pos l hi _ hz']
          have hmod : modifyAt l.stages (l.stages.length - 1) (fun s => s.fire (.taken now)) = pre ++ [a.fire (.taken now)] := by
            rw [hss, show (pre ++ [a]).length - 1 = pre.length by simp]
            exact modifyAt_mid pre [] a _
          refine ⟨?_, hi.noctl, hi.attached, hi.nocrash, hi.sinkOpen, hi.nofail, hi.srcOpen, hi.srcLive, ?_⟩
          · intro s hs
            simp only [hmod, List.mem_append, List.mem_singleton] at hs
            rcases hs with hs | hs
            · exact hpre s hs
            · subst hs; exact hs'
          · have hc := hi.content
            simp only [Link.inflight, hsp, Option.getD_none, List.nil_append] at hc
            rw [hss, chainBytes_append, chainBytes_cons, chainBytes_nil, List.nil_append, hab] at hc
            simp only [Link.inflight, hmod]
            rw [chainBytes_append, chainBytes_cons, chainBytes_nil, List.nil_append, ← hc]
            by_cases he : c.data.isEmpty = true
            · have : c.data = [] := by simpa using he
              simp [he, this, List.append_assoc]
            · simp [he, List.append_assoc]

/-- A hand-off into stage `i` (rendezvous or into its buffer): where the chunk comes from and
what the stage list looks like afterwards, `g` being what happens to stage `i` itself. -/
theorem handoff_shape (l : Link) (hi : LInv l) (i : Nat) (now : Int) (s : Stage) (hs : l.stages[i]? = some s)
    (c : Chunk) (hoff : l.offerTo i = some c) (g : Stage → Stage) :
    (i = 0 ∧ ∃ post, l.stages = s :: post ∧ l.srcPend = some c ∧
        l.ackUpstream i now = { l with srcPend := none } ∧
        modifyAt (l.ackUpstream i now).stages i g = g s :: post) ∨
    (∃ pre a post, l.stages = pre ++ a :: s :: post ∧ a.pc.offer = some c ∧
        l.ackUpstream i now = { l with stages := pre ++ a.fire (.taken now) :: s :: post } ∧
        modifyAt (l.ackUpstream i now).stages i g = pre ++ a.fire (.taken now) :: g s :: post) := by
  by_cases h0 : i = 0
  · left
    subst h0
    obtain ⟨pre, post, hss, hlen⟩ := split_one l.stages 0 s hs
    have hpre : pre = [] := List.eq_nil_of_length_eq_zero hlen
    subst hpre
    simp only [List.nil_append] at hss
    have hsp : l.srcPend = some c := by simpa [Link.offerTo] using hoff
    have hack : l.ackUpstream 0 now = { l with srcPend := none } := by simp [Link.ackUpstream]
    refine ⟨rfl, post, hss, hsp, hack, ?_⟩
    rw [hack]
    simp only
    rw [hss]
    exact modifyAt_mid [] post s g
  · right
    rw [offerTo_pos l hi i h0] at hoff
    cases ha : l.stages[i - 1]? with
    | none => simp [ha] at hoff
    | some a =>
      simp only [ha, Option.bind_some] at hoff
      have hs' : l.stages[i - 1 + 1]? = some s := by
        have : i - 1 + 1 = i := by omega
        rw [this]; exact hs
      obtain ⟨pre, post, hss, hlen⟩ := split_two l.stages (i - 1) a s ha hs'
      have hack : l.ackUpstream i now = { l with stages := pre ++ a.fire (.taken now) :: s :: post } := by
        rw [ackUpstream_pos l hi i h0, hss, ← hlen]
        congr 1
        exact modifyAt_mid pre (s :: post) a _
      refine ⟨pre, a, post, hss, hoff, hack, ?_⟩
      rw [hack]
      simp only
      have hi' : i = (pre ++ [a.fire (.taken now)]).length := by simp; omega
      have : pre ++ a.fire (.taken now) :: s :: post = (pre ++ [a.fire (.taken now)]) ++ s :: post := by simp
      rw [this, hi', modifyAt_mid]
      simp

theorem handoff_inv (l : Link) (hi : LInv l) (i : Nat) (now : Int) (s : Stage) (hs : l.stages[i]? = some s)
    (c : Chunk) (hoff : l.offerTo i = some c) (g : Stage → Stage)
    (hg : SOK (g s)) (hb : (g s).bytes = s.bytes ++ c.data) :
    LInv { (l.ackUpstream i now) with stages := modifyAt (l.ackUpstream i now).stages i g } := by
  rcases handoff_shape l hi i now s hs c hoff g with ⟨_, post, hss, hsp, hack, hmod⟩ | ⟨pre, a, post, hss, hao, hack, hmod⟩
  · rw [hmod, hack]
    refine ⟨?_, hi.noctl, hi.attached, hi.nocrash, hi.sinkOpen, hi.nofail, hi.srcOpen, hi.srcLive, ?_⟩
    · intro x hx
      simp only [List.mem_cons] at hx
      rcases hx with hx | hx
      · subst hx; exact hg
      · exact hi.stages x (by rw [hss]; simp [hx])
    · have hc := hi.content
      simp only [Link.inflight, hsp, Option.map_some, Option.getD_some] at hc
      rw [hss, chainBytes_cons] at hc
      simp only [Link.inflight, Option.map_none, Option.getD_none, List.append_nil]
      rw [chainBytes_cons, hb, ← hc]
      simp [List.append_assoc]
  · rw [hmod, hack]
    obtain ⟨hsa, _, _⟩ := sok_of_mem_mid hi hss
    obtain ⟨hsa', hheld, hinq⟩ := fire_taken a hsa c now hao
    have hab := bytes_taken a _ c hheld hinq
    refine ⟨?_, hi.noctl, hi.attached, hi.nocrash, hi.sinkOpen, hi.nofail, hi.srcOpen, hi.srcLive, ?_⟩
    · intro x hx
      simp only [List.mem_append, List.mem_cons] at hx
      rcases hx with hx | hx | hx | hx
      · exact hi.stages x (by rw [hss]; simp [hx])
      · subst hx; exact hsa'
      · subst hx; exact hg
      · exact hi.stages x (by rw [hss]; simp [hx])
    · have hc := hi.content
      simp only [Link.inflight] at hc
      rw [hss, chainBytes_append, chainBytes_cons, chainBytes_cons, hab] at hc
      simp only [Link.inflight]
      rw [chainBytes_append, chainBytes_cons, chainBytes_cons, hb, ← hc]
      simp [List.append_assoc]

theorem LInv_race (l : Link) (r : Bool) (hi : LInv l) : LInv { l with race := r } :=
  ⟨hi.stages, hi.noctl, hi.attached, hi.nocrash, hi.sinkOpen, hi.nofail, hi.srcOpen, hi.srcLive, hi.content⟩

theorem bufferMove_inv (l : Link) (i : Nat) (now : Int) (l' : Link) (hi : LInv l) (h : l.bufferMove i now = some l') : LInv l' := by
  unfold Link.bufferMove at h
  cases hs : l.stages[i]? with
  | none => simp [hs] at h
  | some s =>
    simp only [hs] at h
    split at h
    · cases hoff : l.offerTo i with
      | none => simp [hoff] at h
      | some c =>
        simp only [hoff, Option.some.injEq] at h
        subst h
        have hsok := hi.stages s (List.mem_of_getElem? hs)
        exact handoff_inv l hi i now s hs c hoff _ ⟨hsok.safe, hsok.wf, hsok.quiet, hsok.intr, hsok.open_⟩
          (by simp [Stage.bytes, List.append_assoc])
    · cases h

theorem modify_one_inv (l : Link) (hi : LInv l) (i : Nat) (s : Stage) (hs : l.stages[i]? = some s) (g : Stage → Stage)
    (hg : SOK (g s)) (hb : (g s).bytes = s.bytes) (r : Bool) :
    LInv { l with race := r, stages := modifyAt l.stages i g } := by
  obtain ⟨pre, post, hss, hlen⟩ := split_one l.stages i s hs
  have hmod : modifyAt l.stages i g = pre ++ g s :: post := by
    rw [hss, ← hlen]; exact modifyAt_mid pre post s g
  refine ⟨?_, hi.noctl, hi.attached, hi.nocrash, hi.sinkOpen, hi.nofail, hi.srcOpen, hi.srcLive, ?_⟩
  · intro x hx
    simp only [hmod, List.mem_append, List.mem_cons] at hx
    rcases hx with hx | hx | hx
    · exact hi.stages x (by rw [hss]; simp [hx])
    · subst hx; exact hg
    · exact hi.stages x (by rw [hss]; simp [hx])
  · have hc := hi.content
    simp only [Link.inflight] at hc ⊢
    rw [hss, chainBytes_append, chainBytes_cons] at hc
    rw [hmod, chainBytes_append, chainBytes_cons, hb]
    exact hc

theorem inputClosed_false (l : Link) (hi : LInv l) (i : Nat) (s : Stage) (hs : l.stages[i]? = some s) :
    l.inputClosed i = false := by
  unfold Link.inputClosed
  by_cases h0 : (i == 0) = true
  · simp [h0, hi.srcOpen]
  · simp only [h0, Bool.false_eq_true, if_false]
    cases ha : l.stages[i - 1]? with
    | none => rfl
    | some a => exact (hi.stages a (List.mem_of_getElem? ha)).open_

/-- The receiving part of a stage's move. -/
def recvPart (l : Link) (i : Nat) (s : Stage) (now : Int) : Option Link :=
  if s.pc.wantsInput && !(l.detached && i + 1 == l.stages.length) then
    match l.inputOf i with
    | some (c, src) =>
      some { (l.consume i src c.isSome now) with
        stages := modifyAt (l.consume i src c.isSome now).stages i fun s => s.fire (.input c now drawsConst) }
    | none => none
  else none

def duePart (s : Stage) (now : Int) : Bool :=
  match s.pc.timer with
  | some d => decide (d ≤ now)
  | none => false

theorem stageMove_quiet (l : Link) (i : Nat) (now : Int) (busy : Bool) (s : Stage) (hs : l.stages[i]? = some s) (hsok : SOK s) :
    ∃ r, l.stageMove i now busy =
      if duePart s now then some { l with race := r, stages := modifyAt l.stages i fun s => s.fire (.timer now) }
      else recvPart l i s now := by
  have hip : (s.intr == IntrSt.pending) = false := by rw [hsok.intr]; decide
  have hiw : (s.intr == IntrSt.waitRet) = false := by rw [hsok.intr]; decide
  have hcl : s.st.closed = false := hsok.open_
  have hq := hsok.quiet
  refine ⟨l.race || busy || (s.intr == .pending && s.pc.interruptible) ||
      (s.pc.wantsInput && (l.inputOf i).isSome), ?_⟩
  unfold Link.stageMove
  simp only [hs]
  cases hpc : s.pc <;> rw [hpc] at hq <;> simp [Quiet] at hq <;>
    simp only [hip, hiw, hcl, Bool.false_and, Bool.false_eq_true, if_false, Bool.and_false, duePart, recvPart, hpc] <;> rfl

theorem recvPart_inv (l : Link) (i : Nat) (now : Int) (s : Stage) (hs : l.stages[i]? = some s) (l' : Link) (hi : LInv l)
    (h : recvPart l i s now = some l') : LInv l' := by
  have hsok := hi.stages s (List.mem_of_getElem? hs)
  unfold recvPart at h
  by_cases hwant : (s.pc.wantsInput && !(l.detached && i + 1 == l.stages.length)) = true
  · rw [if_pos hwant] at h
    have hw : s.pc.wantsInput = true := by
      simp only [Bool.and_eq_true] at hwant; exact hwant.1
    cases hio : l.inputOf i with
    | none => simp [hio] at h
    | some r =>
      obtain ⟨oc, src⟩ := r
      simp only [hio, Option.some.injEq] at h
      unfold Link.inputOf at hio
      simp only [hs] at hio
      cases hq : s.inq with
      | cons c rest =>
        simp only [hq, Option.some.injEq, Prod.mk.injEq] at hio
        obtain ⟨rfl, rfl⟩ := hio
        subst h
        -- from its buffer
        simp only [Link.consume, Option.isSome_some, Bool.not_true, Bool.false_eq_true, if_false]
        obtain ⟨pre, post, hss, hlen⟩ := split_one l.stages i s hs
        have hm1 : modifyAt l.stages i (fun s => { s with inq := s.inq.drop 1 }) = pre ++ { s with inq := s.inq.drop 1 } :: post := by
          rw [hss, ← hlen]; exact modifyAt_mid pre post s _
        have hs1 : SOK { s with inq := s.inq.drop 1 } := ⟨hsok.safe, hsok.wf, hsok.quiet, hsok.intr, hsok.open_⟩
        obtain ⟨hs2, hheld, hinq, hh0⟩ := fire_input { s with inq := s.inq.drop 1 } hs1 c now drawsConst hw
        have hm2 : modifyAt (pre ++ { s with inq := s.inq.drop 1 } :: post) i (fun s => s.fire (.input (some c) now drawsConst)) =
            pre ++ ({ s with inq := s.inq.drop 1 } : Stage).fire (.input (some c) now drawsConst) :: post := by
          rw [← hlen]; exact modifyAt_mid pre post _ _
        simp only [hm1, hm2]
        refine ⟨?_, hi.noctl, hi.attached, hi.nocrash, hi.sinkOpen, hi.nofail, hi.srcOpen, hi.srcLive, ?_⟩
        · intro x hx
          simp only [List.mem_append, List.mem_cons] at hx
          rcases hx with hx | hx | hx
          · exact hi.stages x (by rw [hss]; simp [hx])
          · subst hx; exact hs2
          · exact hi.stages x (by rw [hss]; simp [hx])
        · have hc := hi.content
          simp only [Link.inflight] at hc ⊢
          rw [hss, chainBytes_append, chainBytes_cons] at hc
          rw [chainBytes_append, chainBytes_cons, ← hc]
          have : (({ s with inq := s.inq.drop 1 } : Stage).fire (.input (some c) now drawsConst)).bytes = s.bytes := by
            simp only [Stage.bytes, hheld, hinq]
            simp only at hh0
            rw [hh0, hq]
            simp
          rw [this]
      | nil =>
        simp only [hq] at hio
        cases hoff : l.offerTo i with
        | some c =>
          simp only [hoff, Option.some.injEq, Prod.mk.injEq] at hio
          obtain ⟨rfl, rfl⟩ := hio
          subst h
          simp only [Link.consume, Option.isSome_some, Bool.not_true, Bool.false_eq_true, if_false]
          obtain ⟨hs2, hheld, hinq, hh0⟩ := fire_input s hsok c now drawsConst hw
          exact handoff_inv l hi i now s hs c hoff _ hs2
            (by simp [Stage.bytes, hheld, hinq, hh0, hq])
        | none =>
          simp only [hoff, inputClosed_false l hi i s hs, Bool.false_eq_true, if_false] at hio
          cases hio
  · rw [if_neg hwant] at h
    cases h

theorem stageMove_inv (l : Link) (i : Nat) (now : Int) (busy : Bool) (l' : Link) (hi : LInv l)
    (h : l.stageMove i now busy = some l') : LInv l' := by
  cases hs : l.stages[i]? with
  | none => simp [Link.stageMove, hs] at h
  | some s =>
    have hsok := hi.stages s (List.mem_of_getElem? hs)
    obtain ⟨r, hq⟩ := stageMove_quiet l i now busy s hs hsok
    rw [hq] at h
    by_cases hdue : duePart s now = true
    · rw [if_pos hdue] at h
      cases h
      unfold duePart at hdue
      cases ht : s.pc.timer with
      | none => simp [ht] at hdue
      | some d =>
        obtain ⟨hs', hheld, hinq⟩ := fire_timer s hsok d now ht
        exact modify_one_inv l hi i s hs _ hs' (by simp [Stage.bytes, hheld, hinq]) _
    · rw [if_neg hdue] at h
      exact recvPart_inv l i now s hs l' hi h

theorem firstSome_some {α : Type} (fs : List (Unit → Option α)) (a : α) (h : firstSome fs = some a) :
    ∃ f ∈ fs, f () = some a := by
  induction fs with
  | nil => simp [firstSome] at h
  | cons f fs ih =>
    simp only [firstSome] at h
    cases hf : f () with
    | some b => rw [hf] at h; cases h; exact ⟨f, by simp, hf⟩
    | none =>
      rw [hf] at h
      obtain ⟨g, hg, hga⟩ := ih h
      exact ⟨g, by simp [hg], hga⟩

/-- **C01 (whole-pipeline conservation).** Every internal move of a link in service keeps it in
service with `delivered ++ in-flight = read`: whichever goroutine moves — the source, a
channel buffer, a stub (receiving, waking up, handing on), the sink — no byte is lost,
duplicated, reordered or altered, for every chain of data-preserving toxics with any attribute
values, any toxicity outcomes, any chunking and any timing. -/
theorem C01_move_conserves (l : Link) (chain : List TCfg) (now : Int) (busy : Bool) (l' : Link) (hi : LInv l)
    (h : l.move chain now busy = some l') : LInv l' := by
  unfold Link.move at h
  rw [if_neg (by simp [hi.nocrash])] at h
  obtain ⟨f, hf, hfa⟩ := firstSome_some _ l' h
  simp only [List.mem_append, List.mem_cons, List.mem_flatMap, List.mem_reverse, List.mem_range,
    List.not_mem_nil, or_false] at hf
  rcases hf with (hf | hf) | hf
  · rcases hf with rfl | rfl
    · rw [ctlMove_none l chain now hi] at hfa; cases hfa
    · exact sinkMove_inv l now l' hi hfa
  · obtain ⟨i, _, hf⟩ := hf
    rcases hf with rfl | rfl
    · exact stageMove_inv l i now busy l' hi hfa
    · exact bufferMove_inv l i now l' hi hfa
  · subst hf
    exact sourceMove_inv l now l' hi hfa

/-! #### The other choices of a `select`

`Link.stageMove` and `Link.ctlMove` resolve a Go `select` with several ready cases in one fixed
way (timer, then interrupt, then input; `stop`, then input).  Go chooses at random: the
alternatives below are the other choices. -/

/-- The `select` of stub `i` picks `Input`, whatever else is ready (a due timer, a pending
interrupt). -/
def Link.recvAlt (l : Link) (i : Nat) (now : Int) : Option Link :=
  match l.stages[i]? with
  | some s => recvPart l i s now
  | none => none

/-- The `select` of stub `i` picks `Interrupt`, whatever else is ready. -/
def Link.intrAlt (l : Link) (i : Nat) (now : Int) : Option Link :=
  match l.stages[i]? with
  | some s =>
    if s.intr == .pending && s.pc.interruptible then
      some { l with stages := modifyAt l.stages i fun s => { (s.fire (.interrupt now)) with intr := .waitRet } }
    else none
  | none => none

/-- `RemoveToxic`'s loop picks the removed stub's `Input` although the helper's `stop` is ready
too. -/
def Link.ctlTakeAlt (l : Link) (now : Int) : Option Link :=
  match l.ctl with
  | some (.rmLoop idx none _ sg) =>
    (match l.inputOf idx with
     | some (some c, src) =>
       some { (l.consume idx src true now) with ctl := some (.rmLoop idx (some c) (now + 5000 * ms) sg) }
     | _ => none)
  | _ => none

/-- The move of *some* goroutine of the link — whichever the scheduler picks, and whichever ready
case a `select` picks: any enabled alternative of `Link.move` (which itself tries them in one
fixed order), or one of the other choices of a `select`. -/
def Link.AnyMove (l : Link) (chain : List TCfg) (now : Int) (busy : Bool) (l' : Link) : Prop :=
  l.crash = none ∧
  (l.ctlMove chain now = some l' ∨ l.sinkMove now = some l' ∨ (∃ i, l.stageMove i now busy = some l') ∨
   (∃ i, l.bufferMove i now = some l') ∨ l.sourceMove now = some l' ∨
   (∃ i, l.recvAlt i now = some l') ∨ (∃ i, l.intrAlt i now = some l') ∨ l.ctlTakeAlt now = some l')

theorem anyMove_of_move (l : Link) (chain : List TCfg) (now : Int) (busy : Bool) (l' : Link)
    (h : l.move chain now busy = some l') : l.AnyMove chain now busy l' := by
  unfold Link.move at h
  split at h
  · cases h
  · rename_i hc
    refine ⟨by simpa using hc, ?_⟩
    obtain ⟨f, hf, hfa⟩ := firstSome_some _ l' h
    simp only [List.mem_append, List.mem_cons, List.mem_flatMap, List.mem_reverse, List.mem_range,
      List.not_mem_nil, or_false] at hf
    rcases hf with (hf | hf) | hf
    · rcases hf with rfl | rfl
      · exact Or.inl hfa
      · exact Or.inr (Or.inl hfa)
    · obtain ⟨i, _, hf⟩ := hf
      rcases hf with rfl | rfl
      · exact Or.inr (Or.inr (Or.inl ⟨i, hfa⟩))
      · exact Or.inr (Or.inr (Or.inr (Or.inl ⟨i, hfa⟩)))
    · subst hf
      exact Or.inr (Or.inr (Or.inr (Or.inr (Or.inl hfa))))

theorem intrAlt_none (l : Link) (i : Nat) (now : Int) (h : ∀ s, l.stages[i]? = some s → s.intr = .none) :
    l.intrAlt i now = none := by
  unfold Link.intrAlt
  cases hs : l.stages[i]? with
  | none => rfl
  | some s =>
    have : (s.intr == IntrSt.pending) = false := by rw [h s hs]; decide
    simp [this]

theorem ctlTakeAlt_none (l : Link) (now : Int) (h : l.ctl = none) : l.ctlTakeAlt now = none := by
  unfold Link.ctlTakeAlt; rw [h]

/-- **C01, every schedule.**  Whichever goroutine of a link in service moves, the link stays in
service with `delivered ++ in-flight = read`. -/
theorem C01_anymove_conserves (l : Link) (chain : List TCfg) (now : Int) (busy : Bool) (l' : Link) (hi : LInv l)
    (h : l.AnyMove chain now busy l') : LInv l' := by
  rcases h.2 with h' | h' | ⟨i, h'⟩ | ⟨i, h'⟩ | h' | ⟨i, h'⟩ | ⟨i, h'⟩ | h'
  · rw [ctlMove_none l chain now hi] at h'; cases h'
  · exact sinkMove_inv l now l' hi h'
  · exact stageMove_inv l i now busy l' hi h'
  · exact bufferMove_inv l i now l' hi h'
  · exact sourceMove_inv l now l' hi h'
  · unfold Link.recvAlt at h'
    cases hs : l.stages[i]? with
    | none => rw [hs] at h'; cases h'
    | some s => rw [hs] at h'; exact recvPart_inv l i now s hs l' hi h'
  · rw [intrAlt_none l i now (fun s hs => (hi.stages s (List.mem_of_getElem? hs)).intr)] at h'; cases h'
  · rw [ctlTakeAlt_none l now hi.noctl] at h'; cases h'

/-- … hence along every run of the link to quiescence. -/
theorem C01_settle_conserves (chain : List TCfg) (now : Int) :
    ∀ (n : Nat) (l : Link), LInv l →
      (Link.settle chain now n l).crash = none → LInv (Link.settle chain now n l) := by
  intro n
  induction n with
  | zero => intro l _ hc; simp [Link.settle] at hc
  | succ n ih =>
    intro l hi hc
    simp only [Link.settle] at hc ⊢
    cases hm : l.move chain now with
    | none => simp only [hm] at hc ⊢; exact hi
    | some l' =>
      simp only [hm] at hc ⊢
      exact ih l' (C01_move_conserves l chain now false l' hi hm) hc

/-- What the peer has received is a prefix of what the other peer sent, and everything else
is still in the pipeline. -/
theorem C01_prefix (l : Link) (hi : LInv l) : l.delivered <+: l.sent :=
  ⟨l.inflight, hi.content⟩

/-- A freshly started link (`NewToxicLink` + `Start`) over a chain of data-preserving toxics
is in service. -/
theorem LInv_new (chain : List TCfg) (now : Int) (hsafe : ∀ t ∈ chain, Safe (effective t.cfg t.active)) :
    LInv (Link.new chain now) := by
  refine ⟨?_, rfl, rfl, rfl, rfl, rfl, rfl, rfl, ?_⟩
  · intro s hs
    simp only [Link.new, List.mem_map] at hs
    obtain ⟨t, ht, rfl⟩ := hs
    have hsf := hsafe t ht
    rw [Stage.fresh_start]
    refine ⟨by simpa [eff, Stage.fresh] using hsf, ?_, ?_, by simp [Stage.fresh], by simp [Stage.fresh]⟩
    · simpa [eff, Stage.fresh] using start_wf t.cfg t.active now
    · -- a data-preserving toxic starts at `idle`
      simp only [Toxi.Toxic.start]
      cases ha : t.active
      · simp [Quiet]
      · cases hc : t.cfg <;> simp [Quiet]
        rw [ha, hc] at hsf
        simp [effective, Safe] at hsf
  · simp only [Link.new, Link.inflight, Option.getD_none, Option.map_none, List.nil_append, List.append_nil]
    suffices h : ∀ ss : List TCfg, chainBytes (ss.map fun t => (Stage.fresh t).start t now) = [] by
      rw [h]
    intro ss
    induction ss with
    | nil => simp
    | cons t ss ih =>
      simp only [List.map_cons, chainBytes_cons, ih, List.nil_append]
      have hh : (Toxi.Toxic.start t.cfg t.active now).held = [] := by
        unfold Toxi.Toxic.start
        cases t.active
        · rfl
        · cases t.cfg <;> try rfl
          simp only [Bool.not_true, Bool.false_eq_true, if_false]
          split <;> rfl
      simp only [Stage.fresh_start]
      simp [Stage.bytes, Stage.fresh, hh]

end Toxi.Link

namespace Toxi.Link
open Toxi.Toxic

/-- Non-vacuity: a link over noop → latency(5±2 ms) → slicer(3±1, 10 µs) → bandwidth(1 KB/s),
the latency excluded by the toxicity draw, is in service when it starts. -/
example : LInv (Link.new [TCfg.noop, ⟨"l", .latency 5 2, false, 1024, false⟩, ⟨"s", .slicer 3 1 10, true, 0, false⟩,
    ⟨"b", .bandwidth 1, true, 0, false⟩] 0) := by
  apply LInv_new
  intro t ht
  simp only [List.mem_cons, List.not_mem_nil, or_false] at ht
  rcases ht with rfl | rfl | rfl | rfl <;> simp [effective, Safe, TCfg.noop]

end Toxi.Link
