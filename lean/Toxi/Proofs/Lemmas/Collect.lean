import Toxi.Proofs.Lemmas.Order
/-!
From one link to the collection (C01/C02 "1..k simultaneous connections, both directions"): a
`ToxicCollection` with any number of links, live and winding down, in both directions — every
move of any goroutine of any link, every step of an API call across the links of a direction
(add, update, remove, the removals of a reset one after the other), links being retired — keeps
the ordering invariant of `Order.lean` on *every* link: on every connection, in both directions,
what the receiving peer has got is an in-order part of what the sending peer's socket yielded.
-/
namespace Toxi.Link
open Toxi.Toxic Toxi.Stream
open List

/-- A move of a link on which no API call works leaves it that way. -/
theorem move_keeps_noctl (l : Link) (chain : List TCfg) (now : Int) (busy : Bool) (l' : Link) (hc : l.ctl = none)
    (h : l.move chain now busy = some l') : l'.ctl = none := by
  unfold Link.move at h
  split at h
  · cases h
  · obtain ⟨f, hf, hfa⟩ := firstSome_some _ l' h
    simp only [List.mem_append, List.mem_cons, List.mem_flatMap, List.mem_reverse, List.mem_range,
      List.not_mem_nil, or_false] at hf
    have hsame : ∀ {x : Link}, Same l x → x.ctl = none := by
      intro x hx
      rcases hx.2 with h' | h' <;> rw [h', hc] <;> rfl
    rcases hf with (hf | hf) | hf
    · rcases hf with rfl | rfl
      · rw [ctlMove_none' l chain now hc] at hfa; cases hfa
      · exact hsame (same_sinkMove l now l' hfa)
    · obtain ⟨i, _, hf⟩ := hf
      rcases hf with rfl | rfl
      · rcases same_stageMove l i now busy l' hfa with h' | h'
        · exact hsame h'
        · rw [h'.2]; exact hc
      · exact hsame (same_bufferMove l i now l' hfa)
    · subst hf
      exact hsame (same_sourceMove l now l' hfa)


theorem anymove_keeps_noctl (l : Link) (chain : List TCfg) (now : Int) (busy : Bool) (l' : Link) (hc : l.ctl = none)
    (h : l.AnyMove chain now busy l') : l'.ctl = none := by
  have hsame : ∀ {x : Link}, Same l x → x.ctl = none := by
    intro x hx
    rcases hx.2 with h' | h' <;> rw [h', hc] <;> rfl
  rcases h.2 with h' | h' | ⟨i, h'⟩ | ⟨i, h'⟩ | h' | ⟨i, h'⟩ | ⟨i, h'⟩ | h'
  · rw [ctlMove_none' l chain now hc] at h'; cases h'
  · exact hsame (same_sinkMove l now l' h')
  · rcases same_stageMove l i now busy l' h' with h'' | h''
    · exact hsame h''
    · rw [h''.2]; exact hc
  · exact hsame (same_bufferMove l i now l' h')
  · exact hsame (same_sourceMove l now l' h')
  · exact hsame (same_recvAlt l i now l' h')
  · exact hsame (same_intrAlt l i now l' h')
  · rw [ctlTakeAlt_none l now hc] at h'; cases h'

/-- The invariant of a collection: the ordering invariant on every link, live or winding down, and
no API call in progress on any live link unless the collection is busy with one. -/
structure CInv (c : Coll) : Prop where
  links : ∀ nl ∈ c.links, OInv nl.l
  dead  : ∀ nl ∈ c.dead, OInv nl.l
  idle  : c.busy = false → ∀ nl ∈ c.links, nl.l.ctl = none

theorem linkMove_spec (c : Coll) (busy : Bool) : ∀ (ls ls' : List NLink),
    Coll.linkMove { c with busy := busy } ls = some ls' →
    (∀ nl ∈ ls, OInv nl.l) → (∀ nl ∈ ls', OInv nl.l) ∧
    ((∀ nl ∈ ls, nl.l.ctl = none) → ∀ nl ∈ ls', nl.l.ctl = none) := by
  intro ls
  induction ls with
  | nil => intro ls' h; simp [Coll.linkMove] at h
  | cons nl rest ih =>
    intro ls' h hall
    simp only [Coll.linkMove] at h
    cases hm : nl.l.move (Coll.chain { c with busy := busy } nl.dir) c.now busy with
    | some l' =>
      simp only [hm, Option.some.injEq] at h
      subst h
      have ho : OInv l' := O_move nl.l _ c.now busy l' (hall nl (by simp)) hm
      constructor
      · intro x hx
        rcases List.mem_cons.mp hx with rfl | hx
        · exact ho
        · exact hall x (by simp [hx])
      · intro hnc x hx
        rcases List.mem_cons.mp hx with rfl | hx
        · exact move_keeps_noctl nl.l _ c.now busy l' (hnc nl (by simp)) hm
        · exact hnc x (by simp [hx])
    | none =>
      simp only [hm] at h
      cases hr : Coll.linkMove { c with busy := busy } rest with
      | none => simp [hr] at h
      | some rs =>
        simp only [hr, Option.map_some, Option.some.injEq] at h
        subst h
        obtain ⟨h1, h2⟩ := ih rs hr (fun x hx => hall x (by simp [hx]))
        constructor
        · intro x hx
          rcases List.mem_cons.mp hx with rfl | hx
          · exact hall _ (by simp)
          · exact h1 x hx
        · intro hnc x hx
          rcases List.mem_cons.mp hx with rfl | hx
          · exact hnc _ (by simp)
          · exact h2 (fun y hy => hnc y (by simp [hy])) x hx

theorem mapLinks_mem (c : Coll) (d : Dir) (f : Link → Link) (x : NLink) (hx : x ∈ (mapLinks c d f).links) :
    ∃ nl ∈ c.links, x = (if nl.dir == d then { nl with l := f nl.l } else nl) := by
  simp only [mapLinks, List.mem_map] at hx
  obtain ⟨nl, hnl, rfl⟩ := hx
  exact ⟨nl, hnl, rfl⟩

/-- An API call starts on every live link of its direction (the collection is not busy). -/
theorem cinv_begin (c : Coll) (hi : CInv c) (hnc : ∀ nl ∈ c.links, nl.l.ctl = none) (d : Dir) (ch : List TCfg) (f : Link → Link)
    (hf : ∀ l, OInv l → l.ctl = none → OInv (f l)) :
    CInv { (mapLinks (c.setChain d ch) d f) with busy := true } := by
  have hlinks : (c.setChain d ch).links = c.links := by cases d <;> rfl
  have hdead : (c.setChain d ch).dead = c.dead := by cases d <;> rfl
  refine ⟨?_, ?_, fun h => by cases h⟩
  · intro x hx
    obtain ⟨nl, hnl, rfl⟩ := mapLinks_mem _ d f x hx
    rw [hlinks] at hnl
    split
    · exact hf nl.l (hi.links nl hnl) (hnc nl hnl)
    · exact hi.links nl hnl
  · intro x hx
    have : x ∈ c.dead := by
      simp only [mapLinks] at hx
      rw [hdead] at hx; exact hx
    exact hi.dead x this

theorem cinv_addToxic (c : Coll) (hi : CInv c) (hb : c.busy = false) (d : Dir) (t : TCfg) : CInv (c.addToxic d t) :=
  cinv_begin c hi (hi.idle hb) d _ _ (fun l ho hc => o_beginAdd l ho hc t)

theorem cinv_updateToxic (c : Coll) (hi : CInv c) (hb : c.busy = false) (d : Dir) (idx : Nat) (t : TCfg) :
    CInv (c.updateToxic d idx t) :=
  cinv_begin c hi (hi.idle hb) d _ _ (fun l ho hc => o_beginUpdate l ho hc idx t)

theorem cinv_removeToxic (c : Coll) (hi : CInv c) (hnc : ∀ nl ∈ c.links, nl.l.ctl = none) (d : Dir) (idx : Nat) :
    CInv (c.removeToxic d idx) :=
  cinv_begin c hi hnc d _ _ (fun l ho hc => o_beginRemove l ho hc idx _)

/-- **Every move of a collection keeps the ordering invariant on every connection.** -/
theorem cinv_move (c c' : Coll) (hi : CInv c) (h : c.move = some c') : CInv c' := by
  unfold Coll.move at h
  split at h
  · cases h
  · split at h
    · cases h; exact ⟨hi.links, hi.dead, hi.idle⟩
    · split at h
      · rename_i ls hls
        cases h
        have hc : ({ c with busy := c.busy } : Coll) = c := rfl
        have := linkMove_spec c c.busy c.links ls (by rw [hc]; exact hls) hi.links
        exact ⟨this.1, hi.dead, fun hb => this.2 (hi.idle hb)⟩
      · split at h
        · rename_i ls hls
          cases h
          have := linkMove_spec c false c.dead ls hls hi.dead
          exact ⟨hi.links, this.1, hi.idle⟩
        · split at h
          · rename_i hcond
            have hall : ∀ nl ∈ c.links, nl.l.ctl = none := by
              simp only [Bool.and_eq_true, List.all_eq_true, Option.isNone_iff_eq_none] at hcond
              exact hcond.2
            split at h
            · split at h
              · cases h
                have := cinv_removeToxic c hi hall
                exact ⟨(this _ _).links, (this _ _).dead, (this _ _).idle⟩
              · cases h; exact ⟨hi.links, hi.dead, hi.idle⟩
            · cases h
              exact ⟨hi.links, hi.dead, fun _ => hall⟩
          · split at h
            · cases h
              refine ⟨fun nl hnl => hi.links nl (List.mem_filter.mp hnl).1, ?_, ?_⟩
              · intro nl hnl
                rcases List.mem_append.mp hnl with h' | h'
                · exact hi.dead nl h'
                · exact hi.links nl (List.mem_filter.mp h').1
              · intro hb nl hnl
                exact hi.idle hb nl (List.mem_filter.mp hnl).1
            · cases h

/-- A new connection: two links over the current chains. -/
theorem cinv_newLinks (c : Coll) (hi : CInv c) (n1 n2 : String) :
    CInv { c with links := c.links ++ [⟨n1, .up, Link.new c.up c.now⟩, ⟨n2, .down, Link.new c.down c.now⟩] } := by
  refine ⟨?_, hi.dead, ?_⟩
  · intro nl hnl
    rcases List.mem_append.mp hnl with h | h
    · exact hi.links nl h
    · simp only [List.mem_cons, List.not_mem_nil, or_false] at h
      rcases h with rfl | rfl <;> exact OInv_new _ _
  · intro hb nl hnl
    rcases List.mem_append.mp hnl with h | h
    · exact hi.idle hb nl h
    · simp only [List.mem_cons, List.not_mem_nil, or_false] at h
      rcases h with rfl | rfl <;> rfl

theorem cinv_empty : CInv {} :=
  ⟨fun _ h => (by cases h), fun _ h => (by cases h), fun _ _ h => (by cases h)⟩

/-- **C01/C02 at collection level.**  For every proxy's `ToxicCollection`, every number of
connections opened at any moments, every history of toxic add / update / remove / reset (each
API call starting when the previous one has finished on all links) and every schedule of all
the goroutines of all the links: on every connection and in both directions, what the
receiving peer has got is an in-order part of what the sending peer's socket has yielded. -/
theorem C02_collection (c : Coll) (hi : CInv c) : ∀ nl ∈ c.links ++ c.dead, nl.l.delivered <+ nl.l.sent := by
  intro nl hnl
  rcases List.mem_append.mp hnl with h | h
  · exact J_prefix_part _ (hi.links nl h).2
  · exact J_prefix_part _ (hi.dead nl h).2


/-- What the peers and the proxy do to the links from outside. -/
def envLink (f : NLink → List Bytes × Bool × Bool × Bool × Bool × Nat) (nl : NLink) : NLink :=
  let x := f nl
  { nl with l := { nl.l with srcQ := x.1, srcEOF := x.2.1, sinkReady := x.2.2.1, sinkFail := x.2.2.2.1,
                             srcCut := x.2.2.2.2.1, cutHi := x.2.2.2.2.2 } }

/-- The states a `ToxicCollection` can reach: any goroutine of any link moving (`live`, `winding`:
every schedule; `move`: the model's own deterministic scheduler incl. the collection's
bookkeeping steps), time passing, connections being
accepted, peers and the proxy acting on the sockets, toxic add / update / remove / reset each
starting when the collection is not busy with another. -/
inductive Reach : Coll → Prop
  | init : Reach {}
  | move {c : Coll} (c' : Coll) : Reach c → c.move = some c' → Reach c'
  | live {c : Coll} (pre post : List NLink) (nl : NLink) (l' : Link) : Reach c → c.links = pre ++ nl :: post →
      nl.l.AnyMove (c.chain nl.dir) c.now c.busy l' → Reach { c with links := pre ++ { nl with l := l' } :: post }
  | winding {c : Coll} (pre post : List NLink) (nl : NLink) (l' : Link) : Reach c → c.dead = pre ++ nl :: post →
      nl.l.AnyMove (c.chain nl.dir) c.now false l' → Reach { c with dead := pre ++ { nl with l := l' } :: post }
  | tick {c : Coll} (t : Int) : Reach c → Reach { c with now := t }
  | accept {c : Coll} (n1 n2 : String) : Reach c →
      Reach { c with links := c.links ++ [⟨n1, .up, Link.new c.up c.now⟩, ⟨n2, .down, Link.new c.down c.now⟩] }
  | env {c : Coll} (f : NLink → List Bytes × Bool × Bool × Bool × Bool × Nat) : Reach c →
      Reach { c with links := c.links.map (envLink f), dead := c.dead.map (envLink f) }
  | add {c : Coll} (d : Dir) (t : TCfg) : Reach c → c.busy = false → Reach (c.addToxic d t)
  | update {c : Coll} (d : Dir) (idx : Nat) (t : TCfg) : Reach c → c.busy = false → Reach (c.updateToxic d idx t)
  | remove {c : Coll} (d : Dir) (idx : Nat) : Reach c → c.busy = false → Reach (c.removeToxic d idx)
  | reset {c : Coll} (q : List ApiStep) : Reach c → c.busy = false → Reach { c with busy := true, queue := q }

theorem cinv_reach {c : Coll} (h : Reach c) : CInv c := by
  induction h with
  | init => exact cinv_empty
  | move c' _ hm ih => exact cinv_move _ c' ih hm
  | @live c pre post nl l' _ hl hm ih =>
    have hmem : nl ∈ c.links := by rw [hl]; simp
    refine ⟨?_, ih.dead, ?_⟩
    · intro x hx
      simp only [List.mem_append, List.mem_cons] at hx
      rcases hx with hx | rfl | hx
      · exact ih.links x (by rw [hl]; simp [hx])
      · exact O_anymove nl.l _ _ _ l' (ih.links nl hmem) hm
      · exact ih.links x (by rw [hl]; simp [hx])
    · intro hb x hx
      simp only [List.mem_append, List.mem_cons] at hx
      rcases hx with hx | rfl | hx
      · exact ih.idle hb x (by rw [hl]; simp [hx])
      · exact anymove_keeps_noctl nl.l _ _ _ l' (ih.idle hb nl hmem) hm
      · exact ih.idle hb x (by rw [hl]; simp [hx])
  | @winding c pre post nl l' _ hl hm ih =>
    have hmem : nl ∈ c.dead := by rw [hl]; simp
    refine ⟨ih.links, ?_, ih.idle⟩
    intro x hx
    simp only [List.mem_append, List.mem_cons] at hx
    rcases hx with hx | rfl | hx
    · exact ih.dead x (by rw [hl]; simp [hx])
    · exact O_anymove nl.l _ _ _ l' (ih.dead nl hmem) hm
    · exact ih.dead x (by rw [hl]; simp [hx])
  | tick t _ ih => exact ⟨ih.links, ih.dead, ih.idle⟩
  | accept n1 n2 _ ih => exact cinv_newLinks _ ih n1 n2
  | env f _ ih =>
    refine ⟨?_, ?_, ?_⟩
    · intro nl hnl
      simp only [List.mem_map] at hnl
      obtain ⟨x, hx, rfl⟩ := hnl
      exact OInv_env x.l (ih.links x hx) _ _ _ _ _ _ false
    · intro nl hnl
      simp only [List.mem_map] at hnl
      obtain ⟨x, hx, rfl⟩ := hnl
      exact OInv_env x.l (ih.dead x hx) _ _ _ _ _ _ false
    · intro hb nl hnl
      simp only [List.mem_map] at hnl
      obtain ⟨x, hx, rfl⟩ := hnl
      exact ih.idle hb x hx
  | add d t _ hb ih => exact cinv_addToxic _ ih hb d t
  | update d idx t _ hb ih => exact cinv_updateToxic _ ih hb d idx t
  | remove d idx _ hb ih => exact cinv_removeToxic _ ih (ih.idle hb) d idx
  | reset q _ hb ih => exact ⟨ih.links, ih.dead, fun h => by cases h⟩

/-- **C01/C02, whole collection.**  In every reachable state of a proxy's `ToxicCollection` — any
number of connections, any toxics, any history of add / update / remove / reset, any traffic,
endings and failures, any schedule — on every connection and in both directions what the
receiving peer has got is an in-order part of what the sending peer's socket has yielded. -/
theorem C02_reach {c : Coll} (h : Reach c) : ∀ nl ∈ c.links ++ c.dead, nl.l.delivered <+ nl.l.sent :=
  C02_collection c (cinv_reach h)

end Toxi.Link
