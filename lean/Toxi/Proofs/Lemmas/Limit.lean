import Toxi.Proofs.Lemmas.Blackhole
/-!
C11 at the level of a whole connection: a limit_data toxic lets at most its limit through.

`Proofs/C11.lean` is about the toxic's own coroutine.  Here the toxic sits at position `p` of a
chain of any other toxics, and the statement is about the link: along every execution of the
connection without toxic changes the receiver gets at most `max N 0` bytes — however the data is
chunked, whatever the other toxics do with it, whatever the peers do.  The invariant is a byte
count: what has been delivered plus everything that is on its way behind the limit_data stub
(stubs, buffers, the sink's pending write) is at most what the stub has counted as transmitted,
and that plus what it is about to hand over is at most the limit.
-/
namespace Toxi.Link
open Toxi.Toxic Toxi.Stream
open List

/-! ### The limit_data stub -/

/-- Program counters of a limit_data stub (no API call interrupts it). -/
def LimPc : Pc → Prop
  | .idle _ => True
  | .ret => True
  | .out c (.limitAfter n) => n = c.data.length
  | _ => False

/-- Counted so far plus what is being handed over stays within the limit. -/
structure LimOK (N : Int) (st : StubSt) (pc : Pc) : Prop where
  shape : LimPc pc
  nn    : 0 ≤ st.transmitted
  cap   : st.transmitted + pc.held.length ≤ max N 0

def _root_.Toxi.Toxic.Event.isTaken : Event → Bool
  | .taken _ => true
  | _ => false

theorem onChunk_lim (N : Int) (st : StubSt) (carry : Int) (c : Chunk) (now : Int) (draws : List Int)
    (hnn : 0 ≤ st.transmitted) (hcap : st.transmitted ≤ max N 0) :
    LimOK N (onChunk .fixed (.limitData N) st carry c now draws).1 (onChunk .fixed (.limitData N) st carry c now draws).2 ∧
    (onChunk .fixed (.limitData N) st carry c now draws).1.transmitted = st.transmitted := by
  unfold onChunk
  simp only
  by_cases hcut : max 0 (N - st.transmitted) < (c.data.length : Int)
  · simp only [hcut, ↓reduceIte]
    split
    · refine ⟨⟨rfl, hnn, ?_⟩, rfl⟩
      simp only [Pc.held, Next.held, List.append_nil, List.length_take]
      omega
    · split
      · exact ⟨⟨trivial, hnn, by simpa [Pc.held] using hcap⟩, rfl⟩
      · exact ⟨⟨trivial, hnn, by simpa [Pc.held] using hcap⟩, rfl⟩
  · simp only [hcut, ↓reduceIte]
    split
    · refine ⟨⟨rfl, hnn, ?_⟩, rfl⟩
      simp only [Pc.held, Next.held, List.append_nil]
      omega
    · split
      · exact ⟨⟨trivial, hnn, by simpa [Pc.held] using hcap⟩, rfl⟩
      · exact ⟨⟨trivial, hnn, by simpa [Pc.held] using hcap⟩, rfl⟩

theorem lim_step (cfg : Cfg) (active : Bool) (N : Int) (hc : effective cfg active = .limitData N)
    (st : StubSt) (pc : Pc) (ev : Event) (st' : StubSt) (pc' : Pc) (hok : LimOK N st pc)
    (hni : ∀ now, ev ≠ .interrupt now)
    (h : step .fixed cfg active st pc ev = some (st', pc')) :
    LimOK N st' pc' ∧
    st'.transmitted = st.transmitted + (if ev.isTaken then (pc.held.length : Int) else 0) := by
  rw [step_effective, hc] at h
  obtain ⟨hpc, hnn, hcap⟩ := hok
  cases pc with
  | idle carry =>
    have hcap0 : st.transmitted ≤ max N 0 := by simpa [Pc.held] using hcap
    cases ev with
    | interrupt now => exact absurd rfl (hni now)
    | timer now => simp [step] at h
    | taken now => simp [step] at h
    | input oc now draws =>
      cases oc with
      | none =>
        simp only [step, ↓reduceIte, Option.some.injEq, Prod.mk.injEq] at h
        obtain ⟨h1, h2⟩ := h
        subst h1; subst h2
        exact ⟨⟨trivial, hnn, by simpa [Pc.held] using hcap0⟩, by simp [Event.isTaken]⟩
      | some c =>
        simp only [step, ↓reduceIte, Option.some.injEq] at h
        have := onChunk_lim N st carry c now draws hnn hcap0
        rw [h] at this
        exact ⟨this.1, by simp only [Event.isTaken, Bool.false_eq_true, if_false, Int.add_zero]; exact this.2⟩
  | ret => cases ev <;> simp [step] at h
  | out c k =>
    cases k with
    | limitAfter n =>
      have hn : n = c.data.length := hpc
      simp only [Pc.held, Next.held, List.append_nil] at hcap
      cases ev with
      | taken now =>
        simp only [step, ↓reduceIte] at h
        split at h
        · cases h
          refine ⟨⟨trivial, by simp only; omega, ?_⟩, ?_⟩
          · simp only [Pc.held, List.length_nil, Int.natCast_zero, Int.add_zero]; omega
          · simp only [Event.isTaken, if_true, Pc.held, Next.held, List.append_nil]; omega
        · cases h
          refine ⟨⟨trivial, by simp only; omega, ?_⟩, ?_⟩
          · simp only [Pc.held, List.length_nil, Int.natCast_zero, Int.add_zero]; omega
          · simp only [Event.isTaken, if_true, Pc.held, Next.held, List.append_nil]; omega
      | interrupt now => exact absurd rfl (hni now)
      | timer now => simp [step] at h
      | input oc now draws => simp [step] at h
    | toIdle _ => exact absurd hpc (by simp [LimPc])
    | toRet => exact absurd hpc (by simp [LimPc])
    | slicerGap _ _ _ _ => exact absurd hpc (by simp [LimPc])
    | bwLoop _ _ => exact absurd hpc (by simp [LimPc])
  | idleT _ => exact absurd hpc (by simp [LimPc])
  | nap _ _ => exact absurd hpc (by simp [LimPc])
  | hold _ => exact absurd hpc (by simp [LimPc])
  | flush _ _ => exact absurd hpc (by simp [LimPc])
  | crash _ => exact absurd hpc (by simp [LimPc])

/-! ### Byte counts of stages -/

def Stage.blen (s : Stage) : Nat := s.bytes.length

theorem blen_def (s : Stage) : s.blen = s.pc.held.length + ((s.inq.map (·.data)).flatten).length := by
  simp [Stage.blen, Stage.bytes]

/-- A receivable event on a well-shaped stub: the step is defined. -/
theorem fire_defined (s : Stage) (h : EOK s) (ev : Event) (hr : Receivable s.pc ev) :
    ∃ st' pc', step .fixed (eff s) true s.st s.pc ev = some (st', pc') ∧ s.fire ev = { s with st := st', pc := pc' } := by
  have hdef : ∃ r, step .fixed (eff s) true s.st s.pc ev = some r := by
    cases ev with
    | timer now => obtain ⟨d, hd⟩ := hr; exact step_def_timer _ _ _ now d h.plain hd
    | taken now => obtain ⟨c, hc⟩ := hr; exact step_def_taken _ _ _ now c h.plain hc
    | input c now draws => exact step_def_input _ _ _ c now draws hr
    | interrupt now => exact hr.elim
  obtain ⟨⟨st', pc'⟩, hstep⟩ := hdef
  exact ⟨st', pc', hstep, fire_eq s ev st' pc' hstep⟩

/-- No stub gains more bytes than it receives; a completed send loses exactly the chunk. -/
theorem blen_fire (s : Stage) (h : EOK s) (ev : Event) (hr : Receivable s.pc ev) :
    (s.fire ev).blen ≤ s.blen + ev.data.length ∧
    (∀ now c, ev = .taken now → s.pc.offer = some c → (s.fire ev).blen + c.data.length = s.blen) := by
  obtain ⟨st', pc', hstep, hfire⟩ := fire_defined s h ev hr
  have hsub := step_sub s.t.cfg s.t.active s.st s.pc ev st' pc' (by rw [step_effective]; exact hstep)
  rw [hfire]
  simp only [blen_def]
  constructor
  · have := hsub.1.length_le
    simp only [List.length_append] at this
    omega
  · intro now c hev hoff
    obtain ⟨c', hc', hheld⟩ := hsub.2 now hev
    rw [hoff] at hc'
    cases hc'
    rw [hheld, List.length_append]
    omega

/-! ### The weighted sum behind position `p` -/

def wsum (p : Nat) (ss : List Stage) : Nat := ((ss.drop (p + 1)).map Stage.blen).sum

theorem wsum_cons_succ (p : Nat) (a : Stage) (L : List Stage) : wsum (p + 1) (a :: L) = wsum p L := by
  simp [wsum]

theorem wsum_zero_cons (a : Stage) (L : List Stage) : wsum 0 (a :: L) = (L.map Stage.blen).sum := by
  simp [wsum]

theorem wsum_mid (pre post : List Stage) (x y : Stage) : ∀ p : Nat,
    (pre.length ≤ p → wsum p (pre ++ x :: post) = wsum p (pre ++ y :: post)) ∧
    (p < pre.length → wsum p (pre ++ x :: post) + y.blen = wsum p (pre ++ y :: post) + x.blen) := by
  induction pre with
  | nil =>
    intro p
    constructor
    · intro _; simp [wsum]
    · intro h; simp at h
  | cons a pre ih =>
    intro p
    cases p with
    | zero =>
      constructor
      · intro h; simp at h
      · intro _
        simp only [List.cons_append, wsum_zero_cons, List.map_append, List.map_cons, List.sum_append, List.sum_cons]
        omega
    | succ p =>
      simp only [List.cons_append, wsum_cons_succ, List.length_cons]
      constructor
      · intro h; exact (ih p).1 (by omega)
      · intro h; exact (ih p).2 (by omega)

theorem wsum_modify (p : Nat) (ss : List Stage) (i : Nat) (g : Stage → Stage) (s : Stage) (hs : ss[i]? = some s) :
    (i ≤ p → wsum p (modifyAt ss i g) = wsum p ss) ∧
    (p < i → wsum p (modifyAt ss i g) + s.blen = wsum p ss + (g s).blen) := by
  obtain ⟨pre, post, hss, hlen⟩ := split_one ss i s hs
  subst hss
  subst hlen
  rw [modifyAt_mid]
  exact wsum_mid pre post (g s) s p

/-! ### The invariant -/

/-- Delivered, pending at the sink, and on the way behind position `p`. -/
def below (p : Nat) (l : Link) : Nat := l.delivered.length + (l.sinkPend.getD []).length + wsum p l.stages

/-- What the limit_data stub at position `p` has counted. -/
def tauOf (p : Nat) (l : Link) : Int := ((l.stages[p]?).map (·.st.transmitted)).getD 0

/-- The stub at position `p` is an applied limit_data(N) toxic in good shape. -/
def LStage (p : Nat) (N : Int) (l : Link) : Prop :=
  ∃ s, l.stages[p]? = some s ∧ eff s = .limitData N ∧ LimOK N s.st s.pc

structure NInv (p : Nat) (N : Int) (l : Link) : Prop where
  lim  : LStage p N l
  room : (below p l : Int) ≤ tauOf p l

/-- Replacing a stage other than `p`. -/
theorem n_mod_other (p : Nat) (N : Int) (l l' : Link) (hl : LStage p N l) (i : Nat) (hip : i ≠ p) (g : Stage → Stage)
    (s : Stage) (hs : l.stages[i]? = some s) (hst : l'.stages = modifyAt l.stages i g)
    (hd : l'.delivered = l.delivered) (hp : l'.sinkPend = l.sinkPend) :
    LStage p N l' ∧ tauOf p l' = tauOf p l ∧
    (i < p → below p l' = below p l) ∧ (p < i → below p l' + s.blen = below p l + (g s).blen) := by
  have hget : l'.stages[p]? = l.stages[p]? := by
    rw [hst, getElem?_modifyAt, if_neg (fun h => hip h.symm)]
  obtain ⟨h1, h2⟩ := wsum_modify p l.stages i g s hs
  refine ⟨?_, ?_, ?_, ?_⟩
  · obtain ⟨sp, hsp, he, hok⟩ := hl
    exact ⟨sp, by rw [hget]; exact hsp, he, hok⟩
  · unfold tauOf; rw [hget]
  · intro hlt
    unfold below
    rw [hd, hp, hst, h1 (by omega)]
  · intro hlt
    unfold below
    rw [hd, hp, hst]
    have := h2 hlt
    omega

/-- Replacing stage `p` itself (its buffer is not counted). -/
theorem n_mod_p (p : Nat) (l l' : Link) (g : Stage → Stage) (s : Stage) (hs : l.stages[p]? = some s)
    (hst : l'.stages = modifyAt l.stages p g) (hd : l'.delivered = l.delivered) (hp : l'.sinkPend = l.sinkPend) :
    l'.stages[p]? = some (g s) ∧ below p l' = below p l ∧ tauOf p l' = (g s).st.transmitted ∧
    tauOf p l = s.st.transmitted := by
  have hget : l'.stages[p]? = some (g s) := by
    rw [hst, getElem?_modifyAt, if_pos rfl, hs]; rfl
  refine ⟨hget, ?_, ?_, ?_⟩
  · unfold below
    rw [hd, hp, hst, (wsum_modify p l.stages p g s hs).1 (Nat.le_refl _)]
  · unfold tauOf; rw [hget]; rfl
  · unfold tauOf; rw [hs]; rfl

theorem limpc_offer (pc : Pc) (c : Chunk) (h : LimPc pc) (ho : pc.offer = some c) : pc.held = c.data := by
  cases pc with
  | out c' k =>
    cases k <;> simp only [LimPc] at h
    simp only [Pc.offer, Option.some.injEq] at ho
    subst ho
    simp [Pc.held, Next.held]
  | flush _ _ => simp [LimPc] at h
  | _ => simp [Pc.offer] at ho

/-- Firing a non-interrupt, receivable event on the limit_data stub. -/
theorem lim_fire (N : Int) (s : Stage) (h : EOK s) (he : eff s = .limitData N) (hok : LimOK N s.st s.pc) (ev : Event)
    (hr : Receivable s.pc ev) :
    eff (s.fire ev) = .limitData N ∧ LimOK N (s.fire ev).st (s.fire ev).pc ∧
    (s.fire ev).st.transmitted = s.st.transmitted + (if ev.isTaken then (s.pc.held.length : Int) else 0) := by
  obtain ⟨st', pc', hstep, hfire⟩ := fire_defined s h ev hr
  have hni : ∀ now, ev ≠ .interrupt now := by
    intro now hev; rw [hev] at hr; exact hr
  have := lim_step s.t.cfg s.t.active N he s.st s.pc ev st' pc' hok hni (by rw [step_effective]; exact hstep)
  rw [hfire]
  exact ⟨he, this.1, this.2⟩

/-- The hand-over of a chunk towards stage `i` (or the sink): the giver's side of the books. -/
theorem n_ack (p : Nat) (N : Int) (l : Link) (hi : EInv l) (hn : NInv p N l) (i : Nat) (now : Int) (c : Chunk)
    (hoff : l.offerTo i = some c) :
    LStage p N (l.ackUpstream i now) ∧
    (below p (l.ackUpstream i now) : Int) + (if p < i then (c.data.length : Int) else 0) ≤ tauOf p (l.ackUpstream i now) := by
  by_cases h0 : i = 0
  · subst h0
    have : l.ackUpstream 0 now = { l with srcPend := none } := by simp [Link.ackUpstream]
    rw [this]
    refine ⟨hn.lim, ?_⟩
    simp only [Nat.not_lt_zero, if_false, Int.add_zero]
    exact hn.room
  · rw [ackUpstream_pos' l hi.noctl i h0]
    rw [offerTo_pos' l hi.noctl i h0] at hoff
    cases ha : l.stages[i - 1]? with
    | none => rw [ha] at hoff; cases hoff
    | some a =>
      rw [ha] at hoff
      simp only [Option.bind_some] at hoff
      have haok := hi.stages a (List.mem_of_getElem? ha)
      have hrcv : Receivable a.pc (.taken now) := ⟨c, hoff⟩
      by_cases hip : i - 1 = p
      · -- the limit_data stub itself hands the chunk on: it counts it
        obtain ⟨sp, hsp, he, hok⟩ := hn.lim
        have hsa : a = sp := by
          rw [hip, hsp] at ha; exact (Option.some.inj ha).symm
        subst hsa
        obtain ⟨he', hok', htau⟩ := lim_fire N a haok he hok (.taken now) hrcv
        have hmod := n_mod_p p l { l with stages := modifyAt l.stages p fun s => s.fire (.taken now) }
          (fun s => s.fire (.taken now)) a hsp rfl rfl rfl
        rw [hip]
        refine ⟨⟨_, hmod.1, he', hok'⟩, ?_⟩
        have hpi : p < i := by omega
        rw [if_pos hpi, hmod.2.1, hmod.2.2.1, htau]
        simp only [Event.isTaken, if_true]
        rw [limpc_offer a.pc c hok.shape hoff]
        have := hn.room
        rw [hmod.2.2.2] at this
        omega
      · have hmod := n_mod_other p N l { l with stages := modifyAt l.stages (i - 1) fun s => s.fire (.taken now) }
          hn.lim (i - 1) hip (fun s => s.fire (.taken now)) a ha rfl rfl rfl
        refine ⟨hmod.1, ?_⟩
        rw [hmod.2.1]
        rcases Nat.lt_or_gt_of_ne hip with hlt | hgt
        · have hpi : ¬ p < i := by omega
          rw [if_neg hpi, hmod.2.2.1 hlt]
          simp only [Int.add_zero]
          exact hn.room
        · have hpi : p < i := by omega
          rw [if_pos hpi]
          have h1 := hmod.2.2.2 hgt
          have h2 := (blen_fire a haok (.taken now) hrcv).2 now c rfl hoff
          have := hn.room
          omega

/-- Firing a receivable event that is not a completed send on stage `i`, when the books have
room for what the event carries. -/
theorem n_fire (p : Nat) (N : Int) (l1 l' : Link) (hi : EInv l1) (hl : LStage p N l1) (i : Nat) (s : Stage)
    (hs : l1.stages[i]? = some s) (ev : Event) (hr : Receivable s.pc ev) (hnt : ev.isTaken = false)
    (hroom : (below p l1 : Int) + (if p < i then (ev.data.length : Int) else 0) ≤ tauOf p l1)
    (hst : l'.stages = modifyAt l1.stages i (fun s => s.fire ev)) (hd : l'.delivered = l1.delivered)
    (hp : l'.sinkPend = l1.sinkPend) : NInv p N l' := by
  have hsok := hi.stages s (List.mem_of_getElem? hs)
  by_cases hip : i = p
  · subst hip
    obtain ⟨sp, hsp, he, hok⟩ := hl
    rw [hs] at hsp; cases hsp
    obtain ⟨he', hok', htau⟩ := lim_fire N s hsok he hok ev hr
    have hmod := n_mod_p i l1 l' (fun s => s.fire ev) s hs hst hd hp
    refine ⟨⟨_, hmod.1, he', hok'⟩, ?_⟩
    rw [hmod.2.1, hmod.2.2.1, htau, hnt]
    simp only [Bool.false_eq_true, if_false, Int.add_zero]
    rw [← hmod.2.2.2]
    simp only [Nat.lt_irrefl, if_false, Int.add_zero] at hroom
    exact hroom
  · have hmod := n_mod_other p N l1 l' hl i hip (fun s => s.fire ev) s hs hst hd hp
    refine ⟨hmod.1, ?_⟩
    rw [hmod.2.1]
    rcases Nat.lt_or_gt_of_ne hip with hlt | hgt
    · rw [hmod.2.2.1 hlt]
      have : ¬ p < i := by omega
      rw [if_neg this] at hroom
      simpa using hroom
    · rw [if_pos hgt] at hroom
      have h1 := hmod.2.2.2 hgt
      have h2 := (blen_fire s hsok ev hr).1
      omega

theorem optData_len (oc : Option Chunk) (now : Int) (draws : List Int) :
    (Event.input oc now draws).data.length = ((oc.map (·.data)).getD []).length := by
  cases oc <;> rfl

/-- Consuming what `inputOf` reported for stage `i`: the books have room for what was taken. -/
theorem n_consume (p : Nat) (N : Int) (l : Link) (hi : EInv l) (hn : NInv p N l) (i : Nat) (oc : Option Chunk) (src : InSrc)
    (now : Int) (hio : l.inputOf i = some (oc, src)) :
    EInv (l.consume i src oc.isSome now) ∧ LStage p N (l.consume i src oc.isSome now) ∧
    (below p (l.consume i src oc.isSome now) : Int) +
      (if p < i then (((oc.map (·.data)).getD []).length : Int) else 0) ≤ tauOf p (l.consume i src oc.isSome now) := by
  cases hs : l.stages[i]? with
  | none => simp [Link.inputOf, hs] at hio
  | some s =>
  have hoffer : src = .rendezvous → oc.isSome = true → ∃ c, l.offerTo i = some c := by
    intro hsrc _
    subst hsrc
    unfold Link.inputOf at hio
    simp only [hs] at hio
    split at hio
    · cases hio
    · split at hio
      · rename_i c' hoff; exact ⟨c', hoff⟩
      · split at hio <;> cases hio
  have he1 := e_consume l hi i src oc.isSome now hoffer
  refine ⟨he1, ?_⟩
  cases oc with
  | none =>
    have : l.consume i src (none : Option Chunk).isSome now = l := by simp [Link.consume]
    rw [this]
    refine ⟨hn.lim, ?_⟩
    simp only [Option.map_none, Option.getD_none, List.length_nil, Int.natCast_zero, ite_self, Int.add_zero]
    exact hn.room
  | some c =>
    unfold Link.inputOf at hio
    simp only [hs] at hio
    cases hq : s.inq with
    | cons c0 q =>
      -- from the stage's own buffer
      simp only [hq, Option.some.injEq, Prod.mk.injEq] at hio
      obtain ⟨hc, hsrc⟩ := hio
      cases hc
      subst hsrc
      have hcons : l.consume i .buffered (some c).isSome now =
          { l with stages := modifyAt l.stages i fun s => { s with inq := s.inq.drop 1 } } := by
        simp [Link.consume]
      rw [hcons]
      have hbl : ({ s with inq := s.inq.drop 1 } : Stage).blen + c.data.length = s.blen := by
        simp only [blen_def, hq, List.drop_one, List.tail_cons, List.map_cons, List.flatten_cons, List.length_append]
        omega
      by_cases hip : i = p
      · subst hip
        have hmod := n_mod_p i l { l with stages := modifyAt l.stages i fun s => { s with inq := s.inq.drop 1 } }
          (fun s => { s with inq := s.inq.drop 1 }) s hs rfl rfl rfl
        obtain ⟨sp, hsp, he, hok⟩ := hn.lim
        rw [hs] at hsp; cases hsp
        refine ⟨⟨_, hmod.1, he, hok⟩, ?_⟩
        rw [hmod.2.1, hmod.2.2.1]
        simp only [Nat.lt_irrefl, if_false, Int.add_zero]
        have := hn.room
        rw [hmod.2.2.2] at this
        exact this
      · have hmod := n_mod_other p N l { l with stages := modifyAt l.stages i fun s => { s with inq := s.inq.drop 1 } }
          hn.lim i hip (fun s => { s with inq := s.inq.drop 1 }) s hs rfl rfl rfl
        refine ⟨hmod.1, ?_⟩
        rw [hmod.2.1]
        simp only [Option.map_some, Option.getD_some]
        rcases Nat.lt_or_gt_of_ne hip with hlt | hgt
        · have : ¬ p < i := by omega
          rw [if_neg this, hmod.2.2.1 hlt]
          simpa using hn.room
        · rw [if_pos hgt]
          have h1 := hmod.2.2.2 hgt
          have := hn.room
          omega
    | nil =>
      simp only [hq] at hio
      cases hoff : l.offerTo i with
      | none =>
        simp only [hoff] at hio
        split at hio <;> cases hio
      | some c' =>
        simp only [hoff, Option.some.injEq, Prod.mk.injEq] at hio
        obtain ⟨hc, hsrc⟩ := hio
        cases hc
        subst hsrc
        have hcons : l.consume i .rendezvous (some c).isSome now = l.ackUpstream i now := by
          simp [Link.consume]
        rw [hcons]
        simp only [Option.map_some, Option.getD_some]
        exact n_ack p N l hi hn i now c hoff

/-! ### The moves -/

theorem n_field (p : Nat) (N : Int) (l l0 : Link) (hn : NInv p N l0) (hs : l.stages = l0.stages)
    (hb : below p l ≤ below p l0) : NInv p N l := by
  refine ⟨?_, ?_⟩
  · obtain ⟨sp, hsp, he, hok⟩ := hn.lim
    exact ⟨sp, by rw [hs]; exact hsp, he, hok⟩
  · have : tauOf p l = tauOf p l0 := by unfold tauOf; rw [hs]
    rw [this]
    have := hn.room
    omega

theorem n_sourceMove (p : Nat) (N : Int) (l : Link) (now : Int) (l' : Link) (hn : NInv p N l)
    (h : l.sourceMove now = some l') : NInv p N l' := by
  unfold Link.sourceMove at h
  split at h
  · split at h
    · cases h; exact n_field p N _ l hn rfl (Nat.le_refl _)
    · split at h
      · cases h; exact n_field p N _ l hn rfl (Nat.le_refl _)
      · cases h
  · cases h

/-- The receiving part of a stub's move. -/
theorem n_recv (p : Nat) (N : Int) (l : Link) (hi : EInv l) (hn : NInv p N l) (i : Nat) (s : Stage) (hs : l.stages[i]? = some s)
    (hw : s.pc.wantsInput = true) (now : Int) (oc : Option Chunk) (src : InSrc)
    (hio : l.inputOf i = some (oc, src)) (l1 : Link) (hl1 : l1 = l.consume i src oc.isSome now) :
    NInv p N { l1 with stages := modifyAt l1.stages i (fun s => s.fire (.input oc now drawsConst)) } := by
  subst hl1
  obtain ⟨he1, hl, hroom⟩ := n_consume p N l hi hn i oc src now hio
  -- the receiving stub is unchanged by the consumption except for its buffer
  have hpc' : ∃ s', (l.consume i src oc.isSome now).stages[i]? = some s' ∧ s'.pc = s.pc := by
    unfold Link.consume
    split
    · exact ⟨s, hs, rfl⟩
    · cases src with
      | buffered =>
        refine ⟨{ s with inq := s.inq.drop 1 }, ?_, rfl⟩
        simp only
        rw [getElem?_modifyAt, if_pos rfl, hs]; rfl
      | rendezvous =>
        simp only
        by_cases h0 : i = 0
        · subst h0
          have : l.ackUpstream 0 now = { l with srcPend := none } := by simp [Link.ackUpstream]
          rw [this]; exact ⟨s, hs, rfl⟩
        · rw [ackUpstream_pos' l hi.noctl i h0]
          refine ⟨s, ?_, rfl⟩
          simp only
          rw [getElem?_modifyAt, if_neg (by omega)]; exact hs
  obtain ⟨s', hs', hpc⟩ := hpc'
  refine n_fire p N _ _ he1 hl i s' hs' (.input oc now drawsConst) (by simp only [Receivable]; rw [hpc]; exact hw) rfl ?_ rfl rfl rfl
  rw [optData_len]
  exact hroom

theorem n_stageMove (p : Nat) (N : Int) (l : Link) (i : Nat) (now : Int) (busy : Bool) (l' : Link) (hi : EInv l)
    (hn : NInv p N l) (h : l.stageMove i now busy = some l') : NInv p N l' := by
  cases hs : l.stages[i]? with
  | none => simp [Link.stageMove, hs] at h
  | some s =>
    have hsi := hi.stages s (List.mem_of_getElem? hs)
    have hnc : ∀ w, s.pc ≠ .crash w := by
      intro w hp; have := hsi.plain; rw [hp] at this; simp [Plain] at this
    rw [stageMove_body l i now busy s hs hnc] at h
    unfold stageBody at h
    have hip : (s.intr == IntrSt.pending) = false := by rw [hsi.intr]; decide
    have hiw : (s.intr == IntrSt.waitRet) = false := by rw [hsi.intr]; decide
    by_cases h1 : duePart s now = true
    · rw [if_pos h1] at h
      cases h
      unfold duePart at h1
      cases ht : s.pc.timer with
      | none => simp [ht] at h1
      | some d =>
        refine n_fire p N l _ hi hn.lim i s hs (.timer now) ⟨d, ht⟩ rfl ?_ rfl rfl rfl
        simp only [Event.data, List.length_nil, Int.natCast_zero, ite_self, Int.add_zero]
        exact hn.room
    · rw [if_neg h1] at h
      simp only [hip, hiw, Bool.false_and, Bool.false_eq_true, if_false] at h
      by_cases h5 : (s.pc.wantsInput && !(l.detached && i + 1 == l.stages.length)) = true
      · rw [if_pos h5] at h
        have hw : s.pc.wantsInput = true := by simp only [Bool.and_eq_true] at h5; exact h5.1
        cases hio : l.inputOf i with
        | none => simp [hio] at h
        | some r =>
          obtain ⟨c, src⟩ := r
          simp only [hio, Option.some.injEq] at h
          subst h
          exact n_recv p N l hi hn i s hs hw now c src hio _ rfl
      · rw [if_neg h5] at h
        split at h
        · split at h
          · rename_i c' src hio
            cases h
            have hcons := n_consume p N l hi hn i (some c') src now hio
            simp only [Option.isSome_some] at hcons
            obtain ⟨_, hl, hroom⟩ := hcons
            refine ⟨hl, ?_⟩
            have : (0 : Int) ≤ (if p < i then ((((some c').map (·.data)).getD []).length : Int) else 0) := by
              split <;> omega
            omega
          · cases h
        · cases h

theorem n_recvAlt (p : Nat) (N : Int) (l : Link) (i : Nat) (now : Int) (l' : Link) (hi : EInv l) (hn : NInv p N l)
    (h : l.recvAlt i now = some l') : NInv p N l' := by
  unfold Link.recvAlt at h
  cases hs : l.stages[i]? with
  | none => simp [hs] at h
  | some s =>
    simp only [hs] at h
    unfold recvPart at h
    by_cases h5 : (s.pc.wantsInput && !(l.detached && i + 1 == l.stages.length)) = true
    · rw [if_pos h5] at h
      have hw : s.pc.wantsInput = true := by simp only [Bool.and_eq_true] at h5; exact h5.1
      cases hio : l.inputOf i with
      | none => simp [hio] at h
      | some r =>
        obtain ⟨c, src⟩ := r
        simp only [hio, Option.some.injEq] at h
        subst h
        exact n_recv p N l hi hn i s hs hw now c src hio _ rfl
    · rw [if_neg h5] at h; cases h

theorem n_bufferMove (p : Nat) (N : Int) (l : Link) (i : Nat) (now : Int) (l' : Link) (hi : EInv l) (hn : NInv p N l)
    (h : l.bufferMove i now = some l') : NInv p N l' := by
  unfold Link.bufferMove at h
  cases hs : l.stages[i]? with
  | none => simp [hs] at h
  | some s =>
    simp only [hs] at h
    split at h
    · cases hoff : l.offerTo i with
      | none => simp [hoff] at h
      | some c =>
        simp only [hoff, Option.some.injEq] at h
        subst h
        obtain ⟨hl, hroom⟩ := n_ack p N l hi hn i now c hoff
        -- the receiving stub after the hand-over
        have hs1 : ∃ s1, (l.ackUpstream i now).stages[i]? = some s1 ∧ s1.st = s.st ∧ s1.pc = s.pc := by
          by_cases h0 : i = 0
          · subst h0
            have : l.ackUpstream 0 now = { l with srcPend := none } := by simp [Link.ackUpstream]
            rw [this]; exact ⟨s, hs, rfl, rfl⟩
          · rw [ackUpstream_pos' l hi.noctl i h0]
            refine ⟨s, ?_, rfl, rfl⟩
            simp only
            rw [getElem?_modifyAt, if_neg (by omega)]; exact hs
        obtain ⟨s1, hs1, _, _⟩ := hs1
        have hbl : ({ s1 with inq := s1.inq ++ [c] } : Stage).blen = s1.blen + c.data.length := by
          simp only [blen_def, List.map_append, List.map_cons, List.map_nil, List.flatten_append, List.flatten_cons,
            List.flatten_nil, List.append_nil, List.length_append]
          omega
        by_cases hip : i = p
        · subst hip
          have hmod := n_mod_p i (l.ackUpstream i now)
            { (l.ackUpstream i now) with stages := modifyAt (l.ackUpstream i now).stages i (fun s => { s with inq := s.inq ++ [c] }) }
            (fun s => { s with inq := s.inq ++ [c] }) s1 hs1 rfl rfl rfl
          obtain ⟨sp, hsp, he, hok⟩ := hl
          rw [hs1] at hsp; cases hsp
          refine ⟨⟨_, hmod.1, he, hok⟩, ?_⟩
          rw [hmod.2.1, hmod.2.2.1]
          simp only [Nat.lt_irrefl, if_false, Int.add_zero] at hroom
          rw [hmod.2.2.2] at hroom
          exact hroom
        · have hmod := n_mod_other p N (l.ackUpstream i now)
            { (l.ackUpstream i now) with stages := modifyAt (l.ackUpstream i now).stages i (fun s => { s with inq := s.inq ++ [c] }) }
            hl i hip (fun s => { s with inq := s.inq ++ [c] }) s1 hs1 rfl rfl rfl
          refine ⟨hmod.1, ?_⟩
          rw [hmod.2.1]
          rcases Nat.lt_or_gt_of_ne hip with hlt | hgt
          · have : ¬ p < i := by omega
            rw [if_neg this] at hroom
            rw [hmod.2.2.1 hlt]
            simpa using hroom
          · rw [if_pos hgt] at hroom
            have h1 := hmod.2.2.2 hgt
            simp only [] at h1
            rw [hbl] at h1
            omega
    · cases h

theorem ack_delivered (l : Link) (i : Nat) (now : Int) : (l.ackUpstream i now).delivered = l.delivered := by
  unfold Link.ackUpstream
  split
  · rfl
  · split
    · split <;> rfl
    · rfl

theorem n_sinkMove (p : Nat) (N : Int) (l : Link) (now : Int) (l' : Link) (hi : EInv l) (hn : NInv p N l)
    (h : l.sinkMove now = some l') : NInv p N l' := by
  have hplt : p < l.stages.length := by
    obtain ⟨s, hs, _⟩ := hn.lim
    rcases Nat.lt_or_ge p l.stages.length with h' | h'
    · exact h'
    · rw [List.getElem?_eq_none h'] at hs; cases hs
  have hw : l.wired = l.stages.length := by simp [Link.wired, hi.attached]
  unfold Link.sinkMove at h
  by_cases hdc : l.destClosed = true
  · rw [if_pos hdc] at h
    by_cases hdr : (!l.sinkDrain) = true
    · rw [if_pos hdr] at h; cases h
    · rw [if_neg hdr] at h
      simp only at h
      by_cases hz : (l.wired == 0) = true
      · rw [if_pos hz] at h; cases h
      · rw [if_neg hz] at h
        cases hoff : l.offerTo l.wired with
        | some c =>
          simp only [hoff, Option.some.injEq] at h
          subst h
          obtain ⟨hl, hroom⟩ := n_ack p N l hi hn l.wired now c hoff
          refine ⟨hl, ?_⟩
          have : (0 : Int) ≤ (if p < l.wired then (c.data.length : Int) else 0) := by split <;> omega
          omega
        | none =>
          simp only [hoff] at h
          split at h
          · cases h; exact n_field p N _ l hn rfl (Nat.le_refl _)
          · cases h
  · rw [if_neg hdc] at h
    cases hsp : l.sinkPend with
    | some d =>
      simp only [hsp] at h
      split at h
      · cases h
        refine n_field p N _ l hn rfl ?_
        simp only [below, hsp, Option.getD_some, Option.getD_none, List.length_nil]
        omega
      · split at h
        · cases h
          refine n_field p N _ l hn rfl ?_
          simp only [below, hsp, Option.getD_some, Option.getD_none, List.length_nil, List.length_append]
          omega
        · cases h
    | none =>
      simp only [hsp] at h
      by_cases hz : (l.wired == 0) = true
      · rw [if_pos hz] at h; cases h
      · rw [if_neg hz] at h
        cases hoff : l.offerTo l.wired with
        | some c =>
          simp only [hoff, Option.some.injEq] at h
          subst h
          obtain ⟨hl, hroom⟩ := n_ack p N l hi hn l.wired now c hoff
          have hpw : p < l.wired := by omega
          rw [if_pos hpw] at hroom
          refine ⟨?_, ?_⟩
          · obtain ⟨sp, hsp', he, hok⟩ := hl
            exact ⟨sp, hsp', he, hok⟩
          · have key : ∀ x : Link, x.stages = (l.ackUpstream l.wired now).stages →
                x.delivered = (l.ackUpstream l.wired now).delivered →
                x.sinkPend = (if c.data.isEmpty then none else some c.data) →
                (below p x : Int) ≤ tauOf p x := by
              intro x hxs hxd hxp
              have htau : tauOf p x = tauOf p (l.ackUpstream l.wired now) := by unfold tauOf; rw [hxs]
              have hb : below p x ≤ below p (l.ackUpstream l.wired now) + c.data.length := by
                unfold below
                rw [hxs, hxd, hxp, ack_sinkPend, hsp]
                simp only [Option.getD_none, List.length_nil]
                split
                · simp only [Option.getD_none, List.length_nil]; omega
                · simp only [Option.getD_some]; omega
              rw [htau]
              omega
            exact key _ rfl rfl rfl
        | none =>
          simp only [hoff] at h
          split at h
          · cases h; exact n_field p N _ l hn rfl (by simp [below, hsp])
          · cases h

/-- **Every move keeps the books.** -/
theorem n_anymove (p : Nat) (N : Int) (l : Link) (chain : List TCfg) (now : Int) (busy : Bool) (l' : Link) (hi : EInv l)
    (hn : NInv p N l) (h : l.AnyMove chain now busy l') : NInv p N l' := by
  rcases h.2 with h' | h' | ⟨i, h'⟩ | ⟨i, h'⟩ | h' | ⟨i, h'⟩ | ⟨i, h'⟩ | h'
  · rw [ctlMove_none' l chain now hi.noctl] at h'; cases h'
  · exact n_sinkMove p N l now l' hi hn h'
  · exact n_stageMove p N l i now busy l' hi hn h'
  · exact n_bufferMove p N l i now l' hi hn h'
  · exact n_sourceMove p N l now l' hn h'
  · exact n_recvAlt p N l i now l' hi hn h'
  · rw [intrAlt_none l i now (fun s hs => (hi.stages s (List.mem_of_getElem? hs)).intr)] at h'; cases h'
  · rw [ctlTakeAlt_none l now hi.noctl] at h'; cases h'

theorem NInv_env (p : Nat) (N : Int) (l : Link) (hn : NInv p N l) (q : List Bytes) (eof ready fail cut : Bool) (hi' : Nat) :
    NInv p N { l with srcQ := q, srcEOF := eof, sinkReady := ready, sinkFail := fail, srcCut := cut, cutHi := hi' } :=
  n_field p N _ l hn rfl (Nat.le_refl _)

theorem sum_map_zero {α : Type} (L : List α) (f : α → Nat) (h : ∀ x ∈ L, f x = 0) : (L.map f).sum = 0 := by
  induction L with
  | nil => rfl
  | cons a L ih =>
    simp only [List.map_cons, List.sum_cons]
    rw [h a (by simp), ih (fun x hx => h x (by simp [hx]))]

theorem wsum_new (p : Nat) (chain : List TCfg) (now : Int) :
    wsum p (chain.map fun t => (Stage.fresh t).start t now) = 0 := by
  unfold wsum
  apply sum_map_zero
  intro x hx
  have hx' := List.mem_of_mem_drop hx
  simp only [List.mem_map] at hx'
  obtain ⟨t, _, rfl⟩ := hx'
  rw [Stage.fresh_start]
  simp [blen_def, start_held, Stage.fresh]

theorem NInv_new (chain : List TCfg) (now : Int) (p : Nat) (t : TCfg) (N : Int) (ht : chain[p]? = some t)
    (hT : effective t.cfg t.active = .limitData N) : NInv p N (Link.new chain now) := by
  have hget : (Link.new chain now).stages[p]? = some ((Stage.fresh t).start t now) := by simp [Link.new, ht]
  refine ⟨⟨_, hget, ?_, ?_⟩, ?_⟩
  · rw [Stage.fresh_start]; simpa [eff, Stage.fresh] using hT
  · rw [Stage.fresh_start]
    have hs : Toxi.Toxic.start t.cfg t.active now = .idle 0 := by
      unfold Toxi.Toxic.start
      cases ha : t.active
      · rfl
      · rw [ha] at hT
        cases hc : t.cfg <;> rw [hc] at hT <;> simp [effective] at hT <;> rfl
    simp only [hs, Stage.fresh]
    exact ⟨trivial, by decide, by simp [Pc.held]; omega⟩
  · unfold below tauOf
    rw [hget]
    simp only [Link.new, wsum_new, Option.map_some, Option.getD_some, Option.getD_none, List.length_nil]
    rw [Stage.fresh_start]
    simp [Stage.fresh]

/-- **C11 (the limit, whole connection).**  A limit_data toxic with limit `N` that applies to the
connection, at any position of a chain of any other toxics: along every execution of the link
without toxic changes — every schedule of its goroutines, every `select` choice, any chunking of
the data, the peers sending, ending, stalling or failing, the proxy closing the connection — the
receiver never has more than `max N 0` bytes: the budget is per connection and does not depend on
how the data is cut. -/
theorem C11_link_limit (chain : List TCfg) (now0 : Int) (p : Nat) (t : TCfg) (N : Int) (ht : chain[p]? = some t)
    (hT : effective t.cfg t.active = .limitData N) {l : Link} (h : ExecE chain (Link.new chain now0) l) :
    (l.delivered.length : Int) ≤ max N 0 := by
  have key : EInv l ∧ NInv p N l := by
    induction h with
    | refl => exact ⟨EInv_new chain now0, NInv_new chain now0 p t N ht hT⟩
    | move now busy l' _ hm ih => exact ⟨C15_anymove_shape _ chain now busy l' ih.1 hm, n_anymove p N _ chain now busy l' ih.1 ih.2 hm⟩
    | env q eof ready fail cut hi' _ ih => exact ⟨EInv_env _ ih.1 q eof ready fail cut hi', NInv_env p N _ ih.2 q eof ready fail cut hi'⟩
  obtain ⟨_, ⟨sp, hsp, _, hok⟩, hroom⟩ := key
  have htau : tauOf p l = sp.st.transmitted := by unfold tauOf; rw [hsp]; rfl
  have hcap := hok.cap
  have : (0 : Int) ≤ (sp.pc.held.length : Int) := by omega
  unfold below at hroom
  rw [htau] at hroom
  omega

namespace ExN
/-- noop → slicer(2-byte pieces) → limit_data(4) → latency(1 ms): seven bytes in two chunks are
sent and the sender ends its stream; time passes.  The receiver has the first four bytes. -/
def ch : List TCfg := [TCfg.noop, ⟨"sl", .slicer 2 0 0, true, 0, false⟩, ⟨"ld", .limitData 4, true, 0, false⟩,
  ⟨"lat", .latency 1 0, true, 1024, false⟩]
def n0 : Link := { Link.new ch 0 with srcQ := [[1, 2, 3], [4, 5, 6, 7]], srcEOF := true, sinkReady := true }
def n1 : Link := runK ch (50 * ms) 128 (runK ch 0 128 n0)

theorem n1_exec : ExecE ch (Link.new ch 0) n1 :=
  ExecE.runK (50 * ms) 128 _ (ExecE.runK 0 128 _ (ExecE.env [[1, 2, 3], [4, 5, 6, 7]] true true false false 0 ExecE.refl))

example : n1.sent = [1, 2, 3, 4, 5, 6, 7] ∧ n1.delivered = [1, 2, 3, 4] ∧ (n1.delivered.length : Int) ≤ max 4 0 :=
  ⟨by decide, by decide, C11_link_limit ch 0 2 _ 4 rfl rfl n1_exec⟩
end ExN

end Toxi.Link
