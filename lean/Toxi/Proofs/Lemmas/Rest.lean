import Toxi.Proofs.Lemmas.Aligned
/-!
Nothing is left behind (C15), for every toxic type: a link on which no API call is working keeps
a simple shape invariant under every move of its goroutines — whatever its toxics are
(timeout, limit_data, reset_peer and slow_close included), whatever the peers do, also after a
failed write and after the proxy has cut the connection — and a link of that shape whose source
has ended and which has come to rest has no goroutine left.
-/
namespace Toxi.Toxic
open Toxi.Stream (Bytes)

/-- Program counters of a stub that has not been interrupted. -/
def Plain : Pc → Prop
  | .out _ .toRet => False
  | .flush _ _ => False
  | .crash _ => False
  | _ => True

theorem quiet_plain {pc : Pc} (h : Quiet pc) : Plain pc ∧ pc ≠ .ret := by
  cases pc with
  | out c k => cases k <;> simp [Quiet] at h <;> simp [Plain]
  | nap d w => simp [Plain]
  | idle c => simp [Plain]
  | _ => simp [Quiet] at h

theorem slicerSend_plain (rest : Bytes) (base ts : Int) (offs : List (Int × Int))
    (h : ∀ w, slicerSend rest base ts offs ≠ .crash w) :
    Plain (slicerSend rest base ts offs) ∧ slicerSend rest base ts offs ≠ .ret :=
  quiet_plain (slicerSend_quiet rest base ts offs h)

/-- Uninterrupted steps keep the stub uninterrupted, and it returns exactly when it closes. -/
theorem step_plain (cfg : Cfg) (st : StubSt) (pc : Pc) (ev : Event) (st' : StubSt) (pc' : Pc)
    (hp : Plain pc) (hev : ∀ now, ev ≠ .interrupt now) (hrc : pc = .ret ↔ st.closed = true)
    (hwf' : ∀ w, pc' ≠ .crash w)
    (h : step .fixed cfg true st pc ev = some (st', pc')) :
    Plain pc' ∧ (pc' = .ret ↔ st'.closed = true) := by
  have hopen : pc ≠ .ret → st.closed = false := by
    intro hne
    cases hc : st.closed with
    | false => rfl
    | true => exact absurd (hrc.mpr hc) hne
  -- what `onChunk` can lead to
  have hchunk : ∀ carry c now draws, st.closed = false →
      (onChunk .fixed cfg st carry c now draws) = (st', pc') → Plain pc' ∧ (pc' = .ret ↔ st'.closed = true) := by
    intro carry c now draws hcl hoc
    cases cfg with
    | noop => simp [onChunk] at hoc; obtain ⟨rfl, rfl⟩ := hoc; simp [Plain, hcl]
    | slowClose d => simp [onChunk] at hoc; obtain ⟨rfl, rfl⟩ := hoc; simp [Plain, hcl]
    | resetPeer t => simp [onChunk] at hoc; obtain ⟨rfl, rfl⟩ := hoc; simp [Plain, hcl]
    | latency l j =>
      simp only [onChunk] at hoc
      split at hoc
      · simp only [Prod.mk.injEq] at hoc; obtain ⟨_, rfl⟩ := hoc; exact absurd rfl (hwf' _)
      · simp only [Prod.mk.injEq] at hoc; obtain ⟨rfl, rfl⟩ := hoc; simp [Plain, hcl]
    | bandwidth r =>
      simp only [onChunk, Prod.mk.injEq] at hoc
      obtain ⟨rfl, rfl⟩ := hoc
      have := quiet_plain (bwLoop_quiet .fixed r c (if r ≤ 0 then 0 else carry + Int.tdiv ((c.data.length : Int) * ms) r) now)
      exact ⟨this.1, by simp [this.2, hcl]⟩
    | slicer a v d =>
      simp only [onChunk] at hoc
      split at hoc
      · simp only [Prod.mk.injEq] at hoc; obtain ⟨rfl, rfl⟩ := hoc
        have := slicerSend_plain c.data 0 c.ts _ hwf'
        exact ⟨this.1, by simp [this.2, hcl]⟩
      · simp only [Prod.mk.injEq] at hoc; obtain ⟨_, rfl⟩ := hoc; exact absurd rfl (hwf' _)
      · simp only [Prod.mk.injEq] at hoc; obtain ⟨_, rfl⟩ := hoc; exact absurd rfl (hwf' _)
    | timeout t =>
      simp only [onChunk] at hoc
      split at hoc <;> (simp only [Prod.mk.injEq] at hoc; obtain ⟨rfl, rfl⟩ := hoc; simp [Plain, hcl])
    | limitData n =>
      simp only [onChunk] at hoc
      repeat' split at hoc
      all_goals (simp only [Prod.mk.injEq] at hoc; obtain ⟨rfl, rfl⟩ := hoc)
      all_goals first
        | exact ⟨by simp [Plain], ⟨fun _ => rfl, fun _ => rfl⟩⟩
        | exact ⟨by simp [Plain], ⟨fun hh => (by cases hh), fun hh => (by rw [hcl] at hh; cases hh)⟩⟩
  cases pc with
  | ret => cases ev <;> simp [step] at h
  | crash w => simp [Plain] at hp
  | flush c d => simp [Plain] at hp
  | hold d =>
    cases ev <;> simp [step] at h
    obtain ⟨rfl, rfl⟩ := h
    simp [Plain]
  | idle carry =>
    have hcl := hopen (by simp)
    cases ev with
    | timer now => simp [step] at h
    | taken now => simp [step] at h
    | interrupt now => exact absurd rfl (hev now)
    | input c now draws =>
      cases c with
      | some c => simp only [step, if_true, Option.some.injEq] at h; exact hchunk carry c now draws hcl h
      | none =>
        cases cfg <;> simp [step] at h <;> (obtain ⟨rfl, rfl⟩ := h) <;> simp [Plain, hcl]
  | idleT d =>
    have hcl := hopen (by simp)
    cases ev with
    | timer now => simp [step] at h; obtain ⟨rfl, rfl⟩ := h; simp [Plain]
    | taken now => simp [step] at h
    | interrupt now => exact absurd rfl (hev now)
    | input c now draws =>
      cases c with
      | some c => simp only [step, if_true, Option.some.injEq] at h; exact hchunk d c now draws hcl h
      | none => simp [step] at h; obtain ⟨rfl, rfl⟩ := h; simp [Plain]
  | out c k =>
    have hcl := hopen (by simp)
    cases ev with
    | timer now => simp [step] at h
    | interrupt now => exact absurd rfl (hev now)
    | input c' now draws => simp [step] at h
    | taken now =>
      simp only [step, if_true] at h
      cases k with
      | toIdle carry => simp at h; obtain ⟨rfl, rfl⟩ := h; simp [Plain, hcl]
      | toRet => simp [Plain] at hp
      | slicerGap rest offs base ts => simp at h; obtain ⟨rfl, rfl⟩ := h; simp [Plain, hcl]
      | bwLoop p carry =>
        simp at h
        obtain ⟨rfl, rfl⟩ := h
        refine ⟨(quiet_plain (bwLoop_quiet _ _ _ _ _)).1, ?_⟩
        constructor
        · intro hh; exact absurd hh (quiet_plain (bwLoop_quiet _ _ _ _ _)).2
        · intro hh; rw [hcl] at hh; cases hh
      | limitAfter n =>
        cases cfg <;> simp at h
        all_goals try (obtain ⟨rfl, rfl⟩ := h; simp [Plain, hcl])
        split at h
        · simp only [Option.some.injEq, Prod.mk.injEq] at h; obtain ⟨rfl, rfl⟩ := h; simp [Plain]
        · simp only [Option.some.injEq, Prod.mk.injEq] at h; obtain ⟨rfl, rfl⟩ := h; simp [Plain, hcl]
  | nap d w =>
    have hcl := hopen (by simp)
    cases ev with
    | taken now => cases w <;> simp [step] at h
    | input c' now draws => cases w <;> simp [step] at h
    | interrupt now => exact absurd rfl (hev now)
    | timer now =>
      cases w with
      | latency c sl dl => simp [step] at h; obtain ⟨rfl, rfl⟩ := h; simp [Plain, hcl]
      | bwFinal p carry start => simp [step] at h; obtain ⟨rfl, rfl⟩ := h; simp [Plain, hcl]
      | slowClose => simp [step] at h; obtain ⟨rfl, rfl⟩ := h; simp [Plain]
      | slicerGap rest offs base ts =>
        simp [step] at h; obtain ⟨rfl, rfl⟩ := h
        have := slicerSend_plain rest base ts offs hwf'
        exact ⟨this.1, by simp [this.2, hcl]⟩
      | bwInstal p carry =>
        cases cfg <;> simp [step] at h
        all_goals try (obtain ⟨rfl, rfl⟩ := h; simp [Plain, hcl])
        split at h
        · simp only [Option.some.injEq, Prod.mk.injEq] at h; obtain ⟨rfl, rfl⟩ := h; simp [Plain, hcl]
        · simp only [Option.some.injEq, Prod.mk.injEq] at h; obtain ⟨_, rfl⟩ := h; exact absurd rfl (hwf' _)

end Toxi.Toxic

namespace Toxi.Toxic

theorem step_def_timer (cfg : Cfg) (st : StubSt) (pc : Pc) (now d : Int) (hp : Plain pc) (ht : pc.timer = some d) :
    ∃ r, step .fixed cfg true st pc (.timer now) = some r := by
  cases pc with
  | idleT d' => exact ⟨_, rfl⟩
  | hold d' => exact ⟨_, rfl⟩
  | nap d' w =>
    cases w with
    | bwInstal p carry =>
      cases cfg <;> simp [step]
      split <;> exact ⟨_, _, rfl⟩
    | _ => exact ⟨_, rfl⟩
  | flush c d' => simp [Plain] at hp
  | _ => simp [Pc.timer] at ht

theorem step_def_taken (cfg : Cfg) (st : StubSt) (pc : Pc) (now : Int) (c : Chunk) (hp : Plain pc) (ho : pc.offer = some c) :
    ∃ r, step .fixed cfg true st pc (.taken now) = some r := by
  cases pc with
  | out c' k =>
    cases k with
    | toRet => simp [Plain] at hp
    | limitAfter n =>
      cases cfg <;> simp [step]
      split <;> exact ⟨_, _, rfl⟩
    | _ => exact ⟨_, rfl⟩
  | flush c' d => simp [Plain] at hp
  | _ => simp [Pc.offer] at ho

theorem step_def_input (cfg : Cfg) (st : StubSt) (pc : Pc) (c : Option Chunk) (now : Int) (draws : List Int)
    (hw : pc.wantsInput = true) : ∃ r, step .fixed cfg true st pc (.input c now draws) = some r := by
  cases pc with
  | idle carry =>
    cases c with
    | some c => exact ⟨_, rfl⟩
    | none => cases cfg <;> exact ⟨_, rfl⟩
  | idleT d => cases c <;> exact ⟨_, rfl⟩
  | _ => simp [Pc.wantsInput] at hw

end Toxi.Toxic

namespace Toxi.Link
open Toxi.Toxic Toxi.Stream

/-- A stub nobody is interrupting: no panic, and `Pipe` has returned exactly if the stub is closed. -/
structure EOK (s : Stage) : Prop where
  wf    : PcWF (eff s) s.pc
  plain : Plain s.pc
  intr  : s.intr = .none
  rc    : s.pc = .ret ↔ s.st.closed = true

/-- The event is one the stub can receive where it is, and not an interrupt. -/
def Receivable (pc : Pc) : Event → Prop
  | .timer _ => ∃ d, pc.timer = some d
  | .taken _ => ∃ c, pc.offer = some c
  | .input _ _ _ => pc.wantsInput = true
  | .interrupt _ => False

theorem fire_eok (s : Stage) (h : EOK s) (ev : Event) (hr : Receivable s.pc ev) :
    EOK (s.fire ev) ∧ (s.fire ev).inq = s.inq := by
  have hdef : ∃ r, step .fixed (eff s) true s.st s.pc ev = some r := by
    cases ev with
    | timer now => obtain ⟨d, hd⟩ := hr; exact step_def_timer _ _ _ now d h.plain hd
    | taken now => obtain ⟨c, hc⟩ := hr; exact step_def_taken _ _ _ now c h.plain hc
    | input c now draws => exact step_def_input _ _ _ c now draws hr
    | interrupt now => exact hr.elim
  obtain ⟨⟨st', pc'⟩, hstep⟩ := hdef
  have hnc := C07_step_never_crashes s.t.cfg s.t.active s.st s.pc ev st' pc' h.wf (by rw [step_effective]; exact hstep)
  have hnint : ∀ now, ev ≠ .interrupt now := by
    intro now he; rw [he] at hr; exact hr
  obtain ⟨hpl, hrc⟩ := step_plain (eff s) s.st s.pc ev st' pc' h.plain hnint h.rc hnc.2 hstep
  rw [fire_eq s ev st' pc' hstep]
  exact ⟨⟨hnc.1, hpl, h.intr, hrc⟩, rfl⟩

/-- The shape of a link on which no API call is working. -/
structure EInv (l : Link) : Prop where
  stages   : ∀ s ∈ l.stages, EOK s
  noctl    : l.ctl = none
  attached : l.detached = false
  nocrash  : l.crash = none

theorem einv_modify (l : Link) (hi : EInv l) (i : Nat) (g : Stage → Stage) (hg : ∀ s, l.stages[i]? = some s → EOK (g s)) :
    ∀ s ∈ modifyAt l.stages i g, EOK s := by
  intro x hx
  obtain ⟨k, hk, hget⟩ := List.getElem_of_mem hx
  have hx' : (modifyAt l.stages i g)[k]? = some x := by rw [List.getElem?_eq_getElem hk, hget]
  rw [getElem?_modifyAt] at hx'
  by_cases hki : k = i
  · subst hki
    rw [if_pos rfl] at hx'
    cases hs : l.stages[k]? with
    | none => rw [hs] at hx'; cases hx'
    | some s =>
      rw [hs] at hx'
      simp only [Option.map_some, Option.some.injEq] at hx'
      subst hx'
      exact hg s hs
  · rw [if_neg hki] at hx'
    exact hi.stages x (List.mem_of_getElem? hx')

theorem e_ack (l : Link) (hi : EInv l) (i : Nat) (now : Int) (c : Chunk) (hoff : l.offerTo i = some c) :
    EInv (l.ackUpstream i now) := by
  by_cases h0 : i = 0
  · subst h0
    have : l.ackUpstream 0 now = { l with srcPend := none } := by simp [Link.ackUpstream]
    rw [this]
    exact ⟨hi.stages, hi.noctl, hi.attached, hi.nocrash⟩
  · rw [ackUpstream_pos' l hi.noctl i h0]
    rw [offerTo_pos' l hi.noctl i h0] at hoff
    refine ⟨?_, hi.noctl, hi.attached, hi.nocrash⟩
    apply einv_modify l hi
    intro a ha
    rw [ha] at hoff
    simp only [Option.bind_some] at hoff
    exact (fire_eok a (hi.stages a (List.mem_of_getElem? ha)) (.taken now) ⟨c, hoff⟩).1

theorem e_stages (l : Link) (hi : EInv l) (i : Nat) (g : Stage → Stage) (hg : ∀ s, l.stages[i]? = some s → EOK (g s))
    (r : Bool) : EInv { l with race := r, stages := modifyAt l.stages i g } :=
  ⟨einv_modify l hi i g hg, hi.noctl, hi.attached, hi.nocrash⟩

theorem eok_inq (s : Stage) (h : EOK s) (q : List Chunk) : EOK { s with inq := q } :=
  ⟨h.wf, h.plain, h.intr, h.rc⟩

theorem e_consume (l : Link) (hi : EInv l) (i : Nat) (src : InSrc) (b : Bool) (now : Int)
    (hoff : src = .rendezvous → b = true → ∃ c, l.offerTo i = some c) : EInv (l.consume i src b now) := by
  unfold Link.consume
  split
  · exact hi
  · rename_i hb
    cases src with
    | buffered =>
      exact e_stages l hi i _ (fun s hs => eok_inq s (hi.stages s (List.mem_of_getElem? hs)) _) l.race
    | rendezvous =>
      obtain ⟨c, hc⟩ := hoff rfl (by simpa using hb)
      exact e_ack l hi i now c hc


theorem e_sourceMove (l : Link) (now : Int) (l' : Link) (hi : EInv l) (h : l.sourceMove now = some l') : EInv l' := by
  unfold Link.sourceMove at h
  split at h
  · split at h
    · cases h; exact ⟨hi.stages, hi.noctl, hi.attached, hi.nocrash⟩
    · split at h
      · cases h; exact ⟨hi.stages, hi.noctl, hi.attached, hi.nocrash⟩
      · cases h
  · cases h

theorem e_field (l l0 : Link) (hi : EInv l0) (hs : l.stages = l0.stages) (hc : l.ctl = l0.ctl) (hd : l.detached = l0.detached)
    (hcr : l.crash = l0.crash) : EInv l :=
  ⟨by rw [hs]; exact hi.stages, by rw [hc]; exact hi.noctl, by rw [hd]; exact hi.attached, by rw [hcr]; exact hi.nocrash⟩

theorem e_sinkMove (l : Link) (now : Int) (l' : Link) (hi : EInv l) (h : l.sinkMove now = some l') : EInv l' := by
  unfold Link.sinkMove at h
  by_cases hdc : l.destClosed = true
  · rw [if_pos hdc] at h
    by_cases hdr : (!l.sinkDrain) = true
    · rw [if_pos hdr] at h; cases h
    · rw [if_neg hdr] at h
      simp only at h
      by_cases hz : (l.wired == 0) = true
      · rw [if_pos hz] at h; cases h
      · rw [if_neg hz] at h
        cases hoff : l.offerTo l.wired with
        | some c => simp only [hoff, Option.some.injEq] at h; subst h; exact e_ack l hi _ now c hoff
        | none =>
          simp only [hoff] at h
          split at h
          · cases h; exact ⟨hi.stages, hi.noctl, hi.attached, hi.nocrash⟩
          · cases h
  · rw [if_neg hdc] at h
    cases hsp : l.sinkPend with
    | some d =>
      simp only [hsp] at h
      split at h
      · cases h; exact ⟨hi.stages, hi.noctl, hi.attached, hi.nocrash⟩
      · split at h
        · cases h; exact ⟨hi.stages, hi.noctl, hi.attached, hi.nocrash⟩
        · cases h
    | none =>
      simp only [hsp] at h
      by_cases hz : (l.wired == 0) = true
      · rw [if_pos hz] at h; cases h
      · rw [if_neg hz] at h
        cases hoff : l.offerTo l.wired with
        | some c =>
          simp only [hoff, Option.some.injEq] at h
          subst h
          exact e_field _ _ (e_ack l hi _ now c hoff) rfl rfl rfl rfl
        | none =>
          simp only [hoff] at h
          split at h
          · cases h; exact ⟨hi.stages, hi.noctl, hi.attached, hi.nocrash⟩
          · cases h

theorem e_bufferMove (l : Link) (i : Nat) (now : Int) (l' : Link) (hi : EInv l) (h : l.bufferMove i now = some l') :
    EInv l' := by
  unfold Link.bufferMove at h
  cases hs : l.stages[i]? with
  | none => simp [hs] at h
  | some s =>
    simp only [hs] at h
    split at h
    · cases hoff : l.offerTo i with
      | none => simp [hoff] at h
      | some c =>
        simp only [hoff, Option.some.injEq] at h
        subst h
        have h1 := e_ack l hi i now c hoff
        exact e_stages _ h1 i _ (fun s hs => eok_inq s (h1.stages s (List.mem_of_getElem? hs)) _) _
    · cases h

theorem e_stageMove (l : Link) (i : Nat) (now : Int) (busy : Bool) (l' : Link) (hi : EInv l)
    (h : l.stageMove i now busy = some l') : EInv l' := by
  cases hs : l.stages[i]? with
  | none => simp [Link.stageMove, hs] at h
  | some s =>
    have hsi := hi.stages s (List.mem_of_getElem? hs)
    have hnc : ∀ w, s.pc ≠ .crash w := by
      intro w hp; have := hsi.plain; rw [hp] at this; simp [Plain] at this
    rw [stageMove_body l i now busy s hs hnc] at h
    unfold stageBody at h
    have hip : (s.intr == IntrSt.pending) = false := by rw [hsi.intr]; decide
    have hiw : (s.intr == IntrSt.waitRet) = false := by rw [hsi.intr]; decide
    by_cases h1 : duePart s now = true
    · rw [if_pos h1] at h
      cases h
      unfold duePart at h1
      cases ht : s.pc.timer with
      | none => simp [ht] at h1
      | some d =>
        refine e_stages l hi i _ (fun s' hs' => ?_) _
        rw [hs] at hs'; cases hs'
        exact (fire_eok s hsi (.timer now) ⟨d, ht⟩).1
    · rw [if_neg h1] at h
      simp only [hip, hiw, Bool.false_and, Bool.false_eq_true, if_false] at h
      by_cases h5 : (s.pc.wantsInput && !(l.detached && i + 1 == l.stages.length)) = true
      · rw [if_pos h5] at h
        have hw : s.pc.wantsInput = true := by simp only [Bool.and_eq_true] at h5; exact h5.1
        cases hio : l.inputOf i with
        | none => simp [hio] at h
        | some r =>
          obtain ⟨c, src⟩ := r
          simp only [hio, Option.some.injEq] at h
          subst h
          have h1 : EInv (l.consume i src c.isSome now) := by
            apply e_consume l hi
            intro hsrc hb
            subst hsrc
            unfold Link.inputOf at hio
            simp only [hs] at hio
            split at hio
            · cases hio
            · split at hio
              · rename_i c' hoff; exact ⟨c', hoff⟩
              · split at hio <;> cases hio
          -- the receiving stub is unchanged by the consumption except for its buffer
          refine e_stages _ h1 i _ (fun s' hs' => ?_) _
          have hs'ok := h1.stages s' (List.mem_of_getElem? hs')
          have hpc' : s'.pc = s.pc := by
            unfold Link.consume at hs'
            split at hs'
            · rw [hs] at hs'; cases hs'; rfl
            · cases src with
              | buffered =>
                simp only at hs'
                rw [getElem?_modifyAt, if_pos rfl, hs] at hs'
                simp only [Option.map_some, Option.some.injEq] at hs'
                subst hs'; rfl
              | rendezvous =>
                simp only at hs'
                by_cases h0 : i = 0
                · subst h0
                  have : l.ackUpstream 0 now = { l with srcPend := none } := by simp [Link.ackUpstream]
                  rw [this, hs] at hs'; cases hs'; rfl
                · rw [ackUpstream_pos' l hi.noctl i h0] at hs'
                  simp only at hs'
                  rw [getElem?_modifyAt, if_neg (by omega), hs] at hs'
                  cases hs'; rfl
          exact (fire_eok s' hs'ok (.input c now drawsConst) (by simp only [Receivable]; rw [hpc']; exact hw)).1
      · rw [if_neg h5] at h
        split at h
        · split at h
          · rename_i c' src hio
            cases h
            apply e_consume l hi
            intro hsrc _
            subst hsrc
            unfold Link.inputOf at hio
            simp only [hs] at hio
            split at hio
            · cases hio
            · split at hio
              · rename_i c'' hoff; exact ⟨c'', hoff⟩
              · split at hio <;> cases hio
          · cases h
        · cases h

/-- **C15 (shape).**  Every move of a link on which no API call is working keeps its shape:
no stub has panicked, none is left interrupted, and a stub's `Pipe` has returned exactly if the
stub is closed — for every toxic type and attribute value, whatever the peers do. -/
theorem C15_move_shape (l : Link) (chain : List TCfg) (now : Int) (busy : Bool) (l' : Link) (hi : EInv l)
    (h : l.move chain now busy = some l') : EInv l' := by
  unfold Link.move at h
  rw [if_neg (by simp [hi.nocrash])] at h
  obtain ⟨f, hf, hfa⟩ := firstSome_some _ l' h
  simp only [List.mem_append, List.mem_cons, List.mem_flatMap, List.mem_reverse, List.mem_range,
    List.not_mem_nil, or_false] at hf
  rcases hf with (hf | hf) | hf
  · rcases hf with rfl | rfl
    · rw [ctlMove_none' l chain now hi.noctl] at hfa; cases hfa
    · exact e_sinkMove l now l' hi hfa
  · obtain ⟨i, _, hf⟩ := hf
    rcases hf with rfl | rfl
    · exact e_stageMove l i now busy l' hi hfa
    · exact e_bufferMove l i now l' hi hfa
  · subst hf
    exact e_sourceMove l now l' hi hfa


theorem e_recvAlt (l : Link) (i : Nat) (now : Int) (l' : Link) (hi : EInv l) (h : l.recvAlt i now = some l') : EInv l' := by
  unfold Link.recvAlt at h
  cases hs : l.stages[i]? with
  | none => simp [hs] at h
  | some s =>
    simp only [hs] at h
    have hsi := hi.stages s (List.mem_of_getElem? hs)
    unfold recvPart at h
    by_cases h5 : (s.pc.wantsInput && !(l.detached && i + 1 == l.stages.length)) = true
    · rw [if_pos h5] at h
      have hw : s.pc.wantsInput = true := by simp only [Bool.and_eq_true] at h5; exact h5.1
      cases hio : l.inputOf i with
      | none => simp [hio] at h
      | some r =>
        obtain ⟨c, src⟩ := r
        simp only [hio, Option.some.injEq] at h
        subst h
        have h1 : EInv (l.consume i src c.isSome now) := by
          apply e_consume l hi
          intro hsrc hb
          subst hsrc
          unfold Link.inputOf at hio
          simp only [hs] at hio
          split at hio
          · cases hio
          · split at hio
            · rename_i c' hoff; exact ⟨c', hoff⟩
            · split at hio <;> cases hio
        -- the receiving stub is unchanged by the consumption except for its buffer
        refine e_stages _ h1 i _ (fun s' hs' => ?_) _
        have hs'ok := h1.stages s' (List.mem_of_getElem? hs')
        have hpc' : s'.pc = s.pc := by
          unfold Link.consume at hs'
          split at hs'
          · rw [hs] at hs'; cases hs'; rfl
          · cases src with
            | buffered =>
              simp only at hs'
              rw [getElem?_modifyAt, if_pos rfl, hs] at hs'
              simp only [Option.map_some, Option.some.injEq] at hs'
              subst hs'; rfl
            | rendezvous =>
              simp only at hs'
              by_cases h0 : i = 0
              · subst h0
                have : l.ackUpstream 0 now = { l with srcPend := none } := by simp [Link.ackUpstream]
                rw [this, hs] at hs'; cases hs'; rfl
              · rw [ackUpstream_pos' l hi.noctl i h0] at hs'
                simp only at hs'
                rw [getElem?_modifyAt, if_neg (by omega), hs] at hs'
                cases hs'; rfl
        exact (fire_eok s' hs'ok (.input c now drawsConst) (by simp only [Receivable]; rw [hpc']; exact hw)).1
    · rw [if_neg h5] at h; cases h

/-- … whichever goroutine moves, whichever case a `select` picks. -/
theorem C15_anymove_shape (l : Link) (chain : List TCfg) (now : Int) (busy : Bool) (l' : Link) (hi : EInv l)
    (h : l.AnyMove chain now busy l') : EInv l' := by
  rcases h.2 with h' | h' | ⟨i, h'⟩ | ⟨i, h'⟩ | h' | ⟨i, h'⟩ | ⟨i, h'⟩ | h'
  · rw [ctlMove_none' l chain now hi.noctl] at h'; cases h'
  · exact e_sinkMove l now l' hi h'
  · exact e_stageMove l i now busy l' hi h'
  · exact e_bufferMove l i now l' hi h'
  · exact e_sourceMove l now l' hi h'
  · exact e_recvAlt l i now l' hi h'
  · rw [intrAlt_none l i now (fun s hs => (hi.stages s (List.mem_of_getElem? hs)).intr)] at h'; cases h'
  · rw [ctlTakeAlt_none l now hi.noctl] at h'; cases h'

theorem EInv_new (chain : List TCfg) (now : Int) : EInv (Link.new chain now) := by
  refine ⟨?_, rfl, rfl, rfl⟩
  intro s hs
  simp only [Link.new, List.mem_map] at hs
  obtain ⟨t, _, rfl⟩ := hs
  rw [Stage.fresh_start]
  have hpl : Plain (Toxi.Toxic.start t.cfg t.active now) ∧ Toxi.Toxic.start t.cfg t.active now ≠ .ret := by
    unfold Toxi.Toxic.start
    cases t.active
    · simp [Plain]
    · cases t.cfg with
      | timeout tt => by_cases hp : wrap64 (tt * ms) > 0 <;> simp [hp, Plain]
      | _ => simp [Plain]
  refine ⟨by simpa [eff, Stage.fresh] using start_wf t.cfg t.active now, hpl.1, rfl, ?_⟩
  constructor
  · intro h; exact absurd h hpl.2
  · intro h; simp [Stage.fresh] at h

/-- What the peers and the proxy's `stop` do to a link (more data, end of stream, a receiver
that stops or resumes reading, writes that start failing, the source being cut) does not touch
its shape. -/
theorem EInv_env (l : Link) (hi : EInv l) (q : List Bytes) (eof ready fail cut : Bool) (hi' : Nat) :
    EInv { l with srcQ := q, srcEOF := eof, sinkReady := ready, sinkFail := fail, srcCut := cut, cutHi := hi' } :=
  ⟨hi.stages, hi.noctl, hi.attached, hi.nocrash⟩

/-- An idle stub with anything visible on its input can move. -/
theorem e_can_receive (l : Link) (hi : EInv l) (i : Nat) (now : Int) (s : Stage)
    (hs : l.stages[i]? = some s) (hw : s.pc.wantsInput = true) (hnt : s.pc.timer = none)
    (hin : s.inq ≠ [] ∨ (∃ c, l.offerTo i = some c) ∨ l.inputClosed i = true) :
    l.stageMove i now ≠ none := by
  have hsi := hi.stages s (List.mem_of_getElem? hs)
  have hnc : ∀ w, s.pc ≠ .crash w := by
    intro w hp; have := hsi.plain; rw [hp] at this; simp [Plain] at this
  rw [stageMove_body l i now false s hs hnc]
  unfold stageBody
  have hip : (s.intr == IntrSt.pending) = false := by rw [hsi.intr]; decide
  have hiw : (s.intr == IntrSt.waitRet) = false := by rw [hsi.intr]; decide
  have hdue : duePart s now = false := by simp [duePart, hnt]
  simp only [hdue, hip, hiw, Bool.false_and, Bool.false_eq_true, if_false, hw, hi.attached, Bool.true_and,
    Bool.not_false, if_true]
  have hio : ∃ c src, l.inputOf i = some (c, src) := by
    unfold Link.inputOf
    simp only [hs]
    cases hq' : s.inq with
    | cons c rest => exact ⟨some c, .buffered, rfl⟩
    | nil =>
      cases hoff : l.offerTo i with
      | some c => exact ⟨some c, .rendezvous, rfl⟩
      | none =>
        rcases hin with h | ⟨c, hc⟩ | h
        · exact absurd hq' h
        · rw [hoff] at hc; cases hc
        · simp only [h, if_true]; exact ⟨none, .buffered, rfl⟩
  obtain ⟨c, src, hio⟩ := hio
  simp [hio]

/-- A closed stub drains whatever is offered to it. -/
theorem e_closed_drains (l : Link) (hi : EInv l) (i : Nat) (now : Int) (s : Stage)
    (hs : l.stages[i]? = some s) (hcl : s.st.closed = true)
    (hin : s.inq ≠ [] ∨ ∃ c, l.offerTo i = some c) : l.stageMove i now ≠ none := by
  have hsi := hi.stages s (List.mem_of_getElem? hs)
  have hpc : s.pc = .ret := hsi.rc.mpr hcl
  have hnc : ∀ w, s.pc ≠ .crash w := by intro w hp; rw [hpc] at hp; cases hp
  rw [stageMove_body l i now false s hs hnc]
  unfold stageBody
  have hip : (s.intr == IntrSt.pending) = false := by rw [hsi.intr]; decide
  have hiw : (s.intr == IntrSt.waitRet) = false := by rw [hsi.intr]; decide
  have hdue : duePart s now = false := by simp [duePart, hpc, Pc.timer]
  simp only [hdue, hip, hiw, Bool.false_and, Bool.false_eq_true, if_false, hpc, Pc.wantsInput, hcl, Pc.running,
    Bool.not_false, Bool.true_and, ctlDrains_false' l hi.noctl, if_true]
  have hio : ∃ c src, l.inputOf i = some (some c, src) := by
    unfold Link.inputOf
    simp only [hs]
    cases hq' : s.inq with
    | cons c rest => exact ⟨c, .buffered, rfl⟩
    | nil =>
      rcases hin with h | ⟨c, hc⟩
      · exact absurd hq' h
      · simp only [hc]; exact ⟨c, .rendezvous, rfl⟩
  obtain ⟨c, src, hio⟩ := hio
  simp [hio]


/-! ### A cleanly closed destination stays behind a closed last stub -/

/-- From `l` to `l'` no stub re-opens and the sink's state is untouched. -/
def Keeps (l l' : Link) : Prop :=
  l'.stages.length = l.stages.length ∧
  (∀ (k : Nat) (s s' : Stage), l.stages[k]? = some s → l'.stages[k]? = some s' → s.st.closed = true → s'.st.closed = true) ∧
  l'.destClosed = l.destClosed ∧ l'.sinkDrain = l.sinkDrain

theorem keeps_refl (l : Link) : Keeps l l :=
  ⟨rfl, fun k s s' h h' hc => by rw [h] at h'; cases h'; exact hc, rfl, rfl⟩

theorem keeps_trans {a b c : Link} (h1 : Keeps a b) (h2 : Keeps b c) : Keeps a c := by
  refine ⟨h2.1.trans h1.1, ?_, h2.2.2.1.trans h1.2.2.1, h2.2.2.2.trans h1.2.2.2⟩
  intro k s s'' hs hs'' hc
  cases hb : b.stages[k]? with
  | none =>
    have hlt : k < a.stages.length := by
      rcases Nat.lt_or_ge k a.stages.length with h | h
      · exact h
      · rw [List.getElem?_eq_none h] at hs; cases hs
    rw [List.getElem?_eq_none_iff] at hb
    have := h1.1
    omega
  | some s' => exact h2.2.1 k s' s'' hb hs'' (h1.2.1 k s s' hs hb hc)

theorem keeps_stages (l0 l' : Link) (i : Nat) (g : Stage → Stage) (hs : l'.stages = modifyAt l0.stages i g)
    (hd : l'.destClosed = l0.destClosed) (hdr : l'.sinkDrain = l0.sinkDrain)
    (hg : ∀ s, l0.stages[i]? = some s → s.st.closed = true → (g s).st.closed = true) : Keeps l0 l' := by
  refine ⟨by rw [hs, length_modifyAt], ?_, hd, hdr⟩
  intro k s s' h h' hc
  rw [hs, getElem?_modifyAt] at h'
  by_cases hk : k = i
  · subst hk
    rw [if_pos rfl, h] at h'
    simp only [Option.map_some, Option.some.injEq] at h'
    subst h'
    exact hg s h hc
  · rw [if_neg hk, h] at h'; cases h'; exact hc

/-- Nothing is receivable by a stub whose `Pipe` has returned. -/
theorem not_receivable_closed (s : Stage) (h : EOK s) (hc : s.st.closed = true) (ev : Event) : ¬ Receivable s.pc ev := by
  have hpc := h.rc.mpr hc
  rw [hpc]
  cases ev <;> simp [Receivable, Pc.timer, Pc.offer, Pc.wantsInput]

theorem k_ack (l : Link) (hi : EInv l) (i : Nat) (now : Int) (c : Chunk) (hoff : l.offerTo i = some c) :
    Keeps l (l.ackUpstream i now) := by
  by_cases h0 : i = 0
  · subst h0
    have : l.ackUpstream 0 now = { l with srcPend := none } := by simp [Link.ackUpstream]
    rw [this]
    exact ⟨rfl, fun k s s' h h' hc => by rw [h] at h'; cases h'; exact hc, rfl, rfl⟩
  · rw [ackUpstream_pos' l hi.noctl i h0]
    rw [offerTo_pos' l hi.noctl i h0] at hoff
    refine keeps_stages l _ (i - 1) _ rfl rfl rfl ?_
    intro a ha hc
    rw [ha] at hoff
    simp only [Option.bind_some] at hoff
    exact absurd ⟨c, hoff⟩ (not_receivable_closed a (hi.stages a (List.mem_of_getElem? ha)) hc (.taken now))

theorem k_consume (l : Link) (hi : EInv l) (i : Nat) (src : InSrc) (b : Bool) (now : Int)
    (hoff : src = .rendezvous → b = true → ∃ c, l.offerTo i = some c) : Keeps l (l.consume i src b now) := by
  unfold Link.consume
  split
  · exact keeps_refl l
  · rename_i hb
    cases src with
    | buffered => exact keeps_stages l _ i _ rfl rfl rfl (fun _ _ hc => hc)
    | rendezvous =>
      obtain ⟨c, hc⟩ := hoff rfl (by simpa using hb)
      exact k_ack l hi i now c hc

theorem k_sourceMove (l : Link) (now : Int) (l' : Link) (h : l.sourceMove now = some l') : Keeps l l' := by
  unfold Link.sourceMove at h
  split at h
  · split at h
    · cases h; exact ⟨rfl, fun k s s' h h' hc => by rw [h] at h'; cases h'; exact hc, rfl, rfl⟩
    · split at h
      · cases h; exact ⟨rfl, fun k s s' h h' hc => by rw [h] at h'; cases h'; exact hc, rfl, rfl⟩
      · cases h
  · cases h

theorem k_bufferMove (l : Link) (i : Nat) (now : Int) (l' : Link) (hi : EInv l) (h : l.bufferMove i now = some l') :
    Keeps l l' := by
  unfold Link.bufferMove at h
  cases hs : l.stages[i]? with
  | none => simp [hs] at h
  | some s =>
    simp only [hs] at h
    split at h
    · cases hoff : l.offerTo i with
      | none => simp [hoff] at h
      | some c =>
        simp only [hoff, Option.some.injEq] at h
        subst h
        exact keeps_trans (k_ack l hi i now c hoff) (keeps_stages _ _ i _ rfl rfl rfl (fun _ _ hc => hc))
    · cases h

theorem inputOf_rendezvous (l : Link) (i : Nat) (s : Stage) (hs : l.stages[i]? = some s) (c : Option Chunk)
    (h : l.inputOf i = some (c, .rendezvous)) : ∃ c', l.offerTo i = some c' := by
  unfold Link.inputOf at h
  simp only [hs] at h
  split at h
  · cases h
  · split at h
    · rename_i c' hoff; exact ⟨c', hoff⟩
    · split at h <;> cases h

theorem k_stageMove (l : Link) (i : Nat) (now : Int) (busy : Bool) (l' : Link) (hi : EInv l)
    (h : l.stageMove i now busy = some l') : Keeps l l' := by
  cases hs : l.stages[i]? with
  | none => simp [Link.stageMove, hs] at h
  | some s =>
    have hsi := hi.stages s (List.mem_of_getElem? hs)
    have hnc : ∀ w, s.pc ≠ .crash w := by
      intro w hp; have := hsi.plain; rw [hp] at this; simp [Plain] at this
    rw [stageMove_body l i now busy s hs hnc] at h
    unfold stageBody at h
    have hip : (s.intr == IntrSt.pending) = false := by rw [hsi.intr]; decide
    have hiw : (s.intr == IntrSt.waitRet) = false := by rw [hsi.intr]; decide
    by_cases h1 : duePart s now = true
    · rw [if_pos h1] at h
      cases h
      unfold duePart at h1
      cases ht : s.pc.timer with
      | none => simp [ht] at h1
      | some d =>
        refine keeps_stages l _ i _ rfl rfl rfl ?_
        intro s' hs' hc
        rw [hs] at hs'; cases hs'
        exact absurd ⟨d, ht⟩ (not_receivable_closed s hsi hc (.timer now))
    · rw [if_neg h1] at h
      simp only [hip, hiw, Bool.false_and, Bool.false_eq_true, if_false] at h
      by_cases h5 : (s.pc.wantsInput && !(l.detached && i + 1 == l.stages.length)) = true
      · rw [if_pos h5] at h
        have hw : s.pc.wantsInput = true := by simp only [Bool.and_eq_true] at h5; exact h5.1
        have hopen : s.st.closed = false := by
          cases hc : s.st.closed with
          | false => rfl
          | true => exact absurd hw (not_receivable_closed s hsi hc (.input none now []))
        cases hio : l.inputOf i with
        | none => simp [hio] at h
        | some r =>
          obtain ⟨c, src⟩ := r
          simp only [hio, Option.some.injEq] at h
          subst h
          have h1 : Keeps l (l.consume i src c.isSome now) := by
            apply k_consume l hi
            intro hsrc _
            subst hsrc
            exact inputOf_rendezvous l i s hs c hio
          refine keeps_trans h1 (keeps_stages _ _ i _ rfl rfl rfl ?_)
          intro s' hs' hc'
          -- the receiving stub was not closed
          exfalso
          have hlt : i < l.stages.length := by
            rcases Nat.lt_or_ge i l.stages.length with h' | h'
            · exact h'
            · rw [List.getElem?_eq_none h'] at hs; cases hs
          -- its closedness is that of `s` (consumption changes at most its buffer, or its upstream)
          have hcl' : s'.st.closed = s.st.closed := by
            unfold Link.consume at hs'
            split at hs'
            · rw [hs] at hs'; cases hs'; rfl
            · cases src with
              | buffered =>
                simp only at hs'
                rw [getElem?_modifyAt, if_pos rfl, hs] at hs'
                simp only [Option.map_some, Option.some.injEq] at hs'
                subst hs'; rfl
              | rendezvous =>
                simp only at hs'
                by_cases h0 : i = 0
                · subst h0
                  have : l.ackUpstream 0 now = { l with srcPend := none } := by simp [Link.ackUpstream]
                  rw [this, hs] at hs'; cases hs'; rfl
                · rw [ackUpstream_pos' l hi.noctl i h0] at hs'
                  simp only at hs'
                  rw [getElem?_modifyAt, if_neg (by omega), hs] at hs'
                  cases hs'; rfl
          rw [hcl', hopen] at hc'; cases hc'
      · rw [if_neg h5] at h
        split at h
        · split at h
          · rename_i c' src hio
            cases h
            apply k_consume l hi
            intro hsrc _
            subst hsrc
            exact inputOf_rendezvous l i s hs (some c') hio
          · cases h
        · cases h

/-- The destination is closed without a drain goroutine only behind a closed last stub. -/
def SQ (l : Link) : Prop :=
  l.destClosed = true → l.sinkDrain = false → ∀ a, l.stages[l.stages.length - 1]? = some a → a.st.closed = true

theorem sq_keeps {l l' : Link} (h : SQ l) (hk : Keeps l l') : SQ l' := by
  intro hd hdr a ha
  rw [hk.2.2.1] at hd
  rw [hk.2.2.2] at hdr
  rw [hk.1] at ha
  cases hb : l.stages[l.stages.length - 1]? with
  | none =>
    rw [List.getElem?_eq_none_iff] at hb
    have : l.stages.length - 1 < l'.stages.length := by
      rcases Nat.lt_or_ge (l.stages.length - 1) l'.stages.length with h' | h'
      · exact h'
      · rw [List.getElem?_eq_none h'] at ha; cases ha
    have := hk.1
    omega
  | some b => exact hk.2.1 _ b a hb ha (h hd hdr b hb)

theorem sq_sinkMove (l : Link) (now : Int) (l' : Link) (hi : EInv l) (hq : SQ l) (h : l.sinkMove now = some l') : SQ l' := by
  have hw : l.wired = l.stages.length := by simp [Link.wired, hi.attached]
  unfold Link.sinkMove at h
  by_cases hdc : l.destClosed = true
  · rw [if_pos hdc] at h
    by_cases hdr : (!l.sinkDrain) = true
    · rw [if_pos hdr] at h; cases h
    · rw [if_neg hdr] at h
      have hdr' : l.sinkDrain = true := by simpa using hdr
      simp only at h
      by_cases hz : (l.wired == 0) = true
      · rw [if_pos hz] at h; cases h
      · rw [if_neg hz] at h
        cases hoff : l.offerTo l.wired with
        | some c =>
          simp only [hoff, Option.some.injEq] at h
          subst h
          have hk := k_ack l hi l.wired now c hoff
          intro _ hdr2
          rw [hk.2.2.2, hdr'] at hdr2; cases hdr2
        | none =>
          simp only [hoff] at h
          split at h
          · rename_i hic
            cases h
            intro _ _ a ha
            simp only at ha
            unfold Link.inputClosed at hic
            rw [hw] at hic hz
            simp only [hz, Bool.false_eq_true, if_false, ha] at hic
            exact hic
          · cases h
  · rw [if_neg hdc] at h
    have hdc' : l.destClosed = false := by simpa using hdc
    cases hsp : l.sinkPend with
    | some d =>
      simp only [hsp] at h
      split at h
      · cases h; intro _ hdr2; cases hdr2
      · split at h
        · cases h; intro hd2; simp only at hd2; rw [hdc'] at hd2; cases hd2
        · cases h
    | none =>
      simp only [hsp] at h
      by_cases hz : (l.wired == 0) = true
      · rw [if_pos hz] at h; cases h
      · rw [if_neg hz] at h
        cases hoff : l.offerTo l.wired with
        | some c =>
          simp only [hoff, Option.some.injEq] at h
          subst h
          have hk := k_ack l hi l.wired now c hoff
          intro hd2
          simp only at hd2
          rw [hk.2.2.1, hdc'] at hd2; cases hd2
        | none =>
          simp only [hoff] at h
          split at h
          · rename_i hic
            cases h
            intro _ _ a ha
            simp only at ha
            unfold Link.inputClosed at hic
            rw [hw] at hic hz
            simp only [hz, Bool.false_eq_true, if_false, ha] at hic
            exact hic
          · cases h

theorem C15_move_sq (l : Link) (chain : List TCfg) (now : Int) (busy : Bool) (l' : Link) (hi : EInv l) (hq : SQ l)
    (h : l.move chain now busy = some l') : SQ l' := by
  unfold Link.move at h
  rw [if_neg (by simp [hi.nocrash])] at h
  obtain ⟨f, hf, hfa⟩ := firstSome_some _ l' h
  simp only [List.mem_append, List.mem_cons, List.mem_flatMap, List.mem_reverse, List.mem_range,
    List.not_mem_nil, or_false] at hf
  rcases hf with (hf | hf) | hf
  · rcases hf with rfl | rfl
    · rw [ctlMove_none' l chain now hi.noctl] at hfa; cases hfa
    · exact sq_sinkMove l now l' hi hq hfa
  · obtain ⟨i, _, hf⟩ := hf
    rcases hf with rfl | rfl
    · exact sq_keeps hq (k_stageMove l i now busy l' hi hfa)
    · exact sq_keeps hq (k_bufferMove l i now l' hi hfa)
  · subst hf
    exact sq_keeps hq (k_sourceMove l now l' hfa)


theorem k_recvAlt (l : Link) (i : Nat) (now : Int) (l' : Link) (hi : EInv l) (h : l.recvAlt i now = some l') : Keeps l l' := by
  unfold Link.recvAlt at h
  cases hs : l.stages[i]? with
  | none => simp [hs] at h
  | some s =>
    simp only [hs] at h
    have hsi := hi.stages s (List.mem_of_getElem? hs)
    unfold recvPart at h
    by_cases h5 : (s.pc.wantsInput && !(l.detached && i + 1 == l.stages.length)) = true
    · rw [if_pos h5] at h
      have hw : s.pc.wantsInput = true := by simp only [Bool.and_eq_true] at h5; exact h5.1
      have hopen : s.st.closed = false := by
        cases hc : s.st.closed with
        | false => rfl
        | true => exact absurd hw (not_receivable_closed s hsi hc (.input none now []))
      cases hio : l.inputOf i with
      | none => simp [hio] at h
      | some r =>
        obtain ⟨c, src⟩ := r
        simp only [hio, Option.some.injEq] at h
        subst h
        have h1 : Keeps l (l.consume i src c.isSome now) := by
          apply k_consume l hi
          intro hsrc _
          subst hsrc
          exact inputOf_rendezvous l i s hs c hio
        refine keeps_trans h1 (keeps_stages _ _ i _ rfl rfl rfl ?_)
        intro s' hs' hc'
        -- the receiving stub was not closed
        exfalso
        have hlt : i < l.stages.length := by
          rcases Nat.lt_or_ge i l.stages.length with h' | h'
          · exact h'
          · rw [List.getElem?_eq_none h'] at hs; cases hs
        -- its closedness is that of `s` (consumption changes at most its buffer, or its upstream)
        have hcl' : s'.st.closed = s.st.closed := by
          unfold Link.consume at hs'
          split at hs'
          · rw [hs] at hs'; cases hs'; rfl
          · cases src with
            | buffered =>
              simp only at hs'
              rw [getElem?_modifyAt, if_pos rfl, hs] at hs'
              simp only [Option.map_some, Option.some.injEq] at hs'
              subst hs'; rfl
            | rendezvous =>
              simp only at hs'
              by_cases h0 : i = 0
              · subst h0
                have : l.ackUpstream 0 now = { l with srcPend := none } := by simp [Link.ackUpstream]
                rw [this, hs] at hs'; cases hs'; rfl
              · rw [ackUpstream_pos' l hi.noctl i h0] at hs'
                simp only at hs'
                rw [getElem?_modifyAt, if_neg (by omega), hs] at hs'
                cases hs'; rfl
        rw [hcl', hopen] at hc'; cases hc'
    · rw [if_neg h5] at h; cases h

theorem C15_anymove_sq (l : Link) (chain : List TCfg) (now : Int) (busy : Bool) (l' : Link) (hi : EInv l) (hq : SQ l)
    (h : l.AnyMove chain now busy l') : SQ l' := by
  rcases h.2 with h' | h' | ⟨i, h'⟩ | ⟨i, h'⟩ | h' | ⟨i, h'⟩ | ⟨i, h'⟩ | h'
  · rw [ctlMove_none' l chain now hi.noctl] at h'; cases h'
  · exact sq_sinkMove l now l' hi hq h'
  · exact sq_keeps hq (k_stageMove l i now busy l' hi h')
  · exact sq_keeps hq (k_bufferMove l i now l' hi h')
  · exact sq_keeps hq (k_sourceMove l now l' h')
  · exact sq_keeps hq (k_recvAlt l i now l' hi h')
  · rw [intrAlt_none l i now (fun s hs => (hi.stages s (List.mem_of_getElem? hs)).intr)] at h'; cases h'
  · rw [ctlTakeAlt_none l now hi.noctl] at h'; cases h'

theorem SQ_new (chain : List TCfg) (now : Int) : SQ (Link.new chain now) := by
  intro h; cases h

theorem SQ_env (l : Link) (h : SQ l) (q : List Bytes) (eof ready fail cut : Bool) (hi' : Nat) :
    SQ { l with srcQ := q, srcEOF := eof, sinkReady := ready, sinkFail := fail, srcCut := cut, cutHi := hi' } := h

/-- **C15 (nothing is left behind).**  A link of any toxics on which no API call is working,
whose source has ended (the peer closed or reset, or the proxy cut the connection) and which has
come to rest — no goroutine can move, no timer is pending, the receiver accepts writes or they
fail — has no goroutine left: the source goroutine has ended, every stub is closed and its
`Pipe` has returned, the sink has closed the destination and left no drain goroutine. -/
theorem C15_at_rest (l : Link) (chain : List TCfg) (now : Int) (hi : EInv l) (hsq : SQ l)
    (hq : l.move chain now = none) (hq0 : l.srcQ = []) (heof : l.srcEOF = true)
    (hrw : l.sinkReady = true ∨ l.sinkFail = true)
    (hnt : ∀ s ∈ l.stages, s.pc.timer = none) (hne : l.stages ≠ []) :
    l.srcDone = true ∧ (∀ s ∈ l.stages, s.pc.running = false ∧ s.st.closed = true) ∧
    l.destClosed = true ∧ l.sinkDrain = false := by
  obtain ⟨hsink, hstages, hsrc⟩ := quiescent_parts' l chain now hi.nocrash hq
  have hn : 0 < l.stages.length := List.length_pos_iff.mpr hne
  have hnz : l.stages.length ≠ 0 := Nat.pos_iff_ne_zero.mp hn
  have hw : l.wired = l.stages.length := by simp [Link.wired, hi.attached]
  have hz : (l.stages.length == 0) = false := by simpa using hnz
  have hget : ∀ i, i < l.stages.length → ∃ s, l.stages[i]? = some s := by
    intro i hi'; exact ⟨l.stages[i], by rw [List.getElem?_eq_getElem hi']⟩
  -- the sink is not holding a write
  have hsp : l.destClosed = false → l.sinkPend = none := by
    intro hdc
    cases hsp : l.sinkPend with
    | none => rfl
    | some d =>
      unfold Link.sinkMove at hsink
      rw [if_neg (by simp [hdc])] at hsink
      simp only [hsp] at hsink
      rcases hrw with hr | hf
      · by_cases hf : l.sinkFail = true
        · rw [if_pos hf] at hsink; cases hsink
        · rw [if_neg hf, if_pos hr] at hsink; cases hsink
      · rw [if_pos hf] at hsink; cases hsink
  -- the sink takes whatever the last stub offers
  have hlast : ∀ a, l.stages[l.stages.length - 1]? = some a → a.pc.offer = none := by
    intro a ha
    cases hoff : a.pc.offer with
    | none => rfl
    | some c =>
      exfalso
      have hoffer : l.offerTo l.stages.length = some c := by
        rw [offerTo_pos' l hi.noctl _ hnz]; simp [ha, hoff]
      unfold Link.sinkMove at hsink
      by_cases hdc : l.destClosed = true
      · rw [if_pos hdc] at hsink
        by_cases hdr : l.sinkDrain = true
        · simp [hdr, hw, hz, hoffer] at hsink
        · have hdr' : l.sinkDrain = false := by simpa using hdr
          have hcl := hsq hdc hdr' a ha
          have hpc := (hi.stages a (List.mem_of_getElem? ha)).rc.mpr hcl
          rw [hpc] at hoff; simp [Pc.offer] at hoff
      · have hdc' : l.destClosed = false := by simpa using hdc
        rw [if_neg hdc] at hsink
        simp [hsp hdc', hw, hz, hoffer] at hsink
  -- what a stub at rest can be doing: waiting for input with nothing visible, or gone
  have hshape : ∀ (i : Nat) (s : Stage), l.stages[i]? = some s → s.pc.offer = none →
      (s.pc.wantsInput = true ∧ s.st.closed = false) ∨ (s.pc = .ret ∧ s.st.closed = true) := by
    intro i s hs hno
    have hsi := hi.stages s (List.mem_of_getElem? hs)
    have htm := hnt s (List.mem_of_getElem? hs)
    cases hpc : s.pc with
    | idle carry =>
      left
      refine ⟨by simp [Pc.wantsInput], ?_⟩
      cases hc : s.st.closed with
      | false => rfl
      | true => have := hsi.rc.mpr hc; rw [hpc] at this; cases this
    | ret => exact Or.inr ⟨rfl, hsi.rc.mp hpc⟩
    | out c k => rw [hpc] at hno; simp [Pc.offer] at hno
    | idleT d => rw [hpc] at htm; simp [Pc.timer] at htm
    | nap d w => rw [hpc] at htm; simp [Pc.timer] at htm
    | hold d => rw [hpc] at htm; simp [Pc.timer] at htm
    | flush c d => rw [hpc] at htm; simp [Pc.timer] at htm
    | crash w => have := hsi.plain; rw [hpc] at this; simp [Plain] at this
  -- from the sink's end backwards: no stub is blocked in a send, none has a chunk queued
  have key : ∀ k, ∀ i, l.stages.length - k ≤ i → i < l.stages.length →
      ∀ s : Stage, l.stages[i]? = some s → s.pc.offer = none ∧ s.inq = [] := by
    intro k
    induction k with
    | zero => intro i h1 h2; omega
    | succ k ih =>
      intro i h1 h2 s hs
      by_cases hold : l.stages.length - k ≤ i
      · exact ih i hold h2 s hs
      · have hno : s.pc.offer = none := by
          by_cases hl : i + 1 = l.stages.length
          · have : l.stages.length - 1 = i := by omega
            exact hlast s (by rw [this]; exact hs)
          · have hi1 : i + 1 < l.stages.length := by omega
            obtain ⟨b, hb⟩ := hget (i + 1) hi1
            obtain ⟨hbo, hbq⟩ := ih (i + 1) (by omega) hi1 b hb
            cases hoff : s.pc.offer with
            | none => rfl
            | some c =>
              exfalso
              have hoffer : l.offerTo (i + 1) = some c := by
                rw [offerTo_pos' l hi.noctl (i + 1) (by omega)]; simp [hs, hoff]
              rcases hshape (i + 1) b hb hbo with ⟨hbw, _⟩ | ⟨_, hbc⟩
              · exact e_can_receive l hi (i + 1) now b hb hbw (hnt b (List.mem_of_getElem? hb))
                  (Or.inr (Or.inl ⟨c, hoffer⟩)) (hstages (i + 1) hi1).1
              · exact e_closed_drains l hi (i + 1) now b hb hbc (Or.inr ⟨c, hoffer⟩) (hstages (i + 1) hi1).1
        refine ⟨hno, ?_⟩
        cases hinq : s.inq with
        | nil => rfl
        | cons c rest =>
          exfalso
          rcases hshape i s hs hno with ⟨hw', _⟩ | ⟨_, hc⟩
          · exact e_can_receive l hi i now s hs hw' (hnt s (List.mem_of_getElem? hs)) (Or.inl (by simp [hinq]))
              (hstages i h2).1
          · exact e_closed_drains l hi i now s hs hc (Or.inl (by simp [hinq])) (hstages i h2).1
  have hall : ∀ (i : Nat) (s : Stage), l.stages[i]? = some s → s.pc.offer = none ∧ s.inq = [] := by
    intro i s hs
    have hlt : i < l.stages.length := by
      rcases Nat.lt_or_ge i l.stages.length with h | h
      · exact h
      · rw [List.getElem?_eq_none h] at hs; cases hs
    exact key l.stages.length i (by omega) hlt s hs
  -- the source goroutine has handed everything over and has ended
  have hsrcp : l.srcPend = none := by
    cases hsp' : l.srcPend with
    | none => rfl
    | some c =>
      exfalso
      obtain ⟨s0, h0⟩ := hget 0 hn
      have hoffer : l.offerTo 0 = some c := by simp [Link.offerTo, hsp']
      rcases hshape 0 s0 h0 (hall 0 s0 h0).1 with ⟨hw', _⟩ | ⟨_, hc⟩
      · exact e_can_receive l hi 0 now s0 h0 hw' (hnt s0 (List.mem_of_getElem? h0)) (Or.inr (Or.inl ⟨c, hoffer⟩))
          (hstages 0 hn).1
      · exact e_closed_drains l hi 0 now s0 h0 hc (Or.inr ⟨c, hoffer⟩) (hstages 0 hn).1
  have hsd : l.srcDone = true := by
    cases hsd : l.srcDone with
    | true => rfl
    | false =>
      unfold Link.sourceMove at hsrc
      simp [hsrcp, hsd, hq0, heof] at hsrc
  -- from the source's end forwards: every stub has seen the end of its input and closed
  have fwd : ∀ i : Nat, i < l.stages.length → ∀ s : Stage, l.stages[i]? = some s → s.pc = .ret ∧ s.st.closed = true := by
    intro i
    induction i with
    | zero =>
      intro h0 s hs
      rcases hshape 0 s hs (hall 0 s hs).1 with ⟨hw', _⟩ | h
      · exfalso
        exact e_can_receive l hi 0 now s hs hw' (hnt s (List.mem_of_getElem? hs))
          (Or.inr (Or.inr (by simp [Link.inputClosed, hsd]))) (hstages 0 hn).1
      · exact h
    | succ i ih =>
      intro h1 s hs
      obtain ⟨a, ha⟩ := hget i (by omega)
      have hac := (ih (by omega) a ha).2
      rcases hshape (i + 1) s hs (hall (i + 1) s hs).1 with ⟨hw', _⟩ | h
      · exfalso
        have hic : l.inputClosed (i + 1) = true := by
          unfold Link.inputClosed
          simp [ha, hac]
        exact e_can_receive l hi (i + 1) now s hs hw' (hnt s (List.mem_of_getElem? hs)) (Or.inr (Or.inr hic))
          (hstages (i + 1) h1).1
      · exact h
  have hallc : ∀ s ∈ l.stages, s.pc.running = false ∧ s.st.closed = true := by
    intro s hs
    obtain ⟨i, hi', hget'⟩ := List.getElem_of_mem hs
    have := fwd i hi' s (by rw [List.getElem?_eq_getElem hi', hget'])
    exact ⟨by rw [this.1]; rfl, this.2⟩
  -- the sink has seen the closed output of the last stub
  obtain ⟨a, ha⟩ := hget (l.stages.length - 1) (by omega)
  have hacl := (fwd (l.stages.length - 1) (by omega) a ha).2
  have hic : l.inputClosed l.stages.length = true := by
    unfold Link.inputClosed
    simp [hz, ha, hacl]
  have hoffL : l.offerTo l.stages.length = none := by
    rw [offerTo_pos' l hi.noctl _ hnz]; simp [ha, hlast a ha]
  have hdcl : l.destClosed = true := by
    cases hdc : l.destClosed with
    | true => rfl
    | false =>
      exfalso
      unfold Link.sinkMove at hsink
      rw [if_neg (by simp [hdc])] at hsink
      simp [hsp hdc, hw, hz, hoffL, hic] at hsink
  have hnodrain : l.sinkDrain = false := by
    cases hdr : l.sinkDrain with
    | false => rfl
    | true =>
      exfalso
      unfold Link.sinkMove at hsink
      rw [if_pos hdcl] at hsink
      simp [hdr, hw, hz, hoffL, hic] at hsink
  exact ⟨hsd, hallc, hdcl, hnodrain⟩


/-- Executions of a link on which no API call works: moves of its goroutines (any enabled one:
every schedule), and what the
peers and the proxy do to it from outside (more data, end of stream or reset, a receiver that
stops or resumes reading, writes that start failing, the proxy cutting the connection). -/
inductive ExecE (chain : List TCfg) (l0 : Link) : Link → Prop
  | refl : ExecE chain l0 l0
  | move {l : Link} (now : Int) (busy : Bool) (l' : Link) :
      ExecE chain l0 l → l.AnyMove chain now busy l' → ExecE chain l0 l'
  | env {l : Link} (q : List Bytes) (eof ready fail cut : Bool) (hi' : Nat) :
      ExecE chain l0 l →
      ExecE chain l0 { l with srcQ := q, srcEOF := eof, sinkReady := ready, sinkFail := fail, srcCut := cut, cutHi := hi' }

theorem C15_exec (chain : List TCfg) (now0 : Int) {l : Link} (h : ExecE chain (Link.new chain now0) l) :
    EInv l ∧ SQ l := by
  induction h with
  | refl => exact ⟨EInv_new chain now0, SQ_new chain now0⟩
  | move now busy l' _ hm ih => exact ⟨C15_anymove_shape _ chain now busy l' ih.1 hm, C15_anymove_sq _ chain now busy l' ih.1 ih.2 hm⟩
  | env q eof ready fail cut hi' _ ih => exact ⟨EInv_env _ ih.1 q eof ready fail cut hi', SQ_env _ ih.2 q eof ready fail cut hi'⟩

/-- **C15.**  For every chain of toxics of any type and attribute values, after any execution of
a connection's link without toxic changes — any traffic, any ending by either peer or by the
proxy, gracefully or by reset, with or without data in flight — once the source has ended and
the link has come to rest, no goroutine of the link is left. -/
theorem C15_nothing_left (chain : List TCfg) (now0 : Int) {l : Link} (h : ExecE chain (Link.new chain now0) l)
    (now : Int) (hq : l.move chain now = none) (hq0 : l.srcQ = []) (heof : l.srcEOF = true)
    (hrw : l.sinkReady = true ∨ l.sinkFail = true) (hnt : ∀ s ∈ l.stages, s.pc.timer = none) (hne : l.stages ≠ []) :
    l.srcDone = true ∧ (∀ s ∈ l.stages, s.pc.running = false ∧ s.st.closed = true) ∧
    l.destClosed = true ∧ l.sinkDrain = false :=
  C15_at_rest l chain now (C15_exec chain now0 h).1 (C15_exec chain now0 h).2 hq hq0 heof hrw hnt hne

namespace ExR
/-- noop → limit_data(2) → timeout(50 ms): three bytes are sent, the receiver's writes fail after
the proxy cut the connection while data is in flight; run to rest by the model. -/
def ch : List TCfg := [TCfg.noop, ⟨"ld", .limitData 2, true, 0, false⟩, ⟨"lat", .latency 5 0, true, 1024, false⟩]
def l0 : Link := Link.new ch 0

def runE (chain : List TCfg) (now : Int) : Nat → Link → Link
  | 0, l => l
  | n + 1, l => match l.move chain now with
    | some l' => runE chain now n l'
    | none => l

theorem ExecE.runE {chain : List TCfg} {l0 : Link} (now : Int) :
    ∀ (n : Nat) (l : Link), ExecE chain l0 l → ExecE chain l0 (ExR.runE chain now n l) := by
  intro n
  induction n with
  | zero => intro l h; exact h
  | succ n ih =>
    intro l h
    simp only [ExR.runE]
    split
    · rename_i l' hm; exact ih l' (ExecE.move now false l' h (anyMove_of_move l chain now false l' hm))
    · exact h

def y1 : Link := runE ch 0 64 { l0 with srcQ := [[1], [2, 3]], srcEOF := false, sinkReady := true, sinkFail := false, srcCut := false, cutHi := 0 }
def y2 : Link := runE ch 0 64 { y1 with srcQ := [], srcEOF := true, sinkReady := true, sinkFail := true, srcCut := true, cutHi := 3 }
def y3 : Link := runE ch (10 * ms) 64 { y2 with srcQ := y2.srcQ, srcEOF := y2.srcEOF, sinkReady := y2.sinkReady, sinkFail := y2.sinkFail, srcCut := y2.srcCut, cutHi := y2.cutHi }

theorem exec3 : ExecE ch l0 y3 :=
  ExecE.runE _ 64 _ (ExecE.env _ _ _ _ _ _ (ExecE.runE 0 64 _ (ExecE.env [] true true true true 3 (ExecE.runE 0 64 _
    (ExecE.env [[1], [2, 3]] false true false false 0 ExecE.refl)))))

example : (y3.move ch (10 * ms)).isNone = true ∧ y3.srcQ = [] ∧ y3.srcEOF = true ∧ y3.sinkFail = true ∧
    (y3.stages.all fun s => s.pc.timer == none) = true ∧ y3.stages ≠ [] ∧ y3.srcDone = true ∧ y3.destClosed = true := by
  decide
end ExR

end Toxi.Link
