import Toxi.Proofs.Lemmas.Frame
import Toxi.Proofs.Lemmas.Census
/-!
C03 / C15 at the level of the proxy: a stopped proxy leaves nothing behind.

`stop(proxy)` closes the listener and every registered socket (`PProxy.stop`): for each link the
source's reads end and the sink's writes fail from then on.  Here: whatever toxics the links
run and whatever state they were in (data in flight, stubs sleeping, peers not reading), along
every schedule of their goroutines afterwards those two facts persist (no goroutine can undo
them: `frame_anymove`), so once the links have come to rest every one of them has ended as
`C15_at_rest` describes, and the goroutine census of the proxy is zero.
-/
namespace Toxi.Link
open Toxi.Toxic Toxi.Stream Toxi.Conn

/-- What `stop(proxy)` does to a link (`PProxy.stop`'s `kill`): the same record with the source
ended and cut, the writes failing. -/
def Link.killed (l : Link) : Link :=
  { l with srcEOF := true, srcQ := [], sinkFail := true, srcCut := l.srcCut || !l.srcDone,
           cutHi := max l.cutHi (l.sent.length + (l.srcQ.map List.length).sum) }

/-- Executions in which only the link's own goroutines act. -/
inductive ExecK (chain : List TCfg) (l0 : Link) : Link → Prop
  | refl : ExecK chain l0 l0
  | move {l : Link} (now : Int) (busy : Bool) (l' : Link) :
      ExecK chain l0 l → l.AnyMove chain now busy l' → ExecK chain l0 l'

theorem killed_exec (chain : List TCfg) (l0 : Link) (hi : EInv l0) (hsq : SQ l0) {l : Link}
    (h : ExecK chain l0.killed l) :
    EInv l ∧ SQ l ∧ l.srcEOF = true ∧ l.srcQ = [] ∧ l.sinkFail = true := by
  induction h with
  | refl =>
    exact ⟨EInv_env l0 hi [] true l0.sinkReady true _ _, SQ_env l0 hsq [] true l0.sinkReady true _ _, rfl, rfl, rfl⟩
  | move now busy l' _ hm ih =>
    obtain ⟨he, hs, heof, hq, hf⟩ := ih
    obtain ⟨henv, hqq, _⟩ := frame_anymove _ chain now busy l' hm
    refine ⟨C15_anymove_shape _ chain now busy l' he hm, C15_anymove_sq _ chain now busy l' he hs hm, ?_, ?_, ?_⟩
    · have : l'.srcEOF = _ := congrArg (fun x => x.1) henv
      rw [this]; exact heof
    · rcases hqq with h' | ⟨d, h'⟩
      · rw [h']; exact hq
      · rw [hq] at h'; cases h'
    · have : l'.sinkFail = _ := congrArg (fun x => x.2.1) henv
      rw [this]; exact hf

/-- **C03 / C15 (a link of a stopped proxy ends).**  Any toxics, any state at the moment of the
stop, any schedule afterwards: once the link has come to rest, its source goroutine has ended,
every stub is closed and its `Pipe` has returned, the sink has closed the destination and left
no drain goroutine. -/
theorem C03_stopped_link_ends (chain : List TCfg) (l0 : Link) (hi : EInv l0) (hsq : SQ l0) {l : Link}
    (h : ExecK chain l0.killed l) (now : Int) (hq : l.move chain now = none)
    (hnt : ∀ s ∈ l.stages, s.pc.timer = none) (hne : l.stages ≠ []) :
    l.srcDone = true ∧ (∀ s ∈ l.stages, s.pc.running = false ∧ s.st.closed = true) ∧
    l.destClosed = true ∧ l.sinkDrain = false := by
  obtain ⟨he, hs, heof, hq0, hf⟩ := killed_exec chain l0 hi hsq h
  exact C15_at_rest l chain now he hs hq hq0 heof (Or.inr hf) hnt hne

/-- `PProxy.stop` kills every link, live or retired. -/
theorem stop_links (p : PProxy) (hen : p.enabled = true) :
    allLinks p.stop.coll = (allLinks p.coll).map fun nl => { nl with l := nl.l.killed } := by
  unfold PProxy.stop allLinks
  simp only [hen, Bool.not_true, Bool.false_eq_true, if_false, List.map_append]
  rfl

/-- **C03 / C15 (a stopped proxy leaves no goroutine).**  Let every link of a running proxy be in
a state a connection can reach without a toxic change in progress (`EInv`, `SQ`: `C15_exec`).
The proxy is stopped; afterwards the goroutines of its links move in any order (`ExecK`), and
nothing else happens to them.  Once every link has come to rest (no goroutine can move, no timer
is pending) the goroutine census of the proxy is zero — whatever toxics were configured,
whatever was in flight, whether or not the peers were reading. -/
theorem C03_stop_leaves_nothing (p p' : PProxy) (hen : p.enabled = true)
    (hinv : ∀ nl ∈ allLinks p.coll, EInv nl.l ∧ SQ nl.l ∧ nl.l.stages ≠ [])
    (chainOf : NLink → List TCfg) (hen' : p'.enabled = false)
    (hl : ∀ nl' ∈ allLinks p'.coll, ∃ nl ∈ allLinks p.stop.coll, ExecK (chainOf nl) nl.l nl'.l ∧
      ∃ now, nl'.l.move (chainOf nl) now = none ∧ (∀ s ∈ nl'.l.stages, s.pc.timer = none) ∧ nl'.l.stages ≠ []) :
    goroutines p' = (0, 0, 0, 0) := by
  apply C15_census p' hen'
  intro nl' hnl'
  obtain ⟨nl, hnl, hex, now, hq, hnt, hne⟩ := hl nl' hnl'
  rw [stop_links p hen, List.mem_map] at hnl
  obtain ⟨nl0, hnl0, rfl⟩ := hnl
  obtain ⟨hi, hsq, _⟩ := hinv nl0 hnl0
  obtain ⟨h1, h2, h3, h4⟩ := C03_stopped_link_ends _ nl0.l hi hsq hex now hq hnt hne
  exact ⟨h1, fun s hs => (h2 s hs).1, h3, h4⟩

/-! ### A concrete instance (non-vacuity) -/

def runK (chain : List TCfg) (now : Int) : Nat → Link → Link
  | 0, l => l
  | n + 1, l =>
    match l.move chain now with
    | some l' => runK chain now n l'
    | none => l

theorem ExecE.runK {chain : List TCfg} {l0 : Link} (now : Int) :
    ∀ (n : Nat) (l : Link), ExecE chain l0 l → ExecE chain l0 (Toxi.Link.runK chain now n l) := by
  intro n
  induction n with
  | zero => intro l he; exact he
  | succ n ih =>
    intro l he
    simp only [Toxi.Link.runK]
    split
    · rename_i l1 hm
      exact ih l1 (ExecE.move now false l1 he (anyMove_of_move l chain now false l1 hm))
    · exact he

theorem ExecK.runK {chain : List TCfg} {l0 : Link} (now : Int) :
    ∀ (n : Nat) (l : Link), ExecK chain l0 l → ExecK chain l0 (Toxi.Link.runK chain now n l) := by
  intro n
  induction n with
  | zero => intro l he; exact he
  | succ n ih =>
    intro l he
    simp only [Toxi.Link.runK]
    split
    · rename_i l1 hm
      exact ih l1 (ExecK.move now false l1 he (anyMove_of_move l chain now false l1 hm))
    · exact he

namespace ExS
/-- noop → latency(5 ms) → limit_data(2): three bytes have been sent, the receiver does not read,
the first chunk sleeps in the latency stub — and the proxy is stopped. -/
def ch : List TCfg := [TCfg.noop, ⟨"lat", .latency 5 0, true, 1024, false⟩, ⟨"ld", .limitData 2, true, 0, false⟩]
def m0 : Link := { Link.new ch 0 with srcQ := [[1, 2], [3]], sinkReady := false }
def mid : Link := runK ch 0 64 m0
def fin : Link := runK ch (10 * ms) 64 mid.killed

theorem mid_exec : ExecE ch (Link.new ch 0) mid :=
  ExecE.runK 0 64 _ (ExecE.env [[1, 2], [3]] false false false false 0 ExecE.refl)

def px : PProxy := { name := "p", listen := "a:1", upstream := "u:1", enabled := true,
                     coll := { links := [⟨"c1", .up, mid⟩] } }
def px' : PProxy := { name := "p", listen := "a:1", upstream := "u:1", enabled := false,
                      coll := { links := [⟨"c1", .up, fin⟩] } }

/-- The stub was asleep with data when the proxy was stopped … -/
example : (mid.stages.map (·.pc.running)) = [true, true, true] ∧ goroutines px = (1, 3, 1, 2) := by decide

/-- … and the theorem applies: nothing is left. -/
example : goroutines px' = (0, 0, 0, 0) := by
  have hrest : (fin.move ch (10 * ms)).isNone = true ∧ (fin.stages.all fun s => s.pc.timer == none) = true ∧
      fin.stages ≠ [] ∧ mid.stages ≠ [] := by decide
  obtain ⟨hq, hnt, hne, hne0⟩ := hrest
  refine C03_stop_leaves_nothing px px' rfl ?_ (fun _ => ch) rfl ?_
  · intro nl hnl
    simp only [allLinks, px, List.append_nil, List.mem_singleton] at hnl
    subst hnl
    exact ⟨(C15_exec ch 0 mid_exec).1, (C15_exec ch 0 mid_exec).2, hne0⟩
  · intro nl' hnl'
    simp only [allLinks, px', List.append_nil, List.mem_singleton] at hnl'
    subst hnl'
    refine ⟨⟨"c1", .up, mid.killed⟩, ?_, ExecK.runK (10 * ms) 64 _ ExecK.refl, 10 * ms, by simpa using hq, ?_, hne⟩
    · rw [stop_links px rfl]; simp [allLinks, px]
    · intro s hs
      have := (List.all_eq_true.mp hnt) s hs
      simpa using this
end ExS

end Toxi.Link
