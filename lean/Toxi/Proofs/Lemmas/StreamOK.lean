import Toxi.Proofs.Lemmas.InvStep
/-!
# C05 — every toxic the API ever lists has one of the two documented streams

`AddToxicJson` validates the `stream` of a new toxic with `stream.ParseDirection`; nothing else
ever writes that field (an update keeps it, populate and reset only drop toxics).  Model:
`Api.step`.  `StreamOK s`: for every toxic of every proxy of the registry, `parseDirection` accepts
the stream string it was created with (whatever letter case the caller used) and gives the
direction it runs in.  `sok_step`: every request preserves it; `C05_reachable_streams`: it holds in
every registry the API can reach.  This is the theorem form of E4's `stream-domain` oracle (seed
C05-g: a `ParseDirection` that folds U+017F to `s`).
-/
namespace Toxi.Api

def TOK (t : ToxicRec) : Prop := parseDirection t.stream = some t.dir
def POK (p : ProxyRec) : Prop := ∀ t ∈ p.toxics, TOK t
def StreamOK (s : State) : Prop := ∀ p ∈ s, POK p

theorem sok_append (s : State) (p : ProxyRec) (hi : StreamOK s) (hp : POK p) : StreamOK (s ++ [p]) := by
  intro q hq
  rcases List.mem_append.mp hq with h | h
  · exact hi q h
  · simp only [List.mem_singleton] at h; subst h; exact hp

theorem sok_replace (s : State) (p' : ProxyRec) (hi : StreamOK s) (hp : POK p') : StreamOK (s.replace p') := by
  intro q hq
  rcases mem_replace hq with h | h
  · subst h; exact hp
  · exact hi q h

theorem sok_remove (s : State) (n : String) (hi : StreamOK s) : StreamOK (s.remove n) :=
  fun q hq => hi q ((remove_sublist s n).subset hq)

theorem pok_of_toxics {p q : ProxyRec} (h : q.toxics = p.toxics) (hp : POK p) : POK q := by
  intro t ht; rw [h] at ht; exact hp t ht

theorem pok_nil (p : ProxyRec) (h : p.toxics = []) : POK p := by
  intro t ht; rw [h] at ht; cases ht

theorem sok_hCreate (e : Env) (s : State) (b : Body) (hi : StreamOK s) : StreamOK (hCreate e s b).1 := by
  unfold hCreate
  split
  · exact hi
  · rename_i inp _
    split
    · exact hi
    · split
      · exact hi
      · split
        · exact hi
        · simp only
          split
          · split
            · rename_i p hst
              have hk := startProxy_keeps e s _ p hst
              exact sok_append s p hi (pok_nil p (by rw [hk.2]))
            · exact hi
          · exact sok_append s _ hi (pok_nil _ rfl)

theorem sok_withProxy (s : State) (n : String) (k : ProxyRec → State × Response) (hi : StreamOK s)
    (hk : ∀ p, s.find n = some p → StreamOK (k p).1) : StreamOK (withProxy s n k).1 := by
  unfold withProxy
  split
  · exact hi
  · rename_i p hp; exact hk p hp

theorem sok_hUpdate (e : Env) (s : State) (n : String) (b : Body) (hi : StreamOK s) : StreamOK (hUpdate e s n b).1 := by
  unfold hUpdate
  apply sok_withProxy s n _ hi
  intro p hp
  have hpm := (find_some_mem hp).1
  split
  · exact hi
  · rename_i inp _
    have hk := updateProxy_keeps e s p inp
    cases hu : updateProxy e s p inp with
    | mk p' okk =>
      rw [hu] at hk
      cases okk <;> exact sok_replace s p' hi (pok_of_toxics hk.2 (hi p hpm))

theorem sok_hToxicCreate (s : State) (n : String) (b : Body) (hi : StreamOK s) : StreamOK (hToxicCreate s n b).1 := by
  unfold hToxicCreate
  apply sok_withProxy s n _ hi
  intro p hp
  have hpm := (find_some_mem hp).1
  cases ha : addToxic p b with
  | error err => exact hi
  | ok r =>
    obtain ⟨p', t⟩ := r
    obtain ⟨w, dir, z, _, hd, _, _, _, _, hst, hdir, _, hp'⟩ := addToxic_ok p b p' t ha
    simp only
    apply sok_replace s p' hi
    subst hp'
    intro x hx
    rcases List.mem_append.mp hx with h | h
    · exact hi p hpm x h
    · simp only [List.mem_singleton] at h
      subst h
      unfold TOK
      rw [hst, hdir]; exact hd

theorem pok_replaceToxic (p : ProxyRec) (t' : ToxicRec) (hp : POK p) (ht : TOK t') : POK (replaceToxic p t') := by
  intro x hx
  unfold replaceToxic at hx
  obtain ⟨y, hy, rfl⟩ := List.mem_map.mp hx
  by_cases h : (y.name == t'.name) = true
  · simp only [h, if_true]; exact ht
  · simp only [h]; exact hp y hy

theorem findToxic_mem (p : ProxyRec) (n : String) (t : ToxicRec) (h : findToxic p n = some t) : t ∈ p.toxics := by
  unfold findToxic ProxyRec.listing at h
  have := List.mem_of_find?_eq_some h
  rcases List.mem_append.mp this with h' | h'
  · exact (List.mem_filter.mp h').1
  · exact (List.mem_filter.mp h').1

theorem sok_hToxicUpdate (v : UpdVariant) (s : State) (n tn : String) (b : Body) (hi : StreamOK s) :
    StreamOK (hToxicUpdate v s n tn b).1 := by
  unfold hToxicUpdate
  apply sok_withProxy s n _ hi
  intro p hp
  have hpm := (find_some_mem hp).1
  have hpok := hi p hpm
  have hshape : POK (updateToxic v p tn b).1 := by
    unfold updateToxic
    split
    · exact hpok
    · rename_i t hf
      have htok : TOK t := hpok t (findToxic_mem p tn t hf)
      split
      · exact hpok
      · exact hpok
      · exact hpok
      · simp only
        split
        · cases v
          · exact pok_replaceToxic p _ hpok htok
          · exact hpok
        · exact pok_replaceToxic p _ hpok htok
      · exact hpok
  cases hu : updateToxic v p tn b with
  | mk p' res =>
    rw [hu] at hshape
    cases res <;> exact sok_replace s p' hi hshape

theorem sok_hToxicDelete (s : State) (n tn : String) (hi : StreamOK s) : StreamOK (hToxicDelete s n tn).1 := by
  unfold hToxicDelete
  apply sok_withProxy s n _ hi
  intro p hp
  have hpm := (find_some_mem hp).1
  cases hr : removeToxic p tn with
  | error err => exact hi
  | ok p' =>
    simp only
    apply sok_replace s _ hi
    unfold removeToxic at hr
    split at hr
    · simp at hr
    · simp only [Except.ok.injEq] at hr
      subst hr
      intro t ht
      exact hi p hpm t (List.mem_filter.mp ht).1

def ResSOK (r : Except State (State × ProxyRec × Bool)) : Prop :=
  match r with
  | .ok (s', _, _) => StreamOK s'
  | .error s' => StreamOK s'

theorem sok_addOrReplace (e : Env) (s : State) (x : PopEntry) (hi : StreamOK s) : ResSOK (addOrReplace e s x) := by
  unfold addOrReplace
  simp only
  cases hf : s.find x.name with
  | some ex =>
    have hexm := (find_some_mem hf).1
    simp only
    cases hr : e.resolve x.listen with
    | none => exact hi
    | some r =>
      simp only
      by_cases hsame : (e.sameListen ex.listen x.listen && ex.upstream == x.upstream) = true
      · rw [if_pos hsame]; exact hi
      · rw [if_neg hsame]
        have hi1 : StreamOK (s.replace { ex with enabled := false }) :=
          sok_replace s _ hi (pok_of_toxics rfl (hi ex hexm))
        by_cases hst : x.enabled.getD true = true
        · rw [if_pos hst]
          cases hs : startProxy e (s.replace { ex with enabled := false }) ⟨x.name, x.listen, x.upstream, false, []⟩ with
          | none => exact hi1
          | some p =>
            have hk := startProxy_keeps e _ _ p hs
            exact sok_replace _ p hi1 (pok_nil p (by rw [hk.2]))
        · rw [if_neg hst]
          exact sok_replace _ _ hi1 (pok_nil _ rfl)
  | none =>
    simp only
    by_cases hst : x.enabled.getD true = true
    · rw [if_pos hst]
      cases hs : startProxy e s ⟨x.name, x.listen, x.upstream, false, []⟩ with
      | none => exact hi
      | some p =>
        have hk := startProxy_keeps e _ _ p hs
        exact sok_append s p hi (pok_nil p (by rw [hk.2]))
    · rw [if_neg hst]
      exact sok_append s ⟨x.name, x.listen, x.upstream, false, []⟩ hi (pok_nil _ rfl)

theorem sok_populateLoop (e : Env) : ∀ (xs : List PopEntry) (s : State) (acc : List ProxyRec), StreamOK s →
    StreamOK (populateLoop e s xs acc).1 := by
  intro xs
  induction xs with
  | nil => intro s acc hi; exact hi
  | cons x xs ih =>
    intro s acc hi
    have h := sok_addOrReplace e s x hi
    unfold populateLoop
    cases ha : addOrReplace e s x with
    | ok r =>
      obtain ⟨s', p, rep⟩ := r
      rw [ha] at h
      exact ih s' _ h
    | error s' =>
      rw [ha] at h
      exact h

theorem sok_populate (e : Env) (s : State) (b : Body) (hi : StreamOK s) : StreamOK (populate e s b).1 := by
  unfold populate
  split
  · exact hi
  · rename_i xs _
    split
    · exact hi
    · have := sok_populateLoop e xs s [] hi
      cases hl : populateLoop e s xs [] with
      | mk s' rest =>
        obtain ⟨ps, okk⟩ := rest
        rw [hl] at this
        cases okk <;> exact this

theorem sok_resetStep (e : Env) (acc : State × Bool) (p : ProxyRec) (h : StreamOK acc.1) : StreamOK (resetStep e acc p).1 := by
  unfold resetStep
  by_cases h1 : (!acc.2) = true
  · rw [if_pos h1]; exact h
  · rw [if_neg h1]
    simp only
    by_cases h2 : ((acc.1.find p.name).getD p).enabled = true
    · rw [if_pos h2]; exact sok_replace _ _ h (pok_nil _ rfl)
    · rw [if_neg h2]
      cases hs : startProxy e acc.1 ((acc.1.find p.name).getD p) with
      | none => exact h
      | some p' => exact sok_replace _ _ h (pok_nil _ rfl)

theorem sok_reset (e : Env) (s : State) (hi : StreamOK s) : StreamOK (reset e s).1 := by
  have key : ∀ (l : List ProxyRec) (acc : State × Bool), StreamOK acc.1 → StreamOK (l.foldl (resetStep e) acc).1 := by
    intro l
    induction l with
    | nil => intro acc h; exact h
    | cons p l ih => intro acc h; exact ih _ (sok_resetStep e acc p h)
  have hr : (reset e s).1 = (s.foldl (resetStep e) (s, true)).1 := by
    unfold reset
    simp only
    split <;> rfl
  rw [hr]
  exact key s (s, true) hi

theorem sok_dispatch (v : UpdVariant) (e : Env) (s : State) (r : Request) (hi : StreamOK s) : StreamOK (dispatch v e s r).1 := by
  unfold dispatch
  split
  all_goals first
    | exact hi
    | exact sok_reset e s hi
    | exact sok_populate e s _ hi
    | exact sok_hCreate e s _ hi
    | exact sok_hUpdate e s _ _ hi
    | exact sok_hToxicCreate s _ _ hi
    | exact sok_hToxicUpdate v s _ _ _ hi
    | exact sok_hToxicDelete s _ _ hi
    | (unfold hIndex; exact hi)
    | (unfold hShow; exact sok_withProxy s _ _ hi (fun _ _ => hi))
    | (unfold hDelete; exact sok_withProxy s _ _ hi (fun _ _ => sok_remove s _ hi))
    | (unfold hToxicIndex; exact sok_withProxy s _ _ hi (fun _ _ => hi))
    | (unfold hToxicShow; exact sok_withProxy s _ _ hi (fun _ _ => by split <;> exact hi))

/-- Every request keeps the streams valid. -/
theorem sok_step (v : UpdVariant) (e : Env) (s : State) (r : Request) (hi : StreamOK s) : StreamOK (step v e s r).1 := by
  unfold step
  split
  · exact hi
  · split
    · exact hi
    · split
      · exact hi
      · exact sok_dispatch v e s r hi

/-- **C05 (the stream of every toxic is one of the two documented ones, in every reachable
registry).**  After any sequence of requests, every toxic of every proxy carries a stream string
that `ParseDirection` accepts — `upstream` or `downstream` in any letter case, nothing else — and
runs in the direction that string names. -/
theorem C05_reachable_streams (v : UpdVariant) (e : Env) (rs : List Request) :
    StreamOK (rs.foldl (fun s r => (step v e s r).1) []) := by
  have : ∀ (rs : List Request) (s : State), StreamOK s → StreamOK (rs.foldl (fun s r => (step v e s r).1) s) := by
    intro rs
    induction rs with
    | nil => intro s h; exact h
    | cons r rs ih => intro s h; exact ih _ (sok_step v e s r h)
  exact this rs [] (fun _ h => by cases h)

/-- What `ParseDirection` accepts: the two words, compared after lower-casing. -/
theorem parseDirection_domain (s : String) (d : Dir) (h : parseDirection s = some d) :
    (lower s = "downstream" ∧ d = .down) ∨ (lower s = "upstream" ∧ d = .up) ∨ (s = "downstream" ∧ d = .down) ∨ (s = "upstream" ∧ d = .up) := by
  unfold parseDirection at h
  split at h
  · rename_i hc
    cases h
    rcases (by simpa using hc : s = "downstream" ∨ lower s = "downstream") with h' | h'
    · exact .inr (.inr (.inl ⟨h', rfl⟩))
    · exact .inl ⟨h', rfl⟩
  · split at h
    · rename_i hc
      cases h
      rcases (by simpa using hc : s = "upstream" ∨ lower s = "upstream") with h' | h'
      · exact .inr (.inr (.inr ⟨h', rfl⟩))
      · exact .inr (.inl ⟨h', rfl⟩)
    · cases h

namespace ExSt
def env : Env := ⟨[⟨"a:1", some "a:1", some "a:1", 1⟩], [], []⟩
def reqs : List Request :=
  [⟨.post, ["proxies"], false, .val (.obj [("name", .str "p"), ("listen", .str "a:1"), ("upstream", .str "u:1")])⟩,
   ⟨.post, ["proxies", "p", "toxics"], false, .val (.obj [("type", .str "latency"), ("stream", .str "UpStream")])⟩,
   ⟨.post, ["proxies", "p", "toxics"], false, .val (.obj [("type", .str "latency"), ("stream", .str "sideways")])⟩]
/-- A reachable registry with a toxic whose stream is spelled in mixed case (kept as given, running
upstream); the third request, with a stream outside the domain, is refused and adds nothing. -/
example : (reqs.foldl (fun s r => (step .fixed env s r).1) []).map (fun p => p.toxics.map (fun t => (t.stream, t.dir == Dir.up))) =
    [[("UpStream", true)]] := by decide
end ExSt

end Toxi.Api
