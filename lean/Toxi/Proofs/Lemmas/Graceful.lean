import Toxi.Proofs.Lemmas.Quiescent
/-!
Graceful end of a connection (C01 "the complete stream is eventually delivered", C15 "finished
connections leave nothing behind"): the sender ends its stream; the end-of-stream travels down
the chain behind the data; every stub closes after it has handed on everything it held; the
sink closes the receiver's socket after the last byte.  Nothing is lost on the way, and when
the link comes to rest no goroutine of it is left.
-/
namespace Toxi.Link
open Toxi.Toxic Toxi.Stream

theorem getElem?_modifyAt (ss : List Stage) (i k : Nat) (f : Stage → Stage) :
    (modifyAt ss i f)[k]? = if k = i then (ss[k]?).map f else ss[k]? := by
  unfold modifyAt
  rw [List.getElem?_mapIdx]
  by_cases h : k = i
  · subst h; simp
  · have : (k == i) = false := by simpa using h
    simp [this, h]

theorem length_modifyAt (ss : List Stage) (i : Nat) (f : Stage → Stage) : (modifyAt ss i f).length = ss.length := by
  simp [modifyAt]

/-! ### Content algebra, free of invariants -/

theorem chain_modify_one (ss : List Stage) (i : Nat) (s : Stage) (hs : ss[i]? = some s) (g : Stage → Stage)
    (hb : (g s).bytes = s.bytes) : chainBytes (modifyAt ss i g) = chainBytes ss := by
  obtain ⟨pre, post, hss, hlen⟩ := split_one ss i s hs
  have hmod : modifyAt ss i g = pre ++ g s :: post := by
    rw [hss, ← hlen]; exact modifyAt_mid pre post s g
  rw [hmod, chainBytes_append, chainBytes_cons, hb]
  conv => rhs; rw [hss, chainBytes_append, chainBytes_cons]

/-- A stage gives `c` to its downstream neighbour. -/
theorem chain_handoff (ss : List Stage) (i : Nat) (a s : Stage) (ha : ss[i]? = some a) (hs : ss[i + 1]? = some s)
    (fa fs : Stage → Stage) (c : Bytes) (hab : a.bytes = c ++ (fa a).bytes) (hsb : (fs s).bytes = s.bytes ++ c) :
    chainBytes (modifyAt (modifyAt ss i fa) (i + 1) fs) = chainBytes ss := by
  obtain ⟨pre, post, hss, hlen⟩ := split_two ss i a s ha hs
  have h1 : modifyAt ss i fa = pre ++ fa a :: s :: post := by
    rw [hss, ← hlen]; exact modifyAt_mid pre (s :: post) a fa
  have h2 : modifyAt (pre ++ fa a :: s :: post) (i + 1) fs = pre ++ fa a :: fs s :: post := by
    have : pre ++ fa a :: s :: post = (pre ++ [fa a]) ++ s :: post := by simp
    rw [this, show i + 1 = (pre ++ [fa a]).length by simp [hlen], modifyAt_mid]
    simp
  rw [h1, h2, chainBytes_append, chainBytes_cons, chainBytes_cons, hsb]
  conv => rhs; rw [hss, chainBytes_append, chainBytes_cons, chainBytes_cons, hab]
  simp [List.append_assoc]

/-! ### Stages that are ending -/

/-- A stub that has seen the end of its input and has returned: closed, nothing queued. -/
def Stage.Done (s : Stage) : Prop := s.st.closed = true ∧ s.pc = .ret ∧ s.inq = [] ∧ s.intr = .none

/-- A slow_close stub between the end of its input and its delayed close. -/
def Stage.Closing (s : Stage) : Prop :=
  s.st.closed = false ∧ (∃ d, s.pc = .nap d .slowClose) ∧ s.inq = [] ∧ s.intr = .none

theorem done_bytes (s : Stage) (h : s.Done) : s.bytes = [] := by
  obtain ⟨_, hpc, hq, _⟩ := h
  simp [Stage.bytes, hpc, hq, Pc.held]

theorem closing_bytes (s : Stage) (h : s.Closing) : s.bytes = [] := by
  obtain ⟨_, ⟨d, hpc⟩, hq, _⟩ := h
  simp [Stage.bytes, hpc, hq, Pc.held, Wake.held]

/-- End-of-stream reaches an idle stub with an empty input channel: it closes (slow_close:
after its delay). -/
theorem fire_eof (s : Stage) (hs : SOK s) (carry : Int) (hpc : s.pc = .idle carry) (hq : s.inq = []) (now : Int)
    (draws : List Int) :
    (s.fire (.input none now draws)).Done ∨ (s.fire (.input none now draws)).Closing := by
  have hsafe := hs.safe
  have hstep : ∀ st' pc', step .fixed (eff s) true s.st s.pc (.input none now draws) = some (st', pc') →
      s.fire (.input none now draws) = { s with st := st', pc := pc' } := fun st' pc' h => fire_eq s _ st' pc' h
  cases hc : eff s with
  | slowClose d =>
    right
    have : step .fixed (eff s) true s.st s.pc (.input none now draws) =
        some (s.st, .nap (now + max (wrap64 (d * ms)) 0) .slowClose) := by
      rw [hc, hpc]; simp [step]
    rw [hstep _ _ this]
    exact ⟨hs.open_, ⟨_, rfl⟩, hq, hs.intr⟩
  | resetPeer t => rw [hc] at hsafe; simp [Safe] at hsafe
  | timeout t => rw [hc] at hsafe; simp [Safe] at hsafe
  | limitData n => rw [hc] at hsafe; simp [Safe] at hsafe
  | noop =>
    left
    have : step .fixed (eff s) true s.st s.pc (.input none now draws) = some ({ s.st with closed := true }, .ret) := by
      rw [hc, hpc]; simp [step]
    rw [hstep _ _ this]
    exact ⟨rfl, rfl, hq, hs.intr⟩
  | latency l j =>
    left
    have : step .fixed (eff s) true s.st s.pc (.input none now draws) = some ({ s.st with closed := true }, .ret) := by
      rw [hc, hpc]; simp [step]
    rw [hstep _ _ this]
    exact ⟨rfl, rfl, hq, hs.intr⟩
  | bandwidth r =>
    left
    have : step .fixed (eff s) true s.st s.pc (.input none now draws) = some ({ s.st with closed := true }, .ret) := by
      rw [hc, hpc]; simp [step]
    rw [hstep _ _ this]
    exact ⟨rfl, rfl, hq, hs.intr⟩
  | slicer a v d =>
    left
    have : step .fixed (eff s) true s.st s.pc (.input none now draws) = some ({ s.st with closed := true }, .ret) := by
      rw [hc, hpc]; simp [step]
    rw [hstep _ _ this]
    exact ⟨rfl, rfl, hq, hs.intr⟩

/-- The delayed close of slow_close. -/
theorem fire_closing (s : Stage) (hs : s.Closing) (now : Int) : (s.fire (.timer now)).Done := by
  obtain ⟨_, ⟨d, hpc⟩, hq, hin⟩ := hs
  have : step .fixed (eff s) true s.st s.pc (.timer now) = some ({ s.st with closed := true }, .ret) := by
    rw [hpc]; simp [step]
  rw [fire_eq s _ _ _ this]
  exact ⟨rfl, rfl, hq, hin⟩

/-! ### The invariant of a link that may be ending -/

/-- Stages `0 … j-1` are done, stage `j` is in service or closing, the rest are in service. -/
def Staged (ss : List Stage) (j : Nat) : Prop :=
  (∀ i s, ss[i]? = some s → i < j → s.Done) ∧
  (∀ i s, ss[i]? = some s → j < i → SOK s) ∧
  (∀ s, ss[j]? = some s → SOK s ∨ s.Closing)

structure GInv (l : Link) (j : Nat) : Prop where
  jle      : j ≤ l.stages.length
  staged   : Staged l.stages j
  upstream : (0 < j ∨ ∃ s, l.stages[j]? = some s ∧ s.Closing) → l.srcDone = true
  srcIdle  : l.srcDone = true → l.srcPend = none
  closedAll : l.destClosed = true → j = l.stages.length ∧ l.sinkPend = none
  noctl    : l.ctl = none
  attached : l.detached = false
  nocrash  : l.crash = none
  nofail   : l.sinkFail = false
  nodrain  : l.sinkDrain = false
  content  : l.delivered ++ l.inflight = l.sent

theorem staged_kind {ss : List Stage} {j : Nat} (h : Staged ss j) (i : Nat) (s : Stage) (hs : ss[i]? = some s) :
    (i < j ∧ s.Done) ∨ (i = j ∧ (SOK s ∨ s.Closing)) ∨ (j < i ∧ SOK s) := by
  rcases Nat.lt_trichotomy i j with hlt | heq | hgt
  · exact Or.inl ⟨hlt, h.1 i s hs hlt⟩
  · subst heq; exact Or.inr (Or.inl ⟨rfl, h.2.2 s hs⟩)
  · exact Or.inr (Or.inr ⟨hgt, h.2.1 i s hs hgt⟩)

theorem sok_not_done {s : Stage} (h : SOK s) : ¬ s.Done := fun hd => by
  have := h.open_; rw [hd.1] at this; cases this

theorem sok_not_closing {s : Stage} (h : SOK s) : ¬ s.Closing := fun hc => by
  obtain ⟨_, ⟨d, hpc⟩, _, _⟩ := hc
  have := h.quiet; rw [hpc] at this; simp [Quiet] at this

theorem offer_sok {ss : List Stage} {j : Nat} (h : Staged ss j) (i : Nat) (s : Stage) (hs : ss[i]? = some s)
    (c : Chunk) (ho : s.pc.offer = some c) : SOK s ∧ j ≤ i := by
  rcases staged_kind h i s hs with ⟨_, hd⟩ | ⟨rfl, hk | hc⟩ | ⟨hgt, hk⟩
  · rw [hd.2.1] at ho; simp [Pc.offer] at ho
  · exact ⟨hk, Nat.le_refl _⟩
  · obtain ⟨_, ⟨d, hpc⟩, _, _⟩ := hc
    rw [hpc] at ho; simp [Pc.offer] at ho
  · exact ⟨hk, Nat.le_of_lt hgt⟩

/-- Changing stage `i` into a stage of the same kind keeps the staging. -/
theorem staged_modify_same {ss : List Stage} {j : Nat} (h : Staged ss j) (i : Nat) (s : Stage) (hs : ss[i]? = some s)
    (g : Stage → Stage) (hk : SOK s → SOK (g s)) (hsok : SOK s) : Staged (modifyAt ss i g) j := by
  refine ⟨?_, ?_, ?_⟩
  · intro k x hx hlt
    rw [getElem?_modifyAt] at hx
    by_cases hki : k = i
    · subst hki
      rw [if_pos rfl, hs] at hx
      exact absurd (h.1 k s hs hlt) (sok_not_done hsok)
    · rw [if_neg hki] at hx; exact h.1 k x hx hlt
  · intro k x hx hgt
    rw [getElem?_modifyAt] at hx
    by_cases hki : k = i
    · subst hki
      rw [if_pos rfl, hs] at hx
      simp only [Option.map_some, Option.some.injEq] at hx
      subst hx; exact hk hsok
    · rw [if_neg hki] at hx; exact h.2.1 k x hx hgt
  · intro x hx
    rw [getElem?_modifyAt] at hx
    by_cases hki : j = i
    · subst hki
      rw [if_pos rfl, hs] at hx
      simp only [Option.map_some, Option.some.injEq] at hx
      subst hx; exact Or.inl (hk hsok)
    · rw [if_neg hki] at hx; exact h.2.2 x hx

def closingAt (ss : List Stage) (j : Nat) : Prop := ∃ s, ss[j]? = some s ∧ s.Closing

theorem closingAt_modify_sok {ss : List Stage} {j : Nat} (i : Nat) (s : Stage) (hs : ss[i]? = some s)
    (g : Stage → Stage) (hsok : SOK s) (hg : SOK (g s)) :
    closingAt (modifyAt ss i g) j → closingAt ss j := by
  rintro ⟨x, hx, hc⟩
  rw [getElem?_modifyAt] at hx
  by_cases hji : j = i
  · subst hji
    rw [if_pos rfl, hs] at hx
    simp only [Option.map_some, Option.some.injEq] at hx
    subst hx
    exact absurd hc (sok_not_closing hg)
  · rw [if_neg hji] at hx; exact ⟨x, hx, hc⟩

theorem g_sourceMove (l : Link) (j : Nat) (now : Int) (l' : Link) (hi : GInv l j) (h : l.sourceMove now = some l') :
    GInv l' j := by
  unfold Link.sourceMove at h
  split at h
  · rename_i hc
    have hsp : l.srcPend = none := by
      simp only [Bool.and_eq_true, Option.isNone_iff_eq_none] at hc; exact hc.1
    have hnd : l.srcDone = false := by
      simp only [Bool.and_eq_true, Bool.not_eq_true'] at hc; exact hc.2
    split at h
    · rename_i d q hq
      cases h
      refine ⟨hi.jle, hi.staged, ?_, ?_, hi.closedAll, hi.noctl, hi.attached, hi.nocrash, hi.nofail, hi.nodrain, ?_⟩
      · intro hp; have := hi.upstream hp; rw [hnd] at this; cases this
      · intro hd; simp only at hd; rw [hnd] at hd; cases hd
      · have := hi.content
        simp only [Link.inflight, hsp, Option.map_none, Option.getD_none, List.append_nil] at this
        simp only [Link.inflight, Option.map_some, Option.getD_some]
        rw [← this]; simp [List.append_assoc]
    · split at h
      · cases h
        refine ⟨hi.jle, hi.staged, fun _ => rfl, fun _ => hsp, hi.closedAll, hi.noctl, hi.attached, hi.nocrash,
          hi.nofail, hi.nodrain, hi.content⟩
      · cases h
  · cases h

theorem ctlDrains_false' (l : Link) (h : l.ctl = none) (i : Nat) : l.ctlDrains i = false := by
  unfold Link.ctlDrains; rw [h]

theorem offerTo_pos' (l : Link) (h : l.ctl = none) (i : Nat) (hpos : i ≠ 0) :
    l.offerTo i = (l.stages[i - 1]?).bind (·.pc.offer) := by
  unfold Link.offerTo
  have : (i == 0) = false := by simpa using hpos
  simp only [this, Bool.false_eq_true, if_false, ctlDrains_false' l h]
  cases l.stages[i - 1]? <;> rfl

theorem ackUpstream_pos' (l : Link) (h : l.ctl = none) (i : Nat) (hpos : i ≠ 0) (now : Int) :
    l.ackUpstream i now = { l with stages := modifyAt l.stages (i - 1) fun s => s.fire (.taken now) } := by
  unfold Link.ackUpstream
  have : (i == 0) = false := by simpa using hpos
  simp only [this, Bool.false_eq_true, if_false, ctlDrains_false' l h]

/-- A chunk is handed to the in-service stage `i` (into its buffer, or taken by its `Pipe`)
by the source goroutine or by stage `i-1`. -/
theorem g_handoff (l : Link) (j : Nat) (hi : GInv l j) (i : Nat) (now : Int) (s : Stage) (hs : l.stages[i]? = some s)
    (hsok : SOK s) (c : Chunk) (hoff : l.offerTo i = some c) (g : Stage → Stage)
    (hg : SOK (g s)) (hb : (g s).bytes = s.bytes ++ c.data) :
    GInv { (l.ackUpstream i now) with stages := modifyAt (l.ackUpstream i now).stages i g } j := by
  by_cases h0 : i = 0
  · subst h0
    have hsp : l.srcPend = some c := by simpa [Link.offerTo] using hoff
    have hnd : l.srcDone = false := by
      cases hd : l.srcDone with
      | false => rfl
      | true => have := hi.srcIdle hd; rw [hsp] at this; cases this
    have hack : l.ackUpstream 0 now = { l with srcPend := none } := by simp [Link.ackUpstream]
    rw [hack]
    refine ⟨by simpa [length_modifyAt] using hi.jle, staged_modify_same hi.staged 0 s hs g (fun _ => hg) hsok, ?_, ?_, ?_,
      hi.noctl, hi.attached, hi.nocrash, hi.nofail, hi.nodrain, ?_⟩
    · intro hp
      simp only at hp ⊢
      apply hi.upstream
      rcases hp with hp | hp
      · exact Or.inl hp
      · exact Or.inr (closingAt_modify_sok 0 s hs g hsok hg hp)
    · intro _; rfl
    · intro hd; simp only at hd ⊢
      have := hi.closedAll hd
      exact ⟨by simpa [length_modifyAt] using this.1, this.2⟩
    · have hc := hi.content
      simp only [Link.inflight, hsp, Option.map_some, Option.getD_some] at hc
      simp only [Link.inflight, Option.map_none, Option.getD_none, List.append_nil]
      obtain ⟨pre, post, hss, hlen⟩ := split_one l.stages 0 s hs
      have hpre : pre = [] := List.eq_nil_of_length_eq_zero hlen
      subst hpre
      simp only [List.nil_append] at hss
      have hmod : modifyAt l.stages 0 g = g s :: post := by
        rw [hss]; exact modifyAt_mid [] post s g
      rw [hmod, chainBytes_cons, hb, ← hc, hss, chainBytes_cons]
      simp [List.append_assoc]
  · rw [offerTo_pos' l hi.noctl i h0] at hoff
    cases ha : l.stages[i - 1]? with
    | none => simp [ha] at hoff
    | some a =>
      simp only [ha, Option.bind_some] at hoff
      obtain ⟨hsa, hja⟩ := offer_sok hi.staged (i - 1) a ha c hoff
      obtain ⟨hsa', hheld, hinq⟩ := fire_taken a hsa c now hoff
      have hab := bytes_taken a _ c hheld hinq
      rw [ackUpstream_pos' l hi.noctl i h0]
      simp only
      have hs1 : (modifyAt l.stages (i - 1) fun s => s.fire (.taken now))[i]? = some s := by
        rw [getElem?_modifyAt, if_neg (by omega)]; exact hs
      have hst1 := staged_modify_same hi.staged (i - 1) a ha (fun s => s.fire (.taken now)) (fun _ => hsa') hsa
      have hst2 := staged_modify_same hst1 i s hs1 g (fun _ => hg) hsok
      refine ⟨by simpa [length_modifyAt] using hi.jle, hst2, ?_, hi.srcIdle, ?_,
        hi.noctl, hi.attached, hi.nocrash, hi.nofail, hi.nodrain, ?_⟩
      · intro hp
        apply hi.upstream
        rcases hp with hp | hp
        · exact Or.inl hp
        · exact Or.inr (closingAt_modify_sok (i - 1) a ha _ hsa hsa' (closingAt_modify_sok i s hs1 g hsok hg hp))
      · intro hd
        have := hi.closedAll hd
        exact ⟨by simpa [length_modifyAt] using this.1, this.2⟩
      · have hc := hi.content
        simp only [Link.inflight] at hc ⊢
        have hs' : l.stages[i - 1 + 1]? = some s := by
          have : i - 1 + 1 = i := by omega
          rw [this]; exact hs
        have := chain_handoff l.stages (i - 1) a s ha hs' (fun s => s.fire (.taken now)) g c.data hab hb
        have hi1 : i - 1 + 1 = i := by omega
        rw [hi1] at this
        rw [this]
        exact hc

/-- Whoever is offered a chunk is a stage in service. -/
theorem receiver_sok (l : Link) (j : Nat) (hi : GInv l j) (i : Nat) (s : Stage) (hs : l.stages[i]? = some s)
    (c : Chunk) (hoff : l.offerTo i = some c) : SOK s := by
  by_cases h0 : i = 0
  · subst h0
    have hsp : l.srcPend = some c := by simpa [Link.offerTo] using hoff
    have hnd : l.srcDone = false := by
      cases hd : l.srcDone with
      | false => rfl
      | true => have := hi.srcIdle hd; rw [hsp] at this; cases this
    rcases staged_kind hi.staged 0 s hs with ⟨hlt, _⟩ | ⟨hj, hk | hc⟩ | ⟨hgt, hk⟩
    · have := hi.upstream (Or.inl hlt); rw [hnd] at this; cases this
    · exact hk
    · have := hi.upstream (Or.inr ⟨s, by rw [← hj]; exact hs, hc⟩); rw [hnd] at this; cases this
    · exact hk
  · rw [offerTo_pos' l hi.noctl i h0] at hoff
    cases ha : l.stages[i - 1]? with
    | none => simp [ha] at hoff
    | some a =>
      simp only [ha, Option.bind_some] at hoff
      obtain ⟨_, hja⟩ := offer_sok hi.staged (i - 1) a ha c hoff
      exact hi.staged.2.1 i s hs (by omega)

theorem g_bufferMove (l : Link) (j : Nat) (i : Nat) (now : Int) (l' : Link) (hi : GInv l j)
    (h : l.bufferMove i now = some l') : GInv l' j := by
  unfold Link.bufferMove at h
  cases hs : l.stages[i]? with
  | none => simp [hs] at h
  | some s =>
    simp only [hs] at h
    split at h
    · cases hoff : l.offerTo i with
      | none => simp [hoff] at h
      | some c =>
        simp only [hoff, Option.some.injEq] at h
        subst h
        have hsok := receiver_sok l j hi i s hs c hoff
        exact g_handoff l j hi i now s hs hsok c hoff _ ⟨hsok.safe, hsok.wf, hsok.quiet, hsok.intr, hsok.open_⟩
          (by simp [Stage.bytes, List.append_assoc])
    · cases h

theorem closed_is_done {ss : List Stage} {j : Nat} (h : Staged ss j) (i : Nat) (s : Stage) (hs : ss[i]? = some s)
    (hc : s.st.closed = true) : i < j ∧ s.Done := by
  rcases staged_kind h i s hs with ⟨hlt, hd⟩ | ⟨_, hk | hcl⟩ | ⟨_, hk⟩
  · exact ⟨hlt, hd⟩
  · have := hk.open_; rw [hc] at this; cases this
  · have := hcl.1; rw [hc] at this; cases this
  · have := hk.open_; rw [hc] at this; cases this

theorem g_sinkMove (l : Link) (j : Nat) (now : Int) (l' : Link) (hi : GInv l j) (h : l.sinkMove now = some l') :
    GInv l' j := by
  unfold Link.sinkMove at h
  by_cases hdc : l.destClosed = true
  · rw [if_pos hdc] at h
    simp [hi.nodrain] at h
  · have hdc' : l.destClosed = false := by simpa using hdc
    rw [if_neg hdc] at h
    cases hsp : l.sinkPend with
    | some d =>
      simp only [hsp] at h
      rw [if_neg (by simp [hi.nofail])] at h
      split at h
      · cases h
        refine ⟨hi.jle, hi.staged, hi.upstream, hi.srcIdle, ?_, hi.noctl, hi.attached, hi.nocrash, hi.nofail, hi.nodrain, ?_⟩
        · intro hd; simp only at hd; rw [hdc'] at hd; cases hd
        · have := hi.content
          simp only [Link.inflight, hsp, Option.getD_some] at this
          simp only [Link.inflight, Option.getD_none, List.nil_append]
          rw [← this]; simp [List.append_assoc]
      · cases h
    | none =>
      simp only [hsp] at h
      have hw : l.wired = l.stages.length := by simp [Link.wired, hi.attached]
      rw [hw] at h
      by_cases hz : (l.stages.length == 0) = true
      · simp [hz] at h
      · have hz' : l.stages.length ≠ 0 := by simpa using hz
        simp only [hz, Bool.false_eq_true, if_false] at h
        rw [offerTo_pos' l hi.noctl _ hz'] at h
        cases hlast : l.stages[l.stages.length - 1]? with
        | none =>
          have : l.stages.length - 1 < l.stages.length := by omega
          rw [List.getElem?_eq_getElem this] at hlast; cases hlast
        | some a =>
          simp only [hlast, Option.bind_some] at h
          cases hoff : a.pc.offer with
          | some c =>
            simp only [hoff] at h
            cases h
            obtain ⟨hsa, _⟩ := offer_sok hi.staged _ a hlast c hoff
            obtain ⟨hsa', hheld, hinq⟩ := fire_taken a hsa c now hoff
            have hab := bytes_taken a _ c hheld hinq
            rw [ackUpstream_pos' l hi.noctl _ hz']
            refine ⟨by simpa [length_modifyAt] using hi.jle,
              staged_modify_same hi.staged _ a hlast _ (fun _ => hsa') hsa, ?_, hi.srcIdle, ?_,
              hi.noctl, hi.attached, hi.nocrash, hi.nofail, hi.nodrain, ?_⟩
            · intro hp
              apply hi.upstream
              rcases hp with hp | hp
              · exact Or.inl hp
              · exact Or.inr (closingAt_modify_sok _ a hlast _ hsa hsa' hp)
            · intro hd; simp only at hd; rw [hdc'] at hd; cases hd
            · have hc := hi.content
              simp only [Link.inflight, hsp, Option.getD_none, List.nil_append] at hc
              simp only [Link.inflight]
              obtain ⟨pre, post, hss, hlen⟩ := split_one l.stages _ a hlast
              have hpost : post = [] := by
                have := congrArg List.length hss
                simp at this
                cases post with
                | nil => rfl
                | cons y ys => simp at this; omega
              subst hpost
              have hmod : modifyAt l.stages (l.stages.length - 1) (fun s => s.fire (.taken now)) = pre ++ [a.fire (.taken now)] := by
                rw [hss, show (pre ++ [a]).length - 1 = pre.length by simp]
                exact modifyAt_mid pre [] a _
              rw [hss, chainBytes_append, chainBytes_cons, chainBytes_nil, List.nil_append, hab] at hc
              rw [hmod, chainBytes_append, chainBytes_cons, chainBytes_nil, List.nil_append, ← hc]
              by_cases he : c.data.isEmpty = true
              · have : c.data = [] := by simpa using he
                simp [he, this, List.append_assoc]
              · simp [he, List.append_assoc]
          | none =>
            simp only [hoff] at h
            split at h
            · rename_i hic
              cases h
              -- the last stub has closed: the sink closes the destination
              have hcl : a.st.closed = true := by
                unfold Link.inputClosed at hic
                simpa [hz, hlast] using hic
              obtain ⟨hlt, _⟩ := closed_is_done hi.staged _ a hlast hcl
              have hj : j = l.stages.length := by have := hi.jle; omega
              refine ⟨hi.jle, hi.staged, hi.upstream, hi.srcIdle, fun _ => ⟨hj, rfl⟩, hi.noctl, hi.attached, hi.nocrash,
                hi.nofail, hi.nodrain, ?_⟩
              have hc := hi.content
              simp only [Link.inflight, hsp] at hc
              simpa [Link.inflight] using hc
            · cases h

theorem modifyAt_comp (ss : List Stage) (i : Nat) (f g : Stage → Stage) :
    modifyAt (modifyAt ss i f) i g = modifyAt ss i (fun s => g (f s)) := by
  apply List.ext_getElem?
  intro k
  rw [getElem?_modifyAt, getElem?_modifyAt, getElem?_modifyAt]
  by_cases h : k = i
  · simp [h, Option.map_map, Function.comp_def]
  · simp [h]

theorem staged_advance {ss : List Stage} {j : Nat} (h : Staged ss j) (s : Stage) (hs : ss[j]? = some s)
    (g : Stage → Stage) (hg : (g s).Done) : Staged (modifyAt ss j g) (j + 1) := by
  refine ⟨?_, ?_, ?_⟩
  · intro k x hx hlt
    rw [getElem?_modifyAt] at hx
    by_cases hk : k = j
    · subst hk
      rw [if_pos rfl, hs] at hx
      simp only [Option.map_some, Option.some.injEq] at hx
      subst hx; exact hg
    · rw [if_neg hk] at hx; exact h.1 k x hx (by omega)
  · intro k x hx hgt
    rw [getElem?_modifyAt, if_neg (by omega)] at hx
    exact h.2.1 k x hx (by omega)
  · intro x hx
    rw [getElem?_modifyAt, if_neg (by omega)] at hx
    exact Or.inl (h.2.1 (j + 1) x hx (by omega))

theorem staged_closing {ss : List Stage} {j : Nat} (h : Staged ss j) (s : Stage) (hs : ss[j]? = some s)
    (g : Stage → Stage) (hg : (g s).Closing) : Staged (modifyAt ss j g) j := by
  refine ⟨?_, ?_, ?_⟩
  · intro k x hx hlt
    rw [getElem?_modifyAt, if_neg (by omega)] at hx
    exact h.1 k x hx hlt
  · intro k x hx hgt
    rw [getElem?_modifyAt, if_neg (by omega)] at hx
    exact h.2.1 k x hx hgt
  · intro x hx
    rw [getElem?_modifyAt, if_pos rfl, hs] at hx
    simp only [Option.map_some, Option.some.injEq] at hx
    subst hx; exact Or.inr hg

/-- A finished stub makes no move. -/
theorem done_no_move (l : Link) (j : Nat) (hi : GInv l j) (i : Nat) (now : Int) (busy : Bool) (s : Stage)
    (hs : l.stages[i]? = some s) (hlt : i < j) (hd : s.Done) : l.stageMove i now busy = none := by
  obtain ⟨hcl, hpc, hq, hin⟩ := hd
  have hoff : l.offerTo i = none := by
    by_cases h0 : i = 0
    · subst h0
      have := hi.srcIdle (hi.upstream (Or.inl hlt))
      simp [Link.offerTo, this]
    · rw [offerTo_pos' l hi.noctl i h0]
      cases ha : l.stages[i - 1]? with
      | none => rfl
      | some a =>
        have := hi.staged.1 (i - 1) a ha (by omega)
        simp [this.2.1, Pc.offer]
  -- (used by `simp` below to discharge the side condition of the drain branch)
  have hio : ∀ c src, l.inputOf i ≠ some (some c, src) := by
    intro c src hh
    unfold Link.inputOf at hh
    simp only [hs, hq, hoff] at hh
    split at hh <;> simp at hh
  unfold Link.stageMove
  simp only [hs, hpc]
  have hip : (s.intr == IntrSt.pending) = false := by rw [hin]; decide
  have hiw : (s.intr == IntrSt.waitRet) = false := by rw [hin]; decide

  simp only [Pc.timer, hip, hiw, Bool.false_and, Bool.false_eq_true, if_false, Pc.wantsInput, hcl, Pc.running,
    Bool.not_false, Bool.true_and, ctlDrains_false' l hi.noctl, Bool.not_false, if_true]

/-- An in-service stage changes state without changing what it holds. -/
theorem g_modify_sok (l : Link) (j : Nat) (hi : GInv l j) (i : Nat) (s : Stage) (hs : l.stages[i]? = some s)
    (hsok : SOK s) (g : Stage → Stage) (hg : SOK (g s)) (hb : (g s).bytes = s.bytes) (r : Bool) :
    GInv { l with race := r, stages := modifyAt l.stages i g } j := by
  refine ⟨by simpa [length_modifyAt] using hi.jle, staged_modify_same hi.staged i s hs g (fun _ => hg) hsok, ?_,
    hi.srcIdle, ?_, hi.noctl, hi.attached, hi.nocrash, hi.nofail, hi.nodrain, ?_⟩
  · intro hp
    apply hi.upstream
    rcases hp with hp | hp
    · exact Or.inl hp
    · exact Or.inr (closingAt_modify_sok i s hs g hsok hg hp)
  · intro hd
    have := hi.closedAll hd
    exact ⟨by simpa [length_modifyAt] using this.1, this.2⟩
  · have hc := hi.content
    simp only [Link.inflight] at hc ⊢
    rw [chain_modify_one l.stages i s hs g hb]
    exact hc

/-- The stage at the frontier finishes (or starts its delayed close): it held nothing. -/
theorem g_frontier (l : Link) (j : Nat) (hi : GInv l j) (s : Stage) (hs : l.stages[j]? = some s)
    (hsrc : l.srcDone = true) (hb : s.bytes = []) (g : Stage → Stage) (r : Bool) :
    ((g s).Done → GInv { l with race := r, stages := modifyAt l.stages j g } (j + 1)) ∧
    ((g s).Closing → GInv { l with race := r, stages := modifyAt l.stages j g } j) := by
  have hjlt : j < l.stages.length := by
    rcases Nat.lt_or_ge j l.stages.length with h | h
    · exact h
    · rw [List.getElem?_eq_none h] at hs; cases hs
  have hopen : l.destClosed = true → False := fun hd => by
    have := (hi.closedAll hd).1; omega
  constructor
  · intro hd
    refine ⟨by simp only [length_modifyAt]; omega, staged_advance hi.staged s hs g hd, fun _ => hsrc, hi.srcIdle,
      fun h => (hopen h).elim, hi.noctl, hi.attached, hi.nocrash, hi.nofail, hi.nodrain, ?_⟩
    have hc := hi.content
    simp only [Link.inflight] at hc ⊢
    rw [chain_modify_one l.stages j s hs g (by rw [done_bytes _ hd, hb])]
    exact hc
  · intro hcl
    refine ⟨by simpa [length_modifyAt] using hi.jle, staged_closing hi.staged s hs g hcl, fun _ => hsrc, hi.srcIdle,
      fun h => (hopen h).elim, hi.noctl, hi.attached, hi.nocrash, hi.nofail, hi.nodrain, ?_⟩
    have hc := hi.content
    simp only [Link.inflight] at hc ⊢
    rw [chain_modify_one l.stages j s hs g (by rw [closing_bytes _ hcl, hb])]
    exact hc

/-- The delayed close of a slow_close stub at the frontier. -/
theorem g_closing_move (l : Link) (j : Nat) (hi : GInv l j) (now : Int) (busy : Bool) (s : Stage)
    (hs : l.stages[j]? = some s) (hc : s.Closing) (l' : Link) (h : l.stageMove j now busy = some l') :
    GInv l' (j + 1) := by
  have hsrc := hi.upstream (Or.inr ⟨s, hs, hc⟩)
  have hb := closing_bytes s hc
  have hdone := fire_closing s hc now
  obtain ⟨hcl, ⟨d, hpc⟩, hq, hin⟩ := hc
  unfold Link.stageMove at h
  simp only [hs, hpc] at h
  have hip : (s.intr == IntrSt.pending) = false := by rw [hin]; decide
  have hiw : (s.intr == IntrSt.waitRet) = false := by rw [hin]; decide
  simp only [Pc.timer, hip, hiw, Bool.false_and, Bool.false_eq_true, if_false, Pc.wantsInput, hcl, Pc.running,
    Bool.and_false, Bool.or_false] at h
  split at h
  · cases h
    exact (g_frontier l j hi s hs hsrc hb (fun s => s.fire (.timer now)) _).1 hdone
  · cases h

/-- A move of an in-service stage at or beyond the frontier. -/
theorem g_sok_move (l : Link) (j : Nat) (hi : GInv l j) (i : Nat) (now : Int) (busy : Bool) (s : Stage)
    (hs : l.stages[i]? = some s) (hsok : SOK s) (hji : j ≤ i) (l' : Link) (h : l.stageMove i now busy = some l') :
    ∃ j', j ≤ j' ∧ GInv l' j' := by
  obtain ⟨r, hq⟩ := stageMove_quiet l i now busy s hs hsok
  rw [hq] at h
  by_cases hdue : duePart s now = true
  · rw [if_pos hdue] at h
    cases h
    unfold duePart at hdue
    cases ht : s.pc.timer with
    | none => simp [ht] at hdue
    | some d =>
      obtain ⟨hs', hheld, hinq⟩ := fire_timer s hsok d now ht
      exact ⟨j, Nat.le_refl _, g_modify_sok l j hi i s hs hsok _ hs' (by simp [Stage.bytes, hheld, hinq]) r⟩
  · rw [if_neg hdue] at h
    unfold recvPart at h
    by_cases hwant : (s.pc.wantsInput && !(l.detached && i + 1 == l.stages.length)) = true
    · rw [if_pos hwant] at h
      have hw : s.pc.wantsInput = true := by
        simp only [Bool.and_eq_true] at hwant; exact hwant.1
      cases hio : l.inputOf i with
      | none => simp [hio] at h
      | some rr =>
        obtain ⟨oc, src⟩ := rr
        simp only [hio, Option.some.injEq] at h
        unfold Link.inputOf at hio
        simp only [hs] at hio
        cases hq' : s.inq with
        | cons c rest =>
          simp only [hq', Option.some.injEq, Prod.mk.injEq] at hio
          obtain ⟨rfl, rfl⟩ := hio
          subst h
          simp only [Link.consume, Option.isSome_some, Bool.not_true, Bool.false_eq_true, if_false]
          rw [modifyAt_comp]
          have hs1 : SOK { s with inq := s.inq.drop 1 } := ⟨hsok.safe, hsok.wf, hsok.quiet, hsok.intr, hsok.open_⟩
          obtain ⟨hs2, hheld, hinq, hh0⟩ := fire_input { s with inq := s.inq.drop 1 } hs1 c now drawsConst hw
          have hb : (({ s with inq := s.inq.drop 1 } : Stage).fire (.input (some c) now drawsConst)).bytes = s.bytes := by
            simp only [Stage.bytes, hheld, hinq]
            simp only at hh0
            rw [hh0, hq']
            simp
          exact ⟨j, Nat.le_refl _, g_modify_sok l j hi i s hs hsok
            (fun s => ({ s with inq := s.inq.drop 1 } : Stage).fire (.input (some c) now drawsConst)) hs2 hb l.race⟩
        | nil =>
          simp only [hq'] at hio
          cases hoff : l.offerTo i with
          | some c =>
            simp only [hoff, Option.some.injEq, Prod.mk.injEq] at hio
            obtain ⟨rfl, rfl⟩ := hio
            subst h
            simp only [Link.consume, Option.isSome_some, Bool.not_true, Bool.false_eq_true, if_false]
            obtain ⟨hs2, hheld, hinq, hh0⟩ := fire_input s hsok c now drawsConst hw
            exact ⟨j, Nat.le_refl _, g_handoff l j hi i now s hs hsok c hoff _ hs2 (by simp [Stage.bytes, hheld, hinq, hh0, hq'])⟩
          | none =>
            simp only [hoff] at hio
            by_cases hic : l.inputClosed i = true
            · simp only [hic, if_true, Option.some.injEq, Prod.mk.injEq] at hio
              obtain ⟨rfl, rfl⟩ := hio
              subst h
              simp only [Link.consume, Option.isSome_none, Bool.not_false, if_true]
              -- the end of the stream can only be visible at the frontier
              have hij_src : i = j ∧ l.srcDone = true := by
                unfold Link.inputClosed at hic
                by_cases h0 : i = 0
                · subst h0
                  simp only [BEq.rfl, if_true] at hic
                  exact ⟨by omega, hic⟩
                · have hne : (i == 0) = false := by simpa using h0
                  simp only [hne, Bool.false_eq_true, if_false] at hic
                  cases ha : l.stages[i - 1]? with
                  | none => simp [ha] at hic
                  | some a =>
                    simp only [ha] at hic
                    obtain ⟨hlt, _⟩ := closed_is_done hi.staged (i - 1) a ha hic
                    exact ⟨by omega, hi.upstream (Or.inl (by omega))⟩
              obtain ⟨hij, hsrc⟩ := hij_src
              subst hij
              have hpcidle : ∃ carry, s.pc = .idle carry := by
                have hq2 := hsok.quiet
                cases hpc : s.pc with
                | idle carry => exact ⟨carry, rfl⟩
                | idleT d => rw [hpc] at hq2; simp [Quiet] at hq2
                | _ => rw [hpc] at hw; simp [Pc.wantsInput] at hw
              obtain ⟨carry, hpc⟩ := hpcidle
              have hb : s.bytes = [] := by simp [Stage.bytes, hpc, hq', Pc.held]
              rcases fire_eof s hsok carry hpc hq' now drawsConst with hd | hc
              · exact ⟨i + 1, Nat.le_succ _, (g_frontier l i hi s hs hsrc hb (fun s => s.fire (.input none now drawsConst)) l.race).1 hd⟩
              · exact ⟨i, Nat.le_refl _, (g_frontier l i hi s hs hsrc hb (fun s => s.fire (.input none now drawsConst)) l.race).2 hc⟩
            · simp [hic] at hio
    · rw [if_neg hwant] at h
      cases h

theorem g_stageMove (l : Link) (j : Nat) (hi : GInv l j) (i : Nat) (now : Int) (busy : Bool) (l' : Link)
    (h : l.stageMove i now busy = some l') : ∃ j', j ≤ j' ∧ GInv l' j' := by
  cases hs : l.stages[i]? with
  | none => simp [Link.stageMove, hs] at h
  | some s =>
    rcases staged_kind hi.staged i s hs with ⟨hlt, hd⟩ | ⟨hij, hk | hc⟩ | ⟨hgt, hk⟩
    · rw [done_no_move l j hi i now busy s hs hlt hd] at h; cases h
    · exact g_sok_move l j hi i now busy s hs hk (by omega) l' h
    · subst hij
      exact ⟨i + 1, Nat.le_succ _, g_closing_move l i hi now busy s hs hc l' h⟩
    · exact g_sok_move l j hi i now busy s hs hk (by omega) l' h

theorem ctlMove_none' (l : Link) (chain : List TCfg) (now : Int) (h : l.ctl = none) : l.ctlMove chain now = none := by
  unfold Link.ctlMove; rw [h]

/-- **C15/C01 (a connection that ends keeps the ending invariant).**  Every move of a link
whose stubs are data-preserving toxics — before, while and after the sender's end-of-stream
travels down the chain — keeps `delivered ++ in-flight = read`, keeps every stub behind the
frontier closed with nothing held, and never moves the frontier backwards. -/
theorem C15_move_graceful (l : Link) (chain : List TCfg) (now : Int) (busy : Bool) (l' : Link) (j : Nat) (hi : GInv l j)
    (h : l.move chain now busy = some l') : ∃ j', j ≤ j' ∧ GInv l' j' := by
  unfold Link.move at h
  rw [if_neg (by simp [hi.nocrash])] at h
  obtain ⟨f, hf, hfa⟩ := firstSome_some _ l' h
  simp only [List.mem_append, List.mem_cons, List.mem_flatMap, List.mem_reverse, List.mem_range,
    List.not_mem_nil, or_false] at hf
  rcases hf with (hf | hf) | hf
  · rcases hf with rfl | rfl
    · rw [ctlMove_none' l chain now hi.noctl] at hfa; cases hfa
    · exact ⟨j, Nat.le_refl _, g_sinkMove l j now l' hi hfa⟩
  · obtain ⟨i, _, hf⟩ := hf
    rcases hf with rfl | rfl
    · exact g_stageMove l j hi i now busy l' hfa
    · exact ⟨j, Nat.le_refl _, g_bufferMove l j i now l' hi hfa⟩
  · subst hf
    exact ⟨j, Nat.le_refl _, g_sourceMove l j now l' hi hfa⟩

/-- For a stub in service, receiving is what `stageMove` does anyway (nothing else is ready). -/
theorem recvAlt_sok (l : Link) (i : Nat) (now : Int) (busy : Bool) (s : Stage) (hs : l.stages[i]? = some s) (hsok : SOK s)
    (l' : Link) (h : recvPart l i s now = some l') : l.stageMove i now busy = some l' := by
  obtain ⟨r, hq⟩ := stageMove_quiet l i now busy s hs hsok
  rw [hq]
  have hw : s.pc.wantsInput = true := by
    unfold recvPart at h
    by_cases hc : (s.pc.wantsInput && !(l.detached && i + 1 == l.stages.length)) = true
    · simp only [Bool.and_eq_true] at hc; exact hc.1
    · rw [if_neg hc] at h; cases h
  have hdue : duePart s now = false := by
    have hq' := hsok.quiet
    cases hpc : s.pc with
    | idle c => simp [duePart, hpc, Pc.timer]
    | idleT d => rw [hpc] at hq'; simp [Quiet] at hq'
    | _ => rw [hpc] at hw; simp [Pc.wantsInput] at hw
  rw [hdue]
  simpa using h

/-- … whichever goroutine moves, whichever case a `select` picks. -/
theorem C15_anymove_graceful (l : Link) (chain : List TCfg) (now : Int) (busy : Bool) (l' : Link) (j : Nat) (hi : GInv l j)
    (h : l.AnyMove chain now busy l') : ∃ j', j ≤ j' ∧ GInv l' j' := by
  rcases h.2 with h' | h' | ⟨i, h'⟩ | ⟨i, h'⟩ | h' | ⟨i, h'⟩ | ⟨i, h'⟩ | h'
  · rw [ctlMove_none' l chain now hi.noctl] at h'; cases h'
  · exact ⟨j, Nat.le_refl _, g_sinkMove l j now l' hi h'⟩
  · exact g_stageMove l j hi i now busy l' h'
  · exact ⟨j, Nat.le_refl _, g_bufferMove l j i now l' hi h'⟩
  · exact ⟨j, Nat.le_refl _, g_sourceMove l j now l' hi h'⟩
  · unfold Link.recvAlt at h'
    cases hs : l.stages[i]? with
    | none => rw [hs] at h'; cases h'
    | some s =>
      rw [hs] at h'
      rcases staged_kind hi.staged i s hs with ⟨_, hd⟩ | ⟨_, hk | hc⟩ | ⟨_, hk⟩
      · unfold recvPart at h'
        simp [hd.2.1, Pc.wantsInput] at h'
      · exact g_stageMove l j hi i now busy l' (recvAlt_sok l i now busy s hs hk l' h')
      · obtain ⟨_, ⟨d, hpc⟩, _, _⟩ := hc
        unfold recvPart at h'
        simp [hpc, Pc.wantsInput] at h'
      · exact g_stageMove l j hi i now busy l' (recvAlt_sok l i now busy s hs hk l' h')
  · have : l.intrAlt i now = none := by
      apply intrAlt_none
      intro s hs
      rcases staged_kind hi.staged i s hs with ⟨_, hd⟩ | ⟨_, hk | hc⟩ | ⟨_, hk⟩
      · exact hd.2.2.2
      · exact hk.intr
      · exact hc.2.2.2
      · exact hk.intr
    rw [this] at h'; cases h'
  · rw [ctlTakeAlt_none l now hi.noctl] at h'; cases h'

theorem C15_settle_graceful (chain : List TCfg) (now : Int) :
    ∀ (n : Nat) (l : Link) (j : Nat), GInv l j →
      (Link.settle chain now n l).crash = none → ∃ j', j ≤ j' ∧ GInv (Link.settle chain now n l) j' := by
  intro n
  induction n with
  | zero => intro l j _ hc; simp [Link.settle] at hc
  | succ n ih =>
    intro l j hi hc
    simp only [Link.settle] at hc ⊢
    cases hm : l.move chain now with
    | none => simp only [hm] at hc ⊢; exact ⟨j, Nat.le_refl _, hi⟩
    | some l' =>
      simp only [hm] at hc ⊢
      obtain ⟨j1, hj1, hi1⟩ := C15_move_graceful l chain now false l' j hi hm
      obtain ⟨j2, hj2, hi2⟩ := ih l' j1 hi1 hc
      exact ⟨j2, by omega, hi2⟩

/-- A link in service is at frontier 0. -/
theorem GInv_of_LInv (l : Link) (hi : LInv l) (hd : l.sinkDrain = false) : GInv l 0 := by
  refine ⟨Nat.zero_le _, ⟨?_, ?_, ?_⟩, ?_, ?_, ?_, hi.noctl, hi.attached, hi.nocrash, hi.nofail, hd, hi.content⟩
  · intro i s _ h; omega
  · intro i s hs _; exact hi.stages s (List.mem_of_getElem? hs)
  · intro s hs; exact Or.inl (hi.stages s (List.mem_of_getElem? hs))
  · rintro (h | ⟨s, hs, hc⟩)
    · omega
    · exact absurd hc (sok_not_closing (hi.stages s (List.mem_of_getElem? hs)))
  · intro h; rw [hi.srcOpen] at h; cases h
  · intro h; rw [hi.sinkOpen] at h; cases h

theorem GInv_new (chain : List TCfg) (now : Int) (hsafe : ∀ t ∈ chain, Safe (effective t.cfg t.active)) :
    GInv (Link.new chain now) 0 := GInv_of_LInv _ (LInv_new chain now hsafe) rfl

/-- What the peers do — send more, end the stream, stop or resume reading — does not disturb
the invariant. -/
theorem GInv_env (l : Link) (j : Nat) (hi : GInv l j) (q : List Bytes) (eof ready : Bool) :
    GInv { l with srcQ := q, srcEOF := eof, sinkReady := ready } j :=
  ⟨hi.jle, hi.staged, hi.upstream, hi.srcIdle, hi.closedAll, hi.noctl, hi.attached, hi.nocrash, hi.nofail, hi.nodrain,
    hi.content⟩

/-! ### At rest after the end of the stream -/

theorem quiescent_parts' (l : Link) (chain : List TCfg) (now : Int) (hc : l.crash = none) (h : l.move chain now = none) :
    l.sinkMove now = none ∧ (∀ i, i < l.stages.length → l.stageMove i now = none ∧ l.bufferMove i now = none) ∧
    l.sourceMove now = none := by
  unfold Link.move at h
  rw [if_neg (by simp [hc])] at h
  have hall := firstSome_none _ h
  refine ⟨?_, ?_, ?_⟩
  · exact hall (fun _ => l.sinkMove now) (by simp)
  · intro i hi'
    constructor
    · exact hall (fun _ => l.stageMove i now false) (by
        simp only [List.mem_append, List.mem_cons, List.mem_flatMap, List.mem_reverse, List.mem_range]
        left; right; exact ⟨i, hi', Or.inl rfl⟩)
    · exact hall (fun _ => l.bufferMove i now) (by
        simp only [List.mem_append, List.mem_cons, List.mem_flatMap, List.mem_reverse, List.mem_range]
        left; right; exact ⟨i, hi', Or.inr (Or.inl rfl)⟩)
  · exact hall (fun _ => l.sourceMove now) (by simp)

/-- An idle in-service stub with anything visible on its input — a buffered chunk, an offer,
or the end of the stream — can move. -/
theorem g_can_receive (l : Link) (hatt : l.detached = false) (i : Nat) (now : Int) (s : Stage)
    (hs : l.stages[i]? = some s) (hsok : SOK s) (carry : Int) (hpc : s.pc = .idle carry)
    (hin : s.inq ≠ [] ∨ (∃ c, l.offerTo i = some c) ∨ l.inputClosed i = true) :
    l.stageMove i now ≠ none := by
  obtain ⟨r, hq⟩ := stageMove_quiet l i now false s hs hsok
  rw [hq]
  have hdue : duePart s now = false := by simp [duePart, hpc, Pc.timer]
  rw [hdue]
  simp only [Bool.false_eq_true, if_false]
  unfold recvPart
  have hw : (s.pc.wantsInput && !(l.detached && i + 1 == l.stages.length)) = true := by
    simp [hpc, Pc.wantsInput, hatt]
  rw [if_pos hw]
  have hio : ∃ c src, l.inputOf i = some (c, src) := by
    unfold Link.inputOf
    simp only [hs]
    cases hq' : s.inq with
    | cons c rest => exact ⟨some c, .buffered, rfl⟩
    | nil =>
      cases hoff : l.offerTo i with
      | some c => exact ⟨some c, .rendezvous, rfl⟩
      | none =>
        rcases hin with h | ⟨c, hc⟩ | h
        · exact absurd hq' h
        · rw [hoff] at hc; cases hc
        · simp only [h, if_true]; exact ⟨none, .buffered, rfl⟩
  obtain ⟨c, src, hio⟩ := hio
  simp [hio]

theorem chainBytes_nil_of (ss : List Stage) (h : ∀ s ∈ ss, s.bytes = []) : chainBytes ss = [] := by
  induction ss with
  | nil => simp
  | cons s ss ih =>
    rw [chainBytes_cons, ih (fun x hx => h x (by simp [hx])), h s (by simp)]
    simp

/-- **C15 / C01 (a connection that ended leaves nothing behind and has lost nothing).**  A link
of data-preserving toxics whose sender has ended its stream, and which has come to rest — no
goroutine can move, no timer is pending, the receiver accepts writes — has delivered exactly
what was read (`delivered = sent`), its source goroutine has ended, every stub has closed and
returned, the sink has closed the receiver's socket and left no drain goroutine: the three
terms of the goroutine census are zero for it. -/
theorem C15_graceful_end (l : Link) (chain : List TCfg) (now : Int) (j : Nat) (hi : GInv l j)
    (hq : l.move chain now = none) (hq0 : l.srcQ = []) (heof : l.srcEOF = true) (hready : l.sinkReady = true)
    (hnt : ∀ s ∈ l.stages, s.pc.timer = none) (hne : l.stages ≠ []) :
    l.delivered = l.sent ∧ l.srcDone = true ∧ (∀ s ∈ l.stages, s.pc.running = false ∧ s.st.closed = true) ∧
    l.destClosed = true ∧ l.sinkDrain = false ∧ l.sinkPend = none ∧ l.srcPend = none := by
  obtain ⟨hsink, hstages, hsrc⟩ := quiescent_parts' l chain now hi.nocrash hq
  have hn : 0 < l.stages.length := List.length_pos_iff.mpr hne
  have hnz : l.stages.length ≠ 0 := Nat.pos_iff_ne_zero.mp hn
  have hw : l.wired = l.stages.length := by simp [Link.wired, hi.attached]
  have hz : (l.stages.length == 0) = false := by simpa using hnz
  -- it suffices that the sink has closed the destination
  suffices hdc : l.destClosed = true by
    obtain ⟨hj, hsp⟩ := hi.closedAll hdc
    have hdone : ∀ s ∈ l.stages, s.Done := by
      intro s hs
      obtain ⟨i, hi', hget⟩ := List.getElem_of_mem hs
      exact hi.staged.1 i s (by rw [List.getElem?_eq_getElem hi', hget]) (by omega)
    have hsd : l.srcDone = true := hi.upstream (Or.inl (by omega))
    have hsrcp := hi.srcIdle hsd
    refine ⟨?_, hsd, ?_, hdc, hi.nodrain, hsp, hsrcp⟩
    · have hc := hi.content
      simp only [Link.inflight, hsp, hsrcp, Option.getD_none, Option.map_none, List.nil_append, List.append_nil,
        chainBytes_nil_of l.stages (fun s hs => done_bytes s (hdone s hs))] at hc
      exact hc
    · intro s hs
      have := hdone s hs
      exact ⟨by rw [this.2.1]; rfl, this.1⟩
  cases hdc : l.destClosed with
  | true => rfl
  | false =>
  exfalso
  -- the sink is not in the middle of a write
  have hsp : l.sinkPend = none := by
    cases hsp : l.sinkPend with
    | none => rfl
    | some d =>
      unfold Link.sinkMove at hsink
      rw [if_neg (by simp [hdc])] at hsink
      simp only [hsp] at hsink
      rw [if_neg (by simp [hi.nofail]), if_pos hready] at hsink
      cases hsink
  -- what the sink sees
  have hsink' : ∀ a, l.stages[l.stages.length - 1]? = some a → a.pc.offer = none ∧ a.st.closed = false := by
    intro a ha
    unfold Link.sinkMove at hsink
    rw [if_neg (by simp [hdc])] at hsink
    simp only [hsp, hw, hz, Bool.false_eq_true, if_false] at hsink
    rw [offerTo_pos' l hi.noctl _ hnz] at hsink
    simp only [ha, Option.bind_some] at hsink
    cases hoff : a.pc.offer with
    | some c => simp [hoff] at hsink
    | none =>
      refine ⟨rfl, ?_⟩
      simp only [hoff] at hsink
      cases hcl : a.st.closed with
      | false => rfl
      | true =>
        have : l.inputClosed l.stages.length = true := by
          unfold Link.inputClosed
          simp [hz, ha, hcl]
        simp [this] at hsink
  -- stages at or beyond the frontier are in service (a closing one would have a timer)
  have hsokge : ∀ i s, l.stages[i]? = some s → j ≤ i → SOK s := by
    intro i s hs hji
    rcases staged_kind hi.staged i s hs with ⟨hlt, _⟩ | ⟨_, hk | hc⟩ | ⟨_, hk⟩
    · omega
    · exact hk
    · obtain ⟨_, ⟨d, hpc⟩, _, _⟩ := hc
      have := hnt s (List.mem_of_getElem? hs)
      rw [hpc] at this; simp [Pc.timer] at this
    · exact hk
  -- … and, from the sink's end backwards, idle and empty
  have key : ∀ k, ∀ i, l.stages.length - k ≤ i → i < l.stages.length → j ≤ i →
      ∀ s, l.stages[i]? = some s → s.Empty := by
    intro k
    induction k with
    | zero => intro i h1 h2; omega
    | succ k ih =>
      intro i h1 h2 hji s hs
      by_cases hold : l.stages.length - k ≤ i
      · exact ih i hold h2 hji s hs
      · have hsok := hsokge i s hs hji
        have htm := hnt s (List.mem_of_getElem? hs)
        have hnooffer : s.pc.offer = none := by
          by_cases hl : i + 1 = l.stages.length
          · have : l.stages.length - 1 = i := by omega
            exact (hsink' s (by rw [this]; exact hs)).1
          · have hi1 : i + 1 < l.stages.length := by omega
            cases hnext : l.stages[i + 1]? with
            | none => rw [List.getElem?_eq_getElem hi1] at hnext; cases hnext
            | some b =>
              have hbe := ih (i + 1) (by omega) hi1 (by omega) b hnext
              obtain ⟨⟨carry, hbpc⟩, hbq⟩ := hbe
              cases hoff : s.pc.offer with
              | none => rfl
              | some c =>
                exfalso
                have hoffer : l.offerTo (i + 1) = some c := by
                  rw [offerTo_pos' l hi.noctl (i + 1) (by omega)]
                  simp [hs, hoff]
                exact g_can_receive l hi.attached (i + 1) now b hnext (hsokge (i + 1) b hnext (by omega)) carry hbpc
                  (Or.inr (Or.inl ⟨c, hoffer⟩)) (hstages (i + 1) hi1).1
        have hq' := hsok.quiet
        cases hpc : s.pc with
        | idle carry =>
          refine ⟨⟨carry, hpc⟩, ?_⟩
          cases hinq : s.inq with
          | nil => rfl
          | cons c rest =>
            exfalso
            exact g_can_receive l hi.attached i now s hs hsok carry hpc (Or.inl (by simp [hinq])) (hstages i h2).1
        | out c k => rw [hpc] at hnooffer; simp [Pc.offer] at hnooffer
        | nap d w => rw [hpc] at htm; simp [Pc.timer] at htm
        | idleT d => rw [hpc] at hq'; simp [Quiet] at hq'
        | hold d => rw [hpc] at hq'; simp [Quiet] at hq'
        | flush c d => rw [hpc] at hq'; simp [Quiet] at hq'
        | ret => rw [hpc] at hq'; simp [Quiet] at hq'
        | crash w => rw [hpc] at hq'; simp [Quiet] at hq'
  by_cases hjl : j < l.stages.length
  · -- the frontier stage is idle and empty, and the end of the stream is visible to it
    cases hsj : l.stages[j]? with
    | none => rw [List.getElem?_eq_getElem hjl] at hsj; cases hsj
    | some s =>
      have hsok := hsokge j s hsj (Nat.le_refl _)
      obtain ⟨⟨carry, hpc⟩, hinq⟩ := key l.stages.length j (by omega) hjl (Nat.le_refl _) s hsj
      have hvis : (∃ c, l.offerTo j = some c) ∨ l.inputClosed j = true := by
        by_cases h0 : j = 0
        · subst h0
          cases hsp' : l.srcPend with
          | some c => exact Or.inl ⟨c, by simp [Link.offerTo, hsp']⟩
          | none =>
            right
            unfold Link.sourceMove at hsrc
            cases hsd : l.srcDone with
            | true => simp [Link.inputClosed, hsd]
            | false => simp [hsp', hsd, hq0, heof] at hsrc
        · right
          cases ha : l.stages[j - 1]? with
          | none => rw [List.getElem?_eq_getElem (by omega)] at ha; cases ha
          | some a =>
            have := hi.staged.1 (j - 1) a ha (by omega)
            unfold Link.inputClosed
            have hne0 : (j == 0) = false := by simpa using h0
            simp [hne0, ha, this.1]
      exact g_can_receive l hi.attached j now s hsj hsok carry hpc (Or.inr hvis) (hstages j hjl).1
  · -- every stub is done: the sink sees the closed output of the last one
    have hj : j = l.stages.length := by have := hi.jle; omega
    cases hlast : l.stages[l.stages.length - 1]? with
    | none => rw [List.getElem?_eq_getElem (by omega)] at hlast; cases hlast
    | some a =>
      have hd := hi.staged.1 _ a hlast (by omega)
      have := (hsink' a hlast).2
      rw [hd.1] at this; cases this

end Toxi.Link

namespace Toxi.Link
open Toxi.Toxic

/-- Non-vacuity: the hypotheses of `C15_graceful_end` are met by the link noop → slow_close(5 ms)
→ latency(3 ms) after it carried two chunks and the sender ended its stream (run to rest by the
model itself). -/
def gEx : Link :=
  let l0 := Link.new [TCfg.noop, ⟨"sc", .slowClose 5, true, 0, false⟩, ⟨"l", .latency 3 0, true, 0, false⟩] 0
  let l1 := Link.settle [] 0 64 { l0 with srcQ := [[1, 2], [3]], srcEOF := true }
  let l2 := Link.settle [] (3 * ms) 64 l1
  Link.settle [] (8 * ms) 64 l2

example : (∃ j, GInv gEx j) ∧ gEx.move [] (8 * ms) = none ∧ gEx.srcQ = [] ∧ gEx.srcEOF = true ∧ gEx.sinkReady = true ∧
    (∀ s ∈ gEx.stages, s.pc.timer = none) ∧ gEx.stages ≠ [] ∧ gEx.sent = [1, 2, 3] := by
  have hfacts : (gEx.move [] (8 * ms)).isNone = true ∧ gEx.crash = none ∧ gEx.srcQ = [] ∧ gEx.srcEOF = true ∧
      gEx.sinkReady = true ∧ (gEx.stages.all fun s => s.pc.timer == none) = true ∧ gEx.stages ≠ [] ∧
      gEx.sent = [1, 2, 3] := by decide
  obtain ⟨h1, hc, h2, h3, h4, h5, h6, h7⟩ := hfacts
  refine ⟨?_, by simpa using h1, h2, h3, h4, ?_, h6, h7⟩
  · have h0 := GInv_new [TCfg.noop, ⟨"sc", .slowClose 5, true, 0, false⟩, ⟨"l", .latency 3 0, true, 0, false⟩] 0 (by
      intro t ht
      simp only [List.mem_cons, List.not_mem_nil, or_false] at ht
      rcases ht with rfl | rfl | rfl <;> simp [effective, Safe, TCfg.noop])
    have h0' := GInv_env _ 0 h0 [[1, 2], [3]] true true
    have hc2 : (Link.settle [] (3 * ms) 64 (Link.settle [] 0 64 { Link.new [TCfg.noop, ⟨"sc", .slowClose 5, true, 0, false⟩, ⟨"l", .latency 3 0, true, 0, false⟩] 0 with srcQ := [[1, 2], [3]], srcEOF := true, sinkReady := true })).crash = none := by decide
    have hc1 : (Link.settle [] 0 64 { Link.new [TCfg.noop, ⟨"sc", .slowClose 5, true, 0, false⟩, ⟨"l", .latency 3 0, true, 0, false⟩] 0 with srcQ := [[1, 2], [3]], srcEOF := true, sinkReady := true }).crash = none := by decide
    obtain ⟨j1, _, g1⟩ := C15_settle_graceful [] 0 64 _ 0 h0' hc1
    obtain ⟨j2, _, g2⟩ := C15_settle_graceful [] (3 * ms) 64 _ j1 g1 hc2
    obtain ⟨j3, _, g3⟩ := C15_settle_graceful [] (8 * ms) 64 _ j2 g2 hc
    exact ⟨j3, g3⟩
  · intro s hs
    have := List.all_eq_true.mp h5 s hs
    simpa using this
end Toxi.Link
