import Toxi.Proofs.Lemmas.Graceful
/-!
Conservation while the link is being reconfigured (C02): `AddToxic`, `UpdateToxic` and
`RemoveToxic` interrupt stubs, restart them with another toxic, drain a stub by hand and
splice it out — while chunks are in flight everywhere.  The invariant of `Pipeline.lean`
(`delivered ++ in-flight = read`) is extended to every state of these procedures: an
interrupted stub flushes what it holds (`out … toRet`, `flush`), a stopped stub keeps its input
buffer, the controller's hand-carried chunk (`tmp`) counts as held by the stub it drains.
The only moves excluded are the deliberate 5 s give-ups of `WriteOutput` (the property's own
proviso).
-/
namespace Toxi.Toxic
open Toxi.Stream (Bytes)

/-- Program counters of a stub that was interrupted and is on its way out of `Pipe`. -/
def Stopping : Pc → Prop
  | .ret => True
  | .out _ .toRet => True
  | .flush _ _ => True
  | _ => False

/-- Program counters of a data-preserving stub whose input has not ended, interrupted or not. -/
def RQ (pc : Pc) : Prop := Quiet pc ∨ Stopping pc

theorem quiet_rq {pc : Pc} (h : Quiet pc) : RQ pc := Or.inl h

/-- An interrupt (`stub.Interrupt <- struct{}{}`) received where the stub listens for it. -/
theorem interrupt_ok (cfg : Cfg) (hs : Safe cfg) (st : StubSt) (pc : Pc) (now : Int) (hq : RQ pc)
    (hwf : PcWF cfg pc) (hint : pc.interruptible = true) :
    ∃ pc', step .fixed cfg true st pc (.interrupt now) = some (st, pc') ∧ Stopping pc' ∧ PcWF cfg pc' ∧
      pc'.held = pc.held := by
  have key : ∀ pc', step .fixed cfg true st pc (.interrupt now) = some (st, pc') → Stopping pc' →
      ∃ pc', step .fixed cfg true st pc (.interrupt now) = some (st, pc') ∧ Stopping pc' ∧ PcWF cfg pc' ∧
        pc'.held = pc.held := by
    intro pc' h hst
    obtain ⟨hw, hc⟩ := step_conserves cfg hs st pc _ st pc' hwf h
    exact ⟨pc', h, hst, hw, hc⟩
  cases pc with
  | idle carry => exact key .ret rfl (by simp [Stopping])
  | nap d w =>
    cases w with
    | latency c sl dl => exact key (.out c .toRet) rfl (by simp [Stopping])
    | bwInstal p carry => exact key (.flush p (now + 5000 * ms)) rfl (by simp [Stopping])
    | bwFinal p carry start => exact key (.flush p (now + 5000 * ms)) rfl (by simp [Stopping])
    | slicerGap rest offs base ts => exact key (.out ⟨rest, ts⟩ .toRet) rfl (by simp [Stopping])
    | slowClose => rcases hq with hq | hq <;> simp [Quiet, Stopping] at hq
  | idleT d => rcases hq with hq | hq <;> simp [Quiet, Stopping] at hq
  | _ => simp [Pc.interruptible] at hint

/-- The offered chunk is taken, whatever the stub is doing. -/
theorem taken_ok' (cfg : Cfg) (hs : Safe cfg) (st : StubSt) (pc : Pc) (c : Chunk) (now : Int) (hq : RQ pc)
    (hwf : PcWF cfg pc) (ho : pc.offer = some c) :
    ∃ pc', step .fixed cfg true st pc (.taken now) = some (st, pc') ∧ RQ pc' ∧ (Quiet pc → Quiet pc') ∧ PcWF cfg pc' ∧
      pc.held = c.data ++ pc'.held := by
  cases pc with
  | out c' k =>
    simp only [Pc.offer, Option.some.injEq] at ho
    subst ho
    rcases hq with hq | hq
    · obtain ⟨pc', h1, h2, h3, h4⟩ := taken_ok cfg hs st c' k now hq hwf
      exact ⟨pc', h1, Or.inl h2, fun _ => h2, h3, h4⟩
    · cases k <;> simp [Stopping] at hq
      exact ⟨.ret, rfl, Or.inr (by simp [Stopping]), fun h => by simp [Quiet] at h, by simp [PcWF],
        by simp [Pc.held, Next.held]⟩
  | flush c' d =>
    simp only [Pc.offer, Option.some.injEq] at ho
    subst ho
    exact ⟨.ret, rfl, Or.inr (by simp [Stopping]), fun h => by simp [Quiet] at h, by simp [PcWF], by simp [Pc.held]⟩
  | _ => simp [Pc.offer] at ho

/-- A timer fires (not the 5 s give-up of `WriteOutput`). -/
theorem timer_ok' (cfg : Cfg) (hs : Safe cfg) (st : StubSt) (pc : Pc) (d now : Int) (hq : RQ pc)
    (hwf : PcWF cfg pc) (ht : pc.timer = some d) (hnf : ∀ c dd, pc ≠ .flush c dd) :
    ∃ pc', step .fixed cfg true st pc (.timer now) = some (st, pc') ∧ Quiet pc' ∧ PcWF cfg pc' ∧
      pc'.held = pc.held := by
  cases pc with
  | nap d' w =>
    rcases hq with hq | hq
    · exact timer_ok cfg hs st d' w now hq hwf
    · simp [Stopping] at hq
  | flush c dd => exact absurd rfl (hnf c dd)
  | idleT d' => rcases hq with hq | hq <;> simp [Quiet, Stopping] at hq
  | hold d' => rcases hq with hq | hq <;> simp [Quiet, Stopping] at hq
  | _ => simp [Pc.timer] at ht

end Toxi.Toxic

namespace Toxi.Link
open Toxi.Toxic Toxi.Stream

/-- A stub of a link under reconfiguration: a data-preserving toxic, well-formed, in a state
a live stub can be in (interrupted or not), not closed. -/
structure SW (s : Stage) : Prop where
  safe  : Safe (eff s)
  wf    : PcWF (eff s) s.pc
  rq    : RQ s.pc
  open_ : s.st.closed = false

theorem SOK.sw {s : Stage} (h : SOK s) : SW s := ⟨h.safe, h.wf, Or.inl h.quiet, h.open_⟩

theorem fire_interrupt (s : Stage) (hs : SW s) (now : Int) (hint : s.pc.interruptible = true) :
    SW (s.fire (.interrupt now)) ∧ (s.fire (.interrupt now)).pc.held = s.pc.held ∧
    (s.fire (.interrupt now)).inq = s.inq ∧ (s.fire (.interrupt now)).intr = s.intr ∧
    (s.fire (.interrupt now)).t = s.t := by
  obtain ⟨pc', hstep, hst, hwf, hheld⟩ := interrupt_ok (eff s) hs.safe s.st s.pc now hs.rq hs.wf hint
  rw [fire_eq s _ s.st pc' hstep]
  exact ⟨⟨hs.safe, hwf, Or.inr hst, hs.open_⟩, hheld, rfl, rfl, rfl⟩

theorem fire_taken' (s : Stage) (hs : SW s) (c : Chunk) (now : Int) (ho : s.pc.offer = some c) :
    SW (s.fire (.taken now)) ∧ (Quiet s.pc → Quiet (s.fire (.taken now)).pc) ∧
    s.pc.held = c.data ++ (s.fire (.taken now)).pc.held ∧
    (s.fire (.taken now)).inq = s.inq ∧ (s.fire (.taken now)).intr = s.intr ∧ (s.fire (.taken now)).t = s.t := by
  obtain ⟨pc', hstep, hrq, hqq, hwf, hheld⟩ := taken_ok' (eff s) hs.safe s.st s.pc c now hs.rq hs.wf ho
  rw [fire_eq s _ s.st pc' hstep]
  exact ⟨⟨hs.safe, hwf, hrq, hs.open_⟩, hqq, hheld, rfl, rfl, rfl⟩

theorem fire_timer' (s : Stage) (hs : SW s) (d now : Int) (ht : s.pc.timer = some d) (hnf : ∀ c dd, s.pc ≠ .flush c dd) :
    SW (s.fire (.timer now)) ∧ Quiet (s.fire (.timer now)).pc ∧ (s.fire (.timer now)).pc.held = s.pc.held ∧
    (s.fire (.timer now)).inq = s.inq ∧ (s.fire (.timer now)).intr = s.intr ∧ (s.fire (.timer now)).t = s.t := by
  obtain ⟨pc', hstep, hq, hwf, hheld⟩ := timer_ok' (eff s) hs.safe s.st s.pc d now hs.rq hs.wf ht hnf
  rw [fire_eq s _ s.st pc' hstep]
  exact ⟨⟨hs.safe, hwf, Or.inl hq, hs.open_⟩, hq, hheld, rfl, rfl, rfl⟩

theorem fire_input' (s : Stage) (hs : SW s) (c : Chunk) (now : Int) (draws : List Int) (hw : s.pc.wantsInput = true) :
    SW (s.fire (.input (some c) now draws)) ∧ Quiet (s.fire (.input (some c) now draws)).pc ∧
    (s.fire (.input (some c) now draws)).pc.held = c.data ∧ s.pc.held = [] ∧
    (s.fire (.input (some c) now draws)).inq = s.inq ∧ (s.fire (.input (some c) now draws)).intr = s.intr ∧
    (s.fire (.input (some c) now draws)).t = s.t := by
  cases hpc : s.pc with
  | idle carry =>
    obtain ⟨pc', hstep, hq', hwf', hheld⟩ := input_ok (eff s) hs.safe s.st carry c now draws
    rw [← hpc] at hstep
    rw [fire_eq s _ s.st pc' hstep]
    exact ⟨⟨hs.safe, hwf', Or.inl hq', hs.open_⟩, hq', hheld, by simp [Pc.held], rfl, rfl, rfl⟩
  | idleT d =>
    have := hs.rq; rw [hpc] at this
    rcases this with h | h <;> simp [Quiet, Stopping] at h
  | _ => rw [hpc] at hw; simp [Pc.wantsInput] at hw


/-! ### Roles of the stubs while an API call works on the link -/

inductive Role where
  | normal      -- in service
  | intr        -- being interrupted by the controller (`InterruptToxic` in progress)
  | stopped     -- `Pipe` has returned; the controller owns the stub's channels
  | fresh       -- appended by `AddToxic`, not wired in yet
deriving DecidableEq, Repr

def roleFor (ctl : Option Ctl) (n : Nat) (i : Nat) : Role :=
  match ctl with
  | none => .normal
  | some (.addWait _) =>
    if i + 1 = n then .fresh else if i + 2 = n then .intr else .normal
  | some (.updWait idx _) => if i = idx then .intr else .normal
  | some (.rmIntr idx _) => if i = idx then .intr else .normal
  | some (.rmLoop idx _ _ _) => if i = idx then .stopped else if i + 1 = idx then .intr else .normal
  | some (.rmDrain idx _ _) => if i = idx ∨ i + 1 = idx then .stopped else .normal
  | some (.rmWaitStop _) => .normal

def roleOf (l : Link) (i : Nat) : Role := roleFor l.ctl l.stages.length i

def StageInv : Role → Stage → Prop
  | .normal, s => SOK s
  | .intr, s => SW s ∧ (s.intr = .pending ∨ s.intr = .waitRet ∨ (s.intr = .done true ∧ s.pc = .ret))
  | .stopped, s => SW s ∧ s.pc = .ret ∧ s.intr = .none
  | .fresh, s => SW s ∧ s.pc = .ret ∧ s.intr = .none ∧ s.inq = []

theorem StageInv.sw {r : Role} {s : Stage} (h : StageInv r s) : SW s := by
  cases r
  · exact SOK.sw h
  · exact h.1
  · exact h.1
  · exact h.1

def SafeT (t : TCfg) : Prop := Safe (effective t.cfg t.active)

/-- Shape facts of the controller's state (`det`: the last stub is not wired in; `n`: number of
stubs). -/
def CtlFor (chain : List TCfg) (ctl : Option Ctl) (det : Bool) (n : Nat) : Prop :=
  match ctl with
  | none => det = false ∧ chain.length = n
  | some (.addWait t) => det = true ∧ 2 ≤ n ∧ SafeT t ∧ chain.length = n
  | some (.updWait idx t) => det = false ∧ idx < n ∧ SafeT t ∧ chain.length = n
  | some (.rmIntr idx cl) => det = false ∧ cl = false ∧ 1 ≤ idx ∧ idx < n ∧ chain.length + 1 = n
  | some (.rmLoop idx _ _ sg) => det = false ∧ sg = false ∧ 1 ≤ idx ∧ idx < n ∧ chain.length + 1 = n
  | some (.rmDrain idx _ _) => det = false ∧ 1 ≤ idx ∧ idx < n ∧ chain.length + 1 = n
  | some (.rmWaitStop _) => False

def CtlInv (chain : List TCfg) (l : Link) : Prop := CtlFor chain l.ctl l.detached l.stages.length

/-- The chunk the `RemoveToxic` controller is carrying from the drained stub's input to its
output, and the index of that stub. -/
def tmpOf (ctl : Option Ctl) : Option (Nat × Chunk) :=
  match ctl with
  | some (.rmLoop idx (some c) _ _) => some (idx, c)
  | some (.rmDrain idx (some c) _) => some (idx, c)
  | _ => none

def Link.tmp (l : Link) : Option (Nat × Chunk) := tmpOf l.ctl

/-- For the accounting, the carried chunk is held by the drained stub. -/
def ghost (c : Chunk) (s : Stage) : Stage := { s with pc := .flush c 0 }

def ghostOf (tmp : Option (Nat × Chunk)) (k : Nat) : Stage → Stage :=
  match tmp with
  | some (idx, c) => if k = idx then ghost c else id
  | none => id

def Link.ghostAt (l : Link) (k : Nat) : Stage → Stage := ghostOf (tmpOf l.ctl) k

def Link.virt (l : Link) : List Stage := l.stages.mapIdx fun k s => l.ghostAt k s

theorem virt_get (l : Link) (k : Nat) : (l.virt)[k]? = (l.stages[k]?).map (ghostOf (tmpOf l.ctl) k) := by
  simp [Link.virt, List.getElem?_mapIdx, Link.ghostAt]

theorem virt_length (l : Link) : l.virt.length = l.stages.length := by simp [Link.virt]

def Link.inflightR (l : Link) : Bytes :=
  (l.sinkPend.getD []) ++ chainBytes l.virt ++ ((l.srcPend.map (·.data)).getD [])

/-- No 5 s give-up of a `WriteOutput` is due (the proviso of C02). -/
def NoGiveUp (l : Link) (now : Int) : Prop :=
  (∀ s ∈ l.stages, ∀ c d, s.pc = .flush c d → now < d) ∧
  (match l.ctl with
   | some (.rmLoop _ (some _) d _) => now < d
   | some (.rmDrain _ (some _) d) => now < d
   | _ => True)

/-- A link of data-preserving toxics, possibly in the middle of `AddToxic`, `UpdateToxic` or
`RemoveToxic`, whose sender has not ended its stream and whose receiver's socket works. -/
structure RInv (chain : List TCfg) (l : Link) : Prop where
  stages   : ∀ i s, l.stages[i]? = some s → StageInv (roleFor l.ctl l.stages.length i) s
  ctl      : CtlFor chain l.ctl l.detached l.stages.length
  chainOK  : ∀ t ∈ chain, SafeT t
  nocrash  : l.crash = none
  sinkOpen : l.destClosed = false
  nofail   : l.sinkFail = false
  srcOpen  : l.srcDone = false
  srcLive  : l.srcEOF = false
  content  : l.delivered ++ l.inflightR = l.sent

theorem RInv.sw {chain : List TCfg} {l : Link} (hi : RInv chain l) {i : Nat} {s : Stage} (hs : l.stages[i]? = some s) :
    SW s := (hi.stages i s hs).sw

theorem virt_noctl (l : Link) (hc : l.ctl = none) : l.virt = l.stages := by
  apply List.ext_getElem?
  intro k
  rw [virt_get]
  simp [ghostOf, tmpOf, hc]

/-- With no API call in progress this is the invariant of `Pipeline.lean`. -/
theorem RInv_of_LInv (chain : List TCfg) (l : Link) (hi : LInv l) (hc : ∀ t ∈ chain, SafeT t)
    (hlen : chain.length = l.stages.length) : RInv chain l := by
  refine ⟨?_, ?_, hc, hi.nocrash, hi.sinkOpen, hi.nofail, hi.srcOpen, hi.srcLive, ?_⟩
  · intro i s hs
    simp only [roleFor, hi.noctl, StageInv]
    exact hi.stages s (List.mem_of_getElem? hs)
  · simp only [CtlFor, hi.noctl]
    exact ⟨hi.attached, hlen⟩
  · have := hi.content
    simp only [Link.inflight] at this
    simp only [Link.inflightR, virt_noctl l hi.noctl]
    exact this

theorem LInv_of_RInv (chain : List TCfg) (l : Link) (hi : RInv chain l) (hc : l.ctl = none) : LInv l := by
  have hctl := hi.ctl
  simp only [CtlFor, hc] at hctl
  refine ⟨?_, hc, hctl.1, hi.nocrash, hi.sinkOpen, hi.nofail, hi.srcOpen, hi.srcLive, ?_⟩
  · intro s hs
    obtain ⟨i, hi', hget⟩ := List.getElem_of_mem hs
    have := hi.stages i s (by rw [List.getElem?_eq_getElem hi', hget])
    simpa [roleFor, hc, StageInv] using this
  · have := hi.content
    simp only [Link.inflightR, virt_noctl l hc] at this
    simpa [Link.inflight] using this

/-! ### Who offers to whom -/

theorem tmp_ctlDrains (l : Link) (idx : Nat) (c : Chunk) (h : tmpOf l.ctl = some (idx, c)) : l.ctlDrains idx = true := by
  unfold tmpOf at h
  unfold Link.ctlDrains
  split at h <;> simp_all

/-- The offer visible on the input of stage `i > 0`: the `Pipe` of stage `i-1`, or the
controller draining stage `i-1`. -/
theorem offerTo_cases (l : Link) (i : Nat) (hpos : i ≠ 0) (c : Chunk) (h : l.offerTo i = some c) :
    (l.ctlDrains (i - 1) = false ∧ ∃ a, l.stages[i - 1]? = some a ∧ a.pc.offer = some c) ∨
    (l.ctlDrains (i - 1) = true ∧ tmpOf l.ctl = some (i - 1, c) ∧ ∃ a, l.stages[i - 1]? = some a) := by
  unfold Link.offerTo at h
  have h0 : (i == 0) = false := by simpa using hpos
  simp only [h0, Bool.false_eq_true, if_false] at h
  cases ha : l.stages[i - 1]? with
  | none => simp [ha] at h
  | some a =>
    simp only [ha] at h
    cases hd : l.ctlDrains (i - 1) with
    | false =>
      simp only [hd, Bool.false_eq_true, if_false] at h
      exact Or.inl ⟨rfl, a, rfl, h⟩
    | true =>
      simp only [hd, if_true] at h
      right
      refine ⟨rfl, ?_, a, rfl⟩
      unfold Link.ctlDrains at hd
      unfold tmpOf
      split at h
      · rename_i idx c' dl sg hctl
        simp only [hctl] at hd ⊢
        simp only [Option.some.injEq] at h
        subst h
        have : idx = i - 1 := by simpa using hd
        rw [this]
      · rename_i idx c' dl hctl
        simp only [hctl] at hd ⊢
        simp only [Option.some.injEq] at h
        subst h
        have : idx = i - 1 := by simpa using hd
        rw [this]
      · cases h

def clearTmp : Ctl → Ctl
  | .rmLoop idx _ _ sg => .rmLoop idx none 0 sg
  | .rmDrain idx _ _ => .rmDrain idx none 0
  | x => x

theorem ackUpstream_stage (l : Link) (i : Nat) (hpos : i ≠ 0) (now : Int) (h : l.ctlDrains (i - 1) = false) :
    l.ackUpstream i now = { l with stages := modifyAt l.stages (i - 1) fun s => s.fire (.taken now) } := by
  unfold Link.ackUpstream
  have h0 : (i == 0) = false := by simpa using hpos
  simp only [h0, Bool.false_eq_true, if_false, h]

theorem ackUpstream_ctl (l : Link) (i : Nat) (hpos : i ≠ 0) (now : Int) (c : Chunk) (h : tmpOf l.ctl = some (i - 1, c)) :
    l.ackUpstream i now = { l with ctl := l.ctl.map clearTmp } := by
  unfold Link.ackUpstream
  have h0 : (i == 0) = false := by simpa using hpos
  simp only [h0, Bool.false_eq_true, if_false, tmp_ctlDrains l (i - 1) c h, if_true]
  unfold tmpOf at h
  split at h
  · rename_i idx c' dl sg hctl
    simp only [hctl, Option.map_some, clearTmp]
  · rename_i idx c' dl hctl
    simp only [hctl, Option.map_some, clearTmp]
  · cases h

@[simp] theorem roleFor_clear (ctl : Option Ctl) (n k : Nat) : roleFor (ctl.map clearTmp) n k = roleFor ctl n k := by
  cases ctl with
  | none => rfl
  | some x => cases x <;> rfl

@[simp] theorem CtlFor_clear (chain : List TCfg) (ctl : Option Ctl) (d : Bool) (n : Nat) :
    CtlFor chain (ctl.map clearTmp) d n = CtlFor chain ctl d n := by
  cases ctl with
  | none => rfl
  | some x => cases x <;> rfl

@[simp] theorem tmpOf_clear (ctl : Option Ctl) : tmpOf (ctl.map clearTmp) = none := by
  cases ctl with
  | none => rfl
  | some x => cases x <;> rfl

/-- The drained stub is a stopped one, at an index ≥ 1. -/
theorem tmp_role (chain : List TCfg) (ctl : Option Ctl) (d : Bool) (n : Nat) (hctl : CtlFor chain ctl d n)
    (idx : Nat) (c : Chunk) (h : tmpOf ctl = some (idx, c)) :
    roleFor ctl n idx = .stopped ∧ 1 ≤ idx ∧ idx < n := by
  unfold tmpOf at h
  unfold CtlFor at hctl
  unfold roleFor
  split at h
  · rename_i idx' c' dl sg
    simp only [Option.some.injEq, Prod.mk.injEq] at h
    obtain ⟨rfl, rfl⟩ := h
    simp only at hctl ⊢
    exact ⟨by simp, hctl.2.2.1, hctl.2.2.2.1⟩
  · rename_i idx' c' dl
    simp only [Option.some.injEq, Prod.mk.injEq] at h
    obtain ⟨rfl, rfl⟩ := h
    simp only at hctl ⊢
    exact ⟨by simp, hctl.2.1, hctl.2.2.1⟩
  · cases h

@[simp] theorem ghostOf_none (k : Nat) : ghostOf none k = id := rfl

theorem ghostOf_other (idx : Nat) (c : Chunk) (k : Nat) (h : k ≠ idx) : ghostOf (some (idx, c)) k = id := by
  simp [ghostOf, h]

theorem ghostOf_self (idx : Nat) (c : Chunk) : ghostOf (some (idx, c)) idx = ghost c := by
  simp [ghostOf]

/-! ### Hand-offs -/

theorem stopped_bytes (s : Stage) (h : s.pc = .ret) : s.bytes = (s.inq.map (·.data)).flatten := by
  simp [Stage.bytes, h, Pc.held]

theorem ghost_bytes (c : Chunk) (s : Stage) : (ghost c s).bytes = c.data ++ (s.inq.map (·.data)).flatten := by
  simp [Stage.bytes, ghost, Pc.held]

/-- The stage giving a chunk away keeps its role. -/
theorem giver_keeps (r : Role) (a : Stage) (c : Chunk) (now : Int) (ha : StageInv r a) (ho : a.pc.offer = some c) :
    StageInv r (a.fire (.taken now)) ∧ a.bytes = c.data ++ (a.fire (.taken now)).bytes := by
  obtain ⟨hsw, hqq, hheld, hinq, hintr, _⟩ := fire_taken' a ha.sw c now ho
  have hb : a.bytes = c.data ++ (a.fire (.taken now)).bytes := bytes_taken a _ c hheld hinq
  refine ⟨?_, hb⟩
  cases r with
  | normal => exact ⟨hsw.safe, hsw.wf, hqq ha.quiet, by rw [hintr]; exact ha.intr, hsw.open_⟩
  | intr =>
    refine ⟨hsw, ?_⟩
    rw [hintr]
    rcases ha.2 with h | h | ⟨_, hpc⟩
    · exact Or.inl h
    · exact Or.inr (Or.inl h)
    · rw [hpc] at ho; simp [Pc.offer] at ho
  | stopped => have := ha.2.1; rw [this] at ho; simp [Pc.offer] at ho
  | fresh => have := ha.2.1; rw [this] at ho; simp [Pc.offer] at ho

theorem content_of_virt {chain : List TCfg} {l l' : Link} (hi : RInv chain l) (i : Nat) (a s : Stage)
    (ha : l.virt[i]? = some a) (hs : l.virt[i + 1]? = some s) (fa fs : Stage → Stage) (c : Bytes)
    (hab : a.bytes = c ++ (fa a).bytes) (hsb : (fs s).bytes = s.bytes ++ c)
    (hv : l'.virt = modifyAt (modifyAt l.virt i fa) (i + 1) fs)
    (h1 : l'.sinkPend = l.sinkPend) (h2 : l'.srcPend = l.srcPend) (h3 : l'.delivered = l.delivered) (h4 : l'.sent = l.sent) :
    l'.delivered ++ l'.inflightR = l'.sent := by
  have hc := hi.content
  simp only [Link.inflightR] at hc ⊢
  rw [hv, chain_handoff l.virt i a s ha hs fa fs c hab hsb, h1, h2, h3, h4]
  exact hc

theorem content_same {chain : List TCfg} {l l' : Link} (hi : RInv chain l) (i : Nat) (s : Stage)
    (hs : l.virt[i]? = some s) (g : Stage → Stage) (hb : (g s).bytes = s.bytes)
    (hv : l'.virt = modifyAt l.virt i g)
    (h1 : l'.sinkPend = l.sinkPend) (h2 : l'.srcPend = l.srcPend) (h3 : l'.delivered = l.delivered) (h4 : l'.sent = l.sent) :
    l'.delivered ++ l'.inflightR = l'.sent := by
  have hc := hi.content
  simp only [Link.inflightR] at hc ⊢
  rw [hv, chain_modify_one l.virt i s hs g hb, h1, h2, h3, h4]
  exact hc


/-- **Hand-off of a chunk to stage `i`** (into its buffer, or to its `Pipe`) from whoever offers
it — the source goroutine, the `Pipe` of stage `i-1`, or the `RemoveToxic` controller carrying
a chunk out of stage `i-1`. -/
theorem r_handoff (chain : List TCfg) (l : Link) (hi : RInv chain l) (i : Nat) (now : Int) (s : Stage)
    (hs : l.stages[i]? = some s) (c : Chunk) (hoff : l.offerTo i = some c) (g : Stage → Stage)
    (hg : StageInv (roleFor l.ctl l.stages.length i) (g s)) (hb : (g s).bytes = s.bytes ++ c.data)
    (hgh : ∀ c0, tmpOf l.ctl = some (i, c0) → (g s).inq = s.inq ++ [c] ∧ g (ghost c0 s) = ghost c0 (g s)) :
    RInv chain { (l.ackUpstream i now) with stages := modifyAt (l.ackUpstream i now).stages i g } := by
  -- the virtual receiver
  have hvs : l.virt[i]? = some (ghostOf (tmpOf l.ctl) i s) := by rw [virt_get, hs]; rfl
  by_cases h0 : i = 0
  · -- from the source goroutine
    subst h0
    have hsp : l.srcPend = some c := by simpa [Link.offerTo] using hoff
    have hack : l.ackUpstream 0 now = { l with srcPend := none } := by simp [Link.ackUpstream]
    rw [hack]
    have hg0 : ghostOf (tmpOf l.ctl) 0 = id := by
      cases ht : tmpOf l.ctl with
      | none => rfl
      | some x =>
        obtain ⟨idx, c0⟩ := x
        have := (tmp_role chain l.ctl _ _ hi.ctl idx c0 ht).2.1
        exact ghostOf_other idx c0 0 (by omega)
    refine ⟨?_, ?_, hi.chainOK, hi.nocrash, hi.sinkOpen, hi.nofail, hi.srcOpen, hi.srcLive, ?_⟩
    · intro k x hx
      simp only [length_modifyAt] at hx ⊢
      rw [getElem?_modifyAt] at hx
      by_cases hk : k = 0
      · subst hk
        rw [if_pos rfl, hs] at hx
        simp only [Option.map_some, Option.some.injEq] at hx
        subst hx; exact hg
      · rw [if_neg hk] at hx; exact hi.stages k x hx
    · simp only [length_modifyAt]; exact hi.ctl
    · have hc := hi.content
      simp only [Link.inflightR, hsp, Option.map_some, Option.getD_some] at hc
      simp only [Link.inflightR, Option.map_none, Option.getD_none, List.append_nil]
      have hv' : Link.virt { l with srcPend := none, stages := modifyAt l.stages 0 g } = modifyAt l.virt 0 g := by
        apply List.ext_getElem?
        intro k
        simp only [virt_get, getElem?_modifyAt]
        by_cases hk : k = 0
        · subst hk; simp [hs, hg0]
        · simp [hk]
      rw [hv']
      have hvs0 : l.virt[0]? = some s := by rw [hvs, hg0]; rfl
      obtain ⟨pre, post, hss, hlen⟩ := split_one l.virt 0 s hvs0
      have hpre : pre = [] := List.eq_nil_of_length_eq_zero hlen
      subst hpre
      simp only [List.nil_append] at hss
      have hmod : modifyAt l.virt 0 g = g s :: post := by
        rw [hss]; exact modifyAt_mid [] post s g
      rw [hmod, chainBytes_cons, hb, ← hc, hss, chainBytes_cons]
      simp [List.append_assoc]
  · have hi1 : i - 1 + 1 = i := by omega
    rcases offerTo_cases l i h0 c hoff with ⟨hnd, a, ha, hao⟩ | ⟨hd, htmp, a, ha⟩
    · -- from the `Pipe` of stage i-1
      rw [ackUpstream_stage l i h0 now hnd]
      obtain ⟨hra, hab⟩ := giver_keeps _ a c now (hi.stages (i - 1) a ha) hao
      -- the giver is not the drained stub
      have hga : ghostOf (tmpOf l.ctl) (i - 1) = id := by
        cases ht : tmpOf l.ctl with
        | none => rfl
        | some x =>
          obtain ⟨idx, c0⟩ := x
          by_cases hk : i - 1 = idx
          · subst hk
            rw [tmp_ctlDrains l _ c0 ht] at hnd; cases hnd
          · exact ghostOf_other idx c0 _ hk
      refine ⟨?_, ?_, hi.chainOK, hi.nocrash, hi.sinkOpen, hi.nofail, hi.srcOpen, hi.srcLive, ?_⟩
      · intro k x hx
        simp only [length_modifyAt] at hx ⊢
        rw [getElem?_modifyAt, getElem?_modifyAt] at hx
        by_cases hk : k = i
        · subst hk
          rw [if_pos rfl, if_neg (by omega), hs] at hx
          simp only [Option.map_some, Option.some.injEq] at hx
          subst hx; exact hg
        · rw [if_neg hk] at hx
          by_cases hk1 : k = i - 1
          · subst hk1
            rw [if_pos rfl, ha] at hx
            simp only [Option.map_some, Option.some.injEq] at hx
            subst hx; exact hra
          · rw [if_neg hk1] at hx; exact hi.stages k x hx
      · simp only [length_modifyAt]; exact hi.ctl
      · have hva : l.virt[i - 1]? = some a := by rw [virt_get, ha, hga]; rfl
        have hvs' : l.virt[i - 1 + 1]? = some (ghostOf (tmpOf l.ctl) i s) := by rw [hi1]; exact hvs
        refine content_of_virt hi (i - 1) a _ hva hvs' (fun s => s.fire (.taken now)) g c.data hab ?_ ?_
          rfl rfl rfl rfl
        · -- the receiver's bytes
          cases ht : tmpOf l.ctl with
          | none => exact hb
          | some x =>
            obtain ⟨idx, c0⟩ := x
            by_cases hk : i = idx
            · subst hk
              obtain ⟨hq, hcomm⟩ := hgh c0 ht
              rw [ghostOf_self, hcomm, ghost_bytes, ghost_bytes, hq]
              simp [List.append_assoc]
            · rw [ghostOf_other idx c0 i hk]; exact hb
        · apply List.ext_getElem?
          intro k
          rw [hi1]
          simp only [virt_get, getElem?_modifyAt]
          by_cases hk : k = i
          · subst hk
            have : ¬ (k = k - 1) := by omega
            simp only [if_true, this, if_false, hs, Option.map_some]
            cases ht : tmpOf l.ctl with
            | none => rfl
            | some x =>
              obtain ⟨idx, c0⟩ := x
              by_cases hkk : k = idx
              · subst hkk
                rw [ghostOf_self, (hgh c0 ht).2]
              · rw [ghostOf_other idx c0 k hkk]; rfl
          · simp only [hk, if_false]
            by_cases hk1 : k = i - 1
            · subst hk1
              simp [ha, hga]
            · simp [hk1]
    · -- from the controller draining stage i-1
      rw [ackUpstream_ctl l i h0 now c htmp]
      obtain ⟨hrole, _, _⟩ := tmp_role chain l.ctl _ _ hi.ctl (i - 1) c htmp
      have hsa := hi.stages (i - 1) a ha
      rw [hrole] at hsa
      refine ⟨?_, ?_, hi.chainOK, hi.nocrash, hi.sinkOpen, hi.nofail, hi.srcOpen, hi.srcLive, ?_⟩
      · intro k x hx
        simp only [length_modifyAt, roleFor_clear] at hx ⊢
        rw [getElem?_modifyAt] at hx
        by_cases hk : k = i
        · subst hk
          rw [if_pos rfl, hs] at hx
          simp only [Option.map_some, Option.some.injEq] at hx
          subst hx; exact hg
        · rw [if_neg hk] at hx; exact hi.stages k x hx
      · simp only [length_modifyAt, CtlFor_clear]; exact hi.ctl
      · have hgi : ghostOf (tmpOf l.ctl) i = id := by
          rw [htmp]; exact ghostOf_other _ c i (by omega)
        have hva : l.virt[i - 1]? = some (ghost c a) := by rw [virt_get, ha, htmp, ghostOf_self]; rfl
        have hvs' : l.virt[i - 1 + 1]? = some s := by rw [hi1, hvs, hgi]; rfl
        refine content_of_virt hi (i - 1) (ghost c a) s hva hvs' (fun s => { s with pc := .ret }) g c.data ?_ hb ?_
          rfl rfl rfl rfl
        · rw [ghost_bytes]
          simp [Stage.bytes, ghost, Pc.held]
        · apply List.ext_getElem?
          intro k
          rw [hi1]
          simp only [virt_get, getElem?_modifyAt, tmpOf_clear]
          by_cases hk : k = i
          · subst hk
            have : ¬ (k = k - 1) := by omega
            simp [this, hs, hgi]
          · simp only [hk, if_false]
            by_cases hk1 : k = i - 1
            · subst hk1
              have hpc := hsa.2.1
              simp only [if_true, ha, Option.map_some, htmp, ghostOf_self, ghostOf_none, id]
              congr 1
              obtain ⟨t, st, pc, inq, intr⟩ := a
              have hpc' : pc = .ret := hpc
              subst hpc'
              rfl
            · rw [htmp, ghostOf_other _ c k hk1]
              simp [hk1]


/-! ### The moves of the goroutines that are not the controller -/

theorem r_sourceMove (chain : List TCfg) (l : Link) (now : Int) (l' : Link) (hi : RInv chain l)
    (h : l.sourceMove now = some l') : RInv chain l' := by
  unfold Link.sourceMove at h
  split at h
  · rename_i hc
    have hsp : l.srcPend = none := by
      simp only [Bool.and_eq_true, Option.isNone_iff_eq_none] at hc; exact hc.1
    split at h
    · rename_i d q hq
      cases h
      refine ⟨hi.stages, hi.ctl, hi.chainOK, hi.nocrash, hi.sinkOpen, hi.nofail, hi.srcOpen, hi.srcLive, ?_⟩
      have := hi.content
      simp only [Link.inflightR, hsp, Option.map_none, Option.getD_none, List.append_nil] at this
      simp only [Link.inflightR, Option.map_some, Option.getD_some]
      have hv : Link.virt { l with srcQ := q, srcPend := some ⟨d, now⟩, sent := l.sent ++ d, reads := l.reads + 1 } = l.virt := rfl
      rw [hv, ← this]; simp [List.append_assoc]
    · simp [hi.srcLive] at h
  · cases h

theorem not_fresh_of_wired (chain : List TCfg) (l : Link) (hi : RInv chain l) (i : Nat)
    (h : (l.detached && i + 1 == l.stages.length) = false) : roleFor l.ctl l.stages.length i ≠ .fresh := by
  intro hr
  have hctl := hi.ctl
  cases hc : l.ctl with
  | none => rw [hc] at hr; simp [roleFor] at hr
  | some x =>
    rw [hc] at hr hctl
    cases x with
    | addWait t =>
      simp only [CtlFor] at hctl
      simp only [roleFor] at hr
      rw [hctl.1] at h
      by_cases hlen : i + 1 = l.stages.length
      · simp [hlen] at h
      · rw [if_neg hlen] at hr; split at hr <;> cases hr
    | updWait idx t => simp only [roleFor] at hr; split at hr <;> cases hr
    | rmIntr idx cl => simp only [roleFor] at hr; split at hr <;> cases hr
    | rmLoop idx tmp dl sg =>
      simp only [roleFor] at hr
      split at hr
      · cases hr
      · split at hr <;> cases hr
    | rmDrain idx tmp dl => simp only [roleFor] at hr; split at hr <;> cases hr
    | rmWaitStop idx => simp [roleFor] at hr

theorem r_bufferMove (chain : List TCfg) (l : Link) (i : Nat) (now : Int) (l' : Link) (hi : RInv chain l)
    (h : l.bufferMove i now = some l') : RInv chain l' := by
  unfold Link.bufferMove at h
  cases hs : l.stages[i]? with
  | none => simp [hs] at h
  | some s =>
    simp only [hs] at h
    split at h
    · rename_i hcond
      cases hoff : l.offerTo i with
      | none => simp [hoff] at h
      | some c =>
        simp only [hoff, Option.some.injEq] at h
        subst h
        have hw : (l.detached && i + 1 == l.stages.length) = false := by
          simp only [Bool.and_eq_true, Bool.not_eq_true'] at hcond; exact hcond.2
        have hnf := not_fresh_of_wired chain l hi i hw
        have hsi := hi.stages i s hs
        refine r_handoff chain l hi i now s hs c hoff (fun s => { s with inq := s.inq ++ [c] }) ?_
          (by simp [Stage.bytes, List.append_assoc]) (fun c0 _ => ⟨rfl, rfl⟩)
        revert hsi hnf
        generalize roleFor l.ctl l.stages.length i = r
        intro hnf hsi
        cases r with
        | normal => exact ⟨hsi.safe, hsi.wf, hsi.quiet, hsi.intr, hsi.open_⟩
        | intr => exact ⟨⟨hsi.1.safe, hsi.1.wf, hsi.1.rq, hsi.1.open_⟩, hsi.2⟩
        | stopped => exact ⟨⟨hsi.1.safe, hsi.1.wf, hsi.1.rq, hsi.1.open_⟩, hsi.2⟩
        | fresh => exact absurd rfl hnf
    · cases h


/-- The last wired stage (everything after it holds nothing) gives its oldest bytes away. -/
theorem chain_take_front (ss : List Stage) (i : Nat) (a : Stage) (ha : ss[i]? = some a)
    (hpost : ∀ k x, ss[k]? = some x → i < k → x.bytes = []) (fa : Stage → Stage) (c : Bytes)
    (hab : a.bytes = c ++ (fa a).bytes) : chainBytes ss = c ++ chainBytes (modifyAt ss i fa) := by
  obtain ⟨pre, post, hss, hlen⟩ := split_one ss i a ha
  have hmod : modifyAt ss i fa = pre ++ fa a :: post := by
    rw [hss, ← hlen]; exact modifyAt_mid pre post a fa
  have hp : chainBytes post = [] := by
    apply chainBytes_nil_of
    intro x hx
    obtain ⟨j, hj, hget⟩ := List.getElem_of_mem hx
    apply hpost (pre.length + 1 + j) x ?_ (by omega)
    rw [hss, List.getElem?_append_right (by omega)]
    have : pre.length + 1 + j - pre.length = j + 1 := by omega
    rw [this, List.getElem?_cons_succ, List.getElem?_eq_getElem hj, hget]
  rw [hmod, chainBytes_append, chainBytes_cons, hp]
  conv => lhs; rw [hss, chainBytes_append, chainBytes_cons, hp, hab]
  simp [List.append_assoc]

/-- Beyond the stage that feeds the sink there is at most the stub `AddToxic` has appended but
not wired in yet: it holds nothing. -/
theorem beyond_wired (chain : List TCfg) (l : Link) (hi : RInv chain l) (k : Nat) (x : Stage)
    (hx : l.virt[k]? = some x) (hk : l.wired - 1 < k) (hw : l.wired ≠ 0) : x.bytes = [] := by
  rw [virt_get] at hx
  have hctl := hi.ctl
  cases hd : l.detached with
  | false =>
    have : l.wired = l.stages.length := by simp [Link.wired, hd]
    have : l.stages.length ≤ k := by omega
    rw [List.getElem?_eq_none this] at hx; cases hx
  | true =>
    have hwd : l.wired = l.stages.length - 1 := by simp [Link.wired, hd]
    cases hc : l.ctl with
    | none => rw [hc, hd] at hctl; simp [CtlFor] at hctl
    | some y =>
      rw [hc, hd] at hctl
      cases y <;> simp [CtlFor] at hctl
      rename_i t
      cases hs : l.stages[k]? with
      | none => rw [hs] at hx; cases hx
      | some s =>
        have hklt : k < l.stages.length := by
          rcases Nat.lt_or_ge k l.stages.length with h | h
          · exact h
          · rw [List.getElem?_eq_none h] at hs; cases hs
        have hkl : k + 1 = l.stages.length := by omega
        have := hi.stages k s hs
        rw [hc] at this
        simp only [roleFor, hkl, if_true, StageInv] at this
        rw [hs, hc] at hx
        simp only [tmpOf, ghostOf_none, Option.map_some, id, Option.some.injEq] at hx
        subst hx
        simp [Stage.bytes, this.2.1, this.2.2.2, Pc.held]

theorem r_sinkMove (chain : List TCfg) (l : Link) (now : Int) (l' : Link) (hi : RInv chain l)
    (h : l.sinkMove now = some l') : RInv chain l' := by
  unfold Link.sinkMove at h
  rw [if_neg (by simp [hi.sinkOpen])] at h
  cases hsp : l.sinkPend with
  | some d =>
    simp only [hsp] at h
    rw [if_neg (by simp [hi.nofail])] at h
    split at h
    · cases h
      refine ⟨hi.stages, hi.ctl, hi.chainOK, hi.nocrash, hi.sinkOpen, hi.nofail, hi.srcOpen, hi.srcLive, ?_⟩
      have := hi.content
      simp only [Link.inflightR, hsp, Option.getD_some] at this
      simp only [Link.inflightR, Option.getD_none, List.nil_append]
      have hv : Link.virt { l with sinkPend := none, log := ⟨now, d⟩ :: l.log, delivered := l.delivered ++ d } = l.virt := rfl
      rw [hv, ← this]; simp [List.append_assoc]
    · cases h
  | none =>
    simp only [hsp] at h
    by_cases hz : (l.wired == 0) = true
    · simp [hz] at h
    · have hz' : l.wired ≠ 0 := by simpa using hz
      simp only [hz, Bool.false_eq_true, if_false] at h
      cases hoff : l.offerTo l.wired with
      | none =>
        simp only [hoff] at h
        -- the stage feeding the sink has not closed
        have : l.inputClosed l.wired = false := by
          unfold Link.inputClosed
          simp only [hz, Bool.false_eq_true, if_false]
          cases ha : l.stages[l.wired - 1]? with
          | none => rfl
          | some a => exact (hi.sw ha).open_
        simp [this] at h
      | some c =>
        simp only [hoff, Option.some.injEq] at h
        subst h
        have hc0 := hi.content
        simp only [Link.inflightR, hsp, Option.getD_none, List.nil_append] at hc0
        have hdata : (if c.data.isEmpty = true then none else some c.data : Option Bytes).getD [] = c.data := by
          by_cases he : c.data.isEmpty = true
          · have : c.data = [] := by simpa using he
            simp [he, this]
          · simp [he]
        rcases offerTo_cases l l.wired hz' c hoff with ⟨hnd, a, ha, hao⟩ | ⟨hd, htmp, a, ha⟩
        · rw [ackUpstream_stage l l.wired hz' now hnd]
          obtain ⟨hra, hab⟩ := giver_keeps _ a c now (hi.stages _ a ha) hao
          have hga : ghostOf (tmpOf l.ctl) (l.wired - 1) = id := by
            cases ht : tmpOf l.ctl with
            | none => rfl
            | some x =>
              obtain ⟨idx, c0⟩ := x
              by_cases hk : l.wired - 1 = idx
              · subst hk
                rw [tmp_ctlDrains l _ c0 ht] at hnd; cases hnd
              · exact ghostOf_other idx c0 _ hk
          refine ⟨?_, ?_, hi.chainOK, hi.nocrash, hi.sinkOpen, hi.nofail, hi.srcOpen, hi.srcLive, ?_⟩
          · intro k x hx
            simp only [length_modifyAt] at hx ⊢
            rw [getElem?_modifyAt] at hx
            by_cases hk1 : k = l.wired - 1
            · subst hk1
              rw [if_pos rfl, ha] at hx
              simp only [Option.map_some, Option.some.injEq] at hx
              subst hx; exact hra
            · rw [if_neg hk1] at hx; exact hi.stages k x hx
          · simp only [length_modifyAt]; exact hi.ctl
          · have hva : l.virt[l.wired - 1]? = some a := by rw [virt_get, ha, hga]; rfl
            have hfront := chain_take_front l.virt (l.wired - 1) a hva
              (fun k x hx hk => beyond_wired chain l hi k x hx hk hz') (fun s => s.fire (.taken now)) c.data hab
            have hv' : Link.virt { l with stages := modifyAt l.stages (l.wired - 1) fun s => s.fire (.taken now) } =
                modifyAt l.virt (l.wired - 1) fun s => s.fire (.taken now) := by
              apply List.ext_getElem?
              intro k
              simp only [virt_get, getElem?_modifyAt]
              by_cases hk : k = l.wired - 1
              · subst hk; simp [ha, hga]
              · simp [hk]
            simp only [Link.inflightR, hdata]
            have hv'' : Link.virt { (({ l with stages := modifyAt l.stages (l.wired - 1) fun s => s.fire (.taken now) } : Link)) with
                sinkPend := if c.data.isEmpty = true then none else some c.data } =
                Link.virt { l with stages := modifyAt l.stages (l.wired - 1) fun s => s.fire (.taken now) } := rfl
            rw [hv'', hv', ← hc0, hfront]
        · rw [ackUpstream_ctl l l.wired hz' now c htmp]
          obtain ⟨hrole, _, _⟩ := tmp_role chain l.ctl _ _ hi.ctl (l.wired - 1) c htmp
          have hsa := hi.stages (l.wired - 1) a ha
          rw [hrole] at hsa
          refine ⟨?_, ?_, hi.chainOK, hi.nocrash, hi.sinkOpen, hi.nofail, hi.srcOpen, hi.srcLive, ?_⟩
          · intro k x hx
            simp only [roleFor_clear] at hx ⊢
            exact hi.stages k x hx
          · simp only [CtlFor_clear]; exact hi.ctl
          · have hva : l.virt[l.wired - 1]? = some (ghost c a) := by rw [virt_get, ha, htmp, ghostOf_self]; rfl
            have hfront := chain_take_front l.virt (l.wired - 1) (ghost c a) hva
              (fun k x hx hk => beyond_wired chain l hi k x hx hk hz') (fun s => { s with pc := .ret }) c.data
              (by rw [ghost_bytes]; simp [Stage.bytes, ghost, Pc.held])
            have hv' : Link.virt { l with ctl := l.ctl.map clearTmp } =
                modifyAt l.virt (l.wired - 1) fun s => { s with pc := .ret } := by
              apply List.ext_getElem?
              intro k
              simp only [virt_get, getElem?_modifyAt, tmpOf_clear]
              by_cases hk : k = l.wired - 1
              · subst hk
                have hpc := hsa.2.1
                simp only [if_true, ha, Option.map_some, htmp, ghostOf_self, ghostOf_none, id]
                congr 1
                obtain ⟨t, st, pc, inq, intr⟩ := a
                have hpc' : pc = .ret := hpc
                subst hpc'
                rfl
              · rw [htmp, ghostOf_other _ c k hk]
                simp [hk]
            simp only [Link.inflightR, hdata]
            have hv'' : Link.virt { (({ l with ctl := l.ctl.map clearTmp } : Link)) with
                sinkPend := if c.data.isEmpty = true then none else some c.data } =
                Link.virt { l with ctl := l.ctl.map clearTmp } := rfl
            rw [hv'', hv', ← hc0, hfront]


/-- A stub that is not being drained by hand changes state without changing what it holds. -/
theorem r_modify_same (chain : List TCfg) (l : Link) (hi : RInv chain l) (i : Nat) (s : Stage)
    (hs : l.stages[i]? = some s) (g : Stage → Stage) (hg : StageInv (roleFor l.ctl l.stages.length i) (g s))
    (hb : (g s).bytes = s.bytes) (hng : ∀ c0, tmpOf l.ctl ≠ some (i, c0)) (r : Bool) :
    RInv chain { l with race := r, stages := modifyAt l.stages i g } := by
  have hgi : ghostOf (tmpOf l.ctl) i = id := by
    cases ht : tmpOf l.ctl with
    | none => rfl
    | some x =>
      obtain ⟨idx, c0⟩ := x
      by_cases hk : i = idx
      · subst hk; exact absurd ht (hng c0)
      · exact ghostOf_other idx c0 i hk
  refine ⟨?_, ?_, hi.chainOK, hi.nocrash, hi.sinkOpen, hi.nofail, hi.srcOpen, hi.srcLive, ?_⟩
  · intro k x hx
    simp only [length_modifyAt] at hx ⊢
    rw [getElem?_modifyAt] at hx
    by_cases hk : k = i
    · subst hk
      rw [if_pos rfl, hs] at hx
      simp only [Option.map_some, Option.some.injEq] at hx
      subst hx; exact hg
    · rw [if_neg hk] at hx; exact hi.stages k x hx
  · simp only [length_modifyAt]; exact hi.ctl
  · have hvs : l.virt[i]? = some s := by rw [virt_get, hs, hgi]; rfl
    refine content_same hi i s hvs g hb ?_ rfl rfl rfl rfl
    apply List.ext_getElem?
    intro k
    simp only [virt_get, getElem?_modifyAt]
    by_cases hk : k = i
    · subst hk; simp [hs, hgi]
    · simp [hk]

/-- A stub whose `Pipe` is running keeps its role when it moves on undisturbed. -/
theorem role_keep {r : Role} {s s' : Stage} (h : StageInv r s) (hrun : s.pc ≠ .ret) (hsw : SW s')
    (hq : Quiet s'.pc) (hintr : s'.intr = s.intr) : StageInv r s' := by
  cases r with
  | normal => exact ⟨hsw.safe, hsw.wf, hq, by rw [hintr]; exact h.intr, hsw.open_⟩
  | intr =>
    refine ⟨hsw, ?_⟩
    rw [hintr]
    rcases h.2 with h' | h' | ⟨_, hpc⟩
    · exact Or.inl h'
    · exact Or.inr (Or.inl h')
    · exact absurd hpc hrun
  | stopped => exact absurd h.2.1 hrun
  | fresh => exact absurd h.2.1 hrun

theorem not_drained_of_running (chain : List TCfg) (l : Link) (hi : RInv chain l) (i : Nat) (s : Stage)
    (hs : l.stages[i]? = some s) (hrun : s.pc ≠ .ret) : ∀ c0, tmpOf l.ctl ≠ some (i, c0) := by
  intro c0 ht
  have hrole := (tmp_role chain l.ctl _ _ hi.ctl i c0 ht).1
  have := hi.stages i s hs
  rw [hrole] at this
  exact hrun this.2.1

theorem inputClosed_false' (chain : List TCfg) (l : Link) (hi : RInv chain l) (i : Nat) :
    l.inputClosed i = false := by
  unfold Link.inputClosed
  by_cases h0 : (i == 0) = true
  · simp [h0, hi.srcOpen]
  · simp only [h0, Bool.false_eq_true, if_false]
    cases ha : l.stages[i - 1]? with
    | none => rfl
    | some a => exact (hi.sw ha).open_

/-- The receiving part of a stub's move. -/
theorem r_receive (chain : List TCfg) (l : Link) (hi : RInv chain l) (i : Nat) (now : Int) (s : Stage)
    (hs : l.stages[i]? = some s) (hw : s.pc.wantsInput = true) (l' : Link)
    (h : (match l.inputOf i with
      | some (c, src) =>
        some { (l.consume i src c.isSome now) with
          stages := modifyAt (l.consume i src c.isSome now).stages i fun s => s.fire (.input c now drawsConst) }
      | none => none) = some l') : RInv chain l' := by
  have hsi := hi.stages i s hs
  have hsw := hsi.sw
  have hrun : s.pc ≠ .ret := by intro hp; rw [hp] at hw; simp [Pc.wantsInput] at hw
  cases hio : l.inputOf i with
  | none => simp [hio] at h
  | some rr =>
    obtain ⟨oc, src⟩ := rr
    simp only [hio, Option.some.injEq] at h
    unfold Link.inputOf at hio
    simp only [hs] at hio
    cases hq' : s.inq with
    | cons c rest =>
      simp only [hq', Option.some.injEq, Prod.mk.injEq] at hio
      obtain ⟨rfl, rfl⟩ := hio
      subst h
      simp only [Link.consume, Option.isSome_some, Bool.not_true, Bool.false_eq_true, if_false]
      rw [modifyAt_comp]
      have hs1 : SW { s with inq := s.inq.drop 1 } := ⟨hsw.safe, hsw.wf, hsw.rq, hsw.open_⟩
      obtain ⟨hs2, hq2, hheld, hh0, hinq, hintr, _⟩ := fire_input' { s with inq := s.inq.drop 1 } hs1 c now drawsConst hw
      have hb : (({ s with inq := s.inq.drop 1 } : Stage).fire (.input (some c) now drawsConst)).bytes = s.bytes := by
        simp only [Stage.bytes, hheld, hinq]
        simp only at hh0
        rw [hh0, hq']
        simp
      exact r_modify_same chain l hi i s hs
        (fun s => ({ s with inq := s.inq.drop 1 } : Stage).fire (.input (some c) now drawsConst))
        (role_keep hsi hrun hs2 hq2 hintr) hb (not_drained_of_running chain l hi i s hs hrun) l.race
    | nil =>
      simp only [hq'] at hio
      cases hoff : l.offerTo i with
      | some c =>
        simp only [hoff, Option.some.injEq, Prod.mk.injEq] at hio
        obtain ⟨rfl, rfl⟩ := hio
        subst h
        simp only [Link.consume, Option.isSome_some, Bool.not_true, Bool.false_eq_true, if_false]
        obtain ⟨hs2, hq2, hheld, hh0, hinq, hintr, _⟩ := fire_input' s hsw c now drawsConst hw
        exact r_handoff chain l hi i now s hs c hoff _ (role_keep hsi hrun hs2 hq2 hintr)
          (by simp [Stage.bytes, hheld, hinq, hh0, hq'])
          (fun c0 ht => absurd ht (not_drained_of_running chain l hi i s hs hrun c0))
      | none =>
        simp only [hoff, inputClosed_false' chain l hi i, Bool.false_eq_true, if_false] at hio
        cases hio


theorem stopped_no_move (l : Link) (i : Nat) (now : Int) (busy : Bool) (s : Stage) (hs : l.stages[i]? = some s)
    (hpc : s.pc = .ret) (hin : s.intr = .none) (hcl : s.st.closed = false) : l.stageMove i now busy = none := by
  unfold Link.stageMove
  simp only [hs, hpc]
  have hip : (s.intr == IntrSt.pending) = false := by rw [hin]; decide
  have hiw : (s.intr == IntrSt.waitRet) = false := by rw [hin]; decide
  simp [Pc.timer, hip, hiw, Pc.wantsInput, hcl]

/-- The move of a stub whose `Pipe` has not panicked (the body of `Link.stageMove`). -/
def stageBody (l : Link) (i : Nat) (now : Int) (busy : Bool) (s : Stage) : Option Link :=
  if duePart s now then
    let race := l.race || busy || (s.intr == .pending && s.pc.interruptible) ||
      (s.pc.wantsInput && (l.inputOf i).isSome)
    some { l with race := race, stages := modifyAt l.stages i fun s => s.fire (.timer now) }
  else if s.intr == .pending && s.st.closed then
    some { l with stages := modifyAt l.stages i fun s => { s with intr := .done false } }
  else if s.intr == .pending && s.pc.interruptible then
    let race := l.race || (s.pc.wantsInput && (l.inputOf i).isSome &&
      !(l.detached && i + 1 == l.stages.length))
    some { l with race := race, stages := modifyAt l.stages i fun s => { (s.fire (.interrupt now)) with intr := .waitRet } }
  else if s.intr == .waitRet && !s.pc.running then
    some { l with stages := modifyAt l.stages i fun s => { s with intr := .done true } }
  else if s.pc.wantsInput && !(l.detached && i + 1 == l.stages.length) then
    match l.inputOf i with
    | some (c, src) =>
      let l1 := l.consume i src c.isSome now
      some { l1 with stages := modifyAt l1.stages i fun s => s.fire (.input c now drawsConst) }
    | none => none
  else if s.st.closed && !s.pc.running && !l.ctlDrains i then
    match l.inputOf i with
    | some (some _, src) => some (l.consume i src true now)
    | _ => none
  else none

theorem stageMove_body (l : Link) (i : Nat) (now : Int) (busy : Bool) (s : Stage) (hs : l.stages[i]? = some s)
    (hnc : ∀ w, s.pc ≠ .crash w) : l.stageMove i now busy = stageBody l i now busy s := by
  unfold Link.stageMove stageBody duePart
  simp only [hs]
  cases hpc : s.pc <;> first | rfl | exact absurd hpc (hnc _)

theorem r_stageMove (chain : List TCfg) (l : Link) (hi : RInv chain l) (i : Nat) (now : Int) (busy : Bool) (l' : Link)
    (hng : NoGiveUp l now) (h : l.stageMove i now busy = some l') : RInv chain l' := by
  cases hs : l.stages[i]? with
  | none => simp [Link.stageMove, hs] at h
  | some s =>
    have hsi := hi.stages i s hs
    have hsw := hsi.sw
    have hnc : ∀ w, s.pc ≠ .crash w := by
      intro w hp; have := hsw.wf; rw [hp] at this; simp [PcWF] at this
    rw [stageMove_body l i now busy s hs hnc] at h
    unfold stageBody at h
    by_cases hdue : duePart s now = true
    · -- a timer fires
      rw [if_pos hdue] at h
      cases h
      unfold duePart at hdue
      cases ht : s.pc.timer with
      | none => simp [ht] at hdue
      | some d =>
        simp only [ht, decide_eq_true_eq] at hdue
        have hnf : ∀ c dd, s.pc ≠ .flush c dd := by
          intro c dd hp
          have h1 := hng.1 s (List.mem_of_getElem? hs) c dd hp
          rw [hp] at ht
          simp only [Pc.timer, Option.some.injEq] at ht
          omega
        obtain ⟨hs2, hq2, hheld, hinq, hintr, _⟩ := fire_timer' s hsw d now ht hnf
        have hrun : s.pc ≠ .ret := by intro hp; rw [hp] at ht; simp [Pc.timer] at ht
        exact r_modify_same chain l hi i s hs _ (role_keep hsi hrun hs2 hq2 hintr) (by simp [Stage.bytes, hheld, hinq])
          (not_drained_of_running chain l hi i s hs hrun) _
    · rw [if_neg hdue] at h
      have hc1 : ¬ ((s.intr == IntrSt.pending && s.st.closed) = true) := by simp [hsw.open_]
      rw [if_neg hc1] at h
      by_cases hc2 : (s.intr == IntrSt.pending && s.pc.interruptible) = true
      · -- the interrupt is delivered
        rw [if_pos hc2] at h
        cases h
        simp only [Bool.and_eq_true, beq_iff_eq] at hc2
        obtain ⟨hpend, hint⟩ := hc2
        obtain ⟨hs2, hheld, hinq, hintr, _⟩ := fire_interrupt s hsw now hint
        have hrun : s.pc ≠ .ret := by intro hp; rw [hp] at hint; simp [Pc.interruptible] at hint
        have hrole : roleFor l.ctl l.stages.length i = .intr := by
          revert hsi
          generalize roleFor l.ctl l.stages.length i = r
          intro hsi
          cases r with
          | normal => have := hsi.intr; rw [hpend] at this; cases this
          | intr => rfl
          | stopped => exact absurd hsi.2.1 hrun
          | fresh => exact absurd hsi.2.1 hrun
        refine r_modify_same chain l hi i s hs (fun s => { (s.fire (.interrupt now)) with intr := .waitRet }) ?_
          (by simp [Stage.bytes, hheld, hinq]) (not_drained_of_running chain l hi i s hs hrun) _
        rw [hrole]
        exact ⟨⟨hs2.safe, hs2.wf, hs2.rq, hs2.open_⟩, Or.inr (Or.inl rfl)⟩
      · rw [if_neg hc2] at h
        by_cases hc3 : (s.intr == IntrSt.waitRet && !s.pc.running) = true
        · -- `InterruptToxic` sees that `Pipe` has returned
          rw [if_pos hc3] at h
          cases h
          simp only [Bool.and_eq_true, beq_iff_eq, Bool.not_eq_true'] at hc3
          obtain ⟨hwait, hnr⟩ := hc3
          have hpc : s.pc = .ret := by
            cases hp : s.pc with
            | ret => rfl
            | crash w => exact absurd hp (hnc w)
            | _ => rw [hp] at hnr; simp [Pc.running] at hnr
          have hrole : roleFor l.ctl l.stages.length i = .intr := by
            revert hsi
            generalize roleFor l.ctl l.stages.length i = r
            intro hsi
            cases r with
            | normal => have := hsi.intr; rw [hwait] at this; cases this
            | intr => rfl
            | stopped => have := hsi.2.2; rw [hwait] at this; cases this
            | fresh => have := hsi.2.2.1; rw [hwait] at this; cases this
          refine r_modify_same chain l hi i s hs (fun s => { s with intr := .done true }) ?_
            (by simp [Stage.bytes]) ?_ _
          · rw [hrole]
            exact ⟨⟨hsw.safe, hsw.wf, hsw.rq, hsw.open_⟩, Or.inr (Or.inr ⟨rfl, hpc⟩)⟩
          · intro c0 ht
            have hr := (tmp_role chain l.ctl _ _ hi.ctl i c0 ht).1
            rw [hrole] at hr; cases hr
        · rw [if_neg hc3] at h
          by_cases hc4 : (s.pc.wantsInput && !(l.detached && i + 1 == l.stages.length)) = true
          · -- it receives
            rw [if_pos hc4] at h
            simp only [Bool.and_eq_true] at hc4
            exact r_receive chain l hi i now s hs hc4.1 l' h
          · rw [if_neg hc4] at h
            have hc5 : ¬ ((s.st.closed && !s.pc.running && !l.ctlDrains i) = true) := by simp [hsw.open_]
            rw [if_neg hc5] at h
            cases h


/-! ### The controller's steps -/

theorem chainBytes_of_map (a b : List Stage) (h : a.map Stage.bytes = b.map Stage.bytes) : chainBytes a = chainBytes b := by
  simp only [chainBytes, List.map_reverse, h]

theorem content_by_bytes {chain : List TCfg} {l l' : Link} (hi : RInv chain l)
    (hv : l'.virt.map Stage.bytes = l.virt.map Stage.bytes)
    (h1 : l'.sinkPend = l.sinkPend) (h2 : l'.srcPend = l.srcPend) (h3 : l'.delivered = l.delivered) (h4 : l'.sent = l.sent) :
    l'.delivered ++ l'.inflightR = l'.sent := by
  have hc := hi.content
  simp only [Link.inflightR] at hc ⊢
  rw [chainBytes_of_map _ _ hv, h1, h2, h3, h4]
  exact hc

/-- (Re)starting a stopped stub with a data-preserving toxic puts it in service; it holds what
was queued in its input channel. -/
theorem safeT_stateless {t : TCfg} (h : SafeT t) : (t.active && isStateful t.cfg) = false := by
  unfold SafeT at h
  cases ha : t.active
  · rfl
  · rw [ha] at h
    cases hc : t.cfg <;> rw [hc] at h <;> simp [effective, Safe] at h <;> rfl

theorem start_sok (s : Stage) (t : TCfg) (now : Int) (hsafe : SafeT t) (hintr : s.intr = .none)
    (hopen : s.st.closed = false) :
    SOK (s.start t now) ∧ (s.start t now).bytes = (s.inq.map (·.data)).flatten := by
  rw [Stage.start_stateless s t now (safeT_stateless hsafe)]
  have hq : Quiet (Toxi.Toxic.start t.cfg t.active now) ∧ (Toxi.Toxic.start t.cfg t.active now).held = [] := by
    unfold Toxi.Toxic.start
    cases ha : t.active
    · simp [Quiet, Pc.held]
    · unfold SafeT at hsafe
      rw [ha] at hsafe
      cases hc : t.cfg <;> rw [hc] at hsafe <;> simp [effective, Safe] at hsafe <;> simp [Quiet, Pc.held]
  refine ⟨⟨?_, ?_, ?_, ?_, ?_⟩, ?_⟩
  · simpa [eff, SafeT] using hsafe
  · simpa [eff] using start_wf t.cfg t.active now
  · exact hq.1
  · simp [hintr]
  · simpa using hopen
  · simp [Stage.bytes, hq.2]

theorem r_ctl_upd (chain : List TCfg) (l : Link) (hi : RInv chain l) (now : Int) (idx : Nat) (newT : TCfg)
    (hc : l.ctl = some (.updWait idx newT)) (l' : Link) (h : l.ctlMove chain now = some l') : RInv chain l' := by
  have hctl := hi.ctl
  rw [hc] at hctl
  simp only [CtlFor] at hctl
  obtain ⟨hdet, hidx, hsafe, hlen⟩ := hctl
  unfold Link.ctlMove at h
  simp only [hc] at h
  cases hs : l.stages[idx]? with
  | none => rw [List.getElem?_eq_none_iff] at hs; omega
  | some s =>
    simp only [hs] at h
    have hsi := hi.stages idx s hs
    rw [hc] at hsi
    simp only [roleFor, if_true, StageInv] at hsi
    obtain ⟨hsw, hint⟩ := hsi
    rcases hint with hint | hint | ⟨hint, hpc⟩
    · simp [hint] at h
    · simp [hint] at h
    · simp only [hint, Option.some.injEq] at h
      subst h
      obtain ⟨hsok, hbytes⟩ := start_sok ({ s with intr := .none } : Stage) newT now hsafe rfl hsw.open_
      refine ⟨?_, ?_, hi.chainOK, hi.nocrash, hi.sinkOpen, hi.nofail, hi.srcOpen, hi.srcLive, ?_⟩
      · intro k x hx
        simp only [length_modifyAt, roleFor] at hx ⊢
        rw [getElem?_modifyAt] at hx
        by_cases hk : k = idx
        · subst hk
          rw [if_pos rfl, hs] at hx
          simp only [Option.map_some, Option.some.injEq] at hx
          subst hx; exact hsok
        · rw [if_neg hk] at hx
          have := hi.stages k x hx
          rw [hc] at this
          simpa [roleFor, hk] using this
      · simp only [CtlFor, length_modifyAt]; exact ⟨hdet, hlen⟩
      · refine content_by_bytes hi ?_ rfl rfl rfl rfl
        apply List.ext_getElem?
        intro k
        simp only [List.getElem?_map, virt_get, getElem?_modifyAt, hc, tmpOf, ghostOf_none]
        by_cases hk : k = idx
        · subst hk
          simp only [if_true, hs, Option.map_some, id]
          rw [hbytes, stopped_bytes s hpc]
        · simp [hk]


theorem r_ctl_add (chain : List TCfg) (l : Link) (hi : RInv chain l) (now : Int) (newT : TCfg)
    (hc : l.ctl = some (.addWait newT)) (l' : Link) (h : l.ctlMove chain now = some l') : RInv chain l' := by
  have hctl := hi.ctl
  rw [hc] at hctl
  simp only [CtlFor] at hctl
  obtain ⟨hdet, hn2, hsafe, hlen⟩ := hctl
  unfold Link.ctlMove at h
  simp only [hc] at h
  cases hp : l.stages[l.stages.length - 1 - 1]? with
  | none => rw [List.getElem?_eq_none_iff] at hp; omega
  | some prev =>
    simp only [hp] at h
    have hpi := hi.stages _ prev hp
    rw [hc] at hpi
    have hr1 : ¬ (l.stages.length - 1 - 1 + 1 = l.stages.length) := by omega
    have hr2 : l.stages.length - 1 - 1 + 2 = l.stages.length := by omega
    simp only [roleFor, hr1, hr2, if_false, if_true, StageInv] at hpi
    obtain ⟨hpsw, hint⟩ := hpi
    rcases hint with hint | hint | ⟨hint, hppc⟩
    · simp [hint] at h
    · simp [hint] at h
    · simp only [hint, Option.some.injEq] at h
      -- the appended stub
      cases hf : l.stages[l.stages.length - 1]? with
      | none => rw [List.getElem?_eq_none_iff] at hf; omega
      | some fr =>
        have hfi := hi.stages _ fr hf
        rw [hc] at hfi
        have hr3 : l.stages.length - 1 + 1 = l.stages.length := by omega
        simp only [roleFor, hr3, if_true, StageInv] at hfi
        obtain ⟨hfsw, hfpc, hfintr, hfq⟩ := hfi
        -- the predecessor's toxic
        cases ht : chain[l.stages.length - 1 - 1]? with
        | none => rw [List.getElem?_eq_none_iff] at ht; omega
        | some t =>
          have htsafe : SafeT t := hi.chainOK t (List.mem_of_getElem? ht)
          unfold restartAt at h
          simp only [ht] at h
          subst h
          obtain ⟨hsok1, hb1⟩ := start_sok ({ prev with intr := .none } : Stage) t now htsafe rfl hpsw.open_
          obtain ⟨hsok2, hb2⟩ := start_sok fr newT now hsafe hfintr hfsw.open_
          have hne : l.stages.length - 1 ≠ l.stages.length - 1 - 1 := by omega
          refine ⟨?_, ?_, hi.chainOK, hi.nocrash, hi.sinkOpen, hi.nofail, hi.srcOpen, hi.srcLive, ?_⟩
          · intro k x hx
            simp only [length_modifyAt, roleFor] at hx ⊢
            rw [getElem?_modifyAt, getElem?_modifyAt, getElem?_modifyAt] at hx
            by_cases hk : k = l.stages.length - 1 - 1
            · subst hk
              rw [if_pos rfl, if_neg (Ne.symm hne), if_pos rfl, hp] at hx
              simp only [Option.map_some, Option.some.injEq] at hx
              subst hx; exact hsok1
            · rw [if_neg hk] at hx
              by_cases hk2 : k = l.stages.length - 1
              · subst hk2
                rw [if_pos rfl, if_neg hne, hf] at hx
                simp only [Option.map_some, Option.some.injEq] at hx
                subst hx; exact hsok2
              · rw [if_neg hk2, if_neg hk] at hx
                have := hi.stages k x hx
                rw [hc] at this
                have hklt : k < l.stages.length := by
                  rcases Nat.lt_or_ge k l.stages.length with h' | h'
                  · exact h'
                  · rw [List.getElem?_eq_none h'] at hx; cases hx
                have h1 : ¬ (k + 1 = l.stages.length) := by omega
                have h2 : ¬ (k + 2 = l.stages.length) := by omega
                simpa [roleFor, h1, h2] using this
          · simp only [CtlFor, length_modifyAt]; exact ⟨trivial, hlen⟩
          · refine content_by_bytes hi ?_ rfl rfl rfl rfl
            apply List.ext_getElem?
            intro k
            simp only [List.getElem?_map, virt_get, getElem?_modifyAt, hc, tmpOf, ghostOf_none]
            by_cases hk : k = l.stages.length - 1 - 1
            · subst hk
              simp only [if_true, if_neg (Ne.symm hne), hp, Option.map_some, id]
              rw [hb1, stopped_bytes prev hppc]
            · by_cases hk2 : k = l.stages.length - 1
              · subst hk2
                simp only [if_true, if_neg hne, hf, Option.map_some, id]
                rw [hb2, stopped_bytes fr hfpc]
              · simp [hk, hk2]


theorem r_ctl_rmIntr (chain : List TCfg) (l : Link) (hi : RInv chain l) (now : Int) (idx : Nat) (cl : Bool)
    (hc : l.ctl = some (.rmIntr idx cl)) (l' : Link) (h : l.ctlMove chain now = some l') : RInv chain l' := by
  have hctl := hi.ctl
  rw [hc] at hctl
  simp only [CtlFor] at hctl
  obtain ⟨hdet, hcl, hidx1, hidx, hlen⟩ := hctl
  subst hcl
  unfold Link.ctlMove at h
  simp only [hc] at h
  cases hs : l.stages[idx]? with
  | none => rw [List.getElem?_eq_none_iff] at hs; omega
  | some s =>
    simp only [hs] at h
    have hsi := hi.stages idx s hs
    rw [hc] at hsi
    simp only [roleFor, if_true, StageInv] at hsi
    obtain ⟨hsw, hint⟩ := hsi
    rcases hint with hint | hint | ⟨hint, hpc⟩
    · simp [hint] at h
    · simp [hint] at h
    · simp only [hint, Bool.false_eq_true, if_false, Option.some.injEq] at h
      subst h
      cases hp : l.stages[idx - 1]? with
      | none => rw [List.getElem?_eq_none_iff] at hp; omega
      | some prev =>
        have hpi := hi.stages (idx - 1) prev hp
        rw [hc] at hpi
        have hne : ¬ (idx - 1 = idx) := by omega
        simp only [roleFor, hne, if_false, StageInv] at hpi
        refine ⟨?_, ?_, hi.chainOK, hi.nocrash, hi.sinkOpen, hi.nofail, hi.srcOpen, hi.srcLive, ?_⟩
        · intro k x hx
          simp only [length_modifyAt, roleFor] at hx ⊢
          rw [getElem?_modifyAt, getElem?_modifyAt] at hx
          by_cases hk : k = idx - 1
          · subst hk
            have h1 : idx - 1 + 1 = idx := by omega
            rw [if_pos rfl, if_neg hne, hp] at hx
            simp only [Option.map_some, Option.some.injEq] at hx
            subst hx
            rw [if_neg hne, if_pos h1]
            exact ⟨⟨hpi.safe, hpi.wf, Or.inl hpi.quiet, hpi.open_⟩, Or.inl rfl⟩
          · rw [if_neg hk] at hx
            by_cases hk2 : k = idx
            · subst hk2
              rw [if_pos rfl, hs] at hx
              simp only [Option.map_some, Option.some.injEq] at hx
              subst hx
              rw [if_pos rfl]
              exact ⟨⟨hsw.safe, hsw.wf, hsw.rq, hsw.open_⟩, hpc, rfl⟩
            · rw [if_neg hk2] at hx
              have := hi.stages k x hx
              rw [hc] at this
              have h1 : ¬ (k + 1 = idx) := by omega
              simpa [roleFor, hk2, h1] using this
        · simp only [CtlFor, length_modifyAt]; exact ⟨hdet, trivial, hidx1, hidx, hlen⟩
        · refine content_by_bytes hi ?_ rfl rfl rfl rfl
          apply List.ext_getElem?
          intro k
          simp only [List.getElem?_map, virt_get, getElem?_modifyAt, hc, tmpOf, ghostOf_none]
          by_cases hk : k = idx - 1
          · subst hk
            simp [hne, hp, Stage.bytes]
          · by_cases hk2 : k = idx
            · subst hk2
              simp [hk, hs, Stage.bytes]
            · simp [hk, hk2]


theorem r_ctl_rmLoop (chain : List TCfg) (l : Link) (hi : RInv chain l) (now : Int) (idx : Nat) (tmp : Option Chunk)
    (dl : Int) (sg : Bool) (hc : l.ctl = some (.rmLoop idx tmp dl sg)) (hng : NoGiveUp l now) (l' : Link)
    (h : l.ctlMove chain now = some l') : RInv chain l' := by
  have hctl := hi.ctl
  rw [hc] at hctl
  simp only [CtlFor] at hctl
  obtain ⟨hdet, hsg, hidx1, hidx, hlen⟩ := hctl
  subst hsg
  unfold Link.ctlMove at h
  simp only [hc] at h
  cases tmp with
  | some c0 =>
    have := hng.2
    rw [hc] at this
    simp only at this
    have hd : decide (dl ≤ now) = false := by simp; omega
    simp [hd] at h
  | none =>
    simp only at h
    have hne : ¬ (idx - 1 = idx) := by omega
    have h11 : idx - 1 + 1 = idx := by omega
    cases hp : l.stages[idx - 1]? with
    | none => rw [List.getElem?_eq_none_iff] at hp; omega
    | some prev =>
    cases hs : l.stages[idx]? with
    | none => rw [List.getElem?_eq_none_iff] at hs; omega
    | some s =>
      have hpi := hi.stages (idx - 1) prev hp
      rw [hc] at hpi
      simp only [roleFor, hne, h11, if_false, if_true, StageInv] at hpi
      obtain ⟨hpsw, hint⟩ := hpi
      have hsi := hi.stages idx s hs
      rw [hc] at hsi
      simp only [roleFor, if_true, StageInv] at hsi
      obtain ⟨hssw, hspc, hsintr⟩ := hsi
      simp only [hp, Option.map_some] at h
      by_cases hdone : prev.intr = .done true
      · -- the helper's interrupt has succeeded: on to emptying the buffer
        have hppc : prev.pc = .ret := by
          rcases hint with h' | h' | ⟨_, h'⟩
          · rw [hdone] at h'; cases h'
          · rw [hdone] at h'; cases h'
          · exact h'
        simp only [hdone, BEq.rfl, if_true, Option.some.injEq] at h
        subst h
        refine ⟨?_, ?_, hi.chainOK, hi.nocrash, hi.sinkOpen, hi.nofail, hi.srcOpen, hi.srcLive, ?_⟩
        · intro k x hx
          simp only [length_modifyAt, roleFor] at hx ⊢
          rw [getElem?_modifyAt] at hx
          by_cases hk : k = idx - 1
          · subst hk
            rw [if_pos rfl, hp] at hx
            simp only [Option.map_some, Option.some.injEq] at hx
            subst hx
            rw [if_pos (Or.inr h11)]
            exact ⟨⟨hpsw.safe, hpsw.wf, hpsw.rq, hpsw.open_⟩, hppc, rfl⟩
          · rw [if_neg hk] at hx
            have := hi.stages k x hx
            rw [hc] at this
            by_cases hk2 : k = idx
            · subst hk2
              simpa [roleFor] using this
            · have h1 : ¬ (k + 1 = idx) := by omega
              simpa [roleFor, hk2, h1] using this
        · simp only [CtlFor, length_modifyAt]; exact ⟨hdet, hidx1, hidx, hlen⟩
        · refine content_by_bytes hi ?_ rfl rfl rfl rfl
          apply List.ext_getElem?
          intro k
          simp only [List.getElem?_map, virt_get, getElem?_modifyAt, hc, tmpOf, ghostOf_none]
          by_cases hk : k = idx - 1
          · subst hk; simp [hp, Stage.bytes]
          · simp [hk]
      · have hnd : (some prev.intr == some (IntrSt.done true)) = false := by
          simp only [beq_eq_false_iff_ne, ne_eq, Option.some.injEq]; exact hdone
        have hnf : (some prev.intr == some (IntrSt.done false)) = false := by
          simp only [beq_eq_false_iff_ne, ne_eq, Option.some.injEq]
          rcases hint with h' | h' | ⟨h', _⟩ <;> rw [h'] <;> simp
        simp only [hnd, hnf, Bool.false_eq_true, if_false, Bool.false_and] at h
        cases hio : l.inputOf idx with
        | none => simp [hio] at h
        | some rr =>
          obtain ⟨oc, src⟩ := rr
          unfold Link.inputOf at hio
          simp only [hs] at hio
          cases hq' : s.inq with
          | cons c rest =>
            simp only [hq', Option.some.injEq, Prod.mk.injEq] at hio
            obtain ⟨rfl, rfl⟩ := hio
            simp only [hs, hq', Link.inputOf, Link.consume, Bool.not_true, Bool.false_eq_true, if_false,
              Option.some.injEq] at h
            subst h
            refine ⟨?_, ?_, hi.chainOK, hi.nocrash, hi.sinkOpen, hi.nofail, hi.srcOpen, hi.srcLive, ?_⟩
            · intro k x hx
              simp only [length_modifyAt, roleFor] at hx ⊢
              rw [getElem?_modifyAt] at hx
              by_cases hk : k = idx
              · subst hk
                rw [if_pos rfl, hs] at hx
                simp only [Option.map_some, Option.some.injEq] at hx
                subst hx
                rw [if_pos rfl]
                exact ⟨⟨hssw.safe, hssw.wf, hssw.rq, hssw.open_⟩, hspc, hsintr⟩
              · rw [if_neg hk] at hx
                have := hi.stages k x hx
                rw [hc] at this
                simpa [roleFor] using this
            · simp only [CtlFor, length_modifyAt]; exact ⟨hdet, trivial, hidx1, hidx, hlen⟩
            · refine content_by_bytes hi ?_ rfl rfl rfl rfl
              apply List.ext_getElem?
              intro k
              simp only [List.getElem?_map, virt_get, getElem?_modifyAt, hc, tmpOf, ghostOf_none]
              by_cases hk : k = idx
              · subst hk
                simp only [if_true, hs, Option.map_some, ghostOf_self, id]
                rw [ghost_bytes, stopped_bytes s hspc, hq']
                simp
              · rw [ghostOf_other idx c k hk]
                simp [hk]
          | nil =>
            simp only [hq'] at hio
            cases hoff : l.offerTo idx with
            | none =>
              simp only [hoff, inputClosed_false' chain l hi idx, Bool.false_eq_true, if_false] at hio
              cases hio
            | some c =>
              simp only [hoff, Option.some.injEq, Prod.mk.injEq] at hio
              obtain ⟨rfl, rfl⟩ := hio
              simp only [hs, hq', hoff, Link.inputOf, Link.consume, Bool.not_true, Bool.false_eq_true, if_false,
                Option.some.injEq] at h
              subst h
              have hnd' : l.ctlDrains (idx - 1) = false := by
                simp only [Link.ctlDrains, hc]
                simpa using (fun hh : idx = idx - 1 => hne hh.symm)
              have hi0 : idx ≠ 0 := by omega
              rcases offerTo_cases l idx hi0 c hoff with ⟨_, a, ha, hao⟩ | ⟨hd', _, _⟩
              · rw [hp] at ha
                cases ha
                rw [ackUpstream_stage l idx hi0 now hnd']
                have hra0 := hi.stages (idx - 1) prev hp
                obtain ⟨hra, hab⟩ := giver_keeps _ prev c now hra0 hao
                refine ⟨?_, ?_, hi.chainOK, hi.nocrash, hi.sinkOpen, hi.nofail, hi.srcOpen, hi.srcLive, ?_⟩
                · intro k x hx
                  simp only [length_modifyAt, roleFor] at hx ⊢
                  rw [getElem?_modifyAt] at hx
                  by_cases hk : k = idx - 1
                  · subst hk
                    rw [if_pos rfl, hp] at hx
                    simp only [Option.map_some, Option.some.injEq] at hx
                    subst hx
                    rw [hc] at hra
                    simpa [roleFor] using hra
                  · rw [if_neg hk] at hx
                    have := hi.stages k x hx
                    rw [hc] at this
                    simpa [roleFor] using this
                · simp only [CtlFor, length_modifyAt]; exact ⟨hdet, trivial, hidx1, hidx, hlen⟩
                · have hv0 : ∀ k : Nat, l.virt[k]? = l.stages[k]? := by
                    intro k; rw [virt_get, hc]; simp [tmpOf]
                  have hva : l.virt[idx - 1]? = some prev := by rw [hv0, hp]
                  have hvs : l.virt[idx - 1 + 1]? = some s := by rw [h11, hv0, hs]
                  refine content_of_virt hi (idx - 1) prev s hva hvs (fun s => s.fire (.taken now)) (ghost c) c.data hab ?_ ?_
                    rfl rfl rfl rfl
                  · rw [ghost_bytes, stopped_bytes s hspc, hq']; simp
                  · apply List.ext_getElem?
                    intro k
                    rw [h11]
                    simp only [virt_get, getElem?_modifyAt, hc, tmpOf, ghostOf_none]
                    by_cases hk : k = idx
                    · subst hk
                      simp [hne, hs, ghostOf_self, Ne.symm hne]
                    · rw [ghostOf_other idx c k hk]
                      by_cases hk1 : k = idx - 1
                      · subst hk1; simp [hp, hk]
                      · simp [hk, hk1]
              · rw [hnd'] at hd'; cases hd'


/-- `RemoveToxic`'s loop takes a chunk from the removed stub's input (whatever the helper's
state): into the controller's hand. -/
theorem r_ctl_take (chain : List TCfg) (l : Link) (hi : RInv chain l) (now : Int) (idx : Nat)
    (dl : Int) (sg : Bool) (hc : l.ctl = some (.rmLoop idx none dl sg)) (l' : Link)
    (h : l.ctlTakeAlt now = some l') : RInv chain l' := by
  have hctl := hi.ctl
  rw [hc] at hctl
  simp only [CtlFor] at hctl
  obtain ⟨hdet, hsg, hidx1, hidx, hlen⟩ := hctl
  subst hsg
  unfold Link.ctlTakeAlt at h
  simp only [hc] at h
  have hne : ¬ (idx - 1 = idx) := by omega
  have h11 : idx - 1 + 1 = idx := by omega
  cases hp : l.stages[idx - 1]? with
  | none => rw [List.getElem?_eq_none_iff] at hp; omega
  | some prev =>
  cases hs : l.stages[idx]? with
  | none => rw [List.getElem?_eq_none_iff] at hs; omega
  | some s =>
    have hpi := hi.stages (idx - 1) prev hp
    rw [hc] at hpi
    simp only [roleFor, hne, h11, if_false, if_true, StageInv] at hpi
    obtain ⟨hpsw, hint⟩ := hpi
    have hsi := hi.stages idx s hs
    rw [hc] at hsi
    simp only [roleFor, if_true, StageInv] at hsi
    obtain ⟨hssw, hspc, hsintr⟩ := hsi
    cases hio : l.inputOf idx with
    | none => simp [hio] at h
    | some rr =>
      obtain ⟨oc, src⟩ := rr
      unfold Link.inputOf at hio
      simp only [hs] at hio
      cases hq' : s.inq with
      | cons c rest =>
        simp only [hq', Option.some.injEq, Prod.mk.injEq] at hio
        obtain ⟨rfl, rfl⟩ := hio
        simp only [hs, hq', Link.inputOf, Link.consume, Bool.not_true, Bool.false_eq_true, if_false,
          Option.some.injEq] at h
        subst h
        refine ⟨?_, ?_, hi.chainOK, hi.nocrash, hi.sinkOpen, hi.nofail, hi.srcOpen, hi.srcLive, ?_⟩
        · intro k x hx
          simp only [length_modifyAt, roleFor] at hx ⊢
          rw [getElem?_modifyAt] at hx
          by_cases hk : k = idx
          · subst hk
            rw [if_pos rfl, hs] at hx
            simp only [Option.map_some, Option.some.injEq] at hx
            subst hx
            rw [if_pos rfl]
            exact ⟨⟨hssw.safe, hssw.wf, hssw.rq, hssw.open_⟩, hspc, hsintr⟩
          · rw [if_neg hk] at hx
            have := hi.stages k x hx
            rw [hc] at this
            simpa [roleFor] using this
        · simp only [CtlFor, length_modifyAt]; exact ⟨hdet, trivial, hidx1, hidx, hlen⟩
        · refine content_by_bytes hi ?_ rfl rfl rfl rfl
          apply List.ext_getElem?
          intro k
          simp only [List.getElem?_map, virt_get, getElem?_modifyAt, hc, tmpOf, ghostOf_none]
          by_cases hk : k = idx
          · subst hk
            simp only [if_true, hs, Option.map_some, ghostOf_self, id]
            rw [ghost_bytes, stopped_bytes s hspc, hq']
            simp
          · rw [ghostOf_other idx c k hk]
            simp [hk]
      | nil =>
        simp only [hq'] at hio
        cases hoff : l.offerTo idx with
        | none =>
          simp only [hoff, inputClosed_false' chain l hi idx, Bool.false_eq_true, if_false] at hio
          cases hio
        | some c =>
          simp only [hoff, Option.some.injEq, Prod.mk.injEq] at hio
          obtain ⟨rfl, rfl⟩ := hio
          simp only [hs, hq', hoff, Link.inputOf, Link.consume, Bool.not_true, Bool.false_eq_true, if_false,
            Option.some.injEq] at h
          subst h
          have hnd' : l.ctlDrains (idx - 1) = false := by
            simp only [Link.ctlDrains, hc]
            simpa using (fun hh : idx = idx - 1 => hne hh.symm)
          have hi0 : idx ≠ 0 := by omega
          rcases offerTo_cases l idx hi0 c hoff with ⟨_, a, ha, hao⟩ | ⟨hd', _, _⟩
          · rw [hp] at ha
            cases ha
            rw [ackUpstream_stage l idx hi0 now hnd']
            have hra0 := hi.stages (idx - 1) prev hp
            obtain ⟨hra, hab⟩ := giver_keeps _ prev c now hra0 hao
            refine ⟨?_, ?_, hi.chainOK, hi.nocrash, hi.sinkOpen, hi.nofail, hi.srcOpen, hi.srcLive, ?_⟩
            · intro k x hx
              simp only [length_modifyAt, roleFor] at hx ⊢
              rw [getElem?_modifyAt] at hx
              by_cases hk : k = idx - 1
              · subst hk
                rw [if_pos rfl, hp] at hx
                simp only [Option.map_some, Option.some.injEq] at hx
                subst hx
                rw [hc] at hra
                simpa [roleFor] using hra
              · rw [if_neg hk] at hx
                have := hi.stages k x hx
                rw [hc] at this
                simpa [roleFor] using this
            · simp only [CtlFor, length_modifyAt]; exact ⟨hdet, trivial, hidx1, hidx, hlen⟩
            · have hv0 : ∀ k : Nat, l.virt[k]? = l.stages[k]? := by
                intro k; rw [virt_get, hc]; simp [tmpOf]
              have hva : l.virt[idx - 1]? = some prev := by rw [hv0, hp]
              have hvs : l.virt[idx - 1 + 1]? = some s := by rw [h11, hv0, hs]
              refine content_of_virt hi (idx - 1) prev s hva hvs (fun s => s.fire (.taken now)) (ghost c) c.data hab ?_ ?_
                rfl rfl rfl rfl
              · rw [ghost_bytes, stopped_bytes s hspc, hq']; simp
              · apply List.ext_getElem?
                intro k
                rw [h11]
                simp only [virt_get, getElem?_modifyAt, hc, tmpOf, ghostOf_none]
                by_cases hk : k = idx
                · subst hk
                  simp [hne, hs, ghostOf_self, Ne.symm hne]
                · rw [ghostOf_other idx c k hk]
                  by_cases hk1 : k = idx - 1
                  · subst hk1; simp [hp, hk]
                  · simp [hk, hk1]
          · rw [hnd'] at hd'; cases hd'

theorem chainBytes_eraseIdx (ss : List Stage) (idx : Nat) (x : Stage) (hx : ss[idx]? = some x) (hb : x.bytes = []) :
    chainBytes (ss.eraseIdx idx) = chainBytes ss := by
  obtain ⟨pre, post, hss, hlen⟩ := split_one ss idx x hx
  have : ss.eraseIdx idx = pre ++ post := by
    rw [hss, List.eraseIdx_append_of_length_le (by omega), ← hlen]
    simp
  rw [this, chainBytes_append]
  conv => rhs; rw [hss, chainBytes_append, chainBytes_cons, hb]
  simp

theorem virt_of_notmp (l : Link) (h : tmpOf l.ctl = none) : l.virt = l.stages := by
  apply List.ext_getElem?
  intro k
  rw [virt_get, h]
  simp

theorem r_ctl_rmDrain (chain : List TCfg) (l : Link) (hi : RInv chain l) (now : Int) (idx : Nat) (tmp : Option Chunk)
    (dl : Int) (hc : l.ctl = some (.rmDrain idx tmp dl)) (hng : NoGiveUp l now) (l' : Link)
    (h : l.ctlMove chain now = some l') : RInv chain l' := by
  have hctl := hi.ctl
  rw [hc] at hctl
  simp only [CtlFor] at hctl
  obtain ⟨hdet, hidx1, hidx, hlen⟩ := hctl
  unfold Link.ctlMove at h
  simp only [hc] at h
  cases tmp with
  | some c0 =>
    have := hng.2
    rw [hc] at this
    simp only at this
    have hd : decide (dl ≤ now) = false := by simp; omega
    simp [hd] at h
  | none =>
    simp only at h
    have hne : ¬ (idx - 1 = idx) := by omega
    have h11 : idx - 1 + 1 = idx := by omega
    cases hp : l.stages[idx - 1]? with
    | none => rw [List.getElem?_eq_none_iff] at hp; omega
    | some prev =>
    cases hs : l.stages[idx]? with
    | none => rw [List.getElem?_eq_none_iff] at hs; omega
    | some s =>
      have hpi := hi.stages (idx - 1) prev hp
      rw [hc] at hpi
      simp only [roleFor, hne, h11, false_or, if_true, StageInv] at hpi
      obtain ⟨hpsw, hppc, hpintr⟩ := hpi
      have hsi := hi.stages idx s hs
      rw [hc] at hsi
      simp only [roleFor, true_or, if_true, StageInv] at hsi
      obtain ⟨hssw, hspc, hsintr⟩ := hsi
      simp only [hs, Option.map_some] at h
      cases hq' : s.inq with
      | cons c rest =>
        simp only [hq', Option.some.injEq] at h
        subst h
        refine ⟨?_, ?_, hi.chainOK, hi.nocrash, hi.sinkOpen, hi.nofail, hi.srcOpen, hi.srcLive, ?_⟩
        · intro k x hx
          simp only [length_modifyAt, roleFor] at hx ⊢
          rw [getElem?_modifyAt] at hx
          by_cases hk : k = idx
          · subst hk
            rw [if_pos rfl, hs] at hx
            simp only [Option.map_some, Option.some.injEq] at hx
            subst hx
            rw [if_pos (Or.inl rfl)]
            exact ⟨⟨hssw.safe, hssw.wf, hssw.rq, hssw.open_⟩, hspc, hsintr⟩
          · rw [if_neg hk] at hx
            have := hi.stages k x hx
            rw [hc] at this
            simpa [roleFor] using this
        · simp only [CtlFor, length_modifyAt]; exact ⟨hdet, hidx1, hidx, hlen⟩
        · refine content_by_bytes hi ?_ rfl rfl rfl rfl
          apply List.ext_getElem?
          intro k
          simp only [List.getElem?_map, virt_get, getElem?_modifyAt, hc, tmpOf, ghostOf_none]
          by_cases hk : k = idx
          · subst hk
            simp only [if_true, hs, Option.map_some, ghostOf_self, id]
            rw [ghost_bytes, stopped_bytes s hspc, hq']
            simp
          · rw [ghostOf_other idx c k hk]
            simp [hk]
      | nil =>
        simp only [hq'] at h
        -- splice the emptied stub out and restart its predecessor
        cases ht : chain[idx - 1]? with
        | none => rw [List.getElem?_eq_none_iff] at ht; omega
        | some t =>
          have htsafe : SafeT t := hi.chainOK t (List.mem_of_getElem? ht)
          unfold restartAt at h
          simp only [ht, Option.some.injEq] at h
          subst h
          obtain ⟨hsok1, hb1⟩ := start_sok prev t now htsafe hpintr hpsw.open_
          have hel : (l.stages.eraseIdx idx).length = l.stages.length - 1 := by
            rw [List.length_eraseIdx, if_pos hidx]
          have hep : (l.stages.eraseIdx idx)[idx - 1]? = some prev := by
            rw [List.getElem?_eraseIdx, if_pos (by omega), hp]
          refine ⟨?_, ?_, hi.chainOK, hi.nocrash, hi.sinkOpen, hi.nofail, hi.srcOpen, hi.srcLive, ?_⟩
          · intro k x hx
            simp only [length_modifyAt, roleFor] at hx ⊢
            rw [getElem?_modifyAt] at hx
            by_cases hk : k = idx - 1
            · subst hk
              rw [if_pos rfl, hep] at hx
              simp only [Option.map_some, Option.some.injEq] at hx
              subst hx; exact hsok1
            · rw [if_neg hk, List.getElem?_eraseIdx] at hx
              by_cases hlt : k < idx
              · rw [if_pos hlt] at hx
                have := hi.stages k x hx
                rw [hc] at this
                have h1 : ¬ (k = idx) := by omega
                have h2 : ¬ (k + 1 = idx) := by omega
                simpa [roleFor, h1, h2] using this
              · rw [if_neg hlt] at hx
                have := hi.stages (k + 1) x hx
                rw [hc] at this
                have h1 : ¬ (k + 1 = idx) := by omega
                have h2 : ¬ (k + 1 + 1 = idx) := by omega
                simpa [roleFor, h1, h2] using this
          · simp only [CtlFor, length_modifyAt, hel]; exact ⟨hdet, by omega⟩
          · have hc0 := hi.content
            have hv0 : l.virt = l.stages := virt_of_notmp l (by rw [hc]; rfl)
            simp only [Link.inflightR, hv0] at hc0
            simp only [Link.inflightR]
            have hv1 : Link.virt { l with ctl := none, stages := modifyAt (l.stages.eraseIdx idx) (idx - 1) fun s => s.start t now } =
                modifyAt (l.stages.eraseIdx idx) (idx - 1) fun s => s.start t now := virt_of_notmp _ rfl
            rw [hv1, chain_modify_one (l.stages.eraseIdx idx) (idx - 1) prev hep _ (by rw [hb1, stopped_bytes prev hppc]),
              chainBytes_eraseIdx l.stages idx s hs (by rw [stopped_bytes s hspc, hq']; rfl)]
            exact hc0


theorem r_ctlMove (chain : List TCfg) (l : Link) (hi : RInv chain l) (now : Int) (hng : NoGiveUp l now) (l' : Link)
    (h : l.ctlMove chain now = some l') : RInv chain l' := by
  cases hc : l.ctl with
  | none => simp [Link.ctlMove, hc] at h
  | some x =>
    cases x with
    | addWait t => exact r_ctl_add chain l hi now t hc l' h
    | updWait idx t => exact r_ctl_upd chain l hi now idx t hc l' h
    | rmIntr idx cl => exact r_ctl_rmIntr chain l hi now idx cl hc l' h
    | rmLoop idx tmp dl sg => exact r_ctl_rmLoop chain l hi now idx tmp dl sg hc hng l' h
    | rmDrain idx tmp dl => exact r_ctl_rmDrain chain l hi now idx tmp dl hc hng l' h
    | rmWaitStop idx =>
      have := hi.ctl
      rw [hc] at this
      simp [CtlFor] at this

/-- **C02 (reconfiguring never corrupts a live stream).**  Every move of every goroutine of a
link of data-preserving toxics — the source, the channel buffers, every stub (running,
being interrupted, flushing what it holds on its way out, restarted with another toxic), the
sink, and the controller of `AddToxic` / `UpdateToxic` / `RemoveToxic` at each of its steps
(waiting for an interrupt, carrying chunks by hand from the removed stub's input to its output,
emptying its buffer, splicing it out, restarting its neighbour) — keeps
`delivered ++ in-flight = read`, provided only that no 5 s give-up of a `WriteOutput` is due
(the property's own proviso).  No byte is lost, duplicated, reordered or altered. -/
theorem C02_move_conserves (chain : List TCfg) (l : Link) (now : Int) (busy : Bool) (l' : Link) (hi : RInv chain l)
    (hng : NoGiveUp l now) (h : l.move chain now busy = some l') : RInv chain l' := by
  unfold Link.move at h
  rw [if_neg (by simp [hi.nocrash])] at h
  obtain ⟨f, hf, hfa⟩ := firstSome_some _ l' h
  simp only [List.mem_append, List.mem_cons, List.mem_flatMap, List.mem_reverse, List.mem_range,
    List.not_mem_nil, or_false] at hf
  rcases hf with (hf | hf) | hf
  · rcases hf with rfl | rfl
    · exact r_ctlMove chain l hi now hng l' hfa
    · exact r_sinkMove chain l now l' hi hfa
  · obtain ⟨i, _, hf⟩ := hf
    rcases hf with rfl | rfl
    · exact r_stageMove chain l hi i now busy l' hng hfa
    · exact r_bufferMove chain l i now l' hi hfa
  · subst hf
    exact r_sourceMove chain l now l' hi hfa

/-- A stub takes a pending interrupt (whatever else its `select` could have picked). -/
theorem r_intrAlt (chain : List TCfg) (l : Link) (hi : RInv chain l) (i : Nat) (now : Int) (l' : Link)
    (h : l.intrAlt i now = some l') : RInv chain l' := by
  unfold Link.intrAlt at h
  cases hs : l.stages[i]? with
  | none => simp [hs] at h
  | some s =>
    simp only [hs] at h
    have hsi := hi.stages i s hs
    have hsw := hsi.sw
    by_cases hc2 : (s.intr == IntrSt.pending && s.pc.interruptible) = true
    · rw [if_pos hc2] at h
      cases h
      simp only [Bool.and_eq_true, beq_iff_eq] at hc2
      obtain ⟨hpend, hint⟩ := hc2
      obtain ⟨hs2, hheld, hinq, hintr, _⟩ := fire_interrupt s hsw now hint
      have hrun : s.pc ≠ .ret := by intro hp; rw [hp] at hint; simp [Pc.interruptible] at hint
      have hrole : roleFor l.ctl l.stages.length i = .intr := by
        revert hsi
        generalize roleFor l.ctl l.stages.length i = r
        intro hsi
        cases r with
        | normal => have := hsi.intr; rw [hpend] at this; cases this
        | intr => rfl
        | stopped => exact absurd hsi.2.1 hrun
        | fresh => exact absurd hsi.2.1 hrun
      refine r_modify_same chain l hi i s hs (fun s => { (s.fire (.interrupt now)) with intr := .waitRet }) ?_
        (by simp [Stage.bytes, hheld, hinq]) (not_drained_of_running chain l hi i s hs hrun) l.race
      rw [hrole]
      exact ⟨⟨hs2.safe, hs2.wf, hs2.rq, hs2.open_⟩, Or.inr (Or.inl rfl)⟩
    · rw [if_neg hc2] at h; cases h

theorem r_recvAlt (chain : List TCfg) (l : Link) (hi : RInv chain l) (i : Nat) (now : Int) (l' : Link)
    (h : l.recvAlt i now = some l') : RInv chain l' := by
  unfold Link.recvAlt at h
  cases hs : l.stages[i]? with
  | none => simp [hs] at h
  | some s =>
    simp only [hs] at h
    unfold recvPart at h
    by_cases hc : (s.pc.wantsInput && !(l.detached && i + 1 == l.stages.length)) = true
    · rw [if_pos hc] at h
      simp only [Bool.and_eq_true] at hc
      exact r_receive chain l hi i now s hs hc.1 l' h
    · rw [if_neg hc] at h; cases h

theorem r_ctlTakeAlt (chain : List TCfg) (l : Link) (hi : RInv chain l) (now : Int) (l' : Link)
    (h : l.ctlTakeAlt now = some l') : RInv chain l' := by
  cases hc : l.ctl with
  | none => rw [ctlTakeAlt_none l now hc] at h; cases h
  | some x =>
    cases x with
    | rmLoop idx tmp dl sg =>
      cases tmp with
      | none => exact r_ctl_take chain l hi now idx dl sg hc l' h
      | some c0 => simp [Link.ctlTakeAlt, hc] at h
    | _ => simp [Link.ctlTakeAlt, hc] at h

/-- … whichever goroutine moves, whichever ready case a `select` picks (every schedule). -/
theorem C02_anymove_conserves (chain : List TCfg) (l : Link) (now : Int) (busy : Bool) (l' : Link) (hi : RInv chain l)
    (hng : NoGiveUp l now) (h : l.AnyMove chain now busy l') : RInv chain l' := by
  rcases h.2 with h' | h' | ⟨i, h'⟩ | ⟨i, h'⟩ | h' | ⟨i, h'⟩ | ⟨i, h'⟩ | h'
  · exact r_ctlMove chain l hi now hng l' h'
  · exact r_sinkMove chain l now l' hi h'
  · exact r_stageMove chain l hi i now busy l' hng h'
  · exact r_bufferMove chain l i now l' hi h'
  · exact r_sourceMove chain l now l' hi h'
  · exact r_recvAlt chain l hi i now l' h'
  · exact r_intrAlt chain l hi i now l' h'
  · exact r_ctlTakeAlt chain l hi now l' h'

/-- What the receiving peer has got is at all times a prefix of what the sending peer's socket
has yielded. -/
theorem C02_prefix (chain : List TCfg) (l : Link) (hi : RInv chain l) : l.delivered <+: l.sent :=
  ⟨l.inflightR, hi.content⟩

/-- What the peers do — send more, stop or resume reading — does not disturb the invariant. -/
theorem RInv_env (chain : List TCfg) (l : Link) (hi : RInv chain l) (q : List Bytes) (ready : Bool) :
    RInv chain { l with srcQ := q, sinkReady := ready } :=
  ⟨hi.stages, hi.ctl, hi.chainOK, hi.nocrash, hi.sinkOpen, hi.nofail, hi.srcOpen, hi.srcLive, hi.content⟩

/-! ### Starting an API call on the link -/

theorem r_beginUpdate (chain : List TCfg) (l : Link) (hi : RInv chain l) (hc : l.ctl = none) (idx : Nat) (t : TCfg)
    (hidx : idx < l.stages.length) (hsafe : SafeT t) : RInv (chain.set idx t) (l.beginUpdate idx t) := by
  have hctl := hi.ctl
  rw [hc] at hctl
  simp only [CtlFor] at hctl
  unfold Link.beginUpdate
  refine ⟨?_, ?_, ?_, hi.nocrash, hi.sinkOpen, hi.nofail, hi.srcOpen, hi.srcLive, ?_⟩
  · intro k x hx
    simp only [length_modifyAt, roleFor] at hx ⊢
    rw [getElem?_modifyAt] at hx
    by_cases hk : k = idx
    · subst hk
      cases hs : l.stages[k]? with
      | none => rw [List.getElem?_eq_none_iff] at hs; omega
      | some s =>
        rw [if_pos rfl, hs] at hx
        simp only [Option.map_some, Option.some.injEq] at hx
        subst hx
        have := hi.stages k s hs
        rw [hc] at this
        simp only [roleFor, StageInv] at this
        rw [if_pos rfl]
        exact ⟨⟨this.safe, this.wf, Or.inl this.quiet, this.open_⟩, Or.inl rfl⟩
    · rw [if_neg hk] at hx
      have := hi.stages k x hx
      rw [hc] at this
      simpa [roleFor, hk] using this
  · simp only [CtlFor, length_modifyAt, List.length_set]
    exact ⟨hctl.1, hidx, hsafe, hctl.2⟩
  · intro t' ht'
    rcases List.mem_or_eq_of_mem_set ht' with h | h
    · exact hi.chainOK t' h
    · rw [h]; exact hsafe
  · refine content_by_bytes hi ?_ rfl rfl rfl rfl
    apply List.ext_getElem?
    intro k
    simp only [List.getElem?_map, virt_get, getElem?_modifyAt, hc, tmpOf, ghostOf_none]
    by_cases hk : k = idx
    · subst hk
      cases hs : l.stages[k]? <;> simp [Stage.bytes]
    · simp [hk]

theorem r_beginRemove (chain : List TCfg) (l : Link) (hi : RInv chain l) (hc : l.ctl = none) (idx : Nat)
    (hidx1 : 1 ≤ idx) (hidx : idx < l.stages.length) : RInv (chain.eraseIdx idx) (l.beginRemove idx false) := by
  have hctl := hi.ctl
  rw [hc] at hctl
  simp only [CtlFor] at hctl
  unfold Link.beginRemove
  refine ⟨?_, ?_, ?_, hi.nocrash, hi.sinkOpen, hi.nofail, hi.srcOpen, hi.srcLive, ?_⟩
  · intro k x hx
    simp only [length_modifyAt, roleFor] at hx ⊢
    rw [getElem?_modifyAt] at hx
    by_cases hk : k = idx
    · subst hk
      cases hs : l.stages[k]? with
      | none => rw [List.getElem?_eq_none_iff] at hs; omega
      | some s =>
        rw [if_pos rfl, hs] at hx
        simp only [Option.map_some, Option.some.injEq] at hx
        subst hx
        have := hi.stages k s hs
        rw [hc] at this
        simp only [roleFor, StageInv] at this
        rw [if_pos rfl]
        exact ⟨⟨this.safe, this.wf, Or.inl this.quiet, this.open_⟩, Or.inl rfl⟩
    · rw [if_neg hk] at hx
      have := hi.stages k x hx
      rw [hc] at this
      simpa [roleFor, hk] using this
  · simp only [CtlFor, length_modifyAt, List.length_eraseIdx]
    have : idx < chain.length := by omega
    rw [if_pos this]
    exact ⟨hctl.1, trivial, hidx1, hidx, by omega⟩
  · intro t' ht'
    exact hi.chainOK t' (List.mem_of_mem_eraseIdx ht')
  · refine content_by_bytes hi ?_ rfl rfl rfl rfl
    apply List.ext_getElem?
    intro k
    simp only [List.getElem?_map, virt_get, getElem?_modifyAt, hc, tmpOf, ghostOf_none]
    by_cases hk : k = idx
    · subst hk
      cases hs : l.stages[k]? <;> simp [Stage.bytes]
    · simp [hk]

theorem r_beginAdd (chain : List TCfg) (l : Link) (hi : RInv chain l) (hc : l.ctl = none) (t : TCfg)
    (hne : l.stages ≠ []) (hsafe : SafeT t) : RInv (chain ++ [t]) (l.beginAdd t) := by
  have hctl := hi.ctl
  rw [hc] at hctl
  simp only [CtlFor] at hctl
  have hn : 0 < l.stages.length := List.length_pos_iff.mpr hne
  unfold Link.beginAdd
  simp only
  have hlen' : (modifyAt (l.stages ++ [(Stage.fresh t)]) (l.stages.length - 1) fun s => { s with intr := .pending }).length =
      l.stages.length + 1 := by simp [length_modifyAt]
  have hget : ∀ k : Nat, (modifyAt (l.stages ++ [(Stage.fresh t)]) (l.stages.length - 1) fun s => { s with intr := .pending })[k]? =
      if k = l.stages.length - 1 then (l.stages[k]?).map (fun s => { s with intr := .pending })
      else if k = l.stages.length then some (Stage.fresh t) else l.stages[k]? := by
    intro k
    rw [getElem?_modifyAt]
    by_cases hk : k = l.stages.length - 1
    · subst hk
      rw [if_pos rfl, if_pos rfl, List.getElem?_append_left (by omega)]
    · rw [if_neg hk, if_neg hk]
      by_cases hk2 : k = l.stages.length
      · subst hk2; simp
      · rw [if_neg hk2]
        rcases Nat.lt_or_ge k l.stages.length with hlt | hge
        · rw [List.getElem?_append_left hlt]
        · rw [List.getElem?_eq_none (by simp; omega), List.getElem?_eq_none hge]
  refine ⟨?_, ?_, ?_, hi.nocrash, hi.sinkOpen, hi.nofail, hi.srcOpen, hi.srcLive, ?_⟩
  · intro k x hx
    simp only [hlen', roleFor] at hx ⊢
    rw [hget] at hx
    by_cases hk : k = l.stages.length - 1
    · subst hk
      cases hs : l.stages[l.stages.length - 1]? with
      | none => rw [List.getElem?_eq_none_iff] at hs; omega
      | some s =>
        rw [if_pos rfl, hs] at hx
        simp only [Option.map_some, Option.some.injEq] at hx
        subst hx
        have := hi.stages _ s hs
        rw [hc] at this
        simp only [roleFor, StageInv] at this
        have h1 : ¬ (l.stages.length - 1 + 1 = l.stages.length + 1) := by omega
        have h2 : l.stages.length - 1 + 2 = l.stages.length + 1 := by omega
        rw [if_neg h1, if_pos h2]
        exact ⟨⟨this.safe, this.wf, Or.inl this.quiet, this.open_⟩, Or.inl rfl⟩
    · rw [if_neg hk] at hx
      by_cases hk2 : k = l.stages.length
      · subst hk2
        rw [if_pos rfl] at hx
        simp only [Option.some.injEq] at hx
        subst hx
        rw [if_pos rfl]
        refine ⟨⟨?_, by simp [PcWF, Stage.fresh], Or.inr (by simp [Stopping, Stage.fresh]), rfl⟩, rfl, rfl, rfl⟩
        simpa [eff, SafeT, Stage.fresh] using hsafe
      · rw [if_neg hk2] at hx
        have := hi.stages k x hx
        rw [hc] at this
        have hklt : k < l.stages.length := by
          rcases Nat.lt_or_ge k l.stages.length with h' | h'
          · exact h'
          · rw [List.getElem?_eq_none h'] at hx; cases hx
        have h2 : ¬ (k + 2 = l.stages.length + 1) := by omega
        simpa [roleFor, hk2, h2] using this
  · simp only [CtlFor, hlen', List.length_append, List.length_singleton]
    exact ⟨trivial, by omega, hsafe, by omega⟩
  · intro t' ht'
    rcases List.mem_append.mp ht' with h | h
    · exact hi.chainOK t' h
    · simp only [List.mem_singleton] at h; rw [h]; exact hsafe
  · have hc0 := hi.content
    have hv0 : l.virt = l.stages := virt_of_notmp l (by rw [hc]; rfl)
    simp only [Link.inflightR, hv0] at hc0
    simp only [Link.inflightR]
    have hv1 := virt_of_notmp (l.beginAdd t) rfl
    unfold Link.beginAdd at hv1
    simp only at hv1
    rw [hv1]
    cases hs : l.stages[l.stages.length - 1]? with
    | none => rw [List.getElem?_eq_none_iff] at hs; omega
    | some s =>
      rw [chain_modify_one (l.stages ++ [(Stage.fresh t)]) (l.stages.length - 1) s
        (by rw [List.getElem?_append_left (by omega)]; exact hs) _ (by simp [Stage.bytes]),
        chainBytes_append, chainBytes_cons, chainBytes_nil]
      have : (Stage.fresh t).bytes = [] := by simp [Stage.bytes, Pc.held, Stage.fresh]
      rw [this]
      simpa using hc0


/-! ### Executions -/

/-- Executions of one link: moves of its goroutines — any enabled one, in any order: every
schedule — while no 5 s give-up is due, what the
peers do (send more, stop or resume reading), and API calls — add, update, remove (a reset is
a sequence of removes) — each starting when no other is in progress on the link.  The chain is
the collection's chain for the link's direction. -/
inductive Exec (c0 : List TCfg) (l0 : Link) : List TCfg → Link → Prop
  | refl : Exec c0 l0 c0 l0
  | move {chain : List TCfg} {l : Link} (now : Int) (busy : Bool) (l' : Link) :
      Exec c0 l0 chain l → NoGiveUp l now → l.AnyMove chain now busy l' → Exec c0 l0 chain l'
  | env {chain : List TCfg} {l : Link} (q : List Bytes) (ready : Bool) :
      Exec c0 l0 chain l → Exec c0 l0 chain { l with srcQ := q, sinkReady := ready }
  | add {chain : List TCfg} {l : Link} (t : TCfg) :
      Exec c0 l0 chain l → l.ctl = none → l.stages ≠ [] → SafeT t → Exec c0 l0 (chain ++ [t]) (l.beginAdd t)
  | update {chain : List TCfg} {l : Link} (idx : Nat) (t : TCfg) :
      Exec c0 l0 chain l → l.ctl = none → idx < l.stages.length → SafeT t →
      Exec c0 l0 (chain.set idx t) (l.beginUpdate idx t)
  | remove {chain : List TCfg} {l : Link} (idx : Nat) :
      Exec c0 l0 chain l → l.ctl = none → 1 ≤ idx → idx < l.stages.length →
      Exec c0 l0 (chain.eraseIdx idx) (l.beginRemove idx false)

theorem RInv_exec {c0 : List TCfg} {l0 : Link} {chain : List TCfg} {l : Link} (h0 : RInv c0 l0)
    (h : Exec c0 l0 chain l) : RInv chain l := by
  induction h with
  | refl => exact h0
  | move now busy l' _ hng hm ih => exact C02_anymove_conserves _ _ now busy l' ih hng hm
  | env q ready _ ih => exact RInv_env _ _ ih q ready
  | add t _ hc hne hs ih => exact r_beginAdd _ _ ih hc t hne hs
  | update idx t _ hc hidx hs ih => exact r_beginUpdate _ _ ih hc idx t hidx hs
  | remove idx _ hc h1 h2 ih => exact r_beginRemove _ _ ih hc idx h1 h2

/-- **C02.**  For every chain of data-preserving toxics with any attribute values and any
toxicity outcomes, every execution of a link from its creation — any payload, any chunking,
any timing, any history of toxic add / update / remove (reset) at any moment with chunks in
flight at every hand-off, any schedule of the goroutines — in which no hand-off is given up
after 5 s: what the receiving peer has got is a prefix of what the sending peer's socket has
yielded, and `delivered ++ in-flight = read`; whenever no API call is in progress the link is
in service in the sense of `Pipeline.lean`. -/
theorem C02_exec (chain0 : List TCfg) (now0 : Int) (hsafe : ∀ t ∈ chain0, SafeT t) {chain : List TCfg} {l : Link}
    (h : Exec chain0 (Link.new chain0 now0) chain l) :
    RInv chain l ∧ l.delivered <+: l.sent ∧ (l.ctl = none → LInv l) := by
  have h0 : RInv chain0 (Link.new chain0 now0) :=
    RInv_of_LInv chain0 _ (LInv_new chain0 now0 (fun t ht => hsafe t ht)) hsafe (by simp [Link.new])
  have hi := RInv_exec h0 h
  exact ⟨hi, C02_prefix chain l hi, fun hc => LInv_of_RInv chain l hi hc⟩

/-- … and once the link has come to rest after such an execution (no API call in progress, no
goroutine can move, no timer pending, the receiver accepts writes), the complete stream has
been delivered. -/
theorem C02_complete (chain0 : List TCfg) (now0 : Int) (hsafe : ∀ t ∈ chain0, SafeT t) {chain : List TCfg} {l : Link}
    (h : Exec chain0 (Link.new chain0 now0) chain l) (hc : l.ctl = none) (now : Int)
    (hq : l.move chain now = none) (hready : l.sinkReady = true)
    (hnt : ∀ s ∈ l.stages, s.pc.timer = none) (hne : l.stages ≠ []) : l.delivered = l.sent :=
  (C01_quiescent_complete l chain now ((C02_exec chain0 now0 hsafe h).2.2 hc) hq hready hnt hne).2

/-! ### A concrete execution (non-vacuity) -/

def noGiveUpB (l : Link) (now : Int) : Bool :=
  l.stages.all (fun s => match s.pc with | .flush _ d => decide (now < d) | _ => true) &&
  (match l.ctl with
   | some (.rmLoop _ (some _) d _) => decide (now < d)
   | some (.rmDrain _ (some _) d) => decide (now < d)
   | _ => true)

theorem noGiveUpB_sound (l : Link) (now : Int) (h : noGiveUpB l now = true) : NoGiveUp l now := by
  unfold noGiveUpB at h
  simp only [Bool.and_eq_true, List.all_eq_true] at h
  refine ⟨?_, ?_⟩
  · intro s hs c d hpc
    have := h.1 s hs
    rw [hpc] at this
    simpa using this
  · have := h.2
    split <;> simp_all

/-- Run the link's goroutines at clock `now` until none can move, checking the proviso at
every state. -/
def runG (chain : List TCfg) (now : Int) : Nat → Link → Option Link
  | 0, l => some l
  | n + 1, l =>
    if noGiveUpB l now then
      match l.move chain now with
      | some l' => runG chain now n l'
      | none => some l
    else none

theorem Exec.runG {c0 : List TCfg} {l0 : Link} {chain : List TCfg} (now : Int) :
    ∀ (n : Nat) (l l' : Link), Toxi.Link.runG chain now n l = some l' → Exec c0 l0 chain l → Exec c0 l0 chain l' := by
  intro n
  induction n with
  | zero => intro l l' h he; simp only [Toxi.Link.runG, Option.some.injEq] at h; subst h; exact he
  | succ n ih =>
    intro l l' h he
    simp only [Toxi.Link.runG] at h
    split at h
    · rename_i hg
      split at h
      · rename_i l1 hm
        exact ih l1 l' h (Exec.move now false l1 he (noGiveUpB_sound l now hg) (anyMove_of_move l chain now false l1 hm))
      · simp only [Option.some.injEq] at h; subst h; exact he
    · cases h


namespace Ex
/-- noop → latency(5 ms, buffered).  Three bytes in two chunks are sent; while the first chunk
sleeps in the latency stub and the second waits in its buffer the latency toxic is updated; a
bandwidth toxic is added; the latency toxic is removed (the controller carries the buffered
chunk by hand); time passes; everything arrives, in order. -/
def tLat : TCfg := ⟨"l", .latency 5 0, true, 1024, false⟩
def tLat2 : TCfg := ⟨"l", .latency 1 0, true, 1024, false⟩
def tBw : TCfg := ⟨"b", .bandwidth 1, true, 0, false⟩
def c0 : List TCfg := [TCfg.noop, tLat]
def l0 : Link := Link.new c0 0
def x1 : Link := { l0 with srcQ := [[1, 2], [3]], sinkReady := true }
def x2o := runG c0 0 64 x1
theorem x2s : x2o.isSome = true := by decide
def x2 : Link := x2o.get x2s
def c1 : List TCfg := c0.set 1 tLat2
def x3o := runG c1 0 64 (x2.beginUpdate 1 tLat2)
theorem x3s : x3o.isSome = true := by decide
def x3 : Link := x3o.get x3s
def c2 : List TCfg := c1 ++ [tBw]
def x4o := runG c2 0 64 (x3.beginAdd tBw)
theorem x4s : x4o.isSome = true := by decide
def x4 : Link := x4o.get x4s
def x4e : Link := { x4 with srcQ := [[4], [5]], sinkReady := true }
def x5o := runG c2 0 64 x4e
theorem x5s : x5o.isSome = true := by decide
def x5 : Link := x5o.get x5s
def c3 : List TCfg := c2.eraseIdx 1
def x6o := runG c3 0 64 (x5.beginRemove 1 false)
theorem x6s : x6o.isSome = true := by decide
def x6 : Link := x6o.get x6s
def x7o := runG c3 (10 * ms) 64 x6
theorem x7s : x7o.isSome = true := by decide
def x7 : Link := x7o.get x7s

theorem safe0 : ∀ t ∈ c0, SafeT t := by
  intro t ht
  simp only [c0, List.mem_cons, List.not_mem_nil, or_false] at ht
  rcases ht with rfl | rfl <;> simp [SafeT, effective, Safe, TCfg.noop, tLat]

theorem exec7 : Exec c0 l0 c3 x7 := by
  have e1 : Exec c0 l0 c0 x1 := Exec.env _ _ Exec.refl
  have e2 : Exec c0 l0 c0 x2 := Exec.runG 0 64 x1 x2 (by simp [x2, x2o]) e1
  have e3 : Exec c0 l0 c1 x3 := Exec.runG 0 64 _ x3 (by simp [x3, x3o])
    (Exec.update 1 tLat2 e2 (by decide) (by decide) (by simp [SafeT, effective, Safe, tLat2]))
  have e4 : Exec c0 l0 c2 x4 := Exec.runG 0 64 _ x4 (by simp [x4, x4o])
    (Exec.add tBw e3 (by decide) (by decide) (by simp [SafeT, effective, Safe, tBw]))
  have e5 : Exec c0 l0 c2 x5 := Exec.runG 0 64 x4e x5 (by simp [x5, x5o]) (Exec.env [[4], [5]] true e4)
  have e6 : Exec c0 l0 c3 x6 := Exec.runG 0 64 _ x6 (by simp [x6, x6o])
    (Exec.remove 1 e5 (by decide) (by decide) (by decide))
  exact Exec.runG (10 * ms) 64 _ x7 (by simp [x7, x7o]) e6

/-- The execution passes through the interesting states — a chunk asleep in the latency stub and
one in its buffer when the update arrives; the `RemoveToxic` controller holding a chunk in its
hand while the next stub is busy — and ends with everything delivered, in order. -/
example : x2.stages.map (·.pc.held) = [[], [1, 2]] ∧ x2.stages.map (·.inq.length) = [0, 1] ∧
    x6.tmp = some (1, ⟨[5], 0⟩) ∧ x6.delivered = [1, 2, 3] ∧
    x7.ctl = none ∧ x7.stages.length = 2 ∧ x7.delivered = [1, 2, 3, 4, 5] ∧ x7.sent = [1, 2, 3, 4, 5] := by decide

example : x7.delivered <+: x7.sent := (C02_exec c0 0 safe0 exec7).2.1
end Ex

end Toxi.Link
