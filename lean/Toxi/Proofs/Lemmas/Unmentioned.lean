import Toxi.Proofs.C19
import Toxi.Proofs.Lemmas.InvStep
/-!
C05, "every read reflects all earlier successful writes", for `POST/PATCH /proxies/{name}`:
what an update that is answered 200 does to the fields its body mentions and to those it does
not.  (The theorems behind E4's `update-not-reflected` and `update-changed-unmentioned-enabled`
oracles.)
-/
namespace Toxi.Api
open Toxi.Client

theorem lookupAll_nil (kvs : List (String × J)) (tag : String) (h : ∀ kv ∈ kvs, keyMatches tag kv.1 = false) :
    lookupAll kvs tag = [] := by
  unfold lookupAll
  rw [List.map_eq_nil_iff, List.filter_eq_nil_iff]
  intro kv hkv
  simp [h kv hkv]

/-- A body that does not mention `enabled` decodes to the default it was given. -/
theorem decodeProxy_unmentioned (init inp : ProxyInput) (kvs : List (String × J))
    (h : ∀ kv ∈ kvs, keyMatches "enabled" kv.1 = false)
    (hd : decodeProxy init (.val (.obj kvs)) = some inp) : inp.enabled = init.enabled := by
  unfold decodeProxy at hd
  simp only [lookupAll_nil kvs "enabled" h] at hd
  split at hd
  · cases hd
  · simp only [Option.some.injEq] at hd
    subst hd
    simp [applyStores]

/-- **C05 (an update keeps what it does not mention).**  `POST/PATCH /proxies/{name}` whose body
is an object without an `enabled` key (in any spelling of the key) and which is answered 200:
the proxy is enabled afterwards exactly if it was enabled before. -/
theorem C05_update_keeps_enabled (e : Env) (s : State) (n : String) (p : ProxyRec) (kvs : List (String × J))
    (hp : s.find n = some p) (h : ∀ kv ∈ kvs, keyMatches "enabled" kv.1 = false)
    (hok : (hUpdate e s n (.val (.obj kvs))).2.status = 200) :
    ∃ p', (hUpdate e s n (.val (.obj kvs))).1.find n = some p' ∧ p'.enabled = p.enabled := by
  unfold hUpdate withProxy at hok ⊢
  simp only [hp] at hok ⊢
  cases hd : decodeProxy ⟨p.name, p.listen, p.upstream, p.enabled⟩ (.val (.obj kvs)) with
  | none => simp [hd, errResp, Err.status] at hok
  | some inp =>
    have hen := decodeProxy_unmentioned _ inp kvs h hd
    simp only [hd] at hok ⊢
    cases hu : updateProxy e s p inp with
    | mk p' okk =>
      cases okk with
      | false => simp [hu, errResp, Err.status] at hok
      | true =>
        have hk := updateProxy_ok_enabled e s p inp p' hu
        simp only [hu]
        refine ⟨p', ?_, by rw [hk.1, hen]⟩
        exact find_replace_same s n p p' hp (by rw [hk.2])

/-- The upstream a successful update leaves is the upstream its input names. -/
theorem updateProxy_ok_upstream (e : Env) (s : State) (p : ProxyRec) (inp : ProxyInput) (p' : ProxyRec)
    (h : updateProxy e s p inp = (p', true)) : p'.upstream = inp.upstream := by
  unfold updateProxy at h
  cases hr : e.resolve inp.listen with
  | none => simp [hr] at h
  | some r =>
    simp only [hr] at h
    generalize hp1 : (if (!(e.sameListen p.listen inp.listen) || p.upstream != inp.upstream) = true then
        ({ p with enabled := false, listen := inp.listen, upstream := inp.upstream } : ProxyRec) else p) = p1 at h
    have hu : p1.upstream = inp.upstream := by
      rw [← hp1]
      split
      · rfl
      · rename_i hnd
        simp only [Bool.or_eq_true, Bool.not_eq_true', not_or, Bool.not_eq_false] at hnd
        simpa using hnd.2
    by_cases hne : (inp.enabled != p1.enabled) = true
    · rw [if_pos hne] at h
      by_cases hen : inp.enabled = true
      · rw [if_pos hen] at h
        cases hs : startProxy e (s.replace p1) p1 with
        | none => simp [hs] at h
        | some p2 =>
          simp only [hs, Prod.mk.injEq, and_true] at h
          subst h
          unfold startProxy at hs
          split at hs
          · cases hs
          · split at hs
            · cases hs
            · split at hs
              · cases hs
              · simp only [Option.some.injEq] at hs; subst hs; exact hu
      · rw [if_neg hen] at h
        simp only [Prod.mk.injEq, and_true] at h
        subst h
        exact hu
    · rw [if_neg hne] at h
      simp only [Prod.mk.injEq, and_true] at h
      subst h
      exact hu

/-- **C05 (a successful update is reflected by the following reads).**  Whatever the body:
when `POST/PATCH /proxies/{name}` is answered 200, the registered proxy has exactly the upstream
and the enabled flag the decoded request asks for (fields the body does not mention decode to
the proxy's current values, `decodeProxy_unmentioned`). -/
theorem C05_update_reflected (e : Env) (s : State) (n : String) (p : ProxyRec) (body : Body) (inp : ProxyInput)
    (hp : s.find n = some p) (hd : decodeProxy ⟨p.name, p.listen, p.upstream, p.enabled⟩ body = some inp)
    (hok : (hUpdate e s n body).2.status = 200) :
    ∃ p', (hUpdate e s n body).1.find n = some p' ∧ p'.upstream = inp.upstream ∧ p'.enabled = inp.enabled := by
  unfold hUpdate withProxy at hok ⊢
  simp only [hp, hd] at hok ⊢
  cases hu : updateProxy e s p inp with
  | mk p' okk =>
    cases okk with
    | false => simp [hu, errResp, Err.status] at hok
    | true =>
      have hk := updateProxy_ok_enabled e s p inp p' hu
      refine ⟨p', find_replace_same s n p p' hp (by rw [hk.2]), updateProxy_ok_upstream e s p inp p' hu, hk.1⟩

end Toxi.Api
