import Toxi.Model.Toxic

/-! Helper lemmas about the stage model shared by C08–C14. -/
namespace Toxi.Toxic

theorem wrap64_id (x : Int) (h1 : -9223372036854775808 ≤ x) (h2 : x < 9223372036854775808) :
    wrap64 x = x := by
  unfold wrap64
  simp only
  rw [Int.emod_eq_of_lt (by omega) (by omega)]
  omega

/-- Durations in milliseconds that do not overflow `time.Duration`. -/
def MsOK (t : Int) : Prop := 0 ≤ t ∧ t * ms < 9223372036854775808

theorem wrap_ms (t : Int) (h : MsOK t) : wrap64 (t * ms) = t * ms := by
  obtain ⟨h0, h1⟩ := h
  apply wrap64_id
  · have : 0 ≤ t * ms := Int.mul_nonneg h0 (by decide)
    omega
  · exact h1

theorem ms_pos : (0 : Int) < ms := by decide

end Toxi.Toxic
