import Toxi.Proofs.Lemmas.Collect
/-!
No loss, for several connections at once (C02): a `ToxicCollection` whose chains hold
data-preserving toxics and whose connections are all open — every move of any goroutine of any
link, any `select` choice, every step of add / update / remove / reset across the links of a
direction — keeps on every link `delivered ++ in-flight = read` (under the property's proviso
that no 5 s give-up is due), keeps every link aligned with its direction's chain, and whenever
the collection is not busy every link is in service.
-/
namespace Toxi.Link
open Toxi.Toxic Toxi.Stream

theorem t_beginAdd (chain : List TCfg) (l : Link) (ih : TInv chain l) (hc : l.ctl = none) (t : TCfg) :
    TInv (chain ++ [t]) (l.beginAdd t) := by
  unfold TInv at ih ⊢
  rw [hc] at ih
  simp only [TFor] at ih
  unfold Link.beginAdd
  simp only [TFor, Link.ts]
  rw [map_t_modifyAt]
  · simp only [List.map_append, List.map_cons, List.map_nil, List.length_append, List.length_map, List.length_singleton]
    refine ⟨by rw [← ih]; rfl, ?_⟩
    simp [Stage.fresh]
  · intro s; rfl

theorem t_beginUpdate (chain : List TCfg) (l : Link) (ih : TInv chain l) (hc : l.ctl = none) (idx : Nat) (t : TCfg) :
    TInv (chain.set idx t) (l.beginUpdate idx t) := by
  unfold TInv at ih ⊢
  rw [hc] at ih
  simp only [TFor] at ih
  unfold Link.beginUpdate
  simp only [TFor, Link.ts]
  rw [map_t_modifyAt]
  · rw [← ih]; rfl
  · intro s; rfl

theorem t_beginRemove (chain : List TCfg) (l : Link) (ih : TInv chain l) (hc : l.ctl = none) (idx : Nat) (cl : Bool) :
    TInv (chain.eraseIdx idx) (l.beginRemove idx cl) := by
  unfold TInv at ih ⊢
  rw [hc] at ih
  simp only [TFor] at ih
  unfold Link.beginRemove
  simp only [TFor, Link.ts]
  rw [map_t_modifyAt]
  · rw [← ih]; rfl
  · intro s; rfl

/-- A chain entry the API can hold for a data-preserving toxic. -/
def GoodT (t : TCfg) : Prop := SafeT t ∧ t.cleanup = false

structure RColl (c : Coll) : Prop where
  links  : ∀ nl ∈ c.links, RInv (c.chain nl.dir) nl.l ∧ TInv (c.chain nl.dir) nl.l
  idle   : c.busy = false → ∀ nl ∈ c.links, nl.l.ctl = none
  good   : ∀ d, ∀ t ∈ c.chain d, GoodT t
  nonempty : ∀ d, c.chain d ≠ []
  nodead : c.dead = []
  nocrash : c.crash = none

theorem chain_setChain_same (c : Coll) (d : Dir) (ch : List TCfg) : (c.setChain d ch).chain d = ch := by
  cases d <;> rfl

theorem chain_setChain_other (c : Coll) (d d' : Dir) (ch : List TCfg) (h : d' ≠ d) : (c.setChain d ch).chain d' = c.chain d' := by
  cases d <;> cases d' <;> first | rfl | exact absurd rfl h

/-- An API call starts on every link of its direction. -/
theorem rcoll_begin (c : Coll) (hi : RColl c) (hnc : ∀ nl ∈ c.links, nl.l.ctl = none) (d : Dir) (ch : List TCfg)
    (f : Link → Link) (hgood : ∀ t ∈ ch, GoodT t) (hch : ch ≠ [])
    (hf : ∀ l, RInv (c.chain d) l ∧ TInv (c.chain d) l → l.ctl = none → RInv ch (f l) ∧ TInv ch (f l)) :
    RColl { (mapLinks (c.setChain d ch) d f) with busy := true } := by
  have hlinks : (c.setChain d ch).links = c.links := by cases d <;> rfl
  have hcr : (c.setChain d ch).crash = c.crash := by cases d <;> rfl
  have hchain : ∀ d', Coll.chain { (mapLinks (c.setChain d ch) d f) with busy := true } d' = (c.setChain d ch).chain d' := by
    intro d'; cases d' <;> rfl
  have hdead : (c.setChain d ch).dead = c.dead := by cases d <;> rfl
  refine ⟨?_, fun h => (by cases h), ?_, ?_, ?_, ?_⟩
  · intro x hx
    obtain ⟨nl, hnl, rfl⟩ := mapLinks_mem _ d f x hx
    rw [hlinks] at hnl
    rw [hchain]
    by_cases hd : (nl.dir == d) = true
    · have hdd : nl.dir = d := by simpa using hd
      rw [if_pos hd]
      simp only
      rw [hdd, chain_setChain_same]
      have := hi.links nl hnl
      rw [hdd] at this
      exact hf nl.l this (hnc nl hnl)
    · rw [if_neg hd]
      have hdd : nl.dir ≠ d := by simpa using hd
      rw [chain_setChain_other c d nl.dir ch hdd]
      exact hi.links nl hnl
  · intro d' t ht
    rw [hchain] at ht
    by_cases hd : d' = d
    · subst hd; rw [chain_setChain_same] at ht; exact hgood t ht
    · rw [chain_setChain_other c d d' ch hd] at ht; exact hi.good d' t ht
  · intro d'
    rw [hchain]
    by_cases hd : d' = d
    · subst hd; rw [chain_setChain_same]; exact hch
    · rw [chain_setChain_other c d d' ch hd]; exact hi.nonempty d'
  · simp only [mapLinks]; rw [hdead]; exact hi.nodead
  · simp only [mapLinks]; rw [hcr]; exact hi.nocrash

theorem stages_nonempty (c : Coll) (hi : RColl c) (d : Dir) (l : Link) (hl : RInv (c.chain d) l) (hc : l.ctl = none) :
    l.stages ≠ [] := by
  have := hl.ctl
  rw [hc] at this
  simp only [CtlFor] at this
  intro h
  have hlen : (c.chain d).length = 0 := by rw [this.2, h]; rfl
  exact hi.nonempty d (List.eq_nil_of_length_eq_zero hlen)

theorem rcoll_addToxic (c : Coll) (hi : RColl c) (hb : c.busy = false) (d : Dir) (t : TCfg) (ht : GoodT t) :
    RColl (c.addToxic d t) := by
  refine rcoll_begin c hi (hi.idle hb) d _ _ ?_ (by simp) ?_
  · intro t' ht'
    rcases List.mem_append.mp ht' with h | h
    · exact hi.good d t' h
    · simp only [List.mem_singleton] at h; rw [h]; exact ht
  · intro l hl hc
    exact ⟨r_beginAdd _ l hl.1 hc t (stages_nonempty c hi d l hl.1 hc) ht.1, t_beginAdd _ l hl.2 hc t⟩

theorem rcoll_updateToxic (c : Coll) (hi : RColl c) (hb : c.busy = false) (d : Dir) (idx : Nat) (t : TCfg) (ht : GoodT t)
    (hidx : idx < (c.chain d).length) : RColl (c.updateToxic d idx t) := by
  refine rcoll_begin c hi (hi.idle hb) d _ _ ?_ ?_ ?_
  · intro t' ht'
    rcases List.mem_or_eq_of_mem_set ht' with h | h
    · exact hi.good d t' h
    · rw [h]; exact ht
  · intro h
    have := congrArg List.length h
    simp only [List.length_set, List.length_nil] at this
    omega
  · intro l hl hc
    have hlen := hl.1.ctl
    rw [hc] at hlen
    simp only [CtlFor] at hlen
    exact ⟨r_beginUpdate _ l hl.1 hc idx t (by rw [← hlen.2]; exact hidx) ht.1, t_beginUpdate _ l hl.2 hc idx t⟩

theorem rcoll_removeToxic (c : Coll) (hi : RColl c) (hnc : ∀ nl ∈ c.links, nl.l.ctl = none) (d : Dir) (idx : Nat)
    (h1 : 1 ≤ idx) (hidx : idx < (c.chain d).length) : RColl (c.removeToxic d idx) := by
  have hcl : ((Option.map (fun x => x.cleanup) (c.chain d)[idx]?).getD false) = false := by
    rw [List.getElem?_eq_getElem hidx]
    simp only [Option.map_some, Option.getD_some]
    exact (hi.good d _ (List.getElem_mem hidx)).2
  unfold Coll.removeToxic
  simp only [hcl]
  refine rcoll_begin c hi hnc d _ _ ?_ ?_ ?_
  · intro t' ht'
    exact hi.good d t' (List.mem_of_mem_eraseIdx ht')
  · intro h
    have := congrArg List.length h
    rw [List.length_eraseIdx, if_pos hidx] at this
    simp at this
    omega
  · intro l hl hc
    have hlen := hl.1.ctl
    rw [hc] at hlen
    simp only [CtlFor] at hlen
    exact ⟨r_beginRemove _ l hl.1 hc idx h1 (by rw [← hlen.2]; exact hidx), t_beginRemove _ l hl.2 hc idx false⟩


theorem findIdx_spec (ch : List TCfg) (name : String) (i : Nat) (h : findIdx ch name = some i) : 1 ≤ i ∧ i < ch.length := by
  unfold findIdx at h
  simp only at h
  split at h
  · rename_i hc
    cases h
    simp only [Bool.and_eq_true, decide_eq_true_eq] at hc
    exact ⟨hc.2, hc.1⟩
  · cases h

theorem linkMoveR_spec (c : Coll) (hgu : ∀ nl ∈ c.links, NoGiveUp nl.l c.now) : ∀ (ls ls' : List NLink),
    (∀ nl ∈ ls, nl ∈ c.links) → Coll.linkMove c ls = some ls' →
    (∀ nl ∈ ls, RInv (c.chain nl.dir) nl.l ∧ TInv (c.chain nl.dir) nl.l) →
    (∀ nl ∈ ls', RInv (c.chain nl.dir) nl.l ∧ TInv (c.chain nl.dir) nl.l) ∧
    ((∀ nl ∈ ls, nl.l.ctl = none) → ∀ nl ∈ ls', nl.l.ctl = none) := by
  intro ls
  induction ls with
  | nil => intro ls' _ h; simp [Coll.linkMove] at h
  | cons nl rest ih =>
    intro ls' hsub h hall
    simp only [Coll.linkMove] at h
    cases hm : nl.l.move (c.chain nl.dir) c.now c.busy with
    | some l' =>
      simp only [hm, Option.some.injEq] at h
      subst h
      have ham := anyMove_of_move nl.l _ c.now c.busy l' hm
      have ho : RInv (c.chain nl.dir) l' ∧ TInv (c.chain nl.dir) l' :=
        ⟨C02_anymove_conserves _ nl.l c.now c.busy l' (hall nl (by simp)).1 (hgu nl (hsub nl (by simp))) ham,
         t_anymove _ nl.l c.now c.busy l' (hall nl (by simp)).1 (hall nl (by simp)).2 (hgu nl (hsub nl (by simp))) ham⟩
      constructor
      · intro x hx
        rcases List.mem_cons.mp hx with rfl | hx
        · exact ho
        · exact hall x (by simp [hx])
      · intro hnc x hx
        rcases List.mem_cons.mp hx with rfl | hx
        · exact anymove_keeps_noctl nl.l _ c.now c.busy l' (hnc nl (by simp)) ham
        · exact hnc x (by simp [hx])
    | none =>
      simp only [hm] at h
      cases hr : Coll.linkMove c rest with
      | none => simp [hr] at h
      | some rs =>
        simp only [hr, Option.map_some, Option.some.injEq] at h
        subst h
        obtain ⟨h1, h2⟩ := ih rs (fun x hx => hsub x (by simp [hx])) hr (fun x hx => hall x (by simp [hx]))
        constructor
        · intro x hx
          rcases List.mem_cons.mp hx with rfl | hx
          · exact hall _ (by simp)
          · exact h1 x hx
        · intro hnc x hx
          rcases List.mem_cons.mp hx with rfl | hx
          · exact hnc _ (by simp)
          · exact h2 (fun y hy => hnc y (by simp [hy])) x hx

/-- **Every step of the collection's own scheduler keeps every open connection loss-free.** -/
theorem rcoll_move (c c' : Coll) (hi : RColl c) (hgu : ∀ nl ∈ c.links, NoGiveUp nl.l c.now) (h : c.move = some c') :
    RColl c' := by
  unfold Coll.move at h
  rw [if_neg (by simp [hi.nocrash])] at h
  have hnocr : c.links.find? (fun nl => nl.l.crash.isSome) = none := by
    rw [List.find?_eq_none]
    intro nl hnl
    simp [(hi.links nl hnl).1.nocrash]
  simp only [hnocr] at h
  split at h
  · rename_i ls hls
    cases h
    have := linkMoveR_spec c hgu c.links ls (fun _ h => h) hls hi.links
    exact ⟨this.1, fun hb => this.2 (hi.idle hb), hi.good, hi.nonempty, hi.nodead, hi.nocrash⟩
  · rw [hi.nodead] at h
    simp only [Coll.linkMove] at h
    split at h
    · rename_i hcond
      have hall : ∀ nl ∈ c.links, nl.l.ctl = none := by
        simp only [Bool.and_eq_true, List.all_eq_true, Option.isNone_iff_eq_none] at hcond
        exact hcond.2
      split at h
      · split at h
        · rename_i i hfi
          cases h
          obtain ⟨h1, h2⟩ := findIdx_spec _ _ _ hfi
          have := rcoll_removeToxic c hi hall _ i h1 h2
          refine ⟨this.links, this.idle, this.good, this.nonempty, ?_, this.nocrash⟩
          have hd := this.nodead
          simpa using hd
        · cases h; exact ⟨hi.links, hi.idle, hi.good, hi.nonempty, rfl, hi.nocrash⟩
      · cases h
        exact ⟨hi.links, fun _ => hall, hi.good, hi.nonempty, rfl, hi.nocrash⟩
    · split at h
      · rename_i hcond
        exfalso
        simp only [Bool.and_eq_true, List.any_eq_true] at hcond
        obtain ⟨_, nl, hnl, hdc⟩ := hcond
        rw [(hi.links nl hnl).1.sinkOpen] at hdc; cases hdc
      · cases h

/-- The states a `ToxicCollection` with data-preserving toxics and open connections can reach while
no 5 s give-up is due. -/
inductive ReachR : Coll → Prop
  | init : ReachR {}
  | move {c : Coll} (c' : Coll) : ReachR c → (∀ nl ∈ c.links, NoGiveUp nl.l c.now) → c.move = some c' → ReachR c'
  | live {c : Coll} (pre post : List NLink) (nl : NLink) (l' : Link) : ReachR c → c.links = pre ++ nl :: post →
      NoGiveUp nl.l c.now → nl.l.AnyMove (c.chain nl.dir) c.now c.busy l' →
      ReachR { c with links := pre ++ { nl with l := l' } :: post }
  | tick {c : Coll} (t : Int) : ReachR c → ReachR { c with now := t }
  | accept {c : Coll} (n1 n2 : String) : ReachR c →
      ReachR { c with links := c.links ++ [⟨n1, .up, Link.new c.up c.now⟩, ⟨n2, .down, Link.new c.down c.now⟩] }
  | env {c : Coll} (f : NLink → List Bytes × Bool) : ReachR c →
      ReachR { c with links := c.links.map fun nl => { nl with l := { nl.l with srcQ := (f nl).1, sinkReady := (f nl).2 } } }
  | add {c : Coll} (d : Dir) (t : TCfg) : ReachR c → c.busy = false → GoodT t → ReachR (c.addToxic d t)
  | update {c : Coll} (d : Dir) (idx : Nat) (t : TCfg) : ReachR c → c.busy = false → GoodT t →
      idx < (c.chain d).length → ReachR (c.updateToxic d idx t)
  | remove {c : Coll} (d : Dir) (idx : Nat) : ReachR c → c.busy = false → 1 ≤ idx → idx < (c.chain d).length →
      ReachR (c.removeToxic d idx)
  | reset {c : Coll} (q : List ApiStep) : ReachR c → c.busy = false → ReachR { c with busy := true, queue := q }

theorem goodT_noop : GoodT TCfg.noop := ⟨by simp [SafeT, effective, Safe, TCfg.noop], rfl⟩

theorem rcoll_reach {c : Coll} (h : ReachR c) : RColl c := by
  induction h with
  | init =>
    refine ⟨fun _ h => (by cases h), fun _ _ h => (by cases h), ?_, ?_, rfl, rfl⟩
    · intro d t ht
      cases d <;> (simp only [Coll.chain, List.mem_singleton] at ht; rw [ht]; exact goodT_noop)
    · intro d; cases d <;> simp [Coll.chain]
  | move c' _ hgu hm ih => exact rcoll_move _ c' ih hgu hm
  | @live c pre post nl l' _ hl hgu hm ih =>
    have hmem : nl ∈ c.links := by rw [hl]; simp
    refine ⟨?_, ?_, ih.good, ih.nonempty, ih.nodead, ih.nocrash⟩
    · intro x hx
      simp only [List.mem_append, List.mem_cons] at hx
      rcases hx with hx | rfl | hx
      · exact ih.links x (by rw [hl]; simp [hx])
      · exact ⟨C02_anymove_conserves _ nl.l _ _ l' (ih.links nl hmem).1 hgu hm,
          t_anymove _ nl.l _ _ l' (ih.links nl hmem).1 (ih.links nl hmem).2 hgu hm⟩
      · exact ih.links x (by rw [hl]; simp [hx])
    · intro hb x hx
      simp only [List.mem_append, List.mem_cons] at hx
      rcases hx with hx | rfl | hx
      · exact ih.idle hb x (by rw [hl]; simp [hx])
      · exact anymove_keeps_noctl nl.l _ _ _ l' (ih.idle hb nl hmem) hm
      · exact ih.idle hb x (by rw [hl]; simp [hx])
  | tick t _ ih => exact ⟨ih.links, ih.idle, ih.good, ih.nonempty, ih.nodead, ih.nocrash⟩
  | @accept c n1 n2 _ ih =>
    have hnew : ∀ d, RInv (c.chain d) (Link.new (c.chain d) c.now) ∧ TInv (c.chain d) (Link.new (c.chain d) c.now) := by
      intro d
      exact ⟨RInv_of_LInv _ _ (LInv_new _ _ (fun t ht => (ih.good d t ht).1)) (fun t ht => (ih.good d t ht).1)
        (by simp [Link.new]), t_new _ _⟩
    refine ⟨?_, ?_, ih.good, ih.nonempty, ih.nodead, ih.nocrash⟩
    · intro nl hnl
      rcases List.mem_append.mp hnl with h | h
      · exact ih.links nl h
      · simp only [List.mem_cons, List.not_mem_nil, or_false] at h
        rcases h with rfl | rfl
        · exact hnew .up
        · exact hnew .down
    · intro hb nl hnl
      rcases List.mem_append.mp hnl with h | h
      · exact ih.idle hb nl h
      · simp only [List.mem_cons, List.not_mem_nil, or_false] at h
        rcases h with rfl | rfl <;> rfl
  | env f _ ih =>
    refine ⟨?_, ?_, ih.good, ih.nonempty, ih.nodead, ih.nocrash⟩
    · intro nl hnl
      simp only [List.mem_map] at hnl
      obtain ⟨x, hx, rfl⟩ := hnl
      exact ⟨RInv_env _ x.l (ih.links x hx).1 _ _, (ih.links x hx).2⟩
    · intro hb nl hnl
      simp only [List.mem_map] at hnl
      obtain ⟨x, hx, rfl⟩ := hnl
      exact ih.idle hb x hx
  | add d t _ hb ht ih => exact rcoll_addToxic _ ih hb d t ht
  | update d idx t _ hb ht hidx ih => exact rcoll_updateToxic _ ih hb d idx t ht hidx
  | remove d idx _ hb h1 h2 ih => exact rcoll_removeToxic _ ih (ih.idle hb) d idx h1 h2
  | reset q _ hb ih => exact ⟨ih.links, fun h => (by cases h), ih.good, ih.nonempty, ih.nodead, ih.nocrash⟩

/-- **C02 / C04, whole collection, no loss.**  In every state a `ToxicCollection` of
data-preserving toxics with open connections can reach (any number of connections opened at
any moments in both directions, any traffic, any history of add / update / remove / reset, any
schedule and `select` choices, no 5 s give-up due): on every connection
`delivered ++ in-flight = read`, what was delivered is a prefix of what was sent, and whenever
the collection is not busy with an API call every connection is in service and runs, stub by
stub, exactly the toxics the chain of its direction lists. -/
theorem C02_reachR {c : Coll} (h : ReachR c) :
    (∀ nl ∈ c.links, nl.l.delivered <+: nl.l.sent) ∧
    (c.busy = false → ∀ nl ∈ c.links, LInv nl.l ∧ nl.l.stages.map (·.t) = c.chain nl.dir) := by
  have hi := rcoll_reach h
  constructor
  · intro nl hnl
    exact C02_prefix _ _ (hi.links nl hnl).1
  · intro hb nl hnl
    have hr := (hi.links nl hnl).1
    have hc := hi.idle hb nl hnl
    refine ⟨LInv_of_RInv _ _ hr hc, ?_⟩
    have := (hi.links nl hnl).2
    unfold TInv at this
    rw [hc] at this
    exact this

end Toxi.Link
