import Toxi.Proofs.Lemmas.Frame
import Toxi.Proofs.Lemmas.Graceful
import Toxi.Proofs.C20
/-!
C20 at the level of a whole connection: the counters of a connection that ended gracefully.

`C20_exact` says what `link.read` / `link.write` add for one link in terms of the link's own
bookkeeping (`sent`, `delivered`).  Here that bookkeeping is tied to the execution: for a chain of
data-preserving toxics, along *every* execution of the link from its creation — any schedule of
its goroutines, any `select` choice, the peers sending, ending the stream, stopping or resuming
to read — no write ever fails and nothing is cut (`ExecG` has no such step), so once the sender
has ended its stream and the link has come to rest, the received-bytes counter and the
sent-bytes counter of its labels have both grown by exactly the number of bytes the sender
sent: every byte received is accounted as sent, once.
-/
namespace Toxi.Link
open Toxi.Toxic Toxi.Stream Toxi.Conn

/-- Executions of a link whose peers behave gracefully: the goroutines move (`AnyMove`), the
sender sends more or ends its stream, the receiver stops or resumes reading. -/
inductive ExecG (chain : List TCfg) (l0 : Link) : Link → Prop
  | refl : ExecG chain l0 l0
  | move {l : Link} (now : Int) (busy : Bool) (l' : Link) :
      ExecG chain l0 l → l.AnyMove chain now busy l' → ExecG chain l0 l'
  | env {l : Link} (q : List Bytes) (eof ready : Bool) :
      ExecG chain l0 l → ExecG chain l0 { l with srcQ := q, srcEOF := eof, sinkReady := ready }

theorem ginv_exec (chain : List TCfg) (now0 : Int) (hsafe : ∀ t ∈ chain, Safe (effective t.cfg t.active))
    {l : Link} (h : ExecG chain (Link.new chain now0) l) :
    (∃ j, GInv l j) ∧ l.sinkErr = false ∧ l.srcCut = false := by
  induction h with
  | refl => exact ⟨⟨0, GInv_new chain now0 hsafe⟩, rfl, rfl⟩
  | move now busy l' _ hm ih =>
    obtain ⟨⟨j, hj⟩, he, hc⟩ := ih
    obtain ⟨j', _, hj'⟩ := C15_anymove_graceful _ chain now busy l' j hj hm
    obtain ⟨henv, _, herr⟩ := frame_anymove _ chain now busy l' hm
    refine ⟨⟨j', hj'⟩, ?_, ?_⟩
    · rcases herr with h' | h'
      · rw [h']; exact he
      · rw [hj.nofail] at h'; cases h'
    · have : l'.srcCut = _ := congrArg (fun x => x.2.2.2.1) henv
      rw [this]; exact hc
  | env q eof ready _ ih =>
    obtain ⟨⟨j, hj⟩, he, hc⟩ := ih
    exact ⟨⟨j, GInv_env _ j hj q eof ready⟩, he, hc⟩

/-- **C20 (a gracefully ended connection is counted exactly, once, on both counters).** -/
theorem C20_graceful_exact (chain : List TCfg) (now0 : Int) (hsafe : ∀ t ∈ chain, Safe (effective t.cfg t.active))
    {l : Link} (h : ExecG chain (Link.new chain now0) l)
    (now : Int) (hq : l.move chain now = none) (hq0 : l.srcQ = []) (heof : l.srcEOF = true) (hready : l.sinkReady = true)
    (hnt : ∀ s ∈ l.stages, s.pc.timer = none) (hne : l.stages ≠ [])
    (w : World) (pn : String) (k : Labels) (name : String) (dir : Dir)
    (hR : w.countedR.contains (pn, name) = false) (hS : w.countedS.contains (pn, name) = false) :
    (w.countLink pn k ⟨name, dir, l⟩).received = addCtr2 w.received k l.sent.length l.sent.length ∧
    (w.countLink pn k ⟨name, dir, l⟩).sent = addCtr w.sent k l.sent.length := by
  obtain ⟨⟨j, hj⟩, herr, hcut⟩ := ginv_exec chain now0 hsafe h
  obtain ⟨hds, hsd, _, hdc, _, _, _⟩ := C15_graceful_end l chain now j hj hq hq0 heof hready hnt hne
  obtain ⟨hRx, _, _, hRs, _⟩ := C20_exact w pn k ⟨name, dir, l⟩ hR hS
  have hS' : (w.countR pn k ⟨name, dir, l⟩).countedS.contains (pn, name) = false := by
    unfold World.countR; split <;> exact hS
  have hSx : (nl : NLink) → nl = ⟨name, dir, l⟩ →
      ((w.countR pn k nl).countS pn k nl).sent = addCtr (w.countR pn k nl).sent k nl.l.delivered.length ∧
      ((w.countR pn k nl).countS pn k nl).received = (w.countR pn k nl).received := by
    intro nl hnl
    subst hnl
    have hm : ¬ (pn, name) ∈ (w.countR pn k ⟨name, dir, l⟩).countedS := by
      intro hc; have := List.elem_eq_true_of_mem hc; simp only [List.contains] at hS'; rw [hS'] at this; cases this
    unfold World.countS
    simp [hdc, herr, hm]
  obtain ⟨hSs, hSr⟩ := hSx _ rfl
  unfold World.countLink
  constructor
  · rw [hSr]; exact hRx hsd hcut
  · rw [hSs, hRs, hds]

/-! ### A concrete execution (non-vacuity) -/

/-- Run the link's goroutines at clock `now` until none can move. -/
def runQ (chain : List TCfg) (now : Int) : Nat → Link → Link
  | 0, l => l
  | n + 1, l =>
    match l.move chain now with
    | some l' => runQ chain now n l'
    | none => l

theorem ExecG.runQ {chain : List TCfg} {l0 : Link} (now : Int) :
    ∀ (n : Nat) (l : Link), ExecG chain l0 l → ExecG chain l0 (Toxi.Link.runQ chain now n l) := by
  intro n
  induction n with
  | zero => intro l he; exact he
  | succ n ih =>
    intro l he
    simp only [Toxi.Link.runQ]
    split
    · rename_i l1 hm
      exact ih l1 (ExecG.move now false l1 he (anyMove_of_move l chain now false l1 hm))
    · exact he

namespace ExC
/-- noop → latency(5 ms): three bytes in two chunks are sent, the sender ends its stream, time
passes; the link comes to rest; both counters of its labels grow by 3. -/
def tLat : TCfg := ⟨"l", .latency 5 0, true, 1024, false⟩
def c0 : List TCfg := [TCfg.noop, tLat]
def l0 : Link := Link.new c0 0
def y1 : Link := { l0 with srcQ := [[1, 2], [3]], srcEOF := true, sinkReady := true }
def y2 : Link := runQ c0 0 64 y1
def y3 : Link := runQ c0 (10 * ms) 64 y2

theorem safe0 : ∀ t ∈ c0, Safe (effective t.cfg t.active) := by
  intro t ht
  simp only [c0, List.mem_cons, List.not_mem_nil, or_false] at ht
  rcases ht with rfl | rfl <;> simp [effective, Safe, TCfg.noop, tLat]

theorem exec3 : ExecG c0 l0 y3 :=
  ExecG.runQ (10 * ms) 64 _ (ExecG.runQ 0 64 _ (ExecG.env [[1, 2], [3]] true true ExecG.refl))

def lab : Labels := ⟨"upstream", "p", "a:1", "u:1"⟩

example : (({} : World).countLink "p" lab ⟨"c1", .up, y3⟩).received = [(lab, 3, 3)] ∧
    (({} : World).countLink "p" lab ⟨"c1", .up, y3⟩).sent = [(lab, 3)] := by
  have hrest : (y3.move c0 (10 * ms)).isNone = true ∧ y3.srcQ = [] ∧ y3.srcEOF = true ∧ y3.sinkReady = true ∧
      (y3.stages.all fun s => s.pc.timer == none) = true ∧ y3.stages ≠ [] ∧ y3.sent.length = 3 := by decide
  obtain ⟨hq, hq0, heof, hready, hnt, hne, hlen⟩ := hrest
  have := C20_graceful_exact c0 0 safe0 exec3 (10 * ms) (by simpa using hq) hq0 heof hready
    (by
      intro s hs
      have := (List.all_eq_true.mp hnt) s hs
      simpa using this) hne {} "p" lab "c1" .up rfl rfl
  rw [hlen] at this
  exact this
end ExC

end Toxi.Link
