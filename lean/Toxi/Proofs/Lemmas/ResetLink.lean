import Toxi.Proofs.Lemmas.Aligned
/-!
# C17 — after a reset an established connection runs no toxic

`ResetToxics` removes the toxics of a direction one after the other (`RemoveToxic` on every
link).  For every execution of a link from its creation — any toxics, any earlier history of add /
update / remove, any traffic, any schedule — once the removals have brought the listed chain
down to its hidden first entry (the noop stage every link starts with) and no call is in
progress, the link runs exactly that one stage: the configuration of a connection made on a
proxy that never had a toxic.  That the stream then passes unchanged is `C02_exec` for that chain.
-/
namespace Toxi.Link
open Toxi.Toxic Toxi.Stream

theorem C17_reset_link (chain0 : List TCfg) (now0 : Int) (hsafe : ∀ t ∈ chain0, SafeT t) {chain : List TCfg} {l : Link}
    (h : Exec chain0 (Link.new chain0 now0) chain l) (hreset : chain.length = 1) (hc : l.ctl = none) :
    l.stages.length = 1 ∧ l.stages.map (·.t) = chain ∧
    l.stages.map (·.t) = (Link.new chain now0).stages.map (·.t) := by
  have h1 := (C04_exec chain0 now0 hsafe h).2 hc
  refine ⟨?_, h1.1, h1.2⟩
  have : (l.stages.map (·.t)).length = 1 := by rw [h1.1]; exact hreset
  simpa using this

end Toxi.Link
