import Toxi.Model.Stream

/-! Helper lemmas for C18 (the property theorems are in `Proofs/C18.lean`). -/
namespace Toxi.Stream

/-- No write or close after a close (Go: both panic). -/
def WF : List Op → Bool
  | [] => true
  | .close :: ops => ops.all (fun o => match o with | .read .. => true | _ => false)
  | _ :: ops => WF ops

/-- State invariant: once the reader has seen end-of-stream the writer is closed and the
channel is drained. -/
def Pipe.Inv (p : Pipe) : Prop := p.r.buf = none → p.wclosed = true ∧ p.queue = []

theorem take_short {α} (b : List α) (m : Nat) (h : (b.take m).length ≠ m) :
    b.take m = b ∧ b.drop m = [] := by
  have hl : b.length < m := by
    rw [List.length_take] at h; omega
  exact ⟨List.take_of_length_le (by omega), List.drop_eq_nil_of_le (by omega)⟩

/-- The three ways a read of the repaired reader can go, with the buffer facts each
implies (everything else about `read` is derived from this). -/
theorem read_cases (b : Bytes) (m : Nat) (a : Avail) :
    (m ≤ b.length ∧ readV .fixed ⟨some b⟩ m a = ⟨⟨some (b.drop m)⟩, b.take m, .ok, false⟩) ∨
    (b.length < m ∧ b ≠ [] ∧ readV .fixed ⟨some b⟩ m a =
        match a with
        | .chunk d => ⟨⟨some (d.drop (m - b.length))⟩, b ++ d.take (m - b.length), .ok, true⟩
        | .closed  => ⟨⟨none⟩, b, .ok, true⟩
        | _        => ⟨⟨some []⟩, b, .ok, false⟩) ∨
    (0 < m ∧ b = [] ∧ readV .fixed ⟨some b⟩ m a =
        match a with
        | .chunk d => ⟨⟨some (d.drop m)⟩, d.take m, .ok, true⟩
        | .closed  => ⟨⟨none⟩, [], .eof, true⟩
        | .intr    => ⟨⟨some []⟩, [], .interrupted, false⟩
        | .empty   => ⟨⟨some b⟩, [], .blocked, false⟩) := by
  by_cases h1 : m ≤ b.length
  · left
    refine ⟨h1, ?_⟩
    have : (b.take m).length = m := by rw [List.length_take]; omega
    simp [readV, earlyReturn, this]
  · have hlt : b.length < m := by omega
    have ht : b.take m = b := List.take_of_length_le (by omega)
    have hd : b.drop m = [] := List.drop_eq_nil_of_le (by omega)
    right
    by_cases hb : b = []
    · right
      subst hb
      refine ⟨by simpa using hlt, rfl, ?_⟩
      have : ¬ (0 = m) := by simp at hlt; omega
      cases a <;> simp [readV, earlyReturn, this]
    · left
      refine ⟨hlt, hb, ?_⟩
      have hne : ¬ (b.length = m) := by omega
      have hpos : 0 < b.length := List.length_pos_iff.mpr hb
      cases a <;> simp [readV, earlyReturn, ht, hd, hne, hpos]

theorem head_chunk {p : Pipe} {d : Bytes} (h : p.head = .chunk d) :
    ∃ qs, p.queue = d :: qs := by
  unfold Pipe.head at h
  split at h
  · rename_i d' qs heq; injection h with h; subst h; exact ⟨qs, heq⟩
  · split at h <;> simp at h

theorem head_closed {p : Pipe} (h : p.head = .closed) : p.queue = [] ∧ p.wclosed = true := by
  unfold Pipe.head at h
  split at h
  · simp at h
  · rename_i heq; split at h
    · rename_i hc; exact ⟨heq, hc⟩
    · simp at h

theorem avail_chunk {p : Pipe} {b s i : Bool} {d : Bytes} (h : p.avail b s i = .chunk d) :
    ∃ qs, p.queue = d :: qs := by
  unfold Pipe.avail at h
  split at h <;> split at h <;> first | exact head_chunk h | simp at h

theorem avail_closed {p : Pipe} {b s i : Bool} (h : p.avail b s i = .closed) :
    p.queue = [] ∧ p.wclosed = true := by
  unfold Pipe.avail at h
  split at h <;> split at h <;> first | exact head_closed h | simp at h

/-- One step of the repaired reader neither loses nor invents bytes. -/
theorem step_conserves (p : Pipe) (op : Op) :
    let (p', o) := p.step op
    o.out ++ p'.inflight = p.inflight ++ written [op] := by
  cases op with
  | write d => simp [Pipe.stepV, Pipe.inflight, written]
  | close => simp [Pipe.stepV, Pipe.inflight, written]
  | read m refill intr =>
    simp only [Pipe.stepV, written, List.append_nil]
    generalize hav : p.avail (p.blockingPath .fixed m) refill intr = av
    obtain ⟨q, wc, ⟨buf⟩⟩ := p
    cases buf with
    | none => simp [readV, Pipe.inflight]
    | some b =>
      simp only [readV, earlyReturn]
      by_cases hfull : (b.take m).length = m
      · simp [hfull, Pipe.inflight]
        rw [← List.append_assoc, List.take_append_drop]
      · obtain ⟨ht, hd⟩ := take_short b m hfull
        simp only [beq_iff_eq, hfull, if_false]
        by_cases hpos : 0 < (b.take m).length
        · simp only [hpos, if_true]
          cases av with
          | chunk d =>
            obtain ⟨qs, hq⟩ := avail_chunk hav
            simp only at hq; subst hq
            simp [Pipe.inflight, ht]
            rw [← List.append_assoc, List.take_append_drop]
          | closed =>
            obtain ⟨hq, _⟩ := avail_closed hav
            simp only at hq; subst hq
            simp [Pipe.inflight, ht]
          | empty => simp [Pipe.inflight, ht, hd]
          | intr => simp [Pipe.inflight, ht, hd]
        · simp only [hpos, if_false]
          have hb : b = [] := by
            have : (b.take m).length = 0 := by omega
            rw [ht] at this; exact List.eq_nil_of_length_eq_zero this
          subst hb
          cases av with
          | chunk d =>
            obtain ⟨qs, hq⟩ := avail_chunk hav
            simp only at hq; subst hq
            simp [Pipe.inflight]
            rw [← List.append_assoc, List.take_append_drop]
          | closed =>
            obtain ⟨hq, _⟩ := avail_closed hav
            simp only at hq; subst hq
            simp [Pipe.inflight]
          | empty => simp [Pipe.inflight]
          | intr => simp [Pipe.inflight]

theorem run_conserves (p : Pipe) (ops : List Op) :
    (p.run ops).2 ++ (p.run ops).1.inflight = p.inflight ++ written ops := by
  induction ops generalizing p with
  | nil => simp [Pipe.run, Pipe.runV, written]
  | cons op ops ih =>
    have h1 := step_conserves p op
    simp only at h1
    have h2 := ih (p.step op).1
    simp only [Pipe.run, Pipe.runV] at h2 ⊢
    have hw : written (op :: ops) = written [op] ++ written ops := by
      cases op <;> simp [written]
    rw [hw, List.append_assoc, h2, ← List.append_assoc, h1, List.append_assoc]

theorem run_append (v : Variant) (p : Pipe) (xs ys : List Op) :
    Pipe.runV v p (xs ++ ys) =
      ((Pipe.runV v (Pipe.runV v p xs).1 ys).1, (Pipe.runV v p xs).2 ++ (Pipe.runV v (Pipe.runV v p xs).1 ys).2) := by
  induction xs generalizing p with
  | nil => simp [Pipe.runV]
  | cons x xs ih => simp [Pipe.runV, ih]

theorem written_append (xs ys : List Op) : written (xs ++ ys) = written xs ++ written ys := by
  induction xs with
  | nil => simp [written]
  | cons x xs ih => cases x <;> simp [written, ih]

end Toxi.Stream
