import Toxi.Proofs.Lemmas.Rest
/-!
Nothing is ever duplicated, reordered or altered (C01, C02, for every toxic and every state):
whatever happens to a link — any toxics with any attribute values, toxic add / update / remove
at any moment, stubs closing themselves, the sender ending or being cut, the receiver failing,
the deliberate 5 s give-ups — what the receiving peer has got is at all times an in-order part
(a subsequence) of what the sending peer's socket has yielded.  Bytes can be *lost* (that is
what timeout, limit_data, reset_peer, a failed write, a give-up do; `Reconf.lean` shows that
nothing else loses any); they cannot be invented, repeated, swapped or changed.
-/
namespace Toxi.Toxic
open Toxi.Stream (Bytes)
open List

theorem take_drop_sub (l : Bytes) (m k : Nat) : (l.drop m).take k ++ l.drop (m + k) <+ l := by
  have h : (l.drop m).take k ++ l.drop (m + k) = l.drop m := by
    rw [← List.drop_drop, List.take_append_drop]
  rw [h]
  exact List.drop_sublist m l

/-- What `slicerSend` holds is an in-order part of the remaining bytes. -/
theorem slicerSend_sub (rest : Bytes) (base ts : Int) (offs : List (Int × Int)) :
    (slicerSend rest base ts offs).held <+ rest := by
  cases offs with
  | nil => simp [slicerSend, Pc.held]
  | cons p offs =>
    obtain ⟨a, b⟩ := p
    simp only [slicerSend, slice]
    split
    · rename_i piece hp
      split at hp
      · rename_i hc
        simp only [Option.some.injEq] at hp
        subst hp
        simp only [Pc.held, Next.held]
        have : (b - base).toNat = (a - base).toNat + (b - base - (a - base)).toNat := by omega
        rw [this]
        exact take_drop_sub rest _ _
      · cases hp
    · simp [Pc.held]

theorem bwLoop_held (v : Variant) (r : Int) (p : Chunk) (carry now : Int) : (bwLoop v r p carry now).held = p.data := by
  cases v <;> simp only [bwLoop] <;> split <;> rfl

/-- The data of the event's chunk, if it is an input. -/
def Event.data : Event → Bytes
  | .input (some c) _ _ => c.data
  | _ => []

/-- **No stub invents, repeats, swaps or alters a byte** — for every toxic, every attribute
value, every program counter and every event: what it holds afterwards is an in-order part of
what it held followed by what it received, and a completed send removes exactly the offered
chunk from the front. -/
theorem step_sub (cfg : Cfg) (active : Bool) (st : StubSt) (pc : Pc) (ev : Event) (st' : StubSt) (pc' : Pc)
    (h : step .fixed cfg active st pc ev = some (st', pc')) :
    pc'.held <+ pc.held ++ ev.data ∧
    (∀ now, ev = .taken now → ∃ c, pc.offer = some c ∧ pc.held = c.data ++ pc'.held) := by
  rw [step_effective] at h
  generalize effective cfg active = cfg' at h
  have hchunk : ∀ carry c now draws, (onChunk .fixed cfg' st carry c now draws).2.held <+ c.data := by
    intro carry c now draws
    cases cfg' with
    | noop => simp [onChunk, Pc.held, Next.held]
    | slowClose d => simp [onChunk, Pc.held, Next.held]
    | resetPeer t => simp [onChunk, Pc.held]
    | latency l j =>
      simp only [onChunk]
      split <;> simp [Pc.held, Wake.held]
    | bandwidth r => simp only [onChunk]; rw [bwLoop_held]; exact List.Sublist.refl _
    | slicer a v d =>
      simp only [onChunk]
      split
      · exact slicerSend_sub _ _ _ _
      · simp [Pc.held]
      · simp [Pc.held]
    | timeout t =>
      simp only [onChunk]
      split <;> simp [Pc.held]
    | limitData n =>
      simp only [onChunk]
      repeat' split
      all_goals simp [Pc.held, Next.held, List.take_sublist]
  cases pc with
  | ret => cases ev <;> simp [step] at h
  | crash w => cases ev <;> simp [step] at h
  | hold d =>
    cases ev <;> simp [step] at h
    obtain ⟨_, rfl⟩ := h
    exact ⟨by simp [Pc.held], fun now hh => by cases hh⟩
  | flush c d =>
    cases ev <;> simp [step] at h
    · obtain ⟨_, rfl⟩ := h
      exact ⟨by simp [Pc.held], fun now hh => by cases hh⟩
    · obtain ⟨_, rfl⟩ := h
      exact ⟨by simp [Pc.held], fun now _ => ⟨c, rfl, by simp [Pc.held]⟩⟩
  | idle carry =>
    cases ev with
    | timer now => simp [step] at h
    | taken now => simp [step] at h
    | interrupt now =>
      simp [step] at h; obtain ⟨_, rfl⟩ := h
      exact ⟨by simp [Pc.held], fun now hh => by cases hh⟩
    | input c now draws =>
      refine ⟨?_, fun now hh => by cases hh⟩
      cases c with
      | some c =>
        simp only [step, if_true, Option.some.injEq] at h
        have := hchunk carry c now draws
        rw [h] at this
        simpa [Pc.held, Event.data] using this
      | none =>
        cases cfg' <;> simp [step] at h <;> (obtain ⟨_, rfl⟩ := h) <;> simp [Pc.held, Wake.held]
  | idleT d =>
    cases ev with
    | timer now => simp [step] at h; obtain ⟨_, rfl⟩ := h; exact ⟨by simp [Pc.held], fun now hh => by cases hh⟩
    | taken now => simp [step] at h
    | interrupt now => simp [step] at h; obtain ⟨_, rfl⟩ := h; exact ⟨by simp [Pc.held], fun now hh => by cases hh⟩
    | input c now draws =>
      refine ⟨?_, fun now hh => by cases hh⟩
      cases c with
      | some c =>
        simp only [step, if_true, Option.some.injEq] at h
        have := hchunk d c now draws
        rw [h] at this
        simpa [Pc.held, Event.data] using this
      | none => simp [step] at h; obtain ⟨_, rfl⟩ := h; simp [Pc.held]
  | out c k =>
    cases ev with
    | timer now => simp [step] at h
    | interrupt now => simp [step] at h
    | input c' now draws => simp [step] at h
    | taken now =>
      simp only [step, if_true] at h
      have key : pc'.held = k.held → pc'.held <+ (Pc.out c k).held ++ (Event.taken now).data ∧
          (∀ now', Event.taken now = .taken now' → ∃ c', (Pc.out c k).offer = some c' ∧ (Pc.out c k).held = c'.data ++ pc'.held) := by
        intro hk
        refine ⟨?_, fun _ _ => ⟨c, rfl, ?_⟩⟩
        · rw [hk]
          simp only [Pc.held, Event.data, List.append_nil]
          exact List.sublist_append_right _ _
        · rw [hk]; rfl
      cases k with
      | toIdle carry => simp at h; obtain ⟨_, rfl⟩ := h; exact key (by simp [Pc.held, Next.held])
      | toRet => simp at h; obtain ⟨_, rfl⟩ := h; exact key (by simp [Pc.held, Next.held])
      | slicerGap rest offs base ts => simp at h; obtain ⟨_, rfl⟩ := h; exact key (by simp [Pc.held, Next.held, Wake.held])
      | bwLoop p carry =>
        simp at h; obtain ⟨_, rfl⟩ := h
        exact key (by rw [bwLoop_held]; rfl)
      | limitAfter n =>
        cases cfg' <;> simp at h
        all_goals try (obtain ⟨_, rfl⟩ := h; exact key (by simp [Pc.held, Next.held]))
        split at h
        · simp only [Option.some.injEq, Prod.mk.injEq] at h; obtain ⟨_, rfl⟩ := h; exact key (by simp [Pc.held, Next.held])
        · simp only [Option.some.injEq, Prod.mk.injEq] at h; obtain ⟨_, rfl⟩ := h; exact key (by simp [Pc.held, Next.held])
  | nap d w =>
    refine ⟨?_, fun now hh => by subst hh; cases w <;> simp [step] at h⟩
    cases ev with
    | taken now => cases w <;> simp [step] at h
    | input c' now draws => cases w <;> simp [step] at h
    | interrupt now =>
      cases w <;> simp [step] at h <;> (obtain ⟨_, rfl⟩ := h) <;> simp [Pc.held, Next.held, Wake.held, Event.data]
    | timer now =>
      cases w with
      | latency c sl dl => simp [step] at h; obtain ⟨_, rfl⟩ := h; simp [Pc.held, Next.held, Wake.held, Event.data]
      | bwFinal p carry start => simp [step] at h; obtain ⟨_, rfl⟩ := h; simp [Pc.held, Next.held, Wake.held, Event.data]
      | slowClose => simp [step] at h; obtain ⟨_, rfl⟩ := h; simp [Pc.held, Wake.held, Event.data]
      | slicerGap rest offs base ts =>
        simp [step] at h; obtain ⟨_, rfl⟩ := h
        simpa [Pc.held, Wake.held, Event.data] using slicerSend_sub rest base ts offs
      | bwInstal p carry =>
        cases cfg' with
        | bandwidth r =>
          simp only [step, if_true] at h
          generalize wrap64 (r * 100) = kk at h
          split at h
          · rename_i piece rest h1 h2
            simp only [Option.some.injEq, Prod.mk.injEq] at h
            obtain ⟨_, rfl⟩ := h
            simp only [Pc.held, Next.held, Wake.held, Event.data, List.append_nil]
            -- piece = p.data[0:k], rest = p.data[k:len]
            unfold slice at h1 h2
            split at h1
            · split at h2
              · simp only [Option.some.injEq] at h1 h2
                subst h1; subst h2
                rename_i hc1 hc2
                have e1 : (List.drop (0 : Int).toNat p.data) = p.data := by simp
                rw [e1]
                have e3 : (kk - 0).toNat = kk.toNat := by simp
                rw [e3]
                have e4 : (List.drop kk.toNat p.data).take ((p.data.length : Int) - kk).toNat =
                    List.drop kk.toNat p.data := by
                  apply List.take_of_length_le
                  simp only [List.length_drop]; omega
                rw [e4, List.take_append_drop]
                exact List.Sublist.refl _
              · cases h2
            · cases h1
          · simp only [Option.some.injEq, Prod.mk.injEq] at h; obtain ⟨_, rfl⟩ := h; simp [Pc.held]
        | _ => simp [step] at h; obtain ⟨_, rfl⟩ := h; simp [Pc.held, Next.held, Wake.held, Event.data]

end Toxi.Toxic

namespace Toxi.Link
open Toxi.Toxic Toxi.Stream
open List

/-! ### Stubs -/

/-- What a stub holds after any event is an in-order part of what it held followed by what the
event brought; its input buffer and interrupt bookkeeping are untouched. -/
theorem fire_sub (s : Stage) (ev : Event) :
    (s.fire ev).pc.held <+ s.pc.held ++ ev.data ∧ (s.fire ev).inq = s.inq ∧ (s.fire ev).intr = s.intr := by
  unfold Stage.fire
  cases h : step .fixed s.t.cfg s.t.active s.st s.pc ev with
  | none => exact ⟨by simp [Pc.held], rfl, rfl⟩
  | some r =>
    obtain ⟨st', pc'⟩ := r
    exact ⟨(step_sub _ _ _ _ _ _ _ h).1, rfl, rfl⟩

/-- A completed send removes exactly the offered chunk from the front of what the stub holds. -/
theorem fire_taken_eq (s : Stage) (now : Int) (c : Chunk) (ho : s.pc.offer = some c) :
    s.pc.held = c.data ++ (s.fire (.taken now)).pc.held := by
  unfold Stage.fire
  cases h : step .fixed s.t.cfg s.t.active s.st s.pc (.taken now) with
  | none =>
    -- `taken` is always receivable where a chunk is offered
    exfalso
    rw [step_effective] at h
    cases hpc : s.pc with
    | out c' k =>
      rw [hpc] at h
      cases k with
      | limitAfter n => cases hc : effective s.t.cfg s.t.active <;> simp [step, hc] at h <;> (split at h <;> cases h)
      | _ => simp [step] at h
    | flush c' d => rw [hpc] at h; simp [step] at h
    | _ => rw [hpc] at ho; simp [Pc.offer] at ho
  | some r =>
    obtain ⟨st', pc'⟩ := r
    obtain ⟨c', hc', heq⟩ := (step_sub _ _ _ _ _ _ _ h).2 now rfl
    rw [ho] at hc'
    cases hc'
    exact heq

/-- A stub whose `Pipe` has returned (or panicked) stays so whatever is fired at it. -/
theorem fire_not_running (s : Stage) (ev : Event) (h : s.pc.running = false) : (s.fire ev).pc.running = false := by
  unfold Stage.fire
  cases hpc : s.pc with
  | ret => cases ev <;> simp [step, Pc.running]
  | crash w => cases ev <;> simp [step, Pc.running]
  | _ => rw [hpc] at h; simp [Pc.running] at h

/-- … and nothing else of it changes either. -/
theorem fire_idle_same (s : Stage) (ev : Event) (h : s.pc.running = false) :
    (s.fire ev).inq = s.inq ∧ (s.fire ev).st.closed = s.st.closed := by
  unfold Stage.fire
  cases hpc : s.pc with
  | ret => cases ev <;> simp [step]
  | crash w => cases ev <;> simp [step]
  | _ => rw [hpc] at h; simp [Pc.running] at h

theorem bytes_sub_of (s s' : Stage) (x : Bytes) (hh : s'.pc.held <+ s.pc.held ++ x) (hq : s'.inq = s.inq) (hx : x = []) :
    s'.bytes <+ s.bytes := by
  subst hx
  simp only [Stage.bytes, hq]
  simp only [List.append_nil] at hh
  exact List.Sublist.append hh (List.Sublist.refl _)


theorem held_of_not_running (pc : Pc) (h : pc.running = false) : pc.held = [] := by
  cases pc <;> simp [Pc.running] at h <;> simp [Pc.held]

/-! ### Chains -/

theorem chain_sub (a b : List Stage) (hlen : b.length = a.length)
    (h : ∀ (k : Nat) (x y : Stage), a[k]? = some x → b[k]? = some y → y.bytes <+ x.bytes) : chainBytes b <+ chainBytes a := by
  induction a generalizing b with
  | nil =>
    have : b = [] := List.eq_nil_of_length_eq_zero (by simpa using hlen)
    subst this; exact List.Sublist.refl _
  | cons x a ih =>
    cases b with
    | nil => simp at hlen
    | cons y b =>
      rw [chainBytes_cons, chainBytes_cons]
      refine List.Sublist.append (ih b (by simpa using hlen) ?_) (h 0 x y rfl rfl)
      intro k x' y' hx hy
      exact h (k + 1) x' y' (by simpa using hx) (by simpa using hy)

theorem chain_handoff_sub (ss : List Stage) (i : Nat) (a s : Stage) (ha : ss[i]? = some a) (hs : ss[i + 1]? = some s)
    (fa fs : Stage → Stage) (c : Bytes) (hab : a.bytes = c ++ (fa a).bytes) (hsb : (fs s).bytes <+ s.bytes ++ c) :
    chainBytes (modifyAt (modifyAt ss i fa) (i + 1) fs) <+ chainBytes ss := by
  obtain ⟨pre, post, hss, hlen⟩ := split_two ss i a s ha hs
  have h1 : modifyAt ss i fa = pre ++ fa a :: s :: post := by
    rw [hss, ← hlen]; exact modifyAt_mid pre (s :: post) a fa
  have h2 : modifyAt (pre ++ fa a :: s :: post) (i + 1) fs = pre ++ fa a :: fs s :: post := by
    have : pre ++ fa a :: s :: post = (pre ++ [fa a]) ++ s :: post := by simp
    rw [this, show i + 1 = (pre ++ [fa a]).length by simp [hlen], modifyAt_mid]
    simp
  rw [h1, h2, chainBytes_append, chainBytes_cons, chainBytes_cons]
  conv => rhs; rw [hss, chainBytes_append, chainBytes_cons, chainBytes_cons, hab]
  refine List.Sublist.append ?_ (List.Sublist.refl _)
  rw [List.append_assoc, List.append_assoc]
  refine List.Sublist.append (List.Sublist.refl _) ?_
  rw [← List.append_assoc]
  exact List.Sublist.append hsb (List.Sublist.refl _)

theorem chain_erase_sub (ss : List Stage) (idx : Nat) : chainBytes (ss.eraseIdx idx) <+ chainBytes ss := by
  cases hx : ss[idx]? with
  | none =>
    rw [List.getElem?_eq_none_iff] at hx
    rw [List.eraseIdx_of_length_le hx]
    exact List.Sublist.refl _
  | some x =>
    obtain ⟨pre, post, hss, hlen⟩ := split_one ss idx x hx
    have : ss.eraseIdx idx = pre ++ post := by
      rw [hss, List.eraseIdx_append_of_length_le (by omega), ← hlen]
      simp
    rw [this, chainBytes_append]
    conv => rhs; rw [hss, chainBytes_append, chainBytes_cons]
    exact List.Sublist.append (List.sublist_append_left _ _) (List.Sublist.refl _)

/-! ### The structural facts the ordering argument needs -/

structure WInv (l : Link) : Prop where
  /-- a stub that `AddToxic` has appended but not wired in yet is not running and is empty -/
  fresh   : l.detached = true → (∃ t, l.ctl = some (.addWait t)) ∧
              ∀ a, l.stages[l.stages.length - 1]? = some a →
                a.pc.running = false ∧ a.inq = [] ∧ a.st.closed = false
  /-- the stub the `RemoveToxic` controller drains by hand has returned from `Pipe` -/
  drained : ∀ i, l.ctlDrains i = true → ∀ a, l.stages[i]? = some a → a.pc.running = false
  /-- `InterruptToxic` reports success only after `Pipe` has returned -/
  doneRet : ∀ s ∈ l.stages, s.intr = .done true → s.pc.running = false

/-- What the receiving peer has got, followed by everything in flight, oldest first. -/
def Link.content (l : Link) : Bytes := l.delivered ++ l.inflightR

/-- The ordering invariant: delivered and in-flight bytes are, in this order, an in-order part of
what the source has yielded. -/
def J (l : Link) : Prop := l.content <+ l.sent

theorem J_prefix_part (l : Link) (h : J l) : l.delivered <+ l.sent :=
  (List.sublist_append_left _ _).trans h

@[simp] theorem ctlDrains_clear (l : Link) (i : Nat) :
    Link.ctlDrains { l with ctl := l.ctl.map clearTmp } i = l.ctlDrains i := by
  unfold Link.ctlDrains
  cases hc : l.ctl with
  | none => rfl
  | some x => cases x <;> rfl


theorem ctlDrains_of (l l' : Link) (hc : l'.ctl = l.ctl ∨ l'.ctl = l.ctl.map clearTmp) (i : Nat) :
    l'.ctlDrains i = l.ctlDrains i := by
  rcases hc with h | h
  · unfold Link.ctlDrains; rw [h]
  · unfold Link.ctlDrains; rw [h]
    cases hx : l.ctl with
    | none => rfl
    | some x => cases x <;> rfl

theorem addWait_of (l l' : Link) (hc : l'.ctl = l.ctl ∨ l'.ctl = l.ctl.map clearTmp) (t : TCfg)
    (h : l.ctl = some (.addWait t)) : l'.ctl = some (.addWait t) := by
  rcases hc with h' | h' <;> rw [h', h] <;> rfl

/-- `WInv` survives a change of one stub that leaves a returned stub returned, does not touch the
buffer or the closed flag of a not-yet-wired stub, and reports an interrupt as done only once
`Pipe` has returned. -/
theorem w_modify (l l' : Link) (hw : WInv l) (i : Nat) (g : Stage → Stage)
    (hs : l'.stages = modifyAt l.stages i g) (hd : l'.detached = l.detached)
    (hc : l'.ctl = l.ctl ∨ l'.ctl = l.ctl.map clearTmp)
    (hrun : ∀ s, l.stages[i]? = some s → s.pc.running = false → (g s).pc.running = false)
    (hfr : l.detached = true → i + 1 = l.stages.length → ∀ s, l.stages[i]? = some s → s.pc.running = false →
      (g s).inq = s.inq ∧ (g s).st.closed = s.st.closed)
    (hdone : ∀ s, l.stages[i]? = some s → (g s).intr = .done true → (g s).pc.running = false) : WInv l' := by
  have hlen : l'.stages.length = l.stages.length := by rw [hs, length_modifyAt]
  have hget : ∀ (k : Nat) (x : Stage), l'.stages[k]? = some x →
      (k = i ∧ ∃ s, l.stages[k]? = some s ∧ x = g s) ∨ (k ≠ i ∧ l.stages[k]? = some x) := by
    intro k x hx
    rw [hs, getElem?_modifyAt] at hx
    by_cases hk : k = i
    · subst hk
      rw [if_pos rfl] at hx
      cases h0 : l.stages[k]? with
      | none => rw [h0] at hx; cases hx
      | some s0 =>
        rw [h0] at hx
        simp only [Option.map_some, Option.some.injEq] at hx
        exact Or.inl ⟨rfl, s0, rfl, hx.symm⟩
    · rw [if_neg hk] at hx; exact Or.inr ⟨hk, hx⟩
  refine ⟨?_, ?_, ?_⟩
  · intro hdet
    rw [hd] at hdet
    obtain ⟨⟨t, ht⟩, hfresh⟩ := hw.fresh hdet
    refine ⟨⟨t, addWait_of l l' hc t ht⟩, ?_⟩
    intro a ha
    rw [hlen] at ha
    rcases hget _ a ha with ⟨hk, s0, hs0, rfl⟩ | ⟨_, hs0⟩
    · obtain ⟨h1, h2, h3⟩ := hfresh s0 hs0
      have hi1 : i + 1 = l.stages.length := by
        have : l.stages.length - 1 < l.stages.length := by
          rcases Nat.lt_or_ge (l.stages.length - 1) l.stages.length with h | h
          · exact h
          · rw [List.getElem?_eq_none h] at hs0; cases hs0
        omega
      obtain ⟨e1, e2⟩ := hfr hdet hi1 s0 (by rw [← hk]; exact hs0) h1
      exact ⟨hrun s0 (by rw [← hk]; exact hs0) h1, by rw [e1]; exact h2, by rw [e2]; exact h3⟩
    · exact hfresh a hs0
  · intro k hk a ha
    rw [ctlDrains_of l l' hc] at hk
    rcases hget k a ha with ⟨hki, s0, hs0, rfl⟩ | ⟨_, hs0⟩
    · exact hrun s0 (by rw [← hki]; exact hs0) (hw.drained k hk s0 hs0)
    · exact hw.drained k hk a hs0
  · intro x hx hdn
    obtain ⟨k, hk, hgetk⟩ := List.getElem_of_mem hx
    rcases hget k x (by rw [List.getElem?_eq_getElem hk, hgetk]) with ⟨hki, s0, hs0, rfl⟩ | ⟨_, hs0⟩
    · exact hdone s0 (by rw [← hki]; exact hs0) hdn
    · exact hw.doneRet x (List.mem_of_getElem? hs0) hdn

theorem w_fields (l l' : Link) (hw : WInv l) (hs : l'.stages = l.stages) (hd : l'.detached = l.detached)
    (hc : l'.ctl = l.ctl ∨ l'.ctl = l.ctl.map clearTmp) : WInv l' := by
  refine w_modify l l' hw l.stages.length id ?_ hd hc (fun _ _ h => h) (fun _ _ _ _ _ => ⟨rfl, rfl⟩) ?_
  · rw [hs]
    apply List.ext_getElem?
    intro k
    rw [getElem?_modifyAt]
    by_cases hk : k = l.stages.length
    · subst hk; simp
    · simp [hk]
  · intro s hs'
    rw [List.getElem?_eq_none (Nat.le_refl _)] at hs'; cases hs'

/-- The stub that gives a chunk away (`fire taken`). -/
theorem w_ack (l : Link) (hw : WInv l) (i : Nat) (now : Int) : WInv (l.ackUpstream i now) := by
  unfold Link.ackUpstream
  split
  · exact w_fields l _ hw rfl rfl (Or.inl rfl)
  · split
    · split
      · rename_i hc; exact w_fields l _ hw rfl rfl (Or.inr (by simp [hc, clearTmp]))
      · rename_i hc; exact w_fields l _ hw rfl rfl (Or.inr (by simp [hc, clearTmp]))
      · exact hw
    · refine w_modify l _ hw (i - 1) _ rfl rfl (Or.inl rfl) (fun s _ h => fire_not_running s _ h) ?_ ?_
      · intro _ _ s _ hnr
        exact fire_idle_same s _ hnr
      · intro s hs hdn
        have := (fire_sub s (.taken now)).2.2
        rw [this] at hdn
        exact fire_not_running s _ (hw.doneRet s (List.mem_of_getElem? hs) hdn)


/-! ### Changes of one or two adjacent stubs -/

theorem cb_one (a b : List Stage) (hlen : b.length = a.length) (i : Nat)
    (h : ∀ k : Nat, k ≠ i → b[k]? = a[k]?)
    (hi : ∀ x y : Stage, a[i]? = some x → b[i]? = some y → y.bytes <+ x.bytes) : chainBytes b <+ chainBytes a := by
  apply chain_sub a b hlen
  intro k x y hx hy
  by_cases hk : k = i
  · subst hk; exact hi x y hx hy
  · rw [h k hk, hx] at hy; cases hy; exact List.Sublist.refl _

theorem eq_modify_two (a b : List Stage) (hlen : b.length = a.length) (i : Nat)
    (h : ∀ k : Nat, k ≠ i → k ≠ i + 1 → b[k]? = a[k]?) (x' y' : Stage)
    (hx' : b[i]? = some x') (hy' : b[i + 1]? = some y') :
    b = modifyAt (modifyAt a i fun _ => x') (i + 1) fun _ => y' := by
  apply List.ext_getElem?
  intro k
  rw [getElem?_modifyAt, getElem?_modifyAt]
  have hlt : i + 1 < a.length := by
    rcases Nat.lt_or_ge (i + 1) b.length with h' | h'
    · omega
    · rw [List.getElem?_eq_none h'] at hy'; cases hy'
  by_cases hk1 : k = i + 1
  · subst hk1
    rw [if_pos rfl, if_neg (by omega), hy', List.getElem?_eq_getElem hlt]; rfl
  · rw [if_neg hk1]
    by_cases hk : k = i
    · subst hk
      rw [if_pos rfl, hx', List.getElem?_eq_getElem (by omega)]; rfl
    · rw [if_neg hk]; exact h k hk hk1

theorem cb_two (a b : List Stage) (hlen : b.length = a.length) (i : Nat)
    (h : ∀ k : Nat, k ≠ i → k ≠ i + 1 → b[k]? = a[k]?) (x y x' y' : Stage)
    (hx : a[i]? = some x) (hy : a[i + 1]? = some y) (hx' : b[i]? = some x') (hy' : b[i + 1]? = some y')
    (c : Bytes) (hab : x.bytes = c ++ x'.bytes) (hsb : y'.bytes <+ y.bytes ++ c) : chainBytes b <+ chainBytes a := by
  rw [eq_modify_two a b hlen i h x' y' hx' hy']
  exact chain_handoff_sub a i x y hx hy _ _ c hab hsb

theorem eq_modify_one (a b : List Stage) (hlen : b.length = a.length) (i : Nat)
    (h : ∀ k : Nat, k ≠ i → b[k]? = a[k]?) (x' : Stage) (hx' : b[i]? = some x') :
    b = modifyAt a i fun _ => x' := by
  apply List.ext_getElem?
  intro k
  rw [getElem?_modifyAt]
  have hlt : i < a.length := by
    rcases Nat.lt_or_ge i b.length with h' | h'
    · omega
    · rw [List.getElem?_eq_none h'] at hx'; cases hx'
  by_cases hk : k = i
  · subst hk
    rw [if_pos rfl, hx', List.getElem?_eq_getElem hlt]; rfl
  · rw [if_neg hk]; exact h k hk

/-- The stub that feeds the sink gives its oldest bytes away. -/
theorem cb_front (a b : List Stage) (hlen : b.length = a.length) (i : Nat)
    (h : ∀ k : Nat, k ≠ i → b[k]? = a[k]?) (x x' : Stage) (hx : a[i]? = some x) (hx' : b[i]? = some x')
    (hpost : ∀ (k : Nat) (z : Stage), a[k]? = some z → i < k → z.bytes = [])
    (c : Bytes) (hab : x.bytes = c ++ x'.bytes) : chainBytes a = c ++ chainBytes b := by
  rw [eq_modify_one a b hlen i h x' hx']
  exact chain_take_front a i x hx hpost _ c hab

/-- The first stub receives from the source goroutine. -/
theorem cb_first (a b : List Stage) (hlen : b.length = a.length)
    (h : ∀ k : Nat, k ≠ 0 → b[k]? = a[k]?) (y y' : Stage) (hy : a[0]? = some y) (hy' : b[0]? = some y')
    (c : Bytes) (hsb : y'.bytes <+ y.bytes ++ c) : chainBytes b <+ chainBytes a ++ c := by
  rw [eq_modify_one a b hlen 0 h y' hy']
  obtain ⟨pre, post, hss, hl⟩ := split_one a 0 y hy
  have hpre : pre = [] := List.eq_nil_of_length_eq_zero hl
  subst hpre
  simp only [List.nil_append] at hss
  have hmod : modifyAt a 0 (fun _ => y') = y' :: post := by
    rw [hss]; exact modifyAt_mid [] post y _
  rw [hmod, chainBytes_cons, hss, chainBytes_cons, List.append_assoc]
  exact List.Sublist.append (List.Sublist.refl _) hsb


/-! ### Moves -/

theorem content_eq (l : Link) :
    l.content = l.delivered ++ ((l.sinkPend.getD []) ++ chainBytes l.virt ++ ((l.srcPend.map (·.data)).getD [])) := rfl

/-- A chunk is handed to stub `i` (its buffer or its `Pipe`) by the source goroutine, by the
`Pipe` of stub `i-1`, or by the controller draining stub `i-1`: nothing is reordered. -/
theorem o_handoff (l : Link) (hw : WInv l) (i : Nat) (now : Int) (s : Stage) (hs : l.stages[i]? = some s)
    (c : Chunk) (hoff : l.offerTo i = some c) (g : Stage → Stage)
    (hb : (ghostOf (tmpOf l.ctl) i (g s)).bytes <+ (ghostOf (tmpOf l.ctl) i s).bytes ++ c.data) :
    Link.content { (l.ackUpstream i now) with stages := modifyAt (l.ackUpstream i now).stages i g } <+ l.content := by
  have hvs : l.virt[i]? = some (ghostOf (tmpOf l.ctl) i s) := by rw [virt_get, hs]; rfl
  by_cases h0 : i = 0
  · subst h0
    have hsp : l.srcPend = some c := by simpa [Link.offerTo] using hoff
    have hack : l.ackUpstream 0 now = { l with srcPend := none } := by simp [Link.ackUpstream]
    rw [hack]
    simp only [content_eq, hsp, Option.map_some, Option.getD_some, Option.map_none, Option.getD_none, List.append_nil]
    refine List.Sublist.append (List.Sublist.refl _) ?_
    rw [List.append_assoc]
    refine List.Sublist.append (List.Sublist.refl _) ?_
    refine cb_first l.virt _ (by simp [virt_length, length_modifyAt]) ?_ _ (ghostOf (tmpOf l.ctl) 0 (g s)) hvs ?_ c.data hb
    · intro k hk
      simp only [virt_get, getElem?_modifyAt, if_neg hk]
    · simp only [virt_get, getElem?_modifyAt, if_pos, hs, Option.map_some]
  · have hi1 : i - 1 + 1 = i := by omega
    rcases offerTo_cases l i h0 c hoff with ⟨hnd, a, ha, hao⟩ | ⟨hd, htmp, a, ha⟩
    · rw [ackUpstream_stage l i h0 now hnd]
      have hga : ghostOf (tmpOf l.ctl) (i - 1) = id := by
        cases ht : tmpOf l.ctl with
        | none => rfl
        | some x =>
          obtain ⟨idx, c0⟩ := x
          by_cases hk : i - 1 = idx
          · subst hk
            rw [tmp_ctlDrains l _ c0 ht] at hnd; cases hnd
          · exact ghostOf_other idx c0 _ hk
      simp only [content_eq]
      refine List.Sublist.append (List.Sublist.refl _) ?_
      refine List.Sublist.append (List.Sublist.append (List.Sublist.refl _) ?_) (List.Sublist.refl _)
      have hva : l.virt[i - 1]? = some a := by rw [virt_get, ha, hga]; rfl
      have hvs' : l.virt[i - 1 + 1]? = some (ghostOf (tmpOf l.ctl) i s) := by rw [hi1]; exact hvs
      refine cb_two l.virt _ (by simp [virt_length, length_modifyAt]) (i - 1) ?_ a _ (a.fire (.taken now))
        (ghostOf (tmpOf l.ctl) i (g s)) hva hvs' ?_ ?_ c.data ?_ hb
      · intro k hk1 hk2
        rw [hi1] at hk2
        simp only [virt_get, getElem?_modifyAt, if_neg hk1, if_neg hk2]
      · simp only [virt_get, getElem?_modifyAt]
        have : ¬ (i - 1 = i) := by omega
        simp [this, ha, hga]
      · rw [hi1]
        simp only [virt_get, getElem?_modifyAt]
        have : ¬ (i = i - 1) := by omega
        simp [this, hs]
      · have := fire_taken_eq a now c hao
        simp only [Stage.bytes, this, (fire_sub a (.taken now)).2.1, List.append_assoc]
    · rw [ackUpstream_ctl l i h0 now c htmp]
      have hanr := hw.drained (i - 1) hd a ha
      have hah := held_of_not_running a.pc hanr
      have hgi : ghostOf (tmpOf l.ctl) i = id := by
        rw [htmp]; exact ghostOf_other _ c i (by omega)
      simp only [content_eq]
      refine List.Sublist.append (List.Sublist.refl _) ?_
      refine List.Sublist.append (List.Sublist.append (List.Sublist.refl _) ?_) (List.Sublist.refl _)
      have hva : l.virt[i - 1]? = some (ghost c a) := by rw [virt_get, ha, htmp, ghostOf_self]; rfl
      have hvs' : l.virt[i - 1 + 1]? = some s := by rw [hi1, hvs, hgi]; rfl
      rw [hgi] at hb
      refine cb_two l.virt _ (by simp [virt_length, length_modifyAt]) (i - 1) ?_ (ghost c a) s a (g s) hva hvs' ?_ ?_ c.data ?_ hb
      · intro k hk1 hk2
        rw [hi1] at hk2
        simp only [virt_get, getElem?_modifyAt, if_neg hk2, tmpOf_clear, ghostOf_none]
        rw [htmp, ghostOf_other _ c k hk1]
      · simp only [virt_get, getElem?_modifyAt, tmpOf_clear, ghostOf_none]
        have : ¬ (i - 1 = i) := by omega
        simp [this, ha]
      · rw [hi1]
        simp only [virt_get, getElem?_modifyAt, tmpOf_clear, ghostOf_none]
        simp [hs]
      · rw [ghost_bytes]
        simp [Stage.bytes, hah]


theorem virt_get' (l : Link) (stages : List Stage) (ctl : Option Ctl) (hs : l.stages = stages) (hc : l.ctl = ctl) (k : Nat) :
    l.virt[k]? = (stages[k]?).map (ghostOf (tmpOf ctl) k) := by
  rw [virt_get, hs, hc]

/-- One stub changes (no hand-off): what it holds may only shrink. -/
theorem o_one (l l' : Link) (i : Nat) (g : Stage → Stage) (hs : l'.stages = modifyAt l.stages i g) (hc : l'.ctl = l.ctl)
    (h1 : l'.sinkPend = l.sinkPend) (h2 : l'.srcPend = l.srcPend) (h3 : l'.delivered = l.delivered)
    (hb : ∀ s, l.stages[i]? = some s → (ghostOf (tmpOf l.ctl) i (g s)).bytes <+ (ghostOf (tmpOf l.ctl) i s).bytes) :
    l'.content <+ l.content := by
  simp only [content_eq, h1, h2, h3]
  refine List.Sublist.append (List.Sublist.refl _) ?_
  refine List.Sublist.append (List.Sublist.append (List.Sublist.refl _) ?_) (List.Sublist.refl _)
  refine cb_one l.virt l'.virt (by rw [virt_length, virt_length, hs, length_modifyAt]) i ?_ ?_
  · intro k hk
    rw [virt_get' l' _ _ hs hc, virt_get, getElem?_modifyAt, if_neg hk]
  · intro x y hx hy
    rw [virt_get] at hx
    rw [virt_get' l' _ _ hs hc, getElem?_modifyAt, if_pos rfl] at hy
    cases h0 : l.stages[i]? with
    | none => rw [h0] at hx; cases hx
    | some s0 =>
      rw [h0] at hx hy
      simp only [Option.map_some, Option.some.injEq] at hx hy
      subst hx; subst hy
      exact hb s0 h0

/-- The offered chunk is taken and dropped (a closed stub's drain, the sink's drain after a failed
write): the giver loses exactly that chunk. -/
theorem o_ack_drop (l : Link) (hw : WInv l) (i : Nat) (now : Int) (c : Chunk) (hoff : l.offerTo i = some c) :
    (l.ackUpstream i now).content <+ l.content := by
  by_cases h0 : i = 0
  · subst h0
    have hsp : l.srcPend = some c := by simpa [Link.offerTo] using hoff
    have hack : l.ackUpstream 0 now = { l with srcPend := none } := by simp [Link.ackUpstream]
    rw [hack]
    simp only [content_eq, hsp, Option.map_some, Option.getD_some, Option.map_none, Option.getD_none, List.append_nil]
    refine List.Sublist.append (List.Sublist.refl _) ?_
    have : Link.virt { l with srcPend := none } = l.virt := rfl
    rw [this]
    exact List.sublist_append_left _ _
  · rcases offerTo_cases l i h0 c hoff with ⟨hnd, a, ha, hao⟩ | ⟨hd, htmp, a, ha⟩
    · rw [ackUpstream_stage l i h0 now hnd]
      refine o_one l _ (i - 1) _ rfl rfl rfl rfl rfl ?_
      intro s0 hs0
      rw [ha] at hs0; cases hs0
      have hga : ghostOf (tmpOf l.ctl) (i - 1) = id := by
        cases ht : tmpOf l.ctl with
        | none => rfl
        | some x =>
          obtain ⟨idx, c0⟩ := x
          by_cases hk : i - 1 = idx
          · subst hk
            rw [tmp_ctlDrains l _ c0 ht] at hnd; cases hnd
          · exact ghostOf_other idx c0 _ hk
      rw [hga]
      have := fire_taken_eq a now c hao
      simp only [id, Stage.bytes, this, (fire_sub a (.taken now)).2.1, List.append_assoc]
      exact List.sublist_append_right _ _
    · rw [ackUpstream_ctl l i h0 now c htmp]
      simp only [content_eq]
      refine List.Sublist.append (List.Sublist.refl _) ?_
      refine List.Sublist.append (List.Sublist.append (List.Sublist.refl _) ?_) (List.Sublist.refl _)
      have hanr := hw.drained (i - 1) hd a ha
      refine cb_one l.virt _ (by simp [virt_length]) (i - 1) ?_ ?_
      · intro k hk
        simp only [virt_get, tmpOf_clear, ghostOf_none]
        rw [htmp, ghostOf_other _ c k hk]
      · intro x y hx hy
        simp only [virt_get, tmpOf_clear, ghostOf_none, ha, Option.map_some, id, Option.some.injEq] at hy
        rw [virt_get, ha, htmp, ghostOf_self] at hx
        simp only [Option.map_some, Option.some.injEq] at hx
        subst hx; subst hy
        rw [ghost_bytes]
        simp only [Stage.bytes, held_of_not_running a.pc hanr, List.nil_append]
        exact List.sublist_append_right _ _


/-- Both invariants together. -/
def OInv (l : Link) : Prop := WInv l ∧ J l

theorem j_shrink {l l' : Link} (hj : J l) (hc : l'.content <+ l.content) (hs : l'.sent = l.sent) : J l' := by
  unfold J; rw [hs]; exact hc.trans hj

theorem ack_detached (l : Link) (i : Nat) (now : Int) : (l.ackUpstream i now).detached = l.detached := by
  unfold Link.ackUpstream; repeat' split
  all_goals rfl

theorem ack_length (l : Link) (i : Nat) (now : Int) : (l.ackUpstream i now).stages.length = l.stages.length := by
  unfold Link.ackUpstream; repeat' split
  all_goals first | rfl | simp [length_modifyAt]

theorem ack_sent (l : Link) (i : Nat) (now : Int) : (l.ackUpstream i now).sent = l.sent := by
  unfold Link.ackUpstream; repeat' split
  all_goals rfl

theorem ack_ctl (l : Link) (i : Nat) (now : Int) :
    (l.ackUpstream i now).ctl = l.ctl ∨ (l.ackUpstream i now).ctl = l.ctl.map clearTmp := by
  unfold Link.ackUpstream
  split
  · exact Or.inl rfl
  · split
    · split
      · rename_i hc; exact Or.inr (by simp [hc, clearTmp])
      · rename_i hc; exact Or.inr (by simp [hc, clearTmp])
      · exact Or.inl rfl
    · exact Or.inl rfl

/-- The receiver of a hand-off is untouched by the acknowledgement to its upstream neighbour. -/
theorem ack_get_self (l : Link) (i : Nat) (now : Int) : (l.ackUpstream i now).stages[i]? = l.stages[i]? := by
  unfold Link.ackUpstream
  split
  · rfl
  · rename_i h0
    split
    · split <;> rfl
    · simp only
      rw [getElem?_modifyAt, if_neg]
      have : i ≠ 0 := by simpa using h0
      omega

theorem o_sourceMove (l : Link) (now : Int) (l' : Link) (hi : OInv l) (h : l.sourceMove now = some l') : OInv l' := by
  unfold Link.sourceMove at h
  split at h
  · rename_i hc
    have hsp : l.srcPend = none := by
      simp only [Bool.and_eq_true, Option.isNone_iff_eq_none] at hc; exact hc.1
    split at h
    · rename_i d q hq
      cases h
      refine ⟨w_fields l _ hi.1 rfl rfl (Or.inl rfl), ?_⟩
      have hj := hi.2
      unfold J at hj ⊢
      simp only [content_eq, hsp, Option.map_none, Option.getD_none, List.append_nil] at hj
      simp only [content_eq, Option.map_some, Option.getD_some]
      have hv : Link.virt { l with srcQ := q, srcPend := some ⟨d, now⟩, sent := l.sent ++ d, reads := l.reads + 1 } = l.virt := rfl
      rw [hv, ← List.append_assoc, ← List.append_assoc]
      rw [← List.append_assoc] at hj
      exact List.Sublist.append hj (List.Sublist.refl _)
    · split at h
      · cases h; exact ⟨w_fields l _ hi.1 rfl rfl (Or.inl rfl), hi.2⟩
      · cases h
  · cases h

theorem o_bufferMove (l : Link) (i : Nat) (now : Int) (l' : Link) (hi : OInv l) (h : l.bufferMove i now = some l') :
    OInv l' := by
  unfold Link.bufferMove at h
  cases hs : l.stages[i]? with
  | none => simp [hs] at h
  | some s =>
    simp only [hs] at h
    split at h
    · rename_i hcond
      cases hoff : l.offerTo i with
      | none => simp [hoff] at h
      | some c =>
        simp only [hoff, Option.some.injEq] at h
        subst h
        have hwired : (l.detached && i + 1 == l.stages.length) = false := by
          simp only [Bool.and_eq_true, Bool.not_eq_true'] at hcond; exact hcond.2
        constructor
        · refine w_modify _ _ (w_ack l hi.1 i now) i _ rfl rfl (Or.inl rfl) (fun _ _ h => h) ?_ ?_
          · intro hd hl
            rw [ack_detached] at hd
            rw [ack_length] at hl
            rw [hd] at hwired
            simp [hl] at hwired
          · intro s0 hs0 hdn
            exact (w_ack l hi.1 i now).doneRet s0 (List.mem_of_getElem? hs0) hdn
        · refine j_shrink hi.2 (o_handoff l hi.1 i now s hs c hoff _ ?_) (by simp [ack_sent])
          cases ht : tmpOf l.ctl with
          | none => simp [Stage.bytes, List.append_assoc]
          | some x =>
            obtain ⟨idx, c0⟩ := x
            by_cases hk : i = idx
            · subst hk; simp [ghostOf_self, ghost_bytes, List.append_assoc]
            · simp [ghostOf_other idx c0 i hk, Stage.bytes, List.append_assoc]
    · cases h


/-- Beyond the stub that feeds the sink there is at most the not-yet-wired stub: it holds nothing. -/
theorem w_beyond (l : Link) (hw : WInv l) (k : Nat) (z : Stage) (hz : l.virt[k]? = some z) (hk : l.wired - 1 < k)
    (hw0 : l.wired ≠ 0) : z.bytes = [] := by
  rw [virt_get] at hz
  cases hd : l.detached with
  | false =>
    have : l.wired = l.stages.length := by simp [Link.wired, hd]
    have : l.stages.length ≤ k := by omega
    rw [List.getElem?_eq_none this] at hz; cases hz
  | true =>
    have hwd : l.wired = l.stages.length - 1 := by simp [Link.wired, hd]
    obtain ⟨⟨t, ht⟩, hfresh⟩ := hw.fresh hd
    cases hs : l.stages[k]? with
    | none => rw [hs] at hz; cases hz
    | some s =>
      have hklt : k < l.stages.length := by
        rcases Nat.lt_or_ge k l.stages.length with h | h
        · exact h
        · rw [List.getElem?_eq_none h] at hs; cases hs
      have hkl : k = l.stages.length - 1 := by omega
      rw [hkl] at hs
      obtain ⟨h1, h2, _⟩ := hfresh s hs
      rw [hkl, hs, ht] at hz
      simp only [tmpOf, ghostOf_none, Option.map_some, id, Option.some.injEq] at hz
      subst hz
      simp [Stage.bytes, held_of_not_running s.pc h1, h2]

/-- The sink takes the chunk offered by the stub that feeds it: that chunk was the oldest thing in
the chain. -/
theorem o_ack_front (l : Link) (hw : WInv l) (now : Int) (c : Chunk) (hw0 : l.wired ≠ 0)
    (hoff : l.offerTo l.wired = some c) :
    chainBytes l.virt = c.data ++ chainBytes (l.ackUpstream l.wired now).virt ∧
    (l.ackUpstream l.wired now).srcPend = l.srcPend ∧ (l.ackUpstream l.wired now).delivered = l.delivered ∧
    (l.ackUpstream l.wired now).sinkPend = l.sinkPend := by
  rcases offerTo_cases l l.wired hw0 c hoff with ⟨hnd, a, ha, hao⟩ | ⟨hd, htmp, a, ha⟩
  · rw [ackUpstream_stage l l.wired hw0 now hnd]
    refine ⟨?_, rfl, rfl, rfl⟩
    have hga : ghostOf (tmpOf l.ctl) (l.wired - 1) = id := by
      cases ht : tmpOf l.ctl with
      | none => rfl
      | some x =>
        obtain ⟨idx, c0⟩ := x
        by_cases hk : l.wired - 1 = idx
        · subst hk
          rw [tmp_ctlDrains l _ c0 ht] at hnd; cases hnd
        · exact ghostOf_other idx c0 _ hk
    have hva : l.virt[l.wired - 1]? = some a := by rw [virt_get, ha, hga]; rfl
    refine cb_front l.virt _ (by simp [virt_length, length_modifyAt]) (l.wired - 1) ?_ a (a.fire (.taken now)) hva ?_
      (fun k z hz hk => w_beyond l hw k z hz hk hw0) c.data ?_
    · intro k hk
      simp only [virt_get, getElem?_modifyAt, if_neg hk]
    · simp only [virt_get, getElem?_modifyAt]
      simp [ha, hga]
    · have := fire_taken_eq a now c hao
      simp only [Stage.bytes, this, (fire_sub a (.taken now)).2.1, List.append_assoc]
  · rw [ackUpstream_ctl l l.wired hw0 now c htmp]
    refine ⟨?_, rfl, rfl, rfl⟩
    have hanr := hw.drained (l.wired - 1) hd a ha
    have hva : l.virt[l.wired - 1]? = some (ghost c a) := by rw [virt_get, ha, htmp, ghostOf_self]; rfl
    refine cb_front l.virt _ (by simp [virt_length]) (l.wired - 1) ?_ (ghost c a) a hva ?_
      (fun k z hz hk => w_beyond l hw k z hz hk hw0) c.data ?_
    · intro k hk
      simp only [virt_get, tmpOf_clear, ghostOf_none]
      rw [htmp, ghostOf_other _ c k hk]
    · simp only [virt_get, tmpOf_clear, ghostOf_none, ha, Option.map_some, id]
    · rw [ghost_bytes]
      simp [Stage.bytes, held_of_not_running a.pc hanr]

theorem o_sinkMove (l : Link) (now : Int) (l' : Link) (hi : OInv l) (h : l.sinkMove now = some l') : OInv l' := by
  unfold Link.sinkMove at h
  by_cases hdc : l.destClosed = true
  · rw [if_pos hdc] at h
    by_cases hdr : (!l.sinkDrain) = true
    · rw [if_pos hdr] at h; cases h
    · rw [if_neg hdr] at h
      simp only at h
      by_cases hz : (l.wired == 0) = true
      · rw [if_pos hz] at h; cases h
      · rw [if_neg hz] at h
        cases hoff : l.offerTo l.wired with
        | some c =>
          simp only [hoff, Option.some.injEq] at h
          subst h
          exact ⟨w_ack l hi.1 _ now, j_shrink hi.2 (o_ack_drop l hi.1 _ now c hoff) (ack_sent l _ now)⟩
        | none =>
          simp only [hoff] at h
          split at h
          · cases h; exact ⟨w_fields l _ hi.1 rfl rfl (Or.inl rfl), hi.2⟩
          · cases h
  · rw [if_neg hdc] at h
    cases hsp : l.sinkPend with
    | some d =>
      simp only [hsp] at h
      split at h
      · cases h
        refine ⟨w_fields l _ hi.1 rfl rfl (Or.inl rfl), j_shrink hi.2 ?_ rfl⟩
        simp only [content_eq, hsp, Option.getD_some, Option.getD_none, List.nil_append]
        have hv : Link.virt { l with sinkPend := none, destClosed := true, sinkErr := true, sinkDrain := true } = l.virt := rfl
        rw [hv]
        refine List.Sublist.append (List.Sublist.refl _) ?_
        rw [List.append_assoc]
        exact List.sublist_append_right _ _
      · split at h
        · cases h
          refine ⟨w_fields l _ hi.1 rfl rfl (Or.inl rfl), j_shrink hi.2 ?_ rfl⟩
          simp only [content_eq, hsp, Option.getD_some, Option.getD_none, List.nil_append]
          have hv : Link.virt { l with sinkPend := none, log := ⟨now, d⟩ :: l.log, delivered := l.delivered ++ d } = l.virt := rfl
          rw [hv]
          simp only [List.append_assoc]
          exact List.Sublist.refl _
        · cases h
    | none =>
      simp only [hsp] at h
      by_cases hz : (l.wired == 0) = true
      · rw [if_pos hz] at h; cases h
      · rw [if_neg hz] at h
        have hz' : l.wired ≠ 0 := by simpa using hz
        cases hoff : l.offerTo l.wired with
        | some c =>
          simp only [hoff, Option.some.injEq] at h
          subst h
          obtain ⟨hcb, h2, h3, h4⟩ := o_ack_front l hi.1 now c hz' hoff
          refine ⟨w_fields _ _ (w_ack l hi.1 _ now) rfl rfl (Or.inl rfl), j_shrink hi.2 ?_ (ack_sent l _ now)⟩
          have hdata : (if c.data.isEmpty = true then none else some c.data : Option Bytes).getD [] = c.data := by
            by_cases he : c.data.isEmpty = true
            · have : c.data = [] := by simpa using he
              simp [this]
            · simp [he]
          have hv : Link.virt { (l.ackUpstream l.wired now) with sinkPend := if c.data.isEmpty = true then none else some c.data } =
              (l.ackUpstream l.wired now).virt := rfl
          simp only [content_eq, hsp, Option.getD_none, List.nil_append, hdata, hv, h2, h3, hcb, List.append_assoc]
          exact List.Sublist.refl _
        | none =>
          simp only [hoff] at h
          split at h
          · cases h
            refine ⟨w_fields l _ hi.1 rfl rfl (Or.inl rfl), j_shrink hi.2 ?_ rfl⟩
            simp only [content_eq, hsp, Option.getD_none]
            exact List.Sublist.refl _
          · cases h


/-- What is fired at a stub keeps `WInv` (the stub's buffer is not touched). -/
theorem w_fire (l l' : Link) (hw : WInv l) (i : Nat) (ev : Event) (f : Stage → Stage)
    (hf : ∀ s, (f s).pc = (s.fire ev).pc ∧ (f s).inq = (s.fire ev).inq ∧ (f s).st = (s.fire ev).st ∧
      ((f s).intr = s.intr ∨ ((f s).intr ≠ .done true)))
    (hs : l'.stages = modifyAt l.stages i f) (hd : l'.detached = l.detached)
    (hc : l'.ctl = l.ctl ∨ l'.ctl = l.ctl.map clearTmp) : WInv l' := by
  refine w_modify l l' hw i f hs hd hc ?_ ?_ ?_
  · intro s _ h
    rw [(hf s).1]; exact fire_not_running s ev h
  · intro _ _ s _ hnr
    rw [(hf s).2.1, (hf s).2.2.1]
    exact fire_idle_same s ev hnr
  · intro s hs' hdn
    rw [(hf s).1]
    rcases (hf s).2.2.2 with h | h
    · rw [h] at hdn
      exact fire_not_running s ev (hw.doneRet s (List.mem_of_getElem? hs') hdn)
    · exact absurd hdn h

theorem ghost_sub (tmp : Option (Nat × Chunk)) (i : Nat) (s s' : Stage) (x : Bytes)
    (hh : s'.pc.held <+ s.pc.held ++ x) (hq : (s'.inq.map (·.data)).flatten <+ x ++ (s.inq.map (·.data)).flatten ∨ True)
    (hq' : s'.inq = s.inq) (hx : x = []) : (ghostOf tmp i s').bytes <+ (ghostOf tmp i s).bytes := by
  subst hx
  simp only [List.append_nil] at hh
  cases tmp with
  | none => simp only [ghostOf_none, id, Stage.bytes, hq']; exact List.Sublist.append hh (List.Sublist.refl _)
  | some p =>
    obtain ⟨idx, c0⟩ := p
    by_cases hk : i = idx
    · subst hk; rw [ghostOf_self, ghost_bytes, ghost_bytes, hq']; exact List.Sublist.refl _
    · rw [ghostOf_other idx c0 i hk]
      simp only [id, Stage.bytes, hq']; exact List.Sublist.append hh (List.Sublist.refl _)

theorem o_stageMove (l : Link) (i : Nat) (now : Int) (busy : Bool) (l' : Link) (hi : OInv l)
    (h : l.stageMove i now busy = some l') : OInv l' := by
  cases hs : l.stages[i]? with
  | none => simp [Link.stageMove, hs] at h
  | some s =>
    by_cases hcr : ∃ w, s.pc = .crash w
    · obtain ⟨w, hw⟩ := hcr
      unfold Link.stageMove at h
      simp only [hs, hw, Option.some.injEq] at h
      subst h
      exact ⟨w_fields l _ hi.1 rfl rfl (Or.inl rfl), hi.2⟩
    · have hnc : ∀ w, s.pc ≠ .crash w := fun w hw => hcr ⟨w, hw⟩
      rw [stageMove_body l i now busy s hs hnc] at h
      unfold stageBody at h
      by_cases h1 : duePart s now = true
      · -- a timer fires
        rw [if_pos h1] at h
        cases h
        refine ⟨w_fire l _ hi.1 i (.timer now) _ (fun s => ⟨rfl, rfl, rfl, Or.inl (fire_sub s _).2.2⟩) rfl rfl (Or.inl rfl), ?_⟩
        refine j_shrink hi.2 (o_one l _ i _ rfl rfl rfl rfl rfl ?_) rfl
        intro s0 _
        exact ghost_sub _ i s0 _ [] (by simpa [Event.data] using (fire_sub s0 (.timer now)).1) (Or.inr trivial) (fire_sub s0 _).2.1 rfl
      · rw [if_neg h1] at h
        by_cases h2 : (s.intr == IntrSt.pending && s.st.closed) = true
        · rw [if_pos h2] at h
          cases h
          refine ⟨w_modify l _ hi.1 i _ rfl rfl (Or.inl rfl) (fun _ _ h => h) (fun _ _ _ _ _ => ⟨rfl, rfl⟩)
            (fun _ _ hdn => by cases hdn), ?_⟩
          exact j_shrink hi.2 (o_one l _ i (fun s => { s with intr := .done false }) rfl rfl rfl rfl rfl
            (fun s0 _ => ghost_sub _ i s0 _ [] (by simp) (Or.inr trivial) rfl rfl)) rfl
        · rw [if_neg h2] at h
          by_cases h3 : (s.intr == IntrSt.pending && s.pc.interruptible) = true
          · rw [if_pos h3] at h
            cases h
            refine ⟨w_fire l _ hi.1 i (.interrupt now) (fun s => { (s.fire (.interrupt now)) with intr := .waitRet })
              (fun s => ⟨rfl, rfl, rfl, Or.inr (by simp)⟩) rfl rfl (Or.inl rfl), ?_⟩
            refine j_shrink hi.2 (o_one l _ i (fun s => { (s.fire (.interrupt now)) with intr := .waitRet }) rfl rfl rfl rfl rfl ?_) rfl
            intro s0 _
            exact ghost_sub _ i s0 _ [] (by simpa [Event.data] using (fire_sub s0 (.interrupt now)).1) (Or.inr trivial) (fire_sub s0 _).2.1 rfl
          · rw [if_neg h3] at h
            by_cases h4 : (s.intr == IntrSt.waitRet && !s.pc.running) = true
            · rw [if_pos h4] at h
              cases h
              have hnr : s.pc.running = false := by
                simp only [Bool.and_eq_true, Bool.not_eq_true'] at h4; exact h4.2
              refine ⟨w_modify l _ hi.1 i _ rfl rfl (Or.inl rfl) (fun _ _ h => h) (fun _ _ _ _ _ => ⟨rfl, rfl⟩) ?_, ?_⟩
              · intro s0 hs0 _
                rw [hs] at hs0; cases hs0; exact hnr
              · exact j_shrink hi.2 (o_one l _ i (fun s => { s with intr := .done true }) rfl rfl rfl rfl rfl
                  (fun s0 _ => ghost_sub _ i s0 _ [] (by simp) (Or.inr trivial) rfl rfl)) rfl
            · rw [if_neg h4] at h
              by_cases h5 : (s.pc.wantsInput && !(l.detached && i + 1 == l.stages.length)) = true
              · -- the stub receives
                rw [if_pos h5] at h
                have hwired : (l.detached && i + 1 == l.stages.length) = false := by
                  simp only [Bool.and_eq_true, Bool.not_eq_true'] at h5; exact h5.2
                have hw' : s.pc.wantsInput = true := by simp only [Bool.and_eq_true] at h5; exact h5.1
                have hrun : s.pc.running = true := by
                  cases hp : s.pc <;> rw [hp] at hw' <;> simp [Pc.wantsInput] at hw' <;> rfl
                -- a stub that is running is not the one the controller drains by hand
                have hnot : ∀ c0, tmpOf l.ctl ≠ some (i, c0) := by
                  intro c0 ht
                  have := hi.1.drained i (tmp_ctlDrains l i c0 ht) s hs
                  rw [hrun] at this; cases this
                have hgi : ghostOf (tmpOf l.ctl) i = id := by
                  cases ht : tmpOf l.ctl with
                  | none => rfl
                  | some x =>
                    obtain ⟨idx, c0⟩ := x
                    by_cases hk : i = idx
                    · subst hk; exact absurd ht (hnot c0)
                    · exact ghostOf_other idx c0 i hk
                cases hio : l.inputOf i with
                | none => simp [hio] at h
                | some r =>
                  obtain ⟨oc, src⟩ := r
                  simp only [hio, Option.some.injEq] at h
                  subst h
                  unfold Link.inputOf at hio
                  simp only [hs] at hio
                  cases hq' : s.inq with
                  | cons ch rest =>
                    simp only [hq', Option.some.injEq, Prod.mk.injEq] at hio
                    obtain ⟨rfl, rfl⟩ := hio
                    simp only [Link.consume, Option.isSome_some, Bool.not_true, Bool.false_eq_true, if_false]
                    rw [modifyAt_comp]
                    constructor
                    · refine w_modify l _ hi.1 i _ rfl rfl (Or.inl rfl) ?_ ?_ ?_
                      · intro s0 hs0 hnr
                        rw [hs] at hs0; cases hs0; rw [hrun] at hnr; cases hnr
                      · intro hd hl
                        rw [hd] at hwired; simp [hl] at hwired
                      · intro s0 hs0 hdn
                        rw [hs] at hs0; cases hs0
                        have hin := (fire_sub ({ s with inq := s.inq.drop 1 } : Stage) (.input (some ch) now drawsConst)).2.2
                        rw [hin] at hdn
                        have := hi.1.doneRet s (List.mem_of_getElem? hs) hdn
                        rw [hrun] at this; cases this
                    · refine j_shrink hi.2 (o_one l _ i _ rfl rfl rfl rfl rfl ?_) rfl
                      intro s0 hs0
                      rw [hs] at hs0; cases hs0
                      rw [hgi]
                      have hf := fire_sub ({ s with inq := rest } : Stage) (.input (some ch) now drawsConst)
                      simp only [id, Stage.bytes, hq', List.drop_one, List.tail_cons, List.map_cons, List.flatten_cons]
                      rw [hf.2.1, ← List.append_assoc]
                      exact List.Sublist.append hf.1 (List.Sublist.refl _)
                  | nil =>
                    simp only [hq'] at hio
                    cases hoff : l.offerTo i with
                    | some ch =>
                      simp only [hoff, Option.some.injEq, Prod.mk.injEq] at hio
                      obtain ⟨rfl, rfl⟩ := hio
                      simp only [Link.consume, Option.isSome_some, Bool.not_true, Bool.false_eq_true, if_false]
                      have hself := ack_get_self l i now
                      constructor
                      · refine w_fire _ _ (w_ack l hi.1 i now) i (.input (some ch) now drawsConst) _
                          (fun s => ⟨rfl, rfl, rfl, Or.inl (fire_sub s _).2.2⟩) rfl rfl (Or.inl rfl)
                      · refine j_shrink hi.2 (o_handoff l hi.1 i now s hs ch hoff _ ?_) (by simp [ack_sent])
                        rw [hgi]
                        have hf := fire_sub s (.input (some ch) now drawsConst)
                        simp only [id, Stage.bytes, hf.2.1, hq', List.map_nil, List.flatten_nil, List.append_nil]
                        exact hf.1
                    | none =>
                      simp only [hoff] at hio
                      split at hio
                      · simp only [Option.some.injEq, Prod.mk.injEq] at hio
                        obtain ⟨rfl, rfl⟩ := hio
                        simp only [Link.consume, Option.isSome_none, Bool.not_false, if_true]
                        refine ⟨w_fire l _ hi.1 i (.input none now drawsConst) _
                          (fun s => ⟨rfl, rfl, rfl, Or.inl (fire_sub s _).2.2⟩) rfl rfl (Or.inl rfl), ?_⟩
                        refine j_shrink hi.2 (o_one l _ i _ rfl rfl rfl rfl rfl ?_) rfl
                        intro s0 _
                        exact ghost_sub _ i s0 _ [] (by simpa [Event.data] using (fire_sub s0 (.input none now drawsConst)).1)
                          (Or.inr trivial) (fire_sub s0 _).2.1 rfl
                      · cases hio
              · rw [if_neg h5] at h
                by_cases h6 : (s.st.closed && !s.pc.running && !l.ctlDrains i) = true
                · -- a closed stub drains what still arrives
                  rw [if_pos h6] at h
                  have hcl : s.st.closed = true := by
                    simp only [Bool.and_eq_true] at h6; exact h6.1.1
                  split at h
                  · rename_i ch src hio
                    cases h
                    unfold Link.inputOf at hio
                    simp only [hs] at hio
                    cases hq' : s.inq with
                    | cons c2 rest =>
                      simp only [hq', Option.some.injEq, Prod.mk.injEq] at hio
                      obtain ⟨_, rfl⟩ := hio
                      simp only [Link.consume, Bool.not_true, Bool.false_eq_true, if_false]
                      constructor
                      · refine w_modify l _ hi.1 i _ rfl rfl (Or.inl rfl) (fun _ _ h => h) ?_ ?_
                        · intro hd hl s0 hs0 _
                          -- the not-yet-wired stub is not closed
                          exfalso
                          rw [hs] at hs0; cases hs0
                          have hlast : l.stages.length - 1 = i := by omega
                          have := ((hi.1.fresh hd).2 s (by rw [hlast]; exact hs)).2.2
                          rw [hcl] at this; cases this
                        · intro s0 hs0 hdn
                          exact hi.1.doneRet s0 (List.mem_of_getElem? hs0) hdn
                      · refine j_shrink hi.2 (o_one l _ i _ rfl rfl rfl rfl rfl ?_) rfl
                        intro s0 hs0
                        rw [hs] at hs0; cases hs0
                        have hsub : ((s.inq.drop 1).map (·.data)).flatten <+ (s.inq.map (·.data)).flatten := by
                          rw [hq']; simp
                        cases ht : tmpOf l.ctl with
                        | none =>
                          simp only [ghostOf_none, id, Stage.bytes]
                          exact List.Sublist.append (List.Sublist.refl _) hsub
                        | some x =>
                          obtain ⟨idx, c0⟩ := x
                          by_cases hk : i = idx
                          · subst hk
                            rw [ghostOf_self, ghost_bytes, ghost_bytes]
                            exact List.Sublist.append (List.Sublist.refl _) hsub
                          · rw [ghostOf_other idx c0 i hk]
                            simp only [id, Stage.bytes]
                            exact List.Sublist.append (List.Sublist.refl _) hsub
                    | nil =>
                      simp only [hq'] at hio
                      cases hoff : l.offerTo i with
                      | some c2 =>
                        simp only [hoff, Option.some.injEq, Prod.mk.injEq] at hio
                        obtain ⟨_, rfl⟩ := hio
                        simp only [Link.consume, Bool.not_true, Bool.false_eq_true, if_false]
                        exact ⟨w_ack l hi.1 i now, j_shrink hi.2 (o_ack_drop l hi.1 i now c2 hoff) (ack_sent l i now)⟩
                      | none =>
                        simp only [hoff] at hio
                        split at hio <;> cases hio
                  · cases h
                · rw [if_neg h6] at h
                  cases h


theorem o_recvAlt (l : Link) (i : Nat) (now : Int) (l' : Link) (hi : OInv l) (h : l.recvAlt i now = some l') : OInv l' := by
  unfold Link.recvAlt at h
  cases hs : l.stages[i]? with
  | none => simp [hs] at h
  | some s =>
    simp only [hs] at h
    unfold recvPart at h
    by_cases h5 : (s.pc.wantsInput && !(l.detached && i + 1 == l.stages.length)) = true
    · rw [if_pos h5] at h
      have hwired : (l.detached && i + 1 == l.stages.length) = false := by
        simp only [Bool.and_eq_true, Bool.not_eq_true'] at h5; exact h5.2
      have hw' : s.pc.wantsInput = true := by simp only [Bool.and_eq_true] at h5; exact h5.1
      have hrun : s.pc.running = true := by
        cases hp : s.pc <;> rw [hp] at hw' <;> simp [Pc.wantsInput] at hw' <;> rfl
      -- a stub that is running is not the one the controller drains by hand
      have hnot : ∀ c0, tmpOf l.ctl ≠ some (i, c0) := by
        intro c0 ht
        have := hi.1.drained i (tmp_ctlDrains l i c0 ht) s hs
        rw [hrun] at this; cases this
      have hgi : ghostOf (tmpOf l.ctl) i = id := by
        cases ht : tmpOf l.ctl with
        | none => rfl
        | some x =>
          obtain ⟨idx, c0⟩ := x
          by_cases hk : i = idx
          · subst hk; exact absurd ht (hnot c0)
          · exact ghostOf_other idx c0 i hk
      cases hio : l.inputOf i with
      | none => simp [hio] at h
      | some r =>
        obtain ⟨oc, src⟩ := r
        simp only [hio, Option.some.injEq] at h
        subst h
        unfold Link.inputOf at hio
        simp only [hs] at hio
        cases hq' : s.inq with
        | cons ch rest =>
          simp only [hq', Option.some.injEq, Prod.mk.injEq] at hio
          obtain ⟨rfl, rfl⟩ := hio
          simp only [Link.consume, Option.isSome_some, Bool.not_true, Bool.false_eq_true, if_false]
          rw [modifyAt_comp]
          constructor
          · refine w_modify l _ hi.1 i _ rfl rfl (Or.inl rfl) ?_ ?_ ?_
            · intro s0 hs0 hnr
              rw [hs] at hs0; cases hs0; rw [hrun] at hnr; cases hnr
            · intro hd hl
              rw [hd] at hwired; simp [hl] at hwired
            · intro s0 hs0 hdn
              rw [hs] at hs0; cases hs0
              have hin := (fire_sub ({ s with inq := s.inq.drop 1 } : Stage) (.input (some ch) now drawsConst)).2.2
              rw [hin] at hdn
              have := hi.1.doneRet s (List.mem_of_getElem? hs) hdn
              rw [hrun] at this; cases this
          · refine j_shrink hi.2 (o_one l _ i _ rfl rfl rfl rfl rfl ?_) rfl
            intro s0 hs0
            rw [hs] at hs0; cases hs0
            rw [hgi]
            have hf := fire_sub ({ s with inq := rest } : Stage) (.input (some ch) now drawsConst)
            simp only [id, Stage.bytes, hq', List.drop_one, List.tail_cons, List.map_cons, List.flatten_cons]
            rw [hf.2.1, ← List.append_assoc]
            exact List.Sublist.append hf.1 (List.Sublist.refl _)
        | nil =>
          simp only [hq'] at hio
          cases hoff : l.offerTo i with
          | some ch =>
            simp only [hoff, Option.some.injEq, Prod.mk.injEq] at hio
            obtain ⟨rfl, rfl⟩ := hio
            simp only [Link.consume, Option.isSome_some, Bool.not_true, Bool.false_eq_true, if_false]
            have hself := ack_get_self l i now
            constructor
            · refine w_fire _ _ (w_ack l hi.1 i now) i (.input (some ch) now drawsConst) _
                (fun s => ⟨rfl, rfl, rfl, Or.inl (fire_sub s _).2.2⟩) rfl rfl (Or.inl rfl)
            · refine j_shrink hi.2 (o_handoff l hi.1 i now s hs ch hoff _ ?_) (by simp [ack_sent])
              rw [hgi]
              have hf := fire_sub s (.input (some ch) now drawsConst)
              simp only [id, Stage.bytes, hf.2.1, hq', List.map_nil, List.flatten_nil, List.append_nil]
              exact hf.1
          | none =>
            simp only [hoff] at hio
            split at hio
            · simp only [Option.some.injEq, Prod.mk.injEq] at hio
              obtain ⟨rfl, rfl⟩ := hio
              simp only [Link.consume, Option.isSome_none, Bool.not_false, if_true]
              refine ⟨w_fire l _ hi.1 i (.input none now drawsConst) _
                (fun s => ⟨rfl, rfl, rfl, Or.inl (fire_sub s _).2.2⟩) rfl rfl (Or.inl rfl), ?_⟩
              refine j_shrink hi.2 (o_one l _ i _ rfl rfl rfl rfl rfl ?_) rfl
              intro s0 _
              exact ghost_sub _ i s0 _ [] (by simpa [Event.data] using (fire_sub s0 (.input none now drawsConst)).1)
                (Or.inr trivial) (fire_sub s0 _).2.1 rfl
            · cases hio
    · rw [if_neg h5] at h; cases h

theorem o_intrAlt (l : Link) (i : Nat) (now : Int) (l' : Link) (hi : OInv l) (h : l.intrAlt i now = some l') : OInv l' := by
  unfold Link.intrAlt at h
  cases hs : l.stages[i]? with
  | none => simp [hs] at h
  | some s =>
    simp only [hs] at h
    by_cases h3 : (s.intr == IntrSt.pending && s.pc.interruptible) = true
    · rw [if_pos h3] at h
      cases h
      refine ⟨w_fire l _ hi.1 i (.interrupt now) (fun s => { (s.fire (.interrupt now)) with intr := .waitRet })
        (fun s => ⟨rfl, rfl, rfl, Or.inr (by simp)⟩) rfl rfl (Or.inl rfl), ?_⟩
      refine j_shrink hi.2 (o_one l _ i (fun s => { (s.fire (.interrupt now)) with intr := .waitRet }) rfl rfl rfl rfl rfl ?_) rfl
      intro s0 _
      exact ghost_sub _ i s0 _ [] (by simpa [Event.data] using (fire_sub s0 (.interrupt now)).1) (Or.inr trivial) (fire_sub s0 _).2.1 rfl
    · rw [if_neg h3] at h; cases h

/-! ### The controller's steps -/

/-- `InterruptToxic` has reported success only for a stub whose `Pipe` has returned. -/
def DoneRet (s : Stage) : Prop := s.intr = .done true → s.pc.running = false

theorem doneRet_modify (ss : List Stage) (i : Nat) (g : Stage → Stage) (hg : ∀ s, DoneRet s → DoneRet (g s))
    (h : ∀ s ∈ ss, DoneRet s) : ∀ s ∈ modifyAt ss i g, DoneRet s := by
  intro x hx
  obtain ⟨k, hk, hget⟩ := List.getElem_of_mem hx
  have hx' : (modifyAt ss i g)[k]? = some x := by rw [List.getElem?_eq_getElem hk, hget]
  rw [getElem?_modifyAt] at hx'
  by_cases hki : k = i
  · subst hki
    rw [if_pos rfl] at hx'
    cases hs : ss[k]? with
    | none => rw [hs] at hx'; cases hx'
    | some s =>
      rw [hs] at hx'
      simp only [Option.map_some, Option.some.injEq] at hx'
      subst hx'
      exact hg s (h s (List.mem_of_getElem? hs))
  · rw [if_neg hki] at hx'
    exact h x (List.mem_of_getElem? hx')

theorem doneRet_start (s : Stage) (t : TCfg) (now : Int) : DoneRet (s.start t now) := by
  intro h
  simp only [Stage.start] at h
  split at h <;> simp_all

theorem doneRet_intr (s : Stage) (x : IntrSt) (hx : x ≠ .done true) : DoneRet { s with intr := x } := by
  intro h; exact absurd h hx

theorem start_bytes_sub (s : Stage) (t : TCfg) (now : Int) : (s.start t now).bytes <+ s.bytes := by
  have : (s.start t now).pc.held = [] := by
    simp only [Stage.start]
    split
    · rfl
    · unfold Toxi.Toxic.start
      split
      · rfl
      · split
        · split <;> rfl
        · rfl
  have hq : (s.start t now).inq = s.inq := rfl
  simp only [Stage.bytes]
  rw [this, hq, List.nil_append]
  exact List.sublist_append_right _ _

theorem o_pointwise (l l' : Link) (hlen : l'.stages.length = l.stages.length)
    (h : ∀ (k : Nat) (x y : Stage), l.virt[k]? = some x → l'.virt[k]? = some y → y.bytes <+ x.bytes)
    (h1 : l'.sinkPend = l.sinkPend) (h2 : l'.srcPend = l.srcPend) (h3 : l'.delivered = l.delivered) :
    l'.content <+ l.content := by
  simp only [content_eq, h1, h2, h3]
  refine List.Sublist.append (List.Sublist.refl _) ?_
  refine List.Sublist.append (List.Sublist.append (List.Sublist.refl _) ?_) (List.Sublist.refl _)
  exact chain_sub l.virt l'.virt (by rw [virt_length, virt_length, hlen]) h

theorem not_detached (l : Link) (hw : WInv l) (h : ∀ t, l.ctl ≠ some (.addWait t)) : l.detached = false := by
  cases hd : l.detached with
  | false => rfl
  | true =>
    obtain ⟨⟨t, ht⟩, _⟩ := hw.fresh hd
    exact absurd ht (h t)

/-- A link on which no API call works satisfies `WInv` as soon as its interrupt bookkeeping does. -/
theorem w_idle (l : Link) (hc : l.ctl = none) (hd : l.detached = false) (h : ∀ s ∈ l.stages, DoneRet s) : WInv l := by
  refine ⟨fun hd' => (by rw [hd] at hd'; cases hd'), ?_, h⟩
  intro i hi
  simp [Link.ctlDrains, hc] at hi


/-- Stub by stub, `b` holds an in-order part of what `a` holds. -/
def Shr (a b : List Stage) : Prop :=
  b.length = a.length ∧ ∀ (k : Nat) (x y : Stage), a[k]? = some x → b[k]? = some y → y.bytes <+ x.bytes

theorem shr_refl (a : List Stage) : Shr a a :=
  ⟨rfl, fun k x y hx hy => by rw [hx] at hy; cases hy; exact List.Sublist.refl _⟩

theorem shr_trans {a b c : List Stage} (h1 : Shr a b) (h2 : Shr b c) : Shr a c := by
  refine ⟨h2.1.trans h1.1, ?_⟩
  intro k x z hx hz
  cases hb : b[k]? with
  | none =>
    rw [List.getElem?_eq_none_iff] at hb
    have : k < a.length := by
      rcases Nat.lt_or_ge k a.length with h | h
      · exact h
      · rw [List.getElem?_eq_none h] at hx; cases hx
    have := h1.1
    omega
  | some y => exact (h2.2 k y z hb hz).trans (h1.2 k x y hx hb)

theorem shr_modify (a : List Stage) (i : Nat) (g : Stage → Stage) (hg : ∀ s, (g s).bytes <+ s.bytes) :
    Shr a (modifyAt a i g) := by
  refine ⟨length_modifyAt a i g, ?_⟩
  intro k x y hx hy
  rw [getElem?_modifyAt] at hy
  by_cases hk : k = i
  · subst hk
    rw [if_pos rfl, hx] at hy
    simp only [Option.map_some, Option.some.injEq] at hy
    subst hy; exact hg x
  · rw [if_neg hk, hx] at hy; cases hy; exact List.Sublist.refl _

/-- When the controller carries nothing before and after, the stubs' own bytes are what counts. -/
theorem o_rel (l l' : Link) (ht : tmpOf l.ctl = none) (ht' : tmpOf l'.ctl = none) (h : Shr l.stages l'.stages)
    (h1 : l'.sinkPend = l.sinkPend) (h2 : l'.srcPend = l.srcPend) (h3 : l'.delivered = l.delivered) :
    l'.content <+ l.content := by
  refine o_pointwise l l' h.1 ?_ h1 h2 h3
  intro k x y hx hy
  rw [virt_get, ht] at hx
  rw [virt_get, ht'] at hy
  cases hxs : l.stages[k]? with
  | none => rw [hxs] at hx; cases hx
  | some x0 =>
    cases hys : l'.stages[k]? with
    | none => rw [hys] at hy; cases hy
    | some y0 =>
      rw [hxs] at hx; rw [hys] at hy
      simp only [ghostOf_none, Option.map_some, id, Option.some.injEq] at hx hy
      subst hx; subst hy
      exact h.2 k x0 y0 hxs hys

theorem setIntr_bytes (s : Stage) (x : IntrSt) : ({ s with intr := x } : Stage).bytes <+ s.bytes := List.Sublist.refl _
theorem setClosed_bytes (s : Stage) : ({ s with st := { s.st with closed := true } } : Stage).bytes <+ s.bytes :=
  List.Sublist.refl _

theorem doneRet_closed (s : Stage) (h : DoneRet s) : DoneRet { s with st := { s.st with closed := true } } := h

theorem o_ctl_add (chain : List TCfg) (l : Link) (hi : OInv l) (now : Int) (newT : TCfg)
    (hc : l.ctl = some (.addWait newT)) (l' : Link) (h : l.ctlMove chain now = some l') : OInv l' := by
  have ht : tmpOf l.ctl = none := by rw [hc]; rfl
  unfold Link.ctlMove at h
  simp only [hc] at h
  cases hp : l.stages[l.stages.length - 1 - 1]? with
  | none => simp [hp] at h
  | some prev =>
    simp only [hp] at h
    have hdr : ∀ s ∈ l.stages, DoneRet s := hi.1.doneRet
    cases hint : prev.intr with
    | done b =>
      cases b with
      | true =>
        simp only [hint, Option.some.injEq] at h
        unfold restartAt at h
        split at h
        · rename_i t _
          subst h
          constructor
          · apply w_idle _ rfl rfl
            refine doneRet_modify _ _ _ (fun s _ => doneRet_start s t now) ?_
            refine doneRet_modify _ _ _ (fun s _ => doneRet_start s newT now) ?_
            exact doneRet_modify _ _ _ (fun s _ => doneRet_intr s .none (by simp)) hdr
          · refine j_shrink hi.2 (o_rel l _ ht rfl ?_ rfl rfl rfl) rfl
            exact shr_trans (shr_trans (shr_modify _ _ _ (fun s => setIntr_bytes s _))
              (shr_modify _ _ _ (fun s => start_bytes_sub s newT now))) (shr_modify _ _ _ (fun s => start_bytes_sub s t now))
        · subst h
          constructor
          · apply w_idle _ rfl rfl
            refine doneRet_modify _ _ _ (fun s _ => doneRet_start s newT now) ?_
            exact doneRet_modify _ _ _ (fun s _ => doneRet_intr s .none (by simp)) hdr
          · refine j_shrink hi.2 (o_rel l _ ht rfl ?_ rfl rfl rfl) rfl
            exact shr_trans (shr_modify _ _ _ (fun s => setIntr_bytes s _))
              (shr_modify _ _ _ (fun s => start_bytes_sub s newT now))
      | false =>
        simp only [hint, Option.some.injEq] at h
        subst h
        constructor
        · apply w_idle _ rfl rfl
          refine doneRet_modify _ _ _ (fun s hs => doneRet_closed s hs) ?_
          exact doneRet_modify _ _ _ (fun s _ => doneRet_intr s .none (by simp)) hdr
        · refine j_shrink hi.2 (o_rel l _ ht rfl ?_ rfl rfl rfl) rfl
          exact shr_trans (shr_modify _ _ _ (fun s => setIntr_bytes s _)) (shr_modify _ _ _ (fun s => setClosed_bytes s))
    | _ => simp [hint] at h

theorem o_ctl_upd (chain : List TCfg) (l : Link) (hi : OInv l) (now : Int) (idx : Nat) (newT : TCfg)
    (hc : l.ctl = some (.updWait idx newT)) (l' : Link) (h : l.ctlMove chain now = some l') : OInv l' := by
  have ht : tmpOf l.ctl = none := by rw [hc]; rfl
  have hnd : l.detached = false := not_detached l hi.1 (fun t hh => by rw [hc] at hh; cases hh)
  have hdr : ∀ s ∈ l.stages, DoneRet s := hi.1.doneRet
  unfold Link.ctlMove at h
  simp only [hc] at h
  cases hs : l.stages[idx]? with
  | none =>
    simp only [hs, Option.some.injEq] at h
    subst h
    refine ⟨w_fields l _ hi.1 rfl rfl (Or.inl hc.symm), j_shrink hi.2 ?_ rfl⟩
    exact o_rel l _ ht rfl (shr_refl _) rfl rfl rfl
  | some s =>
    simp only [hs] at h
    cases hint : s.intr with
    | done b =>
      cases b with
      | true =>
        simp only [hint, Option.some.injEq] at h
        subst h
        constructor
        · refine w_idle _ ?_ ?_ ?_
          · rfl
          · exact hnd
          · exact doneRet_modify _ _ _ (fun s _ => doneRet_start _ newT now) hdr
        · refine j_shrink hi.2 (o_rel l _ ht rfl ?_ rfl rfl rfl) rfl
          exact shr_modify _ _ _ (fun s => start_bytes_sub ({ s with intr := .none } : Stage) newT now)
      | false =>
        simp only [hint, Option.some.injEq] at h
        subst h
        constructor
        · refine w_idle _ ?_ ?_ ?_
          · rfl
          · exact hnd
          · exact doneRet_modify _ _ _ (fun s _ => doneRet_intr s .none (by simp)) hdr
        · refine j_shrink hi.2 (o_rel l _ ht rfl ?_ rfl rfl rfl) rfl
          exact shr_modify _ _ _ (fun s => setIntr_bytes s _)
    | _ => simp [hint] at h


theorem get_modify_other (ss : List Stage) (i k : Nat) (g : Stage → Stage) (h : k ≠ i) : (modifyAt ss i g)[k]? = ss[k]? := by
  rw [getElem?_modifyAt, if_neg h]

theorem o_ctl_rmIntr (chain : List TCfg) (l : Link) (hi : OInv l) (now : Int) (idx : Nat) (cl : Bool)
    (hc : l.ctl = some (.rmIntr idx cl)) (l' : Link) (h : l.ctlMove chain now = some l') : OInv l' := by
  have ht : tmpOf l.ctl = none := by rw [hc]; rfl
  have hnd : l.detached = false := not_detached l hi.1 (fun t hh => by rw [hc] at hh; cases hh)
  have hdr : ∀ s ∈ l.stages, DoneRet s := hi.1.doneRet
  unfold Link.ctlMove at h
  simp only [hc] at h
  cases hs : l.stages[idx]? with
  | none =>
    simp only [hs, Option.some.injEq] at h
    subst h
    exact ⟨w_fields l _ hi.1 rfl rfl (Or.inl hc.symm), j_shrink hi.2 (o_rel l _ ht rfl (shr_refl _) rfl rfl rfl) rfl⟩
  | some s =>
    simp only [hs] at h
    cases hint : s.intr with
    | done b =>
      cases b with
      | false =>
        simp only [hint, Option.some.injEq] at h
        subst h
        refine ⟨w_idle _ rfl hnd (doneRet_modify _ _ _ (fun s _ => doneRet_intr s .none (by simp)) hdr), ?_⟩
        exact j_shrink hi.2 (o_rel l _ ht rfl (shr_modify _ _ _ (fun s => setIntr_bytes s _)) rfl rfl rfl) rfl
      | true =>
        simp only [hint] at h
        split at h
        · simp only [Option.some.injEq] at h
          subst h
          refine ⟨w_idle _ rfl hnd (doneRet_modify _ _ _ (fun s _ => doneRet_intr _ .none (by simp)) hdr), ?_⟩
          exact j_shrink hi.2 (o_rel l _ ht rfl (shr_modify _ _ _ (fun s => List.Sublist.refl _)) rfl rfl rfl) rfl
        · simp only [Option.some.injEq] at h
          subst h
          have hsnr : s.pc.running = false := hdr s (List.mem_of_getElem? hs) hint
          constructor
          · refine ⟨fun hd => (by rw [hnd] at hd; cases hd), ?_, ?_⟩
            · intro k hk a ha
              have hki : idx = k := by simpa [Link.ctlDrains] using hk
              subst hki
              simp only at ha
              by_cases h1 : idx - 1 = idx
              · -- idx = 0: both modifications hit the same stub
                rw [getElem?_modifyAt, if_pos h1.symm, getElem?_modifyAt, if_pos rfl, hs] at ha
                simp only [Option.map_some, Option.some.injEq] at ha
                subst ha; exact hsnr
              · rw [get_modify_other _ _ _ _ (fun hh => h1 hh.symm), getElem?_modifyAt, if_pos rfl, hs] at ha
                simp only [Option.map_some, Option.some.injEq] at ha
                subst ha; exact hsnr
            · refine doneRet_modify _ _ _ (fun s _ => doneRet_intr s .pending (by simp)) ?_
              exact doneRet_modify _ _ _ (fun s _ => doneRet_intr s .none (by simp)) hdr
          · refine j_shrink hi.2 (o_rel l _ ht rfl ?_ rfl rfl rfl) rfl
            exact shr_trans (shr_modify _ _ _ (fun s => setIntr_bytes s _)) (shr_modify _ _ _ (fun s => setIntr_bytes s _))
    | _ => simp [hint] at h

theorem o_ctl_rmWaitStop (chain : List TCfg) (l : Link) (hi : OInv l) (now : Int) (idx : Nat)
    (hc : l.ctl = some (.rmWaitStop idx)) (l' : Link) (h : l.ctlMove chain now = some l') : OInv l' := by
  have ht : tmpOf l.ctl = none := by rw [hc]; rfl
  have hnd : l.detached = false := not_detached l hi.1 (fun t hh => by rw [hc] at hh; cases hh)
  have hdr : ∀ s ∈ l.stages, DoneRet s := hi.1.doneRet
  unfold Link.ctlMove at h
  simp only [hc] at h
  split at h
  · simp only [Option.some.injEq] at h
    subst h
    refine ⟨w_idle _ rfl hnd (doneRet_modify _ _ _ (fun s _ => doneRet_intr s .none (by simp)) hdr), ?_⟩
    exact j_shrink hi.2 (o_rel l _ ht rfl (shr_modify _ _ _ (fun s => setIntr_bytes s _)) rfl rfl rfl) rfl
  · cases h


/-- The controller gives up on the chunk it carries (the 5 s give-up): the chunk is lost, nothing
else moves. -/
theorem o_clear (l : Link) (hw : WInv l) (idx : Nat) (c : Chunk) (htmp : tmpOf l.ctl = some (idx, c)) :
    Link.content { l with ctl := l.ctl.map clearTmp } <+ l.content := by
  simp only [content_eq]
  refine List.Sublist.append (List.Sublist.refl _) ?_
  refine List.Sublist.append (List.Sublist.append (List.Sublist.refl _) ?_) (List.Sublist.refl _)
  refine cb_one l.virt _ (by simp [virt_length]) idx ?_ ?_
  · intro k hk
    simp only [virt_get, tmpOf_clear, ghostOf_none]
    rw [htmp, ghostOf_other _ c k hk]
  · intro x y hx hy
    cases ha : l.stages[idx]? with
    | none => rw [virt_get, ha] at hx; cases hx
    | some a =>
      have hanr := hw.drained idx (tmp_ctlDrains l idx c htmp) a ha
      simp only [virt_get, tmpOf_clear, ghostOf_none, ha, Option.map_some, id, Option.some.injEq] at hy
      rw [virt_get, ha, htmp, ghostOf_self] at hx
      simp only [Option.map_some, Option.some.injEq] at hx
      subst hx; subst hy
      rw [ghost_bytes]
      simp only [Stage.bytes, held_of_not_running a.pc hanr, List.nil_append]
      exact List.sublist_append_right _ _

/-- The controller takes the oldest chunk of the drained stub's buffer into its hand. -/
theorem o_take_buffered (l : Link) (idx : Nat) (s : Stage) (c : Chunk) (rest : List Chunk)
    (hs : l.stages[idx]? = some s) (hq : s.inq = c :: rest) (ht : tmpOf l.ctl = none) (hnr : s.pc.running = false)
    (ctl' : Option Ctl) (ht' : tmpOf ctl' = some (idx, c)) :
    Link.content { l with ctl := ctl', stages := modifyAt l.stages idx fun s => { s with inq := s.inq.drop 1 } } <+ l.content := by
  simp only [content_eq]
  refine List.Sublist.append (List.Sublist.refl _) ?_
  refine List.Sublist.append (List.Sublist.append (List.Sublist.refl _) ?_) (List.Sublist.refl _)
  refine cb_one l.virt _ (by simp [virt_length, length_modifyAt]) idx ?_ ?_
  · intro k hk
    simp only [virt_get, getElem?_modifyAt, if_neg hk, ht, ht', ghostOf_none]
    rw [ghostOf_other _ c k hk]
  · intro x y hx hy
    rw [virt_get, hs, ht] at hx
    simp only [ghostOf_none, Option.map_some, id, Option.some.injEq] at hx
    simp only [virt_get, getElem?_modifyAt, if_true, hs, Option.map_some, ht', ghostOf_self, Option.some.injEq] at hy
    subst hx; subst hy
    rw [ghost_bytes]
    simp [Stage.bytes, held_of_not_running s.pc hnr, hq]

/-- The controller takes a chunk directly from the upstream neighbour of the drained stub. -/
theorem o_take_rendezvous (l : Link) (idx : Nat) (now : Int) (s : Stage) (c : Chunk)
    (hs : l.stages[idx]? = some s) (hq : s.inq = []) (hoff : l.offerTo idx = some c) (ht : tmpOf l.ctl = none)
    (ctl' : Option Ctl) (ht' : tmpOf ctl' = some (idx, c)) :
    Link.content { (l.ackUpstream idx now) with ctl := ctl' } <+ l.content := by
  by_cases h0 : idx = 0
  · subst h0
    have hsp : l.srcPend = some c := by simpa [Link.offerTo] using hoff
    have hack : l.ackUpstream 0 now = { l with srcPend := none } := by simp [Link.ackUpstream]
    rw [hack]
    simp only [content_eq, hsp, Option.map_some, Option.getD_some, Option.map_none, Option.getD_none, List.append_nil]
    refine List.Sublist.append (List.Sublist.refl _) ?_
    rw [List.append_assoc]
    refine List.Sublist.append (List.Sublist.refl _) ?_
    have hvs : l.virt[0]? = some s := by rw [virt_get, hs, ht]; rfl
    refine cb_first l.virt _ (by simp [virt_length]) ?_ s (ghost c s) hvs ?_ c.data ?_
    · intro k hk
      simp only [virt_get, ht, ht', ghostOf_none]
      rw [ghostOf_other _ c k hk]
    · simp only [virt_get, hs, ht', ghostOf_self, Option.map_some]
    · rw [ghost_bytes, hq]; simp
  · have hi1 : idx - 1 + 1 = idx := by omega
    rcases offerTo_cases l idx h0 c hoff with ⟨hnd, a, ha, hao⟩ | ⟨_, htmp, _⟩
    · rw [ackUpstream_stage l idx h0 now hnd]
      simp only [content_eq]
      refine List.Sublist.append (List.Sublist.refl _) ?_
      refine List.Sublist.append (List.Sublist.append (List.Sublist.refl _) ?_) (List.Sublist.refl _)
      have hva : l.virt[idx - 1]? = some a := by rw [virt_get, ha, ht]; rfl
      have hvs' : l.virt[idx - 1 + 1]? = some s := by rw [hi1, virt_get, hs, ht]; rfl
      refine cb_two l.virt _ (by simp [virt_length, length_modifyAt]) (idx - 1) ?_ a s (a.fire (.taken now)) (ghost c s)
        hva hvs' ?_ ?_ c.data ?_ ?_
      · intro k hk1 hk2
        rw [hi1] at hk2
        simp only [virt_get, getElem?_modifyAt, if_neg hk1, ht, ht', ghostOf_none]
        rw [ghostOf_other _ c k hk2]
      · simp only [virt_get, getElem?_modifyAt, if_true, ha, Option.map_some, ht']
        rw [ghostOf_other _ c (idx - 1) (by omega)]; rfl
      · rw [hi1]
        have : ¬ (idx = idx - 1) := by omega
        simp only [virt_get, getElem?_modifyAt, if_neg this, hs, Option.map_some, ht', ghostOf_self]
      · have := fire_taken_eq a now c hao
        simp only [Stage.bytes, this, (fire_sub a (.taken now)).2.1, List.append_assoc]
      · rw [ghost_bytes, hq]; simp
    · rw [ht] at htmp; cases htmp


/-- `WInv` for a link whose controller keeps draining stub `idx`. -/
theorem w_ctl_drain (l l' : Link) (hw : WInv l) (idx : Nat) (hold : l.ctlDrains idx = true)
    (hnew : ∀ k, l'.ctlDrains k = true → k = idx) (hd' : l'.detached = false)
    (hst : ∀ a', l'.stages[idx]? = some a' → ∃ a, l.stages[idx]? = some a ∧ a'.pc = a.pc)
    (hdr : ∀ s ∈ l'.stages, DoneRet s) : WInv l' := by
  refine ⟨fun hd => (by rw [hd'] at hd; cases hd), ?_, hdr⟩
  intro k hk a' ha'
  have := hnew k hk
  subst this
  obtain ⟨a, ha, hpc⟩ := hst a' ha'
  rw [hpc]
  exact hw.drained k hold a ha

theorem modify_pc_same (ss : List Stage) (i k : Nat) (g : Stage → Stage) (hg : ∀ s, (g s).pc = s.pc) (a' : Stage)
    (h : (modifyAt ss i g)[k]? = some a') : ∃ a, ss[k]? = some a ∧ a'.pc = a.pc := by
  rw [getElem?_modifyAt] at h
  by_cases hk : k = i
  · subst hk
    rw [if_pos rfl] at h
    cases hs : ss[k]? with
    | none => rw [hs] at h; cases h
    | some s =>
      rw [hs] at h
      simp only [Option.map_some, Option.some.injEq] at h
      subst h
      exact ⟨s, rfl, hg s⟩
  · rw [if_neg hk] at h; exact ⟨a', h, rfl⟩

theorem o_ctl_rmLoop (chain : List TCfg) (l : Link) (hi : OInv l) (now : Int) (idx : Nat) (tmp : Option Chunk)
    (dl : Int) (sg : Bool) (hc : l.ctl = some (.rmLoop idx tmp dl sg)) (l' : Link)
    (h : l.ctlMove chain now = some l') : OInv l' := by
  have hnd : l.detached = false := not_detached l hi.1 (fun t hh => by rw [hc] at hh; cases hh)
  have hdr : ∀ s ∈ l.stages, DoneRet s := hi.1.doneRet
  have hdrains : l.ctlDrains idx = true := by simp [Link.ctlDrains, hc]
  unfold Link.ctlMove at h
  simp only [hc] at h
  cases tmp with
  | some c0 =>
    simp only at h
    split at h
    · simp only [Option.some.injEq] at h
      subst h
      have heq : ({ l with ctl := some (.rmLoop idx none 0 sg) } : Link) = { l with ctl := l.ctl.map clearTmp } := by
        rw [hc]; rfl
      rw [heq]
      exact ⟨w_fields l _ hi.1 rfl rfl (Or.inr rfl), j_shrink hi.2 (o_clear l hi.1 idx c0 (by rw [hc]; rfl)) rfl⟩
    · cases h
  | none =>
    have ht : tmpOf l.ctl = none := by rw [hc]; rfl
    simp only at h
    split at h
    · -- the helper's interrupt has succeeded
      simp only [Option.some.injEq] at h
      subst h
      constructor
      · refine w_ctl_drain l _ hi.1 idx hdrains ?_ hnd (fun a' ha' => modify_pc_same _ _ _ _ (by intro s; rfl) a' ha')
          (doneRet_modify _ _ _ (fun s _ => doneRet_intr s .none (by simp)) hdr)
        intro k hk
        have : idx = k := by simpa [Link.ctlDrains] using hk
        exact this.symm
      · exact j_shrink hi.2 (o_rel l _ ht rfl (shr_modify _ _ _ (fun s => setIntr_bytes s _)) rfl rfl rfl) rfl
    · split at h
      · simp only [Option.some.injEq] at h
        subst h
        constructor
        · refine w_ctl_drain l _ hi.1 idx hdrains ?_ hnd (fun a' ha' => modify_pc_same _ _ _ _ (by intro s; rfl) a' ha')
            (doneRet_modify _ _ _ (fun s _ => doneRet_intr s .none (by simp)) hdr)
          intro k hk
          have : idx = k := by simpa [Link.ctlDrains] using hk
          exact this.symm
        · exact j_shrink hi.2 (o_rel l _ ht rfl (shr_modify _ _ _ (fun s => setIntr_bytes s _)) rfl rfl rfl) rfl
      · cases hs : l.stages[idx]? with
        | none => simp [Link.inputOf, hs] at h
        | some s =>
          have hsnr := hi.1.drained idx hdrains s hs
          cases hio : l.inputOf idx with
          | none => simp [hio] at h
          | some rr =>
            obtain ⟨oc, src⟩ := rr
            unfold Link.inputOf at hio
            simp only [hs] at hio
            cases hq' : s.inq with
            | cons c rest =>
              simp only [hq', Option.some.injEq, Prod.mk.injEq] at hio
              obtain ⟨rfl, rfl⟩ := hio
              simp only [Link.inputOf, hs, hq', Link.consume, Bool.not_true, Bool.false_eq_true, if_false,
                Option.some.injEq] at h
              subst h
              constructor
              · refine w_ctl_drain l _ hi.1 idx hdrains ?_ hnd (fun a' ha' => modify_pc_same _ _ _ _ (by intro s; rfl) a' ha')
                  (doneRet_modify _ _ _ (fun s hs => hs) hdr)
                intro k hk
                have : idx = k := by simpa [Link.ctlDrains] using hk
                exact this.symm
              · exact j_shrink hi.2 (o_take_buffered l idx s c rest hs hq' ht hsnr _ rfl) rfl
            | nil =>
              simp only [hq'] at hio
              cases hoff : l.offerTo idx with
              | some c =>
                simp only [hoff, Option.some.injEq, Prod.mk.injEq] at hio
                obtain ⟨rfl, rfl⟩ := hio
                simp only [Link.inputOf, hs, hq', hoff, Link.consume, Bool.not_true, Bool.false_eq_true, if_false,
                  Option.some.injEq] at h
                subst h
                constructor
                · have hwa := w_ack l hi.1 idx now
                  refine w_ctl_drain l _ hi.1 idx hdrains ?_ (by simp [ack_detached, hnd]) ?_ hwa.doneRet
                  · intro k hk
                    have : idx = k := by simpa [Link.ctlDrains] using hk
                    exact this.symm
                  · intro a' ha'
                    simp only at ha'
                    rw [ack_get_self] at ha'
                    exact ⟨a', ha', rfl⟩
                · exact j_shrink hi.2 (o_take_rendezvous l idx now s c hs hq' hoff ht _ rfl) (by simp [ack_sent])
              | none =>
                simp only [hoff] at hio
                split at hio
                · simp only [Option.some.injEq, Prod.mk.injEq] at hio
                  obtain ⟨rfl, rfl⟩ := hio
                  rename_i hic
                  simp only [Link.inputOf, hs, hq', hoff, hic, if_true] at h
                  split at h
                  · simp only [Option.some.injEq] at h
                    subst h
                    refine ⟨w_idle _ rfl hnd (doneRet_modify _ _ _ (fun s hs => hs) hdr), ?_⟩
                    exact j_shrink hi.2 (o_rel l _ ht rfl (shr_modify _ _ _ (fun s => setClosed_bytes s)) rfl rfl rfl) rfl
                  · simp only [Option.some.injEq] at h
                    subst h
                    constructor
                    · refine ⟨fun hd => (by rw [hnd] at hd; cases hd), ?_, doneRet_modify _ _ _ (fun s hs => hs) hdr⟩
                      intro k hk
                      simp [Link.ctlDrains] at hk
                    · exact j_shrink hi.2 (o_rel l _ ht rfl (shr_modify _ _ _ (fun s => setClosed_bytes s)) rfl rfl rfl) rfl
                · cases hio


/-- `RemoveToxic`'s loop takes a chunk from the removed stub's input, whatever the helper's state. -/
theorem o_ctlTakeAlt (l : Link) (hi : OInv l) (now : Int) (l' : Link) (h : l.ctlTakeAlt now = some l') : OInv l' := by
  cases hc : l.ctl with
  | none => rw [ctlTakeAlt_none l now hc] at h; cases h
  | some x =>
    cases x with
    | rmLoop idx tmp dl sg =>
      cases tmp with
      | some c0 => simp [Link.ctlTakeAlt, hc] at h
      | none =>
        have hnd : l.detached = false := not_detached l hi.1 (fun t hh => by rw [hc] at hh; cases hh)
        have hdr : ∀ s ∈ l.stages, DoneRet s := hi.1.doneRet
        have hdrains : l.ctlDrains idx = true := by simp [Link.ctlDrains, hc]
        have ht : tmpOf l.ctl = none := by rw [hc]; rfl
        unfold Link.ctlTakeAlt at h
        simp only [hc] at h
        cases hs : l.stages[idx]? with
        | none => simp [Link.inputOf, hs] at h
        | some s =>
          have hsnr := hi.1.drained idx hdrains s hs
          cases hio : l.inputOf idx with
          | none => simp [hio] at h
          | some rr =>
            obtain ⟨oc, src⟩ := rr
            unfold Link.inputOf at hio
            simp only [hs] at hio
            cases hq' : s.inq with
            | cons c rest =>
              simp only [hq', Option.some.injEq, Prod.mk.injEq] at hio
              obtain ⟨rfl, rfl⟩ := hio
              simp only [Link.inputOf, hs, hq', Link.consume, Bool.not_true, Bool.false_eq_true, if_false,
                Option.some.injEq] at h
              subst h
              constructor
              · refine w_ctl_drain l _ hi.1 idx hdrains ?_ hnd (fun a' ha' => modify_pc_same _ _ _ _ (by intro s; rfl) a' ha')
                  (doneRet_modify _ _ _ (fun s hs => hs) hdr)
                intro k hk
                have : idx = k := by simpa [Link.ctlDrains] using hk
                exact this.symm
              · exact j_shrink hi.2 (o_take_buffered l idx s c rest hs hq' ht hsnr _ rfl) rfl
            | nil =>
              simp only [hq'] at hio
              cases hoff : l.offerTo idx with
              | some c =>
                simp only [hoff, Option.some.injEq, Prod.mk.injEq] at hio
                obtain ⟨rfl, rfl⟩ := hio
                simp only [Link.inputOf, hs, hq', hoff, Link.consume, Bool.not_true, Bool.false_eq_true, if_false,
                  Option.some.injEq] at h
                subst h
                constructor
                · have hwa := w_ack l hi.1 idx now
                  refine w_ctl_drain l _ hi.1 idx hdrains ?_ (by simp [ack_detached, hnd]) ?_ hwa.doneRet
                  · intro k hk
                    have : idx = k := by simpa [Link.ctlDrains] using hk
                    exact this.symm
                  · intro a' ha'
                    simp only at ha'
                    rw [ack_get_self] at ha'
                    exact ⟨a', ha', rfl⟩
                · exact j_shrink hi.2 (o_take_rendezvous l idx now s c hs hq' hoff ht _ rfl) (by simp [ack_sent])
              | none =>
                simp only [hoff] at hio
                split at hio
                · simp only [Option.some.injEq, Prod.mk.injEq] at hio
                  obtain ⟨rfl, rfl⟩ := hio
                  rename_i hic
                  simp only [Link.inputOf, hs, hq', hoff, hic, if_true] at h
                  cases h
                · cases hio

    | _ => simp [Link.ctlTakeAlt, hc] at h

theorem o_ctl_rmDrain (chain : List TCfg) (l : Link) (hi : OInv l) (now : Int) (idx : Nat) (tmp : Option Chunk)
    (dl : Int) (hc : l.ctl = some (.rmDrain idx tmp dl)) (l' : Link)
    (h : l.ctlMove chain now = some l') : OInv l' := by
  have hnd : l.detached = false := not_detached l hi.1 (fun t hh => by rw [hc] at hh; cases hh)
  have hdr : ∀ s ∈ l.stages, DoneRet s := hi.1.doneRet
  have hdrains : l.ctlDrains idx = true := by simp [Link.ctlDrains, hc]
  unfold Link.ctlMove at h
  simp only [hc] at h
  cases tmp with
  | some c0 =>
    simp only at h
    split at h
    · simp only [Option.some.injEq] at h
      subst h
      have heq : ({ l with ctl := some (.rmDrain idx none 0) } : Link) = { l with ctl := l.ctl.map clearTmp } := by
        rw [hc]; rfl
      rw [heq]
      exact ⟨w_fields l _ hi.1 rfl rfl (Or.inr rfl), j_shrink hi.2 (o_clear l hi.1 idx c0 (by rw [hc]; rfl)) rfl⟩
    · cases h
  | none =>
    have ht : tmpOf l.ctl = none := by rw [hc]; rfl
    simp only at h
    split at h
    · rename_i c rest hq
      simp only [Option.some.injEq] at h
      subst h
      cases hs : l.stages[idx]? with
      | none => rw [hs] at hq; cases hq
      | some s =>
        rw [hs] at hq
        simp only [Option.map_some, Option.some.injEq] at hq
        have hsnr := hi.1.drained idx hdrains s hs
        constructor
        · refine w_ctl_drain l _ hi.1 idx hdrains ?_ hnd (fun a' ha' => modify_pc_same _ _ _ _ (by intro s; rfl) a' ha')
            (doneRet_modify _ _ _ (fun s hs => hs) hdr)
          intro k hk
          have : idx = k := by simpa [Link.ctlDrains] using hk
          exact this.symm
        · exact j_shrink hi.2 (o_take_buffered l idx s c rest hs hq ht hsnr _ rfl) rfl
    · -- splice the emptied stub out, restart its predecessor
      simp only [Option.some.injEq] at h
      have hdr' : ∀ s ∈ l.stages.eraseIdx idx, DoneRet s := fun s hs => hdr s (List.mem_of_mem_eraseIdx hs)
      have hshr : (chainBytes (l.stages.eraseIdx idx)) <+ chainBytes l.stages := chain_erase_sub l.stages idx
      have hv0 : l.virt = l.stages := virt_of_notmp l ht
      unfold restartAt at h
      split at h
      · rename_i t _
        subst h
        refine ⟨w_idle _ rfl hnd (doneRet_modify _ _ _ (fun s _ => doneRet_start s t now) hdr'), j_shrink hi.2 ?_ rfl⟩
        simp only [content_eq, hv0]
        rw [virt_of_notmp]
        · refine List.Sublist.append (List.Sublist.refl _) ?_
          refine List.Sublist.append (List.Sublist.append (List.Sublist.refl _) ?_) (List.Sublist.refl _)
          exact (chain_sub _ _ (shr_modify _ _ _ (fun s => start_bytes_sub s t now)).1
            (shr_modify _ _ _ (fun s => start_bytes_sub s t now)).2).trans hshr
        · rfl
      · subst h
        refine ⟨w_idle _ rfl hnd hdr', j_shrink hi.2 ?_ rfl⟩
        simp only [content_eq, hv0]
        rw [virt_of_notmp]
        · refine List.Sublist.append (List.Sublist.refl _) ?_
          exact List.Sublist.append (List.Sublist.append (List.Sublist.refl _) hshr) (List.Sublist.refl _)
        · rfl

theorem o_ctlMove (chain : List TCfg) (l : Link) (hi : OInv l) (now : Int) (l' : Link)
    (h : l.ctlMove chain now = some l') : OInv l' := by
  cases hc : l.ctl with
  | none => simp [Link.ctlMove, hc] at h
  | some x =>
    cases x with
    | addWait t => exact o_ctl_add chain l hi now t hc l' h
    | updWait idx t => exact o_ctl_upd chain l hi now idx t hc l' h
    | rmIntr idx cl => exact o_ctl_rmIntr chain l hi now idx cl hc l' h
    | rmLoop idx tmp dl sg => exact o_ctl_rmLoop chain l hi now idx tmp dl sg hc l' h
    | rmDrain idx tmp dl => exact o_ctl_rmDrain chain l hi now idx tmp dl hc l' h
    | rmWaitStop idx => exact o_ctl_rmWaitStop chain l hi now idx hc l' h

/-- **Every move of every goroutine of a link, whatever its toxics and whatever state it is in,
keeps what the peer has received an in-order part of what was sent.** -/
theorem O_move (l : Link) (chain : List TCfg) (now : Int) (busy : Bool) (l' : Link) (hi : OInv l)
    (h : l.move chain now busy = some l') : OInv l' := by
  unfold Link.move at h
  split at h
  · cases h
  · obtain ⟨f, hf, hfa⟩ := firstSome_some _ l' h
    simp only [List.mem_append, List.mem_cons, List.mem_flatMap, List.mem_reverse, List.mem_range,
      List.not_mem_nil, or_false] at hf
    rcases hf with (hf | hf) | hf
    · rcases hf with rfl | rfl
      · exact o_ctlMove chain l hi now l' hfa
      · exact o_sinkMove l now l' hi hfa
    · obtain ⟨i, _, hf⟩ := hf
      rcases hf with rfl | rfl
      · exact o_stageMove l i now busy l' hi hfa
      · exact o_bufferMove l i now l' hi hfa
    · subst hf
      exact o_sourceMove l now l' hi hfa


/-- … whichever goroutine moves, whichever ready case a `select` picks (every schedule). -/
theorem O_anymove (l : Link) (chain : List TCfg) (now : Int) (busy : Bool) (l' : Link) (hi : OInv l)
    (h : l.AnyMove chain now busy l') : OInv l' := by
  rcases h.2 with h' | h' | ⟨i, h'⟩ | ⟨i, h'⟩ | h' | ⟨i, h'⟩ | ⟨i, h'⟩ | h'
  · exact o_ctlMove chain l hi now l' h'
  · exact o_sinkMove l now l' hi h'
  · exact o_stageMove l i now busy l' hi h'
  · exact o_bufferMove l i now l' hi h'
  · exact o_sourceMove l now l' hi h'
  · exact o_recvAlt l i now l' hi h'
  · exact o_intrAlt l i now l' hi h'
  · exact o_ctlTakeAlt l hi now l' h'

/-! ### The initial state, what the outside does, API calls starting -/

theorem OInv_new (chain : List TCfg) (now : Int) : OInv (Link.new chain now) := by
  constructor
  · apply w_idle _ rfl rfl
    intro s hs
    simp only [Link.new, List.mem_map] at hs
    obtain ⟨t, _, rfl⟩ := hs
    rw [Stage.fresh_start]
    intro h; simp [Stage.fresh] at h
  · unfold J
    have hv : (Link.new chain now).virt = (Link.new chain now).stages := virt_of_notmp _ rfl
    have hcb : chainBytes (Link.new chain now).stages = [] := by
      apply chainBytes_nil_of
      intro s hs
      simp only [Link.new, List.mem_map] at hs
      obtain ⟨t, _, rfl⟩ := hs
      have := start_bytes_sub (Stage.fresh t) t now
      have hf : (Stage.fresh t).bytes = [] := by simp [Stage.bytes, Stage.fresh, Pc.held]
      rw [hf] at this
      exact List.eq_nil_of_sublist_nil this
    simp only [content_eq, hv, hcb]
    simp [Link.new]

theorem OInv_env (l : Link) (hi : OInv l) (q : List Bytes) (eof ready fail cut : Bool) (hi' : Nat) (dr : Bool) :
    OInv { l with srcQ := q, srcEOF := eof, sinkReady := ready, sinkFail := fail, srcCut := cut, cutHi := hi' } :=
  ⟨w_fields l _ hi.1 rfl rfl (Or.inl rfl), hi.2⟩

theorem o_beginUpdate (l : Link) (hi : OInv l) (hc : l.ctl = none) (idx : Nat) (t : TCfg) : OInv (l.beginUpdate idx t) := by
  have hnd : l.detached = false := not_detached l hi.1 (fun t hh => by rw [hc] at hh; cases hh)
  have ht : tmpOf l.ctl = none := by rw [hc]; rfl
  unfold Link.beginUpdate
  constructor
  · refine ⟨fun hd => (by rw [hnd] at hd; cases hd), ?_, doneRet_modify _ _ _ (fun s _ => doneRet_intr s .pending (by simp)) hi.1.doneRet⟩
    intro k hk; simp [Link.ctlDrains] at hk
  · exact j_shrink hi.2 (o_rel l _ ht rfl (shr_modify _ _ _ (fun s => setIntr_bytes s _)) rfl rfl rfl) rfl

theorem o_beginRemove (l : Link) (hi : OInv l) (hc : l.ctl = none) (idx : Nat) (cl : Bool) : OInv (l.beginRemove idx cl) := by
  have hnd : l.detached = false := not_detached l hi.1 (fun t hh => by rw [hc] at hh; cases hh)
  have ht : tmpOf l.ctl = none := by rw [hc]; rfl
  unfold Link.beginRemove
  constructor
  · refine ⟨fun hd => (by rw [hnd] at hd; cases hd), ?_, doneRet_modify _ _ _ (fun s _ => doneRet_intr s .pending (by simp)) hi.1.doneRet⟩
    intro k hk; simp [Link.ctlDrains] at hk
  · exact j_shrink hi.2 (o_rel l _ ht rfl (shr_modify _ _ _ (fun s => setIntr_bytes s _)) rfl rfl rfl) rfl

theorem o_beginAdd (l : Link) (hi : OInv l) (hc : l.ctl = none) (t : TCfg) : OInv (l.beginAdd t) := by
  have ht : tmpOf l.ctl = none := by rw [hc]; rfl
  unfold Link.beginAdd
  simp only
  have hdr0 : ∀ s ∈ l.stages ++ [Stage.fresh t], DoneRet s := by
    intro s hs
    rcases List.mem_append.mp hs with h | h
    · exact hi.1.doneRet s h
    · simp only [List.mem_singleton] at h; subst h; intro hh; simp [Stage.fresh] at hh
  constructor
  · refine ⟨?_, ?_, doneRet_modify _ _ _ (fun s _ => doneRet_intr s .pending (by simp)) hdr0⟩
    · intro _
      refine ⟨⟨t, rfl⟩, ?_⟩
      intro a ha
      simp only [length_modifyAt, List.length_append, List.length_singleton, Nat.add_sub_cancel] at ha
      rw [getElem?_modifyAt] at ha
      have hlast : (l.stages ++ [Stage.fresh t])[l.stages.length]? = some (Stage.fresh t) := by simp
      by_cases hk : l.stages.length = l.stages.length - 1
      · rw [if_pos hk, hlast] at ha
        simp only [Option.map_some, Option.some.injEq] at ha
        subst ha
        simp [Stage.fresh, Pc.running]
      · rw [if_neg hk, hlast] at ha
        cases ha
        simp [Stage.fresh, Pc.running]
    · intro k hk; simp [Link.ctlDrains] at hk
  · refine j_shrink hi.2 ?_ rfl
    have hv0 : l.virt = l.stages := virt_of_notmp l ht
    simp only [content_eq, hv0]
    rw [virt_of_notmp]
    · refine List.Sublist.append (List.Sublist.refl _) ?_
      refine List.Sublist.append (List.Sublist.append (List.Sublist.refl _) ?_) (List.Sublist.refl _)
      refine (chain_sub _ _ (shr_modify _ _ _ (fun s => setIntr_bytes s .pending)).1
        (shr_modify _ _ _ (fun s => setIntr_bytes s .pending)).2).trans ?_
      rw [chainBytes_append, chainBytes_cons, chainBytes_nil]
      have : (Stage.fresh t).bytes = [] := by simp [Stage.bytes, Stage.fresh, Pc.held]
      rw [this]
      simp
    · rfl

/-- Executions of one link with nothing excluded: any toxics, moves of any enabled goroutine at any
time (every schedule; the 5 s give-ups included), everything the peers and the proxy can do to it from outside, and API calls — add,
update, remove of any toxic at any index — each starting when no other is in progress on it. -/
inductive ExecAny (c0 : List TCfg) (l0 : Link) : List TCfg → Link → Prop
  | refl : ExecAny c0 l0 c0 l0
  | move {chain : List TCfg} {l : Link} (now : Int) (busy : Bool) (l' : Link) :
      ExecAny c0 l0 chain l → l.AnyMove chain now busy l' → ExecAny c0 l0 chain l'
  | env {chain : List TCfg} {l : Link} (q : List Bytes) (eof ready fail cut : Bool) (hi' : Nat) :
      ExecAny c0 l0 chain l →
      ExecAny c0 l0 chain { l with srcQ := q, srcEOF := eof, sinkReady := ready, sinkFail := fail, srcCut := cut, cutHi := hi' }
  | add {chain : List TCfg} {l : Link} (t : TCfg) :
      ExecAny c0 l0 chain l → l.ctl = none → ExecAny c0 l0 (chain ++ [t]) (l.beginAdd t)
  | update {chain : List TCfg} {l : Link} (idx : Nat) (t : TCfg) :
      ExecAny c0 l0 chain l → l.ctl = none → ExecAny c0 l0 (chain.set idx t) (l.beginUpdate idx t)
  | remove {chain : List TCfg} {l : Link} (idx : Nat) (cleanup : Bool) :
      ExecAny c0 l0 chain l → l.ctl = none → ExecAny c0 l0 (chain.eraseIdx idx) (l.beginRemove idx cleanup)

theorem OInv_exec {c0 : List TCfg} {l0 : Link} {chain : List TCfg} {l : Link} (h0 : OInv l0)
    (h : ExecAny c0 l0 chain l) : OInv l := by
  induction h with
  | refl => exact h0
  | move now busy l' _ hm ih => exact O_anymove _ _ now busy l' ih hm
  | env q eof ready fail cut hi' _ ih => exact OInv_env _ ih q eof ready fail cut hi' false
  | add t _ hc ih => exact o_beginAdd _ ih hc t
  | update idx t _ hc ih => exact o_beginUpdate _ ih hc idx t
  | remove idx cl _ hc ih => exact o_beginRemove _ ih hc idx cl

/-- **C01 / C02 (nothing is ever duplicated, reordered or altered).**  For every chain of toxics
of every type with any attribute values and toxicity outcomes, and every execution of a
connection's link from its creation — any payload, chunking, timing and schedule; toxic add,
update, remove (reset) at any moment; stubs closing themselves (limit_data, timeout,
reset_peer, slow_close); the sender ending or being cut off; the receiver stalling or its
writes failing; the 5 s give-ups of blocked hand-offs — what the receiving peer has got is at
all times an in-order part (a subsequence) of what the sending peer's socket has yielded. -/
theorem C02_in_order (chain0 : List TCfg) (now0 : Int) {chain : List TCfg} {l : Link}
    (h : ExecAny chain0 (Link.new chain0 now0) chain l) : l.delivered <+ l.sent :=
  J_prefix_part l (OInv_exec (OInv_new chain0 now0) h).2

end Toxi.Link
