import Toxi.Proofs.Lemmas.Toxic

/-!
# C11 — limit_data delivers exactly the first N bytes of a connection

Model: `Toxi.Toxic.step` for `Cfg.limitData` with the per-stub state `StubSt.transmitted`
(`Model/Toxic.lean`), tied to `toxics/limit_data.go` by engine E2.
-/
namespace Toxi.Toxic
open Toxi.Stream (Bytes)

/-- One chunk through an idle limit_data stage whose receiver takes what is offered:
receive the chunk, and if something is offered, complete the send. Returns the new stub
state, the new program counter and the bytes forwarded. -/
def limitCycle (v : Variant) (N : Int) (st : StubSt) (c : Chunk) (now : Int) :
    StubSt × Pc × Bytes :=
  match step v (.limitData N) true st (.idle 0) (.input (some c) now []) with
  | some (st1, .out c' k) =>
    (match step v (.limitData N) true st1 (.out c' k) (.taken now) with
     | some (st2, pc2) => (st2, pc2, c'.data)
     | none => (st1, .crash "unreachable", []))
  | some (st1, pc1) => (st1, pc1, [])
  | none => (st, .crash "unreachable", [])

/-- The number of bytes of a chunk of length `len` that fit the remaining budget. -/
def fits (N tx : Int) (len : Nat) : Nat := min len (N - tx).toNat

/-- **C11 (one chunk).** A chunk `c` arriving at a stage that has forwarded `tx` bytes so
far, under the *current* limit `N` (so an updated limit applies from the next chunk on):
exactly its first `min |c| (max 0 (N − tx))` bytes are forwarded, the count grows by that
number, and the connection is closed iff the budget is then exhausted (hence on the first
data when `N ≤ 0`), otherwise the stage waits for more. -/
theorem C11_step (v : Variant) (N : Int) (st : StubSt) (c : Chunk) (now : Int) :
    limitCycle v N st c now =
      let k := fits N st.transmitted c.data.length
      let tx' := st.transmitted + k
      if N - tx' ≤ 0 then ({ transmitted := tx', closed := true }, .ret, c.data.take k)
      else ({ st with transmitted := tx' }, .idle 0, c.data.take k) := by
  obtain ⟨tx, cl⟩ := st
  obtain ⟨d, ts⟩ := c
  simp only [limitCycle, step, onChunk, fits, if_true]
  by_cases hlt : max 0 (N - tx) < (d.length : Int)
  · -- truncated
    have hk : min d.length (N - tx).toNat = (N - tx).toNat := by omega
    have hk2 : (max 0 (N - tx)).toNat = (N - tx).toNat := by omega
    simp only [hlt, if_true, hk, hk2]
    by_cases hpos : 0 < (N - tx).toNat
    · have hlen : (List.take (N - tx).toNat d).length = (N - tx).toNat := by
        rw [List.length_take]; omega
      have h2 : N - (tx + ((N - tx).toNat : Int)) ≤ 0 := by omega
      simp only [hlen, gt_iff_lt, hpos, if_true, h2]
    · have h0 : (N - tx).toNat = 0 := by omega
      have h3 : N - tx ≤ 0 := by omega
      simp [h0, h3]
  · -- the whole chunk fits
    have hk : min d.length (N - tx).toNat = d.length := by omega
    simp only [hlt, if_false, hk, List.take_length]
    by_cases hpos : d.length > 0
    · simp only [gt_iff_lt] at hpos
      simp only [gt_iff_lt, hpos, if_true]
      by_cases hc : N - (tx + (d.length : Int)) ≤ 0 <;> simp only [hc, if_true, if_false]
    · have h0 : d.length = 0 := by omega
      have hd : d = [] := List.eq_nil_of_length_eq_zero h0
      subst hd
      by_cases hc : N - tx ≤ 0 <;> simp [hc]
/-- Feed successive chunks; once the stub is closed `Pipe` has returned and nothing more
is consumed. -/
def limitRun (v : Variant) (N : Int) : StubSt → List Bytes → StubSt × List Bytes
  | st, [] => (st, [])
  | st, d :: ds =>
    if st.closed then (st, [])
    else
      let r := limitCycle v N st ⟨d, 0⟩ 0
      let r' := limitRun v N r.1 ds
      (r'.1, r.2.2 :: r'.2)

theorem limitRun_closed (v : Variant) (N : Int) (st : StubSt) (h : st.closed = true)
    (ds : List Bytes) : ((limitRun v N st ds).2).flatten = [] := by
  cases ds <;> simp [limitRun, h]

/-- Invariant form of `C11_exact`, for a stage that has already forwarded `tx` bytes. -/
theorem limitRun_take (v : Variant) (N : Int) (ds : List Bytes) (st : StubSt)
    (hopen : st.closed = false) :
    ((limitRun v N st ds).2).flatten = ds.flatten.take (N - st.transmitted).toNat := by
  induction ds generalizing st with
  | nil => simp [limitRun]
  | cons d ds ih =>
    simp only [limitRun, hopen, Bool.false_eq_true, if_false, List.flatten_cons]
    rw [C11_step]
    simp only [fits]
    by_cases hc : N - (st.transmitted + ((min d.length (N - st.transmitted).toNat : Nat) : Int)) ≤ 0
    · simp only [hc, if_true]
      rw [limitRun_closed _ _ _ rfl]
      have hk : min d.length (N - st.transmitted).toNat = (N - st.transmitted).toNat := by omega
      rw [hk, List.append_nil, List.take_append_of_le_length (by omega)]
    · simp only [hc, if_false]
      have hk : min d.length (N - st.transmitted).toNat = d.length := by omega
      rw [ih ⟨st.transmitted + ((min d.length (N - st.transmitted).toNat : Nat) : Int), st.closed⟩ hopen]
      simp only [hk, List.take_length]
      have : (N - st.transmitted).toNat = d.length + (N - (st.transmitted + (d.length : Int))).toNat := by
        omega
      rw [this, List.take_append]
      simp
      exact (List.take_of_length_le (by omega)).symm

/-- **C11 (exactly the first N bytes, independent of chunking).** For every limit `N` and
every way of cutting the stream into chunks (including empty ones), a fresh connection's
receiver gets exactly the first `min(N, total)` bytes — a function of the concatenated
stream only, so two chunkings of the same bytes give the same result. -/
theorem C11_exact (v : Variant) (N : Int) (ds : List Bytes) :
    ((limitRun v N {} ds).2).flatten = ds.flatten.take N.toNat := by
  simpa using limitRun_take v N ds {} rfl

theorem C11_chunking_irrelevant (v : Variant) (N : Int) (ds ds' : List Bytes)
    (h : ds.flatten = ds'.flatten) :
    ((limitRun v N {} ds).2).flatten = ((limitRun v N {} ds').2).flatten := by
  rw [C11_exact, C11_exact, h]

/-- **C11 (the budget is per stub and survives restarts).** Interrupting and restarting
the stage (an update of this toxic, or an add/remove of a neighbour) leaves the count of
forwarded bytes unchanged: `Pipe` re-enters its loop at `idle` with the same stub state. -/
theorem C11_persists (v : Variant) (N N' : Int) (st : StubSt) (carry now : Int) :
    step v (.limitData N) true st (.idle carry) (.interrupt now) = some (st, .ret) ∧
    start (.limitData N') true now = .idle 0 := by
  simp [step, start]

/-- Non-vacuity: limit 5, chunks of 3, 3, 3 bytes: 3 then 2 bytes pass, then closed. -/
example : limitRun .fixed 5 {} [[1,2,3],[4,5,6],[7,8,9]] =
    ({ transmitted := 5, closed := true }, [[1,2,3],[4,5]]) := by decide

end Toxi.Toxic
