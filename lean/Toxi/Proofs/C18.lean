import Toxi.Proofs.Lemmas.Stream

/-!
# C18 — ChanWriter/ChanReader form a lossless FIFO byte pipe

Property theorems only; helper lemmas are in `Lemmas/Stream.lean`.
Model: `Toxi.Stream` (`Model/Stream.lean`), tied to `stream/io_chan.go` by engine E1.
-/
namespace Toxi.Stream

/-- A history is legal when nothing is written or closed after a close
(`ChanWriter.Write`/`Close` on a closed channel panic in Go). -/
def Legal : Pipe → List Op → Prop
  | _, [] => True
  | p, op :: ops =>
    (p.wclosed = true → ∃ m r i, op = .read m r i) ∧ Legal (p.step op).1 ops

/-- **C18 (FIFO, at every moment).** For every sequence of writes (any sizes), closes and
reads with any read-buffer sizes and any availability pattern at the two `select`s:
what the reads returned so far, followed by what is still inside the pipe, is exactly
what was written so far.  Nothing is lost, duplicated, reordered or altered. -/
theorem C18_fifo (ops : List Op) :
    (Pipe.init.run ops).2 ++ (Pipe.init.run ops).1.inflight = written ops := by
  simpa [Pipe.inflight, Pipe.init, RState.init] using run_conserves Pipe.init ops

/-- Hence the bytes read are always a prefix of the bytes written. -/
theorem C18_prefix (ops : List Op) : (Pipe.init.run ops).2 <+: written ops :=
  ⟨_, C18_fifo ops⟩

theorem step_inv (p : Pipe) (op : Op) (hi : p.Inv)
    (hl : p.wclosed = true → ∃ m r i, op = .read m r i) : (p.step op).1.Inv := by
  cases op with
  | write d =>
    intro h
    simp only [Pipe.step, Pipe.stepV] at h
    have := (hi h).1
    obtain ⟨m, r, i, hh⟩ := hl this
    cases hh
  | close =>
    intro h
    simp only [Pipe.step, Pipe.stepV] at h ⊢
    exact ⟨trivial, (hi h).2⟩
  | read m refill intr =>
    intro h
    simp only [Pipe.step, Pipe.stepV] at h ⊢
    generalize hav : p.avail (p.blockingPath .fixed m) refill intr = av at h ⊢
    obtain ⟨q, wc, ⟨buf⟩⟩ := p
    cases buf with
    | none =>
      have := hi rfl
      simp only at this
      simp [readV, this.1, this.2]
    | some b =>
      rcases read_cases b m av with ⟨_, hr⟩ | ⟨_, _, hr⟩ | ⟨_, _, hr⟩ <;> rw [hr] at h ⊢
      · simp at h
      · cases av with
        | closed =>
          obtain ⟨hq, hc⟩ := avail_closed hav
          simp only at hq hc
          simp [hq, hc]
        | chunk d => simp at h
        | empty => simp at h
        | intr => simp at h
      · cases av with
        | closed =>
          obtain ⟨hq, hc⟩ := avail_closed hav
          simp only at hq hc
          simp [hq, hc]
        | chunk d => simp at h
        | empty => simp at h
        | intr => simp at h

theorem run_inv (p : Pipe) (ops : List Op) (hi : p.Inv) (hl : Legal p ops) :
    (p.run ops).1.Inv := by
  induction ops generalizing p with
  | nil => simpa [Pipe.run, Pipe.runV] using hi
  | cons op ops ih =>
    obtain ⟨h1, h2⟩ := hl
    exact ih (p.step op).1 (step_inv p op hi h1) h2

theorem init_inv : Pipe.init.Inv := by
  intro h; simp [Pipe.init, RState.init] at h

/-- **C18 (end of file).** In every legal history, a read reports end-of-file only when
the writer has been closed and *every* byte written has already been returned. -/
theorem C18_eof (ops : List Op) (hl : Legal Pipe.init ops) (m : Nat) (refill intr : Bool)
    (h : ((Pipe.init.run ops).1.step (.read m refill intr)).2.err = .eof) :
    (Pipe.init.run ops).2 = written ops ∧ (Pipe.init.run ops).1.wclosed = true := by
  have hinv := run_inv Pipe.init ops init_inv hl
  have hc := C18_fifo ops
  generalize (Pipe.init.run ops).1 = p at *
  simp only [Pipe.step, Pipe.stepV] at h
  generalize hav : p.avail (p.blockingPath .fixed m) refill intr = av at h
  obtain ⟨q, wc, ⟨buf⟩⟩ := p
  cases buf with
  | none =>
    have := hinv rfl
    simp only at this
    simp [Pipe.inflight, this.2] at hc
    exact ⟨hc, this.1⟩
  | some b =>
    rcases read_cases b m av with ⟨_, hr⟩ | ⟨_, _, hr⟩ | ⟨_, hb, hr⟩ <;> rw [hr] at h
    · simp at h
    · cases av <;> simp at h
    · cases av with
      | closed =>
        obtain ⟨hq, hwc⟩ := avail_closed hav
        simp only at hq hwc
        simp [Pipe.inflight, hq, hb] at hc
        exact ⟨hc, hwc⟩
      | chunk d => simp at h
      | empty => simp at h
      | intr => simp at h

/-- **C18 (end of file is final).** After end-of-file every read reports end-of-file and
returns nothing. -/
theorem C18_eof_sticky (p : Pipe) (h : p.r.buf = none) (m : Nat) (refill intr : Bool) :
    (p.step (.read m refill intr)).2 = ⟨[], .eof⟩ ∧ (p.step (.read m refill intr)).1 = p := by
  obtain ⟨q, wc, ⟨buf⟩⟩ := p
  simp only at h; subst h
  simp [Pipe.step, Pipe.stepV, readV]

/-- **C18 (the closed pipe drains).** Once the writer is closed, a read with a non-empty
buffer never blocks, and it returns data, or consumes a queued chunk, or reports EOF.
With `C18_fifo` and `C18_eof`: the reads return exactly the bytes written and then EOF. -/
theorem C18_closed_progress (p : Pipe) (hc : p.wclosed = true) (m : Nat) (hm : 0 < m)
    (refill : Bool) :
    let r := p.step (.read m refill false)
    r.2.err ≠ .blocked ∧
      (r.2.out ≠ [] ∨ r.2.err = .eof ∨ r.1.queue.length < p.queue.length) := by
  obtain ⟨q, wc, ⟨buf⟩⟩ := p
  simp only at hc; subst hc
  cases buf with
  | none => simp [Pipe.step, Pipe.stepV, readV]
  | some b =>
    simp only [Pipe.step, Pipe.stepV]
    generalize hav : Pipe.avail _ _ _ _ = av
    rcases read_cases b m av with ⟨h1, hr⟩ | ⟨_, hb, hr⟩ | ⟨_, hb, hr⟩ <;> rw [hr]
    · have : b.take m ≠ [] := by
        intro h
        have h1 := h1
        have := congrArg List.length h
        rw [List.length_take, List.length_nil] at this; omega
      simp [this]
    · cases av <;> simp [hb]
    · subst hb
      have hbp : Pipe.blockingPath .fixed ⟨q, true, ⟨some []⟩⟩ m = true := by
        have : ¬ (0 = m) := by omega
        simp [Pipe.blockingPath, earlyReturn, this]
      rw [hbp] at hav
      simp only [Pipe.avail, Pipe.head, if_true, Bool.false_eq_true, if_false] at hav
      cases q with
      | nil => simp at hav; subst hav; simp
      | cons d qs => simp at hav; subst hav; simp

/-- **C18 (interrupt loses nothing).** A read that is interrupted returns no bytes and
leaves every byte inside the pipe where it was. -/
theorem C18_interrupt_lossless (p : Pipe) (m : Nat) (refill intr : Bool)
    (h : (p.step (.read m refill intr)).2.err = .interrupted) :
    (p.step (.read m refill intr)).2.out = [] ∧
      (p.step (.read m refill intr)).1.inflight = p.inflight := by
  have hcons := step_conserves p (.read m refill intr)
  simp only [written, List.append_nil] at hcons
  have hout : (p.step (.read m refill intr)).2.out = [] := by
    simp only [Pipe.step, Pipe.stepV] at h ⊢
    generalize p.avail (p.blockingPath .fixed m) refill intr = av at h ⊢
    obtain ⟨q, wc, ⟨buf⟩⟩ := p
    cases buf with
    | none => simp [readV] at h
    | some b =>
      rcases read_cases b m av with ⟨_, hr⟩ | ⟨_, _, hr⟩ | ⟨_, _, hr⟩ <;> rw [hr] at h ⊢
      · simp at h
      · cases av <;> simp at h
      · cases av <;> simp at h ⊢
  rw [hout] at hcons
  exact ⟨hout, by simpa using hcons⟩

/-- **Regression witness (the defect repaired by the `fix:` commit for C18).** With the
original guard `len(out) <= len(c.buffer)` the pipe loses bytes: writes `ABCDEFGH`,`xyz`
and reads of size 3 with the second chunk already queued return `ABCDEFxyz`. -/
theorem C18_legacy_fails :
    ∃ ops, ¬ ((Pipe.runV .legacy Pipe.init ops).2 <+: written ops) := by
  refine ⟨[.write [65,66,67,68,69,70,71,72], .write [120,121,122],
           .read 3 true false, .read 3 true false, .read 3 true false], ?_⟩
  decide

/-- The same history on the repaired reader returns `ABCDEFGHx`. -/
example :
    (Pipe.init.run [.write [65,66,67,68,69,70,71,72], .write [120,121,122],
       .read 3 true false, .read 3 true false, .read 3 true false]).2
      = [65,66,67,68,69,70,71,72,120] := by decide

/-- Non-vacuity: a legal history with a remainder shorter than the read buffer, a
queued chunk, an interrupt and a close; it ends with EOF after all 5 bytes. -/
example :
    let ops : List Op := [.write [1,2,3], .read 2 true false, .write [4,5], .read 2 true false,
      .read 2 false true, .read 2 true false, .close, .read 2 true false]
    Legal Pipe.init ops ∧ (Pipe.init.run ops).2 = [1,2,3,4,5] ∧
      ((Pipe.init.run ops).1.step (.read 2 true false)).2.err = .eof := by
  refine ⟨?_, by decide, by decide⟩
  simp [Legal, Pipe.init, Pipe.step, Pipe.stepV]

end Toxi.Stream
