import Toxi.Proofs.Lemmas.Toxic

/-!
# C13 — slow_close delays only the close; reset_peer ends with a TCP reset

Stage-level theorems on `Toxi.Toxic.step` (`toxics/slow_close.go`, `toxics/reset_peer.go`),
tied by engine E2.  The socket-level clause (SO_LINGER 0 ⇒ the peers see a reset) is
kernel behaviour: the model ends at the `linger0` flag (`Model/Conn`), engine E6 checks
the errno on real sockets.
-/
namespace Toxi.Toxic

/-- **C13 (slow_close passes data unchanged).** Every chunk is offered as it arrived (same
bytes, same timestamp) and the stage then returns to its main loop. -/
theorem C13_slow_passes (v : Variant) (D : Int) (st : StubSt) (carry : Int) (c : Chunk)
    (now : Int) (draws : List Int) :
    step v (.slowClose D) true st (.idle carry) (.input (some c) now draws)
      = some (st, .out c (.toIdle 0)) ∧
    ∀ now', step v (.slowClose D) true st (.out c (.toIdle 0)) (.taken now') = some (st, .idle 0) := by
  simp [step, onChunk]

/-- **C13 (slow_close withholds the close for `delay` ms).** When the sender closes (at
clock `now`) a timer of exactly `delay` ms is requested; the stub is closed at its firing
and by nothing else: while waiting the stage takes no input, an interrupt makes `Pipe`
return *without* closing (the input channel stays closed, so the restarted stage sees the
end-of-stream again: the close is re-delayed, never lost). -/
theorem C13_slow_delay (v : Variant) (D : Int) (hD : MsOK D) (st : StubSt) (carry now : Int)
    (draws : List Int) :
    step v (.slowClose D) true st (.idle carry) (.input none now draws)
      = some (st, .nap (now + D * ms) .slowClose) ∧
    (∀ d t, step v (.slowClose D) true st (.nap d .slowClose) (.timer t)
      = some ({ st with closed := true }, .ret)) ∧
    (∀ d t, step v (.slowClose D) true st (.nap d .slowClose) (.interrupt t) = some (st, .ret)) ∧
    (∀ d c t ds, step v (.slowClose D) true st (.nap d .slowClose) (.input c t ds) = none) := by
  have hw := wrap_ms D hD
  have h0 : 0 ≤ D * ms := Int.mul_nonneg hD.1 (by decide)
  refine ⟨?_, ?_, ?_, ?_⟩
  · simp [step, hw, Int.max_eq_left h0]
  · intros; simp [step]
  · intros; simp [step]
  · intros; simp [step]

/-- Program counters a reset_peer stage can be in. -/
def ResetPc : Pc → Prop
  | .idle _ | .hold _ | .ret => True
  | _ => False

/-- **C13 (reset_peer delivers nothing).** From start on, whatever arrives, an applied
reset_peer stage never offers a chunk. -/
theorem C13_reset_silent (v : Variant) (T : Int) (st : StubSt) (pc : Pc) (ev : Event)
    (st' : StubSt) (pc' : Pc) (hpc : ResetPc pc)
    (h : step v (.resetPeer T) true st pc ev = some (st', pc')) :
    ResetPc pc' ∧ pc'.offer = none := by
  cases pc <;> simp only [ResetPc] at hpc
  case ret => cases ev <;> simp [step] at h
  case idle carry =>
    cases ev with
    | input c now draws =>
      cases c <;> simp [step, onChunk] at h <;> (obtain ⟨_, rfl⟩ := h; simp [ResetPc, Pc.offer])
    | interrupt now => simp [step] at h; obtain ⟨_, rfl⟩ := h; simp [ResetPc, Pc.offer]
    | timer now => simp [step] at h
    | taken now => simp [step] at h
  case hold d =>
    cases ev with
    | timer now => simp [step] at h; obtain ⟨_, rfl⟩ := h; simp [ResetPc, Pc.offer]
    | input c now draws => simp [step] at h
    | interrupt now => simp [step] at h
    | taken now => simp [step] at h

/-- **C13 (reset_peer timing).** The first thing the sender does — data *or* close — at
clock `now` requests a timer of exactly `timeout` ms; until it fires the stage can be
neither interrupted nor fed; at its firing the stub is closed (which, with SO_LINGER 0 set
when the link was started, aborts the connection). -/
theorem C13_reset_timing (v : Variant) (T : Int) (hT : MsOK T) (st : StubSt) (carry now : Int)
    (c : Option Chunk) (draws : List Int) :
    step v (.resetPeer T) true st (.idle carry) (.input c now draws)
      = some (st, .hold (now + T * ms)) ∧
    (∀ d t, step v (.resetPeer T) true st (.hold d) (.interrupt t) = none) ∧
    (∀ d c t ds, step v (.resetPeer T) true st (.hold d) (.input c t ds) = none) ∧
    (∀ d t, step v (.resetPeer T) true st (.hold d) (.timer t)
      = some ({ st with closed := true }, .ret)) := by
  have hw := wrap_ms T hT
  have h0 : 0 ≤ T * ms := Int.mul_nonneg hT.1 (by decide)
  refine ⟨?_, ?_, ?_, ?_⟩
  · cases c <;> simp [step, onChunk, hw, Int.max_eq_left h0]
  · intros; simp [step]
  · intros; simp [step]
  · intros; simp [step]

/-- Non-vacuity: delay 2000 ms is a legal duration; the close requested at t = 5 ms is due
at 2005 ms. -/
example : MsOK 2000 ∧
    step .fixed (.slowClose 2000) true {} (.idle 0) (.input none (5 * ms) [])
      = some ({}, .nap (2005 * ms) .slowClose) := by
  refine ⟨by unfold MsOK; decide, by decide⟩

end Toxi.Toxic
