import Toxi.Proofs.Lemmas.Toxic

/-!
# C09 — Bandwidth toxic never lets more than rate KB/s through

Two layers.  (1) `Bw`: the arithmetic of `BandwidthToxic.Pipe` as an abstract machine with
three moves — receive a chunk, release a 100 ms instalment, release the final piece — for
*any* clock in which timers are never early; the rate bound is an invariant of it.
(2) `C09_recv`, `C09_instalment`, `C09_final`: the coroutine `Toxi.Toxic.step` performs
exactly these moves (so E2, which ties `step` to `toxics/bandwidth.go`, ties the bound to
the code).  All times in nanoseconds; `R` in KB/s = bytes per millisecond.
-/
namespace Toxi.Toxic
open Toxi.Stream (Bytes)

/-! ## Layer 1: the arithmetic -/

/-- Ghost-instrumented state of the bandwidth loop. -/
structure Bw where
  t0     : Int   -- clock when the first chunk was received
  u      : Int   -- clock at the current program point
  s      : Int   -- the `sleep` variable
  m      : Int   -- bytes of the current chunk not yet released
  q      : Int   -- their price in ns (ghost)
  bytes  : Int   -- bytes released so far (ghost)
  paid   : Int   -- price of the bytes released so far (ghost)
  finals : Int   -- number of final pieces released so far (ghost)
  sIdle  : Int   -- value of `sleep` when the current chunk was received (ghost)

/-- Price of `n` bytes at `R` bytes/ms, as the Go code computes it (integer division). -/
def price (R n : Int) : Int := (n * ms) / R

inductive BwMove where
  | recv (n r : Int)        -- a chunk of n bytes is received at clock r (the stage was idle)
  | instal (f g : Int)      -- the 100 ms timer fires at f, the piece is taken at g
  | final (f g : Int)       -- the last wait ends at f, the piece is taken at g

/-- Enabledness (`FairClock`): clocks are monotone and timers are never early. -/
def Bw.can (R : Int) (b : Bw) : BwMove → Prop
  | .recv n r => b.m = 0 ∧ 0 ≤ n ∧ b.u ≤ r
  | .instal f g => 100 * R < b.m ∧ b.u + 100 * ms ≤ f ∧ f ≤ g
  | .final f g => 0 < b.m ∧ b.m ≤ 100 * R ∧ b.u + max b.s 0 ≤ f ∧ f ≤ g

def Bw.apply (R : Int) (b : Bw) : BwMove → Bw
  | .recv n r => { b with u := r, s := b.s + price R n, m := n, q := price R n, sIdle := b.s }
  | .instal _ g => { b with u := g, s := b.s - 100 * ms, m := b.m - 100 * R, q := b.q - 100 * ms,
                            bytes := b.bytes + 100 * R, paid := b.paid + 100 * ms }
  | .final f g => { b with u := g, s := b.s - (f - b.u), m := 0, q := 0,
                           bytes := b.bytes + b.m, paid := b.paid + b.q, finals := b.finals + 1 }

/-- The loop invariant (appendix A.6 of DESIGN.md). -/
structure Bw.Inv (R : Int) (b : Bw) : Prop where
  owed   : b.t0 + b.paid + b.q ≤ b.u + b.s           -- everything received is scheduled
  idle   : b.sIdle ≤ 0                                 -- oversleep is credited at most once
  carry  : b.s - b.q = b.sIdle ∨ (b.m = 0 ∧ b.s ≤ 0 ∧ b.q = 0)
  qdef   : b.q = price R b.m
  rate   : b.bytes * ms ≤ R * (b.paid + b.finals)      -- bytes released are paid for
  nonneg : 0 ≤ b.m ∧ 0 ≤ b.finals

/-- The moment at which a move releases bytes, and how many have been released after it. -/
def Bw.emits (R : Int) (b : Bw) : BwMove → Option (Int × Int)
  | .recv _ _ => none
  | .instal f _ => some (f, b.bytes + 100 * R)
  | .final f _ => some (f, b.bytes + b.m)

theorem price_split (R m : Int) (hR : 0 < R) : price R m - 100 * ms = price R (m - 100 * R) := by
  unfold price
  have : (m - 100 * R) * ms = m * ms + R * (-(100 * ms)) := by
    simp only [ms]; omega
  rw [this, Int.add_mul_ediv_left _ _ (by omega)]
  omega

theorem price_bound (R m : Int) (hR : 0 < R) : m * ms < R * (price R m + 1) := by
  unfold price
  have h1 := Int.emod_add_mul_ediv (m * ms) R
  have h2 := Int.emod_lt_of_pos (m * ms) hR
  have : R * (m * ms / R + 1) = R * (m * ms / R) + R := by
    rw [Int.mul_add, Int.mul_one]
  omega

/-- **C09 (the invariant is inductive)** for every rate `R ≥ 1`, every chunk size and every
clock with non-early timers. -/
theorem Bw.inv_step (R : Int) (hR : 0 < R) (b : Bw) (mv : BwMove) (hi : b.Inv R) (hc : b.can R mv) :
    (b.apply R mv).Inv R := by
  obtain ⟨owed, idle, carry, qdef, rate, nn⟩ := hi
  cases mv with
  | recv n r =>
    obtain ⟨hm, hn, hu⟩ := hc
    have hq0 : b.q = 0 := by rw [qdef, hm]; simp [price]
    have hs : b.s ≤ 0 := by
      rcases carry with h | h
      · omega
      · exact h.2.1
    refine ⟨?_, ?_, ?_, rfl, rate, ⟨hn, nn.2⟩⟩
    · simp only [Bw.apply]; omega
    · simp only [Bw.apply]; exact hs
    · left; simp only [Bw.apply]; omega
  | instal f g =>
    obtain ⟨hm, hf, hg⟩ := hc
    have hps := price_split R b.m hR
    have hcar : b.s - b.q = b.sIdle := by
      rcases carry with h | h
      · exact h
      · have : 0 < b.m := by omega
        omega
    refine ⟨?_, idle, ?_, ?_, ?_, ⟨by simp only [Bw.apply]; omega, nn.2⟩⟩
    · simp only [Bw.apply]; omega
    · left; simp only [Bw.apply]; omega
    · simp only [Bw.apply]; rw [qdef]; exact hps
    · simp only [Bw.apply]
      have : (b.bytes + 100 * R) * ms = b.bytes * ms + R * (100 * ms) := by
        simp only [ms]; omega
      have h2 : R * (b.paid + 100 * ms + b.finals) = R * (b.paid + b.finals) + R * (100 * ms) := by
        rw [show b.paid + 100 * ms + b.finals = (b.paid + b.finals) + 100 * ms by omega, Int.mul_add]
      omega
  | final f g =>
    obtain ⟨hm0, hm, hf, hg⟩ := hc
    have hpb := price_bound R b.m hR
    refine ⟨?_, idle, ?_, ?_, ?_, ⟨by simp [Bw.apply], by simp only [Bw.apply]; omega⟩⟩
    · simp only [Bw.apply]; omega
    · right; simp only [Bw.apply]; exact ⟨trivial, by omega, trivial⟩
    · simp [Bw.apply, price]
    · simp only [Bw.apply]
      have h1 : (b.bytes + b.m) * ms = b.bytes * ms + b.m * ms := Int.add_mul ..
      have h2 : R * (b.paid + b.q + (b.finals + 1)) = R * (b.paid + b.finals) + R * (b.q + 1) := by
        rw [show b.paid + b.q + (b.finals + 1) = (b.paid + b.finals) + (b.q + 1) by omega, Int.mul_add]
      rw [← qdef] at hpb
      omega

/-- **C09 (rate bound at every release).** Whenever bytes are released, at clock `f`, the
total number released up to and including that piece satisfies
`10⁶ · bytes ≤ R · ((f − T₀) + pieces)`: at most `R` bytes per millisecond elapsed since the
first byte arrived, up to one nanosecond of integer-division slack per released chunk. -/
theorem C09_rate (R : Int) (hR : 0 < R) (b : Bw) (mv : BwMove) (hi : b.Inv R) (hc : b.can R mv)
    (f total : Int) (he : b.emits R mv = some (f, total)) :
    total * ms ≤ R * ((f - b.t0) + (b.apply R mv).finals) := by
  have hnext := Bw.inv_step R hR b mv hi hc
  obtain ⟨owed, idle, carry, qdef, rate, nn⟩ := hi
  have hmono : ∀ x y : Int, x ≤ y → R * x ≤ R * y := fun x y h => Int.mul_le_mul_of_nonneg_left h (by omega)
  cases mv with
  | recv n r => simp [Bw.emits] at he
  | instal f' g =>
    simp only [Bw.emits, Option.some.injEq, Prod.mk.injEq] at he
    obtain ⟨rfl, rfl⟩ := he
    obtain ⟨hm, hf, hg⟩ := hc
    have hcar : b.s - b.q = b.sIdle := by
      rcases carry with h | h
      · exact h
      · have : 0 < b.m := by omega
        omega
    have hr := hnext.rate
    simp only [Bw.apply] at hr ⊢
    have : b.paid + 100 * ms + b.finals ≤ f' - b.t0 + b.finals := by omega
    exact Int.le_trans hr (hmono _ _ this)
  | final f' g =>
    simp only [Bw.emits, Option.some.injEq, Prod.mk.injEq] at he
    obtain ⟨rfl, rfl⟩ := he
    obtain ⟨hm0, hm, hf, hg⟩ := hc
    have hr := hnext.rate
    simp only [Bw.apply] at hr ⊢
    have : b.paid + b.q + (b.finals + 1) ≤ f' - b.t0 + (b.finals + 1) := by omega
    exact Int.le_trans hr (hmono _ _ this)

/-- The initial state (first chunk of `n` bytes received at `r`) satisfies the invariant. -/
theorem Bw.inv_init (R n r : Int) (hn : 0 ≤ n) :
    (Bw.apply R ⟨r, r, 0, 0, 0, 0, 0, 0, 0⟩ (.recv n r)).Inv R := by
  refine ⟨by simp [Bw.apply], by simp [Bw.apply], by left; simp [Bw.apply], rfl, by simp [Bw.apply], ⟨hn, by simp [Bw.apply]⟩⟩

/-- **C09 (not held back longer than the rate requires).** With punctual timers the final
piece of a chunk received by an idle stage at `r` (carry `s ≤ 0`) leaves at
`r + k·100 ms + max 0 (s + price − k·100 ms)`, i.e. no later than `r + price(n)`:
the data is delayed by what the rate requires and the oversleep credit only shortens it. -/
theorem C09_not_late (s price100 k : Int) (hs : s ≤ 0) (hk : 0 ≤ k) (hp : k * (100 * ms) ≤ price100) (r : Int) :
    r + k * (100 * ms) + max (s + price100 - k * (100 * ms)) 0 ≤ r + price100 := by
  omega

/-! ## Layer 2: the coroutine performs these moves -/

/-- Attribute guard: a positive rate whose 100 ms budget fits an int64. -/
structure BwOK (R : Int) : Prop where
  pos : 0 < R
  nowrap : R * 100 < 9223372036854775808

/-- **C09 (receive).** On a chunk of `n` bytes the carry grows by `⌊n·10⁶/R⌋` ns; a chunk
larger than 100 ms worth of budget (`100·R` bytes) enters the instalment loop with a 100 ms
timer, otherwise the final wait of `max carry 0`. -/
theorem C09_recv (v : Variant) (R : Int) (h : BwOK R) (st : StubSt) (carry : Int) (p : Chunk)
    (now : Int) (draws : List Int) :
    step v (.bandwidth R) true st (.idle carry) (.input (some p) now draws) =
      some (st,
        if (p.data.length : Int) > R * 100 then
          .nap (now + 100 * ms) (.bwInstal p (carry + price R p.data.length))
        else
          .nap (now + max (carry + price R p.data.length) 0)
            (.bwFinal p (carry + price R p.data.length) now)) := by
  obtain ⟨hp, hw⟩ := h
  have hw' : wrap64 (R * 100) = R * 100 := wrap64_id _ (by omega) hw
  have hnp : ¬ (R ≤ 0) := by omega
  have htd : Int.tdiv ((p.data.length : Int) * ms) R = (p.data.length : Int) * ms / R :=
    Int.tdiv_eq_ediv_of_nonneg (Int.mul_nonneg (by omega) (by decide))
  have hR : R ≤ Int.tdiv maxInt64 100 := by
    have : Int.tdiv maxInt64 100 = 92233720368547758 := by decide
    omega
  simp only [step, onChunk, bwLoop, hw', hnp, if_false, htd, price, if_true]
  cases v <;> by_cases hl : (p.data.length : Int) > R * 100 <;> simp [hl, Int.le_of_lt hp, hR]

/-- **C09 (instalments).** Each firing of the 100 ms timer releases exactly the first
`100·R` bytes of what is left (same timestamp), keeps the rest, and takes 100 ms off the
carry; after the piece is taken the loop test is made again at the current clock. -/
theorem C09_instalment (v : Variant) (R : Int) (h : BwOK R) (st : StubSt) (d : Int) (p : Chunk)
    (carry t : Int) (hlen : R * 100 < p.data.length) :
    step v (.bandwidth R) true st (.nap d (.bwInstal p carry)) (.timer t) =
      some (st, .out ⟨p.data.take (R * 100).toNat, p.ts⟩
        (.bwLoop ⟨p.data.drop (R * 100).toNat, p.ts⟩ (carry - 100 * ms))) ∧
    ∀ p' c' now, step v (.bandwidth R) true st (.out ⟨p.data.take (R * 100).toNat, p.ts⟩ (.bwLoop p' c')) (.taken now)
      = some (st, bwLoop v R p' c' now) := by
  obtain ⟨hp, hw⟩ := h
  have hw' : wrap64 (R * 100) = R * 100 := wrap64_id _ (by omega) hw
  constructor
  · simp only [step, slice, if_true]
    rw [hw']
    have h1 : (0:Int) ≤ 0 ∧ (0:Int) ≤ R * 100 ∧ R * 100 ≤ (p.data.length : Int) := ⟨by omega, by omega, by omega⟩
    have h2 : (0:Int) ≤ R * 100 ∧ R * 100 ≤ (p.data.length : Int) ∧ (p.data.length : Int) ≤ p.data.length :=
      ⟨by omega, by omega, by omega⟩
    simp only [h1, h2, and_self, if_true, Int.sub_zero, Int.toNat_zero, List.drop_zero]
    have h3 : ((p.data.length : Int) - R * 100).toNat = p.data.length - (R * 100).toNat := by omega
    have h4 : (List.drop (R * 100).toNat p.data).take (p.data.length - (R * 100).toNat)
        = List.drop (R * 100).toNat p.data := by
      apply List.take_of_length_le
      simp
    rw [h3, h4]
  · intro p' c' now
    simp [step]

/-- **C09 (final piece; oversleep is credited exactly once).** When the last wait ends at
`t` the whole remainder is released and the carry becomes `carry − (t − start)`, which is
`≤ 0` whenever the timer was not early. -/
theorem C09_final (v : Variant) (R : Int) (st : StubSt) (d : Int) (p : Chunk) (carry start t : Int) :
    step v (.bandwidth R) true st (.nap d (.bwFinal p carry start)) (.timer t)
      = some (st, .out p (.toIdle (carry - (t - start)))) ∧
    (start + max carry 0 ≤ t → carry - (t - start) ≤ 0) := by
  constructor
  · simp [step]
  · intro h; omega

set_option maxRecDepth 20000 in
/-- Non-vacuity: rate 1 KB/s, a 250-byte chunk received at 0: instalments of 100 bytes at
100 ms and 200 ms, the last 50 bytes after another 50 ms. -/
example : BwOK 1 ∧
    step .fixed (.bandwidth 1) true {} (.idle 0) (.input (some ⟨List.replicate 250 7, 0⟩) 0 [])
      = some ({}, .nap (100 * ms) (.bwInstal ⟨List.replicate 250 7, 0⟩ (250 * ms))) := by
  refine ⟨⟨by decide, by decide⟩, by decide⟩

end Toxi.Toxic
