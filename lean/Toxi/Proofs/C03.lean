import Toxi.Model.Proxy

/-!
# C03 — A disabled or deleted proxy is really down; enabling brings it back

Model: `Model/Proxy.lean` — accept loop, `freeBlocker` and the caller of `stop` as
interleaved goroutines (the tomb handshake of `proxy.go`).  The theorem quantifies over
*every* schedule and every number of clients connecting, dialling and being registered
while `stop` runs.  Tie: engine E6 (real listeners and sockets: after disable/delete/
re-address the old address refuses, both peers of every earlier connection see the end,
no byte is relayed afterwards, the port can be bound again) and engine E4 for the
registry part.  "Refuses" and FIN/RST are kernel behaviour: the model ends at
`listenerOpen = false` and at the proxy having closed the socket.
-/
namespace Toxi.Proxy

/-- The invariant behind the handshake. -/
structure Inv (s : PS) : Prop where
  dead_exited   : s.tombDead = true → s.acc = .exited ∧ s.listenerOpen = false
  closing_dead  : (s.stop = .closing ∨ s.stop = .returned) → s.tombDead = true
  returned_all  : s.stop = .returned → ∀ x ∈ s.registered, x ∈ s.closed
  wait_closed   : (s.fb = .waitAccept ∨ s.fb = .done) → s.listenerOpen = false
  closed_fb     : s.listenerOpen = false → (s.fb = .waitAccept ∨ s.fb = .done)
  exited_fb     : s.acc = .exited → s.fb ≠ .waitDying
  idle_alive    : s.stop = .idle → s.tombDying = false
  dying_fb      : s.tombDying = false → s.fb = .waitDying

theorem inv_init : Inv {} := by
  refine ⟨?_, ?_, ?_, ?_, ?_, ?_, ?_, ?_⟩ <;> simp

theorem inv_step (s : PS) (a : Action) (s' : PS) (hi : Inv s) (h : step s a = some s') : Inv s' := by
  obtain ⟨h1, h2, h3, h4, h4', h5, h6, h7⟩ := hi
  cases a with
  | acceptOk c =>
    simp only [step] at h
    split at h
    · rename_i hc; cases h
      refine ⟨?_, h2, h3, h4, h4', ?_, h6, h7⟩
      · intro ht; have := h1 ht; simp_all
      · intro he; simp at he
    · cases h
  | acceptErr =>
    simp only [step] at h
    split at h
    · rename_i hc; cases h
      refine ⟨?_, h2, h3, h4, h4', ?_, h6, h7⟩
      · intro ht; exact ⟨rfl, (h1 ht).2⟩
      · intro _ hw
        have := h4' (by simpa using hc.2)
        simp_all
    · cases h
  | acceptTransient =>
    simp only [step] at h
    split at h
    · rename_i hc
      split at h
      · cases h; exact ⟨h1, h2, h3, h4, h4', h5, h6, h7⟩
      · rename_i hfb; cases h
        refine ⟨?_, h2, h3, h4, h4', ?_, h6, h7⟩
        · intro ht; have := (h1 ht).2; simp_all
        · intro _; exact hfb
    · cases h
  | dialOk u =>
    simp only [step] at h
    split at h
    · rename_i c hc; cases h
      refine ⟨?_, h2, h3, h4, h4', ?_, h6, h7⟩
      · intro ht; have := (h1 ht).1; simp_all
      · intro he; simp at he
    · cases h
  | dialFail =>
    simp only [step] at h
    split at h
    · rename_i c hc; cases h
      refine ⟨?_, h2, ?_, h4, h4', ?_, h6, h7⟩
      · intro ht; have := (h1 ht).1; simp_all
      · intro hr x hx; exact List.mem_cons_of_mem _ (h3 hr x hx)
      · intro he; simp at he
    · cases h
  | register =>
    simp only [step] at h
    split at h
    · rename_i c u hc; cases h
      refine ⟨?_, h2, ?_, h4, h4', ?_, h6, h7⟩
      · intro ht; have := (h1 ht).1; simp_all
      · intro hr
        -- impossible: stop returned ⇒ tomb dead ⇒ accept loop exited, but it is registering
        have := (h1 (h2 (Or.inr hr))).1
        simp_all
      · intro he; simp at he
    · cases h
  | fbWake =>
    simp only [step] at h
    split at h
    · rename_i hc; cases h
      refine ⟨h1, h2, h3, ?_, ?_, ?_, h6, ?_⟩
      · intro hf; simp at hf
      · intro hl; have := h4' hl; simp_all
      · intro _; simp
      · intro hd; simp_all
    · cases h
  | fbClose =>
    simp only [step] at h
    split at h
    · rename_i hc; cases h
      refine ⟨?_, h2, h3, ?_, ?_, ?_, h6, ?_⟩
      · intro ht; exact ⟨(h1 ht).1, rfl⟩
      · intro _; rfl
      · intro _; exact Or.inl rfl
      · intro _; simp
      · intro hd; have := h7 hd; simp_all
    · cases h
  | fbJoin =>
    simp only [step] at h
    split at h
    · rename_i hc; cases h
      refine ⟨?_, ?_, h3, ?_, ?_, ?_, h6, ?_⟩
      · intro _; exact ⟨hc.2, h4 (Or.inl hc.1)⟩
      · intro _; rfl
      · intro _; exact h4 (Or.inl hc.1)
      · intro _; exact Or.inr rfl
      · intro _; simp
      · intro hd; have := h7 hd; simp_all
    · cases h
  | stopBegin =>
    simp only [step] at h
    split at h
    · rename_i hc; cases h
      refine ⟨h1, ?_, ?_, h4, h4', h5, ?_, ?_⟩
      · intro hs; simp at hs
      · intro hs; simp at hs
      · intro hs; simp at hs
      · intro hd; simp at hd
    · cases h
  | stopWake =>
    simp only [step] at h
    split at h
    · rename_i hc; cases h
      refine ⟨h1, ?_, ?_, h4, h4', h5, ?_, h7⟩
      · intro _; exact hc.2
      · intro hs; simp at hs
      · intro hs; simp at hs
    · cases h
  | stopClose =>
    simp only [step] at h
    split at h
    · rename_i hc; cases h
      refine ⟨h1, ?_, ?_, h4, h4', h5, ?_, h7⟩
      · intro _; exact h2 (Or.inl hc)
      · intro _ x hx; exact List.mem_append_left _ hx
      · intro hs; simp at hs
    · cases h

  | linkEnd x =>
    simp only [step] at h
    split at h
    · cases h
      refine ⟨h1, h2, ?_, h4, h4', h5, h6, h7⟩
      intro hr y hy
      exact List.mem_cons_of_mem _ (h3 hr y (List.mem_filter.mp hy).1)
    · cases h

theorem inv_run (s : PS) (as : List Action) (hi : Inv s) : Inv (run s as) := by
  induction as generalizing s with
  | nil => exact hi
  | cons a as ih =>
    simp only [run]
    split
    · rename_i s' h; exact ih s' (inv_step s a s' hi h)
    · exact ih s hi

/-- **C03 (down means down, for every schedule).** For every interleaving of the accept loop,
`freeBlocker` and a caller of `stop`, with any number of clients connecting, being dialled
and registered meanwhile: once `stop` has returned, the listener is closed, the accept loop
has exited (so no connection is accepted or registered any more), and every socket in the
proxy's connection registry has been closed by the proxy. -/
theorem C03_down (as : List Action) (h : (run {} as).stop = .returned) :
    (run {} as).listenerOpen = false ∧ (run {} as).acc = .exited ∧
    ∀ x ∈ (run {} as).registered, x ∈ (run {} as).closed := by
  have hi := inv_run {} as inv_init
  have hd := hi.closing_dead (Or.inr h)
  exact ⟨(hi.dead_exited hd).2, (hi.dead_exited hd).1, hi.returned_all h⟩

/-- Every socket that was ever put into the proxy's registry is still there or has been closed:
a finished link unregisters exactly the socket it has just closed. -/
def EverInv (s : PS) : Prop := ∀ x ∈ s.everReg, x ∈ s.registered ∨ x ∈ s.closed

theorem ever_step (s : PS) (a : Action) (s' : PS) (hi : EverInv s) (h : step s a = some s') : EverInv s' := by
  have keep : ∀ t : PS, t.everReg = s.everReg → (∀ x, x ∈ s.registered → x ∈ t.registered ∨ x ∈ t.closed) →
      (∀ x, x ∈ s.closed → x ∈ t.closed) → EverInv t := by
    intro t he hr hc x hx
    rw [he] at hx
    rcases hi x hx with h' | h'
    · exact hr x h'
    · exact .inr (hc x h')
  cases a with
  | register =>
    simp only [step] at h
    split at h
    · rename_i c u _; cases h
      intro x hx
      simp only [List.mem_cons] at hx ⊢
      rcases hx with rfl | rfl | hx
      · exact .inl (.inl rfl)
      · exact .inl (.inr (.inl rfl))
      · rcases hi x hx with h' | h'
        · exact .inl (.inr (.inr h'))
        · exact .inr h'
    · cases h
  | linkEnd y =>
    simp only [step] at h
    split at h
    · cases h
      refine keep _ rfl ?_ (fun x hx => List.mem_cons_of_mem _ hx)
      intro x hx
      by_cases hxy : x = y
      · subst hxy; exact .inr (List.mem_cons_self ..)
      · exact .inl (List.mem_filter.mpr ⟨hx, by simpa using hxy⟩)
    · cases h
  | stopClose =>
    simp only [step] at h
    split at h
    · cases h
      exact keep _ rfl (fun x hx => .inl hx) (fun x hx => List.mem_append_right _ hx)
    · cases h
  | dialFail =>
    simp only [step] at h
    split at h
    · cases h
      exact keep _ rfl (fun x hx => .inl hx) (fun x hx => List.mem_cons_of_mem _ hx)
    · cases h
  | acceptOk c =>
    simp only [step] at h
    split at h
    · cases h; exact keep _ rfl (fun x hx => .inl hx) (fun x hx => hx)
    · cases h
  | acceptErr =>
    simp only [step] at h
    split at h
    · cases h; exact keep _ rfl (fun x hx => .inl hx) (fun x hx => hx)
    · cases h
  | acceptTransient =>
    simp only [step] at h
    split at h
    · split at h <;> (cases h; exact keep _ rfl (fun x hx => .inl hx) (fun x hx => hx))
    · cases h
  | dialOk u =>
    simp only [step] at h
    split at h
    · cases h; exact keep _ rfl (fun x hx => .inl hx) (fun x hx => hx)
    · cases h
  | fbWake =>
    simp only [step] at h
    split at h
    · cases h; exact keep _ rfl (fun x hx => .inl hx) (fun x hx => hx)
    · cases h
  | fbClose =>
    simp only [step] at h
    split at h
    · cases h; exact keep _ rfl (fun x hx => .inl hx) (fun x hx => hx)
    · cases h
  | fbJoin =>
    simp only [step] at h
    split at h
    · cases h; exact keep _ rfl (fun x hx => .inl hx) (fun x hx => hx)
    · cases h
  | stopBegin =>
    simp only [step] at h
    split at h
    · cases h; exact keep _ rfl (fun x hx => .inl hx) (fun x hx => hx)
    · cases h
  | stopWake =>
    simp only [step] at h
    split at h
    · cases h; exact keep _ rfl (fun x hx => .inl hx) (fun x hx => hx)
    · cases h

theorem ever_run (s : PS) (as : List Action) (hi : EverInv s) : EverInv (run s as) := by
  induction as generalizing s with
  | nil => exact hi
  | cons a as ih =>
    simp only [run]
    split
    · rename_i s' h; exact ih s' (ever_step s a s' hi h)
    · exact ih s hi

/-- **C03 (every connection the proxy ever had is closed).**  For every schedule — clients
connecting, links finishing one direction at a time and unregistering the socket they have just
closed, the caller of `stop` — once `stop` has returned, every socket that was ever registered
(client side and upstream side of every connection) has been closed by the proxy. -/
theorem C03_all_closed (as : List Action) (h : (run {} as).stop = .returned) :
    ∀ x ∈ (run {} as).everReg, x ∈ (run {} as).closed := by
  intro x hx
  rcases ever_run {} as (fun _ h' => by cases h') x hx with h' | h'
  · exact (inv_run {} as inv_init).returned_all h x h'
  · exact h'

/-- Non-vacuity: one direction of a connection ends (its link closes socket 2 and unregisters
it) before `stop` runs; `stop` then closes the other socket. -/
example :
    let s := run {} [.acceptOk 1, .dialOk 2, .register, .linkEnd 2, .stopBegin, .fbWake, .fbClose, .acceptErr,
                     .fbJoin, .stopWake, .stopClose]
    s.stop = .returned ∧ s.everReg = [1, 2] ∧ s.registered = [1] ∧ (1 ∈ s.closed ∧ 2 ∈ s.closed) := by decide

/-- **C03 (nothing is accepted after the listener closed).** -/
theorem C03_no_accept_after_close (s : PS) (c : Nat) (h : s.listenerOpen = false) :
    step s (.acceptOk c) = none := by
  simp [step, h]

/-- **C03 (every accepted client is either refused-and-closed or registered before `stop`
can close connections).** A client taken by `Accept` is in exactly one of: still being
dialled/registered, closed (dial failed), or registered; and `stop` cannot reach its
closing phase while the accept loop is still working on one. -/
theorem C03_no_orphan (as : List Action) (h : (run {} as).stop = .closing ∨ (run {} as).stop = .returned) :
    (run {} as).acc = .exited := by
  have hi := inv_run {} as inv_init
  exact (hi.dead_exited (hi.closing_dead h)).1

/-- Non-vacuity: a schedule in which a client is accepted and registered *while* stop is
already waiting, and is closed by stop. -/
example :
    let s := run {} [.acceptOk 1, .stopBegin, .fbWake, .dialOk 2, .fbClose, .register, .acceptErr,
                     .fbJoin, .stopWake, .stopClose]
    s.stop = .returned ∧ s.registered = [1, 2] ∧ s.closed = [1, 2] := by decide

/-- **C07 (an accept error that is not the shutdown does not end the proxy).** While the proxy
has not been asked to stop, a failed `Accept` (out of file descriptors, aborted connection)
leaves the accept loop accepting and the listener open: the proxy keeps serving. -/
theorem C07_transient_accept_error_keeps_accepting (s : PS) (h : s.acc = .accepting) (hl : s.listenerOpen = true)
    (hf : s.fb = .waitDying) : step s .acceptTransient = some s := by
  simp [step, h, hl, hf]

/-- … and the stop handshake stays correct whatever accept errors happen meanwhile
(`C03_down` quantifies over schedules that contain them). -/
example :
    let s := run {} [.acceptTransient, .acceptOk 1, .dialOk 2, .register, .acceptTransient, .stopBegin, .fbWake,
                     .acceptTransient, .fbClose, .fbJoin, .stopWake, .stopClose]
    s.stop = .returned ∧ s.acc = .exited ∧ s.closed = [1, 2] := by decide

end Toxi.Proxy
