import Toxi.Proofs.C12
import Toxi.Proofs.Lemmas.Conserve
/-
C07 — nothing a client or peer sends can take the service down.

Stage level (this file): with the repaired guards no attribute value — zero, negative, larger
than the data, up to the ends of int64 — and no order of events can make a toxic's `Pipe`
panic or recurse for ever: every step from a well-formed program counter leads to a
well-formed one (`crash` is not well-formed).  The original code did crash: witnesses below,
each replayed on the real code by engine E2 in its wild-attribute mode before the repair.

API level: `Toxi.Api.step` is a total function — every request gets an answer — and engine E4
compares it with the real handlers on fuzzed bodies (C05/C06).  Process level: engine E9 runs
the real server binary as a child process (see DESIGN.md).
-/
namespace Toxi.Toxic

/-! ### The original code: crashes -/

/-- A slicer whose size_variation exceeds its average_size recursed for ever on a 14-byte
chunk (draw 0): in Go, stack overflow — the process dies. -/
theorem C07_slicer_variation_diverges : ∀ fuel, slicerChunk false 3 7 fuel 0 14 [] = .outOfFuel := by
  intro fuel
  induction fuel with
  | zero => rfl
  | succ n ih =>
    unfold slicerChunk
    have h1 : Int.tdiv (14 - 0) 2 = 7 := by decide
    have h2 : wrap64 (7 * 2) = 14 := by decide
    have h3 : wrap64 14 = 14 := by decide
    cases n with
    | zero => simp [slicerChunk, h1, h2, h3]
    | succ m =>
      have hl : slicerChunk false 3 7 (m + 1) 0 0 [] = .ok [(0, 0)] [] := by
        simp [slicerChunk]
      simp [h1, h2, h3, hl, ih]

/-- bandwidth with rate −1: the first instalment is `p.Data[:-100]` — slice bounds out of
range, the process dies. -/
theorem C07_bandwidth_negative_rate_panics :
    (step .legacy (.bandwidth (-1)) true {} (.idle 0) (.input (some ⟨[1, 2, 3], 0⟩) 0 [])).map (·.2)
      = some (.nap (100 * ms) (.bwInstal ⟨[1, 2, 3], 0⟩ 0)) ∧
    (step .legacy (.bandwidth (-1)) true {} (.nap (100 * ms) (.bwInstal ⟨[1, 2, 3], 0⟩ 0)) (.timer (100 * ms))).map (·.2)
      = some (.crash "slice bounds out of range (bandwidth)") := by
  decide

/-- latency with jitter 2^62: `rand.Int63n(jitter*2)` is called with −2^63 — panic. -/
theorem C07_latency_huge_jitter_panics :
    (step .legacy (.latency 0 4611686018427387904) true {} (.idle 0) (.input (some ⟨[1], 0⟩) 0 [5])).map (·.2)
      = some (.crash "rand.Int63n: invalid argument") := by
  decide

/-- The repaired code on the same inputs: one piece / pass-through / the plain latency. -/
example : slicerChunk true 3 7 (slicerFuel 14) 0 14 [] ≠ .outOfFuel := by decide
example : (step .fixed (.bandwidth (-1)) true {} (.idle 0) (.input (some ⟨[1, 2, 3], 0⟩) 0 [])).map (·.2)
    = some (.nap 0 (.bwFinal ⟨[1, 2, 3], 0⟩ 0 0)) := by decide
example : (step .fixed (.latency 0 4611686018427387904) true {} (.idle 0) (.input (some ⟨[1], 0⟩) 0 [5])).map (·.2)
    = some (.nap 0 (.latency ⟨[1], 0⟩ 0 0)) := by decide

/-! ### The repaired code: no attribute value, no event order reaches `crash` -/

set_option hygiene false in
macro "wf_close" : tactic => `(tactic|
  ((try split at h) <;> (try split at h) <;> (try split at h) <;> (try simp at h) <;> (try (obtain ⟨_, rfl⟩ := h)) <;>
   (first | exact (slicerSend_ok _ _ _ _ (by simpa [PcWF] using hwf)).2.1 _ | (simpa [PcWF] using hwf) | simp [PcWF, bwLoop_neg] | skip)))

/-- The toxics that are not data-preserving (timeout, limit_data, reset_peer: they drop,
truncate or close): their steps keep the program counter well-formed too. -/
theorem step_wf_lossy (cfg : Cfg) (hl : ¬ Safe cfg) (st : StubSt) (pc : Pc) (ev : Event)
    (st' : StubSt) (pc' : Pc) (hwf : PcWF cfg pc)
    (h : step .fixed cfg true st pc ev = some (st', pc')) : PcWF cfg pc' := by
  cases cfg <;> simp [Safe] at hl
  all_goals (cases pc <;> cases ev <;> simp [step] at h)
  all_goals (try (obtain ⟨_, rfl⟩ := h; simp [PcWF]; done))
  case timeout.idle.input => rename_i c _ _; cases c <;> simp [step, onChunk] at h <;> wf_close
  case timeout.idleT.input => rename_i c _ _; cases c <;> simp [step, onChunk] at h <;> wf_close
  case limitData.idle.input => rename_i c _ _; cases c <;> simp [step, onChunk] at h <;> wf_close
  case limitData.idleT.input => simp [PcWF] at hwf
  case resetPeer.idle.input => rename_i c _ _; cases c <;> simp [step, onChunk] at h <;> wf_close
  case resetPeer.idleT.input => simp [PcWF] at hwf
  case timeout.out.taken => rename_i k _; cases k <;> simp at h <;> wf_close
  case limitData.out.taken => rename_i k _; cases k <;> simp at h <;> wf_close
  case resetPeer.out.taken => rename_i k _; cases k <;> simp at h <;> wf_close
  all_goals (rename_i w _; cases w <;> simp [step] at h <;> wf_close)

/-- The configuration a stub actually runs: the toxic, or a noop when the toxicity draw
said "not this connection". -/
def effective (cfg : Cfg) (active : Bool) : Cfg := if active then cfg else .noop

theorem step_effective (cfg : Cfg) (active : Bool) (st : StubSt) (pc : Pc) (ev : Event) :
    step .fixed cfg active st pc ev = step .fixed (effective cfg active) true st pc ev := by
  cases active <;> simp [step, effective]

/-- **C07 (no toxic can crash the process).** For every toxic type and *every* attribute
value, every toxicity outcome, every stub state, every well-formed program counter and every
event the stage can receive: the next program counter is well-formed — in particular it is
not `crash` (no panic, no unbounded recursion).  Together with `start_wf` this covers every
reachable state of every stub of every link. -/
theorem C07_step_never_crashes (cfg : Cfg) (active : Bool) (st : StubSt) (pc : Pc) (ev : Event)
    (st' : StubSt) (pc' : Pc) (hwf : PcWF (effective cfg active) pc)
    (h : step .fixed cfg active st pc ev = some (st', pc')) :
    PcWF (effective cfg active) pc' ∧ ∀ w, pc' ≠ .crash w := by
  rw [step_effective] at h
  have hwf' : PcWF (effective cfg active) pc' := by
    by_cases hs : Safe (effective cfg active)
    · exact (step_conserves _ hs st pc ev st' pc' hwf h).1
    · exact step_wf_lossy _ hs st pc ev st' pc' hwf h
  refine ⟨hwf', ?_⟩
  intro w hw
  subst hw
  simp [PcWF] at hwf'

/-- Every stub starts at a well-formed program counter. -/
theorem start_wf (cfg : Cfg) (active : Bool) (now : Int) : PcWF (effective cfg active) (start cfg active now) := by
  cases active
  · simp [start, effective, PcWF]
  · cases cfg with
    | timeout t => by_cases hp : wrap64 (t * ms) > 0 <;> simp [start, effective, PcWF, hp]
    | _ => simp [start, effective, PcWF]

/-- … hence along every run. -/
theorem C07_run_never_crashes (cfg : Cfg) (active : Bool) :
    ∀ (evs : List Event) (st : StubSt) (pc : Pc), PcWF (effective cfg active) pc →
      ∀ st' pc', (evs.foldlM (fun (s : StubSt × Pc) ev => step .fixed cfg active s.1 s.2 ev) (st, pc)) = some (st', pc') →
        ∀ w, pc' ≠ .crash w := by
  intro evs
  induction evs with
  | nil =>
    intro st pc hwf st' pc' h w hw
    simp at h
    obtain ⟨_, rfl⟩ := h
    subst hw
    simp [PcWF] at hwf
  | cons ev evs ih =>
    intro st pc hwf st' pc' h
    simp only [List.foldlM_cons, Option.bind_eq_bind] at h
    cases hs : step .fixed cfg active st pc ev with
    | none => simp [hs] at h
    | some r =>
      obtain ⟨st1, pc1⟩ := r
      simp only [hs, Option.bind_some] at h
      exact ih st1 pc1 (C07_step_never_crashes cfg active st pc ev st1 pc1 hwf hs).1 st' pc' h

end Toxi.Toxic
