import Toxi.Proofs.Lemmas.Toxic
import Toxi.Model.StageEnv

/-!
# C14 — Toxicity is the per-connection probability that a toxic applies

`ToxicStub.Run` draws `rand.Float32()` once per (re)start and runs the whole `Pipe` either
as the toxic or as a noop.  In the model the draw is an input (`Frac`, an exact rational:
every float32 is one) and `active := draw < toxicity`; engine E2 scripts the draw on both
sides of the threshold and E3 checks that an update restarts the stage with a fresh draw.
Trusted, not proved: that `rand.Float32` is uniform on the multiples of 2⁻²⁴ in [0,1) and
independent between calls.
-/
namespace Toxi.Toxic

/-- **C14 (all or nothing).** A stage whose draw was not below the toxicity behaves, for
every event at every program counter, exactly like the noop toxic — whatever the
configured toxic is; there is no mixture within one run. -/
theorem C14_inactive_is_noop (v : Variant) (cfg : Cfg) (st : StubSt) (pc : Pc) (ev : Event) :
    step v cfg false st pc ev = step v .noop true st pc ev := by
  simp [step]

theorem C14_inactive_start (cfg : Cfg) (now : Int) : start cfg false now = start .noop true now := by
  simp [start]

/-- **C14 (toxicity 0 never applies, toxicity 1 always).** Every value of `rand.Float32`
lies in `[0, 1)`. -/
theorem C14_zero (draw : Frac) (hd : 0 < draw.den) (h0 : 0 ≤ draw.num) :
    Frac.lt draw ⟨0, 1⟩ = false := by
  simp only [Frac.lt, decide_eq_false_iff_not, Int.mul_one, Int.zero_mul, Int.not_lt]
  exact h0

theorem C14_one (draw : Frac) (hd : 0 < draw.den) (h1 : draw.num < draw.den) :
    Frac.lt draw ⟨1, 1⟩ = true := by
  simp only [Frac.lt, decide_eq_true_eq, Int.mul_one, Int.one_mul]
  exact h1

/-- **C14 (the decision).** With toxicity `p = a/b` and a draw `k/2²⁴`, the toxic is applied
iff `k·b < a·2²⁴`, i.e. iff `k/2²⁴ < p`. -/
theorem C14_decision (k a b : Int) (hb : 0 < b) :
    Frac.lt ⟨k, 16777216⟩ ⟨a, b⟩ = true ↔ k * b < a * 16777216 := by
  simp [Frac.lt]

/-- Number of draws `k/n` (`k < n`) for which a toxic of toxicity `a/b` is applied. -/
def applied (a b n : Nat) : Nat := ((List.range n).filter (fun k => decide (k * b < a * n))).length

theorem countLt (n c : Nat) : ((List.range n).filter (fun k => decide (k < c))).length = min n c := by
  induction n with
  | zero => simp
  | succ n ih =>
    rw [List.range_succ, List.filter_append, List.length_append, ih]
    by_cases h : n < c
    · simp [h]; omega
    · simp [h]; omega

/-- **C14 (probability).** Under a draw uniform on `{0, 1/n, …, (n−1)/n}` (Go: `n = 2²⁴`)
the number of draws that apply a toxic of toxicity `p = a/b ≤ 1` is `⌈p·n⌉`: the
probability of being affected is `p` up to the granularity `1/n`. -/
theorem C14_measure (a b n : Nat) (hb : 0 < b) (hab : a ≤ b) :
    applied a b n = (a * n + b - 1) / b ∧
    a * n ≤ applied a b n * b ∧ applied a b n * b < a * n + b := by
  have key : ∀ k, (k * b < a * n) ↔ k < (a * n + b - 1) / b := by
    intro k
    rw [Nat.lt_div_iff_mul_lt hb]
    omega
  have happ : applied a b n = min n ((a * n + b - 1) / b) := by
    unfold applied
    rw [← countLt]
    congr 1
    apply List.filter_congr
    intro k _
    simp [key]
  have hle : (a * n + b - 1) / b ≤ n := by
    have h1 : a * n ≤ b * n := Nat.mul_le_mul_right n hab
    have h2 : (n + 1) * b = b * n + b := by rw [Nat.add_mul, Nat.one_mul, Nat.mul_comm]
    have : (a * n + b - 1) / b < n + 1 := by
      rw [Nat.div_lt_iff_lt_mul hb, h2]; omega
    omega
  rw [happ, Nat.min_eq_right hle]
  refine ⟨rfl, ?_, ?_⟩
  · have := Nat.div_add_mod (a * n + b - 1) b
    have hm := Nat.mod_lt (a * n + b - 1) hb
    rw [Nat.mul_comm] at this
    omega
  · have := Nat.div_mul_le_self (a * n + b - 1) b
    omega

/-- Non-vacuity: toxicity 0.3 (as float32: 10066330/2²⁵) against draws on both sides. -/
example : Frac.lt ⟨5033164, 16777216⟩ ⟨10066330, 33554432⟩ = true ∧
          Frac.lt ⟨5033165, 16777216⟩ ⟨10066330, 33554432⟩ = false := by decide

end Toxi.Toxic
