import Toxi.Model.Conc
/-
C16 — concurrent requests on a proxy take effect atomically.

Model: `Model/Conc.lean`, the handlers of `api.go` as sequences of blocks (what each lock
makes atomic), over the sequential model `Toxi.Api.step`.  Tie: engine E7 issues overlapping
requests against the real handlers and searches, first for a one-at-a-time order under the
sequential model, then for an interleaving of the handlers' blocks under this model, that
reproduces every status, the final registry and the bound ports; facts `tie_collection`,
`tie_toxic_json`, `tie_update` pin the lock discipline the blocks stand for.
-/
namespace Toxi.Conc
open Toxi.Api

/-- **C16 (single-block requests are atomic).** Create, delete, single-entry populate, reads
and reset run as one block: their whole effect on the registry and their answer are those of
the sequential handler at the moment the block runs — whatever else is in flight. -/
theorem C16_single_block_atomic (v : UpdVariant) (e : Env) (c : CState) (r : Request)
    (hk : kindOf r = .single) (hl : c.locked = []) :
    advance v e c r .start =
      (let e' : Env := { e with busy := e.busy ++ c.zombies }
       ({ c with s := (step v e' c.s r).1, epochs := reEpoch c.epochs c.s (step v e' c.s r).1,
                 dead := c.dead ++ retired c.epochs c.s (step v e' c.s r).1 },
        .done (step v e' c.s r).2)) := by
  simp only [advance, hk, hl]
  simp
  split <;> rfl

/-- In particular: of two overlapping creates of one name, whichever block runs second sees
the first one's proxy and is refused (the sequential handler answers 409 on an existing name,
`C05_create_dup_409`), and similarly for deletes (404 on an absent name). -/
example (v : UpdVariant) (e : Env) (c : CState) (r : Request) (hk : kindOf r = .single) (hl : c.locked = []) :
    (advance v e c r .start).2.isDone = true := by
  rw [C16_single_block_atomic v e c r hk hl]; simp [Phase.isDone]

/-- A toxic operation's second block, on a proxy that is still registered, is the sequential
handler on the registry as it is then. -/
theorem C16_toxic_effect_atomic (v : UpdVariant) (e : Env) (c : CState) (r : Request) (n : String)
    (obj cur : ProxyRec) (ep : Nat) (hk : kindOf r = .toxic n) (hl : c.live n ep = some cur) :
    advance v e c r (.found obj ep) =
      (let e' : Env := { e with busy := e.busy ++ c.zombies }
       ({ c with s := (step v e' c.s r).1 }, .done (step v e' c.s r).2)) := by
  simp [advance, hk, hl]

/-! ### The block model refines the sequential model -/

theorem env_eta (e : Env) : ({ e with busy := e.busy ++ [] } : Env) = e := by
  cases e; simp

@[simp] theorem advance_done (v : UpdVariant) (e : Env) (c : CState) (r : Request) (resp : Response) :
    advance v e c r (.done resp) = (c, .done resp) := by
  simp [advance]

theorem kindOf_toxic_inv (r : Request) (n : String) (h : kindOf r = .toxic n) :
    r.browser = false ∧
    ((r.path = ["proxies", n, "toxics"] ∧ r.method = .post) ∨
     (∃ t, r.path = ["proxies", n, "toxics", t] ∧ (r.method = .post ∨ r.method = .patch ∨ r.method = .delete))) := by
  unfold kindOf at h
  split at h
  · simp at h
  · rename_i ms hms
    split at h
    · simp at h
    · rename_i hc
      simp only [Bool.or_eq_true, Bool.not_eq_true', not_or, Bool.not_eq_false] at hc
      refine ⟨by simpa using hc.2, ?_⟩
      split at h <;> simp at h
      · rename_i n' heq hng
        subst h
        rw [heq] at hms
        simp only [routeMethods, Option.some.injEq] at hms
        subst hms
        left
        refine ⟨heq, ?_⟩
        have := hc.1
        have hg : r.method ≠ .get := fun hh => hng hh
        cases hm : r.method <;> rw [hm] at this hg <;> first | rfl | (exact absurd this (by decide)) | (exact absurd rfl hg)
      · rename_i n' t heq hng
        subst h
        rw [heq] at hms
        simp only [routeMethods, Option.some.injEq] at hms
        subst hms
        right
        refine ⟨t, heq, ?_⟩
        have := hc.1
        have hg : r.method ≠ .get := fun hh => hng hh
        cases hm : r.method <;> rw [hm] at this hg <;>
          first | exact Or.inl rfl | exact Or.inr (Or.inl rfl) | exact Or.inr (Or.inr rfl) | (exact absurd this (by decide)) | (exact absurd rfl hg)

theorem kindOf_update_inv (r : Request) (n : String) (h : kindOf r = .update n) :
    r.browser = false ∧ r.path = ["proxies", n] ∧ (r.method = .post ∨ r.method = .patch) := by
  unfold kindOf at h
  split at h
  · simp at h
  · rename_i ms hms
    split at h
    · simp at h
    · rename_i hc
      simp only [Bool.or_eq_true, Bool.not_eq_true', not_or, Bool.not_eq_false] at hc
      refine ⟨by simpa using hc.2, ?_⟩
      split at h <;> simp at h
      rename_i n' heq hng hnd
      subst h
      rw [heq] at hms
      simp only [routeMethods, Option.some.injEq] at hms
      subst hms
      refine ⟨heq, ?_⟩
      have := hc.1
      have hg : r.method ≠ .get := fun hh => hng hh
      have hd : r.method ≠ .delete := fun hh => hnd hh
      cases hm : r.method <;> rw [hm] at this hg hd <;>
        first | exact Or.inl rfl | exact Or.inr rfl | (exact absurd this (by decide)) | (exact absurd rfl hg) | (exact absurd rfl hd)

@[simp] theorem beq_post_get : (Method.post == Method.get) = false := by decide
@[simp] theorem beq_patch_get : (Method.patch == Method.get) = false := by decide
@[simp] theorem beq_patch_post : (Method.patch == Method.post) = false := by decide
@[simp] theorem beq_delete_get : (Method.delete == Method.get) = false := by decide
@[simp] theorem beq_delete_post : (Method.delete == Method.post) = false := by decide
@[simp] theorem beq_delete_patch : (Method.delete == Method.patch) = false := by decide

/-- A toxic-kind request on an absent proxy: the sequential handler answers 404 and changes nothing. -/
theorem step_toxic_absent (v : UpdVariant) (e : Env) (s : State) (r : Request) (n : String)
    (hk : kindOf r = .toxic n) (hn : s.find n = none) : step v e s r = (s, errResp .proxyNotFound) := by
  obtain ⟨hb, hp⟩ := kindOf_toxic_inv r n hk
  rcases hp with ⟨hp, hm⟩ | ⟨t, hp, hm⟩
  · simp [step, hp, hm, hb, routeMethods, dispatch, hToxicCreate, withProxy, hn, List.contains, List.elem]
  · rcases hm with hm | hm | hm <;>
      simp [step, hp, hm, hb, routeMethods, dispatch, hToxicUpdate, hToxicDelete, withProxy, hn, List.contains, List.elem]

/-- What `runAlone` yields, seen from outside. -/
def Phase.resp? : Phase → Option Response
  | .done r => some r
  | _ => none

theorem live_same (c : CState) (n : String) : c.live n (c.epoch n) = c.s.find n := by
  simp [CState.live]

theorem alone_single (v : UpdVariant) (e : Env) (c : CState) (r : Request)
    (hz : c.zombies = []) (hl : c.locked = []) (hk : kindOf r = .single) :
    (runAlone v e c r).1.s = (step v e c.s r).1 ∧ (runAlone v e c r).2.resp? = some (step v e c.s r).2 ∧
    (runAlone v e c r).1.zombies = [] ∧ (runAlone v e c r).1.locked = [] := by
  have h0 : advance v e c r .start =
      ({ c with s := (step v e c.s r).1, epochs := reEpoch c.epochs c.s (step v e c.s r).1,
                dead := c.dead ++ retired c.epochs c.s (step v e c.s r).1 }, .done (step v e c.s r).2) := by
    simp only [advance, hk, hl, hz, env_eta]
    simp
    split <;> rfl
  simp [runAlone, h0, Phase.resp?, hz, hl]

theorem alone_toxic (v : UpdVariant) (e : Env) (c : CState) (r : Request) (n : String)
    (hz : c.zombies = []) (hl : c.locked = []) (hk : kindOf r = .toxic n) :
    (runAlone v e c r).1.s = (step v e c.s r).1 ∧ (runAlone v e c r).2.resp? = some (step v e c.s r).2 ∧
    (runAlone v e c r).1.zombies = [] ∧ (runAlone v e c r).1.locked = [] := by
  cases hf : c.s.find n with
  | none =>
    have h0 : advance v e c r .start = (c, .done (errResp .proxyNotFound)) := by
      simp [advance, hk, hf, hl]
    rw [step_toxic_absent v e c.s r n hk hf]
    simp [runAlone, h0, Phase.resp?, hz, hl]
  | some p =>
    have h0 : advance v e c r .start = (c, .found p (c.epoch n)) := by
      simp [advance, hk, hf, hl]
    have h1 : advance v e c r (.found p (c.epoch n)) = ({ c with s := (step v e c.s r).1 }, .done (step v e c.s r).2) := by
      simp [advance, hk, live_same, hf, hz, env_eta]
    simp [runAlone, h0, h1, Phase.resp?, hz, hl]

theorem replace_replace (s : State) (a b : ProxyRec) (h : a.name = b.name) :
    (s.replace a).replace b = s.replace b := by
  unfold State.replace
  rw [List.map_map]
  congr 1
  funext q
  simp only [Function.comp]
  by_cases hq : (q.name == a.name) = true
  · have hq' : (q.name == b.name) = true := by rw [← h]; exact hq
    simp [hq, hq', h]
  · have hq' : ¬ (q.name == b.name) = true := by rw [← h]; exact hq
    simp [hq, hq']

theorem find_name {s : State} {n : String} {p : ProxyRec} (h : s.find n = some p) : p.name = n := by
  have := List.find?_some h
  simpa using this

theorem step_update (v : UpdVariant) (e : Env) (s : State) (r : Request) (n : String)
    (hk : kindOf r = .update n) : step v e s r = hUpdate e s n r.body := by
  obtain ⟨hb, hp, hm⟩ := kindOf_update_inv r n hk
  rcases hm with hm | hm <;>
    simp [step, hp, hm, hb, routeMethods, dispatch, List.contains, List.elem]

theorem alone_update (v : UpdVariant) (e : Env) (c : CState) (r : Request) (n : String)
    (hz : c.zombies = []) (hl : c.locked = []) (hk : kindOf r = .update n) :
    (runAlone v e c r).1.s = (step v e c.s r).1 ∧ (runAlone v e c r).2.resp? = some (step v e c.s r).2 ∧
    (runAlone v e c r).1.zombies = [] ∧ (runAlone v e c r).1.locked = [] := by
  rw [step_update v e c.s r n hk]
  cases hf : c.s.find n with
  | none =>
    have h0 : advance v e c r .start = (c, .done (errResp .proxyNotFound)) := by
      simp [advance, hk, hf, hl]
    simp [runAlone, h0, Phase.resp?, hz, hl, hUpdate, withProxy, hf]
  | some p =>
    have hpn : p.name = n := find_name hf
    have h0 : advance v e c r .start = (c, .found p (c.epoch n)) := by
      simp [advance, hk, hf, hl]
    cases hd : decodeProxy ⟨p.name, p.listen, p.upstream, p.enabled⟩ r.body with
    | none =>
      have h1 : advance v e c r (.found p (c.epoch n)) = (c, .done (errResp .badRequestBody)) := by
        simp [advance, hk, live_same, hf, hd]
      simp [runAlone, h0, h1, Phase.resp?, hz, hl, hUpdate, withProxy, hf, hd]
    | some inp =>
      have h1 : advance v e c r (.found p (c.epoch n)) = (c, .ready p (c.epoch n) inp) := by
        simp [advance, hk, live_same, hf, hd]
      -- the apply block(s)
      by_cases hsplit : ((!(e.sameListen p.listen inp.listen) || p.upstream != inp.upstream) && p.enabled && (e.resolve inp.listen).isSome) = true
      · -- re-addressing a running proxy: stop + store, then start again
        have hs : (!(e.sameListen p.listen inp.listen) || p.upstream != inp.upstream) = true ∧ p.enabled = true ∧
            (e.resolve inp.listen).isSome = true := by
          simp only [Bool.and_eq_true] at hsplit; exact ⟨hsplit.1.1, hsplit.1.2, hsplit.2⟩
        obtain ⟨rs, hrs⟩ := Option.isSome_iff_exists.mp hs.2.2
        let off : ProxyRec := { p with enabled := false }
        let mid : ProxyRec := { p with enabled := false, listen := inp.listen, upstream := inp.upstream }
        have h2 : advance v e c r (.ready p (c.epoch n) inp) =
            ({ s := c.s.replace off, epochs := c.epochs, zombies := [], locked := [n], dead := c.dead }, .stopped off (c.epoch n) inp) := by
          simp [advance, hk, live_same, hf, hz, hl, env_eta, hsplit, off]
        have h2' : advance v e { s := c.s.replace off, epochs := c.epochs, zombies := [], locked := [n], dead := c.dead } r (.stopped off (c.epoch n) inp) =
            ({ s := c.s.replace mid, epochs := c.epochs, zombies := [], locked := [n], dead := c.dead }, .restart mid (c.epoch n) inp) := by
          have : (c.s.replace off).replace mid = c.s.replace mid := replace_replace c.s off mid rfl
          simp [advance, off, mid, this]
        have hmid : mid.name = n := hpn
        -- sequential: updateProxy takes the same two steps inside one call
        have hseq : updateProxy e c.s p inp =
            (if inp.enabled then
              (match startProxy e (c.s.replace mid) mid with
               | some p2 => (p2, true)
               | none => (mid, false))
             else (mid, true)) := by
          unfold updateProxy
          simp only [hrs, hs.1, if_true]
          cases hen : inp.enabled <;> simp [mid]
          cases startProxy e (c.s.replace { name := p.name, listen := inp.listen, upstream := inp.upstream, enabled := false, toxics := p.toxics })
            { name := p.name, listen := inp.listen, upstream := inp.upstream, enabled := false, toxics := p.toxics } <;> rfl
        cases hen : inp.enabled with
        | false =>
          have h3 : advance v e { s := c.s.replace mid, epochs := c.epochs, zombies := [], locked := [n], dead := c.dead } r (.restart mid (c.epoch n) inp) =
              ({ s := c.s.replace mid, epochs := c.epochs, zombies := [], locked := [], dead := c.dead }, .done (Api.ok 200 (.proxy mid))) := by
            simp [advance, hen, hmid, hz, env_eta]
          simp [runAlone, h0, h1, h2, h2', h3, Phase.resp?, hz, hUpdate, withProxy, hf, hd, hseq, hen]
        | true =>
          cases hst : startProxy e (c.s.replace mid) mid with
          | none =>
            have h3 : advance v e { s := c.s.replace mid, epochs := c.epochs, zombies := [], locked := [n], dead := c.dead } r (.restart mid (c.epoch n) inp) =
                ({ s := c.s.replace mid, epochs := c.epochs, zombies := [], locked := [], dead := c.dead }, .done (errResp .internal)) := by
              simp [advance, hen, hmid, hz, env_eta, hst]
            simp [runAlone, h0, h1, h2, h2', h3, Phase.resp?, hz, hUpdate, withProxy, hf, hd, hseq, hen, hst]
          | some p2 =>
            have hp2 : p2.name = mid.name := by
              unfold startProxy at hst
              split at hst
              · simp at hst
              · split at hst
                · simp at hst
                · split at hst
                  · simp at hst
                  · simp only [Option.some.injEq] at hst; subst hst; rfl
            have h3 : advance v e { s := c.s.replace mid, epochs := c.epochs, zombies := [], locked := [n], dead := c.dead } r (.restart mid (c.epoch n) inp) =
                ({ s := (c.s.replace mid).replace p2, epochs := c.epochs, zombies := [], locked := [], dead := c.dead }, .done (Api.ok 200 (.proxy p2))) := by
              simp [advance, hen, hmid, hz, env_eta, hst]
            simp [runAlone, h0, h1, h2, h2', h3, Phase.resp?, hz, hUpdate, withProxy, hf, hd, hseq, hen, hst,
              replace_replace c.s mid p2 hp2.symm]
      · -- everything else: one call of updateProxy
        have hsplit' : ((!(e.sameListen p.listen inp.listen) || p.upstream != inp.upstream) && p.enabled && (e.resolve inp.listen).isSome) = false := by
          simpa using hsplit
        have h2 : advance v e c r (.ready p (c.epoch n) inp) =
            ({ c with s := c.s.replace (updateProxy e c.s p inp).1 },
             .done (if (updateProxy e c.s p inp).2 then Api.ok 200 (.proxy (updateProxy e c.s p inp).1) else errResp .internal)) := by
          simp [advance, hk, live_same, hf, hz, hl, env_eta, hsplit']
        cases hu : updateProxy e c.s p inp with
        | mk p' okk =>
          cases okk <;>
            simp [runAlone, h0, h1, h2, hu, Phase.resp?, hz, hl, hUpdate, withProxy, hf, hd]

theorem kindOf_replace_inv (r : Request) (h : kindOf r = .replace) :
    r.browser = false ∧ r.path = ["populate"] ∧ r.method = .post := by
  unfold kindOf at h
  split at h
  · simp at h
  · rename_i ms hms
    split at h
    · simp at h
    · rename_i hc
      simp only [Bool.or_eq_true, Bool.not_eq_true', not_or, Bool.not_eq_false] at hc
      refine ⟨by simpa using hc.2, ?_⟩
      split at h <;> simp at h
      rename_i heq
      rw [heq] at hms
      simp only [routeMethods, Option.some.injEq] at hms
      subst hms
      refine ⟨heq, ?_⟩
      have := hc.1
      cases hm : r.method <;> rw [hm] at this <;> first | rfl | (exact absurd this (by decide))

theorem step_replace (v : UpdVariant) (e : Env) (s : State) (r : Request)
    (hk : kindOf r = .replace) : step v e s r = populate e s r.body := by
  obtain ⟨hb, hp, hm⟩ := kindOf_replace_inv r hk
  simp [step, hp, hm, hb, routeMethods, dispatch, List.contains, List.elem]

theorem find_replace_self (s : State) (n : String) (ex q : ProxyRec) (hq : q.name = n)
    (h : s.find n = some ex) : (s.replace q).find n = some q := by
  unfold State.find State.replace at *
  subst hq
  induction s with
  | nil => simp at h
  | cons a s ih =>
    rw [List.map_cons, List.find?_cons]
    rw [List.find?_cons] at h
    by_cases ha : (a.name == q.name) = true
    · simp only [ha, if_true, beq_self_eq_true]
    · have hf : (a.name == q.name) = false := by simpa using ha
      rw [hf] at h
      simp only [hf, Bool.false_eq_true, if_false]
      exact ih h

def off (p : ProxyRec) : ProxyRec := { p with enabled := false }

/-- What `stopFirst` found, and conversely. -/
theorem stopFirst_spec (e : Env) (s : State) (r : Request) (x : PopEntry) (s1 : State) :
    stopFirst e s r = some (x, s1) ↔
      ∃ ex rs, decodePopulate r.body = some [x] ∧ (x.name == "" || x.upstream == "") = false ∧
        s.find x.name = some ex ∧ e.resolve x.listen = some rs ∧
        (e.sameListen ex.listen x.listen && ex.upstream == x.upstream) = false ∧
        s1 = s.replace (off ex) := by
  constructor
  · intro hsf
    unfold stopFirst at hsf
    split at hsf
    · rename_i y hdec
      split at hsf
      · cases hsf
      · rename_i hne
        split at hsf
        · rename_i ex hfind
          split at hsf
          · cases hsf
          · rename_i rs hres
            split at hsf
            · cases hsf
            · rename_i hdiff
              simp only [Option.some.injEq, Prod.mk.injEq] at hsf
              obtain ⟨hx, hs⟩ := hsf
              subst hx
              exact ⟨ex, rs, hdec, by simpa using hne, hfind, hres, by simpa using hdiff, hs.symm⟩
        · cases hsf
    · cases hsf
  · rintro ⟨ex, rs, hdec, hne, hfind, hres, hdiff, hs1⟩
    unfold stopFirst
    simp only [hdec, hne, Bool.false_eq_true, if_false, hfind, hres, hdiff, hs1, off]

theorem alone_replace (v : UpdVariant) (e : Env) (c : CState) (r : Request)
    (hz : c.zombies = []) (hl : c.locked = []) (hk : kindOf r = .replace) :
    (runAlone v e c r).1.s = (step v e c.s r).1 ∧ (runAlone v e c r).2.resp? = some (step v e c.s r).2 ∧
    (runAlone v e c r).1.zombies = [] ∧ (runAlone v e c r).1.locked = [] := by
  cases hsf : stopFirst e c.s r with
  | none =>
    have h0 : advance v e c r .start =
        ({ c with s := (step v e c.s r).1, epochs := reEpoch c.epochs c.s (step v e c.s r).1,
                  dead := c.dead ++ retired c.epochs c.s (step v e c.s r).1 }, .done (step v e c.s r).2) := by
      simp only [advance, hk, hl, hz, env_eta, hsf]
      simp
    simp [runAlone, h0, Phase.resp?, hz, hl]
  | some xs =>
    obtain ⟨x, s1⟩ := xs
    -- what `stopFirst` found
    obtain ⟨ex, rs, hdec, hne, hfind, hres, hdiff, hs1⟩ :
        ∃ ex rs, decodePopulate r.body = some [x] ∧ (x.name == "" || x.upstream == "") = false ∧
          c.s.find x.name = some ex ∧ e.resolve x.listen = some rs ∧
          (e.sameListen ex.listen x.listen && ex.upstream == x.upstream) = false ∧
          s1 = c.s.replace { ex with enabled := false } := by
      unfold stopFirst at hsf
      split at hsf
      · rename_i y hdec
        split at hsf
        · cases hsf
        · rename_i hne
          split at hsf
          · rename_i ex hfind
            split at hsf
            · cases hsf
            · rename_i rs hres
              split at hsf
              · cases hsf
              · rename_i hdiff
                simp only [Option.some.injEq, Prod.mk.injEq] at hsf
                obtain ⟨hx, hs⟩ := hsf
                subst hx
                exact ⟨ex, rs, hdec, by simpa using hne, hfind, hres, by simpa using hdiff, hs.symm⟩
          · cases hsf
      · cases hsf
    let off : ProxyRec := { ex with enabled := false }
    have hoffn : off.name = x.name := (find_name hfind : ex.name = x.name)
    have hfo : s1.find x.name = some off := by rw [hs1]; exact find_replace_self c.s x.name ex off hoffn hfind
    have h0 : advance v e c r .start =
        ({ s := s1, epochs := c.epochs, zombies := [], locked := [collLock], dead := c.dead }, .replacing x) := by
      simp only [advance, hk, hl, hz, env_eta, hsf]
      simp
    let np : ProxyRec := ⟨x.name, x.listen, x.upstream, false, []⟩
    have hpop : step v e c.s r =
        (if x.enabled.getD true then
          (match startProxy e s1 np with
           | some p => (s1.replace p, ⟨201, .populate [p] none, false, false⟩)
           | none => (s1, ⟨500, .populate [] (some .internal), true, false⟩))
         else (s1.replace np, ⟨201, .populate [np] none, false, false⟩)) := by
      rw [step_replace v e c.s r hk]
      unfold populate
      simp only [hdec, List.any_cons, List.any_nil, Bool.or_false, hne, Bool.false_eq_true, if_false]
      simp only [populateLoop, addOrReplace, hfind, hres, hdiff, Bool.false_eq_true, if_false, ← hs1]
      cases hstart : x.enabled.getD true
      · simp [populateLoop, np]
      · simp only [if_true]
        cases hsp : startProxy e s1 np with
        | none => simp [hsp, np, hfo, off] 
        | some p => simp [hsp, np, populateLoop]
    cases hstart : x.enabled.getD true with
    | false =>
      have h1 : advance v e { s := s1, epochs := c.epochs, zombies := [], locked := [collLock], dead := c.dead } r (.replacing x) =
          ({ c with s := s1.replace np, epochs := bump c.epochs x.name, zombies := [], locked := [],
                    dead := c.dead ++ [((x.name, c.epoch x.name), off)] },
           .done ⟨201, .populate [np] none, false, false⟩) := by
        simp [advance, hz, hstart, hfo, off, np, CState.epoch]
      rw [hpop]
      simp [runAlone, h0, h1, Phase.resp?, hstart]
    | true =>
      cases hsp : startProxy e s1 np with
      | none =>
        have h1 : advance v e { s := s1, epochs := c.epochs, zombies := [], locked := [collLock], dead := c.dead } r (.replacing x) =
            ({ s := s1, epochs := c.epochs, zombies := [], locked := [], dead := c.dead }, .done ⟨500, .populate [] (some .internal), true, false⟩) := by
          simp [advance, hz, hstart, hfo, off, np, env_eta, hsp]
        rw [hpop]
        simp [runAlone, h0, h1, Phase.resp?, hstart, hsp, hz]
      | some p =>
        have h1 : advance v e { s := s1, epochs := c.epochs, zombies := [], locked := [collLock], dead := c.dead } r (.replacing x) =
            ({ c with s := s1.replace p, epochs := bump c.epochs x.name, zombies := [], locked := [],
                      dead := c.dead ++ [((x.name, c.epoch x.name), off)] },
             .done ⟨201, .populate [p] none, false, false⟩) := by
          simp [advance, hz, hstart, hfo, off, np, env_eta, hsp, CState.epoch]
        rw [hpop]
        simp [runAlone, h0, h1, Phase.resp?, hstart, hsp]

/-- The second block of a replacing populate, run on the registry its first block left (`c.s`,
where the sequential handler would have seen `sA`): registry and answer are the sequential
handler's on `sA`. -/
theorem replacing_block (v : UpdVariant) (e : Env) (sA : State) (r : Request) (x : PopEntry) (c : CState)
    (hk : kindOf r = .replace) (hsf : stopFirst e sA r = some (x, c.s)) (hz : c.zombies = []) (hl : c.locked = [collLock]) :
    (advance v e c r (.replacing x)).1.s = (step v e sA r).1 ∧
    (advance v e c r (.replacing x)).2 = .done (step v e sA r).2 ∧
    (advance v e c r (.replacing x)).1.zombies = [] ∧ (advance v e c r (.replacing x)).1.locked = [] := by
  obtain ⟨ex, rs, hdec, hne, hfind, hres, hdiff, hs1⟩ := (stopFirst_spec e sA r x c.s).mp hsf
  have hoffn : (off ex).name = x.name := (find_name hfind : ex.name = x.name)
  have hfo : c.s.find x.name = some (off ex) := by rw [hs1]; exact find_replace_self sA x.name ex (off ex) hoffn hfind
  let np : ProxyRec := ⟨x.name, x.listen, x.upstream, false, []⟩
  have hpop : step v e sA r =
      (if x.enabled.getD true then
        (match startProxy e c.s np with
         | some p => (c.s.replace p, ⟨201, .populate [p] none, false, false⟩)
         | none => (c.s, ⟨500, .populate [] (some .internal), true, false⟩))
       else (c.s.replace np, ⟨201, .populate [np] none, false, false⟩)) := by
    rw [step_replace v e sA r hk]
    unfold populate
    simp only [hdec, List.any_cons, List.any_nil, Bool.or_false, hne, Bool.false_eq_true, if_false]
    simp only [populateLoop, addOrReplace, hfind, hres, hdiff, Bool.false_eq_true, if_false]
    have hs1' : sA.replace { ex with enabled := false } = c.s := hs1.symm
    simp only [hs1']
    cases hstart : x.enabled.getD true
    · simp [populateLoop, np]
    · simp only [if_true]
      cases hsp : startProxy e c.s np with
      | none => simp [hsp, np, hfo, off]
      | some p => simp [hsp, np, populateLoop]
  have hlk : (c.locked.erase collLock) = [] := by rw [hl]; simp
  cases hstart : x.enabled.getD true with
  | false =>
    rw [hpop]
    simp [advance, hz, hlk, hstart, hfo, off, np]
  | true =>
    cases hsp : startProxy e c.s np with
    | none =>
      rw [hpop]
      simp [advance, hz, hlk, hstart, hfo, off, np, env_eta, hsp]
    | some p =>
      rw [hpop]
      simp [advance, hz, hlk, hstart, hfo, off, np, env_eta, hsp]

/-- **C16 (the block model refines the sequential model).** A request whose blocks run
without anything in between — from a state with no zombie listener and no half-way update —
changes the registry exactly as the sequential handler `Api.step` does, gets exactly its
answer, and leaves no zombie and no held mutex. -/
theorem C16_alone_is_sequential (v : UpdVariant) (e : Env) (c : CState) (r : Request)
    (hz : c.zombies = []) (hl : c.locked = []) :
    (runAlone v e c r).1.s = (step v e c.s r).1 ∧ (runAlone v e c r).2.resp? = some (step v e c.s r).2 ∧
    (runAlone v e c r).1.zombies = [] ∧ (runAlone v e c r).1.locked = [] := by
  cases hk : kindOf r with
  | single => exact alone_single v e c r hz hl hk
  | update n => exact alone_update v e c r n hz hl hk
  | toxic n => exact alone_toxic v e c r n hz hl hk
  | replace => exact alone_replace v e c r hz hl hk

/-- Hence every one-at-a-time execution of any list of requests is an execution of the
sequential model, and ends without zombies: a listener that outlives its proxy needs an
interleaving. -/
theorem C16_sequential_runs (v : UpdVariant) (e : Env) :
    ∀ (rs : List Request) (c : CState), c.zombies = [] → c.locked = [] →
      (rs.foldl (fun c r => (runAlone v e c r).1) c).s = rs.foldl (fun s r => (step v e s r).1) c.s ∧
      (rs.foldl (fun c r => (runAlone v e c r).1) c).zombies = [] := by
  intro rs
  induction rs with
  | nil => intro c hz _; exact ⟨rfl, hz⟩
  | cons r rs ih =>
    intro c hz hl
    obtain ⟨h1, _, h3, h4⟩ := C16_alone_is_sequential v e c r hz hl
    have := ih (runAlone v e c r).1 h3 h4
    simp only [List.foldl_cons]
    rw [← h1]
    exact this

/-! ### Requests that run alone never leave a zombie, and a zombie needs an interleaving -/

/-- The two recorded races, as schedules of blocks (kernel-decided).  Environment: one
address `a:1` on port 1. -/
def envW : Env := ⟨[⟨"a:1", some "a:1", some "a:1", 1⟩], [], [("a:1", "a:1")]⟩
def p1off : ProxyRec := ⟨"p1", "a:1", "u:1", false, []⟩
def p1on : ProxyRec := ⟨"p1", "a:1", "u:1", true, []⟩
def enableReq : Request := ⟨.post, ["proxies", "p1"], false, .val (.obj [("enabled", .bool true)])⟩
def disableReq : Request := ⟨.post, ["proxies", "p1"], false, .val (.obj [("enabled", .bool false)])⟩
def upstreamReq : Request := ⟨.post, ["proxies", "p1"], false, .val (.obj [("upstream", .str "u:2")])⟩
def deleteReq : Request := ⟨.delete, ["proxies", "p1"], false, .empty⟩

/-- **Witness (listener outlives its proxy).** Requests: 0 = enable p1, 1 = delete p1; schedule:
enable looks p1 up and reads its defaults, delete runs, enable applies — both succeed (200, 204),
the registry is empty, port 1 is bound by nobody's proxy. -/
theorem C16_zombie_witness :
    outcome envW (runSched .fixed envW [enableReq, deleteReq] { s := [p1off] } [.start, .start] [0, 0, 1, 0])
      = ([], [1], [200, 204]) := by
  decide

/-- … which no one-at-a-time order produces: enable-then-delete leaves port 1 free,
delete-then-enable answers 404. -/
theorem C16_zombie_not_sequential :
    outcome envW (runSched .fixed envW [enableReq, deleteReq] { s := [p1off] } [.start, .start] [0, 0, 0, 1])
      = ([], [], [200, 204]) ∧
    outcome envW (runSched .fixed envW [enableReq, deleteReq] { s := [p1off] } [.start, .start] [1, 0, 0, 0])
      = ([], [], [404, 204]) := by
  decide

/-- **Witness (lost disable).** Requests: 0 = change upstream of p1, 1 = disable p1; schedule:
the upstream change looks p1 up and reads its defaults (enabled = true), the disable runs
completely, the upstream change applies (stop, store, start): both answer 200 and the proxy
ends enabled. -/
theorem C16_lost_disable_witness :
    outcome envW (runSched .fixed envW [upstreamReq, disableReq] { s := [p1on] } [.start, .start] [0, 0, 1, 1, 1, 0, 0])
      = ([("p1", "u:2", true)], [1], [200, 200]) := by
  decide

/-- … whereas in both one-at-a-time orders the proxy ends disabled. -/
theorem C16_lost_disable_not_sequential :
    outcome envW (runSched .fixed envW [upstreamReq, disableReq] { s := [p1on] } [.start, .start] [0, 0, 0, 0, 0, 1, 1, 1])
      = ([("p1", "u:2", false)], [], [200, 200]) ∧
    outcome envW (runSched .fixed envW [upstreamReq, disableReq] { s := [p1on] } [.start, .start] [1, 1, 1, 0, 0, 0])
      = ([("p1", "u:2", false)], [], [200, 200]) := by
  decide

/-- Environment with two addresses. -/
def envW2 : Env := ⟨[⟨"a:1", some "a:1", some "a:1", 1⟩, ⟨"b:2", some "b:2", some "b:2", 2⟩], [],
  [("a:1", "a:1"), ("b:2", "b:2")]⟩
def p2on : ProxyRec := ⟨"p2", "b:2", "u:9", true, []⟩
def replaceReq : Request := ⟨.post, ["populate"], false,
  .val (.arr [.obj [("name", .str "p1"), ("listen", .str "a:1"), ("upstream", .str "u:2")]])⟩
def moveP2Req : Request := ⟨.post, ["proxies", "p2"], false, .val (.obj [("listen", .str "a:1")])⟩

/-- **Witness (a replacement loses its port between stop and start).** Requests: 0 = populate
replacing the running p1 (same address `a:1`, new upstream), 1 = re-address p2 to `a:1`.
Schedule: p2's update looks p2 up and reads its defaults; the populate stops p1 (holding the
collection lock, which `Proxy.Update` does not take); p2's update stops p2, stores `a:1`, starts
on the port p1 just freed; the populate's start fails.  The populate answers 500, p2's update
200, and p1 — the *old* p1 — is left stopped. -/
theorem C16_replace_race_witness :
    outcome envW2 (runSched .fixed envW2 [replaceReq, moveP2Req] { s := [p1on, p2on] } [.start, .start] [1, 1, 0, 1, 1, 1, 0])
      = ([("p1", "u:1", false), ("p2", "u:9", true)], [1], [500, 200]) := by
  decide

/-- … whereas one at a time either the replacement succeeds and p2's move is refused (the port
is taken: p2 ends stopped), or p2's move is refused first and the replacement succeeds. -/
theorem C16_replace_race_not_sequential :
    outcome envW2 (runSched .fixed envW2 [replaceReq, moveP2Req] { s := [p1on, p2on] } [.start, .start] [0, 0, 1, 1, 1, 1, 1])
      = ([("p1", "u:2", true), ("p2", "u:9", false)], [1], [201, 500]) ∧
    outcome envW2 (runSched .fixed envW2 [replaceReq, moveP2Req] { s := [p1on, p2on] } [.start, .start] [1, 1, 1, 1, 1, 0, 0])
      = ([("p1", "u:2", true), ("p2", "u:9", false)], [1], [201, 500]) := by
  decide

/-- **Witness (a replacement of a *stopped* proxy finds its port taken by the proxy it
replaces).** Requests: 0 = populate replacing the stopped p1 (same address `a:1`, new upstream),
1 = enable p1.  Schedule: the enable looks p1 up (the old object) and reads its defaults; the
populate's `existing.Stop()` has nothing to stop, and it holds the collection lock — which
`Proxy.Update` does not take; the enable starts the old object on `a:1`; the populate's start of
the new object fails.  The populate answers 500, the enable 200, and the *old* p1 stays
registered, running with the old upstream. -/
theorem C16_replace_stopped_witness :
    outcome envW (runSched .fixed envW [replaceReq, enableReq] { s := [p1off] } [.start, .start] [1, 1, 0, 1, 0])
      = ([("p1", "u:1", true)], [1], [500, 200]) := by
  decide

/-- … whereas one at a time both succeed and the *new* p1 (upstream `u:2`) is registered and
running, in either order. -/
theorem C16_replace_stopped_not_sequential :
    outcome envW (runSched .fixed envW [replaceReq, enableReq] { s := [p1off] } [.start, .start] [0, 0, 1, 1, 1])
      = ([("p1", "u:2", true)], [1], [201, 200]) ∧
    outcome envW (runSched .fixed envW [replaceReq, enableReq] { s := [p1off] } [.start, .start] [1, 1, 1, 0, 0])
      = ([("p1", "u:2", true)], [1], [201, 200]) := by
  decide

end Toxi.Conc
