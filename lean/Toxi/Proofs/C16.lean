import Toxi.Model.Conc
/-
C16 — concurrent requests on a proxy take effect atomically.

Model: `Model/Conc.lean`, the handlers of `api.go` as sequences of blocks (what each lock
makes atomic), over the sequential model `Toxi.Api.step`.  Tie: engine E7 issues overlapping
requests against the real handlers and searches, first for a one-at-a-time order under the
sequential model, then for an interleaving of the handlers' blocks under this model, that
reproduces every status, the final registry and the bound ports; facts `tie_collection`,
`tie_toxic_json`, `tie_update` pin the lock discipline the blocks stand for.
-/
namespace Toxi.Conc
open Toxi.Api

/-- **C16 (single-block requests are atomic).** Create, delete, single-entry populate, reads
and reset run as one block: their whole effect on the registry and their answer are those of
the sequential handler at the moment the block runs — whatever else is in flight. -/
theorem C16_single_block_atomic (v : UpdVariant) (e : Env) (c : CState) (r : Request)
    (hk : kindOf r = .single) (hl : c.locked = []) :
    advance v e c r .start =
      (let e' : Env := { e with busy := e.busy ++ c.zombies }
       ({ c with s := (step v e' c.s r).1, epochs := reEpoch c.epochs c.s (step v e' c.s r).1,
                 dead := c.dead ++ retired c.epochs c.s (step v e' c.s r).1 },
        .done (step v e' c.s r).2)) := by
  simp only [advance, hk, hl]
  simp
  split <;> rfl

/-- In particular: of two overlapping creates of one name, whichever block runs second sees
the first one's proxy and is refused (the sequential handler answers 409 on an existing name,
`C05_create_dup_409`), and similarly for deletes (404 on an absent name). -/
example (v : UpdVariant) (e : Env) (c : CState) (r : Request) (hk : kindOf r = .single) (hl : c.locked = []) :
    (advance v e c r .start).2.isDone = true := by
  rw [C16_single_block_atomic v e c r hk hl]; simp [Phase.isDone]

/-- A toxic operation's second block, on a proxy that is still registered, is the sequential
handler on the registry as it is then. -/
theorem C16_toxic_effect_atomic (v : UpdVariant) (e : Env) (c : CState) (r : Request) (n : String)
    (obj cur : ProxyRec) (ep : Nat) (hk : kindOf r = .toxic n) (hl : c.live n ep = some cur) :
    advance v e c r (.found obj ep) =
      (let e' : Env := { e with busy := e.busy ++ c.zombies }
       ({ c with s := (step v e' c.s r).1 }, .done (step v e' c.s r).2)) := by
  simp [advance, hk, hl]

/-! ### The block model refines the sequential model -/

theorem env_eta (e : Env) : ({ e with busy := e.busy ++ [] } : Env) = e := by
  cases e; simp

@[simp] theorem advance_done (v : UpdVariant) (e : Env) (c : CState) (r : Request) (resp : Response) :
    advance v e c r (.done resp) = (c, .done resp) := by
  simp [advance]

theorem kindOf_toxic_inv (r : Request) (n : String) (h : kindOf r = .toxic n) :
    r.browser = false ∧
    ((r.path = ["proxies", n, "toxics"] ∧ r.method = .post) ∨
     (∃ t, r.path = ["proxies", n, "toxics", t] ∧ (r.method = .post ∨ r.method = .patch ∨ r.method = .delete))) := by
  unfold kindOf at h
  split at h
  · simp at h
  · rename_i ms hms
    split at h
    · simp at h
    · rename_i hc
      simp only [Bool.or_eq_true, Bool.not_eq_true', not_or, Bool.not_eq_false] at hc
      refine ⟨by simpa using hc.2, ?_⟩
      split at h <;> simp at h
      · rename_i n' heq hng
        subst h
        rw [heq] at hms
        simp only [routeMethods, Option.some.injEq] at hms
        subst hms
        left
        refine ⟨heq, ?_⟩
        have := hc.1
        have hg : r.method ≠ .get := fun hh => hng hh
        cases hm : r.method <;> rw [hm] at this hg <;> first | rfl | (exact absurd this (by decide)) | (exact absurd rfl hg)
      · rename_i n' t heq hng
        subst h
        rw [heq] at hms
        simp only [routeMethods, Option.some.injEq] at hms
        subst hms
        right
        refine ⟨t, heq, ?_⟩
        have := hc.1
        have hg : r.method ≠ .get := fun hh => hng hh
        cases hm : r.method <;> rw [hm] at this hg <;>
          first | exact Or.inl rfl | exact Or.inr (Or.inl rfl) | exact Or.inr (Or.inr rfl) | (exact absurd this (by decide)) | (exact absurd rfl hg)

theorem kindOf_update_inv (r : Request) (n : String) (h : kindOf r = .update n) :
    r.browser = false ∧ r.path = ["proxies", n] ∧ (r.method = .post ∨ r.method = .patch) := by
  unfold kindOf at h
  split at h
  · simp at h
  · rename_i ms hms
    split at h
    · simp at h
    · rename_i hc
      simp only [Bool.or_eq_true, Bool.not_eq_true', not_or, Bool.not_eq_false] at hc
      refine ⟨by simpa using hc.2, ?_⟩
      split at h <;> simp at h
      rename_i n' heq hng hnd
      subst h
      rw [heq] at hms
      simp only [routeMethods, Option.some.injEq] at hms
      subst hms
      refine ⟨heq, ?_⟩
      have := hc.1
      have hg : r.method ≠ .get := fun hh => hng hh
      have hd : r.method ≠ .delete := fun hh => hnd hh
      cases hm : r.method <;> rw [hm] at this hg hd <;>
        first | exact Or.inl rfl | exact Or.inr rfl | (exact absurd this (by decide)) | (exact absurd rfl hg) | (exact absurd rfl hd)

@[simp] theorem beq_post_get : (Method.post == Method.get) = false := by decide
@[simp] theorem beq_patch_get : (Method.patch == Method.get) = false := by decide
@[simp] theorem beq_patch_post : (Method.patch == Method.post) = false := by decide
@[simp] theorem beq_delete_get : (Method.delete == Method.get) = false := by decide
@[simp] theorem beq_delete_post : (Method.delete == Method.post) = false := by decide
@[simp] theorem beq_delete_patch : (Method.delete == Method.patch) = false := by decide

/-- A toxic-kind request on an absent proxy: the sequential handler answers 404 and changes nothing. -/
theorem step_toxic_absent (v : UpdVariant) (e : Env) (s : State) (r : Request) (n : String)
    (hk : kindOf r = .toxic n) (hn : s.find n = none) : step v e s r = (s, errResp .proxyNotFound) := by
  obtain ⟨hb, hp⟩ := kindOf_toxic_inv r n hk
  rcases hp with ⟨hp, hm⟩ | ⟨t, hp, hm⟩
  · simp [step, hp, hm, hb, routeMethods, dispatch, hToxicCreate, withProxy, hn, List.contains, List.elem]
  · rcases hm with hm | hm | hm <;>
      simp [step, hp, hm, hb, routeMethods, dispatch, hToxicUpdate, hToxicDelete, withProxy, hn, List.contains, List.elem]

/-- What `runAlone` yields, seen from outside. -/
def Phase.resp? : Phase → Option Response
  | .done r => some r
  | _ => none

theorem live_same (c : CState) (n : String) : c.live n (c.epoch n) = c.s.find n := by
  simp [CState.live]

theorem alone_single (v : UpdVariant) (e : Env) (c : CState) (r : Request)
    (hz : c.zombies = []) (hl : c.locked = []) (hk : kindOf r = .single) :
    (runAlone v e c r).1.s = (step v e c.s r).1 ∧ (runAlone v e c r).2.resp? = some (step v e c.s r).2 ∧
    (runAlone v e c r).1.zombies = [] ∧ (runAlone v e c r).1.locked = [] := by
  have h0 : advance v e c r .start =
      ({ c with s := (step v e c.s r).1, epochs := reEpoch c.epochs c.s (step v e c.s r).1,
                dead := c.dead ++ retired c.epochs c.s (step v e c.s r).1 }, .done (step v e c.s r).2) := by
    simp only [advance, hk, hl, hz, env_eta]
    simp
    split <;> rfl
  simp [runAlone, h0, Phase.resp?, hz, hl]

theorem alone_toxic (v : UpdVariant) (e : Env) (c : CState) (r : Request) (n : String)
    (hz : c.zombies = []) (hl : c.locked = []) (hk : kindOf r = .toxic n) :
    (runAlone v e c r).1.s = (step v e c.s r).1 ∧ (runAlone v e c r).2.resp? = some (step v e c.s r).2 ∧
    (runAlone v e c r).1.zombies = [] ∧ (runAlone v e c r).1.locked = [] := by
  cases hf : c.s.find n with
  | none =>
    have h0 : advance v e c r .start = (c, .done (errResp .proxyNotFound)) := by
      simp [advance, hk, hf]
    rw [step_toxic_absent v e c.s r n hk hf]
    simp [runAlone, h0, Phase.resp?, hz, hl]
  | some p =>
    have h0 : advance v e c r .start = (c, .found p (c.epoch n)) := by
      simp [advance, hk, hf]
    have h1 : advance v e c r (.found p (c.epoch n)) = ({ c with s := (step v e c.s r).1 }, .done (step v e c.s r).2) := by
      simp [advance, hk, live_same, hf, hz, env_eta]
    simp [runAlone, h0, h1, Phase.resp?, hz, hl]

theorem replace_replace (s : State) (a b : ProxyRec) (h : a.name = b.name) :
    (s.replace a).replace b = s.replace b := by
  unfold State.replace
  rw [List.map_map]
  congr 1
  funext q
  simp only [Function.comp]
  by_cases hq : (q.name == a.name) = true
  · have hq' : (q.name == b.name) = true := by rw [← h]; exact hq
    simp [hq, hq', h]
  · have hq' : ¬ (q.name == b.name) = true := by rw [← h]; exact hq
    simp [hq, hq']

theorem find_name {s : State} {n : String} {p : ProxyRec} (h : s.find n = some p) : p.name = n := by
  have := List.find?_some h
  simpa using this

theorem step_update (v : UpdVariant) (e : Env) (s : State) (r : Request) (n : String)
    (hk : kindOf r = .update n) : step v e s r = hUpdate e s n r.body := by
  obtain ⟨hb, hp, hm⟩ := kindOf_update_inv r n hk
  rcases hm with hm | hm <;>
    simp [step, hp, hm, hb, routeMethods, dispatch, List.contains, List.elem]

theorem alone_update (v : UpdVariant) (e : Env) (c : CState) (r : Request) (n : String)
    (hz : c.zombies = []) (hl : c.locked = []) (hk : kindOf r = .update n) :
    (runAlone v e c r).1.s = (step v e c.s r).1 ∧ (runAlone v e c r).2.resp? = some (step v e c.s r).2 ∧
    (runAlone v e c r).1.zombies = [] ∧ (runAlone v e c r).1.locked = [] := by
  rw [step_update v e c.s r n hk]
  cases hf : c.s.find n with
  | none =>
    have h0 : advance v e c r .start = (c, .done (errResp .proxyNotFound)) := by
      simp [advance, hk, hf]
    simp [runAlone, h0, Phase.resp?, hz, hl, hUpdate, withProxy, hf]
  | some p =>
    have hpn : p.name = n := find_name hf
    have h0 : advance v e c r .start = (c, .found p (c.epoch n)) := by
      simp [advance, hk, hf]
    cases hd : decodeProxy ⟨p.name, p.listen, p.upstream, p.enabled⟩ r.body with
    | none =>
      have h1 : advance v e c r (.found p (c.epoch n)) = (c, .done (errResp .badRequestBody)) := by
        simp [advance, hk, live_same, hf, hd]
      simp [runAlone, h0, h1, Phase.resp?, hz, hl, hUpdate, withProxy, hf, hd]
    | some inp =>
      have h1 : advance v e c r (.found p (c.epoch n)) = (c, .ready p (c.epoch n) inp) := by
        simp [advance, hk, live_same, hf, hd]
      -- the apply block(s)
      by_cases hsplit : ((!(e.sameListen p.listen inp.listen) || p.upstream != inp.upstream) && p.enabled && (e.resolve inp.listen).isSome) = true
      · -- re-addressing a running proxy: stop + store, then start again
        have hs : (!(e.sameListen p.listen inp.listen) || p.upstream != inp.upstream) = true ∧ p.enabled = true ∧
            (e.resolve inp.listen).isSome = true := by
          simp only [Bool.and_eq_true] at hsplit; exact ⟨hsplit.1.1, hsplit.1.2, hsplit.2⟩
        obtain ⟨rs, hrs⟩ := Option.isSome_iff_exists.mp hs.2.2
        let off : ProxyRec := { p with enabled := false }
        let mid : ProxyRec := { p with enabled := false, listen := inp.listen, upstream := inp.upstream }
        have h2 : advance v e c r (.ready p (c.epoch n) inp) =
            ({ s := c.s.replace off, epochs := c.epochs, zombies := [], locked := [n], dead := c.dead }, .stopped off (c.epoch n) inp) := by
          simp [advance, hk, live_same, hf, hz, hl, env_eta, hsplit, off]
        have h2' : advance v e { s := c.s.replace off, epochs := c.epochs, zombies := [], locked := [n], dead := c.dead } r (.stopped off (c.epoch n) inp) =
            ({ s := c.s.replace mid, epochs := c.epochs, zombies := [], locked := [n], dead := c.dead }, .restart mid (c.epoch n) inp) := by
          have : (c.s.replace off).replace mid = c.s.replace mid := replace_replace c.s off mid rfl
          simp [advance, off, mid, this]
        have hmid : mid.name = n := hpn
        -- sequential: updateProxy takes the same two steps inside one call
        have hseq : updateProxy e c.s p inp =
            (if inp.enabled then
              (match startProxy e (c.s.replace mid) mid with
               | some p2 => (p2, true)
               | none => (mid, false))
             else (mid, true)) := by
          unfold updateProxy
          simp only [hrs, hs.1, if_true]
          cases hen : inp.enabled <;> simp [mid]
          cases startProxy e (c.s.replace { name := p.name, listen := inp.listen, upstream := inp.upstream, enabled := false, toxics := p.toxics })
            { name := p.name, listen := inp.listen, upstream := inp.upstream, enabled := false, toxics := p.toxics } <;> rfl
        cases hen : inp.enabled with
        | false =>
          have h3 : advance v e { s := c.s.replace mid, epochs := c.epochs, zombies := [], locked := [n], dead := c.dead } r (.restart mid (c.epoch n) inp) =
              ({ s := c.s.replace mid, epochs := c.epochs, zombies := [], locked := [], dead := c.dead }, .done (Api.ok 200 (.proxy mid))) := by
            simp [advance, hen, hmid, hz, env_eta]
          simp [runAlone, h0, h1, h2, h2', h3, Phase.resp?, hz, hUpdate, withProxy, hf, hd, hseq, hen]
        | true =>
          cases hst : startProxy e (c.s.replace mid) mid with
          | none =>
            have h3 : advance v e { s := c.s.replace mid, epochs := c.epochs, zombies := [], locked := [n], dead := c.dead } r (.restart mid (c.epoch n) inp) =
                ({ s := c.s.replace mid, epochs := c.epochs, zombies := [], locked := [], dead := c.dead }, .done (errResp .internal)) := by
              simp [advance, hen, hmid, hz, env_eta, hst]
            simp [runAlone, h0, h1, h2, h2', h3, Phase.resp?, hz, hUpdate, withProxy, hf, hd, hseq, hen, hst]
          | some p2 =>
            have hp2 : p2.name = mid.name := by
              unfold startProxy at hst
              split at hst
              · simp at hst
              · split at hst
                · simp at hst
                · split at hst
                  · simp at hst
                  · simp only [Option.some.injEq] at hst; subst hst; rfl
            have h3 : advance v e { s := c.s.replace mid, epochs := c.epochs, zombies := [], locked := [n], dead := c.dead } r (.restart mid (c.epoch n) inp) =
                ({ s := (c.s.replace mid).replace p2, epochs := c.epochs, zombies := [], locked := [], dead := c.dead }, .done (Api.ok 200 (.proxy p2))) := by
              simp [advance, hen, hmid, hz, env_eta, hst]
            simp [runAlone, h0, h1, h2, h2', h3, Phase.resp?, hz, hUpdate, withProxy, hf, hd, hseq, hen, hst,
              replace_replace c.s mid p2 hp2.symm]
      · -- everything else: one call of updateProxy
        have hsplit' : ((!(e.sameListen p.listen inp.listen) || p.upstream != inp.upstream) && p.enabled && (e.resolve inp.listen).isSome) = false := by
          simpa using hsplit
        have h2 : advance v e c r (.ready p (c.epoch n) inp) =
            ({ c with s := c.s.replace (updateProxy e c.s p inp).1 },
             .done (if (updateProxy e c.s p inp).2 then Api.ok 200 (.proxy (updateProxy e c.s p inp).1) else errResp .internal)) := by
          simp [advance, hk, live_same, hf, hz, hl, env_eta, hsplit']
        cases hu : updateProxy e c.s p inp with
        | mk p' okk =>
          cases okk <;>
            simp [runAlone, h0, h1, h2, hu, Phase.resp?, hz, hl, hUpdate, withProxy, hf, hd]

/-- **C16 (the block model refines the sequential model).** A request whose blocks run
without anything in between — from a state with no zombie listener and no half-way update —
changes the registry exactly as the sequential handler `Api.step` does, gets exactly its
answer, and leaves no zombie and no held mutex. -/
theorem C16_alone_is_sequential (v : UpdVariant) (e : Env) (c : CState) (r : Request)
    (hz : c.zombies = []) (hl : c.locked = []) :
    (runAlone v e c r).1.s = (step v e c.s r).1 ∧ (runAlone v e c r).2.resp? = some (step v e c.s r).2 ∧
    (runAlone v e c r).1.zombies = [] ∧ (runAlone v e c r).1.locked = [] := by
  cases hk : kindOf r with
  | single => exact alone_single v e c r hz hl hk
  | update n => exact alone_update v e c r n hz hl hk
  | toxic n => exact alone_toxic v e c r n hz hl hk

/-- Hence every one-at-a-time execution of any list of requests is an execution of the
sequential model, and ends without zombies: a listener that outlives its proxy needs an
interleaving. -/
theorem C16_sequential_runs (v : UpdVariant) (e : Env) :
    ∀ (rs : List Request) (c : CState), c.zombies = [] → c.locked = [] →
      (rs.foldl (fun c r => (runAlone v e c r).1) c).s = rs.foldl (fun s r => (step v e s r).1) c.s ∧
      (rs.foldl (fun c r => (runAlone v e c r).1) c).zombies = [] := by
  intro rs
  induction rs with
  | nil => intro c hz _; exact ⟨rfl, hz⟩
  | cons r rs ih =>
    intro c hz hl
    obtain ⟨h1, _, h3, h4⟩ := C16_alone_is_sequential v e c r hz hl
    have := ih (runAlone v e c r).1 h3 h4
    simp only [List.foldl_cons]
    rw [← h1]
    exact this

/-! ### Requests that run alone never leave a zombie, and a zombie needs an interleaving -/

/-- The two recorded races, as schedules of blocks (kernel-decided).  Environment: one
address `a:1` on port 1. -/
def envW : Env := ⟨[⟨"a:1", some "a:1", some "a:1", 1⟩], [], [("a:1", "a:1")]⟩
def p1off : ProxyRec := ⟨"p1", "a:1", "u:1", false, []⟩
def p1on : ProxyRec := ⟨"p1", "a:1", "u:1", true, []⟩
def enableReq : Request := ⟨.post, ["proxies", "p1"], false, .val (.obj [("enabled", .bool true)])⟩
def disableReq : Request := ⟨.post, ["proxies", "p1"], false, .val (.obj [("enabled", .bool false)])⟩
def upstreamReq : Request := ⟨.post, ["proxies", "p1"], false, .val (.obj [("upstream", .str "u:2")])⟩
def deleteReq : Request := ⟨.delete, ["proxies", "p1"], false, .empty⟩

/-- **Witness (listener outlives its proxy).** Requests: 0 = enable p1, 1 = delete p1; schedule:
enable looks p1 up and reads its defaults, delete runs, enable applies — both succeed (200, 204),
the registry is empty, port 1 is bound by nobody's proxy. -/
theorem C16_zombie_witness :
    outcome envW (runSched .fixed envW [enableReq, deleteReq] { s := [p1off] } [.start, .start] [0, 0, 1, 0])
      = ([], [1], [200, 204]) := by
  decide

/-- … which no one-at-a-time order produces: enable-then-delete leaves port 1 free,
delete-then-enable answers 404. -/
theorem C16_zombie_not_sequential :
    outcome envW (runSched .fixed envW [enableReq, deleteReq] { s := [p1off] } [.start, .start] [0, 0, 0, 1])
      = ([], [], [200, 204]) ∧
    outcome envW (runSched .fixed envW [enableReq, deleteReq] { s := [p1off] } [.start, .start] [1, 0, 0, 0])
      = ([], [], [404, 204]) := by
  decide

/-- **Witness (lost disable).** Requests: 0 = change upstream of p1, 1 = disable p1; schedule:
the upstream change looks p1 up and reads its defaults (enabled = true), the disable runs
completely, the upstream change applies (stop, store, start): both answer 200 and the proxy
ends enabled. -/
theorem C16_lost_disable_witness :
    outcome envW (runSched .fixed envW [upstreamReq, disableReq] { s := [p1on] } [.start, .start] [0, 0, 1, 1, 1, 0, 0])
      = ([("p1", "u:2", true)], [1], [200, 200]) := by
  decide

/-- … whereas in both one-at-a-time orders the proxy ends disabled. -/
theorem C16_lost_disable_not_sequential :
    outcome envW (runSched .fixed envW [upstreamReq, disableReq] { s := [p1on] } [.start, .start] [0, 0, 0, 0, 0, 1, 1, 1])
      = ([("p1", "u:2", false)], [], [200, 200]) ∧
    outcome envW (runSched .fixed envW [upstreamReq, disableReq] { s := [p1on] } [.start, .start] [1, 1, 1, 0, 0, 0])
      = ([("p1", "u:2", false)], [], [200, 200]) := by
  decide

end Toxi.Conc
