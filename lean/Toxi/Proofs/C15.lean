import Toxi.Model.Conn

/-!
# C15 — Finished connections leave nothing behind

Model: the goroutines of a link in `Model/Link.lean` (source goroutine until `srcDone`,
every stub while its `Pc` is running, the sink goroutine until `destClosed`) and the
census `Conn.goroutines`.  Tie: engine E6 compares the census of real goroutines of
toxiproxy code (by role, from `runtime.Stack`) with the model after every operation, and
requires it to return to the baseline when every connection has ended and every proxy was
deleted.

Proved here: the steps that the repairs for this property introduced — a stub that has
closed itself keeps consuming what arrives, a failed write leaves a drain behind, so nothing
before them can stay blocked — and what the census counts.  That every link at rest after its
source ended has no goroutine left is `C15_at_rest` / `C15_nothing_left` in
`Proofs/Lemmas/Rest.lean` (every toxic type; induction along the chain in both directions),
lifted to the proxy's census by `C15_census` in `Proofs/Lemmas/Census.lean`; E6 validates the
same on real sockets.
-/
namespace Toxi.Link
open Toxi.Toxic

/-- **C15 (a closed stub never strands its predecessor).** A stub that has closed (by its
own toxic, by Cleanup, or on end-of-stream) and whose `Pipe` has returned has an enabled
move whenever a chunk is visible on its input — queued in its buffer or offered by the
stub before it — and that move consumes the chunk. -/
theorem C15_closed_stub_drains (l : Link) (i : Nat) (now : Int) (s : Stage) (c : Chunk) (src : InSrc)
    (hs : l.stages[i]? = some s) (hret : s.pc = .ret) (hclosed : s.st.closed = true)
    (hintr : s.intr ≠ .pending) (hw : s.intr ≠ .waitRet) (hctl : l.ctlDrains i = false)
    (hin : l.inputOf i = some (some c, src)) :
    l.stageMove i now = some (l.consume i src true now) := by
  unfold Link.stageMove
  simp only [hs, hret]
  have h1 : (s.intr == IntrSt.pending) = false := by simpa using hintr
  have h2 : (s.intr == IntrSt.waitRet) = false := by simpa using hw
  simp [Pc.timer, h1, h2, Pc.wantsInput, Pc.running, hclosed, hctl, hin]

/-- **C15 (a failed write never strands the chain).** After a write to the destination
failed, the goroutine the sink leaves behind consumes whatever the last stub offers — so the
last stub (and through it every stub and the source goroutine) can always make progress —
and it ends when that output is closed. -/
theorem C15_failed_sink_drains (l : Link) (now : Int) (hc : l.destClosed = true) (hd : l.sinkDrain = true)
    (hw : l.wired ≠ 0) :
    (∀ c, l.offerTo l.wired = some c → l.sinkMove now = some (l.ackUpstream l.wired now)) ∧
    (l.offerTo l.wired = none → l.inputClosed l.wired = true →
        l.sinkMove now = some { l with sinkDrain := false }) := by
  have hw' : (l.wired == 0) = false := by simpa using hw
  constructor
  · intro c hoff
    simp [Link.sinkMove, hc, hd, hw', hoff]
  · intro hoff hcl
    simp [Link.sinkMove, hc, hd, hw', hoff, hcl]

/-- … and a write fails exactly into that state. -/
theorem C15_failed_write_starts_drain (l : Link) (now : Int) (d : Toxi.Stream.Bytes) (hc : l.destClosed = false)
    (hp : l.sinkPend = some d) (hf : l.sinkFail = true) :
    l.sinkMove now = some { l with sinkPend := none, destClosed := true, sinkErr := true, sinkDrain := true } := by
  simp [Link.sinkMove, hc, hp, hf]

/-- **C15 (what is left behind, exactly).** The census of a proxy is zero iff it is stopped
and for every link it ever had: the source goroutine has ended, no stub is running, and
the sink goroutine has closed the destination. -/
theorem C15_census_zero (p : Toxi.Conn.PProxy) :
    Toxi.Conn.goroutines p = (0, 0, 0, 0) ↔
      (((Toxi.Conn.allLinks p.coll).filter fun nl => !nl.l.srcDone).length = 0 ∧
       ((Toxi.Conn.allLinks p.coll).map fun nl => (nl.l.stages.filter fun s => s.pc.running).length).foldl (· + ·) 0 = 0 ∧
       ((Toxi.Conn.allLinks p.coll).filter fun nl => !nl.l.destClosed || nl.l.sinkDrain).length = 0 ∧ p.enabled = false) := by
  unfold Toxi.Conn.goroutines
  simp only [Prod.mk.injEq]
  constructor
  · rintro ⟨a, b, c, d⟩
    refine ⟨a, b, c, ?_⟩
    cases h : p.enabled <;> simp_all
  · rintro ⟨a, b, c, d⟩
    exact ⟨a, b, c, by simp [d]⟩

end Toxi.Link
