import Toxi.Proofs.Lemmas.Toxic

/-!
# C12 — Slicer re-chunks without changing the stream, within its size bound

Model: `slicerChunk` (the recursive `SlicerToxic.chunk`, with the random draws as an
argument) and the slicer part of `Toxi.Toxic.step`; tied to `toxics/slicer.go` by E2.
Guard of the property: `0 ≤ size_variation < average_size`.
-/
namespace Toxi.Toxic
open Toxi.Stream (Bytes)

/-- The offsets form a chain `s = o₀, o₁, …, oₖ = e` (each piece starts where the previous
one ended). -/
def Chain : Int → Int → List (Int × Int) → Prop
  | _, _, [] => False
  | s, e, [p] => p.1 = s ∧ p.2 = e
  | s, e, p :: q :: rest => p.1 = s ∧ Chain p.2 e (q :: rest)

theorem chain_append {s m e : Int} {l r : List (Int × Int)} (hl : Chain s m l) (hr : Chain m e r) :
    Chain s e (l ++ r) := by
  induction l generalizing s with
  | nil => simp [Chain] at hl
  | cons p l ih =>
    cases l with
    | nil =>
      simp only [Chain] at hl
      cases r with
      | nil => simp [Chain] at hr
      | cons q r => simp only [List.cons_append, List.nil_append, Chain]; exact ⟨hl.1, hl.2 ▸ hr⟩
    | cons q l =>
      simp only [Chain] at hl
      simp only [List.cons_append, Chain]
      exact ⟨hl.1, ih hl.2⟩

/-- The attribute guard of the property, plus "2·variation fits an int64". -/
structure SlicerOK (avg var : Int) : Prop where
  var_nonneg : 0 ≤ var
  var_lt_avg : var < avg
  no_wrap : var * 2 < 9223372036854775808

/-- **C12 (termination, partition, size bound).** For `0 ≤ variation < average`, every
`start ≤ end`, every list of random draws (any values, any length) and fuel exceeding the
size: `chunk` terminates and returns a chain of offsets from `start` to `end` whose pieces
are each at most `average + variation` long and — when the input is non-empty — non-empty. -/
theorem C12_chunk (g : Bool) (avg var : Int) (h : SlicerOK avg var) :
    ∀ (fuel : Nat) (s e : Int) (draws : List Int), s ≤ e → e - s < fuel →
      ∃ offs rest, slicerChunk g avg var fuel s e draws = .ok offs rest ∧ Chain s e offs ∧
        (∀ p ∈ offs, p.2 - p.1 ≤ avg + var ∧ (s < e → p.1 < p.2) ∧ p.1 ≤ p.2) := by
  obtain ⟨hv0, hva, hw⟩ := h
  have hwrap : wrap64 (var * 2) = var * 2 := wrap64_id _ (by omega) hw
  intro fuel
  induction fuel with
  | zero => intro s e _ _ h; omega
  | succ fuel ih =>
    intro s e draws hse hfuel
    unfold slicerChunk
    have hdiff : (if avg < -(4611686018427387904 : Int) then wrap64 ((e - s) - avg) else (e - s) - avg) = (e - s) - avg := by
      rw [if_neg]; omega
    simp only [hdiff]
    by_cases hbase : (e - s) - avg ≤ var
    · refine ⟨[(s, e)], draws, by simp [hbase], by simp [Chain], ?_⟩
      intro p hp
      simp only [List.mem_singleton] at hp
      subst hp
      exact ⟨by simp; omega, fun h => h, hse⟩
    · have hsmall : ¬ (e - s < 2) := by omega
      have hcond : ((g && decide (e - s < 2)) || decide (e - s - avg ≤ var)) = false := by
        simp [hsmall, hbase]
      simp only [hcond, Bool.false_eq_true, if_false]
      have hsize : avg + var < e - s := by omega
      have htd : Int.tdiv (e - s) 2 = (e - s) / 2 := Int.tdiv_eq_ediv_of_nonneg (by omega)
      have hmax : var ≤ Int.tdiv maxInt64 2 := by
        have : Int.tdiv maxInt64 2 = 4611686018427387903 := by decide
        omega
      have hclamp : ∀ mid : Int, s < mid → mid < e →
          (if g = true then (if mid ≤ s then s + 1 else if mid ≥ e then e - 1 else mid) else mid) = mid := by
        intro mid h1 h2
        have a1 : ¬ (mid ≤ s) := by omega
        have a2 : ¬ (mid ≥ e) := by omega
        cases g <;> simp [a1, a2]
      have finish : ∀ mid ds, s < mid → mid < e → ∃ l r1 r r2,
          slicerChunk g avg var fuel s mid ds = .ok l r1 ∧ slicerChunk g avg var fuel mid e r1 = .ok r r2 ∧
          Chain s e (l ++ r) ∧ (∀ p ∈ l ++ r, p.2 - p.1 ≤ avg + var ∧ (s < e → p.1 < p.2) ∧ p.1 ≤ p.2) := by
        intro mid ds hm1 hm2
        obtain ⟨l, r1, hl, hcl, hpl⟩ := ih s mid ds (by omega) (by omega)
        obtain ⟨r, r2, hr, hcr, hpr⟩ := ih mid e r1 (by omega) (by omega)
        refine ⟨l, r1, r, r2, hl, hr, chain_append hcl hcr, ?_⟩
        intro p hp
        rcases List.mem_append.mp hp with hp | hp
        · exact ⟨(hpl p hp).1, fun _ => (hpl p hp).2.1 hm1, (hpl p hp).2.2⟩
        · exact ⟨(hpr p hp).1, fun _ => (hpr p hp).2.1 hm2, (hpr p hp).2.2⟩
      rw [hwrap, htd]
      by_cases hv : var > 0
      · have hnw : ¬ (var * 2 ≤ 0) := by omega
        have hc2 : (decide (var > 0) && (!g || decide (var ≤ Int.tdiv maxInt64 2))) = true := by
          simp [hv, hmax]
        simp only [hc2, if_true, hnw, if_false]
        cases draws with
        | nil =>
          obtain ⟨l, r1, r, r2, hl, hr, hc, hp⟩ := finish (s + (e - s) / 2 - var) [] (by omega) (by omega)
          refine ⟨l ++ r, r2, ?_, hc, hp⟩
          simp only [hclamp (s + (e - s) / 2 - var) (by omega) (by omega), hl, hr]
        | cons d ds =>
          have h1 := Int.emod_nonneg d (b := var * 2) (by omega)
          have h2 := Int.emod_lt_of_pos d (b := var * 2) (by omega)
          obtain ⟨l, r1, r, r2, hl, hr, hc, hp⟩ :=
            finish (s + (e - s) / 2 + d % (var * 2) - var) ds (by omega) (by omega)
          refine ⟨l ++ r, r2, ?_, hc, hp⟩
          simp only [hclamp (s + (e - s) / 2 + d % (var * 2) - var) (by omega) (by omega), hl, hr]
      · have hc2 : (decide (var > 0) && (!g || decide (var ≤ Int.tdiv maxInt64 2))) = false := by
          simp [hv]
        simp only [hc2, Bool.false_eq_true, if_false]
        obtain ⟨l, r1, r, r2, hl, hr, hc, hp⟩ := finish (s + (e - s) / 2) draws (by omega) (by omega)
        refine ⟨l ++ r, r2, ?_, hc, hp⟩
        simp only [hclamp (s + (e - s) / 2) (by omega) (by omega), hl, hr]

/-- **C07/C12 (the repaired recursion is total).** For *every* average_size and
size_variation (zero, negative, larger than the data, up to the ends of int64), every
`start ≤ end`, every list of draws and fuel exceeding the size, the guarded `chunk`
terminates without panic and returns a monotone chain of offsets from `start` to `end`. -/
theorem chunk_total (avg var : Int) :
    ∀ (fuel : Nat) (s e : Int) (draws : List Int), s ≤ e → e - s < fuel →
      ∃ offs rest, slicerChunk true avg var fuel s e draws = .ok offs rest ∧ Chain s e offs ∧
        (∀ p ∈ offs, p.1 ≤ p.2) := by
  intro fuel
  induction fuel with
  | zero => intro s e _ _ h; omega
  | succ fuel ih =>
    intro s e draws hse hfuel
    unfold slicerChunk
    generalize (if avg < -(4611686018427387904 : Int) then wrap64 ((e - s) - avg) else (e - s) - avg) = diff
    by_cases hbase : ((true && decide (e - s < 2)) || decide (diff ≤ var)) = true
    · refine ⟨[(s, e)], draws, by simp only [hbase, if_true], by simp [Chain], ?_⟩
      intro p hp
      simp only [List.mem_singleton] at hp
      subst hp
      exact hse
    · simp only [hbase, Bool.false_eq_true, if_false]
      have hsz : ¬ (e - s < 2) := by
        intro h; apply hbase; simp [h]
      have finish : ∀ mid1 ds, ∃ offs rest,
          (match slicerChunk true avg var fuel s (if true = true then (if mid1 ≤ s then s + 1 else if mid1 ≥ e then e - 1 else mid1) else mid1) ds with
            | .ok l ds' =>
              match slicerChunk true avg var fuel (if true = true then (if mid1 ≤ s then s + 1 else if mid1 ≥ e then e - 1 else mid1) else mid1) e ds' with
              | .ok r ds'' => ChunkRes.ok (l ++ r) ds''
              | x => x
            | x => x) = .ok offs rest ∧ Chain s e offs ∧ (∀ p ∈ offs, p.1 ≤ p.2) := by
        intro mid1 ds
        simp only [if_true]
        generalize hm : (if mid1 ≤ s then s + 1 else if mid1 ≥ e then e - 1 else mid1) = mid
        have hm1 : s < mid ∧ mid < e := by
          rw [← hm]; split
          · omega
          · split <;> omega
        obtain ⟨l, r1, hl, hcl, hpl⟩ := ih s mid ds (by omega) (by omega)
        obtain ⟨r, r2, hr, hcr, hpr⟩ := ih mid e r1 (by omega) (by omega)
        refine ⟨l ++ r, r2, by simp [hl, hr], chain_append hcl hcr, ?_⟩
        intro p hp
        rcases List.mem_append.mp hp with hp | hp
        · exact hpl p hp
        · exact hpr p hp
      by_cases hc2 : (decide (var > 0) && (!true || decide (var ≤ Int.tdiv maxInt64 2))) = true
      · simp only [hc2, if_true]
        have hv : 0 < var ∧ var ≤ Int.tdiv maxInt64 2 := by simpa using hc2
        have hmax : Int.tdiv maxInt64 2 = 4611686018427387903 := by decide
        have hwrap : wrap64 (var * 2) = var * 2 := wrap64_id _ (by omega) (by omega)
        have hnw : ¬ (var * 2 ≤ 0) := by omega
        rw [hwrap]
        simp only [hnw, if_false]
        cases draws with
        | nil => exact finish _ _
        | cons d ds => exact finish _ _
      · simp only [hc2, Bool.false_eq_true, if_false]
        exact finish _ _

/-- The fuel the stage gives to `chunk` always suffices (`outOfFuel`, i.e. the unbounded
recursion of the Go code, is unreachable under the guard). -/
theorem C12_terminates (g : Bool) (avg var : Int) (h : SlicerOK avg var) (size : Nat) (draws : List Int) :
    ∃ offs rest, slicerChunk g avg var (slicerFuel size) 0 size draws = .ok offs rest ∧
      Chain 0 size offs ∧ (∀ p ∈ offs, p.2 - p.1 ≤ avg + var ∧ ((0:Int) < size → p.1 < p.2) ∧ p.1 ≤ p.2) := by
  have := C12_chunk g avg var h (slicerFuel size) 0 size draws (by omega) (by unfold slicerFuel; omega)
  simpa using this

/-- The pieces cut out of `data` by a list of offsets. -/
def cut (data : Bytes) (offs : List (Int × Int)) : List Bytes :=
  offs.map fun p => (data.drop p.1.toNat).take (p.2 - p.1).toNat

/-- **C12 (the pieces are the stream).** For a monotone chain of offsets inside the data,
the concatenation of the pieces is exactly the data between the first and last offset. -/
theorem C12_partition (data : Bytes) :
    ∀ (offs : List (Int × Int)) (s e : Int), Chain s e offs → 0 ≤ s → (∀ p ∈ offs, p.1 ≤ p.2) →
      (cut data offs).flatten = (data.drop s.toNat).take (e - s).toNat := by
  intro offs
  induction offs with
  | nil => intro s e hc; simp [Chain] at hc
  | cons p rest ih =>
    intro s e hc hs hmono
    cases rest with
    | nil =>
      simp only [Chain] at hc
      simp [cut, hc.1, hc.2]
    | cons q rest =>
      simp only [Chain] at hc
      have hp := hmono p (by simp)
      have ih' := ih p.2 e hc.2 (by omega) (fun x hx => hmono x (by simp [hx]))
      have hle : p.2 ≤ e := by
        -- the rest of the chain is monotone too
        have : ∀ (l : List (Int × Int)) (a b : Int), Chain a b l → (∀ x ∈ l, x.1 ≤ x.2) → a ≤ b := by
          intro l
          induction l with
          | nil => intro a b h; simp [Chain] at h
          | cons x l ihl =>
            intro a b h hm
            cases l with
            | nil => simp only [Chain] at h; have := hm x (by simp); omega
            | cons y l =>
              simp only [Chain] at h
              have := hm x (by simp)
              have := ihl x.2 b h.2 (fun z hz => hm z (by simp [hz]))
              omega
        exact this _ _ _ hc.2 (fun x hx => hmono x (by simp [hx]))
      simp only [cut, List.map_cons, List.flatten_cons] at ih' ⊢
      rw [ih', hc.1.symm]
      have h1 : (e - p.1).toNat = (p.2 - p.1).toNat + (e - p.2).toNat := by omega
      have h2 : p.2.toNat = p.1.toNat + (p.2 - p.1).toNat := by omega
      rw [h1, List.take_add, h2, ← List.drop_drop]

/-- **C12 (one piece, then a pause of exactly `delay` µs).** Sending the next piece of a
chain offers exactly the bytes `[a, b)`, keeps the rest, and once the piece is taken the
stage requests a timer of `delay` microseconds before anything else is offered. -/
theorem C12_gap (v : Variant) (avg var delay : Int) (hd : 0 ≤ delay)
    (hdw : delay * us < 9223372036854775808) (st : StubSt)
    (rest : Bytes) (base ts a b : Int) (offs : List (Int × Int))
    (ha : a = base) (hab : a ≤ b) (hb : b - base ≤ rest.length) (now : Int) :
    slicerSend rest base ts ((a, b) :: offs)
      = .out ⟨rest.take (b - a).toNat, ts⟩ (.slicerGap (rest.drop (b - a).toNat) offs b ts) ∧
    step v (.slicer avg var delay) true st
        (.out ⟨rest.take (b - a).toNat, ts⟩ (.slicerGap (rest.drop (b - a).toNat) offs b ts)) (.taken now)
      = some (st, .nap (now + delay * us) (.slicerGap (rest.drop (b - a).toNat) offs b ts)) := by
  subst ha
  have hw : wrap64 (delay * us) = delay * us :=
    wrap64_id _ (by have := Int.mul_nonneg hd (show (0:Int) ≤ us by decide); omega) hdw
  have h0 : 0 ≤ delay * us := Int.mul_nonneg hd (by decide)
  constructor
  · simp only [slicerSend, slice, Int.sub_self]
    have : (0:Int) ≤ 0 ∧ (0:Int) ≤ b - a ∧ b - a ≤ (rest.length : Int) := ⟨by omega, by omega, hb⟩
    simp [this]
    split
    · rename_i heq; rw [if_pos hab] at heq; cases heq; rfl
    · rename_i heq; rw [if_pos hab] at heq; cases heq
  · simp [step, hw, Int.max_eq_left h0]

/-- **C12 (update or removal at a piece boundary loses nothing).** An interrupt during the
pause offers everything after the piece just sent as one chunk and then returns; when the
timer fires instead, the next piece of the chain is sent. -/
theorem C12_interrupt (v : Variant) (avg var delay : Int) (st : StubSt) (d : Int)
    (rest : Bytes) (offs : List (Int × Int)) (base ts now : Int) :
    step v (.slicer avg var delay) true st (.nap d (.slicerGap rest offs base ts)) (.interrupt now)
      = some (st, .out ⟨rest, ts⟩ .toRet) ∧
    step v (.slicer avg var delay) true st (.nap d (.slicerGap rest offs base ts)) (.timer now)
      = some (st, slicerSend rest base ts offs) := by
  simp [step]

/-- Non-vacuity: 100 bytes, average 30, variation 5, draws 3, 9, 0: pieces of 28, 20, 21, 31
bytes (all ≤ 35), a chain from 0 to 100. -/
example : slicerChunk true 30 5 (slicerFuel 100) 0 100 [3, 9, 0, 0]
    = .ok [(0, 28), (28, 48), (48, 69), (69, 100)] [0] := by decide

/-- The guard matters: with default attributes (0, 0) and one byte the recursion never
terminates — no fuel suffices (in Go: stack overflow, the process dies; finding C07 a). -/
theorem C12_unguarded_diverges : ∀ fuel draws, slicerChunk false 0 0 fuel 0 1 draws = .outOfFuel := by
  intro fuel
  induction fuel with
  | zero => intro _; rfl
  | succ n ih =>
    intro draws
    unfold slicerChunk
    have : Int.tdiv (1 - 0) 2 = 0 := by decide
    cases n with
    | zero => simp [slicerChunk, this]
    | succ m =>
      have hl : slicerChunk false 0 0 (m + 1) 0 0 draws = .ok [(0, 0)] draws := by
        simp [slicerChunk]
      simp [this, hl, ih draws]

/-- … and the repaired recursion does terminate there: one piece. -/
example : slicerChunk true 0 0 (slicerFuel 1) 0 1 [] = .ok [(0, 1)] [] := by decide

end Toxi.Toxic
