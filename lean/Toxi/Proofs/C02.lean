import Toxi.Proofs.C01

/-!
# C02 — Reconfiguring toxics never corrupts a live stream

Model: `Model/Link.lean` — the three reconfiguration procedures of `link.go` as the
controller `Ctl`, one constructor per blocking point (interrupt rendezvous, the
`for !interrupted` loop with its helper, `WriteOutput` with its 5 s give-up, the
`len(Input) > 0` drain, the splice, the restarts, the early returns).  Tie: engine E3
(real `AddToxicJson / UpdateToxicJson / RemoveToxic / ResetToxics` on real links, every
observable compared after every operation).

Proved so far: the stage-level facts every reconfiguration relies on, and the
controller's local steps.  The composition into one invariant over all `Link.move`
sequences is the next extension (DESIGN.md §5, appendix A.1).
-/
namespace Toxi.Link
open Toxi.Toxic

/-- **C02 (an interrupted stage keeps its chunk).** Whatever a data-preserving stage holds
when it is interrupted — a chunk asleep in latency, the rest of a chunk in bandwidth or
between two slicer pieces — it still holds afterwards, to be flushed downstream in order
before `Pipe` returns. -/
theorem C02_interrupt_keeps (cfg : Cfg) (hs : Safe cfg) (st : StubSt) (pc : Pc) (now : Int)
    (st' : StubSt) (pc' : Pc) (hwf : PcWF cfg pc)
    (h : step .fixed cfg true st pc (.interrupt now) = some (st', pc')) :
    pc'.held = pc.held ∧ PcWF cfg pc' :=
  let r := step_conserves cfg hs st pc (.interrupt now) st' pc' hwf h
  ⟨r.2, r.1⟩

/-- **C02 (a stage is restarted only when it holds nothing).** `InterruptToxic` returns true
only after `Pipe` has returned; a returned stage holds no bytes, so restarting it with
another configuration (update, or the predecessor restarts of add/remove) drops nothing. -/
theorem C02_restart_empty (s : Stage) (t : TCfg) (now : Int) (h : s.pc = .ret) :
    s.pc.held = [] ∧ (s.start t now).inq = s.inq ∧ (s.start t now).st = s.st := by
  simp [h, Pc.held, Stage.start]

/-- **C02 (remove: the controller moves queued chunks one at a time, in order).** In the
`for !interrupted` loop the controller takes the *oldest* chunk visible on the removed
stub's input and holds it as `tmp` until the downstream side has taken it. -/
theorem C02_rmLoop_takes_oldest (l : Link) (chain : List TCfg) (now : Int) (idx : Nat) (sg : Bool)
    (c : Chunk) (src : InSrc)
    (hctl : l.ctl = some (.rmLoop idx none 0 sg))
    (hhelper : (l.stages[idx - 1]?).map (·.intr) ≠ some (IntrSt.done true))
    (hhelper2 : ¬ ((l.stages[idx - 1]?).map (·.intr) = some (IntrSt.done false) ∧ sg = false))
    (hin : l.inputOf idx = some (some c, src)) :
    l.ctlMove chain now =
      some { (l.consume idx src true now) with ctl := some (.rmLoop idx (some c) (now + 5000 * ms) sg) } := by
  unfold Link.ctlMove
  simp only [hctl]
  have h1 : ((l.stages[idx - 1]?).map (·.intr) == some (IntrSt.done true)) = false := by
    simpa using hhelper
  have h2 : ((l.stages[idx - 1]?).map (·.intr) == some (IntrSt.done false) && !sg) = false := by
    cases sg <;> simp_all
  simp [h1, h2, hin]

/-- **C02 (remove: the stub is spliced out only when it is empty).** The splice happens in
the state where the controller holds no chunk and the removed stub's input buffer is
empty; the predecessor is then restarted with the chain entry it had. -/
theorem C02_splice_when_empty (l : Link) (chain : List TCfg) (now : Int) (idx : Nat)
    (hctl : l.ctl = some (.rmDrain idx none 0)) (s : Stage) (hs : l.stages[idx]? = some s)
    (hempty : s.inq = []) :
    l.ctlMove chain now = some (restartAt { l with ctl := none, stages := l.stages.eraseIdx idx } chain (idx - 1) now) := by
  unfold Link.ctlMove
  simp [hctl, hs, hempty]

/-- **C02 (give-up is the only way the controller drops a chunk).** While a chunk is held as
`tmp`, the controller's only own move is the 5 s give-up of `WriteOutput`; before that
deadline it has none (the chunk leaves only by being taken downstream). -/
theorem C02_tmp_only_giveup (l : Link) (chain : List TCfg) (now : Int) (idx : Nat) (c : Chunk)
    (d : Int) (sg : Bool) (hctl : l.ctl = some (.rmLoop idx (some c) d sg)) (hnot : now < d) :
    l.ctlMove chain now = none := by
  unfold Link.ctlMove
  have : ¬ d ≤ now := by omega
  simp [hctl, this]

end Toxi.Link
