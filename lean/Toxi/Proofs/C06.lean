import Toxi.Proofs.Lemmas.Api

/-!
# C06 — A rejected request changes nothing

Model: `Toxi.Api.step` (`Model/Api.lean`), tied to `api.go`, `proxy_collection.go`,
`toxic_collection.go`, `proxy.go` by engine E4 (every response and a full `GET /proxies`
snapshot after every request are compared with the model).  The state compared contains
every proxy's fields and every toxic's attributes and toxicity.
-/
namespace Toxi.Api

/-- The repaired `UpdateToxicJson` returns the proxy untouched whenever it reports an error. -/
theorem updateToxic_fixed_err (p : ProxyRec) (name : String) (b : Body) (p' : ProxyRec) (err : Err)
    (h : updateToxic .fixed p name b = (p', .error err)) : p' = p := by
  unfold updateToxic at h
  split at h
  · simp at h; exact h.1.symm
  · split at h
    · simp at h; exact h.1.symm
    · simp at h; exact h.1.symm
    · simp at h
    · simp only at h
      split at h
      · simp at h; exact h.1.symm
      · simp at h
    · simp at h; exact h.1.symm

/-- A response is a *rejection* when it has an error status and is not a bind/resolve failure. -/
def Rejected (r : Response) : Prop := 400 ≤ r.status ∧ r.netFail = false

theorem errResp_internal_not_rejected : ¬ Rejected (errResp .internal) := by
  simp [Rejected, errResp, Err.status]

theorem ok_not_rejected {n : Nat} {b : RespBody} (h : n < 400) : ¬ Rejected (ok n b) := by
  simp [Rejected, ok]; omega

theorem withProxy_unchanged (s : State) (name : String) (k : ProxyRec → State × Response)
    (hk : ∀ p, s.find name = some p → Rejected (k p).2 → (k p).1 = s)
    (h : Rejected (withProxy s name k).2) : (withProxy s name k).1 = s := by
  unfold withProxy at h ⊢
  split
  · rfl
  · rename_i p hp
    simp only [hp] at h
    exact hk p hp h

theorem hCreate_unchanged (e : Env) (s : State) (b : Body) (h : Rejected (hCreate e s b).2) :
    (hCreate e s b).1 = s := by
  unfold hCreate at h ⊢
  cases hd : decodeProxy ⟨"", "", "", true⟩ b with
  | none => simp
  | some inp =>
    simp only [hd] at h ⊢
    by_cases h1 : (inp.name == "") = true
    · simp [h1]
    · by_cases h2 : (inp.upstream == "") = true
      · simp [h1, h2]
      · by_cases h3 : (s.find inp.name).isSome = true
        · simp [h1, h2, h3]
        · by_cases h4 : inp.enabled = true
          · simp only [h1, h2, h3, h4, if_false, if_true] at h ⊢
            cases hs : startProxy e s ⟨inp.name, inp.listen, inp.upstream, false, []⟩ with
            | none => simp
            | some p => simp only [hs] at h; exact absurd h (ok_not_rejected (by decide))
          · simp only [h1, h2, h3, h4, if_false] at h
            exact absurd h (ok_not_rejected (by decide))

theorem hUpdate_unchanged (e : Env) (s : State) (name : String) (b : Body)
    (h : Rejected (hUpdate e s name b).2) : (hUpdate e s name b).1 = s := by
  unfold hUpdate at h ⊢
  apply withProxy_unchanged _ _ _ _ h
  intro p _ hr
  cases hd : decodeProxy ⟨p.name, p.listen, p.upstream, p.enabled⟩ b with
  | none => simp
  | some inp =>
    simp only [hd] at hr ⊢
    cases hu : updateProxy e s p inp with
    | mk p' okb =>
      cases okb with
      | true => simp only [hu] at hr; exact absurd hr (ok_not_rejected (by decide))
      | false => simp only [hu] at hr; exact absurd hr errResp_internal_not_rejected

theorem hToxicUpdate_unchanged (s : State) (hinv : Inv s) (name tn : String) (b : Body)
    (h : Rejected (hToxicUpdate .fixed s name tn b).2) : (hToxicUpdate .fixed s name tn b).1 = s := by
  unfold hToxicUpdate at h ⊢
  apply withProxy_unchanged _ _ _ _ h
  intro p hp hr
  obtain ⟨hmem, _⟩ := find_some_mem hp
  cases hu : updateToxic .fixed p tn b with
  | mk p' res =>
    cases res with
    | ok t => simp only [hu] at hr; exact absurd hr (ok_not_rejected (by decide))
    | error err =>
      have := updateToxic_fixed_err p tn b p' err hu
      subst this
      simp only []
      exact replace_self hinv.names hmem

theorem hToxicCreate_unchanged (s : State) (name : String) (b : Body)
    (h : Rejected (hToxicCreate s name b).2) : (hToxicCreate s name b).1 = s := by
  unfold hToxicCreate at h ⊢
  apply withProxy_unchanged _ _ _ _ h
  intro p _ hr
  cases ha : addToxic p b with
  | ok x => simp only [ha] at hr; exact absurd hr (ok_not_rejected (by decide))
  | error err => simp

theorem hToxicDelete_unchanged (s : State) (name tn : String)
    (h : Rejected (hToxicDelete s name tn).2) : (hToxicDelete s name tn).1 = s := by
  unfold hToxicDelete at h ⊢
  apply withProxy_unchanged _ _ _ _ h
  intro p _ hr
  cases ha : removeToxic p tn with
  | ok x => simp only [ha] at hr; exact absurd hr (ok_not_rejected (by decide))
  | error err => simp

theorem reset_not_rejected (e : Env) (s : State) : ¬ Rejected (reset e s).2 := by
  unfold reset
  simp only
  generalize List.foldl _ _ s = res
  split <;> simp [Rejected]

theorem populate_unchanged (e : Env) (s : State) (b : Body) (h : Rejected (populate e s b).2) :
    (populate e s b).1 = s := by
  have key : ∀ res, populate e s b = res → Rejected res.2 → res.1 = s := by
    intro res hres h
    unfold populate at hres
    split at hres
    · subst hres; rfl
    · split at hres
      · subst hres; rfl
      · simp only at hres
        split at hres <;> (subst hres; simp [Rejected] at h)
  exact key _ rfl h

theorem dispatch_unchanged (e : Env) (s : State) (r : Request) (hinv : Inv s)
    (res : State × Response) (hres : dispatch .fixed e s r = res) (h : Rejected res.2) :
    res.1 = s := by
  unfold dispatch at hres
  split at hres <;> subst hres
  · rfl
  · exact absurd h (reset_not_rejected e s)
  · exact populate_unchanged e s r.body h
  · rfl
  · exact hCreate_unchanged e s r.body h
  · simp only [hShow, withProxy]; split <;> rfl
  · unfold hDelete at h ⊢
    apply withProxy_unchanged _ _ _ _ h
    intro p _ hr
    exact absurd hr (ok_not_rejected (by decide))
  · exact hUpdate_unchanged e s _ r.body h
  · simp only [hToxicIndex, withProxy]; split <;> rfl
  · exact hToxicCreate_unchanged s _ r.body h
  · simp only [hToxicShow, withProxy]; split
    · rfl
    · split <;> rfl
  · exact hToxicDelete_unchanged s _ _ h
  · exact hToxicUpdate_unchanged s hinv _ _ r.body h
  · rfl

/-- **C06 (a rejected request changes nothing).** For every environment, every registry
state with unique proxy names and every request — any route, method, header and body
(valid, ill-typed, partially valid, truncated, empty): if the answer has an error status
and the failure is not a bind/resolve failure, the registry afterwards is exactly the
registry before. -/
theorem C06_rejected_unchanged (e : Env) (s : State) (r : Request) (hinv : Inv s)
    (h : Rejected (step .fixed e s r).2) : (step .fixed e s r).1 = s := by
  have key : ∀ res, step .fixed e s r = res → Rejected res.2 → res.1 = s := by
    intro res hres h
    unfold step at hres
    split at hres
    · subst hres; rfl
    · split at hres
      · subst hres; rfl
      · split at hres
        · subst hres; rfl
        · exact dispatch_unchanged e s r hinv res hres h
  exact key _ rfl h

/-- **C06 (populate validates before it creates).** A populate whose body cannot be decoded,
or in which any entry (at any position) lacks a name or an upstream, alters no proxy. -/
theorem C06_populate_validates_first (e : Env) (s : State) (b : Body)
    (h : decodePopulate b = none ∨
      ∃ xs, decodePopulate b = some xs ∧ xs.any (fun x => x.name == "" || x.upstream == "") = true) :
    (populate e s b).1 = s ∧ (populate e s b).2.status = 400 := by
  rcases h with h | ⟨xs, h1, h2⟩
  · simp [populate, h]
  · simp [populate, h1, h2]

/-- **C06 (the designed exception, exactly).** When a proxy update fails to bind or resolve,
nothing but that proxy changes, and that proxy is left stopped. -/
theorem C06_exception_update (e : Env) (s : State) (p : ProxyRec) (inp : ProxyInput)
    (p' : ProxyRec) (h : updateProxy e s p inp = (p', false)) :
    p' = p ∨ (p'.enabled = false ∧ p'.name = p.name ∧ p'.toxics = p.toxics) := by
  unfold updateProxy at h
  cases hr : e.resolve inp.listen with
  | none => simp only [hr] at h; left; exact (Prod.mk.inj h).1.symm
  | some r =>
    simp only [hr] at h
    generalize hp1 : (if (!e.sameListen p.listen inp.listen || p.upstream != inp.upstream) = true then
        ({ p with enabled := false, listen := inp.listen, upstream := inp.upstream } : ProxyRec) else p) = p1 at h
    have hname : p1.name = p.name ∧ p1.toxics = p.toxics := by
      subst hp1; split <;> simp
    by_cases hne : (inp.enabled != p1.enabled) = true
    · simp only [hne, if_true] at h
      by_cases hen : inp.enabled = true
      · simp only [hen, if_true] at h
        cases hs : startProxy e (s.replace p1) p1 with
        | some p2 => simp [hs] at h
        | none =>
          simp only [hs] at h
          have := (Prod.mk.inj h).1
          subst this
          right
          refine ⟨?_, hname.1, hname.2⟩
          cases hp : p1.enabled with
          | false => rfl
          | true => simp [hen, hp] at hne
      · simp [hen] at h
    · simp [hne] at h

/-- **Regression witness (defect repaired by the `fix:` commit for C06).** The original
decode-in-place: whenever the body's attributes object has a type error somewhere (or the
toxicity is ill-typed), the request is answered 400 *and* the attribute values that did
decode have been stored in the live toxic; the repaired code leaves the proxy as it was.
(Concrete replay on the real code: `{"attributes":{"latency":"x","jitter":7}}` sets jitter
to 7 — first entry of E4's corpus.) -/
theorem C06_legacy_leaks (p : ProxyRec) (t : ToxicRec) (name : String)
    (kvs : List (String × J)) (hf : findToxic p name = some t)
    (herr : (applyAttrBody t.attrs kvs).2 = true ∨
            (applyStores storeF32 t.tox (lookupAll kvs "toxicity")).2 = true) :
    updateToxic .legacy p name (.val (.obj kvs))
      = (replaceToxic p { t with attrs := (applyAttrBody t.attrs kvs).1 }, .error .badRequestBody) ∧
    updateToxic .fixed p name (.val (.obj kvs)) = (p, .error .badRequestBody) := by
  unfold updateToxic
  simp only [hf]
  rcases herr with h | h <;> simp [h]

end Toxi.Api
