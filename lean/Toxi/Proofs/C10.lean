import Toxi.Proofs.Lemmas.Toxic

/-!
# C10 — Timeout toxic black-holes data and closes after exactly the configured time

Model: `Toxi.Toxic.step` for `Cfg.timeout` (`Model/Toxic.lean`), tied to `toxics/timeout.go`
by engine E2 (virtual clock).  The link-level clause "removing the toxic closes the
connection" is `C10_remove_closes` in the link model (see C02/C04 files).
-/
namespace Toxi.Toxic

/-- Program counters a timeout stage can be in. -/
def TimeoutPc : Pc → Prop
  | .idle _ | .idleT _ | .ret => True
  | _ => False

theorem C10_start_pc (T now : Int) : TimeoutPc (start (.timeout T) true now) := by
  unfold start
  simp only [Bool.not_true, Bool.false_eq_true, if_false]
  split <;> simp [TimeoutPc]

/-- **C10 (black hole).** Whatever arrives, in whatever order, for every `T` (also negative
or huge), an applied timeout toxic never offers a chunk to its output: no byte sent in
that direction is delivered while it is in effect. -/
theorem C10_blackhole (v : Variant) (T : Int) (st : StubSt) (pc : Pc) (ev : Event)
    (st' : StubSt) (pc' : Pc) (hpc : TimeoutPc pc)
    (h : step v (.timeout T) true st pc ev = some (st', pc')) :
    TimeoutPc pc' ∧ pc'.offer = none := by
  cases pc <;> simp only [TimeoutPc] at hpc
  case ret => cases ev <;> simp [step] at h
  all_goals
    cases ev with
    | input c now draws =>
      cases c <;> simp [step, onChunk] at h <;>
        (try (obtain ⟨_, rfl⟩ := h; simp [TimeoutPc, Pc.offer]))
      all_goals
        split at h <;> (obtain ⟨_, rfl⟩ := h; simp [TimeoutPc, Pc.offer])
    | interrupt now => simp [step] at h; obtain ⟨_, rfl⟩ := h; simp [TimeoutPc, Pc.offer]
    | timer now => simp [step] at h; try (obtain ⟨_, rfl⟩ := h; simp [TimeoutPc, Pc.offer])
    | taken now => simp [step] at h

/-- Feed a list of data chunks (arrival times and contents arbitrary) to the stage. -/
def feedChunks (v : Variant) (cfg : Cfg) (st : StubSt) (pc : Pc) :
    List (Chunk × Int) → Option (StubSt × Pc)
  | [] => some (st, pc)
  | (c, now) :: rest =>
    match step v cfg true st pc (.input (some c) now []) with
    | some (st', pc') => feedChunks v cfg st' pc' rest
    | none => none

/-- **C10 (closes exactly at T, however much traffic arrives).** With `T > 0` the timer is
requested once, for `T` ms, when the toxic takes effect (`now0`); every amount of data
arriving meanwhile leaves the stage waiting for that same deadline with the stub open … -/
theorem C10_deadline_fixed (T now0 : Int) (hT : 0 < T) (hok : MsOK T) (st : StubSt)
    (chunks : List (Chunk × Int)) :
    start (.timeout T) true now0 = .idleT (now0 + T * ms) ∧
    feedChunks .fixed (.timeout T) st (.idleT (now0 + T * ms)) chunks
      = some (st, .idleT (now0 + T * ms)) := by
  have hw := wrap_ms T hok
  have hpos : 0 < T * ms := Int.mul_pos hT ms_pos
  constructor
  · simp [start, hw, hpos]
  · induction chunks with
    | nil => rfl
    | cons x xs ih =>
      obtain ⟨c, now⟩ := x
      simp [feedChunks, step, onChunk, hw, hpos, ih]

/-- … and the stub is closed (and `Pipe` returns) at the firing of that timer.  The only
other events that close it are the sender's own end-of-stream; an interrupt (update or
removal of the toxic) returns without closing. -/
theorem C10_close_exact (v : Variant) (T d : Int) (st : StubSt) (hopen : st.closed = false)
    (ev : Event) (st' : StubSt) (pc' : Pc)
    (h : step v (.timeout T) true st (.idleT d) ev = some (st', pc')) :
    (st'.closed = true ↔ (∃ now, ev = .timer now) ∨ (∃ now ds, ev = .input none now ds)) := by
  cases ev with
  | input c now draws =>
    cases c with
    | none => simp [step] at h; obtain ⟨rfl, _⟩ := h; simp
    | some c =>
      simp [step, onChunk] at h
      split at h <;> (obtain ⟨rfl, _⟩ := h; simp [hopen])
  | interrupt now => simp [step] at h; obtain ⟨rfl, _⟩ := h; simp [hopen]
  | timer now => simp [step] at h; obtain ⟨rfl, _⟩ := h; simp
  | taken now => simp [step] at h

/-- **C10 (T = 0 holds the connection open indefinitely).** No timer is ever requested and
data never closes the stub: only the sender's end-of-stream does. -/
theorem C10_zero (v : Variant) (st : StubSt) (hopen : st.closed = false) :
    start (.timeout 0) true 0 = .idle 0 ∧
    ∀ carry ev st' pc', step v (.timeout 0) true st (.idle carry) ev = some (st', pc') →
      pc'.timer = none ∧ (st'.closed = true ↔ ∃ now ds, ev = .input none now ds) := by
  constructor
  · simp [start, wrap64]
  · intro carry ev st' pc' h
    cases ev with
    | input c now draws =>
      cases c with
      | none => simp [step] at h; obtain ⟨rfl, rfl⟩ := h; simp [Pc.timer]
      | some c =>
        simp [step, onChunk, wrap64] at h
        obtain ⟨rfl, rfl⟩ := h; simp [Pc.timer, hopen]
    | interrupt now => simp [step] at h; obtain ⟨rfl, rfl⟩ := h; simp [Pc.timer, hopen]
    | timer now => simp [step] at h
    | taken now => simp [step] at h

/-- **Regression witness (defect repaired by the `fix:` commit for C10).** On the original
code the timer was re-armed by every chunk: with `T = 300` ms, a chunk arriving at 100 ms
moves the deadline from 300 ms to 400 ms. -/
theorem C10_legacy_fails :
    feedChunks .legacy (.timeout 300) {} (start (.timeout 300) true 0) [(⟨[1], 100 * ms⟩, 100 * ms)]
      = some ({}, .idleT (400 * ms)) := by decide

/-- Non-vacuity of `C10_deadline_fixed`: T = 300 ms, traffic every 100 ms. -/
example : MsOK 300 ∧
    feedChunks .fixed (.timeout 300) {} (start (.timeout 300) true 0)
      [(⟨[1], 100 * ms⟩, 100 * ms), (⟨[2], 200 * ms⟩, 200 * ms)] = some ({}, .idleT (300 * ms)) := by
  refine ⟨by unfold MsOK; decide, by decide⟩

end Toxi.Toxic
