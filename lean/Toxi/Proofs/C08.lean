import Toxi.Proofs.Lemmas.Toxic

/-!
# C08 — Latency toxic delays every piece by latency ± jitter, without throttling

Model: the latency part of `Toxi.Toxic.step` (`toxics/latency.go`), tied by engine E2 under
a virtual clock.  Times are nanoseconds; `a` below is the chunk's timestamp on arrival at
the stage ("when the proxy received it").  Timers are never early (`deadline ≤ t`); they
are *punctual* when they fire exactly at their deadline (the "receiver is ready / nothing
else delays the goroutine" reading of the property).
-/
namespace Toxi.Toxic

/-- Attribute guard: non-negative latency and jitter, no int64 overflow. -/
structure LatOK (L J : Int) : Prop where
  l0 : 0 ≤ L
  j0 : 0 ≤ J
  jw : J * 2 < 9223372036854775808
  lw : (L + J) * ms < 9223372036854775808

/-- `LatencyToxic.delay()` in milliseconds, as a function of the next random draw. -/
def delayMs (L J : Int) (draws : List Int) : Int :=
  if J > 0 then (match draws with | d :: _ => L + d % (J * 2) - J | [] => L - J) else L

theorem delayMs_bounds (L J : Int) (h : LatOK L J) (draws : List Int) :
    L - J ≤ delayMs L J draws ∧ delayMs L J draws ≤ L + J := by
  obtain ⟨l0, j0, jw, lw⟩ := h
  unfold delayMs
  by_cases hj : J > 0
  · simp only [hj, if_true]
    cases draws with
    | nil => simp only; omega
    | cons d ds =>
      have h1 := Int.emod_nonneg d (b := J * 2) (by omega)
      have h2 := Int.emod_lt_of_pos d (b := J * 2) (by omega)
      simp only; omega
  · simp only [hj, if_false]; omega

theorem delay_ns_bounds (L J : Int) (h : LatOK L J) (draws : List Int) :
    (L - J) * ms ≤ delayMs L J draws * ms ∧ delayMs L J draws * ms ≤ (L + J) * ms := by
  have hb := delayMs_bounds L J h draws
  exact ⟨Int.mul_le_mul_of_nonneg_right hb.1 (by decide), Int.mul_le_mul_of_nonneg_right hb.2 (by decide)⟩

/-- What the stage does with a chunk received at clock `now`. -/
theorem latency_input (v : Variant) (L J : Int) (h : LatOK L J) (st : StubSt) (carry : Int)
    (c : Chunk) (now : Int) (draws : List Int) :
    step v (.latency L J) true st (.idle carry) (.input (some c) now draws) =
      some (st, .nap (now + max (delayMs L J draws * ms - (now - c.ts)) 0)
        (.latency c (delayMs L J draws * ms - (now - c.ts)) (delayMs L J draws * ms))) := by
  have hb := delay_ns_bounds L J h draws
  obtain ⟨l0, j0, jw, lw⟩ := h
  have hjm : 0 ≤ J * ms := Int.mul_nonneg j0 (by decide)
  have hlm : 0 ≤ L * ms := Int.mul_nonneg l0 (by decide)
  have hsub : (L - J) * ms = L * ms - J * ms := Int.sub_mul ..
  have hadd : (L + J) * ms = L * ms + J * ms := Int.add_mul ..
  have hwd : wrap64 (delayMs L J draws * ms) = delayMs L J draws * ms :=
    wrap64_id _ (by omega) (by omega)
  simp only [step, onChunk, if_true]
  by_cases hj : J > 0
  · have hw2 : wrap64 (J * 2) = J * 2 := wrap64_id _ (by omega) jw
    have hn : ¬ (J * 2 ≤ 0) := by omega
    have hJ : J ≤ Int.tdiv maxInt64 2 := by
      have : Int.tdiv maxInt64 2 = 4611686018427387903 := by decide
      omega
    cases draws with
    | nil =>
      have : delayMs L J [] = L - J := by simp [delayMs, hj]
      rw [this] at hwd ⊢
      cases v <;> simp [hj, hJ, hw2, hn, hwd]
    | cons d ds =>
      have : delayMs L J (d :: ds) = L + d % (J * 2) - J := by simp [delayMs, hj]
      rw [this] at hwd ⊢
      cases v <;> simp [hj, hJ, hw2, hn, hwd]
  · have : delayMs L J draws = L := by simp [delayMs, hj]
    simp only [hj, if_false]
    rw [this] at hwd ⊢
    simp [hwd]

/-- **C08 (never early, content and order preserved).** A chunk stamped `a` that the stage
received at `now ≥ a` is offered — unchanged — at the firing of its timer, which is no
earlier than `a + (latency − jitter)` ms, for every draw, every arrival pattern and every
clock in which timers are not early. -/
theorem C08_lower (L J : Int) (h : LatOK L J) (st : StubSt) (carry : Int) (c : Chunk)
    (now : Int) (draws : List Int) (t : Int) :
    ∃ dl w, step .fixed (.latency L J) true st (.idle carry) (.input (some c) now draws)
        = some (st, .nap dl w) ∧
      (dl ≤ t → c.ts + (L - J) * ms ≤ t) ∧
      ∃ c', step .fixed (.latency L J) true st (.nap dl w) (.timer t) = some (st, .out c' (.toIdle 0)) ∧
        c'.data = c.data := by
  have hb := delay_ns_bounds L J h draws
  refine ⟨_, _, latency_input .fixed L J h st carry c now draws, ?_, ?_⟩
  · intro hdl; omega
  · exact ⟨⟨c.data, c.ts + delayMs L J draws * ms⟩, by simp [step], rfl⟩

/-- **C08 (not late).** With a punctual timer the chunk is offered at
`max now (a + delay)`: no later than `a + (latency + jitter)` ms provided the stage could
receive it by then (`now ≤ a + (L+J) ms`: the stage was not still busy with, or blocked
behind, an earlier chunk beyond that time — see `C08_burst`). -/
theorem C08_upper (L J : Int) (h : LatOK L J) (st : StubSt) (carry : Int) (c : Chunk)
    (now : Int) (draws : List Int) (hnow : now ≤ c.ts + (L + J) * ms) :
    ∃ dl w, step .fixed (.latency L J) true st (.idle carry) (.input (some c) now draws)
        = some (st, .nap dl w) ∧ dl = max now (c.ts + delayMs L J draws * ms) ∧
      dl ≤ c.ts + (L + J) * ms := by
  have hb := delay_ns_bounds L J h draws
  refine ⟨_, _, latency_input .fixed L J h st carry c now draws, ?_, ?_⟩ <;> omega

/-- **C08 (the outgoing stamp carries the whole delay).** The forwarded chunk is stamped
`a + delay`: between `a + (L−J)` and `a + (L+J)` ms, and never later than the moment it is
offered.  This is what makes delays add up in series. -/
theorem C08_stamp (L J : Int) (h : LatOK L J) (st : StubSt) (c : Chunk) (now dl sleep delay t : Int)
    (hstep : step .fixed (.latency L J) true st (.idle 0) (.input (some c) now [])
      = some (st, .nap dl (.latency c sleep delay))) (hfair : dl ≤ t) :
    step .fixed (.latency L J) true st (.nap dl (.latency c sleep delay)) (.timer t)
      = some (st, .out ⟨c.data, c.ts + delay⟩ (.toIdle 0)) ∧
    c.ts + (L - J) * ms ≤ c.ts + delay ∧ c.ts + delay ≤ c.ts + (L + J) * ms ∧ c.ts + delay ≤ t := by
  have hb := delay_ns_bounds L J h []
  rw [latency_input .fixed L J h st 0 c now []] at hstep
  simp only [Option.some.injEq, Prod.mk.injEq, Pc.nap.injEq, Wake.latency.injEq, true_and] at hstep
  obtain ⟨hdl, _, hdelay⟩ := hstep
  subst hdelay
  refine ⟨by simp [step], by omega, by omega, by omega⟩

/-- **C08 (two latency toxics in series add their delays).** A chunk stamped `a` that
passes a latency stage `(L₁, J₁)` and then a latency stage `(L₂, J₂)` (received there at any
`now₂`, with any draws, timers not early) is offered by the second stage no earlier than
`a + (L₁ − J₁) + (L₂ − J₂)` ms. -/
theorem C08_series (L1 J1 L2 J2 : Int) (h1 : LatOK L1 J1) (h2 : LatOK L2 J2)
    (st : StubSt) (c : Chunk) (now1 : Int) (d1 d2 : List Int) (t1 now2 t2 : Int) :
    ∃ dl1 w1 c1 dl2 w2,
      step .fixed (.latency L1 J1) true st (.idle 0) (.input (some c) now1 d1) = some (st, .nap dl1 w1) ∧
      step .fixed (.latency L1 J1) true st (.nap dl1 w1) (.timer t1) = some (st, .out c1 (.toIdle 0)) ∧
      step .fixed (.latency L2 J2) true st (.idle 0) (.input (some c1) now2 d2) = some (st, .nap dl2 w2) ∧
      (dl2 ≤ t2 → c.ts + (L1 - J1) * ms + (L2 - J2) * ms ≤ t2) := by
  have hb1 := delay_ns_bounds L1 J1 h1 d1
  have hb2 := delay_ns_bounds L2 J2 h2 d2
  refine ⟨_, _, ⟨c.data, c.ts + delayMs L1 J1 d1 * ms⟩, _, _,
    latency_input .fixed L1 J1 h1 st 0 c now1 d1, by simp [step],
    latency_input .fixed L2 J2 h2 st 0 _ now2 d2, ?_⟩
  intro hdl
  simp only at hdl
  omega

/-- A burst through the stage with punctual timers and a ready receiver: chunk `i`
(stamp `aᵢ`, reaching the stage's input at `arrᵢ`) is received at
`max arrᵢ (emission of chunk i−1)` and emitted at its deadline.  Returns the emission
times. -/
def burst (L J : Int) : Int → List (Chunk × Int × List Int) → List Int
  | _, [] => []
  | prev, (c, arr, draws) :: rest =>
    match step .fixed (.latency L J) true {} (.idle 0) (.input (some c) (max arr prev) draws) with
    | some (_, .nap dl _) => dl :: burst L J dl rest
    | _ => []

/-- **C08 (per piece, not cumulative: a burst is delayed once).** For every number of
chunks with non-decreasing stamps, each reaching the stage's input no later than its own
bound: every chunk is emitted by `aᵢ + (L+J)` ms — waiting behind the predecessors never
adds delay, so throughput is not reduced. -/
theorem C08_burst (L J : Int) (h : LatOK L J) :
    ∀ (xs : List (Chunk × Int × List Int)) (prev bound : Int),
      prev ≤ bound →
      (∀ x ∈ xs, bound ≤ x.1.ts + (L + J) * ms ∧ x.2.1 ≤ x.1.ts + (L + J) * ms) →
      xs.Pairwise (fun x y => x.1.ts ≤ y.1.ts) →
      (burst L J prev xs).length = xs.length ∧
      ∀ i (hi : i < xs.length) (hi' : i < (burst L J prev xs).length),
        (burst L J prev xs)[i] ≤ (xs[i]).1.ts + (L + J) * ms := by
  intro xs
  induction xs with
  | nil => intros; simp [burst]
  | cons x xs ih =>
    intro prev bound hpb hall hsorted
    obtain ⟨c, arr, draws⟩ := x
    have hx := hall (c, arr, draws) (by simp)
    simp only at hx
    have hb := delay_ns_bounds L J h draws
    simp only [burst, latency_input .fixed L J h {} 0 c (max arr prev) draws]
    have hdl : (max arr prev + max (delayMs L J draws * ms - (max arr prev - c.ts)) 0) ≤ c.ts + (L + J) * ms := by
      omega
    have hrest := ih (max arr prev + max (delayMs L J draws * ms - (max arr prev - c.ts)) 0)
      (c.ts + (L + J) * ms) hdl
      (by
        intro y hy
        have hy2 := hall y (by simp [hy])
        have hs := (List.pairwise_cons.mp hsorted).1 y hy
        simp only at hs
        exact ⟨by omega, hy2.2⟩)
      (List.pairwise_cons.mp hsorted).2
    refine ⟨by simp [hrest.1], ?_⟩
    intro i hi hi'
    cases i with
    | zero => simpa using hdl
    | succ j =>
      simp only [List.getElem_cons_succ]
      exact hrest.2 j (by simpa using hi) (by simpa using hi')

/-- **Regression witness (defect repaired by the `fix:` commit for C08).** Original code:
`Timestamp.Add(sleep)`.  Latency 100 ms twice; a chunk stamped 50 ms is received by the
first stage at 100 ms (it waited behind its predecessor) and leaves at 150 ms stamped
*100 ms*; the second stage then emits it at 200 ms instead of 250 ms. -/
theorem C08_legacy_series_fails :
    step .legacy (.latency 100 0) true {} (.nap (150 * ms) (.latency ⟨[1], 50 * ms⟩ (50 * ms) (100 * ms)))
        (.timer (150 * ms)) = some ({}, .out ⟨[1], 100 * ms⟩ (.toIdle 0)) ∧
    step .legacy (.latency 100 0) true {} (.idle 0) (.input (some ⟨[1], 100 * ms⟩) (150 * ms) [])
      = some ({}, .nap (200 * ms) (.latency ⟨[1], 100 * ms⟩ (50 * ms) (100 * ms))) := by
  decide

/-- Non-vacuity: latency 100, jitter 20, draw 7 (delay 87 ms); received at its stamp. -/
example : LatOK 100 20 ∧
    step .fixed (.latency 100 20) true {} (.idle 0) (.input (some ⟨[9], 5 * ms⟩) (5 * ms) [7])
      = some ({}, .nap (92 * ms) (.latency ⟨[9], 5 * ms⟩ (87 * ms) (87 * ms))) := by
  refine ⟨⟨by decide, by decide, by decide, by decide⟩, by decide⟩

end Toxi.Toxic
