import Toxi.Proofs.Lemmas.Conserve
import Toxi.Proofs.C18
import Toxi.Model.Link

/-!
# C01 — Relayed byte streams are exact in both directions

What is proved here (the pipeline-level invariant is being extended, see DESIGN.md §5):

* `C01_stage_conserves` — every data-preserving toxic stage, for every valid configuration,
  every event order and every random draw, neither loses, duplicates, reorders nor alters
  bytes: what it holds changes only by appending a received chunk and by removing exactly
  the chunk whose send completed (`Lemmas/Conserve.lean`, which uses the slicer partition
  theorem of C12 and the bandwidth instalment lemmas of C09).
* `C01_inactive_conserves` — a toxic whose toxicity draw failed runs as a noop and conserves.
* `C01_new_link` — a link is started with one running stub per chain entry, empty channels.
* the sink end (`ChanReader` → `io.Copy`) is C18's `C18_fifo`.

Tie: engine E3 runs real links (1–3 per collection, both directions) against the
executable link model `Model/Link.lean`, whose stages are exactly the coroutines these
theorems are about, and compares every sink write (bytes, boundaries, virtual time).
-/
namespace Toxi.Link
open Toxi.Toxic

/-- **C01 (a data-preserving stage conserves the stream).** -/
theorem C01_stage_conserves (cfg : Cfg) (hs : Safe cfg) (st : StubSt) (pc : Pc) (ev : Event)
    (st' : StubSt) (pc' : Pc) (hwf : PcWF cfg pc)
    (h : step .fixed cfg true st pc ev = some (st', pc')) :
    PcWF cfg pc' ∧ Conserves pc pc' ev :=
  step_conserves cfg hs st pc ev st' pc' hwf h

/-- **C01 (a toxic that does not apply is transparent).** -/
theorem C01_inactive_conserves (cfg : Cfg) (st : StubSt) (pc : Pc) (ev : Event)
    (st' : StubSt) (pc' : Pc) (hwf : PcWF .noop pc)
    (h : step .fixed cfg false st pc ev = some (st', pc')) :
    PcWF .noop pc' ∧ Conserves pc pc' ev := by
  have : step .fixed cfg false st pc ev = step .fixed .noop true st pc ev := by simp [step]
  rw [this] at h
  exact step_conserves .noop trivial st pc ev st' pc' hwf h

/-- **C01 (a new link starts empty and aligned).** `NewToxicLink`/`Start`: one stub per chain
entry, each running its chain entry's toxic, nothing in flight. -/
theorem C01_new_link (chain : List TCfg) (now : Int) :
    (Link.new chain now).stages.map (·.t) = chain ∧
    (∀ s ∈ (Link.new chain now).stages, s.inq = [] ∧ s.pc.held = []) ∧
    (Link.new chain now).sent = [] ∧ (Link.new chain now).delivered = [] := by
  refine ⟨?_, ?_, rfl, rfl⟩
  · simp only [Link.new, Stage.fresh_start]
    simp [Stage.fresh, List.map_map, Function.comp_def]
  · intro s hs
    simp only [Link.new, List.mem_map] at hs
    obtain ⟨t, _, rfl⟩ := hs
    rw [Stage.fresh_start]
    refine ⟨rfl, ?_⟩
    simp only [Toxi.Toxic.start]
    split
    · rfl
    · split <;> (try split) <;> rfl

end Toxi.Link
