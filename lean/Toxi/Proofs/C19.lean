import Toxi.Model.Client
/-
C19 — the Go client and the CLI do what the API would do, and nothing else.

`Toxi.Client.run` / `runCli` say which HTTP requests each client / CLI operation sends and
run them through the API model `Toxi.Api.step`; engine E5 ties them to the real client
library, the real `toxiproxy-cli` binary and a real server (requests on the wire, result,
server state afterwards).  The theorems below are about every server state, every name and
every attribute object.
-/
namespace Toxi.Client
open Toxi.Api
open Toxi.Toxic (Frac)

/-! ### Reads do not change the server -/

theorem get_proxy_state (v : UpdVariant) (e : Env) (s : State) (n : String) :
    (step v e s (req .get ["proxies", n] .empty)).1 = s := by
  simp only [step, req, routeMethods, dispatch, hShow, withProxy]
  cases s.find n <;> simp [List.contains, List.elem]

theorem get_proxy_status (v : UpdVariant) (e : Env) (s : State) (n : String) :
    isError (step v e s (req .get ["proxies", n] .empty)).2 = (s.find n).isNone := by
  simp only [step, req, routeMethods]
  simp only [dispatch, hShow, withProxy]
  cases h : s.find n <;> simp [isError, errResp, Err.status, ok, List.contains, List.elem]

/-! ### A server-side error is surfaced as an error, never as success -/

/-- After `send`, the call counts as failed exactly when the answer is outside 200..299. -/
theorem send_failed (v : UpdVariant) (e : Env) (o : Outcome) (r : Request) :
    (send v e o r).failed = isError (step v e o.state r).2 ∧
    (send v e o r).last = some (step v e o.state r).2 ∧
    (send v e o r).state = (step v e o.state r).1 := by
  simp [send]

/-- **C19 (errors surface).** Whatever the operation, the server state and the arguments: if
the client call reports success then a request was sent and the last answer the server gave
was a 2xx; in particular an operation whose (last) request the server rejected is never
reported as success. -/
theorem C19_errors_surface (v : UpdVariant) (e : Env) (s : State) (op : Op)
    (h : (run v e s op).failed = false) :
    ∃ r, (run v e s op).last = some r ∧ 200 ≤ r.status ∧ r.status < 300 := by
  have key : ∀ (o : Outcome) (r : Request), (send v e o r).failed = false →
      ∃ x, (send v e o r).last = some x ∧ 200 ≤ x.status ∧ x.status < 300 := by
    intro o r hf
    refine ⟨(step v e o.state r).2, by simp [send], ?_⟩
    simp only [send, isError] at hf
    simpa using hf
  cases op <;> simp only [run] at h ⊢
  all_goals first
    | exact key _ _ h
    | (split at h <;> rename_i hc <;> first
        | (rw [if_pos hc]; exact key _ _ h)
        | (rw [if_neg hc]; exact key _ _ h))

/-- … and for the two-request operations (`Client.AddToxic/UpdateToxic/RemoveToxic` look the
proxy up first): when the lookup fails nothing else is sent and the call fails. -/
theorem C19_lookup_failure_stops (v : UpdVariant) (e : Env) (s : State) (p n : String)
    (tox : Option Frac) (attrs : Attrs) (h : s.find p = none) :
    (run v e s (.clientUpdateToxic p n tox attrs)).failed = true ∧
    (run v e s (.clientUpdateToxic p n tox attrs)).requests = [req .get ["proxies", p] .empty] ∧
    (run v e s (.clientUpdateToxic p n tox attrs)).state = s := by
  have hf : (send v e ⟨s, [], false, none⟩ (req .get ["proxies", p] .empty)).failed = true := by
    simp [send, get_proxy_status, h]
  simp only [run, hf, if_true]
  refine ⟨trivial, by simp [send], ?_⟩
  simp [send, get_proxy_state]

/-! ### Settings the caller does not specify keep their server-side value -/

/-- `attributes` does not select the `toxicity` field (exactly or case-insensitively). -/
theorem attributes_not_toxicity : keyMatches "toxicity" "attributes" = false := by decide

/-- The body of an update without toxicity carries the attributes and nothing else. -/
theorem updateBody_none (attrs : Attrs) :
    updateToxicBody none attrs = .val (.obj [("attributes", .obj attrs)]) := by
  simp [updateToxicBody]

/-- **C19 (unspecified toxicity is kept), API level.** `UpdateToxic` with toxicity −1 on any
proxy, any existing toxic `t`, any attributes: if the server accepts the update, the toxic's
toxicity, name, type and stream are those of `t`. -/
theorem C19_update_keeps_toxicity (v : UpdVariant) (p : ProxyRec) (name : String) (t : ToxicRec)
    (attrs : Attrs) (hf : findToxic p name = some t) (t' : ToxicRec)
    (h : (updateToxic v p name (updateToxicBody none attrs)).2 = .ok t') :
    t'.tox = t.tox ∧ t'.name = t.name ∧ t'.type = t.type ∧ t'.stream = t.stream ∧ t'.dir = t.dir := by
  rw [updateBody_none] at h
  simp only [updateToxic, hf] at h
  have hl : lookupAll [("attributes", J.obj attrs)] "toxicity" = [] := by
    simp [lookupAll, attributes_not_toxicity]
  simp only [hl, applyStores, List.foldl_nil, Bool.or_false] at h
  split at h
  · cases v <;> simp at h
  · simp only [Except.ok.injEq] at h
    subst h
    simp

/-- … and a toxicity the caller does give is what the server stores (as float32 of the JSON
number, like any request). -/
theorem C19_update_sets_toxicity (v : UpdVariant) (p : ProxyRec) (name : String) (t : ToxicRec)
    (x : Frac) (attrs : Attrs) (hf : findToxic p name = some t) (t' : ToxicRec)
    (h : (updateToxic v p name (updateToxicBody (some x) attrs)).2 = .ok t') :
    t'.tox = x := by
  simp only [updateToxicBody, List.cons_append, List.nil_append] at h
  simp only [updateToxic, hf] at h
  have hl : lookupAll [("attributes", J.obj attrs), ("toxicity", jfrac x)] "toxicity" = [jfrac x] := by
    have : keyMatches "toxicity" "toxicity" = true := by simp [keyMatches]
    simp [lookupAll, attributes_not_toxicity, this]
  have hs : applyStores storeF32 t.tox [jfrac x] = (x, false) := by
    unfold jfrac
    split <;> simp [applyStores, storeF32]
  simp only [hl, hs, Bool.or_false] at h
  split at h
  · cases v <;> simp at h
  · simp only [Except.ok.injEq] at h
    subst h
    simp

/-- An add without toxicity sends 1, an add without stream sends no stream: both are the
server's own defaults (`C05_toxic_defaults`). -/
theorem C19_add_defaults (name type : String) (attrs : Attrs) :
    addToxicBody name type "" none attrs =
      .val (.obj [("name", jstr name), ("type", jstr type), ("toxicity", .num (some 1) (some ⟨1, 1⟩)),
                  ("attributes", .obj attrs)]) := by
  simp [addToxicBody, jfrac]

/-! ### toxiproxy-cli -/

/-- **C19 (CLI `toxic update` without `--toxicity`).** The repaired CLI performs exactly the
client library's `UpdateToxic` with toxicity −1: the PATCH body has no `toxicity` key, so by
`C19_update_keeps_toxicity` the server-side value is kept. -/
theorem C19_cli_update_fixed (v : UpdVariant) (e : Env) (s : State) (p n : String) (attrs : Attrs) :
    runCli .fixed v e s (.toxicUpdate p n none attrs) =
      (let o := run v e s (.clientUpdateToxic p n none attrs); { o with requests := [] ++ o.requests }) := by
  simp [runCli, chain]

/-- The body the repaired CLI sends, spelled out. -/
theorem C19_cli_update_body (v : UpdVariant) (e : Env) (s : State) (p n : String) (attrs : Attrs)
    (pr : ProxyRec) (hp : s.find p = some pr) :
    (runCli .fixed v e s (.toxicUpdate p n none attrs)).requests =
      [req .get ["proxies", p] .empty,
       req .patch ["proxies", p, "toxics", n] (.val (.obj [("attributes", .obj attrs)]))] := by
  have hf : (send v e ⟨s, [], false, none⟩ (req .get ["proxies", p] .empty)).failed = false := by
    simp [send, get_proxy_status, hp]
  simp only [runCli, chain, Bool.false_eq_true, if_false, run, hf, updateBody_none]
  simp [send]

/-- **C19 (regression witness: the original CLI).** With the original default (1.0) a
`toxic update` that only names an attribute resets the toxicity: a latency toxic with
toxicity 3/10 ends with toxicity 1, although the caller never specified one. -/
def witnessState : State :=
  [{ name := "p1", listen := "127.0.0.1:1", upstream := "u:1", enabled := true,
     toxics := [⟨"t1", "latency", "downstream", .down, ⟨3, 10⟩, [("latency", 5), ("jitter", 0)]⟩] }]

def toxOf (s : State) (p n : String) : Option Frac :=
  (s.find p).bind fun pr => (findToxic pr n).map (·.tox)

theorem C19_cli_legacy_resets :
    toxOf (runCli .legacy .fixed ⟨[], [], []⟩ witnessState
            (.toxicUpdate "p1" "t1" none [("jitter", .num (some 7) (some ⟨7, 1⟩))])).state "p1" "t1"
      = some ⟨1, 1⟩ ∧
    toxOf (runCli .fixed .fixed ⟨[], [], []⟩ witnessState
            (.toxicUpdate "p1" "t1" none [("jitter", .num (some 7) (some ⟨7, 1⟩))])).state "p1" "t1"
      = some ⟨3, 10⟩ := by
  decide

/-- **C19 (toggle changes `enabled` only).** `toxiproxy-cli toggle` sends the proxy's own
name, listen address and upstream back with the flag inverted. -/
theorem C19_toggle_request (cv : CliVariant) (v : UpdVariant) (e : Env) (s : State) (p : String)
    (pr : ProxyRec) (hp : s.find p = some pr) :
    (runCli cv v e s (.toggle p)).requests =
      [req .get ["proxies", p] .empty,
       req .post ["proxies", pr.name]
         (.val (.obj [("name", jstr pr.name), ("listen", jstr pr.listen), ("upstream", jstr pr.upstream),
                      ("enabled", .bool (!pr.enabled))]))] := by
  have hf : (run v e s (.getProxy p)).failed = false := by
    simp [run, send, get_proxy_status, hp]
  have hs : (run v e s (.getProxy p)).state = s := by
    simp [run, send, get_proxy_state]
  simp only [runCli, hf, hp, chain, Bool.false_eq_true, if_false, hs]
  simp [run, send, proxyBody]

/-- `toxiproxy-cli toxic add` without `--type` fails before anything is sent. -/
theorem C19_cli_add_needs_type (cv : CliVariant) (v : UpdVariant) (e : Env) (s : State) (p n : String)
    (up : Bool) (tox : Option Frac) (attrs : Attrs) :
    (runCli cv v e s (.toxicAdd p n "" up tox attrs)).failed = true ∧
    (runCli cv v e s (.toxicAdd p n "" up tox attrs)).requests = [] ∧
    (runCli cv v e s (.toxicAdd p n "" up tox attrs)).state = s := by
  simp [runCli]

/-- Non-vacuity: the witness state satisfies the hypotheses of the theorems above. -/
example : witnessState.find "p1" ≠ none ∧
    (witnessState.find "p1").bind (fun pr => findToxic pr "t1") ≠ none := by decide

end Toxi.Client

/-! ### Proxy handles (`Enable`, `Disable`, `Save` on a `*client.Proxy` the caller kept) -/
namespace Toxi.Client
open Toxi.Api

/-- **C19 (a handle's `Enable`/`Disable` is always sent).** Whatever the snapshot in the
handle says — in particular when it already shows the requested state — `Enable()` and
`Disable()` send the update request for the handle's proxy with the flag set; nothing is
decided from the snapshot. -/
theorem C19_handle_always_sends (v : UpdVariant) (e : Env) (s : State) (x : CProxy) (hc : x.created = true) :
    (runHandle v e s (some x) .enable).1.requests =
      [req .post ["proxies", x.name] (proxyBody { x with enabled := true })] ∧
    (runHandle v e s (some x) .disable).1.requests =
      [req .post ["proxies", x.name] (proxyBody { x with enabled := false })] := by
  simp [runHandle, run, hc, send]

theorem startProxy_some (e : Env) (s : State) (p p2 : ProxyRec) (h : startProxy e s p = some p2) :
    p2.enabled = true ∧ p2.name = p.name := by
  unfold startProxy at h
  cases hl : e.lookup p.listen with
  | none => simp [hl] at h
  | some a =>
    simp only [hl] at h
    cases hb : a.bound with
    | none => simp [hb] at h
    | some b =>
      simp only [hb] at h
      split at h
      · simp at h
      · simp only [Option.some.injEq] at h
        subst h
        exact ⟨rfl, rfl⟩

theorem updateProxy_ok_enabled (e : Env) (s : State) (p : ProxyRec) (inp : ProxyInput) (p' : ProxyRec)
    (h : updateProxy e s p inp = (p', true)) : p'.enabled = inp.enabled ∧ p'.name = p.name := by
  unfold updateProxy at h
  cases hr : e.resolve inp.listen with
  | none => simp [hr] at h
  | some r =>
    simp only [hr] at h
    generalize hp1 : (if (!(e.sameListen p.listen inp.listen) || p.upstream != inp.upstream) = true then
        ({ p with enabled := false, listen := inp.listen, upstream := inp.upstream } : ProxyRec) else p) = p1 at h
    have hn : p1.name = p.name := by rw [← hp1]; split <;> rfl
    by_cases hne : (inp.enabled != p1.enabled) = true
    · rw [if_pos hne] at h
      by_cases hen : inp.enabled = true
      · rw [if_pos hen] at h
        cases hs : startProxy e (s.replace p1) p1 with
        | none => simp [hs] at h
        | some p2 =>
          simp only [hs, Prod.mk.injEq, and_true] at h
          subst h
          have := startProxy_some e _ p1 p2 hs
          exact ⟨by rw [this.1, hen], by rw [this.2, hn]⟩
      · rw [if_neg hen] at h
        simp only [Prod.mk.injEq, and_true] at h
        subst h
        exact ⟨by simpa using hen, hn⟩
    · rw [if_neg hne] at h
      simp only [Prod.mk.injEq, and_true] at h
      subst h
      refine ⟨?_, hn⟩
      have : inp.enabled = p1.enabled := by simpa using hne
      exact this.symm

end Toxi.Client

namespace Toxi.Client
open Toxi.Api

theorem find_replace_same (s : State) (n : String) (p p' : ProxyRec) (h : s.find n = some p)
    (hn : p'.name = p.name) : (s.replace p').find n = some p' := by
  unfold State.find State.replace at *
  induction s with
  | nil => simp at h
  | cons q qs ih =>
    simp only [List.map_cons, List.find?_cons] at h ⊢
    by_cases hq : (q.name == n) = true
    · simp only [hq] at h
      cases h
      have : (p.name == p'.name) = true := by simp [hn]
      simp only [this, if_true]
      have : (p'.name == n) = true := by rw [hn]; exact hq
      simp [this]
    · have hq' : (q.name == n) = false := by simpa using hq
      simp only [hq'] at h
      have hpn : (p.name == n) = true := by
        have := List.find?_some h
        simpa using this
      by_cases hqp : (q.name == p'.name) = true
      · -- q has the same name as p (= n): contradiction with hq
        have : q.name = n := by
          have h1 : q.name = p'.name := by simpa using hqp
          have h2 : p.name = n := by simpa using hpn
          rw [h1, hn, h2]
        simp [this] at hq
      · have hqp' : (q.name == p'.name) = false := by simpa using hqp
        simp only [hqp', Bool.false_eq_true, if_false, hq']
        exact ih h

/-- The four keys of a proxy body select exactly their own field. -/
theorem proxyBody_decode (init : ProxyInput) (x : CProxy) :
    decodeProxy init (proxyBody x) = some ⟨x.name, x.listen, x.upstream, x.enabled⟩ := by
  have k : keyMatches "name" "name" = true ∧
    keyMatches "name" "listen" = false ∧
    keyMatches "name" "upstream" = false ∧
    keyMatches "name" "enabled" = false ∧
    keyMatches "listen" "name" = false ∧
    keyMatches "listen" "listen" = true ∧
    keyMatches "listen" "upstream" = false ∧
    keyMatches "listen" "enabled" = false ∧
    keyMatches "upstream" "name" = false ∧
    keyMatches "upstream" "listen" = false ∧
    keyMatches "upstream" "upstream" = true ∧
    keyMatches "upstream" "enabled" = false ∧
    keyMatches "enabled" "name" = false ∧
    keyMatches "enabled" "listen" = false ∧
    keyMatches "enabled" "upstream" = false ∧
    keyMatches "enabled" "enabled" = true := by decide
  obtain ⟨k1, k2, k3, k4, k5, k6, k7, k8, k9, k10, k11, k12, k13, k14, k15, k16⟩ := k
  simp [proxyBody, decodeProxy, lookupAll, k1, k2, k3, k4, k5, k6, k7, k8, k9, k10, k11, k12, k13, k14, k15, k16,
    applyStores, storeString, storeBool, jstr]

/-- **C19 (`Enable`/`Disable` on a handle have the effect of the request).** For a handle of
an existing proxy, whatever its snapshot: if the call reports success, the server's proxy is
in the requested state afterwards. -/
theorem C19_handle_enable_effect (v : UpdVariant) (e : Env) (s : State) (x : CProxy) (p : ProxyRec) (b : Bool)
    (hc : x.created = true) (hp : s.find x.name = some p)
    (hok : (run v e s (.save { x with enabled := b })).failed = false) :
    ∃ p', (run v e s (.save { x with enabled := b })).state.find x.name = some p' ∧ p'.enabled = b := by
  have hstep : ∀ body : Body, step v e s (req .post ["proxies", x.name] body) = hUpdate e s x.name body := by
    intro body
    have h1 : (Method.post == Method.get) = false := by decide
    simp [step, req, routeMethods, dispatch, List.contains, List.elem, h1]
  simp only [run, hc, if_true, send] at hok ⊢
  simp only [hstep] at hok ⊢
  simp only [hUpdate, withProxy, hp, proxyBody_decode] at hok ⊢
  cases hu : updateProxy e s p ⟨x.name, x.listen, x.upstream, b⟩ with
  | mk p' okk =>
    cases okk with
    | false => simp [hu, isError, errResp, Err.status] at hok
    | true =>
      have := updateProxy_ok_enabled e s p _ p' hu
      refine ⟨p', ?_, this.1⟩
      simp only [hu]
      exact find_replace_same s x.name p p' hp this.2

/-- **C19 (what a handle reads back is the server's state).** For a handle of an existing
proxy, whatever its snapshot says: after a `Save` (hence `Enable`, `Disable`) that reports
success, the handle shows exactly the record the server now has under that name — listen
address as the server spells it, upstream, enabled. -/
theorem C19_handle_reads_back (v : UpdVariant) (e : Env) (s : State) (x : CProxy) (p : ProxyRec)
    (hc : x.created = true) (hp : s.find x.name = some p)
    (hok : (run v e s (.save x)).failed = false) :
    ∃ p', (run v e s (.save x)).state.find x.name = some p' ∧
      afterSave x (run v e s (.save x)) = CProxy.ofRec p' := by
  have hstep : ∀ body : Body, step v e s (req .post ["proxies", x.name] body) = hUpdate e s x.name body := by
    intro body
    have h1 : (Method.post == Method.get) = false := by decide
    simp [step, req, routeMethods, dispatch, List.contains, List.elem, h1]
  unfold afterSave
  rw [hok]
  simp only [run, hc, if_true, send] at hok ⊢
  simp only [hstep] at hok ⊢
  simp only [hUpdate, withProxy, hp, proxyBody_decode] at hok ⊢
  cases hu : updateProxy e s p ⟨x.name, x.listen, x.upstream, x.enabled⟩ with
  | mk p' okk =>
    cases okk with
    | false => simp [hu, isError, errResp, Err.status] at hok
    | true =>
      have := updateProxy_ok_enabled e s p _ p' hu
      refine ⟨p', ?_, ?_⟩
      · simp only [hu]
        exact find_replace_same s x.name p p' hp this.2
      · simp [hu, Api.ok]

/-! ### `Client.Populate` -/

/-- What the server makes of one element of the body `Client.Populate` sends. -/
def asEntry (p : CProxy) : PopEntry := ⟨p.name, p.listen, p.upstream, some p.enabled⟩

theorem lookupAll_entry (p : CProxy) :
    lookupAll [("name", jstr p.name), ("listen", jstr p.listen), ("upstream", jstr p.upstream),
               ("enabled", J.bool p.enabled), ("toxics", J.null)] "name" = [jstr p.name] ∧
    lookupAll [("name", jstr p.name), ("listen", jstr p.listen), ("upstream", jstr p.upstream),
               ("enabled", J.bool p.enabled), ("toxics", J.null)] "listen" = [jstr p.listen] ∧
    lookupAll [("name", jstr p.name), ("listen", jstr p.listen), ("upstream", jstr p.upstream),
               ("enabled", J.bool p.enabled), ("toxics", J.null)] "upstream" = [jstr p.upstream] ∧
    lookupAll [("name", jstr p.name), ("listen", jstr p.listen), ("upstream", jstr p.upstream),
               ("enabled", J.bool p.enabled), ("toxics", J.null)] "enabled" = [J.bool p.enabled] := by
  have k : keyMatches "name" "name" = true ∧ keyMatches "name" "listen" = false ∧ keyMatches "name" "upstream" = false ∧
      keyMatches "name" "enabled" = false ∧ keyMatches "name" "toxics" = false ∧
      keyMatches "listen" "name" = false ∧ keyMatches "listen" "listen" = true ∧ keyMatches "listen" "upstream" = false ∧
      keyMatches "listen" "enabled" = false ∧ keyMatches "listen" "toxics" = false ∧
      keyMatches "upstream" "name" = false ∧ keyMatches "upstream" "listen" = false ∧ keyMatches "upstream" "upstream" = true ∧
      keyMatches "upstream" "enabled" = false ∧ keyMatches "upstream" "toxics" = false ∧
      keyMatches "enabled" "name" = false ∧ keyMatches "enabled" "listen" = false ∧ keyMatches "enabled" "upstream" = false ∧
      keyMatches "enabled" "enabled" = true ∧ keyMatches "enabled" "toxics" = false := by decide
  obtain ⟨a1, a2, a3, a4, a5, b1, b2, b3, b4, b5, c1, c2, c3, c4, c5, d1, d2, d3, d4, d5⟩ := k
  refine ⟨?_, ?_, ?_, ?_⟩ <;>
    simp [lookupAll, List.filter, a1, a2, a3, a4, a5, b1, b2, b3, b4, b5, c1, c2, c3, c4, c5, d1, d2, d3, d4, d5]

/-- **C19 (`Populate` sends what the caller holds, and the server reads it as that).** For every
list of client proxies: the body `Client.Populate` marshals is decoded by the server into exactly
those entries — name, listen address, upstream and the `enabled` flag as given (always present:
the client's field has no `omitempty`), the client-side `toxics` key ignored. -/
theorem C19_populate_decodes (ps : List CProxy) :
    decodePopulate (.val (.arr (ps.map populateEntry))) = some (ps.map asEntry) := by
  have hmap : ∀ (f : J → Option PopEntry), (∀ p, f (populateEntry p) = some (asEntry p)) →
      ps.map (f ∘ populateEntry) = ps.map (fun p => some (asEntry p)) :=
    fun f hf => List.map_congr_left (fun p _ => hf p)
  unfold decodePopulate
  simp only [List.map_map]
  rw [hmap]
  · have hall : (ps.map (fun p => some (asEntry p))).all (·.isSome) = true := by
      simp [List.all_eq_true]
    rw [if_pos hall]
    congr 1
    induction ps with
    | nil => rfl
    | cons p ps ih => simp
  · intro p
    obtain ⟨h1, h2, h3, h4⟩ := lookupAll_entry p
    simp only [populateEntry, h1, h2, h3, h4]
    simp [applyStores, storeString, jstr, asEntry]

/-- `Client.Populate` is one request, `POST /populate`, whose effect and answer are the
handler's; it reports an error exactly when the answer is not 2xx. -/
theorem C19_populate_is_api (v : UpdVariant) (e : Env) (s : State) (ps : List CProxy) :
    let r := req .post ["populate"] (.val (.arr (ps.map populateEntry)))
    (run v e s (.populate ps)).requests = [r] ∧
    (run v e s (.populate ps)).state = (step v e s r).1 ∧
    (run v e s (.populate ps)).failed = isError (step v e s r).2 := by
  simp [run, send]

end Toxi.Client
