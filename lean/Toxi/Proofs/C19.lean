import Toxi.Model.Client
/-
C19 — the Go client and the CLI do what the API would do, and nothing else.

`Toxi.Client.run` / `runCli` say which HTTP requests each client / CLI operation sends and
run them through the API model `Toxi.Api.step`; engine E5 ties them to the real client
library, the real `toxiproxy-cli` binary and a real server (requests on the wire, result,
server state afterwards).  The theorems below are about every server state, every name and
every attribute object.
-/
namespace Toxi.Client
open Toxi.Api
open Toxi.Toxic (Frac)

/-! ### Reads do not change the server -/

theorem get_proxy_state (v : UpdVariant) (e : Env) (s : State) (n : String) :
    (step v e s (req .get ["proxies", n] .empty)).1 = s := by
  simp only [step, req, routeMethods, dispatch, hShow, withProxy]
  cases s.find n <;> simp [List.contains, List.elem]

theorem get_proxy_status (v : UpdVariant) (e : Env) (s : State) (n : String) :
    isError (step v e s (req .get ["proxies", n] .empty)).2 = (s.find n).isNone := by
  simp only [step, req, routeMethods]
  simp only [dispatch, hShow, withProxy]
  cases h : s.find n <;> simp [isError, errResp, Err.status, ok, List.contains, List.elem]

/-! ### A server-side error is surfaced as an error, never as success -/

/-- After `send`, the call counts as failed exactly when the answer is outside 200..299. -/
theorem send_failed (v : UpdVariant) (e : Env) (o : Outcome) (r : Request) :
    (send v e o r).failed = isError (step v e o.state r).2 ∧
    (send v e o r).last = some (step v e o.state r).2 ∧
    (send v e o r).state = (step v e o.state r).1 := by
  simp [send]

/-- **C19 (errors surface).** Whatever the operation, the server state and the arguments: if
the client call reports success then a request was sent and the last answer the server gave
was a 2xx; in particular an operation whose (last) request the server rejected is never
reported as success. -/
theorem C19_errors_surface (v : UpdVariant) (e : Env) (s : State) (op : Op)
    (h : (run v e s op).failed = false) :
    ∃ r, (run v e s op).last = some r ∧ 200 ≤ r.status ∧ r.status < 300 := by
  have key : ∀ (o : Outcome) (r : Request), (send v e o r).failed = false →
      ∃ x, (send v e o r).last = some x ∧ 200 ≤ x.status ∧ x.status < 300 := by
    intro o r hf
    refine ⟨(step v e o.state r).2, by simp [send], ?_⟩
    simp only [send, isError] at hf
    simpa using hf
  cases op <;> simp only [run] at h ⊢
  all_goals first
    | exact key _ _ h
    | (split at h <;> rename_i hc <;> first
        | (rw [if_pos hc]; exact key _ _ h)
        | (rw [if_neg hc]; exact key _ _ h))

/-- … and for the two-request operations (`Client.AddToxic/UpdateToxic/RemoveToxic` look the
proxy up first): when the lookup fails nothing else is sent and the call fails. -/
theorem C19_lookup_failure_stops (v : UpdVariant) (e : Env) (s : State) (p n : String)
    (tox : Option Frac) (attrs : Attrs) (h : s.find p = none) :
    (run v e s (.clientUpdateToxic p n tox attrs)).failed = true ∧
    (run v e s (.clientUpdateToxic p n tox attrs)).requests = [req .get ["proxies", p] .empty] ∧
    (run v e s (.clientUpdateToxic p n tox attrs)).state = s := by
  have hf : (send v e ⟨s, [], false, none⟩ (req .get ["proxies", p] .empty)).failed = true := by
    simp [send, get_proxy_status, h]
  simp only [run, hf, if_true]
  refine ⟨trivial, by simp [send], ?_⟩
  simp [send, get_proxy_state]

/-! ### Settings the caller does not specify keep their server-side value -/

/-- `attributes` does not select the `toxicity` field (exactly or case-insensitively). -/
theorem attributes_not_toxicity : keyMatches "toxicity" "attributes" = false := by decide

/-- The body of an update without toxicity carries the attributes and nothing else. -/
theorem updateBody_none (attrs : Attrs) :
    updateToxicBody none attrs = .val (.obj [("attributes", .obj attrs)]) := by
  simp [updateToxicBody]

/-- **C19 (unspecified toxicity is kept), API level.** `UpdateToxic` with toxicity −1 on any
proxy, any existing toxic `t`, any attributes: if the server accepts the update, the toxic's
toxicity, name, type and stream are those of `t`. -/
theorem C19_update_keeps_toxicity (v : UpdVariant) (p : ProxyRec) (name : String) (t : ToxicRec)
    (attrs : Attrs) (hf : findToxic p name = some t) (t' : ToxicRec)
    (h : (updateToxic v p name (updateToxicBody none attrs)).2 = .ok t') :
    t'.tox = t.tox ∧ t'.name = t.name ∧ t'.type = t.type ∧ t'.stream = t.stream ∧ t'.dir = t.dir := by
  rw [updateBody_none] at h
  simp only [updateToxic, hf] at h
  have hl : lookupAll [("attributes", J.obj attrs)] "toxicity" = [] := by
    simp [lookupAll, attributes_not_toxicity]
  simp only [hl, applyStores, List.foldl_nil, Bool.or_false] at h
  split at h
  · cases v <;> simp at h
  · simp only [Except.ok.injEq] at h
    subst h
    simp

/-- … and a toxicity the caller does give is what the server stores (as float32 of the JSON
number, like any request). -/
theorem C19_update_sets_toxicity (v : UpdVariant) (p : ProxyRec) (name : String) (t : ToxicRec)
    (x : Frac) (attrs : Attrs) (hf : findToxic p name = some t) (t' : ToxicRec)
    (h : (updateToxic v p name (updateToxicBody (some x) attrs)).2 = .ok t') :
    t'.tox = x := by
  simp only [updateToxicBody, List.cons_append, List.nil_append] at h
  simp only [updateToxic, hf] at h
  have hl : lookupAll [("attributes", J.obj attrs), ("toxicity", jfrac x)] "toxicity" = [jfrac x] := by
    have : keyMatches "toxicity" "toxicity" = true := by simp [keyMatches]
    simp [lookupAll, attributes_not_toxicity, this]
  have hs : applyStores storeF32 t.tox [jfrac x] = (x, false) := by
    unfold jfrac
    split <;> simp [applyStores, storeF32]
  simp only [hl, hs, Bool.or_false] at h
  split at h
  · cases v <;> simp at h
  · simp only [Except.ok.injEq] at h
    subst h
    simp

/-- An add without toxicity sends 1, an add without stream sends no stream: both are the
server's own defaults (`C05_toxic_defaults`). -/
theorem C19_add_defaults (name type : String) (attrs : Attrs) :
    addToxicBody name type "" none attrs =
      .val (.obj [("name", jstr name), ("type", jstr type), ("toxicity", .num (some 1) (some ⟨1, 1⟩)),
                  ("attributes", .obj attrs)]) := by
  simp [addToxicBody, jfrac]

/-! ### toxiproxy-cli -/

/-- **C19 (CLI `toxic update` without `--toxicity`).** The repaired CLI performs exactly the
client library's `UpdateToxic` with toxicity −1: the PATCH body has no `toxicity` key, so by
`C19_update_keeps_toxicity` the server-side value is kept. -/
theorem C19_cli_update_fixed (v : UpdVariant) (e : Env) (s : State) (p n : String) (attrs : Attrs) :
    runCli .fixed v e s (.toxicUpdate p n none attrs) =
      (let o := run v e s (.clientUpdateToxic p n none attrs); { o with requests := [] ++ o.requests }) := by
  simp [runCli, chain]

/-- The body the repaired CLI sends, spelled out. -/
theorem C19_cli_update_body (v : UpdVariant) (e : Env) (s : State) (p n : String) (attrs : Attrs)
    (pr : ProxyRec) (hp : s.find p = some pr) :
    (runCli .fixed v e s (.toxicUpdate p n none attrs)).requests =
      [req .get ["proxies", p] .empty,
       req .patch ["proxies", p, "toxics", n] (.val (.obj [("attributes", .obj attrs)]))] := by
  have hf : (send v e ⟨s, [], false, none⟩ (req .get ["proxies", p] .empty)).failed = false := by
    simp [send, get_proxy_status, hp]
  simp only [runCli, chain, Bool.false_eq_true, if_false, run, hf, updateBody_none]
  simp [send]

/-- **C19 (regression witness: the original CLI).** With the original default (1.0) a
`toxic update` that only names an attribute resets the toxicity: a latency toxic with
toxicity 3/10 ends with toxicity 1, although the caller never specified one. -/
def witnessState : State :=
  [{ name := "p1", listen := "127.0.0.1:1", upstream := "u:1", enabled := true,
     toxics := [⟨"t1", "latency", "downstream", .down, ⟨3, 10⟩, [("latency", 5), ("jitter", 0)]⟩] }]

def toxOf (s : State) (p n : String) : Option Frac :=
  (s.find p).bind fun pr => (findToxic pr n).map (·.tox)

theorem C19_cli_legacy_resets :
    toxOf (runCli .legacy .fixed ⟨[], [], []⟩ witnessState
            (.toxicUpdate "p1" "t1" none [("jitter", .num (some 7) (some ⟨7, 1⟩))])).state "p1" "t1"
      = some ⟨1, 1⟩ ∧
    toxOf (runCli .fixed .fixed ⟨[], [], []⟩ witnessState
            (.toxicUpdate "p1" "t1" none [("jitter", .num (some 7) (some ⟨7, 1⟩))])).state "p1" "t1"
      = some ⟨3, 10⟩ := by
  decide

/-- **C19 (toggle changes `enabled` only).** `toxiproxy-cli toggle` sends the proxy's own
name, listen address and upstream back with the flag inverted. -/
theorem C19_toggle_request (cv : CliVariant) (v : UpdVariant) (e : Env) (s : State) (p : String)
    (pr : ProxyRec) (hp : s.find p = some pr) :
    (runCli cv v e s (.toggle p)).requests =
      [req .get ["proxies", p] .empty,
       req .post ["proxies", pr.name]
         (.val (.obj [("name", jstr pr.name), ("listen", jstr pr.listen), ("upstream", jstr pr.upstream),
                      ("enabled", .bool (!pr.enabled))]))] := by
  have hf : (run v e s (.getProxy p)).failed = false := by
    simp [run, send, get_proxy_status, hp]
  have hs : (run v e s (.getProxy p)).state = s := by
    simp [run, send, get_proxy_state]
  simp only [runCli, hf, hp, chain, Bool.false_eq_true, if_false, hs]
  simp [run, send, proxyBody]

/-- `toxiproxy-cli toxic add` without `--type` fails before anything is sent. -/
theorem C19_cli_add_needs_type (cv : CliVariant) (v : UpdVariant) (e : Env) (s : State) (p n : String)
    (up : Bool) (tox : Option Frac) (attrs : Attrs) :
    (runCli cv v e s (.toxicAdd p n "" up tox attrs)).failed = true ∧
    (runCli cv v e s (.toxicAdd p n "" up tox attrs)).requests = [] ∧
    (runCli cv v e s (.toxicAdd p n "" up tox attrs)).state = s := by
  simp [runCli]

/-- Non-vacuity: the witness state satisfies the hypotheses of the theorems above. -/
example : witnessState.find "p1" ≠ none ∧
    (witnessState.find "p1").bind (fun pr => findToxic pr "t1") ≠ none := by decide

end Toxi.Client
