import Toxi.Proofs.C01

/-!
# C04 — Listed toxics are exactly the toxics in effect, on old and new connections

Model: `Coll` of `Model/Link.lean` — the chain per direction (what the API lists) and, per
link, the stubs with the configuration each one runs.  Tie: engine E3 compares, after
every operation, the listing (`GetToxicArray`) and every link's behaviour with the model,
and ends episodes with a probe through an old and a freshly started link.

Proved so far: the chain-level effect of each API procedure, the frame conditions, and
alignment of new links; alignment of *old* links after a procedure completes is validated
by E3 and is the next proof extension.
-/
namespace Toxi.Link
open Toxi.Toxic

/-- **C04 (a connection established now runs exactly the listed chain).** -/
theorem C04_new_link_aligned (c : Coll) (d : Dir) :
    (Link.new (c.chain d) c.now).stages.map (·.t) = c.chain d :=
  (C01_new_link (c.chain d) c.now).1

/-- **C04 (add appends to the listing of its direction and to nothing else).** -/
theorem C04_add_chain (c : Coll) (d : Dir) (t : TCfg) :
    (c.addToxic d t).chain d = c.chain d ++ [t] ∧
    (∀ d', d' ≠ d → (c.addToxic d t).chain d' = c.chain d') := by
  constructor
  · cases d <;> simp [Coll.addToxic, Coll.chain, Coll.setChain, mapLinks]
  · intro d' hd
    cases d <;> cases d' <;> simp_all [Coll.addToxic, Coll.chain, Coll.setChain, mapLinks]

/-- **C04 (update replaces exactly one entry of the listing).** -/
theorem C04_update_chain (c : Coll) (d : Dir) (i : Nat) (t : TCfg) :
    (c.updateToxic d i t).chain d = (c.chain d).set i t ∧
    (∀ d', d' ≠ d → (c.updateToxic d i t).chain d' = c.chain d') := by
  constructor
  · cases d <;> simp [Coll.updateToxic, Coll.chain, Coll.setChain, mapLinks]
  · intro d' hd
    cases d <;> cases d' <;> simp_all [Coll.updateToxic, Coll.chain, Coll.setChain, mapLinks]

/-- **C04 (remove deletes exactly one entry; the others keep their order).** -/
theorem C04_remove_chain (c : Coll) (d : Dir) (i : Nat) :
    (c.removeToxic d i).chain d = (c.chain d).eraseIdx i ∧
    (∀ d', d' ≠ d → (c.removeToxic d i).chain d' = c.chain d') := by
  constructor
  · cases d <;> simp [Coll.removeToxic, Coll.chain, Coll.setChain, mapLinks]
  · intro d' hd
    cases d <;> cases d' <;> simp_all [Coll.removeToxic, Coll.chain, Coll.setChain, mapLinks]

theorem setChain_links (c : Coll) (d : Dir) (ch : List TCfg) : (c.setChain d ch).links = c.links := by
  cases d <;> rfl

theorem mem_mapLinks (c : Coll) (d : Dir) (f : Link → Link) (nl : NLink) (hd : nl.dir ≠ d)
    (hm : nl ∈ c.links) : nl ∈ (mapLinks c d f).links := by
  simp only [mapLinks]
  refine List.mem_map.mpr ⟨nl, hm, ?_⟩
  have : (nl.dir == d) = false := by simpa using hd
  simp [this]

/-- **C04 (frame: links of the other direction are not touched by a procedure).** -/
theorem C04_frame_links (c : Coll) (d : Dir) (t : TCfg) (i : Nat) (nl : NLink) (hd : nl.dir ≠ d)
    (hm : nl ∈ c.links) :
    nl ∈ (c.addToxic d t).links ∧ nl ∈ (c.updateToxic d i t).links ∧ nl ∈ (c.removeToxic d i).links := by
  refine ⟨?_, ?_, ?_⟩
  · simp only [Coll.addToxic]
    exact mem_mapLinks _ d _ nl hd (by rw [setChain_links]; exact hm)
  · simp only [Coll.updateToxic]
    exact mem_mapLinks _ d _ nl hd (by rw [setChain_links]; exact hm)
  · simp only [Coll.removeToxic]
    exact mem_mapLinks _ d _ nl hd (by rw [setChain_links]; exact hm)

/-- **C04 (on a link, an update restarts exactly the updated stage with the new toxic).**
When the interrupt of the stage has completed, the controller restarts that stage with the
new configuration and touches no other stage. -/
theorem C04_update_restarts_one (l : Link) (chain : List TCfg) (now : Int) (idx : Nat) (newT : TCfg)
    (s : Stage) (hctl : l.ctl = some (.updWait idx newT)) (hs : l.stages[idx]? = some s)
    (hdone : s.intr = .done true) :
    l.ctlMove chain now =
      some { l with ctl := none, stages := modifyAt l.stages idx fun s => ({ s with intr := .none }).start newT now } := by
  unfold Link.ctlMove
  simp [hctl, hs, hdone]

end Toxi.Link
