import Toxi.Model.Conn

/-!
# C20 — Byte counters are exact and monotone

Model: `World.countLink` of `Model/Conn.lean` — the two `Add` calls of `link.go`
(`read`: ReceivedBytesTotal += bytes copied from the source, when the source goroutine ends;
`write`: SentBytesTotal += bytes copied to the destination, when the sink ends *without* a
write error), with the label set fixed when the link was started.  Counter arithmetic is
`Nat`; the code uses float64, exact below 2⁵³ bytes (stated assumption).  Tie: engine E6
gathers the real prometheus registry after every operation and compares every counter.
-/
namespace Toxi.Conn
open Toxi.Link

def ctrVal (l : List (Labels × Nat)) (k : Labels) : Nat := (l.filter (·.1 == k)).foldl (fun a e => a + e.2) 0

theorem foldl_add_init (l : List (Labels × Nat)) (a : Nat) :
    l.foldl (fun a e => a + e.2) a = a + l.foldl (fun a e => a + e.2) 0 := by
  induction l generalizing a with
  | nil => simp
  | cons x xs ih => simp only [List.foldl_cons]; rw [ih, ih (0 + x.2)]; omega

theorem ctrVal_map_le (l : List (Labels × Nat)) (k k' : Labels) (n : Nat) :
    ctrVal l k' ≤ ctrVal (l.map fun e => if e.1 == k then (e.1, e.2 + n) else e) k' := by
  unfold ctrVal
  induction l with
  | nil => simp
  | cons x xs ih =>
    have hkey : (if (x.1 == k) = true then (x.1, x.2 + n) else x).1 = x.1 := by split <;> rfl
    have hval : x.2 ≤ (if (x.1 == k) = true then (x.1, x.2 + n) else x).2 := by split <;> simp
    simp only [List.map_cons, List.filter_cons, hkey]
    by_cases hk : (x.1 == k') = true
    · simp only [hk, if_true, List.foldl_cons]
      rw [foldl_add_init _ (0 + x.2), foldl_add_init _ (0 + _)]
      omega
    · simp only [hk]
      exact ih

/-- **C20 (counters never decrease).** Adding to one label set leaves every counter at least
what it was. -/
theorem C20_monotone (l : List (Labels × Nat)) (k k' : Labels) (n : Nat) :
    ctrVal l k' ≤ ctrVal (addCtr l k n) k' := by
  unfold addCtr
  split
  · exact ctrVal_map_le l k k' n
  · unfold ctrVal
    rw [List.filter_append, List.foldl_append, foldl_add_init _ (List.foldl _ 0 _)]
    omega

theorem countR_idem (w : World) (pn : String) (k : Labels) (nl : NLink) :
    (w.countR pn k nl).countR pn k nl = w.countR pn k nl := by
  by_cases h : (nl.l.srcDone && !w.countedR.contains (pn, nl.name)) = true
  · have h1 : w.countR pn k nl = { w with received := addCtr2 w.received k (if nl.l.srcCut then nl.l.delivered.length else nl.l.sent.length)
                                              (if nl.l.srcCut then max nl.l.sent.length nl.l.cutHi else nl.l.sent.length),
                                          countedR := (pn, nl.name) :: w.countedR } := by
      unfold World.countR; rw [if_pos h]
    rw [h1]
    unfold World.countR
    rw [if_neg]
    simp
  · have h1 : w.countR pn k nl = w := by unfold World.countR; rw [if_neg h]
    rw [h1, h1]

theorem countS_idem (w : World) (pn : String) (k : Labels) (nl : NLink) :
    (w.countS pn k nl).countS pn k nl = w.countS pn k nl := by
  by_cases h : (nl.l.destClosed && !nl.l.sinkErr && !w.countedS.contains (pn, nl.name)) = true
  · have h1 : w.countS pn k nl = { w with sent := addCtr w.sent k nl.l.delivered.length, countedS := (pn, nl.name) :: w.countedS } := by
      unfold World.countS; rw [if_pos h]
    rw [h1]
    unfold World.countS
    rw [if_neg]
    simp only [List.contains_cons, beq_self_eq_true, Bool.true_or, Bool.not_true, Bool.and_false]
    exact Bool.false_ne_true
  · have h1 : w.countS pn k nl = w := by unfold World.countS; rw [if_neg h]
    rw [h1, h1]

theorem countRS_comm (w : World) (pn : String) (k : Labels) (nl : NLink) :
    (w.countS pn k nl).countR pn k nl = (w.countR pn k nl).countS pn k nl := by
  by_cases h1 : (nl.l.srcDone && !w.countedR.contains (pn, nl.name)) = true <;>
  by_cases h2 : (nl.l.destClosed && !nl.l.sinkErr && !w.countedS.contains (pn, nl.name)) = true
  · unfold World.countR World.countS
    rw [if_pos h2, if_pos h1]
    simp only []
    rw [if_pos h1, if_pos h2]
  · unfold World.countR World.countS
    rw [if_neg h2, if_pos h1]
    simp only []
    rw [if_neg h2]
  · unfold World.countR World.countS
    rw [if_pos h2, if_neg h1]
    rw [if_neg h1, if_pos h2]
  · unfold World.countR World.countS
    rw [if_neg h2, if_neg h1, if_neg h2]

/-- **C20 (each link is counted at most once per counter).** Accounting the same link again
changes nothing: no byte is counted twice. -/
theorem C20_once (w : World) (pn : String) (k : Labels) (nl : NLink) :
    (w.countLink pn k nl).countLink pn k nl = w.countLink pn k nl := by
  unfold World.countLink
  rw [countRS_comm (w.countR pn k nl) pn k nl, countR_idem, countS_idem]

/-- **C20 (exactness).** When a link's source goroutine has ended by itself (not cut off by
the proxy closing the socket) the received counter of its labels grows by exactly the
number of bytes read from the sender; when its sink ended without a write error the sent
counter grows by exactly the number of bytes written to the receiver; a sink that failed
adds nothing. -/
theorem C20_exact (w : World) (pn : String) (k : Labels) (nl : NLink)
    (hR : w.countedR.contains (pn, nl.name) = false) (hS : w.countedS.contains (pn, nl.name) = false) :
    (nl.l.srcDone = true → nl.l.srcCut = false →
      (w.countR pn k nl).received = addCtr2 w.received k nl.l.sent.length nl.l.sent.length) ∧
    (nl.l.destClosed = true → nl.l.sinkErr = false →
      (w.countS pn k nl).sent = addCtr w.sent k nl.l.delivered.length) ∧
    (nl.l.sinkErr = true → (w.countS pn k nl).sent = w.sent) ∧
    (w.countR pn k nl).sent = w.sent ∧ (w.countS pn k nl).received = w.received := by
  unfold World.countR World.countS
  refine ⟨?_, ?_, ?_, ?_, ?_⟩
  · intro h1 h2
    have hm : ¬ (pn, nl.name) ∈ w.countedR := by
      intro hc; have := List.elem_eq_true_of_mem hc; simp only [List.contains] at hR; rw [hR] at this; cases this
    simp [h1, h2, hm]
  · intro h1 h2
    have hm : ¬ (pn, nl.name) ∈ w.countedS := by
      intro hc; have := List.elem_eq_true_of_mem hc; simp only [List.contains] at hS; rw [hS] at this; cases this
    simp [h1, h2, hm]
  · intro h1; simp [h1]
  · split <;> rfl
  · split <;> rfl

/-- **C20 (labels).** direction, proxy name, listen address and upstream of the proxy. -/
theorem C20_labels (p : PProxy) :
    labelsOf p .up = ⟨"upstream", p.name, p.listen, p.upstream⟩ ∧
    labelsOf p .down = ⟨"downstream", p.name, p.listen, p.upstream⟩ := by
  simp [labelsOf]

end Toxi.Conn
