import Toxi.Proofs.Lemmas.Api

/-!
# C17 — Populate is idempotent and replaces on difference; reset restores a clean state

Model: `populate`, `addOrReplace`, `reset` of `Model/Api.lean` (`PopulateJson`,
`AddOrReplace`, `Differs`, `ResetState`), tied by engine E4.  Whether a requested listen
address denotes a proxy's current one is the relation `Env.sameListen`, *measured* on the
real `Proxy.Differs` for every pair of spellings at the start of each run.
-/
namespace Toxi.Api

/-- A populate entry *matches* the registry: a proxy of that name exists, the requested
listen address resolves and denotes the proxy's current address, the upstream is equal. -/
def Matches (e : Env) (s : State) (x : PopEntry) : Prop :=
  ∃ ex, s.find x.name = some ex ∧ (∃ r, e.resolve x.listen = some r) ∧
    e.sameListen ex.listen x.listen = true ∧ ex.upstream = x.upstream

theorem addOrReplace_match (e : Env) (s : State) (x : PopEntry) (ex : ProxyRec)
    (hf : s.find x.name = some ex) (hr : ∃ r, e.resolve x.listen = some r)
    (hs : e.sameListen ex.listen x.listen = true) (hu : ex.upstream = x.upstream) :
    addOrReplace e s x = .ok (s, ex, false) := by
  obtain ⟨r, hr⟩ := hr
  unfold addOrReplace
  simp [hf, hr, hs, hu]

/-- The proxies a populate of matching entries reports: the existing ones, in request order. -/
def existing (s : State) (xs : List PopEntry) : List ProxyRec :=
  xs.filterMap fun x => s.find x.name

theorem populateLoop_all_match (e : Env) (s : State) :
    ∀ (xs : List PopEntry) (acc : List ProxyRec), (∀ x ∈ xs, Matches e s x) →
      populateLoop e s xs acc = (s, acc ++ existing s xs, true) := by
  intro xs
  induction xs with
  | nil => intro acc _; simp [populateLoop, existing]
  | cons x xs ih =>
    intro acc h
    obtain ⟨ex, hf, hr, hs, hu⟩ := h x (by simp)
    simp only [populateLoop, addOrReplace_match e s x ex hf hr hs hu]
    rw [ih _ (fun y hy => h y (by simp [hy]))]
    simp [existing, hf]

/-- **C17 (matching entries leave everything untouched).** If every entry of a populate body
matches an existing proxy (name, listen address as `Differs` judges it, upstream), the
registry — proxies, their enabled flags, their toxics — is exactly what it was, and the
response lists the existing proxies in request order with status 201. -/
theorem C17_same_untouched (e : Env) (s : State) (b : Body) (xs : List PopEntry)
    (hd : decodePopulate b = some xs)
    (hv : xs.any (fun x => x.name == "" || x.upstream == "") = false)
    (hm : ∀ x ∈ xs, Matches e s x) :
    populate e s b = (s, ⟨201, .populate (existing s xs) none, false, false⟩) := by
  unfold populate
  simp only [hd, hv]
  rw [populateLoop_all_match e s xs [] hm]
  simp

/-- **C17 (however often it is repeated).** -/
theorem C17_idempotent (e : Env) (s : State) (b : Body) (xs : List PopEntry)
    (hd : decodePopulate b = some xs)
    (hv : xs.any (fun x => x.name == "" || x.upstream == "") = false)
    (hm : ∀ x ∈ xs, Matches e s x) (n : Nat) :
    (Nat.repeat (fun st => (populate e st b).1) n s) = s := by
  induction n with
  | zero => rfl
  | succ n ih =>
    simp only [Nat.repeat, ih]
    rw [C17_same_untouched e s b xs hd hv hm]

/-- **C17 (a differing entry replaces the old proxy).** If the entry's address or upstream
differs, the old proxy is stopped (its port is free for the new one: `startProxy` is asked
on the state in which it is disabled), and when the new one starts it takes the old one's
place in the registry — enabled, with no toxics. -/
theorem C17_differs_replaces (e : Env) (s : State) (x : PopEntry) (ex : ProxyRec) (r : String)
    (hf : s.find x.name = some ex) (hr : e.resolve x.listen = some r)
    (hdiff : (e.sameListen ex.listen x.listen && ex.upstream == x.upstream) = false)
    (hen : x.enabled.getD true = true) (p : ProxyRec)
    (hstart : startProxy e (s.replace { ex with enabled := false }) ⟨x.name, x.listen, x.upstream, false, []⟩ = some p) :
    addOrReplace e s x = .ok ((s.replace { ex with enabled := false }).replace p, p, true) ∧
    p.enabled = true ∧ p.toxics = [] ∧ p.name = x.name := by
  have hp : p.enabled = true ∧ p.toxics = [] ∧ p.name = x.name := by
    unfold startProxy at hstart
    split at hstart
    · simp at hstart
    · split at hstart
      · simp at hstart
      · split at hstart
        · simp at hstart
        · simp at hstart; subst hstart; simp
  refine ⟨?_, hp⟩
  unfold addOrReplace
  simp only [hf, hr, hdiff, hen]
  simp [hstart]

/-- **C17 (for every spelling).** Under `spellingOK`, a proxy just started from an entry
matches that entry again, whatever the spelling of its listen address. -/
theorem C17_spelling (e : Env) (hok : spellingOK e = true) (s : State) (x : PopEntry) (p : ProxyRec)
    (r : String) (hr : e.resolve x.listen = some r)
    (hstart : startProxy e s ⟨x.name, x.listen, x.upstream, false, []⟩ = some p) :
    e.sameListen p.listen x.listen = true ∧ p.upstream = x.upstream := by
  unfold startProxy at hstart
  simp only at hstart
  cases hl : e.lookup x.listen with
  | none => simp [hl] at hstart
  | some a =>
    simp only [hl] at hstart
    cases hb : a.bound with
    | none => simp [hb] at hstart
    | some b =>
      simp only [hb] at hstart
      split at hstart
      · simp at hstart
      · simp at hstart
        subst hstart
        simp only [true_and, and_true]
        have hmem : a ∈ e.addrs := by
          unfold Env.lookup at hl; exact List.mem_of_find?_eq_some hl
        have hsp : a.spelling = x.listen := by
          unfold Env.lookup at hl; have := List.find?_some hl; simpa using this
        unfold spellingOK at hok
        have := List.all_eq_true.mp hok a hmem
        unfold Env.resolve at hr
        simp only [hl, Option.bind_some] at hr
        simp only [hr, hb, Bool.and_eq_true] at this
        rw [← hsp]; exact this.2

end Toxi.Api
