import Toxi.Proofs.Lemmas.Api

/-!
# C05 — The HTTP API behaves as the documented sequential state machine

Model: `Toxi.Api.step` (`Model/Api.lean`).  The registry model *is* the simple documented
machine (an association list of proxies, each with its toxics in creation order); what is
proved here are the clauses of the property, each as its own theorem so that none can be
weakened unnoticed, for every state, environment and request.  Tie: engine E4.
Behaviours of the code the property's wording does not mention, present in the model
because the code has them: bind/resolve failures answer 500; `stream` is echoed in the
caller's letter case; unknown paths answer 404 and known paths with another method 405
before the browser check.
-/
namespace Toxi.Api

/-- **C05 (browser requests are refused on every route and have no effect).** -/
theorem C05_browser_403 (v : UpdVariant) (e : Env) (s : State) (r : Request) (ms : List Method)
    (hroute : routeMethods r.path = some ms) (hm : ms.contains r.method = true)
    (hb : r.browser = true) :
    step v e s r = (s, browser403) ∧ browser403.status = 403 := by
  unfold step
  rw [hroute]
  simp only [hm, Bool.not_true, Bool.false_eq_true, if_false, hb, if_true]
  exact ⟨trivial, rfl⟩

/-- Every route of `Routes()` (as extracted into `routeMethods`) refuses browsers: the
statement above quantifies over all of them. Unknown paths and wrong methods are answered
by the router itself. -/
theorem C05_unrouted (v : UpdVariant) (e : Env) (s : State) (r : Request) :
    (routeMethods r.path = none → step v e s r = (s, mux404)) ∧
    (∀ ms, routeMethods r.path = some ms → ms.contains r.method = false → step v e s r = (s, mux405)) := by
  constructor
  · intro h; unfold step; simp [h]
  · intro ms h hm; unfold step; rw [h]; simp only [hm, Bool.not_false, if_true]

/-- A request that reaches a handler. -/
def Routed (r : Request) : Prop :=
  ∃ ms, routeMethods r.path = some ms ∧ ms.contains r.method = true ∧ r.browser = false

theorem step_routed (v : UpdVariant) (e : Env) (s : State) (r : Request) (h : Routed r) :
    step v e s r = dispatch v e s r := by
  obtain ⟨ms, h1, h2, h3⟩ := h
  unfold step
  rw [h1]
  simp only [h2, Bool.not_true, Bool.false_eq_true, if_false, h3]

/-- **C05 (unknown proxy ⇒ 404, on every per-proxy route, state unchanged).** -/
theorem C05_unknown_proxy_404 (s : State) (name : String) (k : ProxyRec → State × Response)
    (h : s.find name = none) : withProxy s name k = (s, errResp .proxyNotFound) ∧
    (errResp .proxyNotFound).status = 404 := by
  unfold withProxy; simp [h, errResp, Err.status]

/-- **C05 (unknown toxic ⇒ 404).** -/
theorem C05_unknown_toxic_404 (v : UpdVariant) (s : State) (p : ProxyRec) (name tn : String) (b : Body)
    (hp : s.find name = some p) (ht : findToxic p tn = none) :
    (hToxicShow s name tn).2.status = 404 ∧ (hToxicDelete s name tn).2.status = 404 ∧
    (hToxicUpdate v s name tn b).2.status = 404 ∧
    (hToxicShow s name tn).1 = s ∧ (hToxicDelete s name tn).1 = s := by
  simp [hToxicShow, hToxicDelete, hToxicUpdate, withProxy, hp, ht, removeToxic, updateToxic, errResp, Err.status]

/-- **C05 (duplicate proxy name ⇒ 409, nothing created).** -/
theorem C05_create_dup_409 (e : Env) (s : State) (b : Body) (inp : ProxyInput)
    (hd : decodeProxy ⟨"", "", "", true⟩ b = some inp) (hn : inp.name ≠ "") (hu : inp.upstream ≠ "")
    (hex : (s.find inp.name).isSome = true) :
    hCreate e s b = (s, errResp .proxyAlreadyExists) ∧ (errResp .proxyAlreadyExists).status = 409 := by
  unfold hCreate
  simp [hd, hn, hu, hex, errResp, Err.status]

/-- **C05 (malformed or incomplete create ⇒ 400, nothing created).** -/
theorem C05_create_bad_400 (e : Env) (s : State) (b : Body) :
    (decodeProxy ⟨"", "", "", true⟩ b = none → (hCreate e s b) = (s, errResp .badRequestBody)) ∧
    (∀ inp, decodeProxy ⟨"", "", "", true⟩ b = some inp → (inp.name = "" ∨ inp.upstream = "") →
      (hCreate e s b).1 = s ∧ (hCreate e s b).2.status = 400) := by
  constructor
  · intro h; unfold hCreate; simp [h]
  · intro inp h hmiss
    unfold hCreate
    simp only [h]
    rcases hmiss with h1 | h1
    · simp [h1, errResp, Err.status]
    · by_cases hn : (inp.name == "") = true <;> simp [hn, h1, errResp, Err.status]

/-- **C05 (defaults of a created proxy; a successful create is visible).** A create whose
body gives no `enabled` starts the proxy; the new proxy is appended to the registry with no
toxics and answered with 201. -/
theorem C05_create_ok (e : Env) (s : State) (b : Body) (inp : ProxyInput) (p : ProxyRec)
    (hd : decodeProxy ⟨"", "", "", true⟩ b = some inp) (hn : inp.name ≠ "") (hu : inp.upstream ≠ "")
    (hnew : (s.find inp.name).isSome = false) (hen : inp.enabled = true)
    (hs : startProxy e s ⟨inp.name, inp.listen, inp.upstream, false, []⟩ = some p) :
    hCreate e s b = (s ++ [p], ok 201 (.proxy p)) := by
  unfold hCreate
  simp [hd, hn, hu, hnew, hen, hs]

theorem C05_default_enabled (b : Body) (kvs : List (String × J)) (hb : b = .val (.obj kvs))
    (hno : lookupAll kvs "enabled" = []) (inp : ProxyInput)
    (hd : decodeProxy ⟨"", "", "", true⟩ b = some inp) : inp.enabled = true := by
  subst hb
  simp only [decodeProxy, hno, applyStores, List.foldl_nil] at hd
  split at hd
  · simp at hd
  · simp at hd; rw [← hd]

theorem wrapper_defaults (kvs : List (String × J))
    (hs : lookupAll kvs "stream" = []) (ht : lookupAll kvs "toxicity" = []) (hn : lookupAll kvs "name" = [])
    (w : ToxicInput) (h : decodeToxicWrapper (.val (.obj kvs)) = some w) :
    w.name = "" ∧ w.stream = "downstream" ∧ w.tox = ⟨1, 1⟩ := by
  simp only [decodeToxicWrapper, hs, ht, hn, applyStores, List.foldl_nil] at h
  split at h
  · cases h
  · cases h; exact ⟨rfl, rfl, rfl⟩

/-- The successful path of `AddToxicJson`, spelled out. -/
theorem addToxic_ok (p : ProxyRec) (b : Body) (p' : ProxyRec) (t : ToxicRec) (h : addToxic p b = .ok (p', t)) :
    ∃ w dir z, decodeToxicWrapper b = some w ∧ parseDirection w.stream = some dir ∧
      zeroAttrs w.type = some z ∧
      findToxic p (if w.name == "" then w.type ++ "_" ++ w.stream else w.name) = none ∧
      t.name = (if w.name == "" then w.type ++ "_" ++ w.stream else w.name) ∧ t.type = w.type ∧
      t.stream = w.stream ∧ t.dir = dir ∧ t.tox = w.tox ∧ p' = { p with toxics := p.toxics ++ [t] } := by
  unfold addToxic at h
  cases hw : decodeToxicWrapper b with
  | none => simp [hw] at h
  | some w =>
    simp only [hw] at h
    cases hd : parseDirection w.stream with
    | none => simp [hd] at h
    | some dir =>
      simp only [hd] at h
      cases hz : zeroAttrs w.type with
      | none => simp [hz] at h
      | some z =>
        simp only [hz] at h
        cases hf : findToxic p (if w.name == "" then w.type ++ "_" ++ w.stream else w.name) with
        | some x => simp only [hf, Option.isSome_some, if_true] at h; cases h
        | none =>
          simp only [hf, Option.isSome_none, Bool.false_eq_true, if_false] at h
          generalize bodyFields b = kk at h
          cases hab : applyAttrBody z kk with
          | mk attrs eb =>
          simp only [hab] at h
          cases eb with
          | true => simp at h
          | false =>
            simp only [Bool.false_eq_true, if_false, Except.ok.injEq, Prod.mk.injEq] at h
            obtain ⟨h1, h2⟩ := h
            refine ⟨w, dir, z, rfl, hd, hz, hf, ?_⟩
            subst h2
            simp [← h1]

/-- **C05 (defaults of a created toxic).** A toxic body that gives neither stream, toxicity
nor name gets `stream = downstream`, `toxicity = 1` and `name = <type>_downstream`, and is
appended to the proxy's toxics. -/
theorem C05_toxic_defaults (p : ProxyRec) (kvs : List (String × J))
    (hs : lookupAll kvs "stream" = []) (ht : lookupAll kvs "toxicity" = []) (hn : lookupAll kvs "name" = [])
    (p' : ProxyRec) (t : ToxicRec) (h : addToxic p (.val (.obj kvs)) = .ok (p', t)) :
    t.stream = "downstream" ∧ t.dir = .down ∧ t.tox = ⟨1, 1⟩ ∧ t.name = t.type ++ "_" ++ "downstream" ∧
    p'.toxics = p.toxics ++ [t] := by
  obtain ⟨w, dir, z, hw, hd, _, _, h1, h2, h3, h4, h5, h6⟩ := addToxic_ok p _ p' t h
  obtain ⟨d1, d2, d3⟩ := wrapper_defaults kvs hs ht hn w hw
  have hdir : dir = .down := by
    rw [d2] at hd
    simp [parseDirection] at hd
    exact hd.symm
  refine ⟨by rw [h3, d2], by rw [h4, hdir], by rw [h5, d3], ?_, by rw [h6]⟩
  rw [h1, d1, h2, d2]
  simp

/-- **C05 (invalid stream / invalid type / malformed ⇒ 400; duplicate toxic name ⇒ 409).**
These are the only ways a toxic create can fail, and (see C06) none of them adds anything. -/
theorem C05_toxic_rejects (p : ProxyRec) (b : Body) (err : Err) (h : addToxic p b = .error err) :
    (err = .badRequestBody ∨ err = .invalidStream ∨ err = .invalidToxicType ∨ err = .toxicAlreadyExists) ∧
    (err.status = 400 ∨ err.status = 409) := by
  have key : err = .badRequestBody ∨ err = .invalidStream ∨ err = .invalidToxicType ∨ err = .toxicAlreadyExists := by
    unfold addToxic at h
    cases hw : decodeToxicWrapper b with
    | none => simp [hw] at h; simp [← h]
    | some w =>
      simp only [hw] at h
      cases hd : parseDirection w.stream with
      | none => simp [hd] at h; simp [← h]
      | some dir =>
        simp only [hd] at h
        cases hz : zeroAttrs w.type with
        | none => simp [hz] at h; simp [← h]
        | some z =>
          simp only [hz] at h
          cases hf : findToxic p (if w.name == "" then w.type ++ "_" ++ w.stream else w.name) with
          | some x => simp only [hf, Option.isSome_some, if_true] at h; cases h; simp
          | none =>
            simp only [hf, Option.isSome_none, Bool.false_eq_true, if_false] at h
            generalize bodyFields b = kk at h
            cases hab : applyAttrBody z kk with
            | mk attrs eb =>
            simp only [hab] at h
            cases eb with
            | true => simp at h; simp [← h]
            | false => simp at h
  refine ⟨key, ?_⟩
  rcases key with h | h | h | h <;> simp [h, Err.status]

theorem C05_toxic_dup_409 (p : ProxyRec) (b : Body) (w : ToxicInput) (dir : Dir) (z : List (String × Int))
    (hw : decodeToxicWrapper b = some w) (hd : parseDirection w.stream = some dir)
    (hz : zeroAttrs w.type = some z) (x : ToxicRec)
    (hex : findToxic p (if w.name == "" then w.type ++ "_" ++ w.stream else w.name) = some x) :
    addToxic p b = .error .toxicAlreadyExists ∧ Err.toxicAlreadyExists.status = 409 := by
  unfold addToxic
  simp only [hw, hd, hz, hex, Option.isSome_some, if_true]
  exact ⟨trivial, rfl⟩

/-- **C05 (every read reflects all earlier successful writes).** Reads return exactly the
registry state and do not change it: `GET /proxies`, `GET /proxies/{p}`,
`GET /proxies/{p}/toxics`, `GET /proxies/{p}/toxics/{t}`. -/
theorem C05_read_your_writes (s : State) (name tn : String) (p : ProxyRec) (hp : s.find name = some p) :
    hIndex s = (s, ok 200 (.proxies s)) ∧
    hShow s name = (s, ok 200 (.proxy p)) ∧
    hToxicIndex s name = (s, ok 200 (.toxics p.listing)) ∧
    (∀ t, findToxic p tn = some t → hToxicShow s name tn = (s, ok 200 (.toxic t))) := by
  refine ⟨by simp [hIndex], by simp [hShow, withProxy, hp], by simp [hToxicIndex, withProxy, hp], ?_⟩
  intro t ht
  simp [hToxicShow, withProxy, hp, ht]

/-- **C05 (listing order).** The toxics of a proxy are listed upstream first, then
downstream, each in order of creation; a removed toxic disappears and nothing else moves. -/
theorem C05_listing_order (p : ProxyRec) (tn : String) (p' : ProxyRec) (h : removeToxic p tn = .ok p') :
    p'.listing = p.listing.filter (·.name != tn) := by
  unfold removeToxic at h
  split at h
  · simp at h
  · simp at h
    subst h
    simp [ProxyRec.listing, List.filter_append, List.filter_filter, Bool.and_comm]

end Toxi.Api
