import Toxi.Model.Link
/-
Model of `proxy.go` at connection level: a proxy with its listener, its registry of
connections, and per connection two links (upstream: client → server, downstream:
server → client) over two sockets; plus the byte counters of `link.go`/`metrics.go`.
Core Lean only.  Engine E6 drives real proxies over loopback TCP and compares, at
quiescence, what each peer received and whether its connection ended, whether a dial is
accepted, the registry sizes, the goroutine census and the counters.

Sockets are abstracted to what the properties speak about: the bytes a peer has received,
whether it has seen the end of the connection, and — where `SO_LINGER 0` decides it —
whether that end is a reset.  `Close()` of a socket by the proxy closes it in both
directions (this is why a half-close by one peer ends the whole connection).
-/
namespace Toxi.Conn
open Toxi.Link Toxi.Toxic Toxi.Stream

structure Peer where
  recv  : Bytes := []
  ended : Bool := false     -- the peer saw end-of-stream or a reset
  rst   : Bool := false     -- … and the proxy had SO_LINGER 0 on its sockets
  sentClose : Bool := false -- the peer itself closed (FIN)
deriving Repr, DecidableEq

structure Labels where
  dir : String
  proxy : String
  listener : String
  upstream : String
deriving Repr, DecidableEq

structure CConn where
  name    : String
  client  : Peer := {}
  server  : Peer := {}
  linger0 : Bool := false
  labUp   : Labels           -- counter labels, fixed when the links were started
  labDown : Labels
deriving Repr, DecidableEq

structure PProxy where
  name     : String
  listen   : String          -- bound address while enabled
  upstream : String
  enabled  : Bool
  coll     : Coll := {}
  conns    : List CConn := []
deriving Repr

structure World where
  proxies   : List PProxy := []
  /-- proxies that were deleted or replaced: their leftover goroutines still count -/
  gone      : List PProxy := []
  upstreams : List (String × Bool) := []       -- upstream address ↦ a server is listening
  received  : List (Labels × Nat × Nat) := []   -- (at least, at most)
  sent      : List (Labels × Nat) := []
  /-- (proxy, link name) pairs whose counters were already added -/
  countedR  : List (String × String) := []
  countedS  : List (String × String) := []
  /-- virtual time the last `settle` let pass (the harness scales its real-time waits by it) -/
  elapsed   : Int := 0
deriving Repr

def upName (c : String) : String := c ++ "u"
def downName (c : String) : String := c ++ "d"

def allLinks (c : Coll) : List NLink := c.links ++ c.dead

def findLink (c : Coll) (n : String) : Option NLink := (allLinks c).find? (·.name == n)

def updLink (c : Coll) (n : String) (f : Link → Link) : Coll :=
  { c with links := c.links.map (fun nl => if nl.name == n then { nl with l := f nl.l } else nl),
           dead := c.dead.map (fun nl => if nl.name == n then { nl with l := f nl.l } else nl) }

/-- Run a collection to quiescence: settle, and let virtual time pass until no timer is left. -/
def quiesce : Nat → Coll → Coll
  | 0, c => c
  | n + 1, c =>
    let c := c.settle 100000
    match c.nextTimer with
    | some d => quiesce n ({ c with now := max c.now d })
    | none => c

def addCtr (l : List (Labels × Nat)) (k : Labels) (n : Nat) : List (Labels × Nat) :=
  if l.any (·.1 == k) then l.map (fun e => if e.1 == k then (e.1, e.2 + n) else e) else l ++ [(k, n)]

def addCtr2 (l : List (Labels × Nat × Nat)) (k : Labels) (lo hi : Nat) : List (Labels × Nat × Nat) :=
  if l.any (·.1 == k) then l.map (fun e => if e.1 == k then (e.1, e.2.1 + lo, e.2.2 + hi) else e) else l ++ [(k, lo, hi)]

/-- Socket coupling for one connection: deliveries reach the peers; a socket the proxy
closed ends that peer's view and makes the link reading from it end. -/
def couple (p : PProxy) (c : CConn) : PProxy × CConn :=
  let up := findLink p.coll (upName c.name)
  let down := findLink p.coll (downName c.name)
  let c1 := { c with server := { c.server with recv := (up.map (·.l.delivered)).getD c.server.recv },
                     client := { c.client with recv := (down.map (·.l.delivered)).getD c.client.recv } }
  -- the upstream link's sink closed the server-side socket
  let upClosed := (up.map (·.l.destClosed)).getD false
  let downClosed := (down.map (·.l.destClosed)).getD false
  let c2 := if upClosed && !c1.server.ended then { c1 with server := { c1.server with ended := true, rst := c1.linger0 } } else c1
  let c3 := if downClosed && !c2.client.ended then { c2 with client := { c2.client with ended := true, rst := c2.linger0 } } else c2
  -- (a source that has seen its peer's close but still has unread bytes queued — the chain is
  -- backed up — is cut like any other: how many of them `io.Copy` still reads is a race)
  let cut := fun (l : Link) => if l.srcEOF && l.srcQ.isEmpty then l else
    { l with srcEOF := true, srcQ := [], srcCut := true, cutHi := l.sent.length + (l.srcQ.map List.length).sum }
  let coll1 := if upClosed then updLink p.coll (downName c.name) cut else p.coll
  let coll2 := if downClosed then updLink coll1 (upName c.name) cut else coll1
  ({ p with coll := coll2 }, c3)

def coupleAll (p : PProxy) : PProxy :=
  let (p', cs) := p.conns.foldl (fun (acc : PProxy × List CConn) c =>
    let (p1, c1) := couple acc.1 c
    (p1, acc.2 ++ [c1])) (p, [])
  { p' with conns := cs }

/-- Proxy to quiescence: alternate link quiescence and socket coupling until stable. -/
def PProxy.settle : Nat → PProxy → PProxy
  | 0, p => p
  | n + 1, p =>
    let p1 := coupleAll { p with coll := quiesce 10000 p.coll }
    let again := (p1.coll.settle 100000)
    -- a coupling step may have enabled new moves
    if (p1.coll.move).isSome || p1.coll.nextTimer.isSome then PProxy.settle n { p1 with coll := again }
    else p1

/-- Zero-time moves only (no timer fires): the state "at this instant". -/
def PProxy.settleNow : Nat → PProxy → PProxy
  | 0, p => p
  | n + 1, p =>
    let p1 := coupleAll { p with coll := p.coll.settle 100000 }
    if (p1.coll.move).isSome then PProxy.settleNow n p1 else p1

def labelsOf (p : PProxy) (d : Dir) : Labels :=
  ⟨match d with | .up => "upstream" | .down => "downstream", p.name, p.listen, p.upstream⟩

/-- `link.read`'s counter update for one link: once, when its source goroutine has ended. -/
def World.countR (w : World) (pn : String) (k : Labels) (nl : NLink) : World :=
  if nl.l.srcDone && !w.countedR.contains (pn, nl.name) then
    { w with received := addCtr2 w.received k (if nl.l.srcCut then nl.l.delivered.length else nl.l.sent.length)
                                              (if nl.l.srcCut then max nl.l.sent.length nl.l.cutHi else nl.l.sent.length),
             countedR := (pn, nl.name) :: w.countedR } else w

/-- `link.write`'s counter update: once, when the sink ended without a write error. -/
def World.countS (w : World) (pn : String) (k : Labels) (nl : NLink) : World :=
  if nl.l.destClosed && !nl.l.sinkErr && !w.countedS.contains (pn, nl.name) then
    { w with sent := addCtr w.sent k nl.l.delivered.length, countedS := (pn, nl.name) :: w.countedS } else w

/-- Account one link of proxy `pn` with labels `k`. -/
def World.countLink (w : World) (pn : String) (k : Labels) (nl : NLink) : World :=
  (w.countR pn k nl).countS pn k nl

/-- Add the counters of links that finished since the last time. -/
def World.count (w : World) (p : PProxy) (labs : String → Option Labels) : World :=
  (allLinks p.coll).foldl (fun (w : World) nl =>
    match labs nl.name with
    | none => w
    | some k => w.countLink p.name k nl) w

/-- Goroutines of toxiproxy code alive for a proxy: per link the source goroutine until its
source ended, every running stub, the sink goroutine until it closed the destination (and
the goroutine it leaves draining the last stub's output after a failed write);
two more (accept loop, freeBlocker) while the proxy is enabled. -/
def goroutines (p : PProxy) : Nat × Nat × Nat × Nat :=
  let ls := allLinks p.coll
  let src := (ls.filter fun nl => !nl.l.srcDone).length
  let stubs := (ls.map fun nl => (nl.l.stages.filter fun s => s.pc.running).length).foldl (· + ·) 0
  let sinks := (ls.filter fun nl => !nl.l.destClosed || nl.l.sinkDrain).length
  (src, stubs, sinks, if p.enabled then 2 else 0)

def isReset : Cfg → Bool
  | .resetPeer _ => true
  | _ => false

/-- The accept loop takes a client: dial the upstream; on success register both sockets and
start the two links over the *current* chains. -/
def PProxy.accept (p : PProxy) (cname : String) : PProxy :=
  let linger := (p.coll.up ++ p.coll.down).any fun t => isReset t.cfg
  let c : CConn := { name := cname, linger0 := linger, labUp := labelsOf p .up, labDown := labelsOf p .down }
  let coll := { p.coll with links := p.coll.links ++
    [⟨upName cname, .up, Link.new p.coll.up p.coll.now⟩, ⟨downName cname, .down, Link.new p.coll.down p.coll.now⟩] }
  { p with coll := coll, conns := p.conns ++ [c] }

/-- `stop(proxy)`: the listener is closed, the accept loop has exited, and every registered
socket is closed: both peers of every connection see the end, every link's source read and
sink write fail from now on. -/
def PProxy.stop (p : PProxy) : PProxy :=
  if !p.enabled then p else
  let conns := p.conns.map fun c =>
    { c with client := { c.client with ended := true, rst := c.linger0 },
             server := { c.server with ended := true, rst := c.linger0 } }
  let kill := fun (l : Link) => { l with srcEOF := true, srcQ := [], sinkFail := true, srcCut := l.srcCut || !l.srcDone,
                                         cutHi := max l.cutHi (l.sent.length + (l.srcQ.map List.length).sum) }
  let coll := { p.coll with links := p.coll.links.map (fun nl => { nl with l := kill nl.l }),
                            dead := p.coll.dead.map (fun nl => { nl with l := kill nl.l }) }
  { p with enabled := false, conns := conns, coll := coll }

/-- A peer resets its connection (`SO_LINGER 0` + close): the link reading from that socket
gets an error (its source ends), every later write to it fails. -/
def PProxy.abort (p : PProxy) (cname : String) (client : Bool) : PProxy :=
  let rd := if client then upName cname else downName cname
  let wr := if client then downName cname else upName cname
  -- (when the proxy had not read everything the peer sent, how much it had read is timing)
  let coll1 := updLink p.coll rd (fun l => if l.srcEOF then l else
    { l with srcEOF := true, srcQ := [], srcCut := l.srcCut || !l.srcQ.isEmpty,
             cutHi := max l.cutHi (l.sent.length + (l.srcQ.map List.length).sum) })
  -- (the link writing to that socket fails and drains; meanwhile the other link ends and
  -- closes the socket this one reads from: how much of a backlog it still reads is timing)
  let failing := fun (l : Link) =>
    { l with sinkFail := true, srcCut := l.srcCut || !l.srcQ.isEmpty,
             cutHi := max l.cutHi (l.sent.length + (l.srcQ.map List.length).sum) }
  let coll2 := updLink coll1 wr failing
  let conns := p.conns.map fun c =>
    if c.name != cname then c
    else if client then { c with client := { c.client with ended := true } }
    else { c with server := { c.server with ended := true } }
  { p with coll := coll2, conns := conns }

/-- A peer stops / resumes reading: writes towards it block (the harness sends enough to
fill the kernel's buffers before anything depends on it). -/
def PProxy.setReading (p : PProxy) (cname : String) (client : Bool) (reading : Bool) : PProxy :=
  let wr := if client then downName cname else upName cname
  { p with coll := updLink p.coll wr (fun l => { l with sinkReady := reading }) }

def PProxy.labs (p : PProxy) (n : String) : Option Labels :=
  p.conns.findSome? fun c =>
    if upName c.name == n then some c.labUp else if downName c.name == n then some c.labDown else none

/-- Everything to quiescence, then account the counters. -/
def World.settle (w : World) : World :=
  let ps := w.proxies.map (PProxy.settle 50)
  let gs := w.gone.map (PProxy.settle 50)
  let dur := ((w.proxies ++ w.gone).zip (ps ++ gs)).foldl (fun (acc : Int) pq => max acc (pq.2.coll.now - pq.1.coll.now)) 0
  let w1 := { w with proxies := ps, gone := gs, elapsed := dur }
  (ps ++ gs).foldl (fun w p => w.count p p.labs) w1

/-- The same without letting time pass. -/
def World.settleNow (w : World) : World :=
  let ps := w.proxies.map (PProxy.settleNow 50)
  let gs := w.gone.map (PProxy.settleNow 50)
  let w1 := { w with proxies := ps, gone := gs }
  (ps ++ gs).foldl (fun w p => w.count p p.labs) w1

end Toxi.Conn
