import Toxi.Model.Api
/-
Block-level model of concurrent API requests (C16).  Core Lean only.

A handler of `api.go` runs as a sequence of *blocks*; inside a block it holds the lock that
makes the block atomic, between blocks it holds nothing:

  * `ProxyCreate`, `ProxyDelete`, `Populate` (per entry: one body here is one entry in the
    concurrent histories), reads, `ResetState`: **one block** — `ProxyCollection.Add`,
    `Remove`, `AddOrReplace` hold the collection lock from the existence check to the insert /
    delete (facts `tie_collection`).
  * toxic add / update / remove: **two blocks** — look the proxy object up (collection
    read lock), then operate on *that object* under its ToxicCollection lock
    (facts `tie_toxic_json`).
  * `ProxyUpdate` (enable, disable, re-address): **three blocks** — look the proxy object up;
    read its current listen/upstream/enabled *without any lock* as defaults and decode the
    body over them; `proxy.Update` under the proxy lock — whose stop-then-start of a
    re-addressed proxy is visible step by step to the unlocked readers (stopped; new
    addresses stored; started: three blocks).

Between a lookup and the later blocks the proxy may have been deleted or replaced: the
handler then operates on an object that is no longer registered.  Objects are identified by
(name, epoch): the epoch of a name grows whenever a proxy of that name is created, deleted or
replaced.  A listener started on an unregistered object is a *zombie*: its port is bound but
no proxy of the registry owns it.
-/
namespace Toxi.Conc
open Toxi.Api

inductive Phase where
  | start
  | found (obj : ProxyRec) (epoch : Nat)
  | ready (obj : ProxyRec) (epoch : Nat) (inp : ProxyInput)
  | stopped (cur : ProxyRec) (epoch : Nat) (inp : ProxyInput)   -- inside `Proxy.Update`: stopped, old addresses
  | restart (mid : ProxyRec) (epoch : Nat) (inp : ProxyInput)   -- inside `Proxy.Update`: stopped, re-addressed
  | replacing (x : PopEntry)   -- inside `AddOrReplace`: the existing proxy is stopped, the new one not yet started
  | done (resp : Response)
deriving Inhabited

structure CState where
  s       : State := []
  epochs  : List (String × Nat) := []
  zombies : List Nat := []       -- ports bound by listeners of unregistered proxy objects
  /-- names whose proxy mutex is held across two blocks (a `Proxy.Update` that is half-way) -/
  locked  : List String := []
  /-- proxy objects that were deleted or replaced while a handler still holds them: requests
  that share such an object see each other's changes to it -/
  dead    : List ((String × Nat) × ProxyRec) := []
deriving Inhabited

def CState.epoch (c : CState) (n : String) : Nat := (c.epochs.lookup n).getD 0

def bump (eps : List (String × Nat)) (n : String) : List (String × Nat) :=
  (n, (eps.lookup n).getD 0 + 1) :: eps.filter (·.1 != n)

/-- Epochs after a single-block request moved the registry from `s` to `s'`: every name whose
record appeared, disappeared or changed address identity is a new object. -/
def reEpoch (eps : List (String × Nat)) (s s' : State) : List (String × Nat) :=
  let names := (s.map (·.name) ++ s'.map (·.name)).eraseDups
  names.foldl (fun acc n =>
    match s.find n, s'.find n with
    | some a, some b => if a.listen != b.listen || a.upstream != b.upstream then bump acc n else acc
    | none, none => acc
    | _, _ => bump acc n) eps

/-- The records that stop being the registered object of their name when the registry moves
from `s` to `s'` (deleted, or replaced by another address): kept, stopped, under their old
epoch. -/
def retired (eps : List (String × Nat)) (s s' : State) : List ((String × Nat) × ProxyRec) :=
  s.filterMap fun a =>
    let gone := match s'.find a.name with
      | some b => a.listen != b.listen || a.upstream != b.upstream
      | none => true
    if gone then some ((a.name, (eps.lookup a.name).getD 0), { a with enabled := false }) else none

inductive Kind where
  | single            -- one block: `Api.step`
  | update (name : String)
  | toxic (name : String)
  | replace           -- `POST /populate`: `AddOrReplace` stops the existing proxy, then starts the new one
deriving DecidableEq, Repr

/-- Which handler (hence which block structure) a request runs. -/
def kindOf (r : Request) : Kind :=
  match routeMethods r.path with
  | none => .single
  | some ms =>
    if !ms.contains r.method || r.browser then .single
    else match r.path, r.method with
      | ["proxies", _], .get => .single
      | ["proxies", _], .delete => .single
      | ["proxies", n], _ => .update n
      | ["proxies", _, "toxics"], .get => .single
      | ["proxies", n, "toxics"], _ => .toxic n
      | ["proxies", _, "toxics", _], .get => .single
      | ["proxies", n, "toxics", _], _ => .toxic n
      | ["populate"], _ => .replace
      | _, _ => .single

/-- The current record of the object (name, epoch) if it is still the registered one. -/
def CState.live (c : CState) (n : String) (ep : Nat) : Option ProxyRec :=
  if c.epoch n == ep then c.s.find n else none

def portOf (e : Env) (listen : String) : Option Nat := (e.lookup listen).map (·.port)

/-- The collection lock, when it is held across two blocks (`AddOrReplace` between
`existing.Stop()` and `proxy.Start()`), as an entry of `locked`: no proxy has this name (the
harness never uses it). -/
def collLock : String := "\u0000collection"

/-- `AddOrReplace` for a single-entry populate that replaces a proxy (running or stopped): the
entry and the registry after `existing.Stop()` (which does nothing to a stopped proxy).  The
collection lock is held from here to the start of the replacement, but `Proxy.Update` takes only
a proxy's mutex: an update of another proxy can bind the port that was just freed, and an update
of the *old object of this name* (looked up before the populate took the lock) can start it again
- on the very port the replacement is about to bind. -/
def stopFirst (e : Env) (s : State) (r : Request) : Option (PopEntry × State) :=
  match decodePopulate r.body with
  | some [x] =>
    if x.name == "" || x.upstream == "" then none else
    match s.find x.name with
    | some ex =>
      (match e.resolve x.listen with
       | none => none
       | some _ =>
         if e.sameListen ex.listen x.listen && ex.upstream == x.upstream then none
         else some (x, s.replace { ex with enabled := false }))
    | none => none
  | _ => none

/-- One block of request `r` in phase `ph`. -/
def advance (v : UpdVariant) (e0 : Env) (c : CState) (r : Request) (ph : Phase) : CState × Phase :=
  -- ports held by zombie listeners are busy for everybody
  let e : Env := { e0 with busy := e0.busy ++ c.zombies }
  match ph with
  | .done resp => (c, .done resp)
  | .start =>
    -- every handler starts by taking the collection lock (for reading or writing)
    if c.locked.contains collLock then (c, .start) else
    (match kindOf r with
     | .replace =>
       (match stopFirst e c.s r with
        | some (x, s1) =>
          -- `existing.Stop()` takes the proxy's mutex: it waits for a half-way `Proxy.Update`
          if c.locked.contains x.name then (c, .start) else
          ({ c with s := s1, locked := collLock :: c.locked }, .replacing x)
        | none =>
          let (s', resp) := step v e c.s r
          ({ c with s := s', epochs := reEpoch c.epochs c.s s', dead := c.dead ++ retired c.epochs c.s s' }, .done resp))
     | .single =>
       -- `Remove` stops the proxy under its mutex: it waits for a half-way `Proxy.Update`
       let blocked := match r.path, r.method with
         | ["proxies", n], .delete => c.locked.contains n
         | _, _ => false
       if blocked then (c, .start) else
       let (s', resp) := step v e c.s r
       ({ c with s := s', epochs := reEpoch c.epochs c.s s', dead := c.dead ++ retired c.epochs c.s s' }, .done resp)
     | .update n | .toxic n =>
       match c.s.find n with
       | none => (c, .done (errResp .proxyNotFound))
       | some p => (c, .found p (c.epoch n)))
  | .found obj ep =>
    (match kindOf r with
     | .update n =>
       -- defaults are read from the object as it is now (a deleted object was stopped)
       -- (an approximation: the three unlocked reads - Listen, Upstream, Enabled - are one block; a
       -- reader overtaken by two complete updates between two of them sees a combination that no
       -- state of this model has)
       let cur := (c.live n ep).getD ((c.dead.lookup (n, ep)).getD { obj with enabled := false })
       (match decodeProxy ⟨cur.name, cur.listen, cur.upstream, cur.enabled⟩ r.body with
        | none => (c, .done (errResp .badRequestBody))
        | some inp => (c, .ready cur ep inp))
     | .toxic n =>
       (match c.live n ep with
        | some _ =>
          -- the object is still registered: the effect is the handler's on the registry
          let (s', resp) := step v e c.s r
          ({ c with s := s' }, .done resp)
        | none =>
          -- operate on the unregistered object (as the requests that still hold it have left
          -- it): the registry is untouched, the object keeps the change
          let d0 := (c.dead.lookup (n, ep)).getD { obj with enabled := false }
          let (s1, resp) := step v e [d0] r
          let d1 := (s1.find n).getD d0
          ({ c with dead := ((n, ep), d1) :: c.dead.filter (·.1 != (n, ep)) }, .done resp))
     | _ => (c, .done (errResp .internal)))
  | .ready obj ep inp =>
    (match kindOf r with
     | .update n =>
       (match c.live n ep with
        | some cur =>
          if c.locked.contains n then (c, .ready obj ep inp) else    -- blocked on the proxy mutex
          let differs := !(e.sameListen cur.listen inp.listen) || cur.upstream != inp.upstream
          if differs && cur.enabled && (e.resolve inp.listen).isSome then
            -- `Proxy.Update` re-addresses in two steps under its lock: stop and store the new
            -- addresses, then start again.  The fields are read by other handlers without that
            -- lock (the defaults of a concurrent ProxyUpdate, a GET): the state in between —
            -- stopped, new addresses — is visible to them.
            -- Every assignment is a state of its own for them: first `stop` (enabled = false, old
            -- addresses), then the new addresses, then `start`.
            let off := { cur with enabled := false }
            ({ c with s := c.s.replace off, locked := n :: c.locked }, .stopped off ep inp)
          else
          let (p', ok) := updateProxy e c.s cur inp
          let c' := { c with s := c.s.replace p' }
          (c', .done (if ok then Api.ok 200 (.proxy p') else errResp .internal))
        | none =>
          -- `proxy.Update` on an object that is no longer registered: a listener it starts
          -- is owned by nobody
          -- (a registered proxy of the same name is a different object: it keeps its port; the
          -- dead object gets a name of its own so that `startProxy` does not mistake the two)
          -- (if the object is running - a zombie already - its own port is its own: `Proxy.Update`
          -- stops it before it starts it again, on the same port or on another)
          let d0 := (c.dead.lookup (n, ep)).getD { obj with enabled := false }
          let zs0 := if d0.enabled then (match portOf e d0.listen with | some pt => c.zombies.erase pt | none => c.zombies) else c.zombies
          let eD : Env := { e0 with busy := e0.busy ++ zs0 }
          let (p', ok) := updateProxy eD c.s { d0 with name := d0.name ++ "\u2020" } inp
          let p'' := { p' with name := d0.name }
          let z := if p''.enabled then (match portOf e p''.listen with | some pt => [pt] | none => []) else []
          ({ c with zombies := zs0 ++ z, dead := ((n, ep), p'') :: c.dead.filter (·.1 != (n, ep)) },
           .done (if ok then Api.ok 200 (.proxy p'') else errResp .internal)))
     | _ => (c, .done (errResp .internal)))
  | .replacing x =>
    -- second part of `AddOrReplace` (a simplification: it waits for a `Proxy.Update` that is
    -- half-way on the old object): start the new proxy — on failure the old one stays
    -- registered as it is now —, then register it in place of the old object.  Whatever a
    -- `Proxy.Update` made of the old object in between is not looked at again: if it is
    -- running, its listener is from now on owned by nobody.
    if (c.locked.erase collLock).contains x.name then (c, .replacing x) else
    let c1 := { c with locked := c.locked.erase collLock }
    let np : ProxyRec := ⟨x.name, x.listen, x.upstream, false, []⟩
    let cur := c1.s.find x.name
    let curOn : List Nat := match cur with
      | some q => if q.enabled then (match portOf e q.listen with | some pt => [pt] | none => []) else []
      | none => []
    let e2 : Env := { e with busy := e.busy ++ curOn }
    let fin (p : ProxyRec) : CState × Phase :=
      ({ c1 with s := c1.s.replace p, epochs := bump c1.epochs x.name, zombies := c1.zombies ++ curOn,
                 dead := c1.dead ++ (match cur with | some q => [((x.name, c1.epoch x.name), q)] | none => []) },
       .done ⟨201, .populate [p] none, false, false⟩)
    if x.enabled.getD true then
      match startProxy e2 c1.s np with
      | some p => fin p
      | none => (c1, .done ⟨500, .populate [] (some .internal), true, false⟩)
    else fin np
  | .stopped off ep inp =>
    let mid := { off with listen := inp.listen, upstream := inp.upstream }
    ({ c with s := c.s.replace mid }, .restart mid ep inp)
  | .restart mid _ inp =>
    -- last part of `Proxy.Update` (still under the proxy mutex): start again if asked to
    let c1 := { c with locked := c.locked.erase mid.name }
    if inp.enabled then
      match startProxy e c1.s mid with
      | some p2 => ({ c1 with s := c1.s.replace p2 }, .done (Api.ok 200 (.proxy p2)))
      | none => (c1, .done (errResp .internal))
    else (c1, .done (Api.ok 200 (.proxy mid)))

def Phase.isDone : Phase → Bool
  | .done _ => true
  | _ => false

/-- All blocks of one request, consecutively (nothing interleaved). -/
def runAlone (v : UpdVariant) (e : Env) (c : CState) (r : Request) : CState × Phase :=
  let (c1, p1) := advance v e c r .start
  let (c2, p2) := advance v e c1 r p1
  let (c3, p3) := advance v e c2 r p2
  let (c4, p4) := advance v e c3 r p3
  advance v e c4 r p4

def boundPorts (e : Env) (c : CState) : List Nat := portsInUse e c.s ++ c.zombies

def Phase.status : Phase → Nat
  | .done r => r.status
  | _ => 0

/-- Run a schedule: each entry names the request (by position) whose next block runs. -/
def runSched (v : UpdVariant) (e : Env) (reqs : List Request) : CState → List Phase → List Nat → CState × List Phase
  | c, phs, [] => (c, phs)
  | c, phs, k :: ks =>
    match reqs[k]?, phs[k]? with
    | some r, some ph =>
      let (c', ph') := advance v e c r ph
      runSched v e reqs c' (phs.set k ph') ks
    | _, _ => runSched v e reqs c phs ks

/-- What an observer sees at the end: the registry (name, upstream, enabled), the bound ports,
every request's status (0 = not finished). -/
def outcome (e : Env) (x : CState × List Phase) : List (String × String × Bool) × List Nat × List Nat :=
  (x.1.s.map fun p => (p.name, p.upstream, p.enabled), boundPorts e x.1, x.2.map Phase.status)

end Toxi.Conc
