import Toxi.Model.StageEnv
/-
Model of `link.go` (ToxicLink: Start/read/write, AddToxic, UpdateToxic, RemoveToxic) and of
the per-direction half of `toxic_collection.go` (chain, links, chainAdd/Update/Remove,
ResetToxics, StartLink).  Core Lean only.

A link is: a source goroutine (`io.Copy(link.input, source)`), the stubs (each a `Stage`:
a toxic coroutine of `Model/Toxic.lean` plus its input channel), the sink goroutine
(`io.Copy(dest, link.output)` through the ChanReader) and, while an API call is in progress,
a controller (`Ctl`) that performs the steps of AddToxic / UpdateToxic / RemoveToxic on
this link.  Stub i's output channel is stub i+1's input channel (the list order is the
wiring); the last stub's output feeds the reader.

`Link.move` is one internal step; `settle` runs moves until none is enabled
(testing/synctest's "all goroutines durably blocked"); `advance` lets virtual time pass.
The sink accepts a write only when `sinkReady` (back-pressure is under the environment's
control).
-/
namespace Toxi.Link
open Toxi.Toxic Toxi.Stream

/-- A toxic as the collection's chain holds it. -/
structure TCfg where
  name   : String
  cfg    : Cfg
  active : Bool        -- toxicity is 0 or 1 at link level: the draw is deterministic
  cap    : Nat         -- BufferSize of the toxic (capacity of its input channel)
  cleanup : Bool       -- implements CleanupToxic (timeout)
deriving Repr, DecidableEq, Inhabited

def TCfg.noop : TCfg := ⟨"", .noop, true, 0, false⟩

structure Stage where
  t    : TCfg
  st   : StubSt := {}
  pc   : Pc := .ret
  inq  : List Chunk := []
  intr : IntrSt := .none
  /-- `stub.State` was initialised (`NewState()` of a stateful toxic) when the stub was created -/
  hasState : Bool := false
deriving Repr, DecidableEq

/-- Controller: the API procedure currently running on this link. -/
inductive Ctl where
  | addWait (newT : TCfg)                       -- AddToxic: InterruptToxic(stubs[i-1]) in progress
  | updWait (idx : Nat) (newT : TCfg)           -- UpdateToxic: InterruptToxic(stubs[idx]) in progress
  | rmIntr (idx : Nat) (cleanup : Bool)         -- RemoveToxic: InterruptToxic(stubs[idx]) in progress
  | rmLoop (idx : Nat) (tmp : Option Chunk) (deadline : Int) (stopGot : Bool)
      -- the `for !interrupted` loop; the helper's InterruptToxic(stubs[idx-1]) is stage (idx-1).intr;
      -- tmp: a chunk being written with WriteOutput(…, 5s); stopGot: `<-stop` already received (value false)
  | rmDrain (idx : Nat) (tmp : Option Chunk) (deadline : Int)   -- `for len(Input) > 0`
  | rmWaitStop (idx : Nat)                      -- tmp == nil: stub closed, waiting for the helper
deriving Repr, DecidableEq

structure Delivery where
  time : Int
  data : Bytes
deriving Repr, DecidableEq

structure Link where
  stages   : List Stage
  /-- the last stage was appended by AddToxic but is not wired in yet: its predecessor's
  output still feeds the reader -/
  detached : Bool := false
  srcQ     : List Bytes := []     -- what the source's next Read calls return
  srcEOF   : Bool := false        -- then EOF
  srcPend  : Option Chunk := none -- ChanWriter.Write blocked on the first stub's input
  srcDone  : Bool := false        -- link.input.Close() done
  reads    : Nat := 0             -- Read calls that returned data (observable)
  sinkPend : Option Bytes := none -- dest.Write in progress
  sinkReady : Bool := true
  sinkFail : Bool := false        -- dest.Write returns an error from now on
  sinkErr  : Bool := false        -- a dest.Write did fail (io.Copy returned an error)
  /-- after a failed write the sink goroutine leaves a goroutine that keeps reading (and
  discarding) the last stub's output until it is closed -/
  sinkDrain : Bool := false
  /-- the source was cut off by the proxy closing the socket (not by the peer ending its
  stream): how much had been read by then depends on timing -/
  srcCut   : Bool := false
  /-- … at most everything the peer had sent by then -/
  cutHi    : Nat := 0
  log      : List Delivery := []  -- newest first, since the last protocol line
  delivered : Bytes := []         -- ghost: everything the sink got
  sent     : Bytes := []          -- ghost: everything the source read
  destClosed : Bool := false
  ctl      : Option Ctl := none
  crash    : Option String := none
  race     : Bool := false        -- a Go `select` had two ready cases whose order matters
deriving Repr

/-- The stateful toxic (`StatefulToxic`: only limit_data). -/
def isStateful : Cfg → Bool
  | .limitData _ => true
  | _ => false

/-- `go stub.Run(toxic)`.  `LimitDataToxic.Pipe` starts with
`stub.State.(*LimitDataToxicState)`: on a stub that was created for another toxic (possible
only when `link.stubs` and the chain are out of step) the type assertion panics. -/
def Stage.start (s : Stage) (t : TCfg) (now : Int) : Stage :=
  { s with t := t,
           pc := if t.active && isStateful t.cfg && !s.hasState
                 then .crash "interface conversion: interface {} is nil, not *toxics.LimitDataToxicState"
                 else Toxi.Toxic.start t.cfg t.active now,
           intr := match s.intr with | .done _ => .none | x => x }

/-- A stub as `NewToxicLink` / `AddToxic` create it for toxic `t`. -/
def Stage.fresh (t : TCfg) : Stage := { t := t, hasState := isStateful t.cfg }

/-- A stub started with the toxic it was created for never hits the nil-state panic. -/
theorem Stage.fresh_start (t : TCfg) (now : Int) :
    (Stage.fresh t).start t now = { Stage.fresh t with pc := Toxi.Toxic.start t.cfg t.active now } := by
  have h : (t.active && isStateful t.cfg && !isStateful t.cfg) = false := by
    cases t.active <;> cases isStateful t.cfg <;> rfl
  simp only [Stage.start, Stage.fresh, h, Bool.false_eq_true, if_false]

/-- … nor does any stub (re)started with a stateless toxic. -/
theorem Stage.start_stateless (s : Stage) (t : TCfg) (now : Int) (h : (t.active && isStateful t.cfg) = false) :
    s.start t now = { s with t := t, pc := Toxi.Toxic.start t.cfg t.active now,
                             intr := match s.intr with | .done _ => .none | x => x } := by
  simp [Stage.start, h]

/-- `NewToxicLink` + `Start`: one stub per chain entry, all running. -/
def Link.new (chain : List TCfg) (now : Int) : Link :=
  { stages := chain.map fun t => (Stage.fresh t).start t now }

/-! ### per-stage events -/

def Stage.fire (s : Stage) (ev : Event) : Stage :=
  match step .fixed s.t.cfg s.t.active s.st s.pc ev with
  | some (st, pc) => { s with st := st, pc := pc }
  | none => { s with pc := .crash "model: event not receivable here" }

def drawsConst : List Int := List.replicate 4096 0

/-- Index-based update helpers (list order = wiring). -/
def modifyAt (l : List Stage) (i : Nat) (f : Stage → Stage) : List Stage :=
  l.mapIdx fun j s => if j == i then f s else s

/-- Is the input of stage `i` closed (its upstream closed its output)? -/
def Link.inputClosed (l : Link) (i : Nat) : Bool :=
  if i == 0 then l.srcDone
  else match l.stages[i - 1]? with
    | some s => s.st.closed
    | none => false

/-- The number of wired stages (the reader is fed by stage `wired - 1`). -/
def Link.wired (l : Link) : Nat := if l.detached then l.stages.length - 1 else l.stages.length

/-- Is stage `i` being drained by the RemoveToxic controller (it took over the stub's
channels) rather than by its own `Pipe`? -/
def Link.ctlDrains (l : Link) (i : Nat) : Bool :=
  match l.ctl with
  | some (.rmLoop idx _ _ _) => idx == i
  | some (.rmDrain idx _ _) => idx == i
  | _ => false

/-- Offer currently made towards stage `i`'s input by its upstream neighbour. -/
def Link.offerTo (l : Link) (i : Nat) : Option Chunk :=
  if i == 0 then l.srcPend
  else match l.stages[i - 1]? with
    | some s => if l.ctlDrains (i - 1) then
        (match l.ctl with
         | some (.rmLoop _ (some c) _ _) => some c
         | some (.rmDrain _ (some c) _) => some c
         | _ => none)
      else s.pc.offer
    | none => none

/-- Tell the upstream neighbour of stage `i` that its pending send completed. -/
def Link.ackUpstream (l : Link) (i : Nat) (now : Int) : Link :=
  if i == 0 then { l with srcPend := none }
  else if l.ctlDrains (i - 1) then
    match l.ctl with
    | some (.rmLoop idx (some _) _ sg) => { l with ctl := some (.rmLoop idx none 0 sg) }
    | some (.rmDrain idx (some _) _) => { l with ctl := some (.rmDrain idx none 0) }
    | _ => l
  else { l with stages := modifyAt l.stages (i - 1) fun s => s.fire (.taken now) }

/-- Everything visible on stage `i`'s input: `some (some c)` a chunk (and where it comes
from), `some none` end-of-stream, `none` nothing. -/
inductive InSrc where
  | buffered | rendezvous
deriving Repr, DecidableEq

def Link.inputOf (l : Link) (i : Nat) : Option (Option Chunk × InSrc) :=
  match l.stages[i]? with
  | none => none
  | some s =>
    match s.inq with
    | c :: _ => some (some c, .buffered)
    | [] =>
      match l.offerTo i with
      | some c => some (some c, .rendezvous)
      | none => if l.inputClosed i then some (none, .buffered) else none

/-- Consume what `inputOf` reported. -/
def Link.consume (l : Link) (i : Nat) (src : InSrc) (isChunk : Bool) (now : Int) : Link :=
  if !isChunk then l else
  match src with
  | .buffered => { l with stages := modifyAt l.stages i fun s => { s with inq := s.inq.drop 1 } }
  | .rendezvous => l.ackUpstream i now

def firstSome {α : Type} : List (Unit → Option α) → Option α
  | [] => none
  | f :: fs => match f () with
    | some a => some a
    | none => firstSome fs

/-- Moves of stage `i` (its own goroutine, and the InterruptToxic caller bound to it). -/
def Link.stageMove (l : Link) (i : Nat) (now : Int) (busy : Bool := false) : Option Link :=
  match l.stages[i]? with
  | none => none
  | some s =>
    match s.pc with
    | .crash w => some { l with crash := some w }
    | _ =>
    let due : Bool := match s.pc.timer with | some d => decide (d ≤ now) | none => false
    if due then
      -- a timer that is already due while an API call is reconfiguring the link competes
      -- with that call's interrupts in real time: the outcome is not determined
      let race := l.race || busy || (s.intr == .pending && s.pc.interruptible) ||
        (s.pc.wantsInput && (l.inputOf i).isSome)
      some { l with race := race, stages := modifyAt l.stages i fun s => s.fire (.timer now) }
    else if s.intr == .pending && s.st.closed then
      some { l with stages := modifyAt l.stages i fun s => { s with intr := .done false } }
    else if s.intr == .pending && s.pc.interruptible then
      let race := l.race || (s.pc.wantsInput && (l.inputOf i).isSome &&
        !(l.detached && i + 1 == l.stages.length))
      some { l with race := race, stages := modifyAt l.stages i fun s => { (s.fire (.interrupt now)) with intr := .waitRet } }
    else if s.intr == .waitRet && !s.pc.running then
      some { l with stages := modifyAt l.stages i fun s => { s with intr := .done true } }
    else if s.pc.wantsInput && !(l.detached && i + 1 == l.stages.length) then
      match l.inputOf i with
      | some (c, src) =>
        let l1 := l.consume i src c.isSome now
        some { l1 with stages := modifyAt l1.stages i fun s => s.fire (.input c now drawsConst) }
      | none => none
    else if s.st.closed && !s.pc.running && !l.ctlDrains i then
      -- `ToxicStub.Close` leaves a goroutine draining the stub's input: chunks that still
      -- arrive are received and dropped, so nothing upstream stays blocked on a send
      match l.inputOf i with
      | some (some _, src) => some (l.consume i src true now)
      | _ => none
    else none

/-- Buffered channel: an upstream offer moves into stage `i`'s buffer when there is room. -/
def Link.bufferMove (l : Link) (i : Nat) (now : Int) : Option Link :=
  match l.stages[i]? with
  | none => none
  | some s =>
    if s.inq.length < s.t.cap && !(l.detached && i + 1 == l.stages.length) then
      match l.offerTo i with
      | some c =>
        let l1 := l.ackUpstream i now
        some { l1 with stages := modifyAt l1.stages i fun s => { s with inq := s.inq ++ [c] } }
      | none => none
    else none

def Link.sourceMove (l : Link) (now : Int) : Option Link :=
  if l.srcPend.isNone && !l.srcDone then
    match l.srcQ with
    | d :: q => some { l with srcQ := q, srcPend := some ⟨d, now⟩, sent := l.sent ++ d, reads := l.reads + 1 }
    | [] => if l.srcEOF then some { l with srcDone := true } else none
  else none

/-- The sink goroutine: `io.Copy(dest, link.output)`. -/
def Link.sinkMove (l : Link) (now : Int) : Option Link :=
  if l.destClosed then
    -- `go io.Copy(io.Discard, link.output)` after a failed write
    if !l.sinkDrain then none else
    let w := l.wired
    if w == 0 then none else
    match l.offerTo w with
    | some _ => some (l.ackUpstream w now)
    | none => if l.inputClosed w then some { l with sinkDrain := false } else none
  else
  match l.sinkPend with
  | some d =>
    if l.sinkFail then some { l with sinkPend := none, destClosed := true, sinkErr := true, sinkDrain := true }
    else if l.sinkReady then
      some { l with sinkPend := none, log := ⟨now, d⟩ :: l.log, delivered := l.delivered ++ d }
    else none
  | none =>
    let w := l.wired
    if w == 0 then none else
    match l.offerTo w with
    | some c =>
      -- io.Copy writes only when Read returned at least one byte
      some { (l.ackUpstream w now) with sinkPend := if c.data.isEmpty then none else some c.data }
    | none => if l.inputClosed w then some { l with destClosed := true } else none

def restartAt (l : Link) (chain : List TCfg) (i : Nat) (now : Int) : Link :=
  match chain[i]? with
  | some t => { l with stages := modifyAt l.stages i fun s => s.start t now }
  | none => { l with crash := some s!"index out of range [{i}] with length {chain.length}" }

/-- The controller's next step. -/
def Link.ctlMove (l : Link) (chain : List TCfg) (now : Int) : Option Link :=
  match l.ctl with
  | none => none
  | some (.addWait newT) =>
    let i := l.stages.length - 1        -- index of the appended stub
    (match l.stages[i - 1]? with
     | none => none
     | some prev =>
       match prev.intr with
       | .done true =>
         let l1 := { l with detached := false, ctl := none, stages := modifyAt l.stages (i - 1) fun s => { s with intr := .none } }
         let l2 := { l1 with stages := modifyAt l1.stages i fun s => s.start newT now }
         some (restartAt l2 chain (i - 1) now)
       | .done false =>
         some { l with detached := false, ctl := none, stages := modifyAt (modifyAt l.stages (i - 1) fun s => { s with intr := .none }) i fun s => { s with st := { s.st with closed := true } } }
       | _ => none)
  | some (.updWait idx newT) =>
    (match l.stages[idx]? with
     | none => some { l with crash := some "index out of range (UpdateToxic)" }
     | some s =>
       match s.intr with
       | .done true => some { l with ctl := none, stages := modifyAt l.stages idx fun s => ({ s with intr := .none }).start newT now }
       | .done false => some { l with ctl := none, stages := modifyAt l.stages idx fun s => { s with intr := .none } }
       | _ => none)
  | some (.rmIntr idx cleanup) =>
    (match l.stages[idx]? with
     | none => some { l with crash := some "index out of range (RemoveToxic)" }
     | some s =>
       match s.intr with
       | .done false => some { l with ctl := none, stages := modifyAt l.stages idx fun s => { s with intr := .none } }
       | .done true =>
         if cleanup then
           -- Cleanup closes the stub; RemoveToxic returns without splicing
           some { l with ctl := none, stages := modifyAt l.stages idx fun s => { s with intr := .none, st := { s.st with closed := true } } }
         else
           -- start the helper: InterruptToxic(stubs[idx-1])
           some { l with ctl := some (.rmLoop idx none 0 false), stages := modifyAt (modifyAt l.stages idx fun s => { s with intr := .none }) (idx - 1) fun s => { s with intr := .pending } }
       | _ => none)
  | some (.rmLoop idx tmp deadline stopGot) =>
    (match tmp with
     | some _ =>
       -- WriteOutput(tmp, 5 s) gives up when its timer fires
       if decide (deadline ≤ now) then some { l with ctl := some (.rmLoop idx none 0 stopGot) } else none
     | none =>
       let helper := (l.stages[idx - 1]?).map (·.intr)
       if helper == some (IntrSt.done true) then
         some { l with ctl := some (.rmDrain idx none 0), stages := modifyAt l.stages (idx - 1) fun s => { s with intr := .none } }
       else if helper == some (IntrSt.done false) && !stopGot then
         some { l with ctl := some (.rmLoop idx none 0 true), stages := modifyAt l.stages (idx - 1) fun s => { s with intr := .none } }
       else
         match l.inputOf idx with
         | some (some c, src) =>
           let l1 := l.consume idx src true now
           some { l1 with ctl := some (.rmLoop idx (some c) (now + 5000 * ms) stopGot) }
         | some (none, _) =>
           -- tmp == nil: close the stub, wait for the helper unless it already reported
           let l1 := { l with stages := modifyAt l.stages idx fun s => { s with st := { s.st with closed := true } } }
           if stopGot then some { l1 with ctl := none } else some { l1 with ctl := some (.rmWaitStop idx) }
         | none => none)
  | some (.rmWaitStop idx) =>
    (match ((l.stages[idx - 1]?).map (·.intr) : Option IntrSt) with
     | some (IntrSt.done _) =>
       some { l with ctl := none, stages := modifyAt l.stages (idx - 1) fun s => { s with intr := .none } }
     | _ => none)
  | some (.rmDrain idx tmp deadline) =>
    (match tmp with
     | some _ => if decide (deadline ≤ now) then some { l with ctl := some (.rmDrain idx none 0) } else none
     | none =>
       match (l.stages[idx]?).map (·.inq) with
       | some (c :: _) =>
         some { l with ctl := some (.rmDrain idx (some c) (now + 5000 * ms)), stages := modifyAt l.stages idx fun s => { s with inq := s.inq.drop 1 } }
       | _ =>
         -- splice the stub out and restart its predecessor with chain[idx-1]
         let l1 := { l with ctl := none, stages := l.stages.eraseIdx idx }
         some (restartAt l1 chain (idx - 1) now))

/-- One internal move of the link at clock `now`, or `none` when quiescent.  The order of
the alternatives is irrelevant for the quiescent state reached (the network is confluent
apart from `select`s with two ready cases, which the engines avoid). -/
def Link.move (l : Link) (chain : List TCfg) (now : Int) (busy : Bool := false) : Option Link :=
  if l.crash.isSome then none else
  firstSome (
    [fun _ => l.ctlMove chain now, fun _ => l.sinkMove now] ++
    ((List.range l.stages.length).reverse.flatMap fun i =>
      [fun _ => l.stageMove i now busy, fun _ => l.bufferMove i now]) ++
    [fun _ => l.sourceMove now])

def Link.settle (chain : List TCfg) (now : Int) : Nat → Link → Link
  | 0, l => { l with crash := some "model: settle fuel exhausted" }
  | n + 1, l => match l.move chain now with
    | some l' => Link.settle chain now n l'
    | none => l

/-- Earliest pending timer of the link (stage timers and the controller's 5 s give-up). -/
def Link.nextTimer (l : Link) : Option Int :=
  let ts := l.stages.filterMap (·.pc.timer) ++
    (match l.ctl with
     | some (.rmLoop _ (some _) d _) => [d]
     | some (.rmDrain _ (some _) d) => [d]
     | _ => [])
  ts.foldl (fun acc t => match acc with | none => some t | some a => some (min a t)) none

end Toxi.Link

/-! ## The collection: chains, links, and the API procedures across links -/
namespace Toxi.Link
open Toxi.Toxic Toxi.Stream

inductive Dir where | up | down
deriving Repr, DecidableEq, Inhabited

structure NLink where
  name : String
  dir  : Dir
  l    : Link
deriving Repr

/-- A pending step of the API call that holds the collection mutex. -/
inductive ApiStep where
  | remove (dir : Dir) (name : String)      -- chainRemoveToxic of that toxic (used by ResetToxics)
deriving Repr, DecidableEq

structure Coll where
  up    : List TCfg := [TCfg.noop]
  down  : List TCfg := [TCfg.noop]
  links : List NLink := []
  /-- links whose sink goroutine has ended and which were removed from the collection;
  their remaining goroutines (source, stubs) live on until they can exit -/
  dead  : List NLink := []
  now   : Int := 0
  busy  : Bool := false          -- an API call holds the collection mutex
  queue : List ApiStep := []     -- remaining removals of a ResetToxics
  crash : Option String := none
deriving Repr

def Coll.chain (c : Coll) : Dir → List TCfg
  | .up => c.up
  | .down => c.down

def Coll.setChain (c : Coll) (d : Dir) (ch : List TCfg) : Coll :=
  match d with
  | .up => { c with up := ch }
  | .down => { c with down := ch }

def findIdx (ch : List TCfg) (name : String) : Option Nat :=
  let i := ch.findIdx (·.name == name)
  if i < ch.length && i > 0 then some i else none

def Coll.findToxic (c : Coll) (name : String) : Option (Dir × Nat) :=
  match findIdx c.up name with
  | some i => some (.up, i)
  | none => (findIdx c.down name).map fun i => (.down, i)

def mapLinks (c : Coll) (d : Dir) (f : Link → Link) : Coll :=
  { c with links := c.links.map fun nl => if nl.dir == d then { nl with l := f nl.l } else nl }

/-- `ToxicLink.AddToxic` up to its `InterruptToxic`: append the stub (not yet wired) and start
interrupting the last one. -/
def Link.beginAdd (l : Link) (t : TCfg) : Link :=
  let i := l.stages.length
  { l with stages := modifyAt (l.stages ++ [Stage.fresh t]) (i - 1) (fun s => { s with intr := .pending }), detached := true, ctl := some (.addWait t) }

/-- `ToxicLink.UpdateToxic` up to its `InterruptToxic`. -/
def Link.beginUpdate (l : Link) (idx : Nat) (t : TCfg) : Link :=
  { l with stages := modifyAt l.stages idx (fun s => { s with intr := .pending }), ctl := some (.updWait idx t) }

/-- `ToxicLink.RemoveToxic` up to its first `InterruptToxic`. -/
def Link.beginRemove (l : Link) (idx : Nat) (cleanup : Bool) : Link :=
  { l with stages := modifyAt l.stages idx (fun s => { s with intr := .pending }), ctl := some (.rmIntr idx cleanup) }

/-- `chainAddToxic`: append to the chain; on every link of the direction, append the stub
(not yet wired) and start interrupting the last one. -/
def Coll.addToxic (c : Coll) (d : Dir) (t : TCfg) : Coll :=
  let c1 := c.setChain d (c.chain d ++ [t])
  let c2 := mapLinks c1 d fun l => l.beginAdd t
  { c2 with busy := true }

/-- `chainUpdateToxic`. -/
def Coll.updateToxic (c : Coll) (d : Dir) (idx : Nat) (t : TCfg) : Coll :=
  let c1 := c.setChain d ((c.chain d).set idx t)
  let c2 := mapLinks c1 d fun l => l.beginUpdate idx t
  { c2 with busy := true }

/-- `chainRemoveToxic`. -/
def Coll.removeToxic (c : Coll) (d : Dir) (idx : Nat) : Coll :=
  let cleanup := ((c.chain d)[idx]?).map (·.cleanup) |>.getD false
  let c1 := c.setChain d ((c.chain d).eraseIdx idx)
  let c2 := mapLinks c1 d fun l => l.beginRemove idx cleanup
  { c2 with busy := true }

def Coll.linkMove (c : Coll) : List NLink → Option (List NLink)
  | [] => none
  | nl :: rest =>
    match nl.l.move (c.chain nl.dir) c.now c.busy with
    | some l' => some ({ nl with l := l' } :: rest)
    | none => (Coll.linkMove c rest).map (nl :: ·)

/-- One move of the whole collection. -/
def Coll.move (c : Coll) : Option Coll :=
  if c.crash.isSome then none else
  match c.links.find? (·.l.crash.isSome) with
  | some nl => some { c with crash := nl.l.crash }
  | none =>
  match Coll.linkMove c c.links with
  | some ls => some { c with links := ls }
  | none =>
  match Coll.linkMove { c with busy := false } c.dead with
  | some ls => some { c with dead := ls }
  | none =>
    if c.busy && c.links.all (·.l.ctl.isNone) then
      -- wg.Wait() returned
      match c.queue with
      | .remove d name :: q =>
        (match findIdx (c.chain d) name with
         | some i => some { (c.removeToxic d i) with queue := q }
         | none => some { c with queue := q })
      | [] => some { c with busy := false }
    else if !c.busy && c.links.any (·.l.destClosed) then
      -- RemoveLink / RemoveConnection (need the collection mutex)
      some { c with links := c.links.filter (!·.l.destClosed), dead := c.dead ++ c.links.filter (·.l.destClosed) }
    else none

def Coll.settle : Nat → Coll → Coll
  | 0, c => { c with crash := some "model: settle fuel exhausted" }
  | n + 1, c => match c.move with
    | some c' => Coll.settle n c'
    | none => c

def Coll.nextTimer (c : Coll) : Option Int :=
  ((c.links ++ c.dead).filterMap (·.l.nextTimer)).foldl
    (fun acc t => match acc with | none => some t | some a => some (min a t)) none

def Coll.advance : Nat → Coll → Int → Coll
  | 0, c, _ => { c with crash := some "model: advance fuel exhausted" }
  | n + 1, c, target =>
    let c := c.settle 100000
    match c.nextTimer with
    | some d => if d ≤ target then Coll.advance n { c with now := max c.now d } target
                else { c with now := max c.now target }
    | none => { c with now := max c.now target }

end Toxi.Link
